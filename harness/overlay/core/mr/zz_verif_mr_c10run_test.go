//go:build verif

package mr

// C10 driver, part 2: steered replay of TLC schedules, hook gates, free-running stress.

import (
	"encoding/json"
	"math/rand"
	"runtime"
	"strconv"
	"sync/atomic"
	"testing"

	"github.com/zeromicro/go-zero/internal/verifhook"
)

// ---------------------------------------------------------------- hook gates (steering only)

// atHook: gate points inside the library (present only if the tree has them): the caller just before its
// select, and the reducer's Write between its guard and its send.
func (c *verifMRCall) atHook(point string, args ...any) {
	key := ""
	switch point {
	case verifMRHookSelect:
		key = "main"
	case verifMRHookWrite:
		if verifMRGID() == atomic.LoadInt64(&c.redGID) {
			key = "write"
		}
	}
	if key == "" {
		return
	}
	c.mu.Lock()
	if !c.hookOn {
		c.mu.Unlock()
		return
	}
	h := make(chan struct{})
	c.hooks[key] = h
	c.mu.Unlock()
	<-h
}

func (c *verifMRCall) releaseHook(key string) bool {
	c.mu.Lock()
	defer c.mu.Unlock()
	if h, ok := c.hooks[key]; ok {
		delete(c.hooks, key)
		close(h)
		return true
	}
	return false
}

// verifMRHookPoints: which gate points does this tree have?
func verifMRHookPoints() map[string]bool {
	seen := map[string]bool{}
	verifhook.Set(func(point string, args ...any) { seen[point] = true })
	defer verifhook.Set(nil)
	_, _ = MapReduce(func(source chan<- int) { source <- 1 },
		func(item int, w Writer[int], cancel func(error)) { w.Write(item) },
		func(pipe <-chan int, w Writer[int], cancel func(error)) {
			for range pipe {
			}
			w.Write(1)
		}, WithWorkers(1))
	return seen
}

// ---------------------------------------------------------------- steered replay

type verifMRStep struct {
	Op string `json:"op"` // gen | map | red | ctx | hook
	A  string `json:"a"`
	I  int    `json:"i"`
	E  int    `json:"e"` // cancel: the error identity the model chose (MR.tla "error domain")
	Pt string `json:"pt"`
}

type verifMRSchedule struct {
	Api     string        `json:"api"`
	Wset    bool          `json:"wset"`    // WithWorkers(Workers) is passed
	Workers int           `json:"workers"` // the raw option value (0 and negative counts included)
	Ctx     bool          `json:"ctx"`
	Hook    bool          `json:"hook"`
	Steps   []verifMRStep `json:"steps"`
}

func (c *verifMRCall) dispatch(s verifMRStep) {
	name := ""
	switch s.Op {
	case "gen":
		name = "gen"
	case "red":
		name = "red"
	case "map":
		name = "map:" + strconv.Itoa(s.I)
	case "ctx":
		c.endCtx()
		return
	case "hook":
		if !c.releaseHook(s.Pt) {
			c.skipped++
		}
		return
	default:
		c.t.Fatalf("unknown step %q", s.Op)
	}
	c.mu.Lock()
	a := c.actors[name]
	c.mu.Unlock()
	if a == nil || atomic.LoadInt32(&a.waiting) != 1 {
		c.skipped++ // the real run took another (legal) turn than the model's: the step does not apply
		return
	}
	select {
	case a.cmd <- verifMROp{A: s.A, E: s.E}:
	default:
		c.skipped++
	}
}

func verifMRRunSchedule(t *testing.T, em *verifEmitter, in verifMRSchedule) {
	c := newVerifMRCall(t, em, in.Api, in.Wset, in.Workers, in.Ctx)
	c.steer = true
	c.hookOn = in.Hook
	if in.Hook {
		verifhook.Set(c.atHook)
		defer verifhook.Set(nil)
	}
	c.start()
	c.settle()
	for _, s := range in.Steps {
		c.dispatch(s)
		c.settle()
	}
	c.finish()
}

// TestVerifMRReplay replays TLC-generated environment schedules (MRImpl.tla, steering mode).
// Input lines: {"api":..,"workers":..,"ctx":bool,"hook":bool,"steps":[...]}.
func TestVerifMRReplay(t *testing.T) {
	em := verifOpen(t)
	defer em.Close()
	points := verifMRHookPoints()
	hookOK := points[verifMRHookSelect] && points[verifMRHookWrite]
	skipped, ran := 0, 0
	for _, raw := range verifInput(t) {
		var in verifMRSchedule
		if err := json.Unmarshal(raw, &in); err != nil {
			t.Fatal(err)
		}
		if in.Hook && !hookOK {
			skipped++
			continue
		}
		if atomic.LoadInt32(&verifMRStuckCalls) >= verifMRMaxStuck {
			break
		}
		verifMRRunSchedule(t, em, in)
		ran++
	}
	em.Emit(verifEv{"e": "reset", "api": "foreach", "wset": true, "wopt": 1, "defw": defaultWorkers, "call": "none"})
	em.Emit(verifEv{"e": "info", "hook": hookOK, "hookSkipped": skipped, "ran": ran})
}

// ---------------------------------------------------------------- free-running stress

type verifMRPlan struct {
	api      string
	workers  int
	nitems   int
	fanout   int
	redMode  int // 0 full+write, 1 write first then full, 2 full no write, 3 partial (k receives) then write, 4 partial then return
	redK     int
	cancelBy int // 0 none, >0 mapper of that item, -1 reducer
	cancelE  int // 0 nil
	cancelAt int // mapper: 0 before its writes, 1 after; reducer: after that many receives
	cancel2  int // a second cancelling mapper (0 none)
	panicBy  int // 0 none, >0 mapper, -1 reducer, -2 generator
	panicAt  int // generator: before sending item panicAt+1; reducer: after that many receives; mapper: 0 before / 1 after writes
	panic2   int // a second panicking mapper
	stalls   map[string]bool
	yield    int // 0 none, 1 gosched, 2 short sleeps
}

func (p *verifMRPlan) pert(rnd interface{ Intn(int) int }) []verifMROp {
	switch p.yield {
	case 1:
		if n := rnd.Intn(4); n > 0 {
			return []verifMROp{{A: "yield", E: n}}
		}
	case 2:
		if rnd.Intn(2) == 0 {
			return []verifMROp{{A: "sleep", E: rnd.Intn(120)}}
		}
		return []verifMROp{{A: "yield", E: 1}}
	}
	return nil
}

func (p *verifMRPlan) script(rnd interface{ Intn(int) int }, name string, item int) []verifMROp {
	var s []verifMROp
	add := func(a string, e int) { s = append(s, p.pert(rnd)...); s = append(s, verifMROp{A: a, E: e}) }
	if p.stalls["1:"+name] {
		s = append(s, verifMROp{A: "stall1"})
	}
	if p.stalls[name] {
		s = append(s, verifMROp{A: "stall"})
	}
	switch {
	case name == "gen":
		for i := 0; i < p.nitems; i++ {
			if p.panicBy == -2 && p.panicAt == i {
				add("panic", 0)
				return s
			}
			if p.stalls["gen@"+strconv.Itoa(i)] {
				s = append(s, verifMROp{A: "stall"})
			}
			add("send", 0)
		}
		if p.panicBy == -2 {
			add("panic", 0)
			return s
		}
		add("ret", 0)
	case name == "red":
		early := p.redMode == 1
		if early {
			add("write", 0)
		}
		all := p.redMode < 3
		n := p.redK
		if p.cancelBy == -1 && (all || p.cancelAt < n) {
			for i := 0; i < p.cancelAt; i++ {
				add("recv", 0)
			}
			add("cancel", p.cancelE)
			n -= p.cancelAt
		}
		if p.panicBy == -1 && p.panicAt < 1<<20 && (all || p.panicAt < n) {
			for i := 0; i < p.panicAt; i++ {
				add("recv", 0)
			}
			add("panic", 0)
			return s
		}
		if all {
			add("recvall", 0)
		} else {
			for i := 0; i < n; i++ {
				add("recv", 0)
			}
		}
		if p.stalls["red@end"] {
			s = append(s, verifMROp{A: "stall"})
		}
		if p.redMode == 0 || p.redMode == 3 {
			add("write", 0)
		}
		if p.panicBy == -1 {
			add("panic", 0)
			return s
		}
		add("ret", 0)
	default: // a mapper
		c := p.cancelBy == item || p.cancel2 == item
		pn := p.panicBy == item || p.panic2 == item
		if c && p.cancelAt == 0 {
			add("cancel", p.cancelE)
		}
		if pn && p.panicAt == 0 {
			add("panic", 0)
			return s
		}
		for k := 0; k < p.fanout; k++ {
			if (item+k)%3 != 0 || p.fanout == 1 {
				add("write", 0)
			}
		}
		if c && p.cancelAt != 0 {
			add("cancel", p.cancelE)
		}
		if p.stalls["map@end"] && item%2 == 0 {
			s = append(s, verifMROp{A: "stall"})
		}
		if pn {
			add("panic", 0)
			return s
		}
		add("ret", 0)
	}
	return s
}

// TestVerifMRLateCaller: many tiny calls in which everything the caller selects on becomes ready at once
// (context ended before the call; generator panics at once; reducer panics at once): the caller sometimes
// reaches its select only after the other goroutines have finished, which no gate-free schedule can force.
func TestVerifMRLateCaller(t *testing.T) {
	em := verifOpen(t)
	defer em.Close()
	runs := verifEnvInt("VERIF_MR_RUNS", 20000)
	apis := []string{"void", "mr", "foreach", "chan", "finish", "finishvoid"}
	for r := 0; r < runs && atomic.LoadInt32(&verifMRStuckCalls) < verifMRMaxStuck; r++ {
		// worker counts over the option's whole domain: below 1 means one worker
		p := &verifMRPlan{api: apis[r%6], stalls: map[string]bool{}, workers: []int{1, 2, 3, 0, -1, 2, 1, -1 << 30}[(r/24)%8]}
		kind := (r / 6) % 4
		fin := p.api == "finish" || p.api == "finishvoid"
		if fin {
			kind = 3
		}
		useCtx := kind == 0
		switch kind {
		case 3: // a single item whose mapper panics at once
			p.nitems, p.panicBy, p.panicAt = 1, 1, 0
		case 1:
			if p.api == "chan" {
				p.api = "mr"
			}
			p.panicBy, p.panicAt = -2, 0
		case 2:
			if p.api == "foreach" {
				useCtx = true
			} else {
				p.panicBy, p.panicAt = -1, 0
			}
		}
		c := newVerifMRCall(t, em, p.api, true, p.workers, useCtx)
		c.nitems = p.nitems
		c.plan = func(name string, it int) []verifMROp { return p.script(rand.New(rand.NewSource(int64(r))), name, it) }
		if useCtx {
			c.ctxAt = 0
		}
		c.start()
		c.waitReturnedOrQuiet()
		c.finish()
	}
}

// TestVerifMRStress: seeded random scripts, nothing steered. Every call is a trace to validate.
func TestVerifMRStress(t *testing.T) {
	em := verifOpen(t)
	defer em.Close()
	rnd := verifRand(10)
	runs := verifEnvInt("VERIF_MR_RUNS", 300)
	apis := []string{"mr", "mr", "void", "chan", "foreach", "mr", "finish", "finishvoid", "void", "mr"}
	for r := 0; r < runs && atomic.LoadInt32(&verifMRStuckCalls) < verifMRMaxStuck; r++ {
		p := &verifMRPlan{api: apis[r%len(apis)], stalls: map[string]bool{}}
		// the worker option over its whole domain: not given, 1, n, more than the items, 0, negative (below 1 = one worker)
		wi := rnd.Intn(12)
		p.workers = []int{1, 2, 2, 3, 4, 0, -1, 8, 0, 0, -7, -1 << 30}[wi]
		wset := wi != 5
		p.nitems = []int{0, 1, 2, 3, 4, 5, 7, 9, 12, 20, 40}[rnd.Intn(11)]
		p.fanout = rnd.Intn(4)
		p.redMode = []int{0, 0, 0, 1, 2, 3, 4}[rnd.Intn(7)]
		p.redK = rnd.Intn(4)
		p.yield = rnd.Intn(3)
		fin := p.api == "finish" || p.api == "finishvoid"
		if fin {
			p.nitems = rnd.Intn(7) // the worker count of Finish/FinishVoid is the number of functions: 0, 1, n
			p.workers, wset = 0, false
		}
		// the error passed to cancel: nil, ordinary values, and the unusual-but-legal members of the domain
		errPick := func() int {
			if rnd.Intn(2) == 0 {
				return rnd.Intn(4)
			}
			return []int{7001, 7001, 7002, 7003, 7004, 7100, 7150, 7200, verifMRCtxErr, verifMRCtxCanceled}[rnd.Intn(10)]
		}
		useCtx := !fin && rnd.Intn(3) == 0
		item := func() int {
			if p.nitems == 0 {
				return 0
			}
			return 1 + rnd.Intn(p.nitems)
		}
		// fault scenario
		switch sc := rnd.Intn(14); sc {
		case 0, 1, 2: // none
		case 3: // a mapper cancels
			p.cancelBy, p.cancelE, p.cancelAt = item(), errPick(), rnd.Intn(2)
		case 4: // the reducer cancels
			p.cancelBy, p.cancelE, p.cancelAt = -1, errPick(), rnd.Intn(3)
		case 5: // a mapper panics
			p.panicBy, p.panicAt = item(), rnd.Intn(2)
		case 6: // the reducer panics (possibly after having written)
			p.panicBy, p.panicAt = -1, rnd.Intn(3)
			if rnd.Intn(2) == 0 {
				p.panicAt = 1 << 29
			}
		case 7: // the generator panics
			p.panicBy, p.panicAt = -2, rnd.Intn(p.nitems+1)
		case 8: // cancel, then a panic somewhere else
			p.cancelBy, p.cancelE, p.cancelAt = item(), errPick(), rnd.Intn(2)
			p.panicBy, p.panicAt = []int{item(), -1, -2}[rnd.Intn(3)], rnd.Intn(2)
			if p.panicBy == p.cancelBy {
				p.panicAt = 1
			}
		case 9: // two cancels / two panics
			p.cancelBy, p.cancel2, p.cancelE, p.cancelAt = item(), item(), errPick(), rnd.Intn(2)
			if rnd.Intn(2) == 0 {
				p.cancelBy, p.cancel2 = 0, 0
				p.panicBy, p.panic2, p.panicAt = item(), item(), rnd.Intn(2)
			}
		case 12, 13: // back-pressure: more values in flight than the collector holds (writers parked in Write) and a
			// reducer that stops reading early (and sometimes outlives everything that can move); one of the first
			// mappers or the reducer cancels meanwhile
			if !fin {
				wc := [][2]int{{1, 1}, {2, 2}, {2, 2}, {3, 3}, {0, 1}, {-1, 1}}[rnd.Intn(6)] // option, mappers it allows (input shaping only)
				staged := rnd.Intn(2) == 0
				if staged {
					wc = [][2]int{{2, 2}, {3, 3}, {4, 4}}[rnd.Intn(3)]
				}
				p.workers, wset = wc[0], true
				p.nitems = wc[1] + 1 + rnd.Intn(5)
				p.fanout = 3
				p.redMode = 3 + rnd.Intn(2)
				switch {
				case staged:
					// one of the first mappers waits until nothing else can move (writers parked, the reducer neither
					// reading nor returning), cancels, and only then the reducer returns
					p.redK = rnd.Intn(3)
					p.cancelBy, p.cancelE, p.cancelAt = 1+rnd.Intn(wc[1]), errPick(), 0
					p.stalls["red@end"] = true
					p.stalls["1:map:"+strconv.Itoa(p.cancelBy)] = true
				case rnd.Intn(2) == 0:
					p.redK = 1 + rnd.Intn(wc[1]+1)
					p.cancelBy, p.cancelE, p.cancelAt = -1, errPick(), rnd.Intn(p.redK)
				default:
					p.redK = rnd.Intn(3)
					p.cancelBy, p.cancelE, p.cancelAt = 1+rnd.Intn(wc[1]), errPick(), rnd.Intn(2)
					if rnd.Intn(3) == 0 {
						p.cancelBy = item()
					}
				}
				if !staged && rnd.Intn(2) == 0 {
					p.stalls["red@end"] = true
				}
			}
		case 10, 11: // the context ends (plus, sometimes, one more fault)
			useCtx = !fin
			if rnd.Intn(3) == 0 {
				p.panicBy, p.panicAt = []int{item(), -1, -2}[rnd.Intn(3)], rnd.Intn(2)
			} else if rnd.Intn(3) == 0 {
				p.cancelBy, p.cancelE, p.cancelAt = item(), errPick(), rnd.Intn(2)
			}
		}
		if p.api == "chan" && p.panicBy == -2 {
			p.panicBy = 0 // the source of MapReduceChan is the harness's own goroutine
		}
		// stalls: functions that outlive the call / the context
		if rnd.Intn(4) == 0 {
			for _, k := range []string{"gen@" + strconv.Itoa(rnd.Intn(p.nitems+1)), "red@end", "map@end", "map:" + strconv.Itoa(item())} {
				if rnd.Intn(3) == 0 {
					p.stalls[k] = true
				}
			}
		}
		c := newVerifMRCall(t, em, p.api, wset, p.workers, useCtx)
		c.nitems = p.nitems
		callSeed := rnd.Int63()
		c.plan = func(name string, it int) []verifMROp {
			h := int64(len(name))*7919 + int64(it)*104729
			return p.script(rand.New(rand.NewSource(callSeed^h)), name, it)
		}
		if useCtx {
			switch rnd.Intn(5) {
			case 0:
				c.ctxAt = 0 // ended before the call
			case 1:
				c.ctxQuiet = true // ends when nothing else can move (or never, if the call returns first)
			default:
				c.ctxAt = int64(2 + rnd.Intn(4+p.nitems*(2+2*p.fanout)))
			}
		}
		if r%7 == 3 {
			runtime.GC()
		}
		c.start()
		c.waitReturnedOrQuiet()
		if c.ctxQuiet {
			c.endCtx()
			c.waitReturnedOrQuiet()
		}
		c.openStall1()
		c.waitReturnedOrQuiet()
		c.finish()
	}
}
