//go:build verif

package load

// C02, middleware drivers: overlaid as core/load/zz_verif_c02_export.go (a non-test file) when the
// drivers of the middleware packages (rest/handler, zrpc/internal/serverinterceptors) are
// built, so that they can inject the CPU verdict and read the in-flight counter and the
// moving average of an adaptive shedder. Not part of go-zero.

import "sync/atomic"

// VerifC02SetOverload replaces systemOverloadChecker; the returned func restores it.
func VerifC02SetOverload(f func() bool) func() {
	prev := systemOverloadChecker
	systemOverloadChecker = func(int64) bool { return f() }
	return func() { systemOverloadChecker = prev }
}

// VerifC02NewDisabled creates a shedder while shedding is disabled (what load.DisableShedding
// leaves behind): the nop shedder.
func VerifC02NewDisabled(opts ...ShedderOption) Shedder {
	enabled.Set(false)
	defer enabled.Set(true)
	return NewAdaptiveShedder(opts...)
}

// VerifC02Peek returns flying and avgFlying x 1e5 of an adaptive shedder (ok = false: another kind).
func VerifC02Peek(s Shedder) (int64, int64, bool) {
	if nc, ok := s.(nopCloser); ok {
		s = nc.Shedder
	}
	as, ok := s.(*adaptiveShedder)
	if !ok {
		return -1, -1, false
	}
	fly := atomic.LoadInt64(&as.flying)
	as.avgFlyingLock.Lock()
	avg := as.avgFlying
	as.avgFlyingLock.Unlock()
	return fly, int64(avg * 100000), true
}
