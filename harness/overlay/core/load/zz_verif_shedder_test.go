//go:build verif

package load

// C02 drivers: perform Allow / Pass / Fail histories on the real adaptive shedder under
// the virtual clock (hook H1) with the CPU verdict injected through the package variable
// systemOverloadChecker, and record what happened. No expectations here: the verdict
// comes from TLC validating the recorded trace against specs/shedder/Shedder.tla.
//
// Events (times in ms since the shedder was created; fly / avg: white-box readings of
// adaptiveShedder.flying and avgFlying x 1e5 after the call, -1 for a nop shedder):
//   reset{kind,nb,bd} adv{d} allow{id,ov,shed,fly,avg} pass{id,fly,avg} fail{id,fly,avg}
//   aStart{c,ov} aEnd{c,shed} pStart{id,how} pEnd{id} obs{fly,avg}

import (
	"encoding/json"
	"math/rand"
	"runtime"
	"sync"
	"sync/atomic"
	"testing"
	"time"

	"github.com/zeromicro/go-zero/core/logx"
	"github.com/zeromicro/go-zero/core/stat"
	"github.com/zeromicro/go-zero/core/timex"
)

const (
	c02Base  = 1000 * time.Hour
	c02Scale = 100000
)

var (
	c02Rel atomic.Int64 // virtual ms since the shedder under test was created
	c02Ov  atomic.Bool  // what systemOverloadChecker answers
)

func c02Install() func() {
	logx.Disable()
	stat.SetReporter(nil)
	prev := systemOverloadChecker
	systemOverloadChecker = func(int64) bool { return c02Ov.Load() }
	timex.VerifNow = func() time.Duration {
		return c02Base + time.Duration(c02Rel.Load())*time.Millisecond
	}
	return func() {
		timex.VerifNow = nil
		systemOverloadChecker = prev
	}
}

type c02Geo struct {
	nb   int
	bd   int64 // bucket length, ms
	thr  int64 // cpu threshold (only the overload factor depends on it here)
	mode string
}

// modes: "plain" NewAdaptiveShedder(opts), "default" NewAdaptiveShedder(), "group" through a
// ShedderGroup (fetched again for every call, a second key is used as a decoy), "nop"
// created while shedding is disabled.
type c02H struct {
	t    *testing.T
	em   *verifEmitter
	get  func() Shedder
	as   *adaptiveShedder // nil: nop shedder
	dec  func()           // decoy activity on an unrelated shedder
	next int
	open map[int]Promise
	ids  []int
}

func c02New(t *testing.T, em *verifEmitter, g c02Geo) *c02H {
	h := &c02H{t: t, em: em, open: map[int]Promise{}}
	c02Rel.Store(0)
	opts := []ShedderOption{WithBuckets(g.nb), WithWindow(time.Duration(g.bd) * time.Millisecond * time.Duration(g.nb)),
		WithCpuThreshold(g.thr)}
	kind := "adaptive"
	switch g.mode {
	case "default":
		sh := NewAdaptiveShedder()
		h.get = func() Shedder { return sh }
	case "group":
		grp := NewShedderGroup(opts...)
		h.get = func() Shedder { return grp.GetShedder("c02") }
		var held []Promise
		h.dec = func() {
			other := grp.GetShedder("c02-other")
			if p, err := other.Allow(); err == nil {
				held = append(held, p)
			}
			if len(held) > 3 {
				held[0].Pass()
				held = held[1:]
			}
		}
	case "nop":
		enabled.Set(false)
		sh := NewAdaptiveShedder(opts...)
		enabled.Set(true)
		h.get = func() Shedder { return sh }
		kind = "nop"
	default:
		sh := NewAdaptiveShedder(opts...)
		h.get = func() Shedder { return sh }
	}
	sh := h.get()
	if nc, ok := sh.(nopCloser); ok {
		sh = nc.Shedder
	}
	if as, ok := sh.(*adaptiveShedder); ok {
		h.as = as
	} else if kind != "nop" {
		t.Fatalf("c02: unexpected shedder type %T", sh)
	}
	em.Emit(verifEv{"e": "reset", "kind": kind, "nb": g.nb, "bd": g.bd})
	return h
}

func (h *c02H) peek() (int64, int64) {
	if h.as == nil {
		return -1, -1
	}
	fly := atomic.LoadInt64(&h.as.flying)
	h.as.avgFlyingLock.Lock()
	avg := h.as.avgFlying
	h.as.avgFlyingLock.Unlock()
	return fly, int64(avg * c02Scale)
}

func (h *c02H) adv(d int64) {
	c02Rel.Add(d)
	h.em.Emit(verifEv{"e": "adv", "d": d})
}

func (h *c02H) allow(ov bool) bool {
	c02Ov.Store(ov)
	if h.dec != nil {
		h.dec()
		c02Ov.Store(ov)
	}
	p, err := h.get().Allow()
	h.next++
	fly, avg := h.peek()
	h.em.Emit(verifEv{"e": "allow", "id": h.next, "ov": ov, "shed": err != nil, "fly": fly, "avg": avg})
	if err == nil {
		h.open[h.next] = p
		h.ids = append(h.ids, h.next)
	}
	return err == nil
}

func (h *c02H) take(id int) Promise {
	p, ok := h.open[id]
	if !ok {
		return nil
	}
	delete(h.open, id)
	for i, x := range h.ids {
		if x == id {
			h.ids = append(h.ids[:i], h.ids[i+1:]...)
			break
		}
	}
	return p
}

func (h *c02H) resolve(id int, how string) {
	p := h.take(id)
	if p == nil {
		return
	}
	if how == "pass" {
		p.Pass()
	} else {
		p.Fail()
	}
	fly, avg := h.peek()
	h.em.Emit(verifEv{"e": how, "id": id, "fly": fly, "avg": avg})
}

// ---------------------------------------------------------------- spec -> code

type c02Op struct {
	Op string `json:"op"` // adv | allow | pass | fail
	D  int64  `json:"d"`
	Id int    `json:"id"`
	Ov bool   `json:"ov"`
}

// TestVerifC02Replay performs the TLC-generated histories (one per distinct reachable state of
// ShedderImpl; time in model units of VERIF_C02_UNIT ms, NB buckets of BD units).
func TestVerifC02Replay(t *testing.T) {
	em := verifOpen(t)
	defer em.Close()
	defer c02Install()()
	unit := int64(verifEnvInt("VERIF_C02_UNIT", 250))
	nb := verifEnvInt("VERIF_C02_NB", 3)
	bd := int64(verifEnvInt("VERIF_C02_BD", 2)) * unit
	thr := int64(verifEnvInt("VERIF_C02_THR", -1000000000))
	for _, raw := range verifInput(t) {
		var ops []c02Op
		if err := json.Unmarshal(raw, &ops); err != nil {
			t.Fatal(err)
		}
		h := c02New(t, em, c02Geo{nb: nb, bd: bd, thr: thr, mode: "plain"})
		for _, op := range ops {
			switch op.Op {
			case "adv":
				h.adv(op.D * unit)
			case "allow":
				h.allow(op.Ov)
				if h.next != op.Id {
					t.Fatalf("c02: replay ids out of step: %d vs %d", h.next, op.Id)
				}
			case "pass", "fail":
				h.resolve(op.Id, op.Op)
			}
		}
	}
}

// ---------------------------------------------------------------- code -> spec: sequential

var c02Geos = []c02Geo{
	{50, 100, 900, "default"},
	{3, 500, -1000000000, "plain"},
	{4, 1000, 999, "plain"},
	{10, 100, -1000000000, "group"},
	{5, 20, 500, "plain"},
	{10, 5, 100, "plain"},
	{2, 250, 999, "group"},
	{1, 1000, -1000000000, "plain"},
	{8, 50, 999, "plain"},
	{6, 200, -1000000000, "plain"},
	{3, 500, -1000000000, "nop"},
	{6, 1500, -1000000000, "plain"}, // bucket lengths that do not divide a second
	{5, 600, -1000000000, "plain"},
}

// gap picks a clock step: small, bucket-edge aligned, window sized, or aligned on the
// cool-off boundary of the latest overloaded Allow.
func c02Gap(rnd *rand.Rand, g c02Geo, lastOv int64) int64 {
	now := c02Rel.Load()
	toEdge := g.bd - now%g.bd
	switch x := rnd.Intn(100); {
	case x < 10:
		return 1
	case x < 40: // small against a bucket
		return 1 + int64(rnd.Intn(int(g.bd/6)+1))
	case x < 48:
		return 1 + int64(rnd.Intn(int(g.bd)))
	case x < 56:
		return toEdge
	case x < 62:
		if toEdge > 1 {
			return toEdge - 1
		}
		return toEdge + 1
	case x < 68:
		return toEdge + 1
	case x < 74:
		return g.bd
	case x < 77:
		return g.bd * int64(g.nb)
	case x < 80:
		return g.bd * int64(g.nb-1+rnd.Intn(3))
	case x < 92:
		if lastOv >= 0 {
			if d := lastOv + 999 + int64(rnd.Intn(3)) - now; d > 0 {
				return d
			}
		}
		return 1 + int64(rnd.Intn(50))
	case x < 96:
		return 1 + int64(rnd.Intn(1500))
	}
	return 1 + int64(rnd.Intn(20))
}

func c02History(t *testing.T, em *verifEmitter, rnd *rand.Rand, g c02Geo, steps int) {
	h := c02New(t, em, g)
	target := 1 + rnd.Intn(8)
	pOv := rnd.Intn(3)  // 0: never, 1: half, 2: always
	pAdv := 2 + rnd.Intn(6)
	lastOv := int64(-1)
	left := 0
	for i := 0; i < steps; i++ {
		if left == 0 {
			left = 20 + rnd.Intn(80)
			surge := target >= 12
			switch rnd.Intn(4) {
			case 0:
				target = 1 + rnd.Intn(6)
			case 1:
				target = 4 + rnd.Intn(30)
			case 2:
				target = len(h.ids)/2 + 1
			default:
				target = len(h.ids)*2 + 1
			}
			if target > 60 {
				target = 60
			}
			pOv = rnd.Intn(3)
			pAdv = 2 + rnd.Intn(8)
			if target >= 12 && rnd.Intn(2) == 0 {
				pOv = 0 // let the surge build up
			}
			if surge && rnd.Intn(2) == 0 {
				// drain after a surge: the window still remembers a large estimate while little is in flight
				target = 1 + rnd.Intn(3)
				pOv = 1 + rnd.Intn(2)
				pAdv = 1
				left = 2*len(h.ids) + 20 + rnd.Intn(30)
			}
		}
		left--
		x := rnd.Intn(20)
		switch {
		case x < pAdv:
			h.adv(c02Gap(rnd, g, lastOv))
		case len(h.ids) < target && x < 16 || len(h.ids) == 0:
			ov := pOv == 2 || pOv == 1 && rnd.Intn(2) == 0
			if ov {
				lastOv = c02Rel.Load()
			}
			h.allow(ov)
		default:
			k := rnd.Intn(len(h.ids))
			if rnd.Intn(3) == 0 {
				k = 0 // oldest first: long latencies end
			}
			how := "pass"
			if rnd.Intn(7) == 0 {
				how = "fail"
			}
			h.resolve(h.ids[k], how)
		}
	}
	for len(h.ids) > 0 {
		h.resolve(h.ids[0], "pass")
	}
}

func TestVerifC02Random(t *testing.T) {
	em := verifOpen(t)
	defer em.Close()
	defer c02Install()()
	rnd := verifRand(2)
	n := verifEnvInt("VERIF_C02_HIST", 30)
	steps := verifEnvInt("VERIF_C02_LEN", 400)
	for i := 0; i < n; i++ {
		g := c02Geos[i%len(c02Geos)]
		if i >= len(c02Geos) && rnd.Intn(3) == 0 && g.mode == "plain" {
			g.nb = 1 + rnd.Intn(12)
			g.bd = []int64{1, 5, 10, 40, 100, 250, 300, 600, 1000, 1500, 2000, 3000}[rnd.Intn(12)]
			g.thr = []int64{-1000000000, 0, 500, 900, 999}[rnd.Intn(5)]
		}
		c02History(t, em, rnd, g, steps/2+rnd.Intn(steps))
	}
}

// ---------------------------------------------------------------- code -> spec: overlapping calls

// c02Barrier is a reusable spin barrier (no clocks): wait returns once all n parties arrived.
type c02Barrier struct {
	n     int32
	count atomic.Int32
	gen   atomic.Int32
}

func (b *c02Barrier) wait() {
	g := b.gen.Load()
	if b.count.Add(1) == b.n {
		b.count.Store(0)
		b.gen.Add(1)
		return
	}
	for b.gen.Load() == g {
		runtime.Gosched()
	}
}

// TestVerifC02Conc: rounds at a standing clock; in a round G goroutines call Allow and / or
// resolve outstanding promises truly in parallel (the CPU verdict is the same for the whole
// round); between rounds the driver reads the counter and the average and may move the clock
// or run a few calls one at a time.
func TestVerifC02Conc(t *testing.T) {
	em := verifOpen(t)
	defer em.Close()
	defer c02Install()()
	rnd := verifRand(3)
	n := verifEnvInt("VERIF_C02_CHIST", 10)
	rounds := verifEnvInt("VERIF_C02_ROUNDS", 40)
	G := verifEnvInt("VERIF_C02_G", 4)
	geos := []c02Geo{{3, 500, -1000000000, "plain"}, {10, 100, -1000000000, "group"}, {4, 250, 999, "plain"},
		{5, 20, -1000000000, "plain"}, {50, 100, 900, "default"}}
	for i := 0; i < n; i++ {
		g := geos[i%len(geos)]
		h := c02New(t, em, g)
		lastOv := int64(-1)
		var mu sync.Mutex
		for r := 0; r < rounds; r++ {
			storm := r%5 == 4
			ov := rnd.Intn(3) > 0
			if r%7 == 6 {
				ov = false
			}
			if storm {
				ov = rnd.Intn(5) > 0
			}
			c02Ov.Store(ov)
			if ov {
				lastOv = c02Rel.Load()
			}
			nstart := rnd.Intn(G + 1)
			nres := rnd.Intn(G + 1)
			if nres > len(h.ids) {
				nres = len(h.ids)
			}
			if nstart+nres > G+1 {
				nstart = G + 1 - nres
			}
			var wg sync.WaitGroup
			gate := make(chan struct{})
			for k := 0; k < nres; k++ {
				id := h.ids[rnd.Intn(len(h.ids))]
				p := h.take(id)
				how := "pass"
				if rnd.Intn(5) == 0 {
					how = "fail"
				}
				wg.Add(1)
				go func() {
					defer wg.Done()
					<-gate
					em.Emit(verifEv{"e": "pStart", "id": id, "how": how})
					if how == "pass" {
						p.Pass()
					} else {
						p.Fail()
					}
					em.Emit(verifEv{"e": "pEnd", "id": id})
				}()
			}
			for k := 0; k < nstart; k++ {
				h.next++
				c := h.next
				wg.Add(1)
				go func() {
					defer wg.Done()
					<-gate
					em.Emit(verifEv{"e": "aStart", "c": c, "ov": ov})
					p, err := h.get().Allow()
					em.Emit(verifEv{"e": "aEnd", "c": c, "shed": err != nil})
					if err == nil {
						mu.Lock()
						h.open[c] = p
						h.ids = append(h.ids, c)
						mu.Unlock()
					}
				}()
			}
			// every few rounds: a storm -- K times over, all G goroutines call Allow at the same instant
			// (spin barrier) and those admitted resolve at the same instant (conservation under real
			// contention on the counter)
			if storm {
				K := verifEnvInt("VERIF_C02_STORM", 25)
				base := h.next
				h.next += G * K
				bar := &c02Barrier{n: int32(G)}
				for gi := 0; gi < G; gi++ {
					gi := gi
					fails := rnd.Intn(4) == 0
					wg.Add(1)
					go func() {
						defer wg.Done()
						<-gate
						for k := 0; k < K; k++ {
							c := base + k*G + gi + 1
							em.Emit(verifEv{"e": "aStart", "c": c, "ov": ov})
							bar.wait()
							p, err := h.get().Allow()
							em.Emit(verifEv{"e": "aEnd", "c": c, "shed": err != nil})
							how := "pass"
							if fails {
								how = "fail"
							}
							if err == nil {
								em.Emit(verifEv{"e": "pStart", "id": c, "how": how})
							}
							bar.wait()
							if err != nil {
								continue
							}
							if fails {
								p.Fail()
							} else {
								p.Pass()
							}
							em.Emit(verifEv{"e": "pEnd", "id": c})
						}
					}()
				}
			}
			close(gate)
			wg.Wait()
			fly, avg := h.peek()
			em.Emit(verifEv{"e": "obs", "fly": fly, "avg": avg})
			switch rnd.Intn(4) {
			case 0:
				h.adv(c02Gap(rnd, g, lastOv))
			case 1:
				// a few calls one at a time (the full law applies to them)
				for k := rnd.Intn(4); k >= 0; k-- {
					if rnd.Intn(2) == 0 || len(h.ids) == 0 {
						o := rnd.Intn(2) == 0
						if o {
							lastOv = c02Rel.Load()
						}
						h.allow(o)
					} else {
						h.resolve(h.ids[rnd.Intn(len(h.ids))], "pass")
					}
				}
			}
		}
		for len(h.ids) > 0 {
			h.resolve(h.ids[0], "pass")
		}
	}
}
