//go:build verif

package collection

// C16 drivers: perform operation histories on the real RollingWindow, Cache, SafeMap,
// Queue, Ring and Set and record what every call returned. No expectations here: the
// verdict comes from TLC validating the recorded trace against specs/collections/*.tla
// (CollTrace.tla). Where a driver keeps a shadow of the object's content it is only used
// to *choose* the next operation (e.g. "delete a key that is present"), never to judge.
//
// Everything in this file is black-box (public API + the virtual clock hook H1). The
// white-box accessors (fake expiry wheel for Cache, len(cache.data), SafeMap generation
// counters) live in zz_verif_c16wb_test.go and are reached through c16WB.

import (
	"encoding/json"
	"errors"
	"fmt"
	"math/rand"
	"path/filepath"
	"runtime"
	"sort"
	"strconv"
	"strings"
	"testing"
	"time"

	"github.com/zeromicro/go-zero/core/logx"
	"github.com/zeromicro/go-zero/core/timex"
)

// c16WhiteBox is filled in by zz_verif_c16wb_test.go (nil when that file is not compiled in).
type c16WhiteBox struct {
	// newCache returns a Cache whose expiry wheel is driven by the returned tick function.
	// tick delivers one tick and returns the keys the expiry callback ran for (sorted).
	newCache func(t *testing.T, expire time.Duration, limit int) (c *Cache, tick func() []string, stop func())
	size     func(c *Cache) int
	// mapGen returns (deletionOld, deletionNew, len(dirtyOld), len(dirtyNew))
	mapGen func(m *SafeMap) (int, int, int, int)
}

var c16WB *c16WhiteBox

type c16Op struct {
	Op   string `json:"op"`
	K    int    `json:"k"`
	V    int    `json:"v"`
	D    int    `json:"d"`
	Ms   int    `json:"ms"`
	Fail bool   `json:"fail"`
	Stop int    `json:"stop"`
	// Set histories: typed elements, the typed projection asked for, the add entry point
	X   c16El   `json:"x"`
	Xs  []c16El `json:"xs"`
	T   string  `json:"t"`
	Api string  `json:"api"`
}

type c16Hist struct {
	Obj   string  `json:"obj"`
	Size  int     `json:"size"`
	Int   int     `json:"int"`
	Ign   bool    `json:"ign"`
	Limit int     `json:"limit"`
	Def   int     `json:"def"`
	N     int     `json:"n"`
	Ops   []c16Op `json:"ops"`
	// Set: "managed" / "unmanaged", and the universe of the generating configuration
	Kind  string   `json:"kind"`
	Types []string `json:"types"`
	Vals  []int    `json:"vals"`
	Obs   string   `json:"obs"` // "all": observe after every operation, "last": after the last one
}

// c16Int converts a value handed back by the library; anything that is not the int the
// driver stored is logged as -1 (the driver's values are >= 0), never a driver panic.
func c16Int(v any) int {
	if i, ok := v.(int); ok {
		return i
	}
	return -1
}

// c16Guard runs one history; a panic raised by the library in the middle of it is recorded
// as an event of its own (the reference models have no such step) and the run goes on.
// A panic that comes from the driver's own code is a broken check, not an observation:
// it is passed on (the test binary fails, exit 2).
func c16Guard(em *verifEmitter, what string, f func()) {
	defer func() {
		r := recover()
		if r == nil {
			return
		}
		if !c16PanicInLibrary() {
			panic(r)
		}
		msg := fmt.Sprint(r)
		if len(msg) > 120 {
			msg = msg[:120]
		}
		em.Emit(verifEv{"e": "panic", "in": what, "msg": msg})
	}()
	f()
}

// c16PanicInLibrary (called from a deferred function while panicking): going up from the
// panic site, is a go-zero source file reached before any driver (zz_verif_*) file?
func c16PanicInLibrary() bool {
	pcs := make([]uintptr, 64)
	n := runtime.Callers(2, pcs)
	frames := runtime.CallersFrames(pcs[:n])
	seenPanic := false
	for {
		fr, more := frames.Next()
		if fr.Function == "runtime.gopanic" {
			seenPanic = true
		} else if seenPanic && !strings.HasPrefix(fr.Function, "runtime.") {
			if strings.HasPrefix(filepath.Base(fr.File), "zz_verif_") {
				return false
			}
			if strings.Contains(fr.Function, "zeromicro/go-zero/") {
				return true
			}
		}
		if !more {
			return false
		}
	}
}

// ------------------------------------------------------------------ RollingWindow

// c16RecBucket remembers every value added to it, so that Reduce shows exactly which
// values it visits.
type c16RecBucket struct{ vals []int64 }

func (b *c16RecBucket) Add(v int64) { b.vals = append(b.vals, v) }
func (b *c16RecBucket) Reset()      { b.vals = b.vals[:0] }

const c16Unit = time.Millisecond

// c16Window runs one history on two real windows (recording buckets / stock Bucket[float64])
// under the virtual clock. The creation instant t0 is arbitrary and not logged.
func c16Window(em *verifEmitter, drv string, size, interval int, ign bool, t0 time.Duration, ops []c16Op, reduceAll bool) {
	c16Guard(em, "window", func() { c16WindowRun(em, drv, size, interval, ign, t0, ops, reduceAll) })
}

func c16WindowRun(em *verifEmitter, drv string, size, interval int, ign bool, t0 time.Duration, ops []c16Op, reduceAll bool) {
	now := t0
	timex.VerifNow = func() time.Duration { return now }
	defer func() { timex.VerifNow = nil }()
	iv := time.Duration(interval) * c16Unit
	var rec *RollingWindow[int64, *c16RecBucket]
	var std *RollingWindow[float64, *Bucket[float64]]
	if ign {
		rec = NewRollingWindow[int64, *c16RecBucket](func() *c16RecBucket { return new(c16RecBucket) }, size, iv,
			IgnoreCurrentBucket[int64, *c16RecBucket]())
		std = NewRollingWindow[float64, *Bucket[float64]](func() *Bucket[float64] { return new(Bucket[float64]) }, size, iv,
			IgnoreCurrentBucket[float64, *Bucket[float64]]())
	} else {
		rec = NewRollingWindow[int64, *c16RecBucket](func() *c16RecBucket { return new(c16RecBucket) }, size, iv)
		std = NewRollingWindow[float64, *Bucket[float64]](func() *Bucket[float64] { return new(Bucket[float64]) }, size, iv)
	}
	em.Emit(verifEv{"e": "reset", "obj": "window", "drv": drv, "size": size, "int": interval, "ign": ign})
	reduce := func() {
		vals := []int{}
		rec.Reduce(func(b *c16RecBucket) {
			for _, v := range b.vals {
				vals = append(vals, int(v))
			}
		})
		var sum float64
		var count int64
		std.Reduce(func(b *Bucket[float64]) {
			sum += b.Sum
			count += b.Count
		})
		em.Emit(verifEv{"e": "w.reduce", "vals": vals, "sum": int(sum), "count": int(count)})
	}
	for _, op := range ops {
		switch op.Op {
		case "add":
			rec.Add(int64(op.V))
			std.Add(float64(op.V))
			em.Emit(verifEv{"e": "w.add", "v": op.V})
		case "adv":
			now += time.Duration(op.D) * c16Unit
			em.Emit(verifEv{"e": "w.adv", "d": op.D})
		case "reduce":
			reduce()
			continue
		default:
			panic("c16 window: unknown op " + op.Op)
		}
		if reduceAll {
			reduce()
		}
	}
	reduce()
}

func c16RandomWindows(em *verifEmitter, rnd *rand.Rand, histories, length int) {
	sizes := []int{1, 2, 3, 4, 5, 8, 40}
	ivs := []int{1, 2, 3, 5, 10}
	for h := 0; h < histories; h++ {
		size := sizes[rnd.Intn(len(sizes))]
		iv := ivs[rnd.Intn(len(ivs))]
		ign := rnd.Intn(2) == 0
		t0 := time.Duration(rnd.Intn(100000))*c16Unit + time.Duration(rnd.Intn(1000))*time.Microsecond
		var ops []c16Op
		val := 0
		n := 10 + rnd.Intn(length)
		for i := 0; i < n; i++ {
			switch x := rnd.Intn(100); {
			case x < 45:
				val++
				ops = append(ops, c16Op{Op: "add", V: val})
			case x < 65:
				ops = append(ops, c16Op{Op: "reduce"})
			case x < 80: // small steps: before / on / after a bucket edge
				ops = append(ops, c16Op{Op: "adv", D: rnd.Intn(iv + 2)})
			case x < 93: // whole buckets around size-1, size, size+1, +-1 unit
				k := size - 1 + rnd.Intn(3)
				if rnd.Intn(3) == 0 {
					k = rnd.Intn(size + 2)
				}
				d := k*iv - 1 + rnd.Intn(3)
				if d < 0 {
					d = 0
				}
				ops = append(ops, c16Op{Op: "adv", D: d})
			default: // far jump
				ops = append(ops, c16Op{Op: "adv", D: size*iv + rnd.Intn(5*size*iv+1)})
			}
		}
		c16Window(em, "random", size, iv, ign, t0, ops, rnd.Intn(3) == 0)
	}
}

// ------------------------------------------------------------------ Cache

var errC16Load = errors.New("c16: loader failed")

func c16Key(k int) string { return fmt.Sprintf("key-%d", k) }

// c16Cache runs one history on a real Cache. With wb (white-box accessors available and
// requested) the expiry wheel is ticked by the driver and len(data) is logged; otherwise the
// cache is used as is with an expiry far in the future and "tick" operations are skipped.
func c16Cache(t *testing.T, em *verifEmitter, drv string, limit, def int, ops []c16Op, keys int, wb bool) {
	c16Guard(em, "cache", func() { c16CacheRun(t, em, drv, limit, def, ops, keys, wb) })
}

func c16CacheRun(t *testing.T, em *verifEmitter, drv string, limit, def int, ops []c16Op, keys int, wb bool) {
	var c *Cache
	var tick func() []string
	size := func() int { return -1 }
	if wb && c16WB != nil {
		var stop func()
		c, tick, stop = c16WB.newCache(t, time.Duration(def)*time.Millisecond, limit)
		defer stop()
		size = func() int { return c16WB.size(c) }
	} else {
		wb = false
		def = 3600000
		var err error
		c, err = NewCache(time.Duration(def)*time.Millisecond, WithLimit(limit), WithName("c16"))
		if err != nil {
			t.Fatal(err)
		}
	}
	em.Emit(verifEv{"e": "reset", "obj": "cache", "drv": drv, "limit": limit, "def": def, "wb": wb})
	get := func(k int) {
		v, ok := c.Get(c16Key(k))
		iv := 0
		if ok {
			iv = c16Int(v)
		}
		em.Emit(verifEv{"e": "c.get", "k": k, "hit": ok, "v": iv, "size": size()})
	}
	for _, op := range ops {
		switch op.Op {
		case "set": // Set: the cache's default expiry
			c.Set(c16Key(op.K), op.V)
			em.Emit(verifEv{"e": "c.set", "k": op.K, "v": op.V, "ms": def, "size": size()})
		case "setx": // SetWithExpire
			ms := op.Ms
			if !wb {
				ms = def
			}
			c.SetWithExpire(c16Key(op.K), op.V, time.Duration(ms)*time.Millisecond)
			em.Emit(verifEv{"e": "c.set", "k": op.K, "v": op.V, "ms": ms, "size": size()})
		case "get":
			get(op.K)
		case "del":
			c.Del(c16Key(op.K))
			em.Emit(verifEv{"e": "c.del", "k": op.K, "size": size()})
		case "take":
			called := false
			v, err := c.Take(c16Key(op.K), func() (any, error) {
				called = true
				if op.Fail {
					return nil, errC16Load
				}
				return op.V, nil
			})
			iv := 0
			if err == nil {
				iv = c16Int(v)
			}
			em.Emit(verifEv{"e": "c.take", "k": op.K, "lv": op.V, "fail": op.Fail, "ms": def,
				"called": called, "err": err != nil, "v": iv, "size": size()})
		case "tick":
			if !wb {
				continue
			}
			exp := tick()
			ks := []int{}
			for _, s := range exp {
				var k int
				fmt.Sscanf(s, "key-%d", &k)
				ks = append(ks, k)
			}
			sort.Ints(ks)
			em.Emit(verifEv{"e": "c.tick", "expired": ks, "size": size()})
		default:
			panic("c16 cache: unknown op " + op.Op)
		}
	}
	// reveal the final content (Get also touches; the model follows)
	for k := 1; k <= keys; k++ {
		get(k)
	}
}

var c16Bands = []int{1500, 2500, 3500, 10500, 20500}

func c16RandomCaches(t *testing.T, em *verifEmitter, rnd *rand.Rand, histories, length int, wb bool) {
	for h := 0; h < histories; h++ {
		keys := 2 + rnd.Intn(7)
		limit := rnd.Intn(keys + 2) // 0 = unlimited
		if rnd.Intn(8) == 0 {
			limit = -1
		}
		def := c16Bands[rnd.Intn(len(c16Bands))]
		var ops []c16Op
		val := 0
		n := 10 + rnd.Intn(length)
		for i := 0; i < n; i++ {
			k := 1 + rnd.Intn(keys)
			val++
			switch x := rnd.Intn(100); {
			case x < 18:
				ops = append(ops, c16Op{Op: "set", K: k, V: val})
			case x < 32:
				ops = append(ops, c16Op{Op: "setx", K: k, V: val, Ms: c16Bands[rnd.Intn(len(c16Bands))]})
			case x < 57:
				ops = append(ops, c16Op{Op: "get", K: k})
			case x < 65:
				ops = append(ops, c16Op{Op: "del", K: k})
			case x < 85:
				ops = append(ops, c16Op{Op: "take", K: k, V: val, Fail: rnd.Intn(4) == 0})
			default:
				b := 1
				if rnd.Intn(5) == 0 {
					b = 1 + rnd.Intn(12)
				}
				for j := 0; j < b; j++ {
					ops = append(ops, c16Op{Op: "tick"})
				}
			}
		}
		c16Cache(t, em, "random", limit, def, ops, keys, wb)
	}
}

// ------------------------------------------------------------------ SafeMap

type c16Map struct {
	em  *verifEmitter
	m   *SafeMap
	n   int // operations so far
	mig [2]int
	gen [4]int
}

func c16NewMap(em *verifEmitter, drv string, K int) *c16Map {
	em.Emit(verifEv{"e": "reset", "obj": "map", "drv": drv, "K": K})
	return &c16Map{em: em, m: NewSafeMap()}
}

func (x *c16Map) set(k, v int) {
	x.m.Set(k, v)
	x.n++
	x.em.Emit(verifEv{"e": "m.set", "k": k, "v": v})
}

func (x *c16Map) del(k int) {
	x.m.Del(k)
	x.n++
	x.em.Emit(verifEv{"e": "m.del", "k": k})
	if c16WB != nil { // informational only: which migrations happened (not part of the trace)
		dO, dN, lO, lN := c16WB.mapGen(x.m)
		if dO < x.gen[0] { // deletionOld only ever drops in the first migration
			x.mig[0]++
		} else if dN < x.gen[1] { // deletionNew is reset by both
			x.mig[1]++
		}
		x.gen = [4]int{dO, dN, lO, lN}
	}
}

func (x *c16Map) get(k int) {
	v, ok := x.m.Get(k)
	iv := 0
	if ok {
		iv = c16Int(v)
	}
	x.n++
	x.em.Emit(verifEv{"e": "m.get", "k": k, "ok": ok, "v": iv})
}

func (x *c16Map) size() {
	x.n++
	x.em.Emit(verifEv{"e": "m.size", "n": x.m.Size()})
}

func (x *c16Map) rng(stop int) {
	kvs := [][2]int{}
	calls := 0
	x.m.Range(func(k, v any) bool {
		calls++
		kvs = append(kvs, [2]int{c16Int(k), c16Int(v)})
		return stop == 0 || calls < stop
	})
	x.n++
	x.em.Emit(verifEv{"e": "m.range", "stop": stop, "kvs": kvs})
}

func c16MapOps(x *c16Map, ops []c16Op) {
	for _, op := range ops {
		switch op.Op {
		case "set":
			x.set(op.K, op.V)
		case "del":
			x.del(op.K)
		case "get":
			x.get(op.K)
		case "size":
			x.size()
		case "range":
			x.rng(op.Stop)
		default:
			panic("c16 map: unknown op " + op.Op)
		}
	}
}

// c16MapLong: one long history built to push the real SafeMap through both of its internal
// migrations (maxDeletion = 10000 deletions in a generation, fewer than copyThreshold = 1000
// entries left in it), with random reads in between and sweeps afterwards.
//
//	A  fill `base` keys (>= 1000, they stay for the whole run)            -> old generation
//	B  set+delete churn keys until > 10000 deletions hit the old generation (no migration:
//	   it still has >= 1000 entries); from now on Set writes into the new generation
//	C  overwrite a few base keys (they move old -> new), then set+delete churn keys 10000
//	   times in the new generation           -> second migration (new folded into old)
//	D  delete base keys until fewer than 1000 are left in the old generation
//	                                          -> first migration (old folded into new)
//	E  random tail
//
// variant 1 starts with a small base instead (first migration early and repeatedly);
// variant 2 moves about copyThreshold base keys into the new generation in C, so that the
// second migration is held back (or not) by the size condition and both generations shrink
// through the threshold in D.
func c16MapLong(em *verifEmitter, rnd *rand.Rand, variant int) (ops int, mig [2]int) {
	c16Guard(em, "map", func() { ops, mig = c16MapLongRun(em, rnd, variant) })
	return
}

func c16MapLongRun(em *verifEmitter, rnd *rand.Rand, variant int) (ops int, mig [2]int) {
	base := 1001 + rnd.Intn(150)
	switch variant {
	case 1:
		base = 200 + rnd.Intn(700)
	case 2:
		base = 2000 + rnd.Intn(200)
	}
	churn := 20 + rnd.Intn(150)
	K := base + churn
	x := c16NewMap(em, "long", K)
	shadow := make(map[int]bool) // only to choose operations
	val := 0
	noise := func() {
		switch r := rnd.Intn(100); {
		case r < 6:
			x.get(1 + rnd.Intn(K))
		case r < 7:
			x.size()
		case r < 8 && rnd.Intn(40) == 0:
			x.rng(1 + rnd.Intn(5))
		}
	}
	set := func(k int) {
		val++
		x.set(k, val)
		shadow[k] = true
		noise()
	}
	del := func(k int) {
		x.del(k)
		delete(shadow, k)
		noise()
	}
	sweep := func() {
		x.size()
		x.rng(0)
		for k := 1; k <= K; k++ {
			x.get(k)
		}
	}
	churnDel := func(n int) { // n deletions of present churn keys
		for i := 0; i < n; i++ {
			k := base + 1 + rnd.Intn(churn)
			if !shadow[k] || rnd.Intn(4) == 0 {
				set(k) // possibly an overwrite
			}
			if rnd.Intn(10) == 0 { // a deletion of an absent key in between: no effect
				a := base + 1 + rnd.Intn(churn)
				if !shadow[a] {
					del(a)
				}
			}
			del(k)
		}
	}
	// A
	for _, k := range rnd.Perm(base) {
		set(k + 1)
	}
	// B
	churnDel(10001 + rnd.Intn(40))
	x.size()
	if variant == 1 {
		sweep()
	}
	// C
	moved := rnd.Intn(50)
	switch variant {
	case 0:
		moved = rnd.Intn(base - 1000 + 1)
	case 2: // about copyThreshold entries sit in the new generation when its counter crosses
		moved = 990 + rnd.Intn(20)
	}
	for _, k := range rnd.Perm(base)[:moved] {
		set(k + 1)
	}
	churnDel(9990)
	for i := 0; i < 25; i++ { // the threshold is crossed somewhere in here: look closely
		churnDel(1)
		x.size()
		x.get(1 + rnd.Intn(base))
		x.get(base + 1 + rnd.Intn(churn))
	}
	sweep()
	// D
	live := 0
	for k := 1; k <= base; k++ {
		if shadow[k] {
			live++
		}
	}
	for _, k := range rnd.Perm(base) {
		if live < 990 {
			break
		}
		if shadow[k+1] {
			del(k + 1)
			live--
			if live <= 1001 {
				x.size()
				x.get(1 + rnd.Intn(base))
			}
		}
	}
	sweep()
	// E
	for i := 0; i < 3000; i++ {
		k := 1 + rnd.Intn(K)
		switch r := rnd.Intn(10); {
		case r < 4:
			set(k)
		case r < 7:
			del(k)
		default:
			x.get(k)
		}
	}
	sweep()
	// informational (the trace spec skips it): how long the history was and which of the
	// real migrations it went through, for the evidence file
	em.Emit(verifEv{"e": "m.info", "ops": x.n, "mig1": x.mig[0], "mig2": x.mig[1], "variant": variant})
	return x.n, x.mig
}

func c16RandomMaps(em *verifEmitter, rnd *rand.Rand, histories, length int) {
	for h := 0; h < histories; h++ {
		K := 1 + rnd.Intn(12)
		var ops []c16Op
		val := 0
		n := 10 + rnd.Intn(length)
		for i := 0; i < n; i++ {
			k := 1 + rnd.Intn(K)
			switch r := rnd.Intn(100); {
			case r < 35:
				val++
				ops = append(ops, c16Op{Op: "set", K: k, V: val})
			case r < 60:
				ops = append(ops, c16Op{Op: "del", K: k})
			case r < 85:
				ops = append(ops, c16Op{Op: "get", K: k})
			case r < 92:
				ops = append(ops, c16Op{Op: "size"})
			default:
				ops = append(ops, c16Op{Op: "range", Stop: rnd.Intn(4)})
			}
		}
		ops = append(ops, c16Op{Op: "size"}, c16Op{Op: "range"})
		c16Guard(em, "map", func() { c16MapOps(c16NewMap(em, "random", K), ops) })
	}
}

// ------------------------------------------------------------------ Queue

func c16Queue(em *verifEmitter, drv string, size int, ops []c16Op) {
	c16Guard(em, "queue", func() { c16QueueRun(em, drv, size, ops) })
}

func c16QueueRun(em *verifEmitter, drv string, size int, ops []c16Op) {
	q := NewQueue(size)
	em.Emit(verifEv{"e": "reset", "obj": "queue", "drv": drv, "size": size})
	take := func() bool {
		v, ok := q.Take()
		iv := 0
		if ok {
			iv = c16Int(v)
		}
		em.Emit(verifEv{"e": "q.take", "ok": ok, "v": iv})
		return ok
	}
	for _, op := range ops {
		switch op.Op {
		case "put":
			q.Put(op.V)
			em.Emit(verifEv{"e": "q.put", "v": op.V})
		case "take":
			take()
		case "empty":
			em.Emit(verifEv{"e": "q.empty", "empty": q.Empty()})
		default:
			panic("c16 queue: unknown op " + op.Op)
		}
	}
	// drain: reveals the whole content in order
	em.Emit(verifEv{"e": "q.empty", "empty": q.Empty()})
	for take() {
	}
	em.Emit(verifEv{"e": "q.empty", "empty": q.Empty()})
}

func c16RandomQueues(em *verifEmitter, rnd *rand.Rand, histories, length int) {
	for h := 0; h < histories; h++ {
		size := 1 + rnd.Intn(8)
		var ops []c16Op
		val := 0
		n := 10 + rnd.Intn(length)
		bias := 30 + rnd.Intn(50) // percentage of puts in this phase
		for i := 0; i < n; i++ {
			if rnd.Intn(25) == 0 {
				bias = 20 + rnd.Intn(70)
			}
			switch x := rnd.Intn(100); {
			case x < 6:
				ops = append(ops, c16Op{Op: "empty"})
			case x < 6+bias*94/100:
				val++
				ops = append(ops, c16Op{Op: "put", V: val})
			default:
				ops = append(ops, c16Op{Op: "take"})
			}
		}
		c16Queue(em, "random", size, ops)
	}
}

// ------------------------------------------------------------------ Ring

func c16Ring(em *verifEmitter, drv string, n int, ops []c16Op, takeAll bool) {
	c16Guard(em, "ring", func() { c16RingRun(em, drv, n, ops, takeAll) })
}

func c16RingRun(em *verifEmitter, drv string, n int, ops []c16Op, takeAll bool) {
	r := NewRing(n)
	em.Emit(verifEv{"e": "reset", "obj": "ring", "drv": drv, "n": n})
	take := func() {
		vals := []int{}
		for _, v := range r.Take() {
			vals = append(vals, c16Int(v))
		}
		em.Emit(verifEv{"e": "r.take", "vals": vals})
	}
	take()
	for _, op := range ops {
		switch op.Op {
		case "add":
			r.Add(op.V)
			em.Emit(verifEv{"e": "r.add", "v": op.V})
			if takeAll {
				take()
			}
		case "take":
			take()
		default:
			panic("c16 ring: unknown op " + op.Op)
		}
	}
	take()
}

func c16RandomRings(em *verifEmitter, rnd *rand.Rand, histories, length int) {
	for h := 0; h < histories; h++ {
		n := 1 + rnd.Intn(9)
		if rnd.Intn(10) == 0 {
			n = 50 + rnd.Intn(100)
		}
		var ops []c16Op
		cnt := rnd.Intn(length)
		if rnd.Intn(3) == 0 {
			cnt = n*(1+rnd.Intn(4)) - 1 + rnd.Intn(3) // around multiples of n
		}
		for i := 1; i <= cnt; i++ {
			ops = append(ops, c16Op{Op: "add", V: i})
			if rnd.Intn(4) == 0 {
				ops = append(ops, c16Op{Op: "take"})
			}
		}
		c16Ring(em, "random", n, ops, false)
	}
}

// ------------------------------------------------------------------ Set

// A set element of the model is a typed value {t, v}: type tag + small number.  The Go
// value is the number in that dynamic type, so int 1, int64 1, uint 1, uint64 1, "1" and
// int32 1 are six different elements (different keys of the Set's map[any]).
// int, i64, uint, u64, str are the kinds a managed Set knows; oth (int32) is a type it does
// not know.
type c16El struct {
	T string `json:"t"`
	V int    `json:"v"`
}

var c16SetTypes = []string{"int", "i64", "uint", "u64", "str", "oth"}
var c16SetManaged = c16SetTypes[:5]

func c16Elem(e c16El) any {
	switch e.T {
	case "int":
		return e.V
	case "i64":
		return int64(e.V)
	case "uint":
		return uint(e.V)
	case "u64":
		return uint64(e.V)
	case "str":
		return strconv.Itoa(e.V)
	case "oth":
		return int32(e.V)
	}
	panic("c16 set: unknown element type " + e.T)
}

// c16ElOf: what the library handed back, as a model element; anything the driver never
// stored is logged as {"?", -1} (never a driver panic).
func c16ElOf(v any) c16El {
	switch x := v.(type) {
	case int:
		return c16El{"int", x}
	case int64:
		return c16El{"i64", int(x)}
	case uint:
		return c16El{"uint", int(x)}
	case uint64:
		return c16El{"u64", int(x)}
	case string:
		return c16El{"str", c16Atoi(x)}
	case int32:
		return c16El{"oth", int(x)}
	}
	return c16El{"?", -1}
}

func c16Atoi(s string) int {
	n, err := strconv.Atoi(s)
	if err != nil {
		return -1
	}
	return n
}

func c16Els(xs []c16El) []c16El {
	if xs == nil {
		return []c16El{}
	}
	return xs
}

// c16SetAdd performs one variadic add.  api "typed": through AddInt/AddInt64/AddUint/
// AddUint64/AddStr (all arguments are of that one kind); otherwise through Add(...any).
func c16SetAdd(s *Set, api string, xs []c16El) {
	if api == "typed" {
		switch xs[0].T {
		case "int":
			var a []int
			for _, x := range xs {
				a = append(a, x.V)
			}
			s.AddInt(a...)
			return
		case "i64":
			var a []int64
			for _, x := range xs {
				a = append(a, int64(x.V))
			}
			s.AddInt64(a...)
			return
		case "uint":
			var a []uint
			for _, x := range xs {
				a = append(a, uint(x.V))
			}
			s.AddUint(a...)
			return
		case "u64":
			var a []uint64
			for _, x := range xs {
				a = append(a, uint64(x.V))
			}
			s.AddUint64(a...)
			return
		case "str":
			var a []string
			for _, x := range xs {
				a = append(a, strconv.Itoa(x.V))
			}
			s.AddStr(a...)
			return
		}
	}
	var a []any
	for _, x := range xs {
		a = append(a, c16Elem(x))
	}
	s.Add(a...)
}

// c16SetApi: which entry point an add goes through.  The typed ones exist only for
// arguments of one managed kind; for those the choice is the caller's (seeded).
func c16SetApi(rnd *rand.Rand, xs []c16El) string {
	for _, x := range xs {
		if x.T != xs[0].T || x.T == "oth" {
			return "any"
		}
	}
	if rnd.Intn(3) == 0 {
		return "any"
	}
	return "typed"
}

func c16SetKeysOf(s *Set, t string) []int {
	ks := []int{}
	switch t {
	case "int":
		for _, k := range s.KeysInt() {
			ks = append(ks, k)
		}
	case "i64":
		for _, k := range s.KeysInt64() {
			ks = append(ks, int(k))
		}
	case "uint":
		for _, k := range s.KeysUint() {
			ks = append(ks, int(k))
		}
	case "u64":
		for _, k := range s.KeysUint64() {
			ks = append(ks, int(k))
		}
	case "str":
		for _, k := range s.KeysStr() {
			ks = append(ks, c16Atoi(k))
		}
	default:
		panic("c16 set: no typed Keys for " + t)
	}
	return ks
}

// c16Set runs one history on a managed (NewSet) or unmanaged (NewUnmanagedSet) Set.
// universe: the elements Contains is asked about when observing.
func c16Set(em *verifEmitter, drv string, kind string, ops []c16Op, universe []c16El, observeAll bool) {
	c16Guard(em, "set", func() { c16SetRun(em, drv, kind, ops, universe, observeAll) })
}

func c16SetRun(em *verifEmitter, drv string, kind string, ops []c16Op, universe []c16El, observeAll bool) {
	var s *Set
	switch kind {
	case "unmanaged":
		s = NewUnmanagedSet()
	case "managed":
		s = NewSet()
	default:
		panic("c16 set: unknown kind " + kind)
	}
	em.Emit(verifEv{"e": "reset", "obj": "set", "drv": drv, "kind": kind})
	keys := func() {
		ks := []c16El{}
		for _, k := range s.Keys() {
			ks = append(ks, c16ElOf(k))
		}
		em.Emit(verifEv{"e": "s.keys", "keys": ks})
	}
	keysOf := func(t string) {
		em.Emit(verifEv{"e": "s.keysof", "t": t, "keys": c16SetKeysOf(s, t)})
	}
	contains := func(x c16El) {
		em.Emit(verifEv{"e": "s.contains", "x": x, "yes": s.Contains(c16Elem(x))})
	}
	observe := func() {
		em.Emit(verifEv{"e": "s.count", "n": s.Count()})
		keys()
		for _, t := range c16SetManaged {
			keysOf(t)
		}
		for _, x := range universe {
			contains(x)
		}
	}
	for _, op := range ops {
		switch op.Op {
		case "add":
			c16SetAdd(s, op.Api, op.Xs)
			em.Emit(verifEv{"e": "s.add", "xs": c16Els(op.Xs), "api": op.Api})
		case "remove":
			s.Remove(c16Elem(op.X))
			em.Emit(verifEv{"e": "s.remove", "x": op.X})
		case "contains":
			contains(op.X)
		case "count":
			em.Emit(verifEv{"e": "s.count", "n": s.Count()})
		case "keys":
			keys()
		case "keysof":
			keysOf(op.T)
		default:
			panic("c16 set: unknown op " + op.Op)
		}
		if observeAll {
			observe()
		}
	}
	if !observeAll || len(ops) == 0 {
		observe()
	}
}

// c16RandomSets: managed and unmanaged sets over 1..6 element types (one type: the
// homogeneous use the type bookkeeping is meant for; several: a managed set that logs and
// keeps going) and 1..12 values; now and then an argument of a type outside the universe.
func c16RandomSets(em *verifEmitter, rnd *rand.Rand, histories, length int) {
	for h := 0; h < histories; h++ {
		kind := "managed"
		if rnd.Intn(4) == 0 {
			kind = "unmanaged"
		}
		nt := []int{1, 1, 1, 2, 2, 3, 4, 6}[rnd.Intn(8)]
		perm := rnd.Perm(len(c16SetTypes))
		var types []string
		for _, i := range perm[:nt] {
			types = append(types, c16SetTypes[i])
		}
		u := 1 + rnd.Intn(12/nt)
		var universe []c16El
		for _, t := range types {
			for v := 1; v <= u; v++ {
				universe = append(universe, c16El{t, v})
			}
		}
		el := func() c16El {
			if rnd.Intn(12) == 0 {
				return c16El{c16SetTypes[rnd.Intn(len(c16SetTypes))], 1 + rnd.Intn(u)}
			}
			return universe[rnd.Intn(len(universe))]
		}
		var ops []c16Op
		n := 5 + rnd.Intn(length)
		for i := 0; i < n; i++ {
			switch r := rnd.Intn(100); {
			case r < 35:
				xs := []c16El{el()}
				for rnd.Intn(3) == 0 {
					xs = append(xs, el())
				}
				ops = append(ops, c16Op{Op: "add", Xs: xs, Api: c16SetApi(rnd, xs)})
			case r < 58:
				ops = append(ops, c16Op{Op: "remove", X: el()})
			case r < 78:
				ops = append(ops, c16Op{Op: "contains", X: el()})
			case r < 86:
				ops = append(ops, c16Op{Op: "count"})
			case r < 93:
				ops = append(ops, c16Op{Op: "keys"})
			default:
				ops = append(ops, c16Op{Op: "keysof", T: c16SetManaged[rnd.Intn(len(c16SetManaged))]})
			}
		}
		c16Set(em, "random", kind, ops, universe, false)
	}
}

// ------------------------------------------------------------------ test entry points

// TestVerifC16Replay replays TLC-generated histories (one JSON object per line:
// {"obj": ..., parameters, "ops": [...]}) on the real objects.
func TestVerifC16Replay(t *testing.T) {
	em := verifOpen(t)
	defer em.Close()
	logx.Disable()
	rnd := verifRand(1601)
	for _, raw := range verifInput(t) {
		var h c16Hist
		if err := json.Unmarshal(raw, &h); err != nil {
			t.Fatal(err)
		}
		switch h.Obj {
		case "window":
			t0 := time.Duration(rnd.Intn(100000))*c16Unit + time.Duration(rnd.Intn(1000))*time.Microsecond
			c16Window(em, "replay", h.Size, h.Int, h.Ign, t0, h.Ops, true)
		case "cache":
			c16Cache(t, em, "replay", h.Limit, h.Def, h.Ops, 3, true)
		case "queue":
			c16Queue(em, "replay", h.Size, h.Ops)
		case "ring":
			c16Ring(em, "replay", h.N, h.Ops, true)
		case "set":
			var universe []c16El
			for _, tp := range h.Types {
				for _, v := range h.Vals {
					universe = append(universe, c16El{tp, v})
				}
			}
			for j := range h.Ops {
				if h.Ops[j].Op == "add" {
					h.Ops[j].Api = c16SetApi(rnd, h.Ops[j].Xs)
				}
			}
			c16Set(em, "replay", h.Kind, h.Ops, universe, h.Obs != "last")
		default:
			t.Fatalf("c16 replay: unknown object %q", h.Obj)
		}
	}
}

// TestVerifC16Random: seeded random histories for all six objects.
func TestVerifC16Random(t *testing.T) {
	em := verifOpen(t)
	defer em.Close()
	logx.Disable()
	f := 1
	if verifThorough() {
		f = 20
	}
	c16RandomWindows(em, verifRand(1611), 150*f, 80)
	c16RandomCaches(t, em, verifRand(1612), 60*f, 60, false)
	c16RandomCaches(t, em, verifRand(1613), 120*f, 70, true)
	c16RandomMaps(em, verifRand(1614), 60*f, 80)
	c16RandomQueues(em, verifRand(1615), 80*f, 120)
	c16RandomRings(em, verifRand(1616), 100*f, 40)
	c16RandomSets(em, verifRand(1617), 80*f, 50)
}

// TestVerifC16MapLong: long SafeMap histories through both internal migrations.
func TestVerifC16MapLong(t *testing.T) {
	em := verifOpen(t)
	defer em.Close()
	rnd := verifRand(1621)
	n := verifEnvInt("VERIF_C16_LONG", 1)
	for i := 0; i < n; i++ {
		variant := []int{0, 2, 1}[i%3]
		ops, mig := c16MapLong(em, rnd, variant)
		t.Logf("variant=%d ops=%d migrations first=%d second=%d", variant, ops, mig[0], mig[1])
	}
}
