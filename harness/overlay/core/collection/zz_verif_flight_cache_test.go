//go:build verif

package collection

// C07 through a consumer: collection.Cache.Take puts a SingleFlight in front of the fetch
// function.  The fetch is the driver's gate (machinery: zz_verif_flight_sched_test.go, shared
// with core/syncx).  Events are validated by TLC against specs/flight/Flight.tla, mode "take".

import (
	"encoding/json"
	"runtime"
	"strconv"
	"sync/atomic"
	"testing"
	"time"
)

func TestVerifFlightCacheReplay(t *testing.T) {
	em := verifOpen(t)
	defer em.Close()
	// one Cache per object index named by the schedules ("ob"); all of them are handed the same key strings
	var caches []*Cache
	cacheOf := func(ob int) *Cache {
		for len(caches) < ob {
			c, err := NewCache(time.Hour)
			if err != nil {
				t.Fatal(err)
			}
			caches = append(caches, c)
		}
		return caches[ob-1]
	}
	for h, raw := range verifInput(t) {
		var ops []verifFlightOp
		if err := json.Unmarshal(raw, &ops); err != nil {
			t.Fatal(err)
		}
		for i := range ops {
			if ops[i].Ob < 1 {
				ops[i].Ob = 1
			}
			cacheOf(ops[i].Ob)
		}
		s := &verifFlightSched{t: t, em: em}
		s.invoke = func(c *verifFlightCall, fn func() (any, error)) (int, int, int) {
			v, err := caches[c.obj-1].Take(verifFlightKey(h, c.key), fn)
			return verifFlightVal(v), verifFlightErrCode(err), 2
		}
		em.Emit(verifEv{"e": "reset", "mode": "take"})
		for _, op := range ops {
			switch op.Op {
			case "call":
				s.startOn(op.Ob, op.K)
			case "rel":
				s.releaseOn(op.Ob, op.K, op.O, "")
			case "del":
				s.rest()
				caches[op.Ob-1].Del(verifFlightKey(h, op.K))
				em.Emit(verifEv{"e": "del", "o": op.Ob, "k": op.K})
			}
			s.rest()
		}
		s.drain()
	}
}

// free-running callers; fetches mostly fail (errors are not cached, so flights keep forming)
func TestVerifFlightCacheStress(t *testing.T) {
	em := verifOpen(t)
	defer em.Close()
	cache, err := NewCache(time.Hour)
	if err != nil {
		t.Fatal(err)
	}
	rnd := verifRand(8)
	rounds := verifEnvInt("VERIF_FLIGHT_ROUNDS", 40)
	defer runtime.GOMAXPROCS(runtime.GOMAXPROCS(0))
	for r := 0; r < rounds; r++ {
		runtime.GOMAXPROCS([]int{1, 2, 4, 8}[rnd.Intn(4)])
		goroutines := 2 + rnd.Intn(15)
		keys := 1 + rnd.Intn(3)
		perG := 2 + rnd.Intn(10)
		maxSpin := []int{0, 1, 3, 20}[rnd.Intn(4)]
		okOneIn := 4 + rnd.Intn(20)
		em.Emit(verifEv{"e": "reset", "mode": "take"})
		var ids atomic.Int64
		startc := make(chan struct{})
		workers := make([]*verifFlightWorker, goroutines)
		for g := 0; g < goroutines; g++ {
			gr := verifRand(int64(1000*r + g + 17))
			w := &verifFlightWorker{}
			workers[g] = w
			go func() {
				defer w.done.Store(true)
				w.gid.Store(verifFlightGid())
				<-startc
				for i := 0; i < perG; i++ {
					id := int(ids.Add(1))
					w.cur.Store(int64(id))
					k := 1 + gr.Intn(keys)
					spin := gr.Intn(maxSpin + 1)
					ok := gr.Intn(okOneIn) == 0
					fetch := func() (any, error) {
						em.Emit(verifEv{"e": "fnStart", "c": id})
						for j := 0; j < spin; j++ {
							runtime.Gosched()
						}
						if ok {
							em.Emit(verifEv{"e": "fnEnd", "c": id, "v": id, "err": 0})
							return id, nil
						}
						em.Emit(verifEv{"e": "fnEnd", "c": id, "v": 0, "err": id})
						return nil, verifFlightErr{id}
					}
					em.Emit(verifEv{"e": "callStart", "c": id, "k": k})
					v, err := cache.Take("r"+strconv.Itoa(r)+"-k"+strconv.Itoa(k), fetch)
					em.Emit(verifEv{"e": "callEnd", "c": id, "v": verifFlightVal(v), "err": verifFlightErrCode(err), "fresh": 2})
				}
			}()
		}
		close(startc)
		verifFlightJoin(t, em, workers)
	}
}
