//go:build verif

package collection

// C12 driver: performs operation histories on the real TimingWheel with a harness-owned
// ticker and records what the execute callback received. No expectations here: the
// verdict comes from TLC validating the recorded trace against specs/wheel/Wheel.tla.

import (
	"encoding/json"
	"fmt"
	"sort"
	"sync"
	"testing"
	"time"

	"github.com/zeromicro/go-zero/internal/verifhook"
)

// syncTicker delivers a tick only when the run loop receives it (unbuffered), so that a
// following synchronous command is known to be processed after onTick has finished.
type syncTicker struct{ c chan time.Time }

func (s *syncTicker) Chan() <-chan time.Time { return s.c }
func (s *syncTicker) Stop()                  {}

type wheelOp struct {
	Op string `json:"op"`
	K  int    `json:"k"`
	V  int    `json:"v"`
	S  int    `json:"s"`
}

type wheelRun struct {
	mu     sync.Mutex
	got    [][2]int // callbacks received so far and not yet attributed
	expect int      // callbacks announced by the wheel's run loop (hook) and not yet seen
	cond   *sync.Cond
}

const wheelInterval = 10 * time.Millisecond
const wheelSyncKey = -424242

func (r *wheelRun) callback(k, v any) {
	r.mu.Lock()
	r.got = append(r.got, [2]int{k.(int), v.(int)})
	r.cond.Broadcast()
	r.mu.Unlock()
}

// collect waits until every callback the wheel announced has arrived (bounded), then
// takes whatever has arrived, sorted.
func (r *wheelRun) collect(announced int) [][2]int {
	deadline := time.Now().Add(10 * time.Second)
	r.mu.Lock()
	for len(r.got) < announced && time.Now().Before(deadline) {
		r.mu.Unlock()
		time.Sleep(50 * time.Microsecond)
		r.mu.Lock()
	}
	out := r.got
	r.got = nil
	r.mu.Unlock()
	sort.Slice(out, func(i, j int) bool {
		if out[i][0] != out[j][0] {
			return out[i][0] < out[j][0]
		}
		return out[i][1] < out[j][1]
	})
	if out == nil {
		out = [][2]int{}
	}
	return out
}

func wheelHistory(t *testing.T, em *verifEmitter, n int, ops []wheelOp, fracs []int) {
	r := &wheelRun{}
	r.cond = sync.NewCond(&r.mu)
	var hookMu sync.Mutex
	announced := 0
	verifhook.Set(func(point string, args ...any) {
		hookMu.Lock()
		switch point {
		case "wheel.fire":
			announced += args[0].(int)
		case "wheel.drain.item":
			announced++
		}
		hookMu.Unlock()
	})
	defer verifhook.Set(nil)
	tk := &syncTicker{c: make(chan time.Time)}
	tw, err := NewTimingWheelWithTicker(wheelInterval, n, r.callback, tk)
	if err != nil {
		t.Fatal(err)
	}
	defer tw.Stop()
	sync1 := func() { // returns once the run loop is back at its select
		if err := tw.RemoveTimer(wheelSyncKey); err != nil {
			t.Fatal(err)
		}
		if err := tw.RemoveTimer(wheelSyncKey); err != nil {
			t.Fatal(err)
		}
	}
	take := func() [][2]int {
		sync1()
		hookMu.Lock()
		a := announced
		announced = 0
		hookMu.Unlock()
		return r.collect(a)
	}
	em.Emit(verifEv{"e": "reset", "n": n})
	for i, op := range ops {
		frac := time.Duration(0)
		if len(fracs) > 0 { // delay = steps*interval + a fraction of an interval: floor must drop it
			frac = time.Duration(fracs[i%len(fracs)]) * wheelInterval / 10
		}
		d := time.Duration(op.S)*wheelInterval + frac
		switch op.Op {
		case "set":
			if err := tw.SetTimer(op.K, op.V, d); err != nil {
				t.Fatal(err)
			}
			em.Emit(verifEv{"e": "set", "k": op.K, "v": op.V, "s": op.S, "fired": take()})
		case "move":
			if err := tw.MoveTimer(op.K, d); err != nil {
				t.Fatal(err)
			}
			em.Emit(verifEv{"e": "move", "k": op.K, "s": op.S, "fired": take()})
		case "remove":
			if err := tw.RemoveTimer(op.K); err != nil {
				t.Fatal(err)
			}
			em.Emit(verifEv{"e": "remove", "k": op.K, "fired": take()})
		case "tick":
			tk.c <- time.Now()
			em.Emit(verifEv{"e": "tick", "fired": take()})
		case "drain":
			if err := tw.Drain(r.callback); err != nil {
				t.Fatal(err)
			}
			em.Emit(verifEv{"e": "drain", "fired": take()})
		default:
			t.Fatalf("unknown op %q", op.Op)
		}
	}
	time.Sleep(2 * time.Millisecond)
	em.Emit(verifEv{"e": "end", "fired": take()})
}

// TestVerifWheelReplay replays TLC-generated histories (one per distinct reachable state
// of WheelImpl), each followed by enough ticks to flush every pending timer.
func TestVerifWheelReplay(t *testing.T) {
	em := verifOpen(t)
	defer em.Close()
	n := verifEnvInt("VERIF_WHEEL_N", 3)
	maxSteps := verifEnvInt("VERIF_WHEEL_MAXSTEPS", 7)
	for _, raw := range verifInput(t) {
		var ops []wheelOp
		if err := json.Unmarshal(raw, &ops); err != nil {
			t.Fatal(err)
		}
		for i := 0; i < maxSteps+1; i++ {
			ops = append(ops, wheelOp{Op: "tick"})
		}
		wheelHistory(t, em, n, ops, nil)
	}
}

// TestVerifWheelRandom: seeded random histories over many wheel sizes, delays up to three
// revolutions, fractional delays, removes, moves of unknown keys, and a final drain.
func TestVerifWheelRandom(t *testing.T) {
	em := verifOpen(t)
	defer em.Close()
	rnd := verifRand(12)
	sizes := []int{1, 2, 3, 4, 5, 7, 10, 16, 300}
	histories, length := 150, 60
	if verifThorough() {
		histories, length = 1500, 120
	}
	for h := 0; h < histories; h++ {
		n := sizes[rnd.Intn(len(sizes))]
		keys := 1 + rnd.Intn(6)
		maxS := 3*n + 2
		if n == 300 {
			maxS = 700
		}
		var ops []wheelOp
		val := 0
		ln := 5 + rnd.Intn(length)
		for i := 0; i < ln; i++ {
			val++
			k := 1 + rnd.Intn(keys)
			s := 1 + rnd.Intn(maxS)
			if rnd.Intn(3) == 0 { // cluster around revolution boundaries
				s = n*(rnd.Intn(3)) + rnd.Intn(3)
				if s < 1 {
					s = 1
				}
			}
			switch x := rnd.Intn(100); {
			case x < 25:
				ops = append(ops, wheelOp{Op: "set", K: k, V: val, S: s})
			case x < 45:
				ops = append(ops, wheelOp{Op: "move", K: k, S: s})
			case x < 52:
				ops = append(ops, wheelOp{Op: "remove", K: k})
			default:
				burst := 1
				if rnd.Intn(4) == 0 {
					burst = 1 + rnd.Intn(n+1)
				}
				for b := 0; b < burst; b++ {
					ops = append(ops, wheelOp{Op: "tick"})
				}
			}
		}
		if rnd.Intn(2) == 0 {
			ops = append(ops, wheelOp{Op: "drain"})
			ops = append(ops, wheelOp{Op: "tick"}, wheelOp{Op: "tick"})
		} else {
			for i := 0; i < maxS+1 && i < 40; i++ {
				ops = append(ops, wheelOp{Op: "tick"})
			}
		}
		wheelHistory(t, em, n, ops, []int{0, 3, 9, 0, 5})
	}
	_ = fmt.Sprint
}
