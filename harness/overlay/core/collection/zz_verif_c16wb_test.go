//go:build verif

package collection

// C16 white-box accessors (the only place where the C16 drivers touch unexported state):
//   - a Cache whose expiry TimingWheel is replaced by one on a driver-owned ticker, with the
//     cache's own expiry callback wrapped so that the driver sees which keys it ran for;
//   - len(cache.data);
//   - SafeMap generation counters (informational: which migrations a long history triggered).

import (
	"sort"
	"sync"
	"testing"
	"time"

	"github.com/zeromicro/go-zero/internal/verifhook"
)

const c16SyncKey = "\x00c16-sync"

// c16Ticker hands a tick over only when the wheel's run loop receives it (unbuffered).
type c16Ticker struct{ c chan time.Time }

func (s *c16Ticker) Chan() <-chan time.Time { return s.c }
func (s *c16Ticker) Stop()                  {}

func init() {
	c16WB = &c16WhiteBox{
		newCache: c16NewFakeWheelCache,
		size:     func(c *Cache) int { return c.size() },
		mapGen: func(m *SafeMap) (int, int, int, int) {
			m.lock.RLock()
			defer m.lock.RUnlock()
			return m.deletionOld, m.deletionNew, len(m.dirtyOld), len(m.dirtyNew)
		},
	}
}

func c16NewFakeWheelCache(t *testing.T, expire time.Duration, limit int) (*Cache, func() []string, func()) {
	c, err := NewCache(expire, WithLimit(limit), WithName("c16"))
	if err != nil {
		t.Fatal(err)
	}
	onExpire := c.timingWheel.execute // the cache's own expiry callback
	interval, nslots := c.timingWheel.interval, c.timingWheel.numSlots
	c.timingWheel.Stop()

	var mu sync.Mutex
	var expired []string // keys the callback has finished for
	announced := 0       // callbacks the wheel said it would start (hook wheel.fire)
	verifhook.Set(func(point string, args ...any) {
		if point == "wheel.fire" {
			mu.Lock()
			announced += args[0].(int)
			mu.Unlock()
		}
	})
	tk := &c16Ticker{c: make(chan time.Time)}
	tw, err := NewTimingWheelWithTicker(interval, nslots, func(k, v any) {
		onExpire(k, v)
		mu.Lock()
		if s, ok := k.(string); ok {
			expired = append(expired, s)
		} else {
			expired = append(expired, "?")
		}
		mu.Unlock()
	}, tk)
	if err != nil {
		t.Fatal(err)
	}
	c.timingWheel = tw
	tick := func() []string {
		tk.c <- time.Now()
		// the run loop takes the next command only after onTick has returned
		if err := tw.RemoveTimer(c16SyncKey); err != nil {
			t.Fatal(err)
		}
		deadline := time.Now().Add(30 * time.Second)
		for {
			mu.Lock()
			done := len(expired) >= announced
			mu.Unlock()
			if done {
				break
			}
			if time.Now().After(deadline) {
				t.Fatalf("c16: expiry callbacks did not finish (infrastructure)")
			}
			time.Sleep(20 * time.Microsecond)
		}
		mu.Lock()
		out := expired
		expired = nil
		announced = 0
		mu.Unlock()
		sort.Strings(out)
		return out
	}
	stop := func() {
		tw.Stop()
		verifhook.Set(nil)
	}
	return c, tick, stop
}
