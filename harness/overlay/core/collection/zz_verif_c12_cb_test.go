//go:build verif

package collection

// C12 driver, callback windows: operation histories on the real TimingWheel in which the execute
// callbacks are held at gates the driver controls, issue SetTimer/MoveTimer/RemoveTimer themselves,
// or are overtaken by calls from another goroutine and by further ticks.  The driver drives and
// records; it has no expectations.  The verdict comes from TLC validating the recorded trace against
// specs/wheel/WheelCb.tla (WheelCbTrace).
//
// Ordering of the record: one wheel call is in flight at a time (the main goroutine either makes the
// call itself or hands it to a held callback and waits), every operation line is written before the
// call is made, "cb" is the first statement of the execute callback and "cbend" its last.  Bounded
// waits never decide anything: when one expires the driver goes on and records what happened.
//
// Only exported API of the package is used (plus the harness hook), so there is no white-box part.

import (
	"encoding/json"
	"fmt"
	"runtime"
	"sync"
	"testing"
	"time"

	"github.com/zeromicro/go-zero/internal/verifhook"
)

type cbOp struct {
	Op string `json:"op"`
	K  int    `json:"k"`
	V  int    `json:"v"`
	S  int    `json:"s"`
	A  []int  `json:"a"` // actor: [] = a goroutine outside the wheel, [k, v] = the callback of that firing
}

type cbKey [2]int

type cbHeld struct {
	kv   cbKey
	cmd  chan func()   // work to do inside the callback; closed = return from the callback
	done chan struct{} // closed when the callback has written "cbend"
}

type cbRun struct {
	t  *testing.T
	em *verifEmitter
	tw *TimingWheel
	tk *syncTicker

	mu        sync.Mutex
	announced int // firings the run loop of the wheel announced through the hook
	begun     int // callbacks entered
	ended     int // callbacks that wrote "cbend"
	gating    bool
	hold      func(kv cbKey) bool
	active    map[cbKey]*cbHeld
	order     []*cbHeld // held callbacks, oldest first
	seen      map[cbKey]bool
	dirty     bool // a tick or Drain was issued since the last "settled" line
	err       error
}

// Once a bounded wait expired (a firing that was announced never arrived) the rest of that history
// uses short waits and no further history is run: the trace recorded so far is what TLC judges, and
// the run must not time out instead.
var cbStalled bool

func cbBound() time.Duration {
	if cbStalled {
		return time.Second
	}
	return 10 * time.Second
}

func (r *cbRun) fail(err error) {
	r.mu.Lock()
	if r.err == nil {
		r.err = err
	}
	r.mu.Unlock()
}

func (r *cbRun) check() {
	r.mu.Lock()
	err := r.err
	r.mu.Unlock()
	if err != nil {
		r.t.Fatal(err)
	}
}

func (r *cbRun) deliver(k, v any, mayHold bool) {
	kv := cbKey{k.(int), v.(int)}
	r.em.Emit(verifEv{"e": "cb", "k": kv[0], "v": kv[1]})
	var st *cbHeld
	r.mu.Lock()
	r.begun++
	r.seen[kv] = true
	if mayHold && r.gating && r.active[kv] == nil && r.hold(kv) {
		st = &cbHeld{kv: kv, cmd: make(chan func()), done: make(chan struct{})}
		r.active[kv] = st
		r.order = append(r.order, st)
	}
	r.mu.Unlock()
	if st != nil {
		for f := range st.cmd {
			f()
		}
	}
	r.em.Emit(verifEv{"e": "cbend", "k": kv[0], "v": kv[1]})
	r.mu.Lock()
	r.ended++
	r.mu.Unlock()
	if st != nil {
		close(st.done)
	}
}

func (r *cbRun) callback(k, v any)      { r.deliver(k, v, true) }
func (r *cbRun) drainCallback(k, v any) { r.deliver(k, v, false) }

// sync1 returns once the run loop is back at its select (two round trips on an unused key)
func (r *cbRun) sync1() {
	for i := 0; i < 2; i++ {
		if err := r.tw.RemoveTimer(wheelSyncKey); err != nil {
			r.fail(err)
		}
	}
}

// do writes the line, makes the call and waits for the run loop, inside the held callback `by`
// or (by == nil) on the calling goroutine
func (r *cbRun) do(by *cbHeld, line verifEv, call func() error) {
	f := func() {
		r.em.Emit(line)
		if err := call(); err != nil {
			r.fail(err)
		}
		r.sync1()
	}
	if by == nil {
		f()
	} else {
		done := make(chan struct{})
		by.cmd <- func() { f(); close(done) }
		<-done
	}
	r.check()
}

func cbActor(by *cbHeld) []int {
	if by == nil {
		return []int{}
	}
	return []int{by.kv[0], by.kv[1]}
}

// release lets a held callback return and waits until it has written "cbend"
func (r *cbRun) release(st *cbHeld) {
	r.mu.Lock()
	if r.active[st.kv] != st {
		r.mu.Unlock()
		return
	}
	delete(r.active, st.kv)
	for i, o := range r.order {
		if o == st {
			r.order = append(r.order[:i:i], r.order[i+1:]...)
			break
		}
	}
	r.mu.Unlock()
	close(st.cmd)
	<-st.done
}

// settle writes "settled" when every announced firing has entered its callback.  It is called after
// the run loop has been synchronised, so `announced` is final for the operations so far.  How long
// it is worth waiting: while nothing is held the announced callbacks all start on their own (bounded
// wait); once a callback is held, others may be queued behind it (the wheel runs the callbacks of
// one tick one after the other), so only a short grace.
func (r *cbRun) settle(grace time.Duration) {
	start := time.Now()
	for {
		r.mu.Lock()
		ok := r.begun >= r.announced
		fresh := r.dirty
		if ok {
			r.dirty = false
		}
		held := len(r.order)
		r.mu.Unlock()
		if ok {
			if fresh {
				r.em.Emit(verifEv{"e": "settled"})
			}
			return
		}
		el := time.Since(start)
		if held > 0 && el >= grace {
			return
		}
		if held == 0 && el >= cbBound() {
			cbStalled = true
			return
		}
		runtime.Gosched()
		time.Sleep(20 * time.Microsecond)
	}
}

func (r *cbRun) afterOp(grew bool) {
	if grew {
		r.settle(time.Millisecond)
	} else {
		r.settle(0)
	}
}

// ensureActive waits until the callback of firing kv is held.  If it cannot start because the wheel
// queued it behind other held callbacks, those are released, oldest first.  nil: it already ran, or
// it is not coming.
func (r *cbRun) ensureActive(kv cbKey) *cbHeld {
	deadline := time.Now().Add(cbBound())
	lastBegun, lastProgress := -1, time.Now()
	for {
		r.mu.Lock()
		st := r.active[kv]
		seen := r.seen[kv]
		begun, announced := r.begun, r.announced
		var oldest *cbHeld
		if len(r.order) > 0 {
			oldest = r.order[0]
		}
		r.mu.Unlock()
		if st != nil {
			return st
		}
		if seen || begun >= announced {
			return nil
		}
		now := time.Now()
		if begun != lastBegun {
			lastBegun, lastProgress = begun, now
		} else if oldest != nil && now.Sub(lastProgress) > 3*time.Millisecond {
			r.release(oldest)
			lastProgress = time.Now()
		} else if !now.Before(deadline) {
			cbStalled = true
			return nil
		}
		runtime.Gosched()
		time.Sleep(20 * time.Microsecond)
	}
}

// openGates: no callback is held from now on; the held ones return
func (r *cbRun) openGates() {
	r.mu.Lock()
	r.gating = false
	held := append([]*cbHeld(nil), r.order...)
	r.mu.Unlock()
	for _, st := range held {
		r.release(st)
	}
}

// quiesce waits until every announced firing entered and left its callback
func (r *cbRun) quiesce() {
	deadline := time.Now().Add(cbBound())
	for {
		r.mu.Lock()
		ok := r.begun >= r.announced && r.ended >= r.begun
		r.mu.Unlock()
		if ok {
			return
		}
		if !time.Now().Before(deadline) {
			cbStalled = true
			return
		}
		runtime.Gosched()
		time.Sleep(20 * time.Microsecond)
	}
}

func cbStart(t *testing.T, em *verifEmitter, n int, hold func(cbKey) bool) *cbRun {
	r := &cbRun{t: t, em: em, gating: true, hold: hold, active: map[cbKey]*cbHeld{}, seen: map[cbKey]bool{}}
	verifhook.Set(func(point string, args ...any) {
		r.mu.Lock()
		switch point {
		case "wheel.fire":
			if len(args) > 0 {
				if c, ok := args[0].(int); ok {
					r.announced += c
				}
			}
		case "wheel.drain.item":
			r.announced++
		}
		r.mu.Unlock()
	})
	r.tk = &syncTicker{c: make(chan time.Time)}
	tw, err := NewTimingWheelWithTicker(wheelInterval, n, r.callback, r.tk)
	if err != nil {
		t.Fatal(err)
	}
	r.tw = tw
	em.Emit(verifEv{"e": "reset", "n": n})
	return r
}

func (r *cbRun) stop() {
	r.tw.Stop()
	verifhook.Set(nil)
}

func cbDelay(s, frac int) time.Duration {
	return time.Duration(s)*wheelInterval + time.Duration(frac)*wheelInterval/10
}

func (r *cbRun) opSet(by *cbHeld, k, v, s, frac int) {
	r.do(by, verifEv{"e": "set", "k": k, "v": v, "s": s, "a": cbActor(by)},
		func() error { return r.tw.SetTimer(k, v, cbDelay(s, frac)) })
	r.afterOp(false)
}

func (r *cbRun) opMove(by *cbHeld, k, s, frac int) {
	r.do(by, verifEv{"e": "move", "k": k, "s": s, "a": cbActor(by)},
		func() error { return r.tw.MoveTimer(k, cbDelay(s, frac)) })
	r.afterOp(false)
}

func (r *cbRun) opRemove(by *cbHeld, k int) {
	r.do(by, verifEv{"e": "remove", "k": k, "a": cbActor(by)},
		func() error { return r.tw.RemoveTimer(k) })
	r.afterOp(false)
}

func (r *cbRun) opTick() {
	r.mu.Lock()
	before := r.announced
	r.mu.Unlock()
	r.do(nil, verifEv{"e": "tick"}, func() error { r.tk.c <- time.Now(); return nil })
	r.mu.Lock()
	grew := r.announced != before
	r.dirty = true
	r.mu.Unlock()
	r.afterOp(grew)
}

func (r *cbRun) opDrain() {
	r.do(nil, verifEv{"e": "drain"}, func() error { return r.tw.Drain(r.drainCallback) })
	r.mu.Lock()
	r.dirty = true
	r.mu.Unlock()
	r.afterOp(true)
}

// finish: open the gates, flush with `ticks` ticks (each one settled), close the history
func (r *cbRun) finish(ticks int) {
	r.openGates()
	r.quiesce()
	r.afterOp(false)
	for i := 0; i < ticks; i++ {
		r.opTick()
		r.quiesce()
	}
	r.quiesce()
	r.em.Emit(verifEv{"e": "end"})
	r.stop()
	r.check()
}

// TestVerifWheelCbReplay replays the histories TLC printed for WheelCbImpl (one per distinct
// reachable implementation state with a callback window in its past).  Every callback is held; the
// history says which one is entered ("begin": wait for it), which one returns ("end") and who makes
// each call.
func TestVerifWheelCbReplay(t *testing.T) {
	em := verifOpen(t)
	defer em.Close()
	n := verifEnvInt("VERIF_WHEEL_N", 2)
	maxSteps := verifEnvInt("VERIF_WHEEL_MAXSTEPS", 4)
	for _, raw := range verifInput(t) {
		var ops []cbOp
		if err := json.Unmarshal(raw, &ops); err != nil {
			t.Fatal(err)
		}
		r := cbStart(t, em, n, func(cbKey) bool { return true })
		for _, op := range ops {
			var by *cbHeld
			if len(op.A) == 2 {
				by = r.ensureActive(cbKey{op.A[0], op.A[1]})
			}
			switch op.Op {
			case "set":
				r.opSet(by, op.K, op.V, op.S, 0)
			case "move":
				r.opMove(by, op.K, op.S, 0)
			case "remove":
				r.opRemove(by, op.K)
			case "tick":
				r.opTick()
			case "begin":
				r.ensureActive(cbKey{op.K, op.V})
				r.afterOp(false)
			case "end":
				if st := r.ensureActive(cbKey{op.K, op.V}); st != nil {
					r.release(st)
				}
				r.afterOp(true)
			default:
				t.Fatalf("unknown op %q", op.Op)
			}
		}
		r.finish(maxSteps + 1)
		if cbStalled {
			break
		}
	}
}

// TestVerifWheelCbRandom: seeded random histories over many wheel sizes in which a random part of
// the callbacks is held, calls are made from inside held callbacks (preferably on the key that just
// fired) and from outside while they are held, with delays up to three revolutions and fractional
// delays; ends with a flush or with a Drain issued while callbacks are still held.
func TestVerifWheelCbRandom(t *testing.T) {
	em := verifOpen(t)
	defer em.Close()
	rnd := verifRand(1207)
	sizes := []int{1, 2, 3, 4, 5, 7, 10, 16, 300}
	histories, length := 120, 40
	if verifThorough() {
		histories, length = 1000, 100
	}
	fracs := []int{0, 3, 9, 0, 5}
	for h := 0; h < histories; h++ {
		n := sizes[rnd.Intn(len(sizes))]
		keys := 1 + rnd.Intn(4)
		maxS := 3*n + 2
		if n == 300 {
			maxS = 700
		}
		holdPct := []int{100, 70, 40}[rnd.Intn(3)]
		salt := rnd.Intn(1 << 20)
		r := cbStart(t, em, n, func(kv cbKey) bool {
			return (kv[0]*7919+kv[1]*104729+salt)%100 < holdPct
		})
		val := 0
		ln := 5 + rnd.Intn(length)
		for i := 0; i < ln; i++ {
			val++
			frac := fracs[i%len(fracs)]
			r.mu.Lock()
			held := append([]*cbHeld(nil), r.order...)
			r.mu.Unlock()
			k := 1 + rnd.Intn(keys)
			if len(held) > 0 && rnd.Intn(2) == 0 { // the key of a callback that is executing
				k = held[rnd.Intn(len(held))].kv[0]
			}
			s := 1 + rnd.Intn(maxS)
			if rnd.Intn(3) == 0 { // due soon: callbacks to hold
				s = 1 + rnd.Intn(3)
			} else if rnd.Intn(3) == 0 { // cluster around revolution boundaries
				s = n*(rnd.Intn(3)) + rnd.Intn(3)
				if s < 1 {
					s = 1
				}
			}
			var by *cbHeld
			if len(held) > 0 && rnd.Intn(100) < 60 {
				by = held[rnd.Intn(len(held))]
				if rnd.Intn(2) == 0 { // a callback re-arming its own key
					for _, st := range held {
						if st.kv[0] == k {
							by = st
						}
					}
				}
			}
			switch x := rnd.Intn(100); {
			case x < 24:
				r.opSet(by, k, val, s, frac)
			case x < 38:
				r.opMove(by, k, s, frac)
			case x < 45:
				r.opRemove(by, k)
			case x < 60 && len(held) > 0:
				r.release(held[rnd.Intn(len(held))])
				r.afterOp(true)
			default:
				burst := 1
				if rnd.Intn(4) == 0 {
					burst = 1 + rnd.Intn(n+1)
				}
				for b := 0; b < burst; b++ {
					r.opTick()
				}
			}
		}
		if rnd.Intn(2) == 0 {
			r.opDrain() // possibly while callbacks of earlier ticks are still held
			r.finish(2)
		} else {
			ticks, most := maxS+1, 12
			if verifThorough() {
				most = 25
			}
			if ticks > most {
				ticks = most
			}
			r.finish(ticks)
		}
		if cbStalled {
			break
		}
	}
	_ = fmt.Sprint
}
