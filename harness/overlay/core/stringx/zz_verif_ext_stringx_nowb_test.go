//go:build verif && verifnowb

package stringx

// Extension "stringx", black-box stand-in for zz_verif_ext_stringx_wb_test.go (tag verifnowb):
// node.find cannot be reached; the drivers then log no find events.
func verifExtstringxFind(obj any, chars []rune) ([][2]int, bool) { return nil, false }
