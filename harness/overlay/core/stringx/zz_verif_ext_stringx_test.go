//go:build verif

package stringx

// Extension "stringx" (host C09, advisory): drivers for stringx.Trie (NewTrie / WithMask / Filter /
// FindKeywords), stringx.Replacer (NewReplacer / Replace) and - white box, through
// verifExtstringxFind - node.find.  They build real objects, call them and record what came back,
// runes as code points.  They hold no expectations: the verdict comes from TLC validating the trace
// against specs/stringx/Stringx.tla (StringxTrace).
//
//   TestVerifExtstringxReplay    TLC-enumerated (object, call) pairs over an abstract alphabet
//                                {1,2,3} + mask 9, mapped to real runes by a seeded table per object
//                                (ASCII, 2/3/4-byte runes, mixed widths, the default mask '*' as a letter)
//   TestVerifExtstringxExamples  the inputs of the package's own unit tests (no expectations)
//   TestVerifExtstringxRandom    seeded random dictionaries that share substrings, longer texts
//   TestVerifExtstringxConcurrent  goroutines sharing one Trie and one Replacer

import (
	"encoding/json"
	"fmt"
	"math/rand"
	"sync"
	"testing"
)

type verifExtstringxRec struct {
	em *verifEmitter
}

func verifExtstringxInts(rs []rune) []int {
	out := make([]int, len(rs))
	for i, r := range rs {
		out[i] = int(r)
	}
	return out
}

func verifExtstringxStr(s string) []int { return verifExtstringxInts([]rune(s)) }

func verifExtstringxStrs(ss []string) [][]int {
	out := make([][]int, len(ss))
	for i, s := range ss {
		out[i] = verifExtstringxStr(s)
	}
	return out
}

// guard runs a library call; a panic is recorded as an event (the specification has no action for it)
func (w *verifExtstringxRec) guard(op string, id int, text []rune, fn func()) {
	defer func() {
		if r := recover(); r != nil {
			w.em.Emit(verifEv{"e": "panic", "op": op, "id": id, "text": verifExtstringxInts(text), "msg": fmt.Sprint(r)})
		}
	}()
	fn()
}

// mask 0 = no option
func (w *verifExtstringxRec) newTrie(id int, words [][]rune, mask rune) (tr Trie) {
	ws := make([]string, len(words))
	for i, x := range words {
		ws[i] = string(x)
	}
	w.guard("newtrie", id, nil, func() {
		if mask == 0 {
			tr = NewTrie(ws)
		} else {
			tr = NewTrie(ws, WithMask(mask))
		}
		w.em.Emit(verifEv{"e": "newtrie", "id": id, "words": verifExtstringxStrs(ws), "mask": int(mask)})
	})
	return
}

func (w *verifExtstringxRec) newRepl(id int, pairs [][2][]rune) (rp Replacer) {
	m := make(map[string]string, len(pairs))
	logged := make([][2][]int, 0, len(pairs))
	for _, p := range pairs {
		if _, dup := m[string(p[0])]; dup {
			continue
		}
		m[string(p[0])] = string(p[1])
		logged = append(logged, [2][]int{verifExtstringxInts(p[0]), verifExtstringxInts(p[1])})
	}
	w.guard("newrepl", id, nil, func() {
		rp = NewReplacer(m)
		w.em.Emit(verifEv{"e": "newrepl", "id": id, "map": logged})
	})
	return
}

func (w *verifExtstringxRec) filter(id int, tr Trie, text []rune) {
	if tr == nil {
		return
	}
	w.guard("filter", id, text, func() {
		out, kws, found := tr.Filter(string(text))
		w.em.Emit(verifEv{"e": "filter", "id": id, "text": verifExtstringxInts(text), "out": verifExtstringxStr(out),
			"kws": verifExtstringxStrs(kws), "found": found})
	})
}

func (w *verifExtstringxRec) findkw(id int, tr Trie, text []rune) {
	if tr == nil {
		return
	}
	w.guard("findkw", id, text, func() {
		kws := tr.FindKeywords(string(text))
		w.em.Emit(verifEv{"e": "findkw", "id": id, "text": verifExtstringxInts(text), "kws": verifExtstringxStrs(kws)})
	})
}

func (w *verifExtstringxRec) replace(id int, rp Replacer, text []rune) {
	if rp == nil {
		return
	}
	w.guard("replace", id, text, func() {
		out := rp.Replace(string(text))
		w.em.Emit(verifEv{"e": "replace", "id": id, "text": verifExtstringxInts(text), "out": verifExtstringxStr(out)})
	})
}

// white box; silently nothing when the accessor is unavailable
func (w *verifExtstringxRec) find(id int, obj any, text []rune) {
	if obj == nil {
		return
	}
	w.guard("find", id, text, func() {
		// the argument the library itself would hand to find: []rune(text)
		scopes, ok := verifExtstringxFind(obj, []rune(string(text)))
		if !ok {
			return
		}
		w.em.Emit(verifEv{"e": "find", "id": id, "text": verifExtstringxInts(text), "scopes": scopes})
	})
}

// ---------------------------------------------------------------- spec -> code

type verifExtstringxCtor struct {
	Op    string     `json:"op"`
	ID    int        `json:"id"`
	Words [][]int    `json:"words"`
	Mask  int        `json:"mask"`
	Map   [][2][]int `json:"map"`
}

type verifExtstringxCall struct {
	Op   string `json:"op"`
	Text []int  `json:"text"`
}

type verifExtstringxGroup struct {
	New   verifExtstringxCtor   `json:"new"`
	Calls []verifExtstringxCall `json:"calls"`
}

// abstract letters 1, 2, 3 and the mask 9 -> runes
var verifExtstringxTables = [][4]rune{
	{'a', 'b', 'c', '#'},
	{'一', '二', '三', '＊'},
	{'é', 'ß', 'ñ', '¤'},
	{'😀', '🙂', '🤖', '🚫'},
	{'a', '二', '😀', 'é'},
	{'*', 'a', 'b', 'x'},
	{'日', 'a', '*', '本'},
	{'A', 'a', 'À', '-'},
}

func verifExtstringxMap(tab [4]rune, xs []int) []rune {
	out := make([]rune, len(xs))
	for i, x := range xs {
		switch x {
		case 1, 2, 3:
			out[i] = tab[x-1]
		default:
			out[i] = tab[3]
		}
	}
	return out
}

func TestVerifExtstringxReplay(t *testing.T) {
	em := verifOpen(t)
	defer em.Close()
	w := &verifExtstringxRec{em: em}
	rnd := verifRand(9101)
	for _, raw := range verifInput(t) {
		var g verifExtstringxGroup
		if err := json.Unmarshal(raw, &g); err != nil {
			t.Fatalf("bad input %s: %v", raw, err)
		}
		tab := verifExtstringxTables[rnd.Intn(len(verifExtstringxTables))]
		em.Emit(verifEv{"e": "reset"})
		var tr Trie
		var rp Replacer
		var obj any
		switch g.New.Op {
		case "newtrie":
			words := make([][]rune, len(g.New.Words))
			for i, x := range g.New.Words {
				words[i] = verifExtstringxMap(tab, x)
			}
			var mask rune
			if g.New.Mask != 0 {
				mask = verifExtstringxMap(tab, []int{g.New.Mask})[0]
			}
			tr = w.newTrie(1, words, mask)
			obj = tr
		case "newrepl":
			pairs := make([][2][]rune, len(g.New.Map))
			for i, p := range g.New.Map {
				pairs[i] = [2][]rune{verifExtstringxMap(tab, p[0]), verifExtstringxMap(tab, p[1])}
			}
			rp = w.newRepl(1, pairs)
			obj = rp
		default:
			t.Fatalf("unknown constructor %q", g.New.Op)
		}
		for _, c := range g.Calls {
			text := verifExtstringxMap(tab, c.Text)
			switch c.Op {
			case "filter":
				w.filter(1, tr, text)
			case "findkw":
				w.findkw(1, tr, text)
			case "replace":
				w.replace(1, rp, text)
			case "find":
				w.find(1, obj, text)
			default:
				t.Fatalf("unknown call %q", c.Op)
			}
		}
	}
}

// ---------------------------------------------------------------- the package's own examples

func TestVerifExtstringxExamples(t *testing.T) {
	em := verifOpen(t)
	defer em.Close()
	w := &verifExtstringxRec{em: em}
	rr := func(s string) []rune { return []rune(s) }
	type repl struct {
		m     [][2]string
		texts []string
	}
	repls := []repl{
		{[][2]string{{"一二三四", "1234"}, {"二三", "23"}, {"二", "2"}}, []string{"零一二三四五"}},
		{[][2]string{{"abcdeg", "ABCDEG"}, {"cdef", "CDEF"}, {"cde", "CDE"}}, []string{"abcdef"}},
		{[][2]string{{"3d", "34"}, {"bc", "23"}}, []string{"abcde"}},
		{[][2]string{{"二", "2"}}, []string{"零一二三四五"}},
		{[][2]string{{"二三四五六", "23456"}}, []string{"零一二三四五"}},
		{[][2]string{{"二三四七", "2347"}}, []string{"零一二三四五"}},
		{[][2]string{{"二三四七", "2347"}, {"三四", "34"}}, []string{"零一二三四"}},
		{[][2]string{{"二三", "23"}}, []string{"零一二三四五一二三四五"}},
		{[][2]string{{"日本", "japan"}, {"日本的首都", "东京"}}, []string{"日本的首都在日本"}},
		{[][2]string{{"abcde", "ABCDE"}, {"bcde", "BCDE"}, {"bcd", "BCD"}}, []string{"abcdf"}},
		{[][2]string{{"abcde", "ABCDE"}, {"bcde", "BCDE"}, {"cde", "CDE"}, {"c", "C"}, {"cd", "CD"}}, []string{"abcdf"}},
		{[][2]string{{"456", "def"}, {"abcd", "1234"}}, []string{"abcd567"}},
		{[][2]string{{"c", "3"}}, []string{"cd"}},
		{[][2]string{{"bcdf", "1235"}, {"cde", "234"}}, []string{"abcdefg"}},
		{[][2]string{{"bcdf", "1235"}, {"ccde", "2234"}}, []string{"abccdefg"}},
		{[][2]string{{"bcdf", "1235"}, {"cdef", "2345"}}, []string{"abcdef", ""}},
		{[][2]string{{"日本的首都", "东京"}, {"日本", "本日"}}, []string{"日本的首都是东京"}},
		{[][2]string{{"日本的首都", "东京"}, {"东京", "日本的首都"}}, []string{"日本的首都是东京"}},
	}
	for _, c := range repls {
		em.Emit(verifEv{"e": "reset"})
		pairs := make([][2][]rune, len(c.m))
		for i, p := range c.m {
			pairs[i] = [2][]rune{rr(p[0]), rr(p[1])}
		}
		rp := w.newRepl(1, pairs)
		for _, s := range c.texts {
			w.replace(1, rp, rr(s))
			w.find(1, rp, rr(s))
		}
	}
	type trie struct {
		words []string
		mask  rune
		texts []string
	}
	tries := []trie{
		{[]string{"bc", "cd"}, 0, []string{"abcd"}},
		{[]string{"", "一", "一不", "AV", "AV演员", "无名氏", "AV演员色情", "日本AV女优"}, 0, []string{
			"日本AV演员兼电视、电影演员。无名氏AV女优是xx出道, 日本AV女优们最精彩的表演是AV演员色情表演",
			"完全和谐的文本完全和谐的文本", "就一个字不对", "就一对, AV", "就一不对, AV", "就对, AV", "就对, 一不", ""}},
		{[]string{"闹"}, '#', []string{"今晚真热闹"}},
		{[]string{"一二三四五", "二三四五六七八"}, '#', []string{"零一二三四五六七八九十"}},
		{[]string{"一二三", "一二三四五", "一二三四五六七八"}, '#', []string{"零一二三四五六七八九十"}},
		{[]string{"A", "AV", "AV演员", "无名氏", "AV演员色情", "日本AV女优"}, 0, []string{
			"日本AV演员兼电视、电影演员。无名氏AV女优是xx出道, 日本AV女优们最精彩的表演是AV演员色情表演"}},
		{[]string{"kuK6Uh", "ckuK6Uh", "uK6Uh", "Iy", "h", "yIUckuK6Uh", "pKjIyI", "jIyIUckuK6Uh", "UckuK6Uh", "Uh", "Wp",
			"pKjIyIUckuK6Uh"}, 0, []string{"WpKjIyIUckuK6Uh"}},
	}
	for _, c := range tries {
		em.Emit(verifEv{"e": "reset"})
		words := make([][]rune, len(c.words))
		for i, s := range c.words {
			words[i] = rr(s)
		}
		tr := w.newTrie(1, words, c.mask)
		for _, s := range c.texts {
			w.filter(1, tr, rr(s))
			w.findkw(1, tr, rr(s))
			w.find(1, tr, rr(s))
		}
	}
}

// ---------------------------------------------------------------- code -> spec: seeded random

var verifExtstringxUniverse = []rune("abcde*#一二三四日本的首都éßñ😀🙂🤖ZＡ")

type verifExtstringxGen struct {
	rnd  *rand.Rand
	pool []rune
	base []rune
	dict [][]rune
}

func verifExtstringxNewGen(rnd *rand.Rand) *verifExtstringxGen {
	g := &verifExtstringxGen{rnd: rnd}
	n := 2 + rnd.Intn(3)
	perm := rnd.Perm(len(verifExtstringxUniverse))
	for i := 0; i < n; i++ {
		g.pool = append(g.pool, verifExtstringxUniverse[perm[i]])
	}
	g.base = g.word(6 + rnd.Intn(8))
	return g
}

func (g *verifExtstringxGen) word(n int) []rune {
	out := make([]rune, n)
	for i := range out {
		out[i] = g.pool[g.rnd.Intn(len(g.pool))]
	}
	return out
}

// keywords share substrings: pieces of one base string, prefixes / suffixes / extensions of each other
func (g *verifExtstringxGen) keyword() []rune {
	switch k := g.rnd.Intn(10); {
	case k < 4 || len(g.dict) == 0 && k < 8:
		a := g.rnd.Intn(len(g.base))
		b := a + 1 + g.rnd.Intn(5)
		if b > len(g.base) {
			b = len(g.base)
		}
		return append([]rune(nil), g.base[a:b]...)
	case k < 6:
		w := g.dict[g.rnd.Intn(len(g.dict))]
		a := g.rnd.Intn(len(w))
		return append([]rune(nil), w[a:]...)
	case k < 7:
		w := g.dict[g.rnd.Intn(len(g.dict))]
		return append(append([]rune(nil), w...), g.word(1+g.rnd.Intn(2))...)
	case k < 8:
		w := g.dict[g.rnd.Intn(len(g.dict))]
		return append(g.word(1), w...)
	default:
		return g.word(1 + g.rnd.Intn(4))
	}
}

func (g *verifExtstringxGen) text() []rune {
	switch k := g.rnd.Intn(10); {
	case k < 1:
		return nil
	case k < 4:
		return g.word(1 + g.rnd.Intn(24))
	case k < 7 && len(g.dict) > 0:
		var out []rune
		for n := 1 + g.rnd.Intn(5); n > 0; n-- {
			w := g.dict[g.rnd.Intn(len(g.dict))]
			cut := len(w)
			if g.rnd.Intn(4) == 0 {
				cut = g.rnd.Intn(len(w) + 1)
			}
			out = append(out, w[:cut]...)
			if g.rnd.Intn(3) == 0 {
				out = append(out, g.word(1)...)
			}
		}
		return out
	default:
		out := append([]rune(nil), g.base...)
		for n := g.rnd.Intn(3); n > 0; n-- {
			out[g.rnd.Intn(len(out))] = g.pool[g.rnd.Intn(len(g.pool))]
		}
		return append(g.word(g.rnd.Intn(3)), out...)
	}
}

func (g *verifExtstringxGen) dictionary() {
	g.dict = nil
	for n := g.rnd.Intn(8); n > 0; n-- {
		g.dict = append(g.dict, g.keyword())
	}
}

func (g *verifExtstringxGen) trieArgs() ([][]rune, rune) {
	words := append([][]rune(nil), g.dict...)
	if g.rnd.Intn(4) == 0 {
		words = append(words, nil) // "" does no harm
	}
	if len(words) > 0 && g.rnd.Intn(3) == 0 {
		words = append(words, words[g.rnd.Intn(len(words))]) // a word twice
	}
	g.rnd.Shuffle(len(words), func(i, j int) { words[i], words[j] = words[j], words[i] })
	var mask rune
	switch g.rnd.Intn(4) {
	case 0:
		mask = g.pool[g.rnd.Intn(len(g.pool))]
	case 1:
		mask = '＃'
	}
	return words, mask
}

func (g *verifExtstringxGen) replArgs() [][2][]rune {
	var pairs [][2][]rune
	for _, k := range g.dict {
		var v []rune
		switch g.rnd.Intn(6) {
		case 0: // delete
		case 1:
			v = []rune{'好'} // foreign to every keyword
		case 2:
			v = append([]rune{'Ω'}, g.word(g.rnd.Intn(2))...)
		case 3:
			if len(g.dict) > 0 { // another keyword, or a piece of one: the second pass has work to do
				o := g.dict[g.rnd.Intn(len(g.dict))]
				v = append([]rune(nil), o[:1+g.rnd.Intn(len(o))]...)
			}
		default:
			v = g.word(1 + g.rnd.Intn(3))
		}
		pairs = append(pairs, [2][]rune{k, v})
	}
	if g.rnd.Intn(5) == 0 {
		pairs = append(pairs, [2][]rune{nil, g.word(1)}) // the empty keyword
	}
	return pairs
}

func TestVerifExtstringxRandom(t *testing.T) {
	em := verifOpen(t)
	defer em.Close()
	w := &verifExtstringxRec{em: em}
	rnd := verifRand(9102)
	traces := verifEnvInt("VERIF_EXTSTRINGX_TRACES", 500)
	for n := 0; n < traces; n++ {
		g := verifExtstringxNewGen(rnd)
		em.Emit(verifEv{"e": "reset"})
		g.dictionary()
		words, mask := g.trieArgs()
		tr := w.newTrie(1, words, mask)
		// the replacer's dictionary: the same keywords or fresh ones over the same runes
		if rnd.Intn(2) == 0 {
			g.dictionary()
		}
		rp := w.newRepl(2, g.replArgs())
		for c := 6 + rnd.Intn(10); c > 0; c-- {
			text := g.text()
			switch rnd.Intn(7) {
			case 0, 1:
				w.filter(1, tr, text)
			case 2:
				w.findkw(1, tr, text)
			case 3:
				w.find(1, tr, text)
			case 4, 5:
				w.replace(2, rp, text)
			default:
				w.find(2, rp, text)
			}
		}
	}
}

// ---------------------------------------------------------------- code -> spec: shared objects

func TestVerifExtstringxConcurrent(t *testing.T) {
	em := verifOpen(t)
	defer em.Close()
	w := &verifExtstringxRec{em: em}
	rnd := verifRand(9103)
	rounds := verifEnvInt("VERIF_EXTSTRINGX_ROUNDS", 30)
	const workers = 6
	for n := 0; n < rounds; n++ {
		g := verifExtstringxNewGen(rnd)
		em.Emit(verifEv{"e": "reset"})
		g.dictionary()
		words, mask := g.trieArgs()
		tr := w.newTrie(1, words, mask)
		rp := w.newRepl(2, g.replArgs())
		// the texts are drawn before the goroutines start (one generator, one goroutine)
		type job struct {
			op   int
			text []rune
		}
		jobs := make([][]job, workers)
		for i := range jobs {
			for c := 0; c < 10; c++ {
				jobs[i] = append(jobs[i], job{rnd.Intn(6), g.text()})
			}
		}
		start := make(chan struct{})
		var wg sync.WaitGroup
		for i := 0; i < workers; i++ {
			wg.Add(1)
			go func(mine []job) {
				defer wg.Done()
				<-start
				for _, j := range mine {
					switch j.op {
					case 0, 1:
						w.filter(1, tr, j.text)
					case 2:
						w.findkw(1, tr, j.text)
					case 3, 4:
						w.replace(2, rp, j.text)
					default:
						w.find(2, rp, j.text)
					}
				}
			}(jobs[i])
		}
		close(start)
		wg.Wait()
	}
}
