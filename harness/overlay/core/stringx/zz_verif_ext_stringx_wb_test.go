//go:build verif && !verifnowb

package stringx

// Extension "stringx": the white-box accessor (unexported names of go-zero live only here; the
// stand-in zz_verif_ext_stringx_nowb_test.go takes over when this file does not compile).

// verifExtstringxFind runs node.find of the node embedded in a Trie or a Replacer - the operation
// node_test.go and FuzzNodeFind document - and returns the scopes as [start, stop] pairs.
func verifExtstringxFind(obj any, chars []rune) ([][2]int, bool) {
	var scopes []scope
	switch o := obj.(type) {
	case *trieNode:
		scopes = o.find(chars)
	case *replacer:
		scopes = o.find(chars)
	default:
		return nil, false
	}
	out := make([][2]int, 0, len(scopes))
	for _, s := range scopes {
		out = append(out, [2]int{s.start, s.stop})
	}
	return out, true
}
