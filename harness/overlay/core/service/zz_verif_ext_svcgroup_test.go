//go:build verif

package service

// Drivers of the extension specification "svcgroup" (host C10, advisory): a real ServiceGroup and the real
// shutdown / wrap-up listener managers of core/proc, with harness services and listeners that report the first and
// the last statement of every callback and block at a gate in between.  The drivers drive and record; what
// is right is decided by TLC on the recorded trace (specs/svcgroup/SvcGroupTrace.tla).  Public API only.
//
//   TestVerifExtsvcgroupReplay   environment schedules printed by TLC from SvcGroupImpl.tla (one per quiescent state
//                                of the model), one command at a time; after each command the driver waits until every
//                                other goroutine of the process is parked (one runtime.Stack snapshot - a logical
//                                condition, not a delay) and records "quiet"
//   TestVerifExtsvcgroupRandom   the same vocabulary, longer seeded random command lists, more services / listeners
//   TestVerifExtsvcgroupStress   free-running: Stop / Shutdown / WrapUp / wait calls (and Start) race, nothing is steered
//   TestVerifExtsvcgroupSignal   one history in which the process receives SIGTERM (the library notifies on its own)
//
// Every history ends with the same last phase: all gates open, Stop, Shutdown, WrapUp once more, every call joined
// ("end"; a call that cannot be joined is recorded as "stuck").  That also leaves the process-wide listener
// managers of core/proc empty for the next history.

import (
	"bytes"
	"encoding/json"
	"math/rand"
	"runtime"
	"strconv"
	"sync"
	"sync/atomic"
	"syscall"
	"testing"
	"time"

	"github.com/zeromicro/go-zero/core/logx"
	"github.com/zeromicro/go-zero/core/proc"
)

const verifExtsvcgroupLong = 60 * time.Second

type verifExtsvcgroupCmd struct {
	Cmd  string `json:"cmd"`
	S    int    `json:"s"`
	Full *bool  `json:"full"`
	K    string `json:"k"`
	L    int    `json:"l"`
	W    string `json:"w"`
	Id   int    `json:"id"`
	Out  string `json:"out"`  // listener: "ret" | "panic" (drivers' choice)
	Kind string `json:"kind"` // service: "full" | "start" | "starter" (drivers' choice)
}

type verifExtsvcgroupRun struct {
	t     *testing.T
	em    *verifEmitter
	sg    *ServiceGroup
	self  int64
	ncall int64

	mu      sync.Mutex
	pending map[int]string // calls not yet returned
	gate    map[string]chan struct{}
	opened  map[string]bool
	waits   map[int]func()
	link    map[int]bool // service whose Start returns when its Stop is called (like the mockedService of the package tests)
	yield   map[string]int
	slot    [8]int
	nslot   int
	calls   sync.WaitGroup
	hooked  chan struct{}
	hookedO sync.Once
}

// ---- harness services / listeners --------------------------------------------------------------------------

type verifExtsvcgroupSvc struct {
	r  *verifExtsvcgroupRun
	id int
}

func (s *verifExtsvcgroupSvc) Start() { s.r.svcStart(s.id) }
func (s *verifExtsvcgroupSvc) Stop()  { s.r.svcStop(s.id) }

type verifExtsvcgroupStarter struct {
	r  *verifExtsvcgroupRun
	id int
}

func (s verifExtsvcgroupStarter) Start() { s.r.svcStart(s.id) }

// WithStart takes a bare func: eight distinct funcs that find their run and service through a global
var verifExtsvcgroupCur atomic.Pointer[verifExtsvcgroupRun]

func verifExtsvcgroupSlot(i int) {
	r := verifExtsvcgroupCur.Load()
	r.svcStart(r.slot[i])
}

var verifExtsvcgroupStartFns = [8]func(){
	func() { verifExtsvcgroupSlot(0) }, func() { verifExtsvcgroupSlot(1) }, func() { verifExtsvcgroupSlot(2) },
	func() { verifExtsvcgroupSlot(3) }, func() { verifExtsvcgroupSlot(4) }, func() { verifExtsvcgroupSlot(5) },
	func() { verifExtsvcgroupSlot(6) }, func() { verifExtsvcgroupSlot(7) },
}

func (r *verifExtsvcgroupRun) key(w string, id int) string { return w + strconv.Itoa(id) }

func (r *verifExtsvcgroupRun) pass(w string, id int) {
	r.mu.Lock()
	g := r.gate[r.key(w, id)]
	n := r.yield[r.key(w, id)]
	r.mu.Unlock()
	for i := 0; i < n; i++ {
		runtime.Gosched()
	}
	if g != nil {
		<-g
	}
}

func (r *verifExtsvcgroupRun) svcStart(id int) {
	r.em.Emit(verifEv{"e": "sBegin", "s": id})
	r.hookedO.Do(func() { close(r.hooked) })
	r.pass("s", id)
	r.em.Emit(verifEv{"e": "sEnd", "s": id})
}

func (r *verifExtsvcgroupRun) svcStop(id int) {
	r.em.Emit(verifEv{"e": "tBegin", "s": id})
	r.mu.Lock()
	linked := r.link[id]
	r.mu.Unlock()
	if linked {
		r.release("s", id, false)
	}
	r.pass("t", id)
	r.em.Emit(verifEv{"e": "tEnd", "s": id})
}

func (r *verifExtsvcgroupRun) listener(l int, out string) func() {
	return func() {
		dn := false
		select {
		case <-proc.Done():
			dn = true
		default:
		}
		r.em.Emit(verifEv{"e": "lBegin", "l": l, "dn": dn})
		r.pass("l", l)
		r.em.Emit(verifEv{"e": "lEnd", "l": l, "out": out})
		if out == "panic" {
			panic("verif: listener " + strconv.Itoa(l) + " panics")
		}
	}
}

// ---- the run -------------------------------------------------------------------------------------------------

func verifExtsvcgroupGid() int64 {
	var b [64]byte
	n := runtime.Stack(b[:], false)
	f := bytes.Fields(b[:n])
	id, _ := strconv.ParseInt(string(f[1]), 10, 64)
	return id
}

func verifExtsvcgroupNew(t *testing.T, em *verifEmitter, drv string, n int) *verifExtsvcgroupRun {
	r := &verifExtsvcgroupRun{t: t, em: em, sg: NewServiceGroup(), self: verifExtsvcgroupGid(),
		pending: map[int]string{}, gate: map[string]chan struct{}{}, opened: map[string]bool{},
		waits: map[int]func(){}, link: map[int]bool{}, yield: map[string]int{}, hooked: make(chan struct{})}
	verifExtsvcgroupCur.Store(r)
	em.Emit(verifEv{"e": "reset", "drv": drv, "n": n})
	return r
}

func (r *verifExtsvcgroupRun) mkgate(w string, id int, open bool) {
	r.mu.Lock()
	k := r.key(w, id)
	g := make(chan struct{})
	r.gate[k] = g
	if open {
		close(g)
		r.opened[k] = true
	}
	r.mu.Unlock()
}

func (r *verifExtsvcgroupRun) release(w string, id int, log bool) {
	r.mu.Lock()
	k := r.key(w, id)
	g := r.gate[k]
	if g != nil && !r.opened[k] {
		r.opened[k] = true
		close(g)
	} else {
		g = nil
	}
	r.mu.Unlock()
	if g != nil && log {
		r.em.Emit(verifEv{"e": "rel", "w": w, "id": id})
	}
}

func (r *verifExtsvcgroupRun) releaseAll() {
	r.mu.Lock()
	for k, g := range r.gate {
		if !r.opened[k] {
			r.opened[k] = true
			close(g)
		}
	}
	r.mu.Unlock()
}

// add: kind "full" | "start" | "starter"; auto: the gates of the callbacks are open from the outset
func (r *verifExtsvcgroupRun) add(s int, kind string, auto bool) {
	if kind == "start" && r.nslot >= len(r.slot) {
		kind = "starter"
	}
	r.mkgate("s", s, auto)
	switch kind {
	case "full":
		r.mkgate("t", s, auto)
		r.sg.Add(&verifExtsvcgroupSvc{r: r, id: s})
	case "start":
		r.slot[r.nslot] = s
		r.sg.Add(WithStart(verifExtsvcgroupStartFns[r.nslot]))
		r.nslot++
	default:
		r.sg.Add(WithStarter(verifExtsvcgroupStarter{r: r, id: s}))
	}
	r.em.Emit(verifEv{"e": "add", "s": s, "kind": kind})
}

// call runs fn as one library call of its own goroutine, bracketed by <name>Call / <name>Ret
func (r *verifExtsvcgroupRun) call(name string, ev verifEv, fn func()) <-chan struct{} {
	c := int(atomic.AddInt64(&r.ncall, 1))
	r.mu.Lock()
	r.pending[c] = name
	r.mu.Unlock()
	r.calls.Add(1)
	start := verifEv{"e": name + "Call", "c": c}
	for k, v := range ev {
		start[k] = v
	}
	done := make(chan struct{})
	go func() {
		defer r.calls.Done()
		defer close(done)
		r.em.Emit(start)
		fn()
		r.em.Emit(verifEv{"e": name + "Ret", "c": c})
		r.mu.Lock()
		delete(r.pending, c)
		r.mu.Unlock()
	}()
	return done
}

func (r *verifExtsvcgroupRun) start() <-chan struct{} { return r.call("start", nil, r.sg.Start) }
func (r *verifExtsvcgroupRun) stop() <-chan struct{}  { return r.call("stop", nil, r.sg.Stop) }
func (r *verifExtsvcgroupRun) notify(k string) <-chan struct{} {
	if k == "sd" {
		return r.call("notify", verifEv{"k": k}, proc.Shutdown)
	}
	return r.call("notify", verifEv{"k": k}, proc.WrapUp)
}

func (r *verifExtsvcgroupRun) addl(l int, k, out string, auto bool) {
	r.mkgate("l", l, auto)
	fn := r.listener(l, out)
	r.call("addl", verifEv{"l": l, "k": k}, func() {
		var w func()
		if k == "sd" {
			w = proc.AddShutdownListener(fn)
		} else {
			w = proc.AddWrapUpListener(fn)
		}
		r.mu.Lock()
		r.waits[l] = w
		r.mu.Unlock()
	})
}

// wait: only with a func that a registration has returned (else the command is not executable: skipped)
func (r *verifExtsvcgroupRun) wait(l int) bool {
	r.mu.Lock()
	w := r.waits[l]
	r.mu.Unlock()
	if w == nil {
		return false
	}
	r.call("wait", verifEv{"l": l}, w)
	return true
}

// ---- "at rest": every goroutine of the process other than the driver's is parked ---------------------------------

var verifExtsvcgroupBuf = make([]byte, 1<<20)

func verifExtsvcgroupParked(st string, blk []byte) bool {
	switch st {
	case "chan receive", "chan send", "select", "select (no cases)", "chan receive (nil chan)", "chan send (nil chan)",
		"sync.Mutex.Lock", "sync.RWMutex.Lock", "sync.RWMutex.RLock", "sync.Cond.Wait", "sync.WaitGroup.Wait",
		"sleep", "IO wait", "finalizer wait":
		return true
	case "semacquire":
		// WaitGroup.Wait / Once; a goroutine that starts a GC cycle also shows semacquire
		return bytes.Contains(blk, []byte("\nsync.runtime_Semacquire"))
	case "syscall":
		return bytes.Contains(blk, []byte("os/signal.signal_recv"))
	}
	return false
}

func verifExtsvcgroupAtRest(self int64) bool {
	for {
		n := runtime.Stack(verifExtsvcgroupBuf, true)
		if n == len(verifExtsvcgroupBuf) {
			verifExtsvcgroupBuf = make([]byte, 2*len(verifExtsvcgroupBuf))
			continue
		}
		for _, blk := range bytes.Split(verifExtsvcgroupBuf[:n], []byte("\n\n")) {
			if !bytes.HasPrefix(blk, []byte("goroutine ")) {
				continue
			}
			nl := bytes.IndexByte(blk, '\n')
			if nl < 0 {
				nl = len(blk)
			}
			hd := blk[:nl]
			sp := bytes.IndexByte(hd[10:], ' ')
			lb, rb := bytes.IndexByte(hd, '['), bytes.LastIndexByte(hd, ']')
			if sp < 0 || lb < 0 || rb < lb {
				return false
			}
			id, _ := strconv.ParseInt(string(hd[10:10+sp]), 10, 64)
			if id == self {
				continue
			}
			st := string(hd[lb+1 : rb])
			if c := bytes.IndexByte([]byte(st), ','); c >= 0 {
				st = st[:c]
			}
			if !verifExtsvcgroupParked(st, blk[nl:]) {
				return false
			}
		}
		return true
	}
}

// settle waits until the process is at rest; false: it never was within the watchdog (no "quiet" is recorded then)
func (r *verifExtsvcgroupRun) settle() bool {
	deadline := time.Now().Add(verifExtsvcgroupLong)
	for spin := 0; ; spin++ {
		if spin < 4 {
			runtime.Gosched()
			continue
		}
		if verifExtsvcgroupAtRest(r.self) {
			return true
		}
		if spin < 64 {
			runtime.Gosched()
		} else {
			time.Sleep(20 * time.Microsecond)
		}
		if spin%512 == 511 && time.Now().After(deadline) {
			return false
		}
	}
}

func (r *verifExtsvcgroupRun) quiet() {
	if r.settle() {
		r.em.Emit(verifEv{"e": "quiet"})
	} else {
		r.t.Fatalf("verif: the process did not come to rest within %v", verifExtsvcgroupLong)
	}
}

func (r *verifExtsvcgroupRun) npending() []int {
	r.mu.Lock()
	defer r.mu.Unlock()
	var out []int
	for c := range r.pending {
		out = append(out, c)
	}
	return out
}

// finish: the last phase of every steered history.  true: "end" was recorded.
func (r *verifExtsvcgroupRun) finish() bool {
	r.releaseAll()
	r.quiet()
	r.stop()
	r.quiet()
	r.notify("sd")
	r.quiet()
	r.notify("wu")
	r.quiet()
	if p := r.npending(); len(p) > 0 {
		// at rest and still pending: it will never return
		r.em.Emit(verifEv{"e": "stuck", "calls": p})
		return false
	}
	r.em.Emit(verifEv{"e": "end"})
	return true
}

func (r *verifExtsvcgroupRun) exec(c verifExtsvcgroupCmd, n int) {
	switch c.Cmd {
	case "add":
		kind := c.Kind
		if kind == "" {
			kind = "full"
			if c.Full != nil && !*c.Full {
				kind = [2]string{"start", "starter"}[(n+c.S)%2]
			}
		}
		r.add(c.S, kind, false)
	case "start":
		r.start()
	case "stop":
		r.stop()
	case "notify":
		r.notify(c.K)
	case "addl":
		out := c.Out
		if out == "" {
			out = "ret"
			if (n+c.L)%3 == 0 {
				out = "panic"
			}
		}
		r.addl(c.L, c.K, out, false)
	case "wait":
		r.wait(c.L)
	case "rel":
		r.release(c.W, c.Id, true)
	default:
		r.t.Fatalf("verif: unknown command %q", c.Cmd)
	}
}

// ---- spec -> code ------------------------------------------------------------------------------------------------

func TestVerifExtsvcgroupReplay(t *testing.T) {
	em := verifOpen(t)
	defer em.Close()
	logx.Disable()
	for n, raw := range verifInput(t) {
		var cmds []verifExtsvcgroupCmd
		if err := json.Unmarshal(raw, &cmds); err != nil {
			t.Fatal(err)
		}
		r := verifExtsvcgroupNew(t, em, "replay", n)
		for _, c := range cmds {
			r.exec(c, n)
			r.quiet()
		}
		if !r.finish() {
			return // the process-wide managers are no longer clean
		}
	}
}

// ---- code -> spec: seeded random command lists ---------------------------------------------------------------

func TestVerifExtsvcgroupRandom(t *testing.T) {
	em := verifOpen(t)
	defer em.Close()
	logx.Disable()
	rng := verifRand(7101)
	runs := verifEnvInt("VERIF_EXT_SG_RUNS", 200)
	for n := 0; n < runs; n++ {
		r := verifExtsvcgroupNew(t, em, "random", n)
		ns := rng.Intn(6)
		for s := 1; s <= ns; s++ {
			r.add(s, [4]string{"full", "full", "start", "starter"}[rng.Intn(4)], rng.Intn(4) == 0)
		}
		r.quiet()
		started, nl := false, 0
		var gated []verifExtsvcgroupCmd // gates that exist and were not opened by a command
		for s := 1; s <= ns; s++ {
			gated = append(gated, verifExtsvcgroupCmd{Cmd: "rel", W: "s", Id: s}, verifExtsvcgroupCmd{Cmd: "rel", W: "t", Id: s})
		}
		steps := 8 + rng.Intn(24)
		for i := 0; i < steps; i++ {
			switch x := rng.Intn(20); {
			case x < 2 && !started:
				started = true
				r.start()
			case x < 4:
				r.stop()
			case x < 7:
				r.notify([2]string{"sd", "wu"}[rng.Intn(2)])
			case x < 10 && nl < 8:
				nl++
				out := "ret"
				if rng.Intn(5) == 0 {
					out = "panic"
				}
				r.addl(nl, [2]string{"sd", "wu"}[rng.Intn(2)], out, rng.Intn(4) == 0)
				gated = append(gated, verifExtsvcgroupCmd{Cmd: "rel", W: "l", Id: nl})
			case x < 12 && nl > 0:
				if !r.wait(1 + rng.Intn(nl)) {
					continue
				}
			case len(gated) > 0:
				j := rng.Intn(len(gated))
				r.release(gated[j].W, gated[j].Id, true)
				gated = append(gated[:j], gated[j+1:]...)
			default:
				continue
			}
			r.quiet()
		}
		if !r.finish() {
			return
		}
	}
}

// ---- code -> spec: free-running ----------------------------------------------------------------------------------

// joins every call of the run; false: the watchdog expired
func (r *verifExtsvcgroupRun) join() bool {
	done := make(chan struct{})
	go func() { r.calls.Wait(); close(done) }()
	select {
	case <-done:
		return true
	case <-time.After(verifExtsvcgroupLong):
		return false
	}
}

func verifExtsvcgroupJoin1(done <-chan struct{}) bool {
	select {
	case <-done:
		return true
	case <-time.After(verifExtsvcgroupLong):
		return false
	}
}

func (r *verifExtsvcgroupRun) finishFree() bool {
	r.releaseAll()
	ok := verifExtsvcgroupJoin1(r.stop()) && verifExtsvcgroupJoin1(r.notify("sd")) &&
		verifExtsvcgroupJoin1(r.notify("wu")) && r.join()
	if !ok {
		r.em.Emit(verifEv{"e": "stuck", "calls": r.npending()})
		return false
	}
	r.em.Emit(verifEv{"e": "end"})
	return true
}

func (r *verifExtsvcgroupRun) yields(rng *rand.Rand, w string, id int) {
	r.mu.Lock()
	r.yield[r.key(w, id)] = rng.Intn(4)
	r.mu.Unlock()
}

// Two shapes (the listener managers count registrations and waiters in one sync.WaitGroup each, which must not see an
// Add while a Wait is being woken up - a premise of sync.WaitGroup that the harness keeps):
//   shape 0: services added, listeners registered, Start running and hooked; then Stop / Shutdown / WrapUp / waits race
//   shape 1: listeners registered; then Start, Stop / Shutdown / WrapUp race, waits only on wrap-up listeners
func TestVerifExtsvcgroupStress(t *testing.T) {
	em := verifOpen(t)
	defer em.Close()
	logx.Disable()
	rng := verifRand(7102 + int64(verifEnvInt("VERIF_EXT_SG_SALT", 0)))
	runs := verifEnvInt("VERIF_EXT_SG_STRESS", 300)
	for n := 0; n < runs; n++ {
		r := verifExtsvcgroupNew(t, em, "stress", n)
		shape := n % 2
		ns := rng.Intn(5)
		for s := 1; s <= ns; s++ {
			kind := [4]string{"full", "full", "start", "starter"}[rng.Intn(4)]
			linked := kind == "full" && rng.Intn(2) == 0
			r.add(s, kind, !linked)
			if linked {
				r.link[s] = true
				r.release("t", s, false)
			}
			r.yields(rng, "s", s)
			r.yields(rng, "t", s)
		}
		nl := rng.Intn(6)
		var wu []int
		for l := 1; l <= nl; l++ {
			k := [2]string{"sd", "wu"}[rng.Intn(2)]
			out := "ret"
			if rng.Intn(5) == 0 {
				out = "panic"
			}
			r.yields(rng, "l", l)
			r.addl(l, k, out, true)
			if k == "wu" {
				wu = append(wu, l)
			}
		}
		if !r.join() { // the registrations
			em.Emit(verifEv{"e": "stuck", "calls": r.npending()})
			return
		}
		var ops []func()
		if shape == 0 {
			r.start()
			if ns > 0 {
				<-r.hooked
			} else {
				for len(r.npending()) > 0 { // no service: Start returns by itself
					runtime.Gosched()
				}
			}
			for l := 1; l <= nl; l++ {
				if rng.Intn(2) == 0 {
					l := l
					ops = append(ops, func() { r.wait(l) })
				}
			}
		} else {
			ops = append(ops, func() { r.start() })
			for _, l := range wu {
				if rng.Intn(2) == 0 {
					l := l
					ops = append(ops, func() { r.wait(l) })
				}
			}
		}
		for i := rng.Intn(3); i > 0; i-- {
			ops = append(ops, func() { r.stop() })
		}
		for i := rng.Intn(3); i > 0; i-- {
			ops = append(ops, func() { r.notify("sd") })
		}
		for i := rng.Intn(3); i > 0; i-- {
			ops = append(ops, func() { r.notify("wu") })
		}
		rng.Shuffle(len(ops), func(i, j int) { ops[i], ops[j] = ops[j], ops[i] })
		gun := make(chan struct{})
		var launched sync.WaitGroup
		for _, op := range ops {
			op := op
			launched.Add(1)
			go func() {
				defer launched.Done()
				<-gun
				op()
			}()
		}
		close(gun)
		launched.Wait()
		if !r.finishFree() {
			return
		}
	}
}

// ---- SIGTERM ---------------------------------------------------------------------------------------------------

// One history per process: after the signal the library's signal goroutine sleeps until the process ends.
func TestVerifExtsvcgroupSignal(t *testing.T) {
	em := verifOpen(t)
	defer em.Close()
	logx.Disable()
	rng := verifRand(7103)
	proc.Setup(proc.ShutdownConf{WrapUpTime: 5 * time.Millisecond, WaitTime: time.Hour})
	r := verifExtsvcgroupNew(t, em, "signal", 0)
	ns := 1 + rng.Intn(4)
	for s := 1; s <= ns; s++ {
		kind := [3]string{"full", "full", "starter"}[rng.Intn(3)]
		r.add(s, kind, kind != "full")
		if kind == "full" {
			r.link[s] = true
			r.release("t", s, false)
		}
	}
	nl := 2 + rng.Intn(4)
	for l := 1; l <= nl; l++ {
		out := "ret"
		if l == 2 {
			out = "panic"
		}
		r.addl(l, [2]string{"sd", "wu"}[l%2], out, true)
	}
	r.quiet()
	r.start()
	r.quiet()
	for l := 1; l <= nl; l++ {
		r.wait(l)
	}
	r.quiet()
	em.Emit(verifEv{"e": "signal"})
	if err := syscall.Kill(syscall.Getpid(), syscall.SIGTERM); err != nil {
		t.Fatal(err)
	}
	if !r.join() {
		em.Emit(verifEv{"e": "stuck", "calls": r.npending()})
		return
	}
	em.Emit(verifEv{"e": "end"})
}
