//go:build verif

package conf

// C17 driver: loads abstract (type, document) pairs — enumerated by TLC from
// specs/conf/ConfDoc.tla or drawn at random from the same grammar — through the real
// conf loaders in the three formats (bytes, files, files with UseEnv), and for every
// document also through mapping.Unmarshal{Json,Yaml,Toml}Bytes and, where requested,
// encoding/json.  It records
// verdicts and canonicalised value trees.  No expectations here: the verdict comes from
// TLC validating the recorded trace against specs/conf/ConfDocTrace.tla.

import (
	"encoding/json"
	"fmt"
	"math/rand"
	"os"
	"path/filepath"
	"reflect"
	"sort"
	"strconv"
	"strings"
	"testing"

	toml "github.com/pelletier/go-toml/v2"
	"github.com/zeromicro/go-zero/core/mapping"
	yaml "gopkg.in/yaml.v2"
)

const cfEnvName = "VERIF_C17_VAR"

// ---- abstract types / documents (the JSON shapes ConfDoc.tla prints and reads)

type cfType struct {
	K string    `json:"k"`           // int i32 u8 float string bool struct slice map ptr
	T *cfType   `json:"t,omitempty"` // element type of slice/map/ptr
	F []cfField `json:"f,omitempty"` // struct fields
}

type cfField struct {
	N   string `json:"n"`   // Go field name (exported)
	Tag string `json:"tag"` // json tag name, "" = no tag
	E   bool   `json:"e"`   // embedded (anonymous) field
	T   cfType `json:"t"`
}

type cfDoc struct {
	K string  `json:"k"` // num str bool list map
	V string  `json:"v,omitempty"`
	B bool    `json:"b,omitempty"`
	L []cfDoc `json:"l,omitempty"`
	M []cfEnt `json:"m,omitempty"`
}

type cfEnt struct {
	Key string `json:"key"`
	V   cfDoc  `json:"v"`
}

type cfDocIn struct {
	D  cfDoc `json:"d"`
	P  bool  `json:"p"`  // also compare mapping.UnmarshalJsonBytes with encoding/json on it
	NL bool  `json:"nl"` // not through the conf loaders (witness of a finding about the comparison only)
}

type cfCase struct {
	Ty   cfType    `json:"ty"`
	Env  string    `json:"env"`
	Docs []cfDocIn `json:"docs"`
}

// ---- JSON shapes written to the trace (every field a spec action reads is present)

func (t cfType) tree() verifEv {
	switch t.K {
	case "struct":
		fs := make([]any, 0, len(t.F))
		for _, f := range t.F {
			fs = append(fs, verifEv{"n": f.N, "tag": f.Tag, "e": f.E, "t": f.T.tree()})
		}
		return verifEv{"k": "struct", "f": fs}
	case "slice", "map", "ptr":
		return verifEv{"k": t.K, "t": t.T.tree()}
	default:
		return verifEv{"k": t.K}
	}
}

func (d cfDoc) tree() verifEv {
	switch d.K {
	case "num", "str":
		return verifEv{"k": d.K, "v": d.V}
	case "bool":
		return verifEv{"k": "bool", "b": d.B}
	case "list":
		l := make([]any, 0, len(d.L))
		for _, x := range d.L {
			l = append(l, x.tree())
		}
		return verifEv{"k": "list", "l": l}
	case "map":
		m := make([]any, 0, len(d.M))
		for _, e := range d.M {
			m = append(m, verifEv{"key": e.Key, "v": e.V.tree()})
		}
		return verifEv{"k": "map", "m": m}
	}
	panic("bad doc kind " + d.K)
}

// ---- abstract type -> reflect.Type

func cfGoType(t cfType) reflect.Type {
	switch t.K {
	case "int":
		return reflect.TypeOf(int(0))
	case "i32":
		return reflect.TypeOf(int32(0))
	case "u8":
		return reflect.TypeOf(uint8(0))
	case "u32":
		return reflect.TypeOf(uint32(0))
	case "i64":
		return reflect.TypeOf(int64(0))
	case "u64":
		return reflect.TypeOf(uint64(0))
	case "float":
		return reflect.TypeOf(float64(0))
	case "string":
		return reflect.TypeOf("")
	case "bool":
		return reflect.TypeOf(false)
	case "slice":
		return reflect.SliceOf(cfGoType(*t.T))
	case "map":
		return reflect.MapOf(reflect.TypeOf(""), cfGoType(*t.T))
	case "ptr":
		return reflect.PointerTo(cfGoType(*t.T))
	case "struct":
		fs := make([]reflect.StructField, 0, len(t.F))
		for _, f := range t.F {
			sf := reflect.StructField{Name: f.N, Type: cfGoType(f.T), Anonymous: f.E}
			if f.Tag != "" {
				sf.Tag = reflect.StructTag(`json:"` + f.Tag + `"`)
			}
			fs = append(fs, sf)
		}
		return reflect.StructOf(fs)
	}
	panic("bad type kind " + t.K)
}

// ---- abstract document -> Go value tree handed to the three encoders

func cfGoDoc(d cfDoc) any {
	switch d.K {
	case "num":
		if i, err := strconv.ParseInt(d.V, 10, 64); err == nil {
			return i
		}
		if u, err := strconv.ParseUint(d.V, 10, 64); err == nil {
			return u // an integer in (maxint64, maxuint64]
		}
		f, err := strconv.ParseFloat(d.V, 64)
		if err != nil {
			panic(err)
		}
		return f
	case "str":
		return d.V
	case "bool":
		return d.B
	case "list":
		l := make([]any, 0, len(d.L))
		for _, x := range d.L {
			l = append(l, cfGoDoc(x))
		}
		return l
	case "map":
		m := make(map[string]any, len(d.M))
		for _, e := range d.M {
			m[e.Key] = cfGoDoc(e.V)
		}
		return m
	}
	panic("bad doc kind " + d.K)
}

// ---- canonical value tree of whatever the decoder produced

func cfCanon(v reflect.Value) verifEv {
	switch v.Kind() {
	case reflect.Int, reflect.Int8, reflect.Int16, reflect.Int32, reflect.Int64:
		return verifEv{"k": "int", "v": strconv.FormatInt(v.Int(), 10)}
	case reflect.Uint, reflect.Uint8, reflect.Uint16, reflect.Uint32, reflect.Uint64:
		return verifEv{"k": "int", "v": strconv.FormatUint(v.Uint(), 10)}
	case reflect.Float32, reflect.Float64:
		return verifEv{"k": "float", "v": strconv.FormatFloat(v.Float(), 'f', -1, 64)}
	case reflect.String:
		return verifEv{"k": "str", "v": v.String()}
	case reflect.Bool:
		return verifEv{"k": "bool", "b": v.Bool()}
	case reflect.Ptr:
		if v.IsNil() {
			return verifEv{"k": "ptr", "nil": true}
		}
		return verifEv{"k": "ptr", "nil": false, "v": cfCanon(v.Elem())}
	case reflect.Slice:
		l := make([]any, 0, v.Len())
		for i := 0; i < v.Len(); i++ {
			l = append(l, cfCanon(v.Index(i)))
		}
		return verifEv{"k": "slice", "nil": v.IsNil(), "l": l}
	case reflect.Map:
		keys := make([]string, 0, v.Len())
		for _, k := range v.MapKeys() {
			keys = append(keys, k.String())
		}
		sort.Strings(keys)
		m := make([]any, 0, len(keys))
		for _, k := range keys {
			m = append(m, verifEv{"key": k, "v": cfCanon(v.MapIndex(reflect.ValueOf(k)))})
		}
		return verifEv{"k": "map", "nil": v.IsNil(), "m": m}
	case reflect.Struct:
		fs := make([]any, 0, v.NumField())
		for i := 0; i < v.NumField(); i++ {
			fs = append(fs, verifEv{"n": v.Type().Field(i).Name, "v": cfCanon(v.Field(i))})
		}
		return verifEv{"k": "struct", "f": fs}
	}
	return verifEv{"k": "other", "v": v.Kind().String()}
}

// cfCall runs one decoder into a fresh value of type rt and reports verdict + value.
func cfCall(rt reflect.Type, fn func(v any) error) (out verifEv) {
	pv := reflect.New(rt)
	defer func() {
		if r := recover(); r != nil {
			out = verifEv{"v": "panic", "msg": cfClip(fmt.Sprint(r))}
		}
	}()
	if err := fn(pv.Interface()); err != nil {
		return verifEv{"v": "err", "msg": cfClip(err.Error())}
	}
	return verifEv{"v": "ok", "val": cfCanon(pv.Elem())}
}

func cfClip(s string) string {
	b := []byte(s)
	for i, c := range b {
		if c < 0x20 || c > 0x7e || c == '"' || c == '\\' {
			b[i] = '.'
		}
	}
	if len(b) > 160 {
		b = b[:160]
	}
	return string(b)
}

type cfRendered struct {
	f    string
	data []byte
	load func([]byte, any) error
	ext  string
}

// cfTomlCan: TOML integers are 64-bit signed; a document holding an integer above
// maxint64 has no TOML rendering (it is then loaded as JSON and YAML only; the spec
// checks that exactly the expressible formats were loaded).
func cfTomlCan(d cfDoc) bool {
	switch d.K {
	case "num":
		if _, err := strconv.ParseInt(d.V, 10, 64); err != nil {
			if _, err := strconv.ParseUint(d.V, 10, 64); err == nil {
				return false
			}
		}
	case "list":
		for _, x := range d.L {
			if !cfTomlCan(x) {
				return false
			}
		}
	case "map":
		for _, e := range d.M {
			if !cfTomlCan(e.V) {
				return false
			}
		}
	}
	return true
}

func cfRender(t *testing.T, d cfDoc) []cfRendered {
	g := cfGoDoc(d)
	j, err := json.Marshal(g)
	if err != nil {
		t.Fatalf("json render: %v", err)
	}
	y, err := yaml.Marshal(g)
	if err != nil {
		t.Fatalf("yaml render: %v", err)
	}
	rs := []cfRendered{
		{"json", j, LoadFromJsonBytes, ".json"},
		{"yaml", y, LoadFromYamlBytes, ".yaml"},
	}
	if cfTomlCan(d) {
		tm, err := toml.Marshal(g)
		if err != nil {
			t.Fatalf("toml render of %s: %v", j, err)
		}
		rs = append(rs, cfRendered{"toml", tm, LoadFromTomlBytes, ".toml"})
	}
	return rs
}

// cfIntern stores distinct answers once (error texts are not part of an answer) and
// refers to them by 1-based index: pure encoding, it keeps the trace small.
type cfIntern struct {
	outs []any
	idx  map[string]int
}

func (n *cfIntern) add(o verifEv) int {
	k := verifEv{"v": o["v"]}
	if val, ok := o["val"]; ok {
		k["val"] = val
	}
	b, err := json.Marshal(k)
	if err != nil {
		panic(err)
	}
	if n.idx == nil {
		n.idx = map[string]int{}
	}
	if i, ok := n.idx[string(b)]; ok {
		return i
	}
	n.outs = append(n.outs, o)
	n.idx[string(b)] = len(n.outs)
	return len(n.outs)
}

// cfRunCase: one trace = one type; every document of the case through every loader.
func cfRunCase(t *testing.T, em *verifEmitter, dir string, c cfCase) {
	rt := cfGoType(c.Ty)
	if c.Env == "" {
		os.Unsetenv(cfEnvName)
	} else {
		os.Setenv(cfEnvName, c.Env)
	}
	em.Emit(verifEv{"e": "reset", "ty": c.Ty.tree(), "env": c.Env})
	for _, di := range c.Docs {
		d := di.D
		rs := cfRender(t, d)
		var plain, withEnv cfIntern
		rp := make([]any, 0, 6)
		re := make([]any, 0, 3)
		for _, r := range rs {
			r := r
			rp = append(rp, verifEv{"f": r.f, "via": "bytes",
				"o": plain.add(cfCall(rt, func(v any) error { return r.load(r.data, v) }))})
			p := filepath.Join(dir, "c"+r.ext)
			if err := os.WriteFile(p, r.data, 0o644); err != nil {
				t.Fatal(err)
			}
			rp = append(rp, verifEv{"f": r.f, "via": "file",
				"o": plain.add(cfCall(rt, func(v any) error { return Load(p, v) }))})
			re = append(re, verifEv{"f": r.f, "via": "file",
				"o": withEnv.add(cfCall(rt, func(v any) error { return Load(p, v, UseEnv()) }))})
		}
		dt := d.tree()
		if !di.NL {
			em.Emit(verifEv{"e": "loads", "d": dt, "useenv": false, "outs": plain.outs, "r": rp})
			em.Emit(verifEv{"e": "loads", "d": dt, "useenv": true, "outs": withEnv.outs, "r": re})
		}
		// the same three renderings through the mapping package (no key normalisation)
		j, y := rs[0].data, rs[1].data
		ev := verifEv{"e": "mapfmt", "d": dt,
			"map":  cfCall(rt, func(v any) error { return mapping.UnmarshalJsonBytes(j, v) }),
			"mapy": cfCall(rt, func(v any) error { return mapping.UnmarshalYamlBytes(y, v) }),
			"mapt": verifEv{"v": "na"}}
		if len(rs) > 2 {
			tm := rs[2].data
			ev["mapt"] = cfCall(rt, func(v any) error { return mapping.UnmarshalTomlBytes(tm, v) })
		}
		if di.P {
			ev["e"] = "plain"
			ev["std"] = cfCall(rt, func(v any) error { return json.Unmarshal(j, v) })
		}
		em.Emit(ev)
	}
}

// cfTempDir: configuration files go to memory-backed storage when there is one (the
// driver writes three files per document).
func cfTempDir(t *testing.T) string {
	if st, err := os.Stat("/dev/shm"); err == nil && st.IsDir() {
		if d, err := os.MkdirTemp("/dev/shm", "verif-c17-"); err == nil {
			t.Cleanup(func() { os.RemoveAll(d) })
			return d
		}
	}
	return t.TempDir()
}

// TestVerifConfReplay: (type, documents) cases enumerated by TLC.
func TestVerifConfReplay(t *testing.T) {
	em := verifOpen(t)
	defer em.Close()
	defer os.Unsetenv(cfEnvName)
	dir := cfTempDir(t)
	in := verifInput(t)
	if len(in) == 0 {
		t.Fatal("no input cases")
	}
	for _, raw := range in {
		var c cfCase
		if err := json.Unmarshal(raw, &c); err != nil {
			t.Fatalf("bad case %s: %v", raw, err)
		}
		cfRunCase(t, em, dir, c)
	}
}

// ---- random cases from the same grammar, deeper/wider than TLC enumerates

type cfGen struct {
	r         *rand.Rand
	avoidPtr  bool // no *map, *[]T, map[string]*scalar (known finding open)
	avoidDup  bool // no key spelled twice (known finding open)
	avoidNest bool // no slice of structs under a map under another container (known finding open)
	avoidDeep bool // no field-key spellings as keys of a map below another container that reaches a struct (finding open)
}

var (
	cfFieldNames = []string{"Ab", "Cd", "Ef"}
	cfIntVals    = []string{"0", "7", "-3", "300", "3000000000", "9007199254740993"}
	cfI64Vals    = []string{"-9223372036854775808", "9223372036854775807", "-3", "0"}
	cfU32Vals    = []string{"0", "7", "300", "3000000000"}
	cfU64Vals    = []string{"7", "9007199254740993", "9223372036854775807", "9223372036854775808", "18446744073709551615"}
	cfFloatVals  = []string{"0", "7", "-3", "300", "3000000000", "1.5", "-0.25", "0.1"}
	cfStrs       = []string{"abc", "12", "${" + cfEnvName + "}"}
	cfMapKeys    = []string{"ka", "KA", "Kb"}
	cfFieldKeys  = []string{"aB", "AB", "cD", "Ef"} // user-chosen map keys that spell field keys
	cfLeaves     = []string{"int", "float", "string", "bool", "i32", "u8", "i64", "u32", "u64"}
)

func cfIsLeaf(k string) bool {
	return k != "struct" && k != "slice" && k != "map" && k != "ptr"
}

// typ draws a field type; cpos = position in the chain of containers of one struct field
// (1 = the field's own type).
func (g cfGen) typ(depth int, scheme int, cpos int) cfType {
	if depth == 0 || g.r.Intn(4) == 0 {
		return cfType{K: cfLeaves[g.r.Intn(len(cfLeaves))]}
	}
	switch g.r.Intn(4) {
	case 0:
		e := g.typ(depth-1, scheme, cpos+1)
		return cfType{K: "slice", T: &e}
	case 1:
		e := g.typ(depth-1, scheme, cpos+1)
		if g.avoidPtr && e.K == "ptr" && cfIsLeaf(e.T.K) {
			e = *e.T
		}
		if g.avoidNest && cpos >= 2 && cfDeref(e).K == "slice" && cfReachesStruct(e) {
			e = cfType{K: "int"}
		}
		return cfType{K: "map", T: &e}
	case 2:
		e := g.typ(depth-1, scheme, cpos)
		if e.K == "ptr" || (g.avoidPtr && (e.K == "map" || e.K == "slice")) {
			return e
		}
		return cfType{K: "ptr", T: &e}
	default:
		return g.strct(depth-1, scheme, 0)
	}
}

func cfDeref(t cfType) cfType {
	for t.K == "ptr" {
		t = *t.T
	}
	return t
}

func cfReachesStruct(t cfType) bool {
	t = cfDeref(t)
	switch t.K {
	case "struct":
		return true
	case "slice", "map":
		return cfReachesStruct(*t.T)
	}
	return false
}

func cfTag(n string, scheme int) string {
	switch scheme {
	case 1:
		return strings.ToLower(n)
	case 2:
		return strings.ToLower(n[:1]) + strings.ToUpper(n[1:])
	}
	return ""
}

// strct: 1..3 fields named by position (like the TLC family: the fields of an embedded
// struct continue the numbering of the embedding field; a clash of promoted names is
// resolved by not embedding).
func (g cfGen) strct(depth int, scheme int, off int) cfType {
	n := 1 + g.r.Intn(3)
	t := cfType{K: "struct"}
	for i := 0; i < n; i++ {
		name := cfFieldNames[(off+i)%3]
		f := cfField{N: name, Tag: cfTag(name, scheme)}
		if depth > 0 && i == n-1 && off+i < 3 && g.r.Intn(4) == 0 {
			// embedded struct as the last field: its promoted names are the unused ones
			inner := g.strct(depth-1, scheme, off+i)
			if off+i+len(inner.F) <= 3 && !cfHasEmbedded(inner) {
				f.E, f.Tag, f.T = true, "", inner
				t.F = append(t.F, f)
				continue
			}
		}
		f.T = g.typ(depth, scheme, 1)
		t.F = append(t.F, f)
	}
	return t
}

func cfHasEmbedded(t cfType) bool {
	for _, f := range t.F {
		if f.E {
			return true
		}
	}
	return false
}

func cfKey(f cfField) string {
	if f.Tag != "" {
		return f.Tag
	}
	return f.N
}

// fit draws a document that supplies every field of t with a value of its kind, keys
// spelled exactly like the tags.
func (g cfGen) fit(t cfType) cfDoc { return g.fitAt(t, 1) }

// fitAt: cpos = position in the chain of containers of one struct field (1 = the field's own type).
func (g cfGen) fitAt(t cfType, cpos int) cfDoc {
	switch t.K {
	case "int":
		return cfDoc{K: "num", V: cfIntVals[g.r.Intn(len(cfIntVals))]}
	case "i32":
		return cfDoc{K: "num", V: cfIntVals[g.r.Intn(4)]}
	case "u8":
		return cfDoc{K: "num", V: cfIntVals[g.r.Intn(2)]}
	case "i64":
		return cfDoc{K: "num", V: cfI64Vals[g.r.Intn(len(cfI64Vals))]}
	case "u32":
		return cfDoc{K: "num", V: cfU32Vals[g.r.Intn(len(cfU32Vals))]}
	case "u64":
		return cfDoc{K: "num", V: cfU64Vals[g.r.Intn(len(cfU64Vals))]}
	case "float":
		return cfDoc{K: "num", V: cfFloatVals[g.r.Intn(len(cfFloatVals))]}
	case "string":
		return cfDoc{K: "str", V: cfStrs[g.r.Intn(len(cfStrs))]}
	case "bool":
		return cfDoc{K: "bool", B: g.r.Intn(2) == 0}
	case "ptr":
		return g.fitAt(*t.T, cpos)
	case "slice":
		d := cfDoc{K: "list"}
		for i, n := 0, g.r.Intn(3); i < n; i++ {
			d.L = append(d.L, g.fitAt(*t.T, cpos+1))
		}
		return d
	case "map":
		d := cfDoc{K: "map"}
		pool := cfMapKeys
		if !(g.avoidDeep && cpos >= 2 && cfReachesStruct(*t.T)) && g.r.Intn(2) == 0 {
			pool = append(append([]string(nil), cfMapKeys...), cfFieldKeys...)
		}
		p := g.r.Perm(len(pool))
		for i, n := 0, g.r.Intn(3); i < n; i++ {
			d.M = append(d.M, cfEnt{pool[p[i]], g.fitAt(*t.T, cpos+1)})
		}
		return d
	case "struct":
		d := cfDoc{K: "map"}
		g.fill(&d, t)
		return d
	}
	panic("bad kind")
}

func (g cfGen) fill(d *cfDoc, t cfType) {
	for _, f := range t.F {
		if f.E {
			g.fill(d, f.T)
		} else {
			d.M = append(d.M, cfEnt{cfKey(f), g.fit(f.T)})
		}
	}
}

func cfFlat(t cfType, out map[string]cfType) {
	for _, f := range t.F {
		if f.E {
			cfFlat(f.T, out)
		} else {
			out[strings.ToLower(cfKey(f))] = f.T
		}
	}
}

// respell rewrites the keys that name struct fields in lower (1) or upper (2) case.
func cfRespell(t cfType, d cfDoc, mode int) cfDoc {
	switch {
	case t.K == "ptr":
		return cfRespell(*t.T, d, mode)
	case t.K == "slice" && d.K == "list":
		o := cfDoc{K: "list"}
		for _, x := range d.L {
			o.L = append(o.L, cfRespell(*t.T, x, mode))
		}
		return o
	case t.K == "map" && d.K == "map":
		o := cfDoc{K: "map"}
		for _, e := range d.M {
			o.M = append(o.M, cfEnt{e.Key, cfRespell(*t.T, e.V, mode)})
		}
		return o
	case t.K == "struct" && d.K == "map":
		fl := map[string]cfType{}
		cfFlat(t, fl)
		o := cfDoc{K: "map"}
		for _, e := range d.M {
			if ft, ok := fl[strings.ToLower(e.Key)]; ok {
				k := strings.ToLower(e.Key)
				if mode == 2 {
					k = strings.ToUpper(e.Key)
				}
				o.M = append(o.M, cfEnt{k, cfRespell(ft, e.V, mode)})
			} else {
				o.M = append(o.M, e)
			}
		}
		return o
	}
	return d
}

// mutate returns d with one random fault somewhere: a value of another kind, a missing,
// unknown or doubly spelled key.
func (g cfGen) mutate(t cfType, d cfDoc, top bool) cfDoc {
	switch {
	case t.K == "ptr":
		return g.mutate(*t.T, d, top)
	case t.K == "slice" && d.K == "list" && len(d.L) > 0 && g.r.Intn(3) > 0:
		o := cfDoc{K: "list", L: append([]cfDoc(nil), d.L...)}
		i := g.r.Intn(len(o.L))
		o.L[i] = g.mutate(*t.T, o.L[i], false)
		return o
	case t.K == "map" && d.K == "map" && len(d.M) > 0 && g.r.Intn(3) > 0:
		o := cfDoc{K: "map", M: append([]cfEnt(nil), d.M...)}
		i := g.r.Intn(len(o.M))
		o.M[i].V = g.mutate(*t.T, o.M[i].V, false)
		return o
	case t.K == "struct" && d.K == "map" && len(d.M) > 0 && (top || g.r.Intn(4) > 0):
		o := cfDoc{K: "map", M: append([]cfEnt(nil), d.M...)}
		i := g.r.Intn(len(o.M))
		switch g.r.Intn(6) {
		case 0: // missing key
			o.M = append(o.M[:i:i], o.M[i+1:]...)
		case 1: // unknown key
			o.M = append(o.M, cfEnt{"zz", cfDoc{K: "num", V: "7"}})
		case 2: // the same key in another spelling
			alt := strings.ToUpper(o.M[i].Key)
			if !g.avoidDup && alt != o.M[i].Key {
				fl := map[string]cfType{}
				cfFlat(t, fl)
				o.M = append(o.M, cfEnt{alt, g.fit(fl[strings.ToLower(alt)])})
			}
		default:
			fl := map[string]cfType{}
			cfFlat(t, fl)
			o.M[i].V = g.mutate(fl[strings.ToLower(o.M[i].Key)], o.M[i].V, false)
		}
		return o
	}
	// a value of some other kind
	switch g.r.Intn(6) {
	case 0:
		return cfDoc{K: "num", V: cfFloatVals[g.r.Intn(len(cfFloatVals))]}
	case 1:
		return cfDoc{K: "num", V: cfIntVals[g.r.Intn(len(cfIntVals))]}
	case 2:
		return cfDoc{K: "str", V: cfStrs[g.r.Intn(len(cfStrs))]}
	case 3:
		return cfDoc{K: "bool", B: true}
	case 4:
		return cfDoc{K: "list", L: []cfDoc{{K: "num", V: "7"}}}
	default:
		return cfDoc{K: "map", M: []cfEnt{{"ka", cfDoc{K: "num", V: "7"}}}}
	}
}

// TestVerifConfRandom: seeded random (type, document) cases; each case loads fitting
// documents in three key spellings plus a few with one fault.
func TestVerifConfRandom(t *testing.T) {
	em := verifOpen(t)
	defer em.Close()
	defer os.Unsetenv(cfEnvName)
	dir := cfTempDir(t)
	avoid := os.Getenv("VERIF_CONF_AVOID")
	g := cfGen{r: verifRand(17), avoidPtr: strings.Contains(avoid, "KF_PtrContainer"),
		avoidDup:  strings.Contains(avoid, "KF_CaseDupKeys"),
		avoidNest: strings.Contains(avoid, "KF_NestedContainerCase"),
		avoidDeep: strings.Contains(avoid, "KF_DeepMapFieldKey")}
	n := verifEnvInt("VERIF_CONF_CASES", 300)
	depth := verifEnvInt("VERIF_CONF_DEPTH", 3)
	for i := 0; i < n; i++ {
		ty := g.strct(depth-1, g.r.Intn(3), 0)
		c := cfCase{Ty: ty, Env: "Zed"}
		for k := 0; k < 2; k++ {
			base := g.fit(ty)
			c.Docs = append(c.Docs, cfDocIn{D: base, P: true},
				cfDocIn{D: cfRespell(ty, base, 1)}, cfDocIn{D: cfRespell(ty, base, 2)},
				cfDocIn{D: g.mutate(ty, base, true)}, cfDocIn{D: g.mutate(ty, base, true)})
		}
		cfRunCase(t, em, dir, c)
	}
}
