//go:build verif

package syncx

// C07 drivers for SingleFlight, LockedCalls and ResourceManager (schedule machinery in
// zz_verif_flight_sched_test.go).  No expectations here: TLC validates the recorded events
// against specs/flight/Flight.tla.

import (
	"encoding/json"
	"io"
	"os"
	"runtime"
	"strconv"
	"sync/atomic"
	"testing"

	"github.com/zeromicro/go-zero/internal/verifhook"
)

// verifFlightBehaviour is one TLC-generated schedule: either the bare list of moves (the component
// is fixed by the test function) or {mode, ops} (configs with Mode = "all").
type verifFlightBehaviour struct {
	Mode string          `json:"mode"`
	Ops  []verifFlightOp `json:"ops"`
}

func verifFlightReplay(t *testing.T, mode string) {
	em := verifOpen(t)
	defer em.Close()
	for h, raw := range verifInput(t) {
		b := verifFlightBehaviour{Mode: mode}
		if len(raw) > 0 && raw[0] == '{' {
			if err := json.Unmarshal(raw, &b); err != nil {
				t.Fatal(err)
			}
		} else if err := json.Unmarshal(raw, &b.Ops); err != nil {
			t.Fatal(err)
		}
		verifFlightRunSchedule(t, em, h, b.Mode, b.Ops)
	}
}

// verifFlightRunSchedule replays one schedule.  Every object index named by a move ("ob") stands for
// one freshly constructed SingleFlight / LockedCalls / ResourceManager; all objects of a schedule are
// handed the SAME key strings.
func verifFlightRunSchedule(t *testing.T, em *verifEmitter, h int, mode string, ops []verifFlightOp) {
	s := &verifFlightSched{t: t, em: em, strict: true}
	nobj := 1
	for i := range ops {
		if ops[i].Ob < 1 {
			ops[i].Ob = 1
		}
		if ops[i].Ob > nobj {
			nobj = ops[i].Ob
		}
	}
	var rms []*ResourceManager
	switch mode {
	case "sf":
		gs := make([]SingleFlight, nobj)
		for i := range gs {
			gs[i] = NewSingleFlight()
		}
		s.invoke = func(c *verifFlightCall, fn func() (any, error)) (int, int, int) {
			g := gs[c.obj-1]
			if (c.id+h)%3 == 0 {
				v, err := g.Do(verifFlightKey(h, c.key), fn)
				return verifFlightVal(v), verifFlightErrCode(err), 2
			}
			v, fresh, err := g.DoEx(verifFlightKey(h, c.key), fn)
			f := 0
			if fresh {
				f = 1
			}
			return verifFlightVal(v), verifFlightErrCode(err), f
		}
	case "lc":
		gs := make([]LockedCalls, nobj)
		for i := range gs {
			gs[i] = NewLockedCalls()
		}
		s.invoke = func(c *verifFlightCall, fn func() (any, error)) (int, int, int) {
			v, err := gs[c.obj-1].Do(verifFlightKey(h, c.key), fn)
			return verifFlightVal(v), verifFlightErrCode(err), 2
		}
	case "rm":
		rms = make([]*ResourceManager, nobj)
		for i := range rms {
			rms[i] = NewResourceManager()
		}
		s.invoke = func(c *verifFlightCall, fn func() (any, error)) (int, int, int) {
			r, err := rms[c.obj-1].GetResource(verifFlightKey(h, c.key), func() (io.Closer, error) {
				v, e := fn()
				if e != nil {
					return nil, e
				}
				return &verifFlightRes{id: v.(int)}, nil
			})
			return verifFlightVal(r), verifFlightErrCode(err), 2
		}
	default:
		t.Fatalf("verif flight: unknown mode %q", mode)
	}
	if verifEnvInt("VERIF_FLIGHT_HOOKS", 0) == 1 {
		verifhook.Set(s.hook)
	}
	em.Emit(verifEv{"e": "reset", "mode": mode})
	inj := 0
	for _, op := range ops {
		switch op.Op {
		case "call":
			s.startOn(op.Ob, op.K)
		case "rel":
			s.releaseOn(op.Ob, op.K, op.O, op.S)
		case "cont":
			s.contOn(op.Ob, op.K)
		case "inject":
			s.rest()
			inj++
			rms[op.Ob-1].Inject(verifFlightKey(h, op.K), &verifFlightRes{id: 1000 + inj})
			em.Emit(verifEv{"e": "inject", "o": op.Ob, "k": op.K, "v": 1000 + inj})
		}
		s.rest()
	}
	s.drain()
	verifhook.Set(nil)
}

func TestVerifFlightReplaySF(t *testing.T) { verifFlightReplay(t, "sf") }
func TestVerifFlightReplayLC(t *testing.T) { verifFlightReplay(t, "lc") }
func TestVerifFlightReplayRM(t *testing.T) { verifFlightReplay(t, "rm") }

// schedules over several objects that share their key strings; every behaviour names its component
func TestVerifFlightReplayObjs(t *testing.T) { verifFlightReplay(t, "") }

// ---- stress: free-running goroutines, nothing steered ----------------------------------

func TestVerifFlightStress(t *testing.T) {
	em := verifOpen(t)
	defer em.Close()
	rnd := verifRand(7)
	ornd := verifRand(8) // how many objects a round uses (own stream: the other round parameters stay as they were)
	rounds := verifEnvInt("VERIF_FLIGHT_ROUNDS", 60)
	style := os.Getenv("VERIF_FLIGHT_STYLE")
	defer runtime.GOMAXPROCS(runtime.GOMAXPROCS(0))
	modes := []string{"sf", "lc", "rm", "sf", "lc"}
	for r := 0; r < rounds; r++ {
		mode := modes[r%len(modes)]
		if style == "sweep" {
			mode = []string{"rm", "sf", "rm", "lc", "sf"}[r%5]
		}
		procs := []int{1, 2, 4, 8}[rnd.Intn(4)]
		runtime.GOMAXPROCS(procs)
		goroutines := 2 + rnd.Intn(31)
		if rnd.Intn(2) == 0 {
			goroutines = 2 + rnd.Intn(5)
		}
		keys := 1 + rnd.Intn(3)
		perG := 2 + rnd.Intn(10)
		maxSpin := []int{0, 1, 3, 20}[rnd.Intn(4)]
		// sweep rounds: every goroutine walks the same sequence of fresh keys, so the callers keep
		// colliding on the first call / first creation of a key
		sweep := rnd.Intn(3) == 0
		if style == "sweep" { // short executions, real parallelism: aims at check-then-act windows inside the library
			sweep = true
			goroutines = 3 + rnd.Intn(10)
			maxSpin = []int{0, 0, 1}[rnd.Intn(3)]
			runtime.GOMAXPROCS([]int{2, 4, 8, 16}[rnd.Intn(4)])
		}
		if sweep {
			keys, perG = 20, 20
		}
		panics := mode != "rm" && rnd.Intn(4) == 0
		// the goroutines of a round spread their calls over nobj objects that are handed the same key strings
		nobj := []int{1, 1, 2, 3}[ornd.Intn(4)]
		sfs, lcs, rms := make([]SingleFlight, nobj), make([]LockedCalls, nobj), make([]*ResourceManager, nobj)
		for i := 0; i < nobj; i++ {
			sfs[i], lcs[i], rms[i] = NewSingleFlight(), NewLockedCalls(), NewResourceManager()
		}
		em.Emit(verifEv{"e": "reset", "mode": mode})
		var ids atomic.Int64
		startc := make(chan struct{})
		workers := make([]*verifFlightWorker, goroutines)
		for g := 0; g < goroutines; g++ {
			gr := verifRand(int64(1000*r + g + 13))
			gor := verifRand(int64(1000*r + g + 500013))
			w := &verifFlightWorker{}
			workers[g] = w
			go func() {
				defer w.done.Store(true)
				w.gid.Store(verifFlightGid())
				<-startc
				for i := 0; i < perG; i++ {
					id := int(ids.Add(1))
					w.cur.Store(int64(id))
					k := 1 + gr.Intn(keys)
					if sweep {
						k = i + 1
					}
					spin := 0
					if maxSpin > 0 {
						spin = gr.Intn(maxSpin + 1)
					}
					outcome := gr.Intn(10)
					ob := 1 + gor.Intn(nobj)
					sf, lc, rm := sfs[ob-1], lcs[ob-1], rms[ob-1]
					fn := func() (any, error) {
						em.Emit(verifEv{"e": "fnStart", "c": id})
						for j := 0; j < spin; j++ {
							runtime.Gosched()
						}
						switch {
						case outcome < 6:
							em.Emit(verifEv{"e": "fnEnd", "c": id, "v": id, "err": 0})
							return id, nil
						case outcome < 9 || !panics:
							em.Emit(verifEv{"e": "fnEnd", "c": id, "v": 0, "err": id})
							return nil, verifFlightErr{id}
						default:
							em.Emit(verifEv{"e": "fnPanic", "c": id})
							panic(verifFlightPanic{id})
						}
					}
					func() {
						defer func() {
							if rec := recover(); rec != nil {
								em.Emit(verifEv{"e": "callPanic", "c": id})
							}
						}()
						key := "k" + strconv.Itoa(k)
						em.Emit(verifEv{"e": "callStart", "c": id, "o": ob, "k": k})
						switch mode {
						case "sf":
							if id%3 == 0 {
								v, err := sf.Do(key, fn)
								em.Emit(verifEv{"e": "callEnd", "c": id, "v": verifFlightVal(v), "err": verifFlightErrCode(err), "fresh": 2})
							} else {
								v, fresh, err := sf.DoEx(key, fn)
								f := 0
								if fresh {
									f = 1
								}
								em.Emit(verifEv{"e": "callEnd", "c": id, "v": verifFlightVal(v), "err": verifFlightErrCode(err), "fresh": f})
							}
						case "lc":
							v, err := lc.Do(key, fn)
							em.Emit(verifEv{"e": "callEnd", "c": id, "v": verifFlightVal(v), "err": verifFlightErrCode(err), "fresh": 2})
						case "rm":
							res, err := rm.GetResource(key, func() (io.Closer, error) {
								v, e := fn()
								if e != nil {
									return nil, e
								}
								return &verifFlightRes{id: v.(int)}, nil
							})
							em.Emit(verifEv{"e": "callEnd", "c": id, "v": verifFlightVal(res), "err": verifFlightErrCode(err), "fresh": 2})
						}
					}()
					if spin%2 == 1 {
						runtime.Gosched()
					}
				}
			}()
		}
		close(startc)
		verifFlightJoin(t, em, workers)
	}
}

