//go:build verif

package syncx

// Extension "syncxobjs" (host C05), package core/syncx: drivers for the small synchronisation objects
// (specs/threadx/Atomics.tla: SpinLock, OnceGuard, AtomicBool, AtomicDuration, AtomicFloat64, DoneChan,
// Barrier, RefResource, ManagedResource as linearizable objects), Cond (specs/threadx/Cond.tla) and
// ImmutableResource (specs/threadx/Immutable.tla).  They drive and record only; every verdict comes from
// TLC validating the recorded trace.  Time is the virtual clock hook timex.VerifNow (a harness function that
// logs every read); user functions (Barrier.Guard's fn, RefResource's clean, ManagedResource's generate,
// ImmutableResource's fetch) are harness callbacks that log from inside the library and, where a schedule is
// steered, park on a gate the driver owns.  Watchdogs only end a run that does not come back ("stuck": no
// spec action).

import (
	"encoding/json"
	"errors"
	"math/rand"
	"runtime"
	"strconv"
	"sync"
	"sync/atomic"
	"testing"
	"time"

	"github.com/zeromicro/go-zero/core/timex"
)

const (
	verifExtsyncxobjsLong  = 30 * time.Second
	verifExtsyncxobjsPanic = "verif: injected panic"
)

// ---------------------------------------------------------------------------------- plumbing

type verifExtsyncxobjsLog struct {
	em      *verifEmitter
	mu      sync.Mutex
	seen    map[string]int
	expired *int32
}

func verifExtsyncxobjsNewLog(em *verifEmitter, expired *int32) *verifExtsyncxobjsLog {
	return &verifExtsyncxobjsLog{em: em, seen: map[string]int{}, expired: expired}
}

func (w *verifExtsyncxobjsLog) emit(key string, ev verifEv) {
	w.em.Emit(ev)
	w.mu.Lock()
	w.seen[key]++
	w.mu.Unlock()
}

func (w *verifExtsyncxobjsLog) mark(key string) {
	w.mu.Lock()
	w.seen[key]++
	w.mu.Unlock()
}

func (w *verifExtsyncxobjsLog) count(key string) int {
	w.mu.Lock()
	defer w.mu.Unlock()
	return w.seen[key]
}

func (w *verifExtsyncxobjsLog) patience() time.Duration {
	if atomic.LoadInt32(w.expired) > 0 {
		return 500 * time.Millisecond
	}
	return verifExtsyncxobjsLong
}

// poll waits (bounded by d) until `key` has been observed cnt times; no event when it has not.
func (w *verifExtsyncxobjsLog) poll(key string, cnt int, d time.Duration) bool {
	deadline := time.Now().Add(d)
	for i := 0; ; i++ {
		if w.count(key) >= cnt {
			return true
		}
		if time.Now().After(deadline) {
			return false
		}
		if i < 50 {
			runtime.Gosched()
		} else {
			time.Sleep(20 * time.Microsecond)
		}
	}
}

// await: like poll under the watchdog; a watchdog that fires is reported in the trace ("stuck": no spec
// action); later watchdogs in the same process are short.
func (w *verifExtsyncxobjsLog) await(key string, cnt int) bool {
	if w.poll(key, cnt, w.patience()) {
		return true
	}
	atomic.AddInt32(w.expired, 1)
	w.em.Emit(verifEv{"e": "stuck", "what": key, "want": cnt, "have": w.count(key)})
	return false
}

// join waits for fn's goroutines (wg) under the watchdog.
func (w *verifExtsyncxobjsLog) join(wg *sync.WaitGroup, what string) bool {
	fin := make(chan struct{})
	go func() { wg.Wait(); close(fin) }()
	select {
	case <-fin:
		return true
	case <-time.After(w.patience()):
		atomic.AddInt32(w.expired, 1)
		w.em.Emit(verifEv{"e": "stuck", "what": what, "want": 0, "have": 0})
		return false
	}
}

func verifExtsyncxobjsKey(k string, v int) string { return k + ":" + strconv.Itoa(v) }

func verifExtsyncxobjsYield(n int) {
	for i := 0; i < n; i++ {
		if i%9 == 8 {
			time.Sleep(time.Microsecond)
		} else {
			runtime.Gosched()
		}
	}
}

// the virtual clock: one unit = 1 ms of timex time; every read by the library is logged, atomically with the
// value it saw.
type verifExtsyncxobjsClock struct {
	mu  sync.Mutex
	now int
	lg  *verifExtsyncxobjsLog
}

func (c *verifExtsyncxobjsClock) read() time.Duration {
	c.mu.Lock()
	defer c.mu.Unlock()
	c.lg.emit("clk", verifEv{"e": "clk", "now": c.now})
	return time.Duration(c.now) * time.Millisecond
}

func (c *verifExtsyncxobjsClock) tick(d int) {
	c.mu.Lock()
	c.now += d
	c.lg.emit("tick", verifEv{"e": "tick", "now": c.now})
	c.mu.Unlock()
}

var verifExtsyncxobjsCur atomic.Pointer[verifExtsyncxobjsClock]

func verifExtsyncxobjsInstallClock() func() {
	timex.VerifNow = func() time.Duration {
		if c := verifExtsyncxobjsCur.Load(); c != nil {
			return c.read()
		}
		return time.Millisecond
	}
	return func() { timex.VerifNow = nil }
}

type verifExtsyncxobjsOp struct {
	P    int    `json:"p"`
	Op   string `json:"op"`
	A    int    `json:"a"`
	B    int    `json:"b"`
	Res  int    `json:"res"`
	D    int    `json:"d"`
	Fo   int    `json:"fo"`
	Mode string `json:"mode"`
	To   int    `json:"to"`
	Real string `json:"real"`
}

type verifExtsyncxobjsBeh struct {
	M    string                `json:"m"`
	Kind string                `json:"kind"`
	S0   int                   `json:"s0"`
	Ival int                   `json:"ival"`
	Ops  []verifExtsyncxobjsOp `json:"ops"`
}

// ---------------------------------------------------------------------------------- the linearizable objects

type verifExtsyncxobjsObj struct {
	kind string
	lg   *verifExtsyncxobjsLog
	spin SpinLock
	once OnceGuard
	ab   *AtomicBool
	ad   *AtomicDuration
	af   *AtomicFloat64
	dc   *DoneChan
	bar  Barrier
	ref  *RefResource
	mr   *ManagedResource
	genN int32
	slow int // yields inside callbacks
}

func verifExtsyncxobjsNewObj(lg *verifExtsyncxobjsLog, kind string, s0 int) *verifExtsyncxobjsObj {
	o := &verifExtsyncxobjsObj{kind: kind, lg: lg}
	switch kind {
	case "abool":
		if s0 == 0 {
			o.ab = NewAtomicBool()
		} else {
			o.ab = ForAtomicBool(true)
		}
	case "adur":
		o.ad = ForAtomicDuration(time.Duration(s0))
	case "afloat":
		o.af = ForAtomicFloat64(float64(s0))
	case "done":
		o.dc = NewDoneChan()
	case "ref":
		o.ref = NewRefResource(func() {
			lg.emit("cleanRun", verifEv{"e": "cleanRun"})
			verifExtsyncxobjsYield(o.slow)
		})
	case "managed":
		o.mr = NewManagedResource(func() any {
			id := int(atomic.AddInt32(&o.genN, 1))
			lg.emit("gen", verifEv{"e": "gen", "id": id})
			verifExtsyncxobjsYield(o.slow)
			return id
		}, func(a, b any) bool { return a == b })
	}
	lg.em.Emit(verifEv{"e": "reset", "m": "atom", "kind": kind, "s0": s0})
	return o
}

func verifExtsyncxobjsB2i(b bool) int {
	if b {
		return 1
	}
	return 0
}

func (o *verifExtsyncxobjsObj) do(p int, op string, a, b int, out string) int {
	switch o.kind + "." + op {
	case "spin.lock":
		o.spin.Lock()
	case "spin.trylock":
		return verifExtsyncxobjsB2i(o.spin.TryLock())
	case "spin.unlock":
		o.spin.Unlock()
	case "once.take":
		return verifExtsyncxobjsB2i(o.once.Take())
	case "once.taken":
		return verifExtsyncxobjsB2i(o.once.Taken())
	case "abool.cas":
		return verifExtsyncxobjsB2i(o.ab.CompareAndSwap(a == 1, b == 1))
	case "abool.set":
		o.ab.Set(a == 1)
	case "abool.true":
		return verifExtsyncxobjsB2i(o.ab.True())
	case "adur.cas":
		return verifExtsyncxobjsB2i(o.ad.CompareAndSwap(time.Duration(a), time.Duration(b)))
	case "adur.set":
		o.ad.Set(time.Duration(a))
	case "adur.load":
		return int(o.ad.Load())
	case "afloat.cas":
		return verifExtsyncxobjsB2i(o.af.CompareAndSwap(float64(a), float64(b)))
	case "afloat.set":
		o.af.Set(float64(a))
	case "afloat.load":
		return int(o.af.Load())
	case "afloat.add":
		return int(o.af.Add(float64(a)))
	case "done.close":
		o.dc.Close()
	case "done.isdone":
		select {
		case <-o.dc.Done():
			return 1
		default:
			return 0
		}
	case "done.wait":
		<-o.dc.Done()
	case "barrier.guard":
		o.bar.Guard(func() {
			o.lg.emit("enter", verifEv{"e": "enter", "p": p})
			verifExtsyncxobjsYield(o.slow)
			o.lg.emit("exit", verifEv{"e": "exit", "p": p, "out": out})
			if out == "panic" {
				panic(verifExtsyncxobjsPanic)
			}
		})
	case "ref.use":
		switch err := o.ref.Use(); err {
		case nil:
			return 0
		case ErrUseOfCleaned:
			return 1
		default:
			return 3
		}
	case "ref.clean":
		o.ref.Clean()
	case "managed.take":
		if id, ok := o.mr.Take().(int); ok {
			return id
		}
		return -1
	case "managed.broken":
		o.mr.MarkBroken(a)
	default:
		panic("verif driver: unknown operation " + o.kind + "." + op)
	}
	return 0
}

// call: callStart before the library is entered, callEnd after it returned; res 1 = the function given to
// Guard panicked and the panic reached the caller, 2 = any other panic out of the library.
func (o *verifExtsyncxobjsObj) call(p int, op string, a, b int, out string) int {
	return o.callAt(p, op, a, b, out, nil)
}

// callAt: pre runs between the callStart event and the call itself (the soft rendezvous of the racing workers:
// the emitter's mutex would otherwise stagger them).
func (o *verifExtsyncxobjsObj) callAt(p int, op string, a, b int, out string, pre func()) int {
	o.lg.emit(verifExtsyncxobjsKey("callStart", p), verifEv{"e": "callStart", "p": p, "op": op, "a": a, "b": b})
	if pre != nil {
		pre()
	}
	res := 0
	func() {
		defer func() {
			if r := recover(); r != nil {
				if s, ok := r.(string); ok && s == verifExtsyncxobjsPanic && o.kind == "barrier" {
					res = 1
				} else {
					res = 2
				}
			}
		}()
		res = o.do(p, op, a, b, out)
	}()
	o.lg.emit(verifExtsyncxobjsKey("callEnd", p), verifEv{"e": "callEnd", "p": p, "res": res})
	return res
}

func verifExtsyncxobjsAtomReplay(em *verifEmitter, b verifExtsyncxobjsBeh, expired *int32) {
	lg := verifExtsyncxobjsNewLog(em, expired)
	o := verifExtsyncxobjsNewObj(lg, b.Kind, b.S0)
	ends := map[int]int{}
	for _, e := range b.Ops {
		out := "ret"
		if b.Kind == "barrier" && e.Res == 1 {
			out = "panic"
		}
		e := e
		if b.Kind == "barrier" {
			e.A = 0 // (the model keeps "is inside" in this field)
		}
		go o.call(e.P, e.Op, e.A, e.B, out) // own goroutine: a call that does not come back must not hang the driver
		ends[e.P]++
		if !lg.await(verifExtsyncxobjsKey("callEnd", e.P), ends[e.P]) {
			return
		}
	}
}

// verifExtsyncxobjsMeet: a soft rendezvous -- the workers try to make their i-th call at the same instant (the
// windows between two atomic instructions of the library are only a few nanoseconds wide); nobody waits for long,
// a worker that is blocked inside the library does not hold the others up.
type verifExtsyncxobjsMeet struct {
	n       int32
	arrived []int32
}

func (m *verifExtsyncxobjsMeet) at(i int) {
	if m == nil || i >= len(m.arrived) {
		return
	}
	atomic.AddInt32(&m.arrived[i], 1)
	for j := 0; j < 40000 && atomic.LoadInt32(&m.arrived[i]) < m.n; j++ {
		if j%256 == 255 {
			runtime.Gosched()
		}
	}
}

// one worker of a concurrent history: what it calls follows the usage the doc comments describe, decided from
// what it was told by its own earlier calls only.
func verifExtsyncxobjsWorker(o *verifExtsyncxobjsObj, p, k int, rnd *rand.Rand, meet *verifExtsyncxobjsMeet) {
	holding := false // spin
	holds := 0       // ref
	sawCleaned := false
	var ids []int // managed
	pick := func(xs ...string) string { return xs[rnd.Intn(len(xs))] }
	step := 0
	c := func(op string, a, b int, out string) int {
		return o.callAt(p, op, a, b, out, func() { meet.at(step) })
	}
	for i := 0; i < k; i++ {
		step = i
		if meet == nil {
			verifExtsyncxobjsYield(rnd.Intn(6))
		}
		switch o.kind {
		case "spin":
			if holding {
				c("unlock", 0, 0, "")
				holding = false
			} else if rnd.Intn(2) == 0 {
				c("lock", 0, 0, "")
				holding = true
			} else {
				holding = c("trylock", 0, 0, "") == 1
			}
		case "once":
			c(pick("take", "taken", "taken"), 0, 0, "")
		case "abool":
			switch pick("cas", "cas", "set", "true", "true") {
			case "cas":
				c("cas", rnd.Intn(2), rnd.Intn(2), "")
			case "set":
				c("set", rnd.Intn(2), 0, "")
			default:
				c("true", 0, 0, "")
			}
		case "adur", "afloat":
			ops := []string{"cas", "cas", "set", "load", "load"}
			if o.kind == "afloat" {
				ops = append(ops, "add", "add", "add")
			}
			switch ops[rnd.Intn(len(ops))] {
			case "cas":
				c("cas", rnd.Intn(5), rnd.Intn(5), "")
			case "set":
				c("set", rnd.Intn(5), 0, "")
			case "add":
				c("add", 1+rnd.Intn(2), 0, "")
			default:
				c("load", 0, 0, "")
			}
		case "done":
			// worker 1 never waits and ends with Close, so every receive from Done() comes back
			if p == 1 {
				if i == k-1 {
					c("close", 0, 0, "")
				} else {
					c(pick("isdone", "isdone", "isdone", "close"), 0, 0, "")
				}
			} else {
				c(pick("isdone", "isdone", "wait", "close"), 0, 0, "")
			}
		case "barrier":
			c("guard", 0, 0, pick("ret", "ret", "panic"))
		case "ref":
			if (holds == 0 && !sawCleaned) || rnd.Intn(2) == 0 {
				switch c("use", 0, 0, "") {
				case 0:
					holds++
				case 1:
					sawCleaned = true
				}
			} else {
				c("clean", 0, 0, "")
				if holds > 0 {
					holds--
				}
			}
		case "managed":
			if meet != nil { // everybody takes at once; every other step worker 1 breaks what it holds instead
				if i%2 == 1 && p == 1 {
					c("broken", ids[len(ids)-1], 0, "")
				} else {
					ids = append(ids, c("take", 0, 0, ""))
				}
			} else if len(ids) == 0 || rnd.Intn(5) < 3 {
				ids = append(ids, c("take", 0, 0, ""))
			} else {
				x := ids[rnd.Intn(len(ids))]
				if rnd.Intn(6) == 0 {
					x = rnd.Intn(2) * 77
				}
				c("broken", x, 0, "")
			}
		}
	}
	if holding {
		c("unlock", 0, 0, "")
	}
	for ; holds > 0; holds-- {
		c("clean", 0, 0, "")
	}
}

// TestVerifExtsyncxobjsAtomConc: racing goroutines on one object of every kind (seeded choices and yields);
// the recorded call / return history must be linearizable (specs/threadx/AtomicsTrace.tla).
func TestVerifExtsyncxobjsAtomConc(t *testing.T) {
	em := verifOpen(t)
	defer em.Close()
	var expired int32
	rnd := verifRand(6061)
	runs := verifEnvInt("VERIF_EXT_SO_ATOM_RUNS", 10)
	kinds := []string{"spin", "once", "abool", "adur", "afloat", "done", "barrier", "ref", "managed"}
	for run := 0; run < runs; run++ {
		for _, kind := range kinds {
			lg := verifExtsyncxobjsNewLog(em, &expired)
			o := verifExtsyncxobjsNewObj(lg, kind, rnd.Intn(2))
			o.slow = rnd.Intn(4)
			n := 2 + rnd.Intn(3)
			k := 4 + rnd.Intn(8)
			var wg sync.WaitGroup
			start := make(chan struct{})
			var meet *verifExtsyncxobjsMeet
			if run%2 == 1 { // every other run: all workers make their i-th call together, many times
				k = 12 + rnd.Intn(8)
				meet = &verifExtsyncxobjsMeet{n: int32(n), arrived: make([]int32, k)}
			}
			for p := 1; p <= n; p++ {
				wg.Add(1)
				r := rand.New(rand.NewSource(rnd.Int63()))
				go func(p int) {
					defer wg.Done()
					<-start
					verifExtsyncxobjsWorker(o, p, k, r, meet)
				}(p)
			}
			close(start)
			lg.join(&wg, "workers "+kind)
		}
	}
}

// ---------------------------------------------------------------------------------- Cond

type verifExtsyncxobjsCond struct {
	lg      *verifExtsyncxobjsLog
	clk     *verifExtsyncxobjsClock
	c       *Cond
	sigN int32
}

func verifExtsyncxobjsNewCond(em *verifEmitter, expired *int32) *verifExtsyncxobjsCond {
	lg := verifExtsyncxobjsNewLog(em, expired)
	h := &verifExtsyncxobjsCond{lg: lg, clk: &verifExtsyncxobjsClock{now: 1, lg: lg}, c: NewCond(), sigN: 1000}
	verifExtsyncxobjsCur.Store(h.clk)
	em.Emit(verifEv{"e": "reset", "m": "cond", "now": 1})
	return h
}

// wait: one Wait / WaitWithTimeout by process p, in the calling goroutine.  timeout is in clock units (ms); the
// real timer is the same number of real milliseconds (an hour for the "long" ones).
func (h *verifExtsyncxobjsCond) wait(p int, mode string, timeout int) {
	h.lg.emit(verifExtsyncxobjsKey("waitStart", p), verifEv{"e": "waitStart", "p": p, "mode": mode, "timeout": timeout})
	defer h.lg.mark(verifExtsyncxobjsKey("waitEndOf", p))
	if mode == "wait" {
		h.c.Wait()
		h.lg.emit("waitEnd", verifEv{"e": "waitEnd", "p": p, "ok": true, "remain": 0})
		return
	}
	rem, ok := h.c.WaitWithTimeout(time.Duration(timeout) * time.Millisecond)
	h.lg.emit("waitEnd", verifEv{"e": "waitEnd", "p": p, "ok": ok, "remain": int(rem / time.Millisecond)})
}

func (h *verifExtsyncxobjsCond) signal() {
	s := int(atomic.AddInt32(&h.sigN, 1))
	h.lg.emit("sigStart", verifEv{"e": "sigStart", "s": s})
	h.c.Signal()
	h.lg.emit("sigEnd", verifEv{"e": "sigEnd", "s": s})
}

// signalSafe: Signal in its own goroutine (a Signal that does not come back must not hang the driver).
func (h *verifExtsyncxobjsCond) signalSafe() bool {
	n := h.lg.count("sigEnd")
	go h.signal()
	return h.lg.await("sigEnd", n+1)
}

// pump: signal until `want` waits have come back.
func (h *verifExtsyncxobjsCond) pump(want int) bool {
	deadline := time.Now().Add(h.lg.patience())
	for h.lg.count("waitEnd") < want {
		if !h.signalSafe() {
			return false
		}
		if h.lg.poll("waitEnd", want, 300*time.Microsecond) {
			break
		}
		if time.Now().After(deadline) {
			atomic.AddInt32(h.lg.expired, 1)
			h.lg.em.Emit(verifEv{"e": "stuck", "what": "pump", "want": want, "have": h.lg.count("waitEnd")})
			return false
		}
	}
	return true
}

func verifExtsyncxobjsCondReplay(em *verifEmitter, b verifExtsyncxobjsBeh, expired *int32) {
	h := verifExtsyncxobjsNewCond(em, expired)
	started := 0
	ok := true
	for _, e := range b.Ops {
		if !ok {
			return
		}
		switch e.Op {
		case "signal":
			ok = h.signalSafe()
		case "tick":
			h.clk.tick(e.D)
		case "wait":
			started++
			clk := h.lg.count("clk")
			e := e
			go h.wait(e.P, e.Mode, e.To)
			if e.Mode == "timed" {
				ok = h.lg.await("clk", clk+1) // it has read the clock: the time it spends waiting starts here
			} else {
				ok = h.lg.await(verifExtsyncxobjsKey("waitStart", e.P), 1)
			}
			verifExtsyncxobjsYield(4)
		case "wake":
			ok = h.pump(h.lg.count("waitEnd") + 1)
		case "expire":
			// the short real timer of waiter p (or a signal that got there first) ends it
			ok = h.lg.await(verifExtsyncxobjsKey("waitEndOf", e.P), 1)
		}
	}
	if ok {
		h.pump(started)
	}
}

// TestVerifExtsyncxobjsCondRandom: waiters, signallers and a moving clock, free-running.
func TestVerifExtsyncxobjsCondRandom(t *testing.T) {
	em := verifOpen(t)
	defer em.Close()
	defer verifExtsyncxobjsInstallClock()()
	var expired int32
	rnd := verifRand(6062)
	runs := verifEnvInt("VERIF_EXT_SO_COND_RUNS", 30)
	for run := 0; run < runs; run++ {
		h := verifExtsyncxobjsNewCond(em, &expired)
		nw := 1 + rnd.Intn(4)
		total := 0
		var wg, aux sync.WaitGroup
		for p := 1; p <= nw; p++ {
			k := 1 + rnd.Intn(3)
			total += k
			r := rand.New(rand.NewSource(rnd.Int63()))
			wg.Add(1)
			go func(p, k int) {
				defer wg.Done()
				for i := 0; i < k; i++ {
					verifExtsyncxobjsYield(r.Intn(10))
					switch r.Intn(5) {
					case 0, 1:
						h.wait(p, "wait", 0)
					case 2, 3:
						h.wait(p, "timed", 3600000)
					default:
						h.wait(p, "timed", 1+r.Intn(3))
					}
				}
			}(p, k)
		}
		for s, ns := 0, rnd.Intn(3); s < ns; s++ {
			n := rnd.Intn(6)
			r := rand.New(rand.NewSource(rnd.Int63()))
			aux.Add(1)
			go func() {
				defer aux.Done()
				for i := 0; i < n; i++ {
					verifExtsyncxobjsYield(r.Intn(30))
					h.signal()
				}
			}()
		}
		nt := rnd.Intn(6)
		rt := rand.New(rand.NewSource(rnd.Int63()))
		aux.Add(1)
		go func() {
			defer aux.Done()
			for i := 0; i < nt; i++ {
				verifExtsyncxobjsYield(rt.Intn(40))
				h.clk.tick(1 + rt.Intn(300))
			}
		}()
		h.pump(total)
		h.lg.join(&wg, "waiters")
		h.lg.join(&aux, "signallers")
	}
}

// ---------------------------------------------------------------------------------- ImmutableResource

type verifExtsyncxobjsImm struct {
	lg    *verifExtsyncxobjsLog
	clk   *verifExtsyncxobjsClock
	ir    *ImmutableResource
	nf    int32
	cur   int32 // sequential drivers: what the fetch function returns if it is called now (0 resource, e > 0 error e)
	gated bool
	mu    sync.Mutex
	gates map[int]chan int
	errs  []error
	cmd   map[int]chan struct{}
	wg    sync.WaitGroup
}

// ival < 0: the default interval (no option; one second = 1000 units).
func verifExtsyncxobjsNewImm(em *verifEmitter, expired *int32, ival int, gated bool) *verifExtsyncxobjsImm {
	lg := verifExtsyncxobjsNewLog(em, expired)
	h := &verifExtsyncxobjsImm{lg: lg, clk: &verifExtsyncxobjsClock{now: 1, lg: lg}, gated: gated,
		gates: map[int]chan int{}, cmd: map[int]chan struct{}{},
		errs: []error{nil, errors.New("verif e1"), errors.New("verif e2")}}
	verifExtsyncxobjsCur.Store(h.clk)
	fetch := func() (any, error) {
		n := int(atomic.AddInt32(&h.nf, 1))
		lg.emit(verifExtsyncxobjsKey("fetchStart", n), verifEv{"e": "fetchStart", "n": n})
		o := int(atomic.LoadInt32(&h.cur))
		if h.gated {
			o = <-h.gate(n)
		}
		if o == 0 {
			lg.emit(verifExtsyncxobjsKey("fetchEnd", n), verifEv{"e": "fetchEnd", "n": n, "r": n, "err": 0})
			return n, nil
		}
		lg.emit(verifExtsyncxobjsKey("fetchEnd", n), verifEv{"e": "fetchEnd", "n": n, "r": 0, "err": o})
		return nil, h.errs[o]
	}
	if ival < 0 {
		h.ir = NewImmutableResource(fetch)
		ival = 1000
	} else {
		h.ir = NewImmutableResource(fetch, WithRefreshIntervalOnFailure(time.Duration(ival)*time.Millisecond))
	}
	em.Emit(verifEv{"e": "reset", "m": "imm", "now": 1, "ival": ival})
	return h
}

func (h *verifExtsyncxobjsImm) gate(n int) chan int {
	h.mu.Lock()
	defer h.mu.Unlock()
	g, ok := h.gates[n]
	if !ok {
		g = make(chan int, 1)
		h.gates[n] = g
	}
	return g
}

func (h *verifExtsyncxobjsImm) get(p int) {
	h.lg.emit(verifExtsyncxobjsKey("getStart", p), verifEv{"e": "getStart", "p": p})
	res, err := h.ir.Get()
	r, e := 0, 0
	if res != nil {
		r, _ = res.(int)
	}
	if err != nil {
		e = 9
		for i := 1; i < len(h.errs); i++ {
			if err == h.errs[i] {
				e = i
			}
		}
	}
	h.lg.emit(verifExtsyncxobjsKey("getEnd", p), verifEv{"e": "getEnd", "p": p, "r": r, "err": e})
}

// getSafe: one Get by process p in its own goroutine, waited for under the watchdog.
func (h *verifExtsyncxobjsImm) getSafe(p int) bool {
	n := h.lg.count(verifExtsyncxobjsKey("getEnd", p))
	go h.get(p)
	return h.lg.await(verifExtsyncxobjsKey("getEnd", p), n+1)
}

func verifExtsyncxobjsImmReplay(em *verifEmitter, b verifExtsyncxobjsBeh, expired *int32) {
	h := verifExtsyncxobjsNewImm(em, expired, b.Ival, false)
	for _, e := range b.Ops {
		switch e.Op {
		case "tick":
			h.clk.tick(e.D)
		case "get":
			fo := e.Fo
			if fo < 0 {
				fo = 2 // the specification expects no fetch here; if the code fetches anyway it gets an error
			}
			atomic.StoreInt32(&h.cur, int32(fo))
			if !h.getSafe(1) {
				return
			}
		}
	}
}

// TestVerifExtsyncxobjsReplay replays TLC-generated sequential histories / environment scripts of all three
// specifications (field m of each input line).
func TestVerifExtsyncxobjsReplay(t *testing.T) {
	em := verifOpen(t)
	defer em.Close()
	defer verifExtsyncxobjsInstallClock()()
	var expired int32
	for _, raw := range verifInput(t) {
		var b verifExtsyncxobjsBeh
		if err := json.Unmarshal(raw, &b); err != nil {
			t.Fatal(err)
		}
		switch b.M {
		case "atom":
			verifExtsyncxobjsAtomReplay(em, b, &expired)
		case "cond":
			verifExtsyncxobjsCondReplay(em, b, &expired)
		case "imm":
			verifExtsyncxobjsImmReplay(em, b, &expired)
		}
	}
}

// TestVerifExtsyncxobjsImmRandom: long seeded sequential histories (Gets whose fetch fails or succeeds, clock
// steps around the refresh interval, the default interval included).
func TestVerifExtsyncxobjsImmRandom(t *testing.T) {
	em := verifOpen(t)
	defer em.Close()
	defer verifExtsyncxobjsInstallClock()()
	var expired int32
	rnd := verifRand(6063)
	runs := verifEnvInt("VERIF_EXT_SO_IMM_RUNS", 40)
	for run := 0; run < runs; run++ {
		ival := []int{0, 1, 2, 3, 7, -1}[rnd.Intn(6)]
		h := verifExtsyncxobjsNewImm(em, &expired, ival, false)
		if ival < 0 {
			ival = 1000
		}
		steps := []int{1, ival - 1, ival, ival + 1, ival + 2, 2*ival + 1}
		for i, n := 0, 20+rnd.Intn(40); i < n; i++ {
			if rnd.Intn(5) < 2 {
				if d := steps[rnd.Intn(len(steps))]; d > 0 {
					h.clk.tick(d)
				}
				continue
			}
			fo := 1 + rnd.Intn(2)
			if rnd.Intn(12) == 0 {
				fo = 0
			}
			atomic.StoreInt32(&h.cur, int32(fo))
			if !h.getSafe(1) {
				break
			}
		}
	}
}

// concurrent drivers: getter goroutines that run one Get per command; the fetch function parks on a gate.
func (h *verifExtsyncxobjsImm) startGetters(n int) {
	for p := 1; p <= n; p++ {
		c := make(chan struct{}, 64)
		h.cmd[p] = c
		h.wg.Add(1)
		go func(p int) {
			defer h.wg.Done()
			for range c {
				h.get(p)
			}
		}(p)
	}
}

func (h *verifExtsyncxobjsImm) finish() {
	// whatever is still parked (only after a watchdog) gets an error and goes home
	h.mu.Lock()
	for n := 1; n <= int(atomic.LoadInt32(&h.nf))+8; n++ {
		g, ok := h.gates[n]
		if !ok {
			g = make(chan int, 1)
			h.gates[n] = g
		}
		select {
		case g <- 1:
		default:
		}
	}
	h.mu.Unlock()
	for _, c := range h.cmd {
		close(c)
	}
	h.lg.join(&h.wg, "getters")
}

// TestVerifExtsyncxobjsImmConc: Gets racing with each other and with a fetch in flight, in the situations the
// documentation covers: while a (slow) refresh is in flight and an earlier failure is still cached within its
// interval, other Gets answer the cached error (or wait for the refresh); once loaded, racing Gets all answer
// the resource.  Two Gets are never started at once while a fetch is due, and nothing races with the very first
// fetch (see TestVerifExtsyncxobjsImmKnown).
func TestVerifExtsyncxobjsImmConc(t *testing.T) {
	em := verifOpen(t)
	defer em.Close()
	defer verifExtsyncxobjsInstallClock()()
	var expired int32
	rnd := verifRand(6064)
	runs := verifEnvInt("VERIF_EXT_SO_IMMC_RUNS", 30)
	for run := 0; run < runs; run++ {
		ival := rnd.Intn(4)
		h := verifExtsyncxobjsNewImm(em, &expired, ival, true)
		ng := 2 + rnd.Intn(3)
		h.startGetters(ng)
		ends := map[int]int{}
		start := func(p int) { ends[p]++; h.cmd[p] <- struct{}{} }
		done := func(p int) bool { return h.lg.await(verifExtsyncxobjsKey("getEnd", p), ends[p]) }
		ok := true
		// a first, failing, Get on its own
		start(1)
		ok = h.lg.await(verifExtsyncxobjsKey("fetchStart", 1), 1)
		h.gate(1) <- 1 + rnd.Intn(2)
		ok = ok && done(1)
		loaded := false
		nf := 1
		for round, rounds := 0, 2+rnd.Intn(4); ok && round < rounds; round++ {
			if loaded {
				if rnd.Intn(2) == 0 {
					h.clk.tick(1 + rnd.Intn(2*ival+2))
				}
				for p := 1; p <= ng; p++ {
					start(p)
				}
				for p := 1; ok && p <= ng; p++ {
					ok = done(p)
				}
				continue
			}
			h.clk.tick(ival + 1 + rnd.Intn(2)) // a refresh is due
			leader := 1 + rnd.Intn(ng)
			start(leader)
			nf++
			if ok = h.lg.await(verifExtsyncxobjsKey("fetchStart", nf), 1); !ok {
				break
			}
			if ival > 0 && rnd.Intn(2) == 0 {
				h.clk.tick(1 + rnd.Intn(ival)) // still within the interval of the refresh in flight
			}
			var followers []int
			for p := 1; p <= ng; p++ {
				if p != leader && rnd.Intn(3) > 0 {
					followers = append(followers, p)
					start(p)
				}
			}
			if rnd.Intn(2) == 0 {
				for _, p := range followers { // as written they answer at once; a Get that waits for the refresh is fine too
					h.lg.poll(verifExtsyncxobjsKey("getEnd", p), ends[p], 500*time.Microsecond)
				}
			}
			o := 1 + rnd.Intn(2)
			if rnd.Intn(3) == 0 {
				o, loaded = 0, true
			}
			h.gate(nf) <- o
			ok = done(leader)
			for _, p := range followers {
				ok = ok && done(p)
			}
		}
		h.finish()
	}
}

// TestVerifExtsyncxobjsImmKnown: the three shortest schedules the Layer-I model (specs/threadx/ImmutableImpl.tla)
// gives for Gets that overlap a fetch which is NOT covered by a cached error, steered with the fetch gates.
// Nothing here waits for an answer the repaired code would give later: every wait for a racing Get is a bounded poll.
func TestVerifExtsyncxobjsImmKnown(t *testing.T) {
	em := verifOpen(t)
	defer em.Close()
	defer verifExtsyncxobjsInstallClock()()
	var expired int32
	const settle = 30 * time.Millisecond
	for sc, n := 0, verifEnvInt("VERIF_EXT_SO_KNOWN", 3); sc < n; sc++ {
		h := verifExtsyncxobjsNewImm(em, &expired, 1, true)
		h.startGetters(3)
		get := func(p int) { h.cmd[p] <- struct{}{} }
		ok := true
		switch sc {
		case 0: // a Get during the very first fetch
			get(1)
			ok = h.lg.await(verifExtsyncxobjsKey("fetchStart", 1), 1)
			get(2)
			h.lg.poll(verifExtsyncxobjsKey("getEnd", 2), 1, settle)
			h.gate(1) <- 0
			ok = ok && h.lg.await(verifExtsyncxobjsKey("getEnd", 1), 1) && h.lg.await(verifExtsyncxobjsKey("getEnd", 2), 1)
		case 1, 2: // the clock passes the interval while a fetch is in flight: a second fetch; the first one ends last
			get(1)
			ok = h.lg.await(verifExtsyncxobjsKey("fetchStart", 1), 1)
			h.clk.tick(2)
			get(2)
			h.lg.poll(verifExtsyncxobjsKey("fetchStart", 2), 1, settle)
			h.gate(2) <- 0
			h.lg.poll(verifExtsyncxobjsKey("getEnd", 2), 1, settle)
			if sc == 1 {
				h.gate(1) <- 0 // a second resource: the loaded one is replaced
			} else {
				h.gate(1) <- 1 // an error: stored next to the loaded resource
			}
			ok = ok && h.lg.await(verifExtsyncxobjsKey("getEnd", 1), 1) && h.lg.await(verifExtsyncxobjsKey("getEnd", 2), 1)
		}
		if ok {
			get(3)
			h.lg.await(verifExtsyncxobjsKey("getEnd", 3), 1)
		}
		h.finish()
	}
}
