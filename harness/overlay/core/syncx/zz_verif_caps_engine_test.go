//go:build verif

package syncx

// C05 engine, shared by the drivers of every package that has a concurrency cap (the runner
// copies this file into core/threading, rest/handler, core/mr and core/fx with the package
// clause rewritten).  It drives a primitive through a verifCapsAdapter and records the
// Layer-P events of specs/caps/Semaphore.tla.  There are no expectations in here: the only
// things the engine decides are what to do next and how long to wait for it; every verdict
// comes from TLC validating the recorded trace.
//
// The guarded region is verifCapsCtx.Region: it logs acqEnd/enter, parks on a gate owned
// by the engine, and logs exit/relStart before it returns or panics.

import (
	"encoding/json"
	"runtime"
	"sort"
	"sync"
	"sync/atomic"
	"testing"
	"time"
)

type verifCapsAdapter interface {
	Kind() string
	// Supports: "try", "block", "timeout", "over", "panic".
	Supports(what string) bool
	// Release: "sync" (Do logs relEnd itself), "quiesce" (complete after Quiesce returned),
	// "close" (complete after Close returned: worker pools private to one library call).
	Release() string
	// Do makes one attempt for ticket p: logs acqStart, asks the library, and runs c.Region(p, res)
	// iff admitted (directly or through the library's callback); logs the refusal otherwise.
	Do(c *verifCapsCtx, p int, mode string)
	Over(c *verifCapsCtx) bool // a release without an acquisition; true = an error was reported
	Quiesce(c *verifCapsCtx) bool
	Close(c *verifCapsCtx) bool
}

const (
	verifCapsNew  = 0
	verifCapsIn   = 1 // inside the region, parked on its gate
	verifCapsOut  = 2 // left the region
	verifCapsRef  = 3 // refused
	verifCapsLong = 20 * time.Second
)

type verifCapsTicket struct {
	p      int
	status int
	doRet  bool // Do returned
	start  bool // acqStart logged
	relLog bool // relEnd logged
	gate   chan string
	spin   int
	seq    int // admission order
}

type verifCapsCtx struct {
	t       testing.TB
	em      *verifEmitter
	ad      verifCapsAdapter
	n       int
	mu      sync.Mutex
	tick    map[int]*verifCapsTicket
	order   []*verifCapsTicket
	next    int
	seq     int
	notify  chan struct{}
	expired *int32          // a watchdog fired in this test process: later watchdogs are short
	tickFn  func()          // Pool with maxAge: moves the virtual clock between steps
	clk     *verifCapsClock // primitives whose waits carry a deadline: the clock the library reads (set by the adapter)
	advance func(d int)     // schedules with an explicit clock (SemGenTimed, PoolGen): moves the adapter's clock by d units
	// a second acquisition started from inside a user callback that the library runs in the middle of the first
	// one (Pool create / destroy): armed by the engine for one step, taken by Callback
	intrArmed bool
	intrTk    *verifCapsTicket
	stress    bool
	cbN       int32
}

// verifCapsClock is the clock a primitive with timed waits reads (the adapter installs Now as
// hook H1, timex.VerifNow).  Free-running it follows real time plus an offset that Jitter bumps
// (stress: a waiter can find its deadline passed when it is woken).  Frozen (schedules of
// SemGenTimed) it only moves by the schedule's tick steps, and the engine can `arm` it: the
// next reading -- that of a waiter that has just been woken, nobody else reads the clock at
// that point of a sequential schedule -- is logged as `wake` and, if asked, held until the
// engine has let a third party take the permit.  It knows nothing about permits.
type verifCapsClock struct {
	mu     sync.Mutex
	c      *verifCapsCtx
	frozen bool
	base   time.Time
	off    time.Duration
	unit   time.Duration // one tick of a schedule
	park   time.Duration // the timeout of a parked borrow (set by the adapter)
	calls  int           // readings so far
	armed  bool
	hold   bool
	held   bool // a reading is being held
	passed int  // armed readings seen
	gate   chan struct{}
	bumped time.Time
}

var verifCapsClockUnread int32

func verifCapsNewClock(c *verifCapsCtx, park time.Duration) *verifCapsClock {
	return &verifCapsClock{c: c, base: time.Now(), park: park, gate: make(chan struct{})}
}

func (k *verifCapsClock) value() time.Duration {
	if k.frozen {
		return k.off
	}
	return time.Since(k.base) + k.off
}

// Now is what the library sees.
func (k *verifCapsClock) Now() time.Duration {
	k.mu.Lock()
	k.calls++
	if !k.armed {
		v := k.value()
		k.mu.Unlock()
		k.c.poke()
		return v
	}
	k.armed = false
	k.passed++
	hold, g := k.hold, k.gate
	units := 0
	if k.unit > 0 {
		units = int(k.off / k.unit)
	}
	k.held = hold
	k.mu.Unlock()
	k.c.Emit(verifEv{"e": "wake", "clk": units, "held": hold})
	k.c.poke()
	if hold {
		<-g
	}
	k.mu.Lock()
	k.held = false
	v := k.value()
	k.mu.Unlock()
	k.c.poke()
	return v
}

func (k *verifCapsClock) freeze(t int) {
	k.mu.Lock()
	k.frozen = true
	k.unit = k.park / time.Duration(t)
	k.mu.Unlock()
}

func (k *verifCapsClock) advance(d time.Duration) {
	k.mu.Lock()
	k.off += d
	k.mu.Unlock()
}

func (k *verifCapsClock) arm(hold bool) {
	k.mu.Lock()
	k.armed, k.hold = true, hold
	k.mu.Unlock()
}

// letGo disarms the clock and releases a held reading.
func (k *verifCapsClock) letGo() {
	k.mu.Lock()
	k.armed = false
	close(k.gate)
	k.gate = make(chan struct{})
	k.mu.Unlock()
}

func (k *verifCapsClock) snapshot() (calls, passed int, held bool) {
	k.mu.Lock()
	defer k.mu.Unlock()
	return k.calls, k.passed, k.held
}

// Jitter (stress): now and then the clock jumps far ahead, so that whoever is parked then
// finds its deadline passed when it is woken.
func (k *verifCapsClock) Jitter() {
	k.mu.Lock()
	if time.Since(k.bumped) > 300*time.Microsecond {
		k.bumped = time.Now()
		k.off += time.Second
	}
	k.mu.Unlock()
}

// Callback is called by an adapter from inside a callback the library hands to user code in the middle
// of an acquisition.  Callbacks may be slow: if the engine asked for it, another acquisition is started
// right here and given a moment before the callback returns (a correct library makes it wait or serves it
// consistently; either way the events tell).  In stress runs the callback yields a few times.
func (c *verifCapsCtx) Callback() {
	c.mu.Lock()
	armed := c.intrArmed
	c.intrArmed = false
	c.mu.Unlock()
	if !armed {
		if c.stress {
			for i := int(atomic.AddInt32(&c.cbN, 1) % 4); i > 0; i-- {
				runtime.Gosched()
			}
		}
		return
	}
	tk := c.newTicket(0)
	c.mu.Lock()
	c.intrTk = tk
	c.mu.Unlock()
	c.run(tk, "block")
	poll := func(d time.Duration, pred func() bool) {
		end := time.Now().Add(d)
		for {
			c.mu.Lock()
			ok := pred()
			c.mu.Unlock()
			if ok || time.Now().After(end) {
				return
			}
			time.Sleep(50 * time.Microsecond)
		}
	}
	poll(2*time.Second, func() bool { return tk.start })
	poll(c.grace(), func() bool { return tk.status != verifCapsNew })
}

func (c *verifCapsCtx) tickClock() {
	if c.tickFn != nil {
		c.tickFn()
	}
}

func verifCapsNewCtx(t testing.TB, em *verifEmitter, n int, expired *int32) *verifCapsCtx {
	return &verifCapsCtx{t: t, em: em, n: n, tick: map[int]*verifCapsTicket{}, notify: make(chan struct{}, 1), expired: expired}
}

func (c *verifCapsCtx) Emit(ev verifEv) { c.em.Emit(ev) }

func (c *verifCapsCtx) poke() {
	select {
	case c.notify <- struct{}{}:
	default:
	}
}

func (c *verifCapsCtx) newTicket(spin int) *verifCapsTicket {
	c.mu.Lock()
	c.next++
	tk := &verifCapsTicket{p: c.next, gate: make(chan string, 1), spin: spin}
	c.tick[tk.p] = tk
	c.order = append(c.order, tk)
	c.mu.Unlock()
	return tk
}

// NewTicketFromCallback is for primitives that start their holders themselves (WorkerGroup).
func (c *verifCapsCtx) NewTicketFromCallback() int { return c.newTicket(0).p }

func (c *verifCapsCtx) AcqStart(p int, mode string) {
	c.Emit(verifEv{"e": "acqStart", "p": p, "mode": mode})
	c.mu.Lock()
	c.tick[p].start = true
	c.mu.Unlock()
	c.poke()
}

// Refused logs a refusal (false / ErrTaskRunnerBusy / ErrTimeout / HTTP status).
func (c *verifCapsCtx) Refused(p int, code int) {
	c.Emit(verifEv{"e": "acqEnd", "p": p, "ok": false, "r": 0, "code": code})
	c.mu.Lock()
	c.tick[p].status = verifCapsRef
	c.mu.Unlock()
	c.poke()
}

func (c *verifCapsCtx) RelEnd(p int, err bool) {
	c.Emit(verifEv{"e": "relEnd", "p": p, "err": err})
	c.mu.Lock()
	c.tick[p].relLog = true
	c.mu.Unlock()
}

func (c *verifCapsCtx) Entered(p int) bool {
	c.mu.Lock()
	defer c.mu.Unlock()
	return c.tick[p].status == verifCapsIn || c.tick[p].status == verifCapsOut
}

// Region is the guarded region.
func (c *verifCapsCtx) Region(p int, res int) {
	c.Emit(verifEv{"e": "acqEnd", "p": p, "ok": true, "r": res, "code": 0})
	c.Emit(verifEv{"e": "enter", "p": p})
	c.mu.Lock()
	tk := c.tick[p]
	tk.status = verifCapsIn
	c.seq++
	tk.seq = c.seq
	c.mu.Unlock()
	c.poke()
	how := <-tk.gate
	for i := 0; i < tk.spin; i++ {
		runtime.Gosched()
	}
	c.Emit(verifEv{"e": "exit", "p": p, "how": how})
	c.Emit(verifEv{"e": "relStart", "p": p})
	c.mu.Lock()
	tk.status = verifCapsOut
	c.mu.Unlock()
	c.poke()
	if how == "panic" {
		panic("verif caps: holder panics inside the guarded region")
	}
}

func (c *verifCapsCtx) run(tk *verifCapsTicket, mode string) {
	go func() {
		defer func() {
			recover()
			c.mu.Lock()
			tk.doRet = true
			c.mu.Unlock()
			c.poke()
		}()
		c.ad.Do(c, tk.p, mode)
	}()
}

// wait blocks until pred holds (checked under c.mu) or d expired; true = pred holds.
func (c *verifCapsCtx) wait(d time.Duration, pred func() bool) bool {
	if d >= verifCapsLong && atomic.LoadInt32(c.expired) > 0 {
		d = time.Second
	}
	deadline := time.Now().Add(d)
	for {
		c.mu.Lock()
		ok := pred()
		c.mu.Unlock()
		if ok {
			return true
		}
		rem := time.Until(deadline)
		if rem <= 0 {
			if d >= time.Second {
				atomic.AddInt32(c.expired, 1)
			}
			return false
		}
		if rem > 200*time.Microsecond && d < time.Second {
			rem = 200 * time.Microsecond
		}
		tm := time.NewTimer(rem)
		select {
		case <-c.notify:
		case <-tm.C:
		}
		tm.Stop()
	}
}

func (c *verifCapsCtx) holders() []*verifCapsTicket {
	var hs []*verifCapsTicket
	for _, tk := range c.order {
		if tk.status == verifCapsIn {
			hs = append(hs, tk)
		}
	}
	sort.Slice(hs, func(i, j int) bool { return hs[i].seq < hs[j].seq })
	return hs
}

func (c *verifCapsCtx) countIn() int { return len(c.holders()) }

// over() finished from the caller's point of view
func (c *verifCapsCtx) settled(tk *verifCapsTicket) bool {
	switch tk.status {
	case verifCapsRef:
		return true
	case verifCapsOut:
		return c.ad.Release() != "sync" || tk.doRet
	}
	return false
}

func (c *verifCapsCtx) open(tk *verifCapsTicket, how string) {
	select {
	case tk.gate <- how:
	default:
	}
}

type verifCapsOp struct {
	Op    string `json:"op"`
	Mode  string `json:"mode"`
	X     string `json:"x"`
	K     int    `json:"k"`
	How   string `json:"how"`
	W     int    `json:"w"`
	D     int    `json:"d"`     // tick: clock units
	Steal int    `json:"steal"` // exit that wakes a timed waiter: a third party takes the permit first
	Intr  int    `json:"intr"`  // acq: another acquisition arrives while a callback of this one is running
	X2    string `json:"x2"`    // ... what the abstract pool predicts for it
	Rem   *int   `json:"rem"`   // ... the abstract semaphore's deadline - now at that moment (information)
}

type verifCapsSchedule struct {
	Kind string        `json:"kind"`
	N    int           `json:"n"`
	Age  int           `json:"age"`
	T    int           `json:"t"` // > 0: schedule of SemGenTimed, timeout of a parked borrow in clock units
	Ops  []verifCapsOp `json:"ops"`
}

func (c *verifCapsCtx) grace() time.Duration {
	if verifThorough() {
		return 4 * time.Millisecond
	}
	return 1500 * time.Microsecond
}

// replay performs one TLC-generated schedule, then drain + probe.
func (c *verifCapsCtx) replay(ops []verifCapsOp, tickFn func()) {
	for _, op := range ops {
		if tickFn != nil {
			tickFn()
		}
		switch op.Op {
		case "acq":
			tk := c.newTicket(0)
			if op.X == "park" && c.clk != nil {
				// a borrow whose timeout outlasts the schedule: wait until it has read the clock (the
				// beginning of its wait), then give it the time to reach the select behind that reading
				c0, _, _ := c.clk.snapshot()
				c.run(tk, "park")
				d := 2 * time.Second
				if atomic.LoadInt32(&verifCapsClockUnread) > 0 {
					d = c.grace() // this library does not read the clock when it parks: do not wait for it again
				}
				if !c.wait(d, func() bool {
					n, _, _ := c.clk.snapshot()
					return tk.status != verifCapsNew || n > c0
				}) {
					atomic.AddInt32(&verifCapsClockUnread, 1)
				}
				c.wait(c.grace(), func() bool { return tk.status != verifCapsNew })
				continue
			}
			if op.Intr == 1 {
				c.mu.Lock()
				c.intrArmed, c.intrTk = true, nil
				c.mu.Unlock()
			}
			c.run(tk, op.Mode)
			if op.X == "blk" {
				c.wait(c.grace(), func() bool { return tk.status != verifCapsNew })
			} else {
				c.wait(2*time.Second, func() bool { return tk.status != verifCapsNew })
			}
			if op.Intr == 1 {
				c.mu.Lock()
				c.intrArmed = false
				it := c.intrTk
				c.mu.Unlock()
				if it == nil {
					// no callback ran: the second acquisition simply comes afterwards
					it = c.newTicket(0)
					c.run(it, op.Mode)
				}
				if op.X2 == "blk" {
					c.wait(c.grace(), func() bool { return it.status != verifCapsNew })
				} else {
					c.wait(2*time.Second, func() bool { return it.status != verifCapsNew })
				}
			}
		case "exit":
			c.mu.Lock()
			hs := c.holders()
			c.mu.Unlock()
			if op.K >= len(hs) {
				continue
			}
			tk := hs[op.K]
			before := len(hs)
			timed := op.Rem != nil && c.clk != nil
			p0 := 0
			if timed {
				// the release is going to wake a parked waiter: its next reading of the clock is logged
				// and (steal) held
				c.clk.arm(op.Steal == 1)
				_, p0, _ = c.clk.snapshot()
			}
			c.open(tk, op.How)
			c.wait(2*time.Second, func() bool { return c.settled(tk) })
			if timed {
				noneNew := func() bool {
					for _, x := range c.order {
						if x.status == verifCapsNew {
							return false
						}
					}
					return true
				}
				// the signal has been sent; if it found nobody (Signal is lossy) the waiter leaves by its timer
				c.wait(2*time.Second, func() bool {
					_, p, _ := c.clk.snapshot()
					return p > p0 || noneNew()
				})
				_, _, held := c.clk.snapshot()
				if held {
					// the woken waiter is between its wake-up and its second attempt: a third party takes the permit
					thief := c.newTicket(0)
					c.run(thief, "try")
					c.wait(2*time.Second, func() bool { return thief.status != verifCapsNew })
				}
				c0, _, _ := c.clk.snapshot()
				c.clk.letGo()
				if held {
					// it goes on: admitted, gives up, or parks again (one more reading, then the select)
					c.wait(2*time.Second, func() bool {
						n, _, _ := c.clk.snapshot()
						return n > c0 || noneNew()
					})
					c.wait(c.grace(), noneNew)
				}
			}
			if op.W == 1 {
				// a blocked ticket is expected to take the place (unless it has given up meanwhile)
				c.wait(2*time.Second, func() bool {
					if c.countIn() >= before {
						return true
					}
					for _, x := range c.order {
						if x.status == verifCapsNew {
							return false
						}
					}
					return true
				})
			}
		case "over":
			c.over()
		case "tick":
			if c.advance != nil {
				c.advance(op.D)
				c.Emit(verifEv{"e": "tick", "d": op.D})
			}
		}
	}
}

func (c *verifCapsCtx) over() {
	if !c.ad.Supports("over") {
		return
	}
	tk := c.newTicket(0)
	c.Emit(verifEv{"e": "relStart", "p": tk.p})
	err := c.ad.Over(c)
	c.RelEnd(tk.p, err)
	c.mu.Lock()
	tk.status = verifCapsRef
	c.mu.Unlock()
}

// drain opens every gate and waits until every attempt is over; logs `end`.
// Returns false when something is stuck (the trace ends there and will be rejected).
func (c *verifCapsCtx) drain(overAfter bool) bool {
	pendingOf := func() []int {
		var pend []int
		for _, tk := range c.order {
			if !c.settled(tk) {
				pend = append(pend, tk.p)
			}
		}
		return pend
	}
	if c.clk != nil {
		c.clk.letGo()
	}
	// tickets that get in later find their gate open already
	c.mu.Lock()
	for _, tk := range c.order {
		c.open(tk, "ret")
	}
	c.mu.Unlock()
	c.wait(verifCapsLong, func() bool { return len(pendingOf()) == 0 })
	c.mu.Lock()
	pend := pendingOf()
	c.mu.Unlock()
	if len(pend) == 0 && c.ad.Release() == "quiesce" {
		if c.ad.Quiesce(c) {
			c.logAsyncRel()
		} else {
			pend = []int{0}
		}
	}
	if len(pend) == 0 && overAfter {
		c.over()
	}
	if pend == nil {
		pend = []int{}
	}
	c.Emit(verifEv{"e": "end", "pending": pend})
	return len(pend) == 0
}

func (c *verifCapsCtx) logAsyncRel() {
	c.mu.Lock()
	var ps []int
	for _, tk := range c.order {
		if tk.status == verifCapsOut && !tk.relLog {
			ps = append(ps, tk.p)
		}
	}
	c.mu.Unlock()
	for _, p := range ps {
		c.RelEnd(p, false)
	}
}

// probe: NoLeak.  n+1 further attempts, one after the other, nothing else going on.
func (c *verifCapsCtx) probe() {
	var mine []*verifCapsTicket
	if c.ad.Supports("try") {
		for i := 0; i <= c.n; i++ {
			tk := c.newTicket(0)
			mine = append(mine, tk)
			c.run(tk, "try")
			if !c.wait(verifCapsLong, func() bool { return tk.status != verifCapsNew }) {
				break
			}
		}
	} else {
		for i := 0; i <= c.n; i++ {
			c.tickClock()
			tk := c.newTicket(0)
			mine = append(mine, tk)
			c.run(tk, "block")
			if i < c.n {
				if !c.wait(verifCapsLong, func() bool { return tk.status != verifCapsNew }) {
					break
				}
			} else {
				// the extra request must have been made before the probe is declared complete
				if !c.wait(verifCapsLong, func() bool { return tk.start }) {
					c.t.Fatalf("infrastructure: the goroutine of the extra probe request did not run within %v", verifCapsLong)
				}
				c.wait(c.grace(), func() bool { return tk.status != verifCapsNew })
			}
		}
	}
	c.Emit(verifEv{"e": "probe"})
	c.finish(mine)
}

// finish lets everybody go, ends the library call and logs the releases that are only now known.
func (c *verifCapsCtx) finish(mine []*verifCapsTicket) {
	if c.clk != nil {
		c.clk.letGo()
	}
	c.mu.Lock()
	for _, tk := range c.order {
		c.open(tk, "ret")
	}
	c.mu.Unlock()
	c.wait(verifCapsLong, func() bool {
		for _, tk := range c.order {
			if !c.settled(tk) {
				return false
			}
		}
		return true
	})
	switch c.ad.Release() {
	case "quiesce":
		if c.ad.Quiesce(c) {
			c.logAsyncRel()
		}
	case "close":
		if c.ad.Close(c) {
			c.logAsyncRel()
		}
	}
}

// ---------------------------------------------------------------- test bodies

// verifCapsReplayAll replays every schedule of $VERIF_IN with the adapters of this package.
func verifCapsReplayAll(t *testing.T, mk func(c *verifCapsCtx, kind string, n int, age int) (verifCapsAdapter, func(), func())) {
	em := verifOpen(t)
	defer em.Close()
	var expired int32
	for _, raw := range verifInput(t) {
		var s verifCapsSchedule
		if err := json.Unmarshal(raw, &s); err != nil {
			t.Fatal(err)
		}
		c := verifCapsNewCtx(t, em, s.N, &expired)
		ad, tickFn, cleanup := mk(c, s.Kind, s.N, s.Age)
		if ad == nil {
			t.Fatalf("unknown kind %q", s.Kind)
		}
		c.ad = ad
		if s.T > 0 {
			// the schedule moves the clock itself (tick steps)
			tickFn = nil
			if c.clk != nil {
				c.clk.freeze(s.T)
			}
		}
		c.tickFn = tickFn
		em.Emit(verifEv{"e": "reset", "kind": ad.Kind(), "n": s.N})
		c.replay(s.Ops, tickFn)
		over := false
		for _, op := range s.Ops {
			over = over || op.Op == "over"
		}
		if c.drain(over) {
			c.probe()
		}
		if cleanup != nil {
			cleanup()
		}
	}
}

// verifCapsStressAll: free-running goroutines, no steering; then drain + probe.
func verifCapsStressAll(t *testing.T, kinds []string, mk func(c *verifCapsCtx, kind string, n int, age int) (verifCapsAdapter, func(), func())) {
	em := verifOpen(t)
	defer em.Close()
	var expired int32
	runs := verifEnvInt("VERIF_CAPS_RUNS", 6)
	rnd := verifRand(505)
	for _, kind := range kinds {
		for r := 0; r < runs; r++ {
			n := 1 + rnd.Intn(4)
			g := []int{2, 4, 8, 16, 32, 64}[rnd.Intn(6)]
			if g <= n {
				g = n + 1 + rnd.Intn(3)
			}
			iters := 1 + rnd.Intn(6)
			age := 0
			if rnd.Intn(2) == 0 {
				age = 1 + rnd.Intn(3)
			}
			c := verifCapsNewCtx(t, em, n, &expired)
			ad, tickFn, cleanup := mk(c, kind, n, age)
			c.ad = ad
			c.tickFn = tickFn
			c.stress = true
			em.Emit(verifEv{"e": "reset", "kind": ad.Kind(), "n": n})
			var modes []string
			for _, m := range []string{"try", "block", "timeout"} {
				if ad.Supports(m) {
					modes = append(modes, m)
				}
			}
			type job struct {
				tk   *verifCapsTicket
				mode string
				pre  int
			}
			plans := make([][]job, g)
			for i := range plans {
				for j := 0; j < iters; j++ {
					tk := c.newTicket(rnd.Intn(4))
					how := "ret"
					if ad.Supports("panic") && rnd.Intn(6) == 0 {
						how = "panic"
					}
					tk.gate <- how
					plans[i] = append(plans[i], job{tk, modes[rnd.Intn(len(modes))], rnd.Intn(3)})
				}
			}
			var wg sync.WaitGroup
			stopTick := make(chan struct{})
			if tickFn == nil && c.clk != nil {
				tickFn = c.clk.Jitter
			}
			if tickFn != nil {
				go func() {
					for {
						select {
						case <-stopTick:
							return
						default:
							tickFn()
							runtime.Gosched()
						}
					}
				}()
			}
			for i := range plans {
				wg.Add(1)
				go func(js []job) {
					defer wg.Done()
					for _, j := range js {
						for k := 0; k < j.pre; k++ {
							runtime.Gosched()
						}
						func() {
							defer func() {
								recover()
								c.mu.Lock()
								j.tk.doRet = true
								c.mu.Unlock()
								c.poke()
							}()
							ad.Do(c, j.tk.p, j.mode)
						}()
					}
				}(plans[i])
			}
			done := make(chan struct{})
			go func() { wg.Wait(); close(done) }()
			select {
			case <-done:
			case <-time.After(verifCapsLong):
				atomic.AddInt32(&expired, 1)
			}
			close(stopTick)
			if c.drain(rnd.Intn(2) == 0) {
				c.probe()
			}
			if cleanup != nil {
				cleanup()
			}
		}
	}
}
