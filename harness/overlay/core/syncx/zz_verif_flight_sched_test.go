//go:build verif

package syncx

// C07: schedule machinery shared by the flight drivers (this file is also compiled into
// core/collection and core/stores/cache by props/c07.py with the package clause rewritten).
//
// The function handed to the library is a gate owned by the driver: it logs fnStart, parks on
// a channel until the schedule releases it with an outcome, logs fnEnd / fnPanic and returns.
// Between two moves of a schedule the driver waits until the experiment is at rest, decided
// from ONE atomic goroutine snapshot (runtime.Stack(all) stops the world): every live call
// goroutine is parked in its gate or inside a sync primitive.  No sleeps, no time limits in
// any verdict.  The drivers contain no expectations: TLC validates the recorded events
// against specs/flight/Flight.tla.

import (
	"bytes"
	"io"
	"runtime"
	"strconv"
	"strings"
	"sync"
	"sync/atomic"
	"testing"
	"time"
)

type verifFlightErr struct{ code int }

func (e verifFlightErr) Error() string { return "verif error " + strconv.Itoa(e.code) }

type verifFlightPanic struct{ c int }

type verifFlightRes struct{ id int }

func (r *verifFlightRes) Close() error { return nil }

func verifFlightVal(v any) int {
	switch x := v.(type) {
	case nil:
		return 0
	case int:
		return x
	case *verifFlightRes:
		if x == nil {
			return 0
		}
		return x.id
	case io.Closer:
		if r, ok := x.(*verifFlightRes); ok && r != nil {
			return r.id
		}
		return -3
	}
	return -3
}

func verifFlightErrCode(err error) int {
	if err == nil {
		return 0
	}
	if e, ok := err.(verifFlightErr); ok {
		return e.code
	}
	return -2
}

// ---- goroutine snapshot ---------------------------------------------------------------

func verifFlightGid() int64 {
	var b [64]byte
	n := runtime.Stack(b[:], false)
	f := bytes.Fields(b[:n])
	id, _ := strconv.ParseInt(string(f[1]), 10, 64)
	return id
}

type verifFlightG struct {
	status string
	wgWait bool // parked in sync.(*WaitGroup).Wait
	inSync bool // the innermost frame outside the Go runtime / package sync is a non-driver file of core/syncx
}

// libWait: blocked inside the synchronisation object under test, by whatever primitive it uses to make a
// caller wait (a WaitGroup today; a channel, a mutex or a condition variable after a harmless refactoring).
func (g verifFlightG) libWait() bool {
	if !g.inSync {
		return false
	}
	switch g.status {
	case "chan receive", "select", "chan send", "sync.Mutex.Lock", "sync.RWMutex.RLock", "sync.RWMutex.Lock", "sync.Cond.Wait":
		return true
	case "semacquire":
		return g.wgWait
	}
	return false
}

// verifFlightInnermost: does the innermost frame that is neither runtime nor package sync lie in a library
// file of core/syncx (as opposed to a driver file zz_verif_*)?
func verifFlightInnermost(stack []byte) bool {
	for _, ln := range bytes.Split(stack, []byte("\n")) {
		if len(ln) == 0 || ln[0] != '\t' {
			continue
		}
		if bytes.Contains(ln, []byte("/src/runtime/")) || bytes.Contains(ln, []byte("/src/sync/")) ||
			bytes.Contains(ln, []byte("/src/internal/")) {
			continue
		}
		return bytes.Contains(ln, []byte("/core/syncx/")) && !bytes.Contains(ln, []byte("zz_verif_"))
	}
	return false
}

// parked: blocked in a primitive of package sync (not in a runtime-internal semaphore such
// as the one a goroutine takes when its allocation starts a GC cycle, which also shows as
// "semacquire" but with the runtime frames elided).
func (g verifFlightG) parked() bool {
	switch g.status {
	case "semacquire":
		return g.wgWait
	case "sync.Mutex.Lock", "sync.RWMutex.RLock", "sync.RWMutex.Lock", "sync.Cond.Wait":
		return true
	}
	return false
}

var verifFlightBuf = make([]byte, 1<<20)

func verifFlightSnapshot() map[int64]verifFlightG {
	for {
		n := runtime.Stack(verifFlightBuf, true)
		if n < len(verifFlightBuf) {
			out := map[int64]verifFlightG{}
			for _, blk := range bytes.Split(verifFlightBuf[:n], []byte("\n\n")) {
				if !bytes.HasPrefix(blk, []byte("goroutine ")) {
					continue
				}
				nl := bytes.IndexByte(blk, '\n')
				if nl < 0 {
					nl = len(blk)
				}
				hd := blk[:nl]
				sp := bytes.IndexByte(hd[10:], ' ')
				lb, rb := bytes.IndexByte(hd, '['), bytes.LastIndexByte(hd, ']')
				if sp < 0 || lb < 0 || rb < lb {
					continue
				}
				id, _ := strconv.ParseInt(string(hd[10:10+sp]), 10, 64)
				st := string(hd[lb+1 : rb])
				if c := bytes.IndexByte([]byte(st), ','); c >= 0 {
					st = st[:c]
				}
				top := blk[nl:]
				out[id] = verifFlightG{status: st, wgWait: bytes.HasPrefix(top, []byte("\nsync.runtime_Semacquire(")) &&
					bytes.Contains(top, []byte("\nsync.(*WaitGroup).Wait(")), inSync: verifFlightInnermost(top)}
			}
			return out
		}
		verifFlightBuf = make([]byte, 2*len(verifFlightBuf))
	}
}

// ---- gated schedules -------------------------------------------------------------------

type verifFlightCall struct {
	id, key int
	obj     int // the object (group / manager / cache) the call is made on, 1-based
	gid     atomic.Int64
	inGate  atomic.Bool
	inHook  atomic.Bool  // parked by the driver at a verifhook point inside the library
	stop    atomic.Value // suffix of the hook point at which this call shall be parked next ("" = none)
	hookc   chan struct{}
	done    atomic.Bool
	gate    chan string
}

type verifFlightOp struct {
	Op string `json:"op"`
	K  int    `json:"k"`
	O  string `json:"o"`
	Ob int    `json:"ob"` // the object the move is made on (0 / absent = 1)
	S  string `json:"s"`  // rel: park the leader afterwards at hook "del" (before delete) / "done" (before wg.Done)
}

// verifFlightSched runs one schedule against one fresh object.
type verifFlightSched struct {
	t      testing.TB
	em     *verifEmitter
	strict bool // every call goroutine only ever blocks in the gate or in sync primitives of the object
	mu     sync.Mutex
	calls  []*verifFlightCall
	// invoke performs the library call for c with the gated fn and reports (value, error code, fresh)
	invoke func(c *verifFlightCall, fn func() (any, error)) (int, int, int)
}

func (s *verifFlightSched) fn(c *verifFlightCall) func() (any, error) {
	return func() (any, error) {
		s.em.Emit(verifEv{"e": "fnStart", "c": c.id})
		c.inGate.Store(true)
		o := <-c.gate
		c.inGate.Store(false)
		switch o {
		case "ok":
			s.em.Emit(verifEv{"e": "fnEnd", "c": c.id, "v": c.id, "err": 0})
			return c.id, nil
		case "err":
			s.em.Emit(verifEv{"e": "fnEnd", "c": c.id, "v": 0, "err": c.id})
			return nil, verifFlightErr{c.id}
		default:
			s.em.Emit(verifEv{"e": "fnPanic", "c": c.id})
			panic(verifFlightPanic{c.id})
		}
	}
}

func (s *verifFlightSched) start(key int) { s.startOn(1, key) }

// startOn starts one more caller of key on object ob
func (s *verifFlightSched) startOn(ob, key int) {
	if ob < 1 {
		ob = 1
	}
	c := &verifFlightCall{id: len(s.calls) + 1, key: key, obj: ob, gate: make(chan string, 1), hookc: make(chan struct{}, 1)}
	s.mu.Lock()
	s.calls = append(s.calls, c)
	s.mu.Unlock()
	go func() {
		c.gid.Store(verifFlightGid())
		defer c.done.Store(true)
		defer func() {
			if r := recover(); r != nil {
				s.em.Emit(verifEv{"e": "callPanic", "c": c.id})
			}
		}()
		s.em.Emit(verifEv{"e": "callStart", "c": c.id, "o": c.obj, "k": c.key})
		v, e, fresh := s.invoke(c, s.fn(c))
		s.em.Emit(verifEv{"e": "callEnd", "c": c.id, "v": v, "err": e, "fresh": fresh})
	}()
}

// hook is installed with verifhook.Set while a schedule with hook stops runs (only effective if
// /repo carries the optional flight hook points, see /verif/proposed/C07-hook.diff): the leader
// that was told to stop at this point parks here until the schedule continues it.
func (s *verifFlightSched) hook(point string, args ...any) {
	gid := verifFlightGid()
	s.mu.Lock()
	var me *verifFlightCall
	for _, c := range s.calls {
		if c.gid.Load() == gid {
			me = c
		}
	}
	s.mu.Unlock()
	if me == nil {
		return
	}
	if stop, _ := me.stop.Load().(string); stop != "" && strings.HasSuffix(point, stop) {
		me.stop.Store("")
		me.inHook.Store(true)
		<-me.hookc
		me.inHook.Store(false)
	}
}

// settle returns once, in a single atomic snapshot, every live call goroutine is parked: in its
// gate (returned as gated), at a hook stop (hooked) or inside the library (parked).
func (s *verifFlightSched) settle() (gated, parked, hooked []*verifFlightCall) {
	deadline := time.Now().Add(60 * time.Second)
	for spin := 0; ; spin++ {
		var live []*verifFlightCall
		ok := true
		for _, c := range s.calls {
			if c.done.Load() {
				continue
			}
			if c.gid.Load() == 0 {
				ok = false
				break
			}
			live = append(live, c)
		}
		if ok {
			snap := verifFlightSnapshot()
			gated, parked, hooked = gated[:0], parked[:0], hooked[:0]
			for _, c := range live {
				g, found := snap[c.gid.Load()]
				switch {
				case !found: // exited after we looked at done: not at rest yet
					ok = false
				case g.status == "chan receive" && c.inGate.Load():
					gated = append(gated, c)
				case g.status == "chan receive" && c.inHook.Load():
					hooked = append(hooked, c)
				case g.status == "semacquire" && g.wgWait:
					parked = append(parked, c)
				case g.libWait() && !c.inGate.Load() && !c.inHook.Load():
					parked = append(parked, c)
				case s.strict && g.parked():
					parked = append(parked, c)
				default:
					ok = false
				}
				if !ok {
					break
				}
			}
			if ok {
				return gated, parked, hooked
			}
		}
		if time.Now().After(deadline) {
			s.t.Fatalf("verif flight: experiment did not come to rest (infrastructure)")
		}
		if spin < 200 {
			runtime.Gosched()
		} else {
			time.Sleep(20 * time.Microsecond) // polling back-off only; the decision is the snapshot
		}
	}
}

// rest waits for rest and records which calls are parked inside the library.
func (s *verifFlightSched) rest() (gated, hooked []*verifFlightCall) {
	gated, parked, hooked := s.settle()
	if s.strict {
		for _, c := range parked {
			s.em.Emit(verifEv{"e": "blocked", "c": c.id})
		}
	}
	return gated, hooked
}

func (s *verifFlightSched) release(key int, outcome, stop string) { s.releaseOn(1, key, outcome, stop) }

func (s *verifFlightSched) releaseOn(ob, key int, outcome, stop string) {
	if ob < 1 {
		ob = 1
	}
	gated, _, _ := s.settle()
	for _, c := range gated {
		if c.key == key && c.obj == ob {
			switch stop {
			case "del":
				c.stop.Store(".beforeDelete")
			case "done":
				c.stop.Store(".beforeDone")
			}
			c.gate <- outcome
			return
		}
	}
}

// cont lets the leader parked at a hook stop on this key run on
func (s *verifFlightSched) cont(key int) { s.contOn(1, key) }

func (s *verifFlightSched) contOn(ob, key int) {
	if ob < 1 {
		ob = 1
	}
	_, _, hooked := s.settle()
	for _, c := range hooked {
		if c.key == key && c.obj == ob {
			c.hookc <- struct{}{}
			return
		}
	}
}

// drain lets everything that is still gated finish successfully, until nothing moves any more.
func (s *verifFlightSched) drain() {
	for {
		gated, hooked := s.rest()
		if len(gated)+len(hooked) == 0 {
			return
		}
		for _, c := range gated {
			c.gate <- "ok"
		}
		for _, c := range hooked {
			c.hookc <- struct{}{}
		}
	}
}

func verifFlightKey(h, k int) string { return "h" + strconv.Itoa(h) + "-k" + strconv.Itoa(k) }

type verifFlightWorker struct {
	gid, cur atomic.Int64
	done     atomic.Bool
}

// verifFlightJoin waits until every worker finished.  If one atomic snapshot shows every
// remaining worker parked in a sync primitive, nothing can ever move again (there are no
// gates in the stress driver): the parked calls are recorded as blocked and the round ends.
func verifFlightJoin(t testing.TB, em *verifEmitter, ws []*verifFlightWorker) {
	deadline := time.Now().Add(120 * time.Second)
	for spin := 0; ; spin++ {
		var live []*verifFlightWorker
		ready := true
		for _, w := range ws {
			if w.done.Load() {
				continue
			}
			if w.gid.Load() == 0 {
				ready = false
			}
			live = append(live, w)
		}
		if len(live) == 0 {
			return
		}
		if ready && spin%8 == 7 {
			snap := verifFlightSnapshot()
			stuck := true
			for _, w := range live {
				g, found := snap[w.gid.Load()]
				if !found || !g.parked() {
					stuck = false
					break
				}
			}
			if stuck {
				for _, w := range live {
					em.Emit(verifEv{"e": "blocked", "c": int(w.cur.Load())})
				}
				return
			}
		}
		if time.Now().After(deadline) {
			t.Fatalf("verif flight: stress round did not finish (infrastructure)")
		}
		time.Sleep(100 * time.Microsecond) // polling interval only
	}
}
