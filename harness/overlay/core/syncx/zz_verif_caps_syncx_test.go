//go:build verif

package syncx

// C05 adapters for syncx.Limit, syncx.TimeoutLimit and syncx.Pool (drive and record only;
// the verdict comes from TLC validating the trace against specs/caps/Semaphore.tla).

import (
	"sync/atomic"
	"testing"
	"time"

	"github.com/zeromicro/go-zero/core/timex"
)

// ---- Limit: the user's pattern is  Borrow/TryBorrow ; defer Return ; region
type verifCapsLimit struct{ l Limit }

func (a *verifCapsLimit) Kind() string { return "limit" }
func (a *verifCapsLimit) Supports(w string) bool {
	return w == "try" || w == "block" || w == "over" || w == "panic"
}
func (a *verifCapsLimit) Release() string              { return "sync" }
func (a *verifCapsLimit) Quiesce(c *verifCapsCtx) bool { return true }
func (a *verifCapsLimit) Close(c *verifCapsCtx) bool   { return true }
func (a *verifCapsLimit) Over(c *verifCapsCtx) bool    { return a.l.Return() != nil }
func (a *verifCapsLimit) Do(c *verifCapsCtx, p int, mode string) {
	c.AcqStart(p, mode)
	if mode == "try" {
		if !a.l.TryBorrow() {
			c.Refused(p, 0)
			return
		}
	} else {
		a.l.Borrow()
	}
	defer func() {
		recover()
		err := a.l.Return()
		c.RelEnd(p, err != nil)
	}()
	c.Region(p, 0)
}

// ---- TimeoutLimit: "block" is a borrow with a timeout that normally outlasts the steps it has to
// wait for, "timeout" one that expires almost at once; both are logged as mode "timeout", and either
// may end in ErrTimeout.  (The long one must stay finite: Cond.Signal is lossy, so a waiter whose
// wake-up was lost stays parked although a permit is free and leaves only by its timer -- which
// the property does not forbid, see TimeoutLimitImpl.tla.)
// "park" (schedules of SemGenTimed) is the long borrow again; what differs is the clock: the
// remaining time a woken waiter computes comes from timex.Now/Since, i.e. from the engine's
// verifCapsClock (hook H1), so "woken in time / exactly at / after the deadline" is the
// schedule's choice and not the machine's.  The timer that ends the wait is a real one.
const verifCapsParkTimeout = 250 * time.Millisecond

type verifCapsTLimit struct{ l TimeoutLimit }

func (a *verifCapsTLimit) Kind() string { return "tlimit" }
func (a *verifCapsTLimit) Supports(w string) bool {
	return w == "try" || w == "block" || w == "timeout" || w == "over" || w == "panic"
}
func (a *verifCapsTLimit) Release() string              { return "sync" }
func (a *verifCapsTLimit) Quiesce(c *verifCapsCtx) bool { return true }
func (a *verifCapsTLimit) Close(c *verifCapsCtx) bool   { return true }
func (a *verifCapsTLimit) Over(c *verifCapsCtx) bool    { return a.l.Return() != nil }
func (a *verifCapsTLimit) Do(c *verifCapsCtx, p int, mode string) {
	switch mode {
	case "try":
		c.AcqStart(p, "try")
		if !a.l.TryBorrow() {
			c.Refused(p, 0)
			return
		}
	case "block", "park":
		c.AcqStart(p, "timeout")
		if err := a.l.Borrow(verifCapsParkTimeout); err != nil {
			c.Refused(p, 0)
			return
		}
	default:
		c.AcqStart(p, "timeout")
		if err := a.l.Borrow(time.Duration(100+p%7*150) * time.Microsecond); err != nil {
			c.Refused(p, 0)
			return
		}
	}
	defer func() {
		recover()
		err := a.l.Return()
		c.RelEnd(p, err != nil)
	}()
	c.Region(p, 0)
}

// ---- Pool: resources are numbered by the create callback; maxAge runs on the virtual clock
type verifCapsPool struct {
	pl *Pool
}

func (a *verifCapsPool) Kind() string                 { return "pool" }
func (a *verifCapsPool) Supports(w string) bool       { return w == "block" || w == "panic" }
func (a *verifCapsPool) Release() string              { return "sync" }
func (a *verifCapsPool) Quiesce(c *verifCapsCtx) bool { return true }
func (a *verifCapsPool) Close(c *verifCapsCtx) bool   { return true }
func (a *verifCapsPool) Over(c *verifCapsCtx) bool    { return false }
func (a *verifCapsPool) Do(c *verifCapsCtx, p int, mode string) {
	c.AcqStart(p, "block")
	x := a.pl.Get()
	defer func() {
		recover()
		a.pl.Put(x)
		c.RelEnd(p, false)
	}()
	c.Region(p, x.(int))
}

func verifCapsMake(c *verifCapsCtx, kind string, n int, age int) (verifCapsAdapter, func(), func()) {
	switch kind {
	case "limit":
		return &verifCapsLimit{l: NewLimit(n)}, nil, nil
	case "tlimit":
		c.clk = verifCapsNewClock(c, verifCapsParkTimeout)
		timex.VerifNow = c.clk.Now
		c.advance = func(d int) { c.clk.advance(time.Duration(d) * c.clk.unit) }
		return &verifCapsTLimit{l: NewTimeoutLimit(n)}, nil, func() { timex.VerifNow = nil }
	case "pool":
		var clock, nextRes, ticks int64
		timex.VerifNow = func() time.Duration { return time.Duration(atomic.LoadInt64(&clock)) * time.Second }
		var opts []PoolOption
		if age > 0 {
			opts = append(opts, WithMaxAge(time.Duration(age)*time.Second))
		}
		pl := NewPool(n, func() any {
			r := int(atomic.AddInt64(&nextRes, 1))
			c.Emit(verifEv{"e": "create", "r": r})
			c.Callback()
			return r
		}, func(x any) {
			c.Emit(verifEv{"e": "destroy", "r": x.(int)})
			c.Callback()
		}, opts...)
		c.advance = func(d int) { atomic.AddInt64(&clock, int64(d)) }
		var tick func()
		if age > 0 {
			// the clock moves between steps: 0..2 units, so that idle resources sit before, on and
			// after their expiry
			tick = func() {
				k := atomic.AddInt64(&ticks, 1)
				if k < 4000 {
					atomic.AddInt64(&clock, (k*7+int64(c.n))%3)
				}
			}
		}
		return &verifCapsPool{pl: pl}, tick, func() { timex.VerifNow = nil }
	}
	return nil, nil, nil
}

func TestVerifCapsReplay(t *testing.T) { verifCapsReplayAll(t, verifCapsMake) }

func TestVerifCapsStress(t *testing.T) {
	verifCapsStressAll(t, []string{"limit", "tlimit", "pool"}, verifCapsMake)
}

// Pool over-return (only driven when known finding KF_PoolDoublePut is registered, see props/c05.py):
// Get, Put, and the same resource Put once more.  Put has no error result, so the second Put is
// logged as a release that reported no error.
func TestVerifCapsPoolDoublePut(t *testing.T) {
	em := verifOpen(t)
	defer em.Close()
	for n := 1; n <= 1; n++ {
		var nextRes int64
		pl := NewPool(n, func() any {
			r := int(atomic.AddInt64(&nextRes, 1))
			em.Emit(verifEv{"e": "create", "r": r})
			return r
		}, func(x any) { em.Emit(verifEv{"e": "destroy", "r": x.(int)}) })
		em.Emit(verifEv{"e": "reset", "kind": "pool", "n": n})
		em.Emit(verifEv{"e": "acqStart", "p": 1, "mode": "block"})
		x := pl.Get()
		em.Emit(verifEv{"e": "acqEnd", "p": 1, "ok": true, "r": x.(int), "code": 0})
		em.Emit(verifEv{"e": "enter", "p": 1})
		em.Emit(verifEv{"e": "exit", "p": 1, "how": "ret"})
		em.Emit(verifEv{"e": "relStart", "p": 1})
		pl.Put(x)
		em.Emit(verifEv{"e": "relEnd", "p": 1, "err": false})
		em.Emit(verifEv{"e": "relStart", "p": 2})
		pl.Put(x)
		em.Emit(verifEv{"e": "relEnd", "p": 2, "err": false})
	}
}
