//go:build verif

package threading

// Extension "stablerunner" (host C05), package core/threading: drivers for StableRunner
// (specs/threadx/StableRunner.tla) and RoutineGroup / WorkerGroup / GoSafe / RunSafe
// (specs/threadx/Group.tla).  They drive and record only; every verdict comes from TLC validating
// the recorded trace.  Handlers / spawned functions are harness callbacks that log their first and
// last statement and, in replay mode, park on a gate the driver owns.

import (
	"encoding/json"
	"runtime"
	"strconv"
	"sync"
	"sync/atomic"
	"testing"
	"time"

	"github.com/zeromicro/go-zero/core/logx"
)

const verifExtstablerunnerLong = 30 * time.Second

// verifExtstablerunnerLog: emitter + counters of what has been observed, so that the driver can wait
// (under a watchdog) for the events a command is expected to cause.
type verifExtstablerunnerLog struct {
	em      *verifEmitter
	mu      sync.Mutex
	seen    map[string]int
	expired *int32
}

func (w *verifExtstablerunnerLog) emit(key string, ev verifEv) {
	w.em.Emit(ev)
	w.mu.Lock()
	w.seen[key]++
	w.mu.Unlock()
}

func (w *verifExtstablerunnerLog) count(key string) int {
	w.mu.Lock()
	defer w.mu.Unlock()
	return w.seen[key]
}

// await waits until `key` has been observed cnt times.  A watchdog that fires is reported in the
// trace ("stuck": no spec action); later watchdogs in the same process are short.
func (w *verifExtstablerunnerLog) await(key string, cnt int) bool {
	d := verifExtstablerunnerLong
	if atomic.LoadInt32(w.expired) > 0 {
		d = 500 * time.Millisecond
	}
	deadline := time.Now().Add(d)
	for i := 0; ; i++ {
		if w.count(key) >= cnt {
			return true
		}
		if time.Now().After(deadline) {
			atomic.AddInt32(w.expired, 1)
			w.em.Emit(verifEv{"e": "stuck", "what": key, "want": cnt, "have": w.count(key)})
			return false
		}
		if i < 50 {
			runtime.Gosched()
		} else {
			time.Sleep(50 * time.Microsecond)
		}
	}
}

func verifExtstablerunnerKey(k string, v int) string { return k + ":" + strconv.Itoa(v) }

type verifExtstablerunnerEnt struct {
	Cmd string `json:"cmd"`
	Ev  string `json:"ev"`
	V   int    `json:"v"`
	I   int    `json:"i"`
	W   int    `json:"w"`
	J   int    `json:"j"`
	N   int    `json:"n"`
	How string `json:"how"`
	Out string `json:"out"`
}

type verifExtstablerunnerBeh struct {
	Kind string                     `json:"kind"`
	N    int                        `json:"n"`
	C    int                        `json:"c"`
	Ops  []verifExtstablerunnerEnt `json:"ops"`
}

// ---------------------------------------------------------------------------------- StableRunner

type verifExtstablerunnerSR struct {
	lg      *verifExtstablerunnerLog
	r       *StableRunner[int, int]
	mu      sync.Mutex
	gates   map[int]chan struct{}
	gated   bool
	openAll bool
	spin    map[int]int
	salt    int
	pch     chan verifExtstablerunnerEnt
	gch     chan int // 1 = one Get, 2 = Gets until an error comes back
	done    sync.WaitGroup
}

func (s *verifExtstablerunnerSR) gate(v int) chan struct{} {
	s.mu.Lock()
	defer s.mu.Unlock()
	g, ok := s.gates[v]
	if !ok {
		g = make(chan struct{})
		if s.openAll {
			close(g)
		}
		s.gates[v] = g
	}
	return g
}

func (s *verifExtstablerunnerSR) release(v int) {
	g := s.gate(v)
	s.mu.Lock()
	select {
	case <-g:
	default:
		close(g)
	}
	s.mu.Unlock()
}

func (s *verifExtstablerunnerSR) releaseAll() {
	s.mu.Lock()
	s.openAll = true
	for _, g := range s.gates {
		select {
		case <-g:
		default:
			close(g)
		}
	}
	s.mu.Unlock()
}

func (s *verifExtstablerunnerSR) handle(v int) int {
	s.lg.emit(verifExtstablerunnerKey("hStart", v), verifEv{"e": "hStart", "v": v})
	if s.gated {
		<-s.gate(v)
	} else {
		for i := s.spin[v]; i > 0; i-- {
			if i%7 == 3 {
				time.Sleep(time.Microsecond)
			} else {
				runtime.Gosched()
			}
		}
	}
	o := (v*7919 + s.salt) % 100003
	s.lg.emit(verifExtstablerunnerKey("hEnd", v), verifEv{"e": "hEnd", "v": v, "o": o})
	return o
}

func verifExtstablerunnerCode(err error) int {
	switch err {
	case nil:
		return 0
	case ErrRunnerClosed:
		return 1
	}
	return 2
}

func (s *verifExtstablerunnerSR) producer() {
	defer s.done.Done()
	for c := range s.pch {
		switch c.Cmd {
		case "push":
			s.lg.emit(verifExtstablerunnerKey("pushStart", c.V), verifEv{"e": "pushStart", "v": c.V})
			err := s.r.Push(c.V)
			s.lg.emit(verifExtstablerunnerKey("pushEnd", c.V), verifEv{"e": "pushEnd", "v": c.V, "code": verifExtstablerunnerCode(err)})
		case "wait":
			s.lg.emit("waitStart", verifEv{"e": "waitStart"})
			s.r.Wait()
			s.lg.emit("waitEnd", verifEv{"e": "waitEnd"})
		case "yield":
			for i := 0; i < c.V; i++ {
				runtime.Gosched()
			}
		}
	}
}

func (s *verifExtstablerunnerSR) consumer(pause func(k int)) {
	defer s.done.Done()
	k := 0
	for mode := range s.gch {
		for i := 0; i < 100000; i++ {
			if pause != nil {
				pause(k)
			}
			k++
			s.lg.emit("getStart", verifEv{"e": "getStart"})
			o, err := s.r.Get()
			code := verifExtstablerunnerCode(err)
			s.lg.emit("getEnd", verifEv{"e": "getEnd", "o": o, "code": code})
			if mode == 1 || code != 0 {
				break
			}
		}
	}
}

func verifExtstablerunnerNewSR(lg *verifExtstablerunnerLog, n, c int, gated bool, salt int) *verifExtstablerunnerSR {
	s := &verifExtstablerunnerSR{lg: lg, gates: map[int]chan struct{}{}, gated: gated, spin: map[int]int{}, salt: salt,
		pch: make(chan verifExtstablerunnerEnt, 4096), gch: make(chan int, 4096)}
	if n > 0 {
		bufSize = n // package variable read by every Push / Get: stays until the next runner is made
		s.r = NewStableRunner(s.handle)
		s.r.runner = NewTaskRunner(c)
	} else {
		s.r = NewStableRunner(s.handle)
	}
	return s
}

// finish: open every gate, Wait (unless the history already did), Gets until the runner says closed,
// one Push after Wait, and join both goroutines under the watchdog.
func (s *verifExtstablerunnerSR) finish(waited bool, extra int) {
	s.releaseAll()
	if !waited {
		s.pch <- verifExtstablerunnerEnt{Cmd: "wait"}
	}
	s.pch <- verifExtstablerunnerEnt{Cmd: "push", V: extra}
	s.gch <- 2
	close(s.pch)
	close(s.gch)
	fin := make(chan struct{})
	go func() { s.done.Wait(); close(fin) }()
	d := verifExtstablerunnerLong
	if atomic.LoadInt32(s.lg.expired) > 0 {
		d = 500 * time.Millisecond
	}
	select {
	case <-fin:
	case <-time.After(d):
		atomic.AddInt32(s.lg.expired, 1)
		s.lg.em.Emit(verifEv{"e": "stuck", "what": "finish", "want": 0, "have": 0})
	}
}

func verifExtstablerunnerSRReplay(em *verifEmitter, b verifExtstablerunnerBeh, expired *int32) {
	lg := &verifExtstablerunnerLog{em: em, seen: map[string]int{}, expired: expired}
	s := verifExtstablerunnerNewSR(lg, b.N, b.C, true, 17)
	em.Emit(verifEv{"e": "reset", "m": "sr", "n": b.N, "c": b.C})
	s.done.Add(2)
	go s.producer()
	go s.consumer(nil)
	waited := false
	gets := 0
	ok := true
	for _, e := range b.Ops {
		if !ok {
			break
		}
		switch {
		case e.Cmd == "push":
			s.pch <- e
		case e.Cmd == "wait":
			waited = true
			s.pch <- e
		case e.Cmd == "get":
			s.gch <- 1
		case e.Cmd == "rel":
			s.release(e.V)
		case e.Ev == "getEnd":
			gets++
			ok = lg.await("getEnd", gets)
		case e.Ev == "waitEnd":
			ok = lg.await("waitEnd", 1)
		case e.Ev != "":
			ok = lg.await(verifExtstablerunnerKey(e.Ev, e.V), 1)
		}
	}
	s.finish(waited, 1000)
}

// TestVerifExtstablerunnerReplay replays TLC-generated histories (StableRunnerImpl and GroupImpl in
// run-to-completion mode: commands + the observable events each is expected to cause).
func TestVerifExtstablerunnerReplay(t *testing.T) {
	logx.Disable()
	em := verifOpen(t)
	defer em.Close()
	old := bufSize
	defer func() { bufSize = old }()
	var expired int32
	for _, raw := range verifInput(t) {
		var b verifExtstablerunnerBeh
		if err := json.Unmarshal(raw, &b); err != nil {
			t.Fatal(err)
		}
		switch b.Kind {
		case "sr":
			verifExtstablerunnerSRReplay(em, b, &expired)
		case "grp":
			verifExtstablerunnerGroupReplay(em, b, &expired)
		}
	}
}

// TestVerifExtstablerunnerStress: free-running producer / consumer / handlers (seeded perturbation, no
// gates) on small rings and on the default-sized runner.
func TestVerifExtstablerunnerStress(t *testing.T) {
	logx.Disable()
	em := verifOpen(t)
	defer em.Close()
	old := bufSize
	defer func() { bufSize = old }()
	var expired int32
	rnd := verifRand(5051)
	runs := verifEnvInt("VERIF_EXT_SR_RUNS", 40)
	for run := 0; run < runs; run++ {
		n, c := 1+rnd.Intn(4), 1+rnd.Intn(4)
		m := 10 + rnd.Intn(60)
		if run%8 == 7 { // the runner as NewStableRunner makes it
			n, c = 0, 0
			m = 3*old + rnd.Intn(old)
		}
		lg := &verifExtstablerunnerLog{em: em, seen: map[string]int{}, expired: &expired}
		s := verifExtstablerunnerNewSR(lg, n, c, false, rnd.Intn(1000))
		if n == 0 {
			em.Emit(verifEv{"e": "reset", "m": "sr", "n": old, "c": runtime.NumCPU()})
		} else {
			em.Emit(verifEv{"e": "reset", "m": "sr", "n": n, "c": c})
		}
		style := rnd.Intn(4) // 0 even, 1 slow consumer (ring fills up), 2 slow early handlers, 3 bursts
		for v := 1; v <= m; v++ {
			switch style {
			case 2:
				if v%5 == 1 {
					s.spin[v] = 20 + rnd.Intn(60)
				}
			default:
				s.spin[v] = rnd.Intn(12)
			}
		}
		lag := make([]int, 64)
		for i := range lag {
			if style == 1 || (style == 3 && i%16 < 3) {
				lag[i] = rnd.Intn(40)
			} else if rnd.Intn(4) == 0 {
				lag[i] = rnd.Intn(6)
			}
		}
		s.done.Add(2)
		go s.producer()
		go s.consumer(func(k int) {
			for i := lag[k%len(lag)]; i > 0; i-- {
				runtime.Gosched()
			}
		})
		late := rnd.Intn(3) == 0 // consumer only starts after a while
		if !late {
			s.gch <- 2
		}
		for v := 1; v <= m; v++ {
			s.pch <- verifExtstablerunnerEnt{Cmd: "push", V: v}
			if rnd.Intn(5) == 0 {
				s.pch <- verifExtstablerunnerEnt{Cmd: "yield", V: rnd.Intn(30)}
			}
		}
		// everything below is what finish() does, except that the consumer may already be draining
		s.pch <- verifExtstablerunnerEnt{Cmd: "wait"}
		if late {
			s.gch <- 2
		}
		s.finish(true, m+1)
	}
}

// ---------------------------------------------------------------------------------- groups

type verifExtstablerunnerGrp struct {
	lg    *verifExtstablerunnerLog
	g     *RoutineGroup
	mu    sync.Mutex
	gates map[int]chan string
	free  map[int]string // functions that do not park: id -> outcome
	jn    int32
	jg    map[int]chan string
	sch   chan verifExtstablerunnerEnt
	all   sync.WaitGroup // harness-side: every goroutine the driver itself started
}

func (x *verifExtstablerunnerGrp) gate(i int) chan string {
	x.mu.Lock()
	defer x.mu.Unlock()
	g, ok := x.gates[i]
	if !ok {
		g = make(chan string, 1)
		x.gates[i] = g
	}
	return g
}

func (x *verifExtstablerunnerGrp) jgate(j int) chan string {
	x.mu.Lock()
	defer x.mu.Unlock()
	g, ok := x.jg[j]
	if !ok {
		g = make(chan string, 1)
		x.jg[j] = g
	}
	return g
}

func (x *verifExtstablerunnerGrp) fn(i int) func() {
	return func() {
		x.lg.emit(verifExtstablerunnerKey("fStart", i), verifEv{"e": "fStart", "i": i})
		x.mu.Lock()
		out, isFree := x.free[i]
		x.mu.Unlock()
		if isFree {
			for k := i % 5; k > 0; k-- {
				runtime.Gosched()
			}
		} else {
			out = <-x.gate(i)
		}
		x.lg.emit(verifExtstablerunnerKey("fEnd", i), verifEv{"e": "fEnd", "i": i, "out": out})
		if out == "panic" {
			panic("verif: injected panic")
		}
	}
}

func (x *verifExtstablerunnerGrp) spawner() {
	defer x.all.Done()
	for c := range x.sch {
		x.lg.emit(verifExtstablerunnerKey("spawnStart", c.I), verifEv{"e": "spawnStart", "i": c.I, "how": c.How})
		switch c.How {
		case "run":
			x.g.Run(x.fn(c.I))
		case "runsafe":
			x.g.RunSafe(x.fn(c.I))
		case "gosafe":
			GoSafe(x.fn(c.I))
		case "sync":
			RunSafe(x.fn(c.I))
		}
		x.lg.emit(verifExtstablerunnerKey("spawnEnd", c.I), verifEv{"e": "spawnEnd", "i": c.I})
	}
}

func (x *verifExtstablerunnerGrp) wait(w int) {
	x.lg.emit(verifExtstablerunnerKey("waitStart", w), verifEv{"e": "waitStart", "w": w})
	x.all.Add(1)
	go func() {
		defer x.all.Done()
		x.g.Wait()
		x.lg.emit(verifExtstablerunnerKey("waitEnd", w), verifEv{"e": "waitEnd", "w": w})
	}()
}

func (x *verifExtstablerunnerGrp) workers(k, n int, freeOut func(j int) string) {
	x.lg.emit(verifExtstablerunnerKey("wgStart", k), verifEv{"e": "wgStart", "k": k, "workers": n})
	x.all.Add(1)
	go func() {
		defer x.all.Done()
		NewWorkerGroup(func() {
			j := int(atomic.AddInt32(&x.jn, 1))
			x.lg.emit(verifExtstablerunnerKey("jStart", j), verifEv{"e": "jStart", "k": k, "j": j})
			var out string
			if freeOut != nil {
				out = freeOut(j)
				runtime.Gosched()
			} else {
				out = <-x.jgate(j)
			}
			x.lg.emit(verifExtstablerunnerKey("jEnd", j), verifEv{"e": "jEnd", "k": k, "j": j, "out": out})
			if out == "panic" {
				panic("verif: injected panic")
			}
		}, n).Start()
		x.lg.emit(verifExtstablerunnerKey("wgEnd", k), verifEv{"e": "wgEnd", "k": k})
	}()
}

func (x *verifExtstablerunnerGrp) join() {
	fin := make(chan struct{})
	go func() { x.all.Wait(); close(fin) }()
	d := verifExtstablerunnerLong
	if atomic.LoadInt32(x.lg.expired) > 0 {
		d = 500 * time.Millisecond
	}
	select {
	case <-fin:
	case <-time.After(d):
		atomic.AddInt32(x.lg.expired, 1)
		x.lg.em.Emit(verifEv{"e": "stuck", "what": "join", "want": 0, "have": 0})
	}
}

func verifExtstablerunnerNewGrp(em *verifEmitter, expired *int32) *verifExtstablerunnerGrp {
	lg := &verifExtstablerunnerLog{em: em, seen: map[string]int{}, expired: expired}
	x := &verifExtstablerunnerGrp{lg: lg, g: NewRoutineGroup(), gates: map[int]chan string{}, free: map[int]string{},
		jg: map[int]chan string{}, sch: make(chan verifExtstablerunnerEnt, 1024)}
	em.Emit(verifEv{"e": "reset", "m": "grp"})
	x.all.Add(1)
	go x.spawner()
	return x
}

func verifExtstablerunnerGroupReplay(em *verifEmitter, b verifExtstablerunnerBeh, expired *int32) {
	x := verifExtstablerunnerNewGrp(em, expired)
	spawned := map[int]bool{}
	released := map[int]bool{}
	jrel := map[int]bool{}
	wgN := -1
	ok := true
	for _, e := range b.Ops {
		if !ok {
			break
		}
		switch {
		case e.Cmd == "spawn":
			spawned[e.I] = true
			x.sch <- e
		case e.Cmd == "rel":
			released[e.I] = true
			x.gate(e.I) <- e.Out
			ok = x.lg.await(verifExtstablerunnerKey("fEnd", e.I), 1)
		case e.Cmd == "wait":
			x.wait(e.W)
		case e.Cmd == "wg":
			wgN = e.N
			x.workers(1, e.N, nil)
		case e.Cmd == "jrel":
			jrel[e.J] = true
			x.jgate(e.J) <- e.Out
			ok = x.lg.await(verifExtstablerunnerKey("jEnd", e.J), 1)
		case e.Ev == "spawnEnd" || e.Ev == "fStart":
			ok = x.lg.await(verifExtstablerunnerKey(e.Ev, e.I), 1)
		case e.Ev == "waitEnd":
			ok = x.lg.await(verifExtstablerunnerKey(e.Ev, e.W), 1)
		case e.Ev == "jStart":
			ok = x.lg.await(verifExtstablerunnerKey(e.Ev, e.J), 1)
		case e.Ev == "wgEnd":
			ok = x.lg.await(verifExtstablerunnerKey(e.Ev, 1), 1)
		}
	}
	// let everything finish, then one more Wait that has to cover all of it
	close(x.sch)
	for i := range spawned {
		if !released[i] {
			x.gate(i) <- "ret"
		}
	}
	for j := 1; j <= wgN; j++ {
		if !jrel[j] {
			x.jgate(j) <- "ret"
		}
	}
	for i := range spawned {
		x.lg.await(verifExtstablerunnerKey("fEnd", i), 1)
	}
	x.wait(99)
	x.join()
}

// TestVerifExtstablerunnerGroupRandom: seeded random mixes of Run / RunSafe / GoSafe / RunSafe(sync),
// parked and free-running functions, contained panics, racing waiters and WorkerGroups.
func TestVerifExtstablerunnerGroupRandom(t *testing.T) {
	logx.Disable()
	em := verifOpen(t)
	defer em.Close()
	var expired int32
	rnd := verifRand(5052)
	runs := verifEnvInt("VERIF_EXT_GRP_RUNS", 60)
	for run := 0; run < runs; run++ {
		x := verifExtstablerunnerNewGrp(em, &expired)
		k := 4 + rnd.Intn(16)
		hows := []string{"run", "runsafe", "runsafe", "gosafe", "sync"}
		var parked []int
		outOf := func(how string) string {
			if how != "run" && rnd.Intn(3) == 0 {
				return "panic"
			}
			return "ret"
		}
		pending := map[int]string{}
		nw := 0
		for i := 1; i <= k; i++ {
			how := hows[rnd.Intn(len(hows))]
			out := outOf(how)
			if i == 1 {
				// sync.WaitGroup's own rule: an Add that starts from zero must not race with a Wait.  Function 1
				// is a parked group member until every spawn call has returned, so the counter stays positive
				// while waiters and spawns overlap.
				how, out = hows[rnd.Intn(2)], "ret"
			}
			if i > 1 && (how == "sync" || rnd.Intn(2) == 0) {
				x.mu.Lock()
				x.free[i] = out
				x.mu.Unlock()
			} else if i > 1 {
				parked = append(parked, i)
				pending[i] = out
			}
			x.sch <- verifExtstablerunnerEnt{Cmd: "spawn", I: i, How: how}
			if rnd.Intn(3) == 0 {
				x.lg.await(verifExtstablerunnerKey("spawnEnd", i), 1)
			}
			if rnd.Intn(4) == 0 && nw < 4 {
				x.lg.await(verifExtstablerunnerKey("spawnEnd", 1), 1)
				nw++
				x.wait(nw)
			}
			if rnd.Intn(3) == 0 && len(parked) > 0 {
				j := rnd.Intn(len(parked))
				p := parked[j]
				parked = append(parked[:j], parked[j+1:]...)
				x.gate(p) <- pending[p]
			}
			if i == k/2 {
				n := rnd.Intn(6)
				x.workers(1, n, func(j int) string {
					if (j+run)%3 == 0 {
						return "panic"
					}
					return "ret"
				})
			}
		}
		close(x.sch)
		for _, p := range parked {
			x.gate(p) <- pending[p]
		}
		x.lg.await(verifExtstablerunnerKey("spawnEnd", k), 1)
		x.gate(1) <- "ret"
		for i := 1; i <= k; i++ { // GoSafe'd functions belong to no group: the trace ends when all are done
			x.lg.await(verifExtstablerunnerKey("fEnd", i), 1)
		}
		x.wait(99)
		x.join()
	}
}
