//go:build verif

package threading

// C05 adapters for threading.TaskRunner and threading.WorkerGroup (drive and record only; the
// verdict comes from TLC validating the trace against specs/caps/Semaphore.tla).

import (
	"sync/atomic"
	"testing"
	"time"

	"github.com/zeromicro/go-zero/core/logx"
)

// ---- TaskRunner: the task is the guarded region; the slot is given back by the library after
// the task is gone, which the driver only learns from Wait()
type verifCapsRunner struct{ r *TaskRunner }

func (a *verifCapsRunner) Kind() string { return "taskrunner" }
func (a *verifCapsRunner) Supports(w string) bool {
	return w == "try" || w == "block" || w == "panic"
}
func (a *verifCapsRunner) Release() string            { return "quiesce" }
func (a *verifCapsRunner) Over(c *verifCapsCtx) bool  { return false }
func (a *verifCapsRunner) Close(c *verifCapsCtx) bool { return true }
func (a *verifCapsRunner) Quiesce(c *verifCapsCtx) bool {
	done := make(chan struct{})
	go func() { a.r.Wait(); close(done) }()
	d := verifCapsLong
	if atomic.LoadInt32(c.expired) > 0 {
		d = time.Second
	}
	select {
	case <-done:
		return true
	case <-time.After(d):
		atomic.AddInt32(c.expired, 1)
		return false
	}
}
func (a *verifCapsRunner) Do(c *verifCapsCtx, p int, mode string) {
	c.AcqStart(p, mode)
	task := func() { c.Region(p, 0) }
	if mode == "try" {
		if err := a.r.ScheduleImmediately(task); err != nil {
			c.Refused(p, 0)
		}
		return
	}
	a.r.Schedule(task)
}

func verifCapsMake(c *verifCapsCtx, kind string, n int, age int) (verifCapsAdapter, func(), func()) {
	logx.Disable()
	if kind == "taskrunner" {
		return &verifCapsRunner{r: NewTaskRunner(n)}, nil, nil
	}
	return nil, nil, nil
}

func TestVerifCapsReplay(t *testing.T) { verifCapsReplayAll(t, verifCapsMake) }

func TestVerifCapsStress(t *testing.T) {
	verifCapsStressAll(t, []string{"taskrunner"}, verifCapsMake)
}

// ---- WorkerGroup: Start() runs the job `workers` times concurrently and waits.  The jobs take
// their own tickets; the run is one NoLeak probe: the driver waits until n jobs are inside
// (watchdog), gives a further one the chance to show up, logs `probe`, then lets everybody go.
type verifCapsGroup struct{}

func (verifCapsGroup) Kind() string                           { return "wgroup" }
func (verifCapsGroup) Supports(w string) bool                 { return false }
func (verifCapsGroup) Release() string                        { return "close" }
func (verifCapsGroup) Over(c *verifCapsCtx) bool              { return false }
func (verifCapsGroup) Quiesce(c *verifCapsCtx) bool           { return true }
func (verifCapsGroup) Close(c *verifCapsCtx) bool             { return true }
func (verifCapsGroup) Do(c *verifCapsCtx, p int, mode string) {}

func TestVerifCapsWorkerGroup(t *testing.T) {
	logx.Disable()
	em := verifOpen(t)
	defer em.Close()
	var expired int32
	rnd := verifRand(515)
	runs := verifEnvInt("VERIF_CAPS_RUNS", 12)
	for r := 0; r < runs; r++ {
		n := 1 + rnd.Intn(6)
		panicAt := -1
		if rnd.Intn(3) == 0 {
			panicAt = rnd.Intn(n)
		}
		c := verifCapsNewCtx(t, em, n, &expired)
		c.ad = verifCapsGroup{}
		em.Emit(verifEv{"e": "reset", "kind": "wgroup", "n": n})
		em.Emit(verifEv{"e": "end", "pending": []int{}})
		done := make(chan struct{})
		go func() {
			defer close(done)
			NewWorkerGroup(func() {
				p := c.NewTicketFromCallback()
				c.AcqStart(p, "block")
				c.Region(p, 0)
			}, n).Start()
		}()
		c.wait(verifCapsLong, func() bool { return c.countIn() >= n })
		c.wait(c.grace(), func() bool { return c.countIn() > n })
		em.Emit(verifEv{"e": "probe"})
		c.mu.Lock()
		for i, tk := range c.order {
			how := "ret"
			if i == panicAt {
				how = "panic"
			}
			c.open(tk, how)
		}
		c.mu.Unlock()
		select {
		case <-done:
			c.logAsyncRel()
		case <-time.After(verifCapsLong):
			atomic.AddInt32(&expired, 1)
			em.Emit(verifEv{"e": "stuck", "what": "WorkerGroup.Start did not return"})
		}
	}
}
