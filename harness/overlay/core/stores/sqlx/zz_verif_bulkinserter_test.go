//go:build verif

package sqlx

// C11 driver (thorough tier): sqlx.BulkInserter is a PeriodicalExecutor whose container is the
// row buffer (threshold maxBulkRows) and whose execute callback is one multi-row INSERT. Producers
// insert unique ids and flush concurrently; the fake connection records which ids each statement
// carried. Black box: no ticker/clock control, no Wait in this API. No expectations here: TLC
// validates the trace against specs/executors/PE.tla.

import (
	"database/sql"
	"math/rand"
	"regexp"
	"runtime"
	"sort"
	"strconv"
	"sync"
	"sync/atomic"
	"testing"
	"time"

	"github.com/zeromicro/go-zero/core/logx"
)

type verifBulkConn struct {
	SqlConn // nil: any other method is a driver error
	fn      func(query string)
}

func (c *verifBulkConn) Exec(query string, args ...any) (sql.Result, error) {
	c.fn(query)
	return nil, nil
}

var verifRowRe = regexp.MustCompile(`\((\d+)\)`)

func TestVerifBulkInserter(t *testing.T) {
	em := verifOpen(t)
	defer em.Close()
	logx.Disable()
	rnd := verifRand(31)
	// workload sizes around the row threshold of the buffer (zz_verif_c11_bisteer_test.go: the package
	// constant, else measured; the usual value when neither is available - it only shapes the workload)
	rows, ok := biThreshold()
	if !ok || rows > 5000 {
		rows = 1000
	}
	sizes := []int{rows, 2*rows + 300, 3*rows + 100, 700, 2 * rows}
	watchdog := time.Duration(verifEnvInt("VERIF_PE_WATCHDOG_S", 20)) * time.Second
	for r, total := range sizes {
		var nb, done int32
		pmode := rnd.Intn(3)
		conn := &verifBulkConn{fn: func(q string) {
			ids := []int{}
			for _, m := range verifRowRe.FindAllStringSubmatch(q, -1) {
				n, _ := strconv.Atoi(m[1])
				ids = append(ids, n)
			}
			sort.Ints(ids)
			b := int(atomic.AddInt32(&nb, 1))
			em.Emit(verifEv{"e": "execStart", "b": b, "ts": ids})
			switch pmode {
			case 1:
				runtime.Gosched()
			case 2:
				time.Sleep(time.Duration(b%4) * 100 * time.Microsecond)
			}
			em.Emit(verifEv{"e": "execEnd", "b": b, "panic": false})
			atomic.AddInt32(&done, int32(len(ids)))
		}}
		bi, err := NewBulkInserter(conn, "INSERT INTO t (id) VALUES (?)")
		if err != nil {
			t.Fatal(err)
		}
		em.Emit(verifEv{"e": "reset", "kind": "bulkinserter", "thr": rows, "mode": "stress"})
		np := 2 + rnd.Intn(5)
		var next int32
		var wg sync.WaitGroup
		var pend int32
		for p := 1; p <= np; p++ {
			wg.Add(1)
			go func(p int, pr *rand.Rand) {
				defer wg.Done()
				for {
					id := int(atomic.AddInt32(&next, 1))
					if id > total {
						return
					}
					atomic.AddInt32(&pend, 1)
					em.Emit(verifEv{"e": "addStart", "p": p, "t": id})
					if err := bi.Insert(id); err != nil {
						panic(err)
					}
					em.Emit(verifEv{"e": "addEnd", "p": p, "t": id})
					atomic.AddInt32(&pend, -1)
					if pr.Intn(400) == 0 {
						atomic.AddInt32(&pend, 1)
						em.Emit(verifEv{"e": "flushStart", "p": p})
						bi.Flush()
						em.Emit(verifEv{"e": "flushEnd", "p": p})
						atomic.AddInt32(&pend, -1)
					}
				}
			}(p, rand.New(rand.NewSource(rnd.Int63())))
		}
		fin := make(chan struct{})
		go func() { wg.Wait(); close(fin) }()
		pending := []string{}
		select {
		case <-fin:
			// quiescence without Wait: an explicit Flush after the last Insert, then the background
			// goroutine works off what was handed to it
			em.Emit(verifEv{"e": "flushStart", "p": 0})
			bi.Flush()
			em.Emit(verifEv{"e": "flushEnd", "p": 0})
			deadline := time.Now().Add(watchdog)
			for int(atomic.LoadInt32(&done)) < total && time.Now().Before(deadline) {
				time.Sleep(200 * time.Microsecond)
			}
		case <-time.After(watchdog):
			pending = append(pending, "calls:"+strconv.Itoa(int(atomic.LoadInt32(&pend))))
		}
		em.Emit(verifEv{"e": "end", "pending": pending})
		_ = r
	}
}
