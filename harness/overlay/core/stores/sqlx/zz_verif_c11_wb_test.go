//go:build verif && !verifnowb

package sqlx

// C11 white-box accessors of the sqlx.BulkInserter drivers: the only place that reaches unexported
// parts of go-zero:
//   - the row threshold of the inserter's buffer (package constant maxBulkRows; named at compile time:
//     when it is renamed the runner rebuilds with tag verifnowb and the driver measures the threshold
//     through the public API instead, see biThreshold);
//   - the PeriodicalExecutor inside a BulkInserter (field `executor`, reached by reflection: by name, else
//     the only field of that type), whose exported Wait is the Wait of an inserter (BulkInserter has none).
//     Without it the driver leaves the Wait steps out and reaches quiescence by Flush + the statements
//     seen by the connection.

import (
	"reflect"
	"unsafe"

	"github.com/zeromicro/go-zero/core/executors"
)

const biWB = true

func biMaxRows() (int, bool) { return maxBulkRows, maxBulkRows > 0 }

// biWaiter: Wait of the executor behind bi.
func biWaiter(bi *BulkInserter) (wait func(), ok bool) {
	defer func() {
		if recover() != nil {
			wait, ok = nil, false
		}
	}()
	typ := reflect.TypeOf((*executors.PeriodicalExecutor)(nil))
	s := reflect.ValueOf(bi).Elem()
	f := s.FieldByName("executor")
	if !f.IsValid() || f.Type() != typ {
		n := 0
		for i := 0; i < s.NumField(); i++ {
			if s.Field(i).Type() == typ {
				f = s.Field(i)
				n++
			}
		}
		if n != 1 {
			return nil, false
		}
	}
	if !f.CanAddr() {
		return nil, false
	}
	pe, _ := reflect.NewAt(typ, unsafe.Pointer(f.UnsafeAddr())).Elem().Interface().(*executors.PeriodicalExecutor)
	if pe == nil {
		return nil, false
	}
	return pe.Wait, true
}
