//go:build verif

package sqlx

// C14 harness, package-independent part (props/c14.py also compiles a copy of this file,
// with the package clause rewritten, into core/stores/sqlc).
//
// A database/sql/driver ("verif-tx") owned by the harness: it logs what the "database"
// sees (Begin attempts, statements, Commit, Rollback) and injects the faults of a
// TLC-generated script (specs/tx/TxImpl.tla).  A harness body executes the script's
// statements through the go-zero session it is given and ends as the script says.
// Nothing here judges the outcome: every event goes to the ndjson trace and TLC
// validates the trace against specs/tx/TxOnce.tla.

import (
	"context"
	"database/sql"
	"database/sql/driver"
	"encoding/json"
	"errors"
	"fmt"
	"io"
	"runtime"
	"sort"
	"strings"
	"sync"
	"sync/atomic"
	"testing"
	"time"

	"github.com/zeromicro/go-zero/core/breaker"
	"github.com/zeromicro/go-zero/core/logx"
)

const vtxDriverName = "verif-tx"

// ---------------------------------------------------------------- scripts

type vtxStmtSpec struct {
	Kind string `json:"kind"` // exec | query | prep | nest
	Ok   bool   `json:"ok"`
	Ek   string `json:"ek"` // !ok: the error value the database answers with (see vtxErrOf)
}

// vtxCx says when the caller's context ends: at = none | pre (before the call) | body
// (after K statements of the body; K = all of them: just before the body returns).
type vtxCx struct {
	At  string `json:"at"`
	K   int    `json:"k"`
	How string `json:"how"` // cancel | deadline
}

// vtxScript is one behaviour of the environment in TxImpl.tla.
type vtxScript struct {
	Begin []string      `json:"begin"` // per Begin attempt: ok | fail | bad | noconn | f:<error value>
	Stmts []vtxStmtSpec `json:"stmts"`
	End   string        `json:"end"` // nil | err | panic | none
	Ek    string        `json:"ek"`  // err: plain|norows|notfound|canceled|txdone|... (vtxBodyErr); panic: the kind of VALUE (vtxPanicValue)
	Fin   string        `json:"fin"` // ok | fail | none (does Commit/Rollback succeed)
	Fk    string        `json:"fk"`  // fin = fail: the error value Commit/Rollback answers with
	Cx    vtxCx         `json:"cx"`  // the caller's context (TransactCtx only)
}

// vtxErrOf maps the error identities of TxImpl.tla (StmtErrs, FinErrs, "f:<id>") to error values;
// nil = an ordinary error made up by the harness ("plain").
func vtxErrOf(id string) error {
	switch id {
	case "bad":
		return driver.ErrBadConn
	case "txdone":
		return sql.ErrTxDone
	case "norows":
		return sql.ErrNoRows
	case "canceled":
		return context.Canceled
	case "deadline":
		return context.DeadlineExceeded
	case "eof":
		return io.EOF
	case "conndone":
		return sql.ErrConnDone
	}
	return nil
}

// ---------------------------------------------------------------- what a body may panic with / return
//
// Go lets a function panic with a value of any type; recover() hands back that value.  The kinds
// below are PanicKinds of TxImpl.tla (AllPanicKinds): errors of several identities, texts, and values that
// are neither (plain data, "falsy" values, typed nil pointers, reference types).

type (
	vtxCode     int                    // a named integer type without methods
	vtxAbort    struct{ Reason string } // a struct without methods
	vtxStringer struct{ n int }
	vtxPtrErr   struct{ msg string } // *vtxPtrErr implements error; a nil *vtxPtrErr is a non-nil error
	vtxValErr   struct {             // a caller's own error type (a comparable struct)
		Code int
		Msg  string
	}
)

func (s vtxStringer) String() string { return fmt.Sprintf("verif-stringer-%d", s.n) }

func (e *vtxPtrErr) Error() string {
	if e == nil {
		return "verif-nil-pointer-error"
	}
	return e.msg
}

func (e vtxValErr) Error() string { return fmt.Sprintf("verif-custom-error-%d-%s", e.Code, e.Msg) }

var vtxPanicKinds = []string{"err", "rt", "e:norows", "e:canceled", "e:txdone", "e:bad", "e:wrap", "nilerr", "nil",
	"str", "empty", "stringer",
	"int", "zero", "code", "bool", "float", "struct", "ptr", "nilptr", "slice", "map", "func", "chan"}

// vtxPanicValue returns the value a body of call t panics with for a kind ("rt" and "nil" are
// produced by the body itself: a runtime error cannot be made up, panic(nil) needs the literal).
func vtxPanicValue(kind string, t int) (v any, known bool) {
	switch kind {
	case "err":
		return fmt.Errorf("verif-panic-t%d", t), true
	case "rt", "nil":
		return nil, true
	case "e:norows":
		return sql.ErrNoRows, true
	case "e:canceled":
		return context.Canceled, true
	case "e:txdone":
		return sql.ErrTxDone, true
	case "e:bad":
		return driver.ErrBadConn, true
	case "e:wrap":
		return fmt.Errorf("verif-panic-t%d: %w", t, sql.ErrNoRows), true
	case "nilerr":
		return (*vtxPtrErr)(nil), true
	case "str":
		return fmt.Sprintf("verif-panic-t%d", t), true
	case "empty":
		return "", true
	case "stringer":
		return vtxStringer{t}, true
	case "int":
		return 42 + t, true
	case "zero":
		return 0, true
	case "code":
		return vtxCode(7), true
	case "bool":
		return false, true
	case "float":
		return 1.5, true
	case "struct":
		return vtxAbort{Reason: "validation failed"}, true
	case "ptr":
		return &vtxAbort{Reason: "validation failed"}, true
	case "nilptr":
		return (*vtxAbort)(nil), true
	case "slice":
		return []string{"a", "b"}, true
	case "map":
		return map[string]int{"a": 1}, true
	case "func":
		return func() {}, true
	case "chan":
		return make(chan int), true
	}
	return nil, false
}

// vtxBodyErr returns the error a failing body returns for the kinds that name a particular value
// (nil: "plain" -- the error of its last failed statement or one of its own).
func vtxBodyErr(kind string, t int) (e error, known bool) {
	switch kind {
	case "", "none", "plain":
		return nil, true
	case "bad":
		return driver.ErrBadConn, true
	case "deadline":
		return context.DeadlineExceeded, true
	case "norows":
		return sql.ErrNoRows, true
	case "notfound":
		return ErrNotFound, true
	case "canceled":
		return context.Canceled, true
	case "txdone":
		return sql.ErrTxDone, true
	case "custom": // a struct type of the caller's
		return vtxValErr{Code: t, Msg: "custom"}, true
	case "nilerr": // a nil pointer of a type implementing error: err != nil holds
		return (*vtxPtrErr)(nil), true
	case "wrap":
		return fmt.Errorf("verif-body-t%d: %w", t, sql.ErrNoRows), true
	case "join":
		return errors.Join(fmt.Errorf("verif-body-t%d", t), io.ErrUnexpectedEOF), true
	}
	return nil, false
}

// vtxCheckScript: a script the harness cannot perform is an infrastructure error (never a verdict)
func vtxCheckScript(sc vtxScript) {
	switch sc.End {
	case "err":
		if _, ok := vtxBodyErr(sc.Ek, 0); !ok {
			panic("verif: unknown body error kind " + sc.Ek)
		}
	case "panic":
		if _, ok := vtxPanicValue(sc.Ek, 0); !ok {
			panic("verif: unknown panic value kind " + sc.Ek)
		}
	}
}

// vtxCtx is the caller's context of one call; the harness ends it at the scripted point.
// ("deadline" cannot use a real timer -- no wall-clock in this harness -- so it is a context
// type of our own whose deadline lies an hour ahead and which expires when told to.)
type vtxCtx struct {
	context.Context
	mu   sync.Mutex
	done chan struct{}
	err  error
	dl   time.Time
}

func (c *vtxCtx) Deadline() (time.Time, bool) { return c.dl, true }
func (c *vtxCtx) Done() <-chan struct{}       { return c.done }
func (c *vtxCtx) Err() error {
	c.mu.Lock()
	defer c.mu.Unlock()
	return c.err
}
func (c *vtxCtx) expire() {
	c.mu.Lock()
	defer c.mu.Unlock()
	if c.err == nil {
		c.err = context.DeadlineExceeded
		close(c.done)
	}
}

// vtxCallerCtx returns the context handed to TransactCtx and the function that ends it.
func vtxCallerCtx(how string) (context.Context, func()) {
	if how == "deadline" {
		c := &vtxCtx{Context: context.Background(), done: make(chan struct{}), dl: time.Now().Add(time.Hour)}
		return c, c.expire
	}
	return context.WithCancel(context.Background())
}

// vtxCase is one line of the driver input: a script and the API it is run through.
type vtxCase struct {
	API    string    `json:"api"`  // <pkg>.Transact | <pkg>.TransactCtx
	Ctor   string    `json:"ctor"` // fromdb | named
	Script vtxScript `json:"script"`
}

// ---------------------------------------------------------------- sessions (adapters live in the per-package file)

type vtxStmt interface {
	ExecCtx(ctx context.Context, args ...any) (sql.Result, error)
	Close() error
}

type vtxSession interface {
	ExecCtx(ctx context.Context, q string, args ...any) (sql.Result, error)
	QueryRowCtx(ctx context.Context, v any, q string, args ...any) error
	PrepareStmt(ctx context.Context, q string) (vtxStmt, error)
	// Nest asks the session for a nested transaction whose body calls ran().
	Nest(ran func()) error
}

// vtxTransactor runs body in a transaction of the connection under test.
type vtxTransactor func(ctx context.Context, useCtx bool, body func(context.Context, vtxSession) error) error

// ---------------------------------------------------------------- world

type vtxFault struct {
	kind string
	err  error
}

type vtxCall struct {
	t      int
	sc     vtxScript
	att    int // Begin attempts (incl. failed opens) so far
	mu     sync.Mutex
	faults []vtxFault
	holds  bool   // concurrent mode: this call still holds the begin section
	endCtx func() // ends the caller's context (nil: the call has none to end)
	bound  bool   // its transaction was begun on a cancellable context
}

// ctxDone ends the caller's context; the event is written first: whatever the library or
// database/sql do because of it comes later in the trace.
func (c *vtxCall) ctxDone(w *vtxWorld) {
	if c.endCtx == nil {
		return
	}
	w.em.Emit(verifEv{"e": "ctxDone", "t": c.t, "how": c.sc.Cx.How})
	c.endCtx()
	c.endCtx = nil
}

// failure returns the error a scripted fault of the given kind answers with.
func (c *vtxCall) failure(kind, id string) error {
	if e := vtxErrOf(id); e != nil {
		return c.note(kind, e)
	}
	return c.fault(kind)
}

func (c *vtxCall) fault(kind string) error {
	c.mu.Lock()
	defer c.mu.Unlock()
	e := fmt.Errorf("verif-fault-%s-t%d-n%d", kind, c.t, len(c.faults))
	c.faults = append(c.faults, vtxFault{kind, e})
	return e
}

func (c *vtxCall) note(kind string, e error) error {
	c.mu.Lock()
	defer c.mu.Unlock()
	c.faults = append(c.faults, vtxFault{kind, e})
	return e
}

func (c *vtxCall) beginOutcome() string {
	o := "ok"
	if c.att < len(c.sc.Begin) {
		o = c.sc.Begin[c.att]
	}
	c.att++
	return o
}

// vtxWorld is the "database" of one trace.
type vtxWorld struct {
	dsn        string
	em         *verifEmitter
	concurrent bool
	beginMu    sync.Mutex // concurrent mode: serialises [call .. successful Begin]
	mu         sync.Mutex
	pending    *vtxCall // the call whose Begin phase is in progress
	calls      map[int]*vtxCall
	open       int // transactions begun and neither committed nor rolled back
	bound      int // transactions begun on a cancellable context (never, with sql.DB.Begin())
}

var (
	vtxWorlds  sync.Map // dsn -> *vtxWorld
	vtxWorldNo atomic.Int64
	vtxOnce    sync.Once
)

func vtxNewWorld(em *verifEmitter, concurrent bool) *vtxWorld {
	vtxOnce.Do(func() {
		sql.Register(vtxDriverName, vtxDriver{})
		logx.Disable()
	})
	w := &vtxWorld{
		dsn:        fmt.Sprintf("verif-world-%d", vtxWorldNo.Add(1)),
		em:         em,
		concurrent: concurrent,
		calls:      map[int]*vtxCall{},
	}
	vtxWorlds.Store(w.dsn, w)
	return w
}

func (w *vtxWorld) close() { vtxWorlds.Delete(w.dsn) }

func (w *vtxWorld) call(t int) *vtxCall {
	w.mu.Lock()
	defer w.mu.Unlock()
	return w.calls[t]
}

// ---------------------------------------------------------------- the driver

type vtxDriver struct{}

type vtxConn struct {
	w  *vtxWorld
	tx *vtxTx
}

type vtxTx struct {
	c    *vtxConn
	call *vtxCall
}

func (vtxDriver) Open(dsn string) (driver.Conn, error) {
	v, ok := vtxWorlds.Load(dsn)
	if !ok {
		return nil, fmt.Errorf("verif-tx: unknown world %q", dsn)
	}
	w := v.(*vtxWorld)
	w.mu.Lock()
	defer w.mu.Unlock()
	if c := w.pending; c != nil && c.att < len(c.sc.Begin) && c.sc.Begin[c.att] == "noconn" {
		c.att++
		return nil, c.fault("begin")
	}
	return &vtxConn{w: w}, nil
}

func (c *vtxConn) Close() error { return nil }

func (c *vtxConn) Begin() (driver.Tx, error) { return c.begin(false) }

// BeginTx (driver.ConnBeginTx): lets the "database" see whether the transaction is tied to a
// context that can end (sql.DB.BeginTx(ctx)) -- database/sql then rolls it back on its own when
// that context is done -- or not (sql.DB.Begin(): context.Background()).
func (c *vtxConn) BeginTx(ctx context.Context, _ driver.TxOptions) (driver.Tx, error) {
	return c.begin(ctx.Done() != nil)
}

func (c *vtxConn) begin(bound bool) (driver.Tx, error) {
	w := c.w
	w.mu.Lock()
	defer w.mu.Unlock()
	call := w.pending
	if call == nil { // a Begin nobody asked for: attribute to call 0 (unknown to the spec)
		w.em.Emit(verifEv{"e": "begin", "t": 0, "ok": true, "b": bound})
		w.open++
		c.tx = &vtxTx{c: c, call: &vtxCall{}}
		return c.tx, nil
	}
	o := call.beginOutcome()
	switch {
	case o == "ok":
		w.open++
		c.tx = &vtxTx{c: c, call: call}
		call.bound = bound
		if bound {
			w.bound++
		}
		w.em.Emit(verifEv{"e": "begin", "t": call.t, "ok": true, "b": bound})
		if w.concurrent {
			w.pending = nil
			if call.holds {
				call.holds = false
				w.beginMu.Unlock()
			}
		}
		return c.tx, nil
	case o == "bad":
		w.em.Emit(verifEv{"e": "begin", "t": call.t, "ok": false, "b": false})
		return nil, call.note("begin", driver.ErrBadConn)
	case strings.HasPrefix(o, "f:"): // fails with a particular error value
		w.em.Emit(verifEv{"e": "begin", "t": call.t, "ok": false, "b": false})
		return nil, call.failure("begin", o[2:])
	default: // fail (or a noconn that met a pooled connection)
		w.em.Emit(verifEv{"e": "begin", "t": call.t, "ok": false, "b": false})
		return nil, call.fault("begin")
	}
}

func (x *vtxTx) end(kind string) error {
	w := x.c.w
	w.mu.Lock()
	defer w.mu.Unlock()
	w.open--
	if x.c.tx == x {
		x.c.tx = nil
	}
	ok := x.call.sc.Fin != "fail"
	w.em.Emit(verifEv{"e": kind, "t": x.call.t, "ok": ok})
	if !ok {
		return x.call.failure(kind, x.call.sc.Fk)
	}
	return nil
}

func (x *vtxTx) Commit() error   { return x.end("commit") }
func (x *vtxTx) Rollback() error { return x.end("rollback") }

// statement texts are "/*t=<call>,k=<index>*/ <kind>"
func vtxParse(q string) (t, k int, kind string) {
	if _, err := fmt.Sscanf(q, "/*t=%d,k=%d*/ %s", &t, &k, &kind); err != nil {
		return 0, -1, "foreign"
	}
	return
}

// statement: the database sees statement (t,k) on this connection; answers per script.
func (c *vtxConn) statement(q string, kind string) error {
	w := c.w
	t, k, _ := vtxParse(q)
	w.mu.Lock()
	defer w.mu.Unlock()
	x := 0
	if c.tx != nil {
		x = c.tx.call.t
	}
	call := w.calls[t]
	ok, id := true, ""
	if call != nil && k >= 0 && k < len(call.sc.Stmts) && kind != "pexec" {
		ok, id = call.sc.Stmts[k].Ok, call.sc.Stmts[k].Ek
	}
	w.em.Emit(verifEv{"e": "stmt", "t": t, "x": x, "k": k, "kind": kind, "ok": ok})
	if !ok {
		return call.failure("stmt", id)
	}
	return nil
}

func (c *vtxConn) ExecContext(_ context.Context, q string, _ []driver.NamedValue) (driver.Result, error) {
	if err := c.statement(q, "exec"); err != nil {
		return nil, err
	}
	return driver.RowsAffected(1), nil
}

func (c *vtxConn) QueryContext(_ context.Context, q string, _ []driver.NamedValue) (driver.Rows, error) {
	if err := c.statement(q, "query"); err != nil {
		return nil, err
	}
	return &vtxRows{}, nil
}

func (c *vtxConn) Prepare(q string) (driver.Stmt, error) {
	if err := c.statement(q, "prep"); err != nil {
		return nil, err
	}
	return &vtxPrepared{c: c, q: q}, nil
}

type vtxPrepared struct {
	c *vtxConn
	q string
}

func (s *vtxPrepared) Close() error  { return nil }
func (s *vtxPrepared) NumInput() int { return -1 }
func (s *vtxPrepared) Exec(_ []driver.Value) (driver.Result, error) {
	if err := s.c.statement(s.q, "pexec"); err != nil {
		return nil, err
	}
	return driver.RowsAffected(1), nil
}
func (s *vtxPrepared) Query(_ []driver.Value) (driver.Rows, error) {
	if err := s.c.statement(s.q, "pexec"); err != nil {
		return nil, err
	}
	return &vtxRows{}, nil
}

type vtxRows struct{ done bool }

func (r *vtxRows) Columns() []string { return []string{"v"} }
func (r *vtxRows) Close() error      { return nil }
func (r *vtxRows) Next(dest []driver.Value) error {
	if r.done {
		return io.EOF
	}
	r.done = true
	dest[0] = int64(1)
	return nil
}

// ---------------------------------------------------------------- running one call

func (w *vtxWorld) body(c *vtxCall) func(context.Context, vtxSession) error {
	return func(ctx context.Context, s vtxSession) error {
		w.em.Emit(verifEv{"e": "body", "t": c.t})
		var last error
		for k, st := range c.sc.Stmts {
			if w.concurrent { // perturbation only: let other transactions interleave
				runtime.Gosched()
			}
			if c.sc.Cx.At == "body" && c.sc.Cx.K == k {
				c.ctxDone(w)
			}
			q := fmt.Sprintf("/*t=%d,k=%d*/ %s", c.t, k, st.Kind)
			switch st.Kind {
			case "exec":
				_, last = s.ExecCtx(ctx, q)
			case "query":
				var v int64
				last = s.QueryRowCtx(ctx, &v, q)
			case "prep":
				ps, err := s.PrepareStmt(ctx, q)
				if err == nil {
					_, err = ps.ExecCtx(ctx)
					_ = ps.Close()
				}
				last = err
			case "nest":
				ran := false
				err := s.Nest(func() { ran = true })
				w.em.Emit(verifEv{"e": "nest", "t": c.t, "ran": ran, "nil": err == nil})
				last = err
			default:
				panic("verif: unknown statement kind " + st.Kind)
			}
		}
		if w.concurrent {
			runtime.Gosched()
		}
		if c.sc.Cx.At == "body" { // K >= number of statements: just before the body returns
			c.ctxDone(w)
		}
		switch c.sc.End {
		case "err":
			w.em.Emit(verifEv{"e": "bodyEnd", "t": c.t, "how": "err", "v": c.sc.Ek})
			// errors the connection's breaker treats as acceptable, other sentinels, unusual shapes
			if e, _ := vtxBodyErr(c.sc.Ek, c.t); e != nil {
				return c.note("body", e)
			}
			if last != nil {
				return c.note("body", last)
			}
			return c.fault("body")
		case "panic":
			w.em.Emit(verifEv{"e": "bodyEnd", "t": c.t, "how": "panic", "v": c.sc.Ek})
			switch c.sc.Ek {
			case "rt":
				var m map[int]int
				m[c.t] = 1 // runtime error: assignment to entry in nil map
			case "nil":
				panic(nil) // go.mod says go >= 1.21: recover() returns a *runtime.PanicNilError
			}
			v, _ := vtxPanicValue(c.sc.Ek, c.t)
			panic(v)
		default:
			w.em.Emit(verifEv{"e": "bodyEnd", "t": c.t, "how": "nil", "v": "none"})
			return nil
		}
	}
}

// run performs one Transact call and records its result.
func (w *vtxWorld) run(t int, sc vtxScript, tr vtxTransactor, useCtx bool) {
	vtxCheckScript(sc)
	c := &vtxCall{t: t, sc: sc}
	if w.concurrent {
		w.beginMu.Lock()
		c.holds = true
	}
	w.mu.Lock()
	w.calls[t] = c
	w.pending = c
	w.mu.Unlock()
	w.em.Emit(verifEv{"e": "call", "t": t})
	// the caller's context: only TransactCtx takes one; it ends where the script says
	ctx := context.Background()
	if useCtx && (sc.Cx.At == "pre" || sc.Cx.At == "body") {
		var end func()
		ctx, end = vtxCallerCtx(sc.Cx.How)
		c.endCtx = end
		defer end()
		if sc.Cx.At == "pre" {
			c.ctxDone(w)
		}
	}
	var ret error
	panicked := false
	func() {
		defer func() {
			if p := recover(); p != nil {
				panicked = true
			}
		}()
		ret = tr(ctx, useCtx, w.body(c))
	}()
	w.mu.Lock()
	if w.pending == c {
		w.pending = nil
	}
	if c.holds {
		c.holds = false
		w.beginMu.Unlock()
	}
	w.mu.Unlock()
	rep := []string{}
	if ret != nil {
		seen := map[string]bool{}
		msg := ret.Error()
		c.mu.Lock()
		for _, f := range c.faults {
			if errors.Is(ret, f.err) || strings.Contains(msg, f.err.Error()) {
				seen[f.kind] = true
			}
		}
		c.mu.Unlock()
		// a failed commit/rollback also counts as reported if the error says so in words
		for _, word := range []string{"commit", "rollback"} {
			if strings.Contains(strings.ToLower(msg), word) {
				seen[word] = true
			}
		}
		if errors.Is(ret, breaker.ErrServiceUnavailable) {
			seen["breaker"] = true
		}
		for k := range seen {
			rep = append(rep, k)
		}
		sort.Strings(rep)
	}
	w.em.Emit(verifEv{"e": "ret", "t": t, "nil": ret == nil && !panicked, "p": panicked, "rep": rep})
}

func (w *vtxWorld) end() {
	w.mu.Lock()
	n, bound := w.open, w.bound
	w.mu.Unlock()
	// Context-bound transactions only (none with sql.DB.Begin()): database/sql rolls them back
	// from a goroutine of its own; give that a bounded chance to be seen in this trace.  How many
	// are still open is logged, not judged.
	for i := 0; bound > 0 && n > 0 && i < 2000; i++ {
		time.Sleep(time.Millisecond)
		w.mu.Lock()
		n = w.open
		w.mu.Unlock()
	}
	w.em.Emit(verifEv{"e": "end", "open": n})
}

// ---------------------------------------------------------------- drivers shared by both packages

// vtxOpener builds the connection under test on the world's DSN and returns how to
// run a transaction through the given API, plus a cleanup function.
type vtxOpener func(w *vtxWorld, api, ctor string) (vtxTransactor, func())

func vtxUseCtx(api string) bool { return strings.HasSuffix(api, "TransactCtx") }

// vtxReplay: every input line is one (script, api, ctor); one trace with one call each,
// on a fresh connection object (fresh breaker, fresh pool).
func vtxReplay(t *testing.T, open vtxOpener) {
	em := verifOpen(t)
	defer em.Close()
	for _, raw := range verifInput(t) {
		var cs vtxCase
		if err := json.Unmarshal(raw, &cs); err != nil {
			t.Fatal(err)
		}
		w := vtxNewWorld(em, false)
		tr, done := open(w, cs.API, cs.Ctor)
		em.Emit(verifEv{"e": "reset", "api": cs.API, "ctor": cs.Ctor, "mode": "replay"})
		w.run(1, cs.Script, tr, vtxUseCtx(cs.API))
		w.end()
		done()
		w.close()
	}
}

func vtxRandomScript(rnd interface{ Intn(int) int }, maxStmts int, failBias int) vtxScript {
	var sc vtxScript
	for {
		x := rnd.Intn(100)
		switch {
		case x < 8:
			sc.Begin = append(sc.Begin, "bad")
			if len(sc.Begin) < 3 {
				continue
			}
		case x < 8+failBias:
			sc.Begin = append(sc.Begin, "fail")
		default:
			sc.Begin = append(sc.Begin, "ok")
		}
		break
	}
	kinds := []string{"exec", "exec", "query", "query", "prep", "nest"}
	// error values of failing statements / commits / rollbacks: mostly ordinary errors, sometimes
	// one of the sentinels database/sql, the breaker or a caller may treat specially
	ids := []string{"plain", "plain", "plain", "plain", "bad", "bad", "txdone", "norows", "canceled", "deadline", "eof", "conndone"}
	n := rnd.Intn(maxStmts + 1)
	for i := 0; i < n; i++ {
		k := kinds[rnd.Intn(len(kinds))]
		st := vtxStmtSpec{Kind: k, Ok: k == "nest" || rnd.Intn(4) != 0}
		if !st.Ok {
			st.Ek = ids[rnd.Intn(len(ids))]
		}
		sc.Stmts = append(sc.Stmts, st)
	}
	sc.End = []string{"nil", "nil", "err", "panic"}[rnd.Intn(4)]
	switch sc.End {
	case "err":
		sc.Ek = []string{"plain", "plain", "plain", "norows", "notfound", "canceled", "txdone", "bad", "deadline",
			"custom", "nilerr", "wrap", "join"}[rnd.Intn(13)]
	case "panic": // with a value of any kind
		sc.Ek = vtxPanicKinds[rnd.Intn(len(vtxPanicKinds))]
	}
	sc.Fin = []string{"ok", "ok", "fail"}[rnd.Intn(3)]
	if sc.Fin == "fail" {
		sc.Fk = ids[rnd.Intn(len(ids))]
	}
	// the caller's context (TransactCtx only) ends in one call out of five
	sc.Cx.At = "none"
	if rnd.Intn(5) == 0 {
		sc.Cx = vtxCx{At: "body", K: rnd.Intn(n + 1), How: []string{"cancel", "deadline"}[rnd.Intn(2)]}
		if rnd.Intn(8) == 0 {
			sc.Cx.At = "pre"
		}
	}
	return sc
}

// vtxSequences: many calls, one after the other, on ONE connection object (shared breaker,
// pooled driver connections re-used after failed commits/rollbacks and bad connections).
// The last traces are "storms" of failing calls that make the breaker reject some calls.
func vtxSequences(t *testing.T, open vtxOpener, apis []string) {
	em := verifOpen(t)
	defer em.Close()
	rnd := verifRand(1401)
	traces, length := 24, 14
	if verifThorough() {
		traces, length = 160, 30
	}
	for i := 0; i < traces; i++ {
		api := apis[rnd.Intn(len(apis))]
		ctor := []string{"fromdb", "named"}[rnd.Intn(2)]
		storm := i%6 == 5
		w := vtxNewWorld(em, false)
		tr, done := open(w, api, ctor)
		mode := "sequence"
		if storm {
			mode = "storm"
		}
		em.Emit(verifEv{"e": "reset", "api": api, "ctor": ctor, "mode": mode})
		n := 4 + rnd.Intn(length)
		if storm {
			n = 40 + rnd.Intn(40)
		}
		for c := 1; c <= n; c++ {
			bias := 10
			if storm {
				bias = 80
			}
			w.run(c, vtxRandomScript(rnd, 6, bias), tr, vtxUseCtx(api))
		}
		w.end()
		done()
		w.close()
	}
}

// vtxConcurrent: goroutines run scripted transactions at the same time on one connection
// object; their bodies, commits and rollbacks interleave (events carry the call id).
func vtxConcurrent(t *testing.T, open vtxOpener, apis []string) {
	em := verifOpen(t)
	defer em.Close()
	rnd := verifRand(1402)
	traces, workers, per := 10, 4, 5
	if verifThorough() {
		traces, workers, per = 60, 6, 8
	}
	for i := 0; i < traces; i++ {
		api := apis[rnd.Intn(len(apis))]
		ctor := []string{"fromdb", "named"}[rnd.Intn(2)]
		w := vtxNewWorld(em, true)
		tr, done := open(w, api, ctor)
		em.Emit(verifEv{"e": "reset", "api": api, "ctor": ctor, "mode": "concurrent"})
		scripts := make([][]vtxScript, workers)
		for g := range scripts {
			for j := 0; j < per; j++ {
				scripts[g] = append(scripts[g], vtxRandomScript(rnd, 4, 10))
			}
		}
		var wg sync.WaitGroup
		for g := 0; g < workers; g++ {
			wg.Add(1)
			go func(g int) {
				defer wg.Done()
				for j, sc := range scripts[g] {
					w.run(1+g*per+j, sc, tr, vtxUseCtx(api))
				}
			}(g)
		}
		wg.Wait()
		w.end()
		done()
		w.close()
	}
}
