//go:build verif && verifnowb

package sqlx

// Black-box stand-ins for zz_verif_c11_wb_test.go (see there): the row threshold is measured through
// the public API, there is no Wait on an inserter.

const biWB = false

func biMaxRows() (int, bool) { return 0, false }

func biWaiter(bi *BulkInserter) (func(), bool) { return nil, false }
