//go:build verif

package sqlx

// C14 driver for core/stores/sqlx: binds the package-independent harness
// (zz_verif_txdrv_test.go) to SqlConn.Transact / SqlConn.TransactCtx.

import (
	"context"
	"database/sql"
	"testing"
)

type vtxSess struct{ s Session }

func (a vtxSess) ExecCtx(ctx context.Context, q string, args ...any) (sql.Result, error) {
	return a.s.ExecCtx(ctx, q, args...)
}

func (a vtxSess) QueryRowCtx(ctx context.Context, v any, q string, args ...any) error {
	return a.s.QueryRowCtx(ctx, v, q, args...)
}

func (a vtxSess) PrepareStmt(ctx context.Context, q string) (vtxStmt, error) {
	st, err := a.s.PrepareCtx(ctx, q)
	if err != nil {
		return nil, err
	}
	return st, nil
}

func (a vtxSess) Nest(ran func()) error {
	return NewSqlConnFromSession(a.s).Transact(func(Session) error {
		ran()
		return nil
	})
}

func vtxOpenSqlx(w *vtxWorld, api, ctor string) (vtxTransactor, func()) {
	var conn SqlConn
	done := func() {}
	if ctor == "named" {
		conn = NewSqlConn(vtxDriverName, w.dsn)
	} else {
		db, err := sql.Open(vtxDriverName, w.dsn)
		if err != nil {
			panic(err)
		}
		conn = NewSqlConnFromDB(db)
		done = func() { _ = db.Close() }
	}
	return func(ctx context.Context, useCtx bool, body func(context.Context, vtxSession) error) error {
		if useCtx {
			return conn.TransactCtx(ctx, func(ctx context.Context, s Session) error {
				return body(ctx, vtxSess{s})
			})
		}
		return conn.Transact(func(s Session) error {
			return body(context.Background(), vtxSess{s})
		})
	}, done
}

var vtxSqlxAPIs = []string{"sqlx.Transact", "sqlx.TransactCtx"}

func TestVerifTxReplay(t *testing.T)     { vtxReplay(t, vtxOpenSqlx) }
func TestVerifTxSequences(t *testing.T)  { vtxSequences(t, vtxOpenSqlx, vtxSqlxAPIs) }
func TestVerifTxConcurrent(t *testing.T) { vtxConcurrent(t, vtxOpenSqlx, vtxSqlxAPIs) }
