//go:build verif

package sqlx

// C11 driver (both tiers): TLC-generated environment schedules (PEImpl.tla, steering mode, the
// situation "a row enters the buffer while a batch that has left it has not yet reached the
// statement") replayed on a real sqlx.BulkInserter. The BulkInserter is a PeriodicalExecutor whose
// container is the row buffer (dbInserter, threshold maxBulkRows) and whose execute callback is one
// multi-row INSERT. The threshold is a constant of the package, so a schedule for threshold `thr`
// is scaled: one Add of the schedule = maxBulkRows/thr Inserts of unique ids by the same producer.
// The fake connection's Exec is the gated callback: it records which ids the statement carried.
// Wait is PeriodicalExecutor.Wait on the inserter's executor (BulkInserter has no Wait of its own).
// The flush timer of a BulkInserter is not replaceable from here, so only tick-free schedules are
// given to this driver (a real tick in the middle only makes the run deviate from the schedule).
// No expectations here: TLC validates the recorded trace against specs/executors/PE.tla.
//
// White box (zz_verif_c11_wb_test.go; stand-ins in zz_verif_c11_nowb_test.go, VERIF_NOWB=1): the
// threshold constant and the executor behind the inserter. Without them the threshold is measured
// (biThreshold: the largest statement a single producer provokes, seen more than once) and the Wait
// steps of a schedule are left out; quiescence is then reached by a final Flush and by waiting until
// the connection has seen as many rows as were inserted (or the watchdog expires - the spec
// classifies that: at `end` every inserted row must have been in a statement).

import (
	"bytes"
	"database/sql"
	"encoding/json"
	"fmt"
	"runtime"
	"sort"
	"strconv"
	"strings"
	"sync"
	"sync/atomic"
	"testing"
	"time"

	"github.com/zeromicro/go-zero/core/logx"
)

type biStep struct {
	Op    string `json:"op"`
	P     int    `json:"p"`
	T     int    `json:"t"`
	Ts    []int  `json:"ts"`
	Panic bool   `json:"panic"`
}

type biGate struct {
	b   int
	ids []int
	rel chan bool
}

type biOp struct {
	op string
	t  int
}

type biDriver struct {
	t     *testing.T
	em    *verifEmitter
	bi    *BulkInserter
	scale int

	wait     func() // Wait of the executor behind bi, if reachable
	hasWait  bool
	inserted int32 // rows whose Insert was called
	done     int32 // rows the connection has seen in statements that returned

	mu      sync.Mutex
	gates   map[int]*biGate
	nb      int
	auto    bool
	ops     sync.WaitGroup
	pendMu  sync.Mutex
	pending map[string]int
	workers map[int]chan biOp
}

type biConn struct {
	SqlConn // nil: any other method is a driver error
	d       *biDriver
}

// Exec is the execute callback of the inserter: logs the batch, blocks at the gate, logs the end.
func (c *biConn) Exec(query string, args ...any) (sql.Result, error) {
	d := c.d
	ids := []int{}
	for _, m := range verifRowRe.FindAllStringSubmatch(query, -1) {
		n, _ := strconv.Atoi(m[1])
		ids = append(ids, n)
	}
	sort.Ints(ids)
	d.mu.Lock()
	d.nb++
	g := &biGate{b: d.nb, ids: ids, rel: make(chan bool, 1)}
	auto := d.auto
	if !auto {
		d.gates[g.b] = g
	}
	d.mu.Unlock()
	d.em.Emit(verifEv{"e": "execStart", "b": g.b, "ts": ids})
	pn := false
	if !auto {
		pn = <-g.rel
	}
	d.em.Emit(verifEv{"e": "execEnd", "b": g.b, "panic": pn})
	atomic.AddInt32(&d.done, int32(len(ids)))
	if pn {
		panic("verif: Exec panics")
	}
	return nil, nil
}

// groups: the tasks of the schedule a statement's rows belong to
func (d *biDriver) groups(ids []int) string {
	set := map[int]bool{}
	for _, id := range ids {
		set[(id-1)/d.scale+1] = true
	}
	out := []int{}
	for k := range set {
		out = append(out, k)
	}
	sort.Ints(out)
	return fmt.Sprint(out)
}

func (d *biDriver) release(ts []int, pn bool) bool {
	ts = append([]int{}, ts...)
	sort.Ints(ts)
	d.mu.Lock()
	defer d.mu.Unlock()
	for b, g := range d.gates {
		if d.groups(g.ids) == fmt.Sprint(ts) {
			delete(d.gates, b)
			g.rel <- pn
			return true
		}
	}
	return false
}

func (d *biDriver) openAll() {
	d.mu.Lock()
	d.auto = true
	for b, g := range d.gates {
		delete(d.gates, b)
		g.rel <- false
	}
	d.mu.Unlock()
}

func (d *biDriver) track(key string, n int) {
	d.pendMu.Lock()
	d.pending[key] += n
	if d.pending[key] == 0 {
		delete(d.pending, key)
	}
	d.pendMu.Unlock()
}

func (d *biDriver) call(p int, o biOp) {
	key := fmt.Sprintf("%s:%d:%d", o.op, p, o.t)
	d.track(key, 1)
	defer d.track(key, -1)
	switch o.op {
	case "add": // one Add of the schedule = `scale` Inserts
		for id := (o.t-1)*d.scale + 1; id <= o.t*d.scale; id++ {
			atomic.AddInt32(&d.inserted, 1)
			d.em.Emit(verifEv{"e": "addStart", "p": p, "t": id})
			if err := d.bi.Insert(id); err != nil {
				panic(err)
			}
			d.em.Emit(verifEv{"e": "addEnd", "p": p, "t": id})
		}
	case "flush":
		d.em.Emit(verifEv{"e": "flushStart", "p": p})
		d.bi.Flush()
		d.em.Emit(verifEv{"e": "flushEnd", "p": p})
	case "wait":
		if !d.hasWait {
			return // an inserter has no Wait of its own
		}
		d.em.Emit(verifEv{"e": "waitStart", "p": p})
		d.wait()
		d.em.Emit(verifEv{"e": "waitEnd", "p": p})
	}
}

func (d *biDriver) submit(p int, o biOp) {
	ch, ok := d.workers[p]
	if !ok {
		ch = make(chan biOp, 64)
		d.workers[p] = ch
		go func() {
			for o := range ch {
				d.call(p, o)
				d.ops.Done()
			}
		}()
	}
	d.ops.Add(1)
	ch <- o
}

func (d *biDriver) pendingList() []string {
	d.pendMu.Lock()
	defer d.pendMu.Unlock()
	out := []string{}
	for k := range d.pending {
		out = append(out, k)
	}
	sort.Strings(out)
	return out
}

// finish: open every gate, let every outstanding call return (watchdog), a final Wait (no Insert is
// running or will run), log quiescence.
func (d *biDriver) finish(watchdog time.Duration) bool {
	d.openAll()
	done := make(chan struct{})
	go func() { d.ops.Wait(); close(done) }()
	ok := true
	select {
	case <-done:
	case <-time.After(watchdog):
		ok = false
	}
	if ok {
		fin := make(chan struct{})
		go func() {
			defer close(fin)
			if d.hasWait {
				d.call(0, biOp{op: "wait"})
				return
			}
			// quiescence without Wait: an explicit Flush after the last Insert, then the background
			// goroutine works off what was handed to it
			d.call(0, biOp{op: "flush"})
			deadline := time.Now().Add(watchdog)
			for atomic.LoadInt32(&d.done) < atomic.LoadInt32(&d.inserted) && time.Now().Before(deadline) {
				time.Sleep(200 * time.Microsecond)
			}
		}()
		select {
		case <-fin:
		case <-time.After(2 * watchdog):
			ok = false
		}
	}
	d.em.Emit(verifEv{"e": "end", "pending": d.pendingList()})
	for _, ch := range d.workers {
		close(ch)
	}
	return ok
}

// ---------------------------------------------------------------- quiescence (steering only)

var biStackBuf = make([]byte, 4<<20)

var biBlocked = map[string]bool{
	"chan receive": true, "chan send": true, "select": true, "semacquire": true,
	"sync.Mutex.Lock": true, "sync.RWMutex.Lock": true, "sync.RWMutex.RLock": true,
	"sync.WaitGroup.Wait": true, "sync.Cond.Wait": true, "chan receive (nil chan)": true,
	"select (no cases)": true,
}

// biQuiescent: every goroutine with a frame in the executors or in this package (other than the
// caller) is blocked; a Wait polling for batches in flight counts as blocked (it waits for others).
func biQuiescent() bool {
	n := runtime.Stack(biStackBuf, true)
	for _, g := range bytes.Split(biStackBuf[:n], []byte("\n\n")) {
		s := string(g)
		if !(strings.Contains(s, "core/executors.") || strings.Contains(s, "core/stores/sqlx.")) ||
			strings.Contains(s, "sqlx.biQuiescent") {
			continue
		}
		i, j := strings.IndexByte(s, '['), strings.IndexByte(s, ']')
		if i < 0 || j < i {
			continue
		}
		state := s[i+1 : j]
		if k := strings.IndexByte(state, ','); k >= 0 {
			state = state[:k]
		}
		if biBlocked[state] {
			continue
		}
		inner, file := "", ""
		lines := strings.Split(s, "\n")
		for i, ln := range lines[1:] {
			if (strings.Contains(ln, "core/executors.") || strings.Contains(ln, "core/stores/sqlx.")) && !strings.HasPrefix(ln, "\t") {
				inner = ln
				if i+2 < len(lines) {
					file = lines[i+2]
				}
				break
			}
		}
		if strings.Contains(inner, "(*PeriodicalExecutor).Wait(") {
			continue
		}
		// a goroutine sleeping in library code (not in a driver file) polls: it waits for others
		if state == "sleep" && inner != "" && !strings.Contains(file, "zz_verif_") {
			continue
		}
		return false
	}
	return true
}

func biSettle(limit time.Duration) bool {
	deadline := time.Now().Add(limit)
	for i := 0; ; i++ {
		if i < 3 {
			runtime.Gosched()
		} else {
			time.Sleep(50 * time.Microsecond)
		}
		if biQuiescent() {
			return true
		}
		if time.Now().After(deadline) {
			return false
		}
	}
}

// biThreshold: the number of buffered rows at which an Insert hands the buffer over. White box: the
// package constant. Otherwise measured through the public API: one producer inserts many rows; the
// largest statement the connection sees, if seen more than once, is the threshold (a real flush tick
// in between only makes one statement smaller). ok = false: not determined (steering is skipped).
var biThr struct {
	once sync.Once
	n    int
	ok   bool
}

func biThreshold() (int, bool) {
	biThr.once.Do(func() {
		if n, ok := biMaxRows(); ok {
			biThr.n, biThr.ok = n, true
			return
		}
		const total = 20000
		var mu sync.Mutex
		sizes := map[int]int{}
		var done int32
		conn := &verifBulkConn{fn: func(q string) {
			n := len(verifRowRe.FindAllStringIndex(q, -1))
			mu.Lock()
			sizes[n]++
			mu.Unlock()
			atomic.AddInt32(&done, int32(n))
		}}
		bi, err := NewBulkInserter(conn, "INSERT INTO t (id) VALUES (?)")
		if err != nil {
			return
		}
		for id := 1; id <= total; id++ {
			if bi.Insert(id) != nil {
				return
			}
		}
		bi.Flush()
		deadline := time.Now().Add(10 * time.Second)
		for atomic.LoadInt32(&done) < total && time.Now().Before(deadline) {
			time.Sleep(200 * time.Microsecond)
		}
		mu.Lock()
		defer mu.Unlock()
		max := 0
		for n := range sizes {
			if n > max {
				max = n
			}
		}
		if max > 0 && max < total && sizes[max] >= 2 {
			biThr.n, biThr.ok = max, true
		}
	})
	return biThr.n, biThr.ok
}

// biInfo: a trace of its own that tells the runner what this tree / build offered (no verdict depends on it)
func biInfo(em *verifEmitter, thr int, thrOK, hasWait bool, skipped int) {
	em.Emit(verifEv{"e": "reset", "kind": "none", "thr": 0, "mode": "info"})
	em.Emit(verifEv{"e": "info", "bi": true, "wb": biWB, "rows": thr, "rowsKnown": thrOK, "wait": hasWait, "skipped": skipped})
	em.Emit(verifEv{"e": "end", "pending": []string{}})
}

// TestVerifBISteer replays TLC-generated schedules. Input lines: {"thr":..,"steps":[...]}.
func TestVerifBISteer(t *testing.T) {
	em := verifOpen(t)
	defer em.Close()
	logx.Disable()
	watchdog := time.Duration(verifEnvInt("VERIF_PE_WATCHDOG_S", 20)) * time.Second
	hangs := 0
	rows, rowsOK := biThreshold()
	hasWait := false
	if !rowsOK {
		biInfo(em, 0, false, false, len(verifInput(t)))
		return
	}
	for _, raw := range verifInput(t) {
		var in struct {
			Thr   int      `json:"thr"`
			Steps []biStep `json:"steps"`
		}
		if err := json.Unmarshal(raw, &in); err != nil {
			t.Fatal(err)
		}
		if in.Thr < 1 {
			t.Fatalf("threshold %d", in.Thr)
		}
		if hangs >= 2 {
			break
		}
		// in.Thr Adds of the schedule reach the row threshold (rounded up when it does not divide)
		d := &biDriver{t: t, em: em, scale: (rows + in.Thr - 1) / in.Thr, gates: map[int]*biGate{},
			pending: map[string]int{}, workers: map[int]chan biOp{}}
		bi, err := NewBulkInserter(&biConn{d: d}, "INSERT INTO t (id) VALUES (?)")
		if err != nil {
			t.Fatal(err)
		}
		d.bi = bi
		d.wait, d.hasWait = biWaiter(bi)
		hasWait = d.hasWait
		em.Emit(verifEv{"e": "reset", "kind": "bulkinserter", "thr": rows, "mode": "replay"})
		for _, s := range in.Steps {
			switch s.Op {
			case "add":
				d.submit(s.P, biOp{op: "add", t: s.T})
			case "flush", "wait":
				d.submit(s.P, biOp{op: s.Op})
			case "rel":
				d.release(s.Ts, s.Panic)
			case "tick", "adv", "hook":
				// not controllable on a BulkInserter
			default:
				t.Fatalf("unknown step %q", s.Op)
			}
			biSettle(10 * time.Second)
		}
		if !d.finish(watchdog) {
			hangs++
		}
	}
	biInfo(em, rows, true, hasWait, 0)
}
