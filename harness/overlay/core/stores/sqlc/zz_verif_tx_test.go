//go:build verif

package sqlc

// C14 driver for core/stores/sqlc: binds the package-independent harness (a copy of
// ../sqlx/zz_verif_txdrv_test.go compiled into this package by props/c14.py) to
// CachedConn.Transact / CachedConn.TransactCtx.  The cache is never touched by Transact.

import (
	"context"
	"database/sql"
	"testing"

	"github.com/zeromicro/go-zero/core/stores/sqlx"
)

type vtxSess struct{ s sqlx.Session }

func (a vtxSess) ExecCtx(ctx context.Context, q string, args ...any) (sql.Result, error) {
	return a.s.ExecCtx(ctx, q, args...)
}

func (a vtxSess) QueryRowCtx(ctx context.Context, v any, q string, args ...any) error {
	return a.s.QueryRowCtx(ctx, v, q, args...)
}

func (a vtxSess) PrepareStmt(ctx context.Context, q string) (vtxStmt, error) {
	st, err := a.s.PrepareCtx(ctx, q)
	if err != nil {
		return nil, err
	}
	return st, nil
}

func (a vtxSess) Nest(ran func()) error {
	return sqlx.NewSqlConnFromSession(a.s).Transact(func(sqlx.Session) error {
		ran()
		return nil
	})
}

func vtxOpenSqlc(w *vtxWorld, api, ctor string) (vtxTransactor, func()) {
	var conn sqlx.SqlConn
	done := func() {}
	if ctor == "named" {
		conn = sqlx.NewSqlConn(vtxDriverName, w.dsn)
	} else {
		db, err := sql.Open(vtxDriverName, w.dsn)
		if err != nil {
			panic(err)
		}
		conn = sqlx.NewSqlConnFromDB(db)
		done = func() { _ = db.Close() }
	}
	cc := NewConnWithCache(conn, nil)
	return func(ctx context.Context, useCtx bool, body func(context.Context, vtxSession) error) error {
		if useCtx {
			return cc.TransactCtx(ctx, func(ctx context.Context, s sqlx.Session) error {
				return body(ctx, vtxSess{s})
			})
		}
		return cc.Transact(func(s sqlx.Session) error {
			return body(context.Background(), vtxSess{s})
		})
	}, done
}

var vtxSqlcAPIs = []string{"sqlc.Transact", "sqlc.TransactCtx"}

func TestVerifTxReplay(t *testing.T)     { vtxReplay(t, vtxOpenSqlc) }
func TestVerifTxSequences(t *testing.T)  { vtxSequences(t, vtxOpenSqlc, vtxSqlcAPIs) }
func TestVerifTxConcurrent(t *testing.T) { vtxConcurrent(t, vtxOpenSqlc, vtxSqlcAPIs) }
