//go:build verif

package sqlc

// C06 driver for sqlc.CachedConn (QueryRow / QueryRowIndex / Exec / Transact / SetCache /
// GetCache / DelCache) over a miniredis store and a harness-owned sqlx.SqlConn: closures
// over a table of rows (primary id, unique name, version), counting queries and failing on
// demand. The world (store, clock, cleaner wheel, event recording) is the helper overlaid
// into core/stores/cache (zz_verif_cache_world.go). The driver holds no expectations; the
// verdict comes from TLC validating the trace against specs/cache/CacheAside.tla.

import (
	"context"
	"database/sql"
	"encoding/json"
	"errors"
	"fmt"
	"math/rand"
	"runtime"
	"sort"
	"strconv"
	"sync"
	"sync/atomic"
	"testing"
	"time"

	"github.com/zeromicro/go-zero/core/stores/cache"
	"github.com/zeromicro/go-zero/core/stores/sqlx"
)

var verifCacheErrDb = errors.New("verif: database error")

type verifCacheOp struct {
	Op   string  `json:"op"`
	K    int     `json:"k"`
	V    int     `json:"v"`
	Dbf  bool    `json:"dbf"`
	Dbf2 bool    `json:"dbf2"`
	Flip bool    `json:"flip"`
	Cut  int     `json:"cut"`
	D    int     `json:"d"`
	E    int     `json:"e"`
	Ks   []int   `json:"ks"`
	Upd  [][]int `json:"upd"`
}

// ---- the harness database

type verifCacheTable struct {
	mu   sync.Mutex
	base int                         // the row of primary key number p has id base + p
	rows map[int]cache.VerifCacheRow // primary key number -> row; Name: the unique column (-1: none)
}

func (t *verifCacheTable) clone() map[int]cache.VerifCacheRow {
	out := make(map[int]cache.VerifCacheRow, len(t.rows))
	for k, v := range t.rows {
		out[k] = v
	}
	return out
}

type verifCacheResult struct{}

func (verifCacheResult) LastInsertId() (int64, error) { return 0, nil }
func (verifCacheResult) RowsAffected() (int64, error) { return 1, nil }

// verifCacheConn is the fake connection / session. Queries: "row" (id), "idx" (name); exec: "apply" (func).
type verifCacheConn struct {
	sqlx.SqlConn // nil: everything the driver does not use panics
	t            *verifCacheTable
	failRow      bool
	failIdx      bool
	failExec     bool
	onQuery      func() // called inside every query (gates, store flips)
	nRow, nIdx   int
	inTx         bool
	w            *cache.VerifCacheWorld
}

func (c *verifCacheConn) QueryRow(v any, q string, args ...any) error {
	return c.QueryRowCtx(context.Background(), v, q, args...)
}

func (c *verifCacheConn) QueryRowCtx(_ context.Context, v any, q string, args ...any) error {
	c.t.mu.Lock()
	if q == "row" {
		c.nRow++
	} else {
		c.nIdx++
	}
	fail := (q == "row" && c.failRow) || (q == "idx" && c.failIdx)
	hook := c.onQuery
	c.t.mu.Unlock()
	if c.w != nil {
		c.w.NoteQuery()
	}
	if hook != nil {
		hook()
	}
	if fail {
		return verifCacheErrDb
	}
	c.t.mu.Lock()
	defer c.t.mu.Unlock()
	arg := args[0].(int)
	switch q {
	case "row": // by id
		if r, ok := c.t.rows[arg-c.t.base]; ok && r.Id == arg {
			*v.(*cache.VerifCacheRow) = r
			return nil
		}
	case "idx":
		for _, r := range c.t.rows {
			if r.Name == arg {
				*v.(*cache.VerifCacheRow) = r
				return nil
			}
		}
	}
	return sqlx.ErrNotFound
}

func (c *verifCacheConn) Exec(q string, args ...any) (sql.Result, error) {
	return c.ExecCtx(context.Background(), q, args...)
}

func (c *verifCacheConn) ExecCtx(_ context.Context, q string, args ...any) (sql.Result, error) {
	if c.failExec {
		return nil, verifCacheErrDb
	}
	c.t.mu.Lock()
	defer c.t.mu.Unlock()
	args[0].(func(map[int]cache.VerifCacheRow))(c.t.rows)
	return verifCacheResult{}, nil
}

func (c *verifCacheConn) Transact(fn func(sqlx.Session) error) error {
	return c.TransactCtx(context.Background(), func(_ context.Context, s sqlx.Session) error { return fn(s) })
}

// TransactCtx: all or nothing on the table.
func (c *verifCacheConn) TransactCtx(ctx context.Context, fn func(context.Context, sqlx.Session) error) error {
	c.t.mu.Lock()
	saved := c.t.clone()
	c.t.mu.Unlock()
	sess := &verifCacheConn{t: c.t, failExec: c.failExec, inTx: true}
	if err := fn(ctx, sess); err != nil {
		c.t.mu.Lock()
		c.t.rows = saved
		c.t.mu.Unlock()
		return err
	}
	return nil
}

// ---- one history

type verifCacheSqlH struct {
	w      *cache.VerifCacheWorld
	cc     CachedConn
	conn   *verifCacheConn
	tab    *verifCacheTable
	np, ni int
	expDs  int
	nfDs   int
	ver    int
	calls  int64
	qs     int64
	rnd    *rand.Rand
	kfOK   bool
	dirty  map[int]bool
	base   int  // ids of the rows of the next history: base + key number (0, beyond 2^53, near the top of int64)
	clus   bool // the next history runs on a cluster-type redis client
	cut    int  // > 0: during the next read / write the store goes down at its cut-th command
}

// id magnitudes: small, beyond 2^53 (not representable in a float64: 2^53+1 rounds to 2^53), near MaxInt64
var verifCacheIdBases = []int{0, 1<<53 + 1, 1<<63 - 64}

var verifCacheEmitter *verifEmitter

// verifCacheMsg: the error text, for the reader of a rejected trace only (the specification ignores it)
func verifCacheMsg(err error) string {
	if err == nil {
		return ""
	}
	if s := err.Error(); len(s) > 80 {
		return s[:80]
	} else {
		return s
	}
}

func verifCacheClass(err error) string {
	switch {
	case err == nil:
		return "ok"
	case errors.Is(err, sql.ErrNoRows):
		return "nf"
	case errors.Is(err, verifCacheErrDb):
		return "dberr"
	default:
		return "cerr"
	}
}

var verifCacheConfigs = [][2]int{{20, 10}, {5, 5}, {100, 30}, {600, 100}, {13, 7}, {36000, 600}, {0, 0}}

func (h *verifCacheSqlH) begin(np, ni, expDs, nfDs int) {
	if h.w == nil || h.w.Dead {
		if h.w != nil {
			h.w.Close()
		}
		h.w = cache.VerifCacheNewWorld(func(ev map[string]any) { verifCacheEmitter.Emit(verifEv(ev)) })
	}
	var opts []cache.Option
	e, nf := expDs, nfDs
	if expDs > 0 {
		opts = append(opts, cache.WithExpiry(time.Duration(expDs)*100*time.Millisecond),
			cache.WithNotFoundExpiry(time.Duration(nfDs)*100*time.Millisecond))
	} else {
		e, nf = 7*24*3600*10, 600
	}
	h.np, h.ni, h.expDs, h.nfDs = np, ni, e, nf
	h.tab = &verifCacheTable{rows: make(map[int]cache.VerifCacheRow), base: h.base}
	h.conn = &verifCacheConn{t: h.tab, w: h.w}
	h.dirty = make(map[int]bool)
	h.ver, h.cut = 0, 0
	h.w.IdBase = int64(h.base)
	h.w.UseCluster(h.clus)
	h.w.Begin(np, ni, e, nf, h.kfOK)
	h.cc = NewNodeConn(h.conn, h.w.R, opts...)
}

// content: what the database holds under key number k (row version / primary id / -1)
func (h *verifCacheSqlH) content(k int) int {
	if k < h.np {
		if r, ok := h.tab.rows[k]; ok {
			return r.Ver
		}
		return -1
	}
	for _, r := range h.tab.rows {
		if r.Name == k-h.np {
			return r.Id - h.base
		}
	}
	return -1
}

// pnum: the primary key number behind what QueryRowIndex hands to the keyer / the primary query (-7: none)
func (h *verifCacheSqlH) pnum(primary any) int {
	id := verifCacheInt(primary)
	if id == -7 || id-h.base < 0 || id-h.base >= h.np {
		return -7
	}
	return id - h.base
}

func verifCacheInt(primary any) int {
	n, err := strconv.Atoi(fmt.Sprint(primary))
	if err != nil {
		return -7
	}
	return n
}

func (h *verifCacheSqlH) settle(keys ...int) {
	for _, k := range keys {
		if h.kfOK || !h.dirty[k] || h.w.Down {
			continue
		}
		if h.w.M.Exists(h.w.Key(k)) {
			h.w.AdvanceUntilCleaner(4000)
		}
		if h.w.M.Exists(h.w.Key(k)) {
			h.del([]int{k})
		}
		delete(h.dirty, k)
	}
}

func (h *verifCacheSqlH) arm(failRow, failIdx, flip bool) *bool {
	flipped := new(bool)
	h.conn.nRow, h.conn.nIdx = 0, 0
	h.conn.failRow, h.conn.failIdx = failRow, failIdx
	h.conn.onQuery = nil
	if flip {
		h.conn.onQuery = func() {
			if !*flipped {
				h.w.Flip(!h.w.Down)
				*flipped = true
			}
		}
	}
	return flipped
}

func (h *verifCacheSqlH) disarm() {
	h.conn.failRow, h.conn.failIdx, h.conn.failExec, h.conn.onQuery = false, false, false, nil
}

// take: QueryRow / QueryRowCtx on primary key k
func (h *verifCacheSqlH) take(k int, dbf, flip bool, api int) {
	arm := h.cut
	h.cut = 0
	h.settle(k)
	flipped := h.arm(dbf, false, flip)
	if arm > 0 && !flip {
		h.w.ArmCut(arm)
	}
	var row cache.VerifCacheRow
	var err error
	if api%2 == 0 {
		err = h.cc.QueryRow(&row, h.w.Key(k), func(conn sqlx.SqlConn, v any) error {
			return conn.QueryRow(v, "row", h.base+k)
		})
	} else {
		err = h.cc.QueryRowCtx(context.Background(), &row, h.w.Key(k), func(ctx context.Context, conn sqlx.SqlConn, v any) error {
			return conn.QueryRowCtx(ctx, v, "row", h.base+k)
		})
	}
	cut, qa := h.w.EndCut()
	nq := h.conn.nRow
	h.disarm()
	r, v := verifCacheClass(err), 0
	if err == nil {
		v = row.Ver
	}
	h.w.Ev(map[string]any{"e": "take", "k": k, "r": r, "v": v, "nq": nq, "dbf": dbf, "flip": *flipped, "api": "QueryRow",
		"cut": cut, "qa": qa, "msg": verifCacheMsg(err)})
}

// index: QueryRowIndex / QueryRowIndexCtx on index key i
func (h *verifCacheSqlH) index(i int, dbfi, dbfp, flip bool, api int) {
	arm := h.cut
	h.cut = 0
	all := []int{i}
	for p := 0; p < h.np; p++ {
		all = append(all, p)
	}
	h.settle(all...)
	flipped := h.arm(dbfp, dbfi, flip)
	if arm > 0 && !flip {
		h.w.ArmCut(arm)
	}
	name := i - h.np
	keyer := h.keyer
	var row cache.VerifCacheRow
	var err error
	if api%2 == 0 {
		err = h.cc.QueryRowIndex(&row, h.w.Key(i), keyer,
			func(conn sqlx.SqlConn, v any) (any, error) {
				if err := conn.QueryRow(v, "idx", name); err != nil {
					return nil, err
				}
				return v.(*cache.VerifCacheRow).Id, nil
			},
			func(conn sqlx.SqlConn, v, primary any) error {
				return conn.QueryRow(v, "row", verifCacheInt(primary))
			})
	} else {
		err = h.cc.QueryRowIndexCtx(context.Background(), &row, h.w.Key(i), keyer,
			func(ctx context.Context, conn sqlx.SqlConn, v any) (any, error) {
				if err := conn.QueryRowCtx(ctx, v, "idx", name); err != nil {
					return nil, err
				}
				return v.(*cache.VerifCacheRow).Id, nil
			},
			func(ctx context.Context, conn sqlx.SqlConn, v, primary any) error {
				return conn.QueryRowCtx(ctx, v, "row", verifCacheInt(primary))
			})
	}
	cut, qa := h.w.EndCut()
	qi, qp := h.conn.nIdx, h.conn.nRow
	h.disarm()
	r, v := verifCacheClass(err), 0
	if err == nil {
		v = row.Ver
	}
	h.w.Ev(map[string]any{"e": "index", "k": i, "r": r, "v": v, "qi": qi, "qp": qp, "dbfi": dbfi, "dbfp": dbfp,
		"flip": *flipped, "cut": cut, "qa": qa, "msg": verifCacheMsg(err)})
}

// keyer: the cache key of the row with the given primary id, the way goctl-generated models build it
func (h *verifCacheSqlH) keyer(primary any) string {
	p := h.pnum(primary)
	if p < 0 {
		return fmt.Sprintf("verif-unknown-primary:%v", primary)
	}
	return h.w.Key(p)
}

func (h *verifCacheSqlH) get(k int) {
	var err error
	v := 0
	if k < h.np {
		var row cache.VerifCacheRow
		if err = h.cc.GetCache(h.w.Key(k), &row); err == nil {
			v = row.Ver
		}
	} else {
		var p int
		if err = h.cc.GetCacheCtx(context.Background(), h.w.Key(k), &p); err == nil {
			v = p - h.base
		}
	}
	h.w.Ev(map[string]any{"e": "get", "k": k, "r": verifCacheClass(err), "v": v})
}

func (h *verifCacheSqlH) set(k, v, eDs int) {
	var val any = cache.VerifCacheRow{Id: h.base + k, Name: -1, Ver: v}
	if k >= h.np {
		val = h.base + v // an index entry holds the primary id
	} else if r, ok := h.tab.rows[k]; ok && r.Ver == v {
		val = r
	}
	var err error
	used := h.expDs
	if arm := h.cut; arm > 0 {
		h.cut = 0
		h.w.ArmCut(arm)
	}
	switch {
	case eDs > 0:
		used = eDs
		err = h.cc.SetCacheWithExpire(h.w.Key(k), val, time.Duration(eDs)*100*time.Millisecond)
	case eDs < 0: // a requested expiry that is not positive
		d := []time.Duration{0, -time.Second, -300 * time.Millisecond}[(-eDs-1)%3]
		used = int(d / (100 * time.Millisecond))
		err = h.cc.SetCacheWithExpireCtx(context.Background(), h.w.Key(k), val, d)
	default:
		err = h.cc.SetCache(h.w.Key(k), val)
	}
	cut, _ := h.w.EndCut()
	if err == nil {
		delete(h.dirty, k)
	}
	h.w.Ev(map[string]any{"e": "set", "k": k, "v": v, "x": used, "r": verifCacheClass(err), "cut": cut})
}

func (h *verifCacheSqlH) noteDel(ks []int) {
	for _, k := range ks {
		if h.w.Down {
			h.w.Owed = true
			h.dirty[k] = true
		} else {
			delete(h.dirty, k)
		}
	}
}

func (h *verifCacheSqlH) del(ks []int) {
	err := h.cc.DelCache(h.w.Keys(ks)...)
	h.noteDel(ks)
	h.w.Ev(map[string]any{"e": "write", "upd": [][]int{}, "ks": ks, "dbf": false, "r": verifCacheClass(err)})
}

// mutate applies TLC-style updates to the table: <<p, v>> insert/update row p with version v, <<p, -1>> delete
// row p, <<i, p>> the unique column of row p takes the value of index key i, <<i, -1>> no row has it any more.
func (h *verifCacheSqlH) mutate(rows map[int]cache.VerifCacheRow, muts [][]int) {
	for _, m := range muts {
		k, v := m[0], m[1]
		switch {
		case k < h.np && v < 0:
			delete(rows, k)
		case k < h.np:
			r, ok := rows[k]
			if !ok {
				r = cache.VerifCacheRow{Id: h.base + k, Name: -1}
			}
			r.Ver = v
			rows[k] = r
		default:
			for id, r := range rows {
				if r.Name == k-h.np {
					r.Name = -1
					rows[id] = r
				}
			}
			if r, ok := rows[v]; ok && v >= 0 {
				r.Name = k - h.np
				rows[v] = r
			}
		}
	}
}

// write: a database change through Exec (or a transaction followed by DelCache) with the keys whose
// database content changes (+ extra); the event carries the change as the difference of content().
func (h *verifCacheSqlH) write(muts [][]int, extra []int, dbf bool, via int) {
	arm := h.cut
	h.cut = 0
	before := make([]int, h.np+h.ni)
	for k := range before {
		before[k] = h.content(k)
	}
	// which keys will change: apply to a copy
	probe := h.tab.clone()
	h.mutate(probe, muts)
	saved := h.tab.rows
	h.tab.rows = probe
	upd := [][]int{}
	in := map[int]bool{}
	ks := []int{}
	for k := range before {
		if c := h.content(k); c != before[k] {
			upd = append(upd, []int{k, c})
			ks = append(ks, k)
			in[k] = true
		}
	}
	h.tab.rows = saved
	for _, k := range extra {
		if !in[k] {
			ks = append(ks, k)
			in[k] = true
		}
	}
	sort.Ints(ks)
	if len(ks) == 0 {
		return
	}
	apply := func(rows map[int]cache.VerifCacheRow) { h.mutate(rows, muts) }
	h.conn.failExec = dbf
	keys := h.w.Keys(ks)
	if arm > 0 && !dbf {
		h.w.ArmCut(arm)
	}
	var err error
	vias := []string{"Exec", "ExecCtx", "Transact+DelCache", "Transact(WithSession.Exec)"}
	switch via % 4 {
	case 0:
		_, err = h.cc.Exec(func(conn sqlx.SqlConn) (sql.Result, error) { return conn.Exec("apply", apply) }, keys...)
	case 1:
		_, err = h.cc.ExecCtx(context.Background(), func(ctx context.Context, conn sqlx.SqlConn) (sql.Result, error) {
			return conn.ExecCtx(ctx, "apply", apply)
		}, keys...)
	case 2:
		err = h.cc.Transact(func(s sqlx.Session) error {
			_, err := s.Exec("apply", apply)
			return err
		})
		if err == nil {
			err = h.cc.DelCacheCtx(context.Background(), keys...)
		}
	default:
		err = h.cc.TransactCtx(context.Background(), func(ctx context.Context, s sqlx.Session) error {
			_, err := h.cc.WithSession(s).ExecCtx(ctx, func(ctx context.Context, conn sqlx.SqlConn) (sql.Result, error) {
				return conn.ExecCtx(ctx, "apply", apply)
			}, keys...)
			return err
		})
	}
	cut, _ := h.w.EndCut()
	h.disarm()
	if !dbf {
		h.noteDel(ks)
	} else {
		upd = [][]int{}
	}
	h.w.Ev(map[string]any{"e": "write", "upd": upd, "ks": ks, "dbf": dbf, "r": verifCacheClass(err), "via": vias[via%4],
		"cut": cut})
}

func (h *verifCacheSqlH) do(op verifCacheOp, api int) {
	h.cut = 0
	if op.Op == "take" || op.Op == "index" || op.Op == "write" || op.Op == "set" {
		h.cut = op.Cut
	}
	switch op.Op {
	case "take":
		h.take(op.K, op.Dbf, op.Flip, api)
	case "index":
		h.index(op.K, op.Dbf, op.Dbf2, op.Flip, api)
	case "get":
		h.get(op.K)
	case "set":
		h.set(op.K, op.V, op.E)
	case "write":
		h.write(op.Upd, op.Ks, op.Dbf, api)
	case "del":
		h.del(op.Ks)
	case "cleaner":
		if h.w.Owed {
			h.w.AdvanceUntilCleaner(70)
		}
	case "advance":
		h.w.Advance(op.D)
	case "fault":
		h.w.Fault(op.V == 1)
	}
}

func verifCacheSqlSetup(t *testing.T) *verifCacheSqlH {
	verifCacheEmitter = verifOpen(t)
	if !cache.VerifCacheWB {
		// the cleaner of core/stores/cache cannot be driven on this tree (its internals do not match the white-box
		// part of the world helper): without it no sound history can be recorded, the driver does not run
		verifCacheEmitter.Emit(verifEv{"e": "info", "skipped": "C06 drivers need to drive the cleaner wheel of core/stores/cache"})
		verifCacheEmitter.Close()
		t.Skip("white-box part of the C06 world helper unavailable")
	}
	h := &verifCacheSqlH{rnd: verifRand(607)}
	t.Cleanup(func() {
		if h.w != nil {
			h.w.Close()
		}
		verifCacheEmitter.Close()
	})
	return h
}

// TestVerifCacheSqlcReplay performs TLC-generated histories (CacheAsideMC with index keys).
func TestVerifCacheSqlcReplay(t *testing.T) {
	h := verifCacheSqlSetup(t)
	np, ni := verifEnvInt("VERIF_CACHE_NP", 1), verifEnvInt("VERIF_CACHE_NI", 1)
	for i, raw := range verifInput(t) {
		var ops []verifCacheOp
		if err := json.Unmarshal(raw, &ops); err != nil {
			t.Fatal(err)
		}
		// the ids of the rows rotate over the magnitudes; a history with an invalidation naming several keys is also
		// performed on a cluster-type client (one DEL - and one retry task - per key)
		multi := false
		for _, op := range ops {
			multi = multi || (op.Op == "write" && len(op.Ks) > 1)
		}
		for typ := 0; typ < 2; typ++ {
			if typ == 1 && !multi {
				break
			}
			h.base, h.clus = verifCacheIdBases[i%len(verifCacheIdBases)], typ == 1
			h.begin(np, ni, verifEnvInt("VERIF_CACHE_EXP", 20), verifEnvInt("VERIF_CACHE_NF", 10))
			for j, op := range ops {
				h.do(op, i+j)
			}
		}
	}
	h.base, h.clus = 0, false
}

// nonPos: only the histories validated one by one ask for expiries that are not positive
func (h *verifCacheSqlH) nonPos() int {
	if h.kfOK {
		return 3
	}
	return 0
}

func (h *verifCacheSqlH) pickAdvance() int {
	snap := h.w.Snapshot()
	switch x := h.rnd.Intn(10); {
	case x < 3 || len(snap) == 0:
		return 1 + h.rnd.Intn(3)
	case x < 8:
		ttl := snap[h.rnd.Intn(len(snap))][2] + h.rnd.Intn(3) - 1
		if ttl < 1 {
			ttl = 1
		}
		return ttl
	default:
		d := h.expDs/10 + 2 + h.rnd.Intn(8)
		if d > 4000 && h.w.Owed {
			d = 4000
		}
		return d
	}
}

func (h *verifCacheSqlH) randomOp() {
	p := h.rnd.Intn(h.np)
	i := h.np
	if h.ni > 0 {
		i += h.rnd.Intn(h.ni)
	}
	if !h.w.Down && h.rnd.Intn(12) == 0 { // an outage that begins at a command boundary inside the next read / write
		h.cut = 1 + h.rnd.Intn(4)
	}
	defer func() { h.cut = 0 }()
	switch x := h.rnd.Intn(100); {
	case x < 18:
		h.take(p, h.rnd.Intn(9) == 0, h.rnd.Intn(14) == 0, h.rnd.Intn(2))
	case x < 40 && h.ni > 0:
		h.index(i, h.rnd.Intn(10) == 0, h.rnd.Intn(10) == 0, h.rnd.Intn(12) == 0, h.rnd.Intn(2))
	case x < 62:
		var muts [][]int
		switch y := h.rnd.Intn(10); {
		case y < 4:
			h.ver++
			muts = [][]int{{p, h.ver}}
		case y < 6:
			muts = [][]int{{p, -1}}
		case y < 9 && h.ni > 0:
			muts = [][]int{{i, p}}
			if _, ok := h.tab.rows[p]; !ok {
				h.ver++
				muts = [][]int{{p, h.ver}, {i, p}}
			}
		case h.ni > 0:
			muts = [][]int{{i, -1}}
		default:
			h.ver++
			muts = [][]int{{p, h.ver}}
		}
		if h.rnd.Intn(4) == 0 { // one statement changing every row (and re-pointing an index value)
			muts = nil
			for q := 0; q < h.np; q++ {
				h.ver++
				muts = append(muts, []int{q, h.ver})
			}
			if h.ni > 0 {
				muts = append(muts, []int{i, p})
			}
		}
		var extra []int
		if h.rnd.Intn(3) == 0 { // goctl-generated models invalidate the primary and every index key of the row
			extra = append(extra, p)
			if r, ok := h.tab.rows[p]; ok && r.Name >= 0 {
				extra = append(extra, h.np+r.Name)
			}
		}
		h.write(muts, extra, h.rnd.Intn(10) == 0, h.rnd.Intn(4))
	case x < 66:
		if h.rnd.Intn(2) == 0 {
			h.get(p)
		} else {
			h.get(i % (h.np + h.ni))
		}
	case x < 72:
		v, e := 0, 0
		if r, ok := h.tab.rows[p]; ok && h.rnd.Intn(3) > 0 {
			v = r.Ver
		} else {
			h.ver++
			v = h.ver
		}
		if h.rnd.Intn(2) == 0 {
			e = []int{1, 5, 10, 13, 25, 99, 100, 601, -1, -2, -3}[h.rnd.Intn(8+h.nonPos())]
		}
		h.set(p, v, e)
	case x < 75:
		h.del([]int{[]int{p, i % (h.np + h.ni)}[h.rnd.Intn(2)]})
	case x < 87:
		h.w.Advance(h.pickAdvance())
	case x < 95:
		if h.w.Down {
			h.w.Fault(false)
		} else if h.rnd.Intn(2) == 0 {
			h.w.Fault(true)
		}
	default:
		if h.w.Owed {
			h.w.AdvanceUntilCleaner(1 + h.rnd.Intn(70))
		}
	}
}

// retryScenarios: Exec whose invalidation fails (several keys at once; an outage that outlasts the first
// retries), followed by a store that stays up for the cleaner's whole schedule. No stale entry is read.
func (h *verifCacheSqlH) retryScenarios() {
	h.kfOK = false
	defer func() { h.clus, h.base = false, 0 }()
	for sc := 0; sc < 4; sc++ {
		h.clus, h.base = sc >= 2, verifCacheIdBases[sc%len(verifCacheIdBases)]
		sc := sc % 2
		h.begin(2, 1, 0, 0) // default expiries: nothing expires while the cleaner's schedule runs
		h.write([][]int{{0, 1}, {1, 2}, {2, 0}}, nil, false, sc)
		h.take(0, false, false, 0)
		h.take(1, false, false, 1)
		h.index(2, false, false, false, sc)
		h.w.Fault(true)
		h.write([][]int{{0, 3}, {1, 4}, {2, 1}}, nil, false, sc+1)
		if sc == 1 {
			h.w.Advance(9)
		}
		h.w.Fault(false)
		h.w.Drain()
		h.get(0)
		h.get(2)
	}
}

// TestVerifCacheSqlcRandom: seeded random histories over 1-3 rows and 0-2 unique-index values.
func TestVerifCacheSqlcRandom(t *testing.T) {
	h := verifCacheSqlSetup(t)
	h.retryScenarios()
	n, length := verifEnvInt("VERIF_CACHE_HIST", 40), verifEnvInt("VERIF_CACHE_LEN", 60)
	for x := 0; x < n; x++ {
		cfg := verifCacheConfigs[h.rnd.Intn(len(verifCacheConfigs))]
		h.kfOK = x < verifEnvInt("VERIF_CACHE_KFHIST", 0)
		h.clus, h.base = h.rnd.Intn(3) == 0, verifCacheIdBases[h.rnd.Intn(len(verifCacheIdBases))]
		h.begin(1+h.rnd.Intn(3), h.rnd.Intn(3), cfg[0], cfg[1])
		h.clus = false
		for j := 0; j < length; j++ {
			h.randomOp()
			if h.w.Down && h.rnd.Intn(4) == 0 {
				h.w.Fault(false)
			}
		}
		switch h.rnd.Intn(10) {
		case 0, 1, 2:
			if h.w.Owed {
				h.w.Drain()
				for k := 0; k < h.np; k++ {
					h.take(k, false, false, k)
				}
				for k := h.np; k < h.np+h.ni; k++ {
					h.index(k, false, false, false, k)
				}
			}
		case 3:
			if h.w.Cluster { // (a cluster-type client spends seconds of real time re-discovering a dead topology)
				break
			}
			h.w.Kill()
			for j := 0; j < 4; j++ {
				h.randomOp()
			}
		}
	}
}

// TestVerifCacheSqlcKF: the probed history of the known finding through Exec and QueryRowIndex.
func TestVerifCacheSqlcKF(t *testing.T) {
	h := verifCacheSqlSetup(t)
	h.kfOK = true
	h.begin(1, 1, 600, 100)
	h.write([][]int{{0, 1}, {1, 0}}, nil, false, 0) // row 0 version 1, unique name = index key 1
	h.index(1, false, false, false, 0)
	h.take(0, false, false, 0)
	h.w.Fault(true)
	h.write([][]int{{0, 2}}, []int{1}, false, 1) // Exec succeeds, invalidation fails, Exec reports success
	h.w.Fault(false)
	h.take(0, false, false, 1)
	h.index(1, false, false, false, 1)
	h.w.AdvanceUntilCleaner(3)
	h.take(0, false, false, 0)
	h.index(1, false, false, false, 0)
	h.w.Drain()
	// requested expiries that are not positive
	h.begin(1, 0, 600, 100)
	h.write([][]int{{0, 1}}, nil, false, 0)
	for e := -1; e >= -3; e-- {
		h.set(0, 1, e)
		h.w.Advance(700)
		h.take(0, false, false, -e)
		h.del([]int{0})
	}
}

// phase: n concurrent QueryRow readers of primary key k; the query waits for the driver.
func (h *verifCacheSqlH) phase(k, n int, plan []bool) {
	entered := make(chan int64, n)
	gate := make(chan struct{})
	done := make(chan struct{}, n)
	var nth int64
	for i := 0; i < n; i++ {
		id := int(atomic.AddInt64(&h.calls, 1))
		go func() {
			var row cache.VerifCacheRow
			h.w.Raw(map[string]any{"e": "rstart", "id": id, "k": k})
			err := h.cc.QueryRow(&row, h.w.Key(k), func(conn sqlx.SqlConn, v any) error {
				qid := atomic.AddInt64(&h.qs, 1)
				h.w.Raw(map[string]any{"e": "qstart", "q": int(qid), "k": k, "id": id})
				entered <- qid
				<-gate
				i := int(atomic.AddInt64(&nth, 1)) - 1
				dbf := i < len(plan) && plan[i]
				var err error
				if dbf {
					err = verifCacheErrDb
				} else {
					err = conn.QueryRow(v, "row", h.base+k)
				}
				h.w.Raw(map[string]any{"e": "qend", "q": int(qid), "k": k, "dbf": dbf})
				return err
			})
			r, v := verifCacheClass(err), 0
			if err == nil {
				v = row.Ver
			}
			h.w.Raw(map[string]any{"e": "rend", "id": id, "r": r, "v": v})
			done <- struct{}{}
		}()
		if h.rnd.Intn(3) == 0 {
			runtime.Gosched()
		}
	}
	for left := n; left > 0; {
		select {
		case <-entered:
			for i := 0; i < 30; i++ {
				runtime.Gosched()
			}
			time.Sleep(time.Duration(100+h.rnd.Intn(900)) * time.Microsecond)
			gate <- struct{}{}
		case <-done:
			left--
		}
	}
	h.w.Ev(map[string]any{"e": "obs"})
}

// TestVerifCacheSqlcConc: concurrent QueryRow readers (the package-level SingleFlight).
func TestVerifCacheSqlcConc(t *testing.T) {
	h := verifCacheSqlSetup(t)
	for i := 0; i < verifEnvInt("VERIF_CACHE_ROUNDS", 20); i++ {
		cfg := verifCacheConfigs[h.rnd.Intn(4)]
		h.begin(2, 0, cfg[0], cfg[1])
		for ph := 0; ph < 3+h.rnd.Intn(3); ph++ {
			k := h.rnd.Intn(2)
			switch h.rnd.Intn(4) {
			case 0:
				if _, ok := h.tab.rows[k]; ok && h.rnd.Intn(2) == 0 {
					h.write([][]int{{k, -1}}, nil, false, ph)
				} else {
					h.ver++
					h.write([][]int{{k, h.ver}}, nil, false, ph)
				}
			case 1:
				h.w.Advance(h.pickAdvance())
			}
			plan := []bool{h.rnd.Intn(3) == 0, h.rnd.Intn(3) == 0, false}
			h.phase(k, 2+h.rnd.Intn(verifEnvInt("VERIF_CACHE_G", 5)), plan)
			h.take(k, false, false, ph)
		}
	}
}

// flow runs n concurrent callers; each makes m calls, one after the other: QueryRow on a primary key or
// QueryRowIndex on an index key (which goes on to the primary key it finds). Every query waits for the driver.
// plan[i]: the i-th query of the flow fails.
func (h *verifCacheSqlH) flow(n, m int, plan []bool) {
	entered := make(chan struct{}, 4*n*m)
	gate := make(chan struct{})
	done := make(chan struct{}, n)
	var nth int64
	gated := func(id, k int, run func() error) error {
		qid := int(atomic.AddInt64(&h.qs, 1))
		h.w.Raw(map[string]any{"e": "qstart", "q": qid, "k": k, "id": id})
		entered <- struct{}{}
		<-gate
		i := int(atomic.AddInt64(&nth, 1)) - 1
		dbf := i < len(plan) && plan[i]
		var err error
		if dbf {
			err = verifCacheErrDb
		} else {
			err = run()
		}
		h.w.Raw(map[string]any{"e": "qend", "q": qid, "k": k, "dbf": dbf})
		return err
	}
	for g := 0; g < n; g++ {
		keys := make([]int, m)
		for j := range keys {
			if h.ni > 0 && h.rnd.Intn(3) > 0 {
				keys[j] = h.np + h.rnd.Intn(h.ni)
			} else {
				keys[j] = h.rnd.Intn(h.np)
			}
		}
		go func() {
			for _, k := range keys {
				id := int(atomic.AddInt64(&h.calls, 1))
				k := k
				var row cache.VerifCacheRow
				var err error
				h.w.Raw(map[string]any{"e": "rstart", "id": id, "k": k})
				if k < h.np {
					err = h.cc.QueryRow(&row, h.w.Key(k), func(conn sqlx.SqlConn, v any) error {
						return gated(id, k, func() error { return conn.QueryRow(v, "row", h.base+k) })
					})
				} else {
					err = h.cc.QueryRowIndex(&row, h.w.Key(k), h.keyer,
						func(conn sqlx.SqlConn, v any) (any, error) {
							if err := gated(id, k, func() error { return conn.QueryRow(v, "idx", k-h.np) }); err != nil {
								return nil, err
							}
							return v.(*cache.VerifCacheRow).Id, nil
						},
						func(conn sqlx.SqlConn, v, primary any) error {
							return gated(id, h.pnum(primary), func() error { return conn.QueryRow(v, "row", verifCacheInt(primary)) })
						})
				}
				r, v := verifCacheClass(err), 0
				if err == nil {
					v = row.Ver
				}
				h.w.Raw(map[string]any{"e": "rend", "id": id, "r": r, "v": v, "msg": verifCacheMsg(err)})
			}
			done <- struct{}{}
		}()
	}
	for left := n; left > 0; {
		select {
		case <-entered:
			for i := 0; i < 30; i++ {
				runtime.Gosched()
			}
			time.Sleep(time.Duration(50+h.rnd.Intn(400)) * time.Microsecond)
			gate <- struct{}{}
		case <-done:
			left--
		}
	}
	h.w.Ev(map[string]any{"e": "obs"})
}

// TestVerifCacheSqlcFlow: concurrent callers of QueryRow and QueryRowIndex over several rows and unique-index
// values through the package-level barrier, one call after the other, with row ids of every magnitude
// (the primary id found by an index load reaches the callers that shared the load through the barrier), on 1, 2
// and all processors.
func TestVerifCacheSqlcFlow(t *testing.T) {
	h := verifCacheSqlSetup(t)
	procs := runtime.GOMAXPROCS(0)
	defer runtime.GOMAXPROCS(procs)
	for i := 0; i < verifEnvInt("VERIF_CACHE_FLOWS", 12); i++ {
		cfg := verifCacheConfigs[h.rnd.Intn(4)]
		h.base = verifCacheIdBases[(i+int(verifSeed()))%len(verifCacheIdBases)]
		np, ni := 1+h.rnd.Intn(2), 1+h.rnd.Intn(2)
		h.begin(np, ni, cfg[0], cfg[1])
		runtime.GOMAXPROCS([]int{procs, 1, 2}[i%3])
		for ph := 0; ph < 2+h.rnd.Intn(2); ph++ {
			// rows come, change and go, unique values move; the keys concerned are invalidated: everything the
			// flow reads is uncached again
			for p := 0; p < np; p++ {
				if _, ok := h.tab.rows[p]; ok && h.rnd.Intn(4) == 0 {
					h.write([][]int{{p, -1}}, nil, false, ph)
				} else {
					h.ver++
					h.write([][]int{{p, h.ver}}, nil, false, ph+1)
				}
			}
			for x := np; x < np+ni; x++ {
				p := h.rnd.Intn(np)
				if _, ok := h.tab.rows[p]; ok && h.rnd.Intn(4) > 0 {
					h.write([][]int{{x, p}}, []int{p, x}, false, ph+2)
				} else {
					h.write([][]int{{x, -1}}, []int{x}, false, ph+3)
				}
			}
			all := make([]int, 0, np+ni)
			for k := 0; k < np+ni; k++ {
				all = append(all, k)
			}
			h.del(all)
			plan := []bool{h.rnd.Intn(4) == 0, h.rnd.Intn(4) == 0, h.rnd.Intn(4) == 0, false}
			h.flow(3+h.rnd.Intn(verifEnvInt("VERIF_CACHE_G", 5)), 2+h.rnd.Intn(2), plan)
			for k := 0; k < np; k++ {
				h.take(k, false, false, ph+k)
			}
			for k := np; k < np+ni; k++ {
				h.index(k, false, false, false, ph+k)
			}
		}
	}
	h.base = 0
}
