//go:build verif && !verifnowb

package redis

// C19 drivers, white-box accessor for the identity of an instance (the unexported field
// RedisLock.id). If this file stops compiling against the tree (a field is renamed, the
// identity is kept differently, ...) lib/vlib.py retries the driver with tag verifnowb and
// zz_verif_c19_nowb_test.go takes its place: the drivers then run black-box (no read-back of
// which instance's identity the key carries, no identity census; the contention histories
// are the same).

// lockIdentOf: the identity instance l presents to the store (the value it writes into the key);
// an empty field is "not readable" (an implementation may draw the identity later than at creation).
func lockIdentOf(l *RedisLock) (string, bool) { return l.id, l.id != "" }
