//go:build verif

package redis

// C19 driver: RedisLock instances on one key of a miniredis store whose clock only moves
// by FastForward. The driver performs histories (TLC-generated, seeded random, concurrent
// rounds) and records what the real code answered. It holds no expectations: the verdict
// comes from TLC validating the trace against specs/lock/RedisLock.tla.

import (
	"encoding/json"
	"errors"
	"fmt"
	"io"
	"math/rand"
	"reflect"
	"runtime"
	"strings"
	"sync"
	"sync/atomic"
	"testing"
	"time"

	"github.com/alicebob/miniredis/v2"
	"github.com/alicebob/miniredis/v2/server"
	"github.com/zeromicro/go-zero/core/logx"
)

type lockOp struct {
	Op string `json:"op"`
	I  int    `json:"i"`
	V  int    `json:"v"`
}

// lockWorld is one store (miniredis + go-zero client) shared by the histories that do not
// inject outages; a history that did is followed by a fresh world (fresh breaker, fresh
// connection pool), so that one history's outage does not turn later answers into errors.
type lockWorld struct {
	t     *testing.T
	em    *verifEmitter
	m     *miniredis.Miniredis
	r     *Redis
	mode  string // "up" | "err" | "closed"
	dirty bool   // an outage was injected
	dead  bool   // the store could not be restarted: abandon the world
	key   string
	locks []*RedisLock
	secsv []int64 // what SetExpire was last called with, per instance (0 for a new instance)
	// wide: times and seconds are logged as two-limb numbers [hi, lo] = hi*10^6 + lo
	// (RedisLockWideTrace.tla) so that the whole range of SetExpire (0 .. 2^32-1 seconds,
	// leases up to 4.3e12 ms) can be driven; otherwise plain integers (RedisLockTrace.tla)
	wide  bool
	clock int64 // ms the clock of this trace has been moved
}

const lockLimb = 1000000

// lockMaxClock bounds the clock of one trace (the hi limb of a time stays far below 2^31)
const lockMaxClock = int64(1500000000) * lockLimb

// tv is a time / number of seconds in the trace format of this world.
func (w *lockWorld) tv(v int64) any {
	if w.wide {
		return []int64{v / lockLimb, v % lockLimb}
	}
	return v
}

var (
	lockKeySeq  int64
	lockCallSeq int64
	// trace format of the worlds the running test creates (set at the start of every test):
	// the random / concurrent / scheduler drivers run wide unless VERIF_LOCK_WIDE=0
	lockWide bool
)

func lockWideEnv() bool { return verifEnvInt("VERIF_LOCK_WIDE", 1) == 1 }

func newLockWorld(t *testing.T, em *verifEmitter) *lockWorld {
	logx.Disable()
	for attempt := 0; attempt < 50; attempt++ {
		m, err := miniredis.Run()
		if err != nil {
			time.Sleep(10 * time.Millisecond)
			continue
		}
		r := New(m.Addr())
		// the client pool is cached per address; a recycled port may map to a client this
		// driver closed earlier - probe and take another port in that case
		if !r.Ping() {
			m.Close()
			continue
		}
		return &lockWorld{t: t, em: em, m: m, r: r, mode: "up", wide: lockWide}
	}
	t.Fatal("cannot start a miniredis store")
	return nil
}

func (w *lockWorld) shutdown() {
	if w.mode == "err" {
		w.m.SetError("")
	}
	if c, err := clientManager.GetResource(w.r.Addr, func() (io.Closer, error) {
		return nil, errors.New("no client")
	}); err == nil && c != nil {
		_ = c.Close()
	}
	w.m.Close()
}

// next returns a world fit for a new history.
func (w *lockWorld) next() *lockWorld {
	if w.dirty || w.dead || w.mode != "up" {
		w.shutdown()
		return newLockWorld(w.t, w.em)
	}
	return w
}

// begin starts a new trace: n fresh RedisLock instances on a fresh key.
func (w *lockWorld) begin(n int) {
	w.key = fmt.Sprintf("verif-lock-%d", atomic.AddInt64(&lockKeySeq, 1))
	w.clock = 0
	w.locks = w.locks[:0]
	for i := 0; i < n; i++ {
		w.locks = append(w.locks, NewRedisLock(w.r, w.key))
	}
	w.secsv = make([]int64, n)
	w.em.Emit(verifEv{"e": "reset", "n": n})
}

// holderIdx: which instance of the trace carries the identity val (white-box, see
// zz_verif_c19_wb_test.go; -2: none of them, or the identities cannot be read).
func (w *lockWorld) holderIdx(val string) int {
	h := -2
	for i, l := range w.locks {
		if id, ok := lockIdentOf(l); ok && id == val {
			h = i
		}
	}
	return h
}

// obs records the key as the store has it (no call to the code under test).
// VERIF_LOCK_OBS=0 turns these white-box observations off (purely black-box traces).
func (w *lockWorld) obs() {
	if verifEnvInt("VERIF_LOCK_OBS", 1) == 0 {
		return
	}
	val, err := w.m.Get(w.key)
	if err != nil {
		w.em.Emit(verifEv{"e": "obs", "held": false, "h": -1, "ttl": w.tv(0)})
		return
	}
	h := w.holderIdx(val)
	w.em.Emit(verifEv{"e": "obs", "held": true, "h": h, "ttl": w.tv(int64(w.m.TTL(w.key) / time.Millisecond))})
}

// fault switches the store between up, answering every command with an error, and closed.
func (w *lockWorld) fault(mode string) {
	if mode == w.mode || w.dead {
		return
	}
	if w.mode == "closed" { // back from closed first
		ok := false
		for attempt := 0; attempt < 100; attempt++ {
			if err := w.m.Restart(); err == nil {
				ok = true
				break
			}
			time.Sleep(5 * time.Millisecond)
		}
		if !ok {
			w.dead = true
			return
		}
	} else if w.mode == "err" {
		w.m.SetError("")
	}
	switch mode {
	case "err":
		w.m.SetError("ERR verif injected outage")
	case "closed":
		w.m.Close()
	}
	w.mode = mode
	w.dirty = true
	w.em.Emit(verifEv{"e": "fault", "mode": mode})
}

func (w *lockWorld) acquire(i int) {
	ok, err := w.locks[i].Acquire()
	w.em.Emit(verifEv{"e": "acquire", "i": i, "ok": ok, "err": err != nil})
}

func (w *lockWorld) release(i int) {
	ok, err := w.locks[i].Release()
	w.em.Emit(verifEv{"e": "release", "i": i, "ok": ok, "err": err != nil})
}

func (w *lockWorld) setExpire(i int, s int64) {
	w.locks[i].SetExpire(int(s))
	w.secsv[i] = s
	w.em.Emit(verifEv{"e": "setExpire", "i": i, "s": w.tv(s)})
}

// room: may the clock of this trace still move by d ms (see lockMaxClock)
func (w *lockWorld) room(d int64) bool { return d >= 0 && w.clock+d <= lockMaxClock }

func (w *lockWorld) advance(d int64) {
	if !w.room(d) {
		return
	}
	w.clock += d
	w.m.FastForward(time.Duration(d) * time.Millisecond)
	w.em.Emit(verifEv{"e": "advance", "d": w.tv(d)})
}

// ttlMs is the remaining life of the key in the store (0: no key); used only to aim clock
// advances at the lease boundary.
func (w *lockWorld) ttlMs() int64 {
	if !w.m.Exists(w.key) {
		return 0
	}
	return int64(w.m.TTL(w.key) / time.Millisecond)
}

// TestVerifLockReplay replays TLC-generated operation histories (RedisLockMC, Emit=TRUE).
func TestVerifLockReplay(t *testing.T) {
	em := verifOpen(t)
	defer em.Close()
	n := verifEnvInt("VERIF_LOCK_N", 3)
	closedEvery := verifEnvInt("VERIF_LOCK_CLOSED_EVERY", 7)
	probe := verifEnvInt("VERIF_LOCK_PROBE", 0) == 1
	lockWide = false
	w := newLockWorld(t, em)
	defer func() { w.shutdown() }()
	for hi, raw := range verifInput(t) {
		var ops []lockOp
		if err := json.Unmarshal(raw, &ops); err != nil {
			t.Fatal(err)
		}
		w = w.next()
		w.begin(n)
		for _, op := range ops {
			if w.dead {
				break
			}
			switch op.Op {
			case "acquire":
				w.acquire(op.I)
			case "release":
				w.release(op.I)
			case "setExpire":
				w.setExpire(op.I, int64(op.V))
			case "advance":
				w.advance(int64(op.V))
			case "fault":
				switch {
				case op.V == 0:
					w.fault("up")
				case closedEvery > 0 && hi%closedEvery == 0:
					w.fault("closed")
				default:
					w.fault("err")
				}
			default:
				t.Fatalf("unknown op %q", op.Op)
			}
			w.obs()
		}
		// black-box probe of the lease the history ended with: just before the key goes another
		// instance asks, just after it asks again
		if probe && !w.dead && w.mode == "up" {
			if ttl := w.ttlMs(); ttl > 0 {
				other := (hi + 1) % n
				if ttl > 1 {
					w.advance(ttl - 1)
				}
				w.acquire(other)
				w.advance(1)
				w.acquire(other)
				w.obs()
			}
		}
	}
}

var lockSecs = []int64{0, 0, 1, 1, 2, 3, 5, 10, 60, 600, 3600}

// lockWideSecs: legal SetExpire values (the field is a uint32) at the width boundaries of the
// lease arithmetic seconds*1000+500: 2^24 / 2^31 / 2^32 milliseconds, 2^15 / 2^16 / 2^31 / 2^32
// seconds.
var lockWideSecs = []int64{16777, 16778, 32767, 32768, 65535, 65536, 2147483, 2147484,
	4294966, 4294967, 4294968, 1<<31 - 1, 1 << 31, 1<<31 + 1, 1<<32 - 2, 1<<32 - 1}

// pickSecs draws a value for SetExpire: one of the first `small` ordinary values, or (in a
// wide world, one draw in six) anything up to 2^32-1 seconds.
func (w *lockWorld) pickSecs(rnd *rand.Rand, small int) int64 {
	if w.wide && rnd.Intn(6) == 0 {
		switch rnd.Intn(3) {
		case 0:
			return lockWideSecs[rnd.Intn(len(lockWideSecs))]
		case 1:
			return rnd.Int63n(1 << 32)
		default:
			return 4294967 + rnd.Int63n(1<<32-4294967)
		}
	}
	return lockSecs[rnd.Intn(small)]
}

// TestVerifLockRandom: long seeded sequential histories: up to 6 instances, leases from
// 500 ms to 10 minutes, clock advances aimed at the lease boundary, outages.
func TestVerifLockRandom(t *testing.T) {
	em := verifOpen(t)
	defer em.Close()
	rnd := verifRand(19)
	histories, length := 40, 120
	if verifThorough() {
		histories, length = 300, 250
	}
	lockWide = lockWideEnv()
	w := newLockWorld(t, em)
	defer func() { w.shutdown() }()
	for h := 0; h < histories; h++ {
		w = w.next()
		n := 1 + rnd.Intn(6)
		w.begin(n)
		faulty := rnd.Intn(4) == 0
		errBudget := 6
		ln := 20 + rnd.Intn(length)
		// one history in eight: a long outage (every command answered with an error), long
		// enough for the client's circuit breaker to open, then recovery
		longOutageAt := -1
		if h%8 == 3 {
			longOutageAt = rnd.Intn(ln)
		}
		for k := 0; k < ln && !w.dead; k++ {
			i := rnd.Intn(n)
			if k == longOutageAt {
				w.fault("err")
				for b := 0; b < 40; b++ {
					if j := rnd.Intn(n); rnd.Intn(4) == 0 {
						w.release(j)
					} else {
						w.acquire(j)
					}
				}
				w.obs()
				w.fault("up")
				for b := 0; b < 6; b++ { // answers while the breaker recovers
					w.acquire(rnd.Intn(n))
					w.obs()
				}
			}
			switch x := rnd.Intn(100); {
			case x < 36:
				w.acquire(i)
			case x < 56:
				w.release(i)
			case x < 66:
				w.setExpire(i, w.pickSecs(rnd, len(lockSecs)))
			case x < 95:
				ttl := w.ttlMs()
				lease := w.secsv[i]*1000 + 500
				var d int64
				switch y := rnd.Intn(10); {
				case y < 2 && ttl > 1:
					d = ttl - 1
				case y < 4 && ttl > 0:
					d = ttl
				case y < 5 && ttl > 0:
					d = ttl + 1
				case y < 7 && ttl > 1:
					d = 1 + rnd.Int63n(ttl)
				case y < 8:
					d = lease - 1 + rnd.Int63n(3)
				default:
					d = 1 + rnd.Int63n(700)
				}
				w.advance(d)
			default:
				if !faulty {
					w.acquire(i)
					break
				}
				if w.mode != "up" {
					w.fault("up")
				} else if errBudget > 0 {
					errBudget--
					if rnd.Intn(5) == 0 {
						w.fault("closed")
					} else {
						w.fault("err")
					}
				}
			}
			if w.mode != "up" && rnd.Intn(3) == 0 { // keep outages short
				w.obs()
				w.fault("up")
			}
			w.obs()
		}
	}
}

type lockCall struct {
	op string
	i  int
}

// TestVerifLockConcurrent: rounds of simultaneous Acquire / Release from several goroutines
// (and sometimes a clock jump at the same time), separated by sequential steps.
// callStart is logged before the call, callEnd after it returned; TLC finds the
// linearisation.
func TestVerifLockConcurrent(t *testing.T) {
	em := verifOpen(t)
	defer em.Close()
	rnd := verifRand(1919 + int64(runtime.GOMAXPROCS(0)))
	traces, rounds := 30, 8
	if verifThorough() {
		traces, rounds = 200, 12
	}
	lockWide = lockWideEnv()
	w := newLockWorld(t, em)
	defer func() { w.shutdown() }()
	for tr := 0; tr < traces; tr++ {
		w = w.next()
		n := 2 + rnd.Intn(4)
		w.begin(n)
		for i := 0; i < n; i++ {
			if rnd.Intn(2) == 0 {
				w.setExpire(i, w.pickSecs(rnd, 5))
			}
		}
		faulty := rnd.Intn(5) == 0
		for rd := 0; rd < rounds && !w.dead; rd++ {
			k := 2 + rnd.Intn(7)
			calls := make([]lockCall, k)
			spins := make([]int, k)
			for c := range calls {
				calls[c] = lockCall{op: "acquire", i: rnd.Intn(n)}
				if rnd.Intn(5) == 0 {
					calls[c].op = "release"
				}
				spins[c] = rnd.Intn(4)
			}
			adv := int64(-1)
			if rnd.Intn(3) == 0 {
				ttl := w.ttlMs()
				switch y := rnd.Intn(4); {
				case y == 0 && ttl > 1:
					adv = ttl - 1
				case y == 1 && ttl > 0:
					adv = ttl
				case y == 2 && ttl > 0:
					adv = ttl + 1
				default:
					adv = 1 + rnd.Int63n(600)
				}
				if !w.room(adv) {
					adv = -1
				}
			}
			midFault := faulty && rnd.Intn(3) == 0
			start := make(chan struct{})
			var wg sync.WaitGroup
			for c := range calls {
				wg.Add(1)
				go func(cl lockCall, spin int) {
					defer wg.Done()
					<-start
					for s := 0; s < spin; s++ {
						runtime.Gosched()
					}
					id := int(atomic.AddInt64(&lockCallSeq, 1))
					em.Emit(verifEv{"e": "callStart", "c": id, "op": cl.op, "i": cl.i, "d": w.tv(0)})
					var ok bool
					var err error
					if cl.op == "acquire" {
						ok, err = w.locks[cl.i].Acquire()
					} else {
						ok, err = w.locks[cl.i].Release()
					}
					em.Emit(verifEv{"e": "callEnd", "c": id, "ok": ok, "err": err != nil})
				}(calls[c], spins[c])
			}
			close(start)
			if midFault {
				w.fault("err")
			}
			if adv >= 0 {
				for s := 0; s < rnd.Intn(4); s++ {
					runtime.Gosched()
				}
				id := int(atomic.AddInt64(&lockCallSeq, 1))
				em.Emit(verifEv{"e": "callStart", "c": id, "op": "advance", "i": -1, "d": w.tv(adv)})
				w.clock += adv
				w.m.FastForward(time.Duration(adv) * time.Millisecond)
				em.Emit(verifEv{"e": "callEnd", "c": id, "ok": true, "err": false})
			}
			if midFault {
				w.fault("up")
			}
			wg.Wait()
			w.obs()
			// sequential interlude
			for s := rnd.Intn(3); s > 0 && !w.dead; s-- {
				i := rnd.Intn(n)
				switch rnd.Intn(5) {
				case 0:
					w.release(i)
				case 1:
					w.setExpire(i, w.pickSecs(rnd, 5))
				case 2:
					if ttl := w.ttlMs(); ttl > 0 {
						w.advance(ttl - 1 + rnd.Int63n(3))
					} else {
						w.advance(1 + rnd.Int63n(500))
					}
				case 3:
					// the current holder (as the store has it) lets go
					if val, err := w.m.Get(w.key); err == nil {
						if j := w.holderIdx(val); j >= 0 {
							w.release(j)
						}
					}
				default:
					w.acquire(i)
				}
				w.obs()
			}
		}
	}
}

// ---- command-level scheduler -------------------------------------------------------
//
// lockGate is installed as miniredis' pre-command hook: every command a client sends
// (EVALSHA/EVAL of the lock scripts today; GET, SET, DEL ... if the implementation ever
// splits a call into several commands) waits at the gate until the driver lets it through.
// With all running calls parked at the gate the driver decides which command the store
// executes next and may move the clock in between. Calls are thereby interleaved at the
// granularity of store commands, deterministically (seeded), without touching go-zero.
type lockGate struct {
	mu      sync.Mutex
	cond    *sync.Cond
	on      bool
	waiting []chan bool // parked commands; send true to let it run, false to fail it
	running int         // calls started and not returned
	expired bool
}

var lockGatePass = map[string]bool{"HELLO": true, "CLIENT": true, "PING": true, "AUTH": true,
	"SELECT": true, "QUIT": true, "COMMAND": true}

// commands issued by redis.call inside a script run under the store lock and are not parked
func lockNestedCall(c *server.Peer) bool {
	if c == nil || c.Ctx == nil {
		return false
	}
	v := reflect.ValueOf(c.Ctx)
	for v.Kind() == reflect.Ptr || v.Kind() == reflect.Interface {
		if v.IsNil() {
			return false
		}
		v = v.Elem()
	}
	if v.Kind() != reflect.Struct {
		return false
	}
	f := v.FieldByName("nested")
	return f.IsValid() && f.Kind() == reflect.Bool && f.Bool()
}

func (g *lockGate) hook(c *server.Peer, cmd string, args ...string) bool {
	if lockGatePass[strings.ToUpper(cmd)] || lockNestedCall(c) {
		return false
	}
	g.mu.Lock()
	if !g.on {
		g.mu.Unlock()
		return false
	}
	ch := make(chan bool, 1)
	g.waiting = append(g.waiting, ch)
	g.cond.Broadcast()
	g.mu.Unlock()
	if <-ch {
		return false
	}
	c.WriteError("ERR verif injected failure")
	return true
}

// settle waits until every running call is parked at the gate (or none is running).
func (g *lockGate) settle(t *testing.T) (parked, running int) {
	timer := time.AfterFunc(60*time.Second, func() {
		g.mu.Lock()
		g.expired = true
		g.cond.Broadcast()
		g.mu.Unlock()
	})
	defer timer.Stop()
	g.mu.Lock()
	defer g.mu.Unlock()
	for len(g.waiting) != g.running && !g.expired {
		g.cond.Wait()
	}
	if g.expired {
		for _, ch := range g.waiting {
			ch <- true
		}
		g.waiting = nil
		g.on = false
		t.Fatalf("lock scheduler: calls neither parked nor returned (parked %d, running %d)", len(g.waiting), g.running)
	}
	return len(g.waiting), g.running
}

func (g *lockGate) release(k int, run bool) {
	g.mu.Lock()
	ch := g.waiting[k]
	g.waiting = append(g.waiting[:k], g.waiting[k+1:]...)
	// the call is now neither parked nor returned: account for it as "in transit" by
	// bumping nothing - settle() compares parked with running, and this call is running
	g.mu.Unlock()
	ch <- run
}

// TestVerifLockSched: rounds of 2..4 overlapping calls whose store commands are released one
// at a time in a seeded order, with clock jumps aimed at the lease boundary between them and
// occasional injected command failures.
func TestVerifLockSched(t *testing.T) {
	em := verifOpen(t)
	defer em.Close()
	rnd := verifRand(190019)
	traces, rounds := 60, 10
	if verifThorough() {
		traces, rounds = 500, 14
	}
	lockWide = lockWideEnv()
	w := newLockWorld(t, em)
	defer func() { w.shutdown() }()
	g := &lockGate{}
	g.cond = sync.NewCond(&g.mu)
	for tr := 0; tr < traces; tr++ {
		if w.dirty || w.dead || tr == 0 {
			if tr > 0 {
				w.shutdown()
				w = newLockWorld(t, em)
			}
			w.m.Server().SetPreHook(g.hook)
		}
		n := 2 + rnd.Intn(3)
		w.begin(n)
		for i := 0; i < n; i++ {
			w.setExpire(i, w.pickSecs(rnd, 5))
		}
		failing := rnd.Intn(4) == 0
		if failing {
			w.dirty = true // next trace starts with a fresh client (breaker statistics)
		}
		for rd := 0; rd < rounds; rd++ {
			// who holds the key now (as the store has it): rounds are built around that instance
			cur := -1
			if val, err := w.m.Get(w.key); err == nil {
				if j := w.holderIdx(val); j >= 0 {
					cur = j
				}
			}
			k := 2 + rnd.Intn(3)
			calls := make([]lockCall, k)
			for c := range calls {
				calls[c] = lockCall{op: "acquire", i: rnd.Intn(n)}
				switch x := rnd.Intn(10); {
				case x < 3 && cur >= 0:
					calls[c] = lockCall{op: "release", i: cur}
				case x < 4:
					calls[c].op = "release"
				case x < 5 && cur >= 0:
					calls[c].i = cur
				}
			}
			g.mu.Lock()
			g.on = true
			g.running = k
			g.mu.Unlock()
			for c := range calls {
				go func(cl lockCall) {
					id := int(atomic.AddInt64(&lockCallSeq, 1))
					em.Emit(verifEv{"e": "callStart", "c": id, "op": cl.op, "i": cl.i, "d": w.tv(0)})
					var ok bool
					var err error
					if cl.op == "acquire" {
						ok, err = w.locks[cl.i].Acquire()
					} else {
						ok, err = w.locks[cl.i].Release()
					}
					em.Emit(verifEv{"e": "callEnd", "c": id, "ok": ok, "err": err != nil})
					g.mu.Lock()
					g.running--
					g.cond.Broadcast()
					g.mu.Unlock()
				}(calls[c])
			}
			for {
				parked, running := g.settle(t)
				if running == 0 {
					break
				}
				if rnd.Intn(3) == 0 {
					ttl := w.ttlMs()
					switch y := rnd.Intn(5); {
					case y == 0 && ttl > 1:
						w.advance(ttl - 1)
					case y <= 2 && ttl > 0:
						w.advance(ttl)
					case y == 3 && ttl > 0:
						w.advance(ttl + 1)
					default:
						w.advance(1 + rnd.Int63n(400))
					}
				}
				g.release(rnd.Intn(parked), !(failing && rnd.Intn(6) == 0))
			}
			g.mu.Lock()
			g.on = false
			g.mu.Unlock()
			w.obs()
			if rnd.Intn(3) == 0 {
				if ttl := w.ttlMs(); ttl > 0 && rnd.Intn(2) == 0 {
					w.advance(ttl - 1 + rnd.Int63n(3))
				} else {
					w.setExpire(rnd.Intn(n), w.pickSecs(rnd, 5))
				}
				w.obs()
			}
		}
	}
}
