//go:build verif

package redis

// C19 driver, wide range: replay of the histories TLC generates from RedisLockWideMC.tla
// (Base = 10^6) with SetExpire values at the width boundaries of the lease arithmetic
// (2^31 / 2^32 milliseconds, 2^31 / 2^32 seconds, ...). Times and seconds travel as two-limb
// numbers [hi, lo] = hi*10^6 + lo in both directions. No expectations here: the trace is
// validated by TLC against RedisLockWideTrace.tla.

import (
	"encoding/json"
	"testing"
)

type lockWideOp struct {
	Op string   `json:"op"`
	I  int      `json:"i"`
	V  [2]int64 `json:"v"`
}

func (o lockWideOp) val() int64 { return o.V[0]*lockLimb + o.V[1] }

func TestVerifLockWideReplay(t *testing.T) {
	em := verifOpen(t)
	defer em.Close()
	n := verifEnvInt("VERIF_LOCK_WIDE_N", 2)
	probe := verifEnvInt("VERIF_LOCK_PROBE", 0) == 1
	lockWide = true
	w := newLockWorld(t, em)
	defer func() { w.shutdown() }()
	for hi, raw := range verifInput(t) {
		var ops []lockWideOp
		if err := json.Unmarshal(raw, &ops); err != nil {
			t.Fatal(err)
		}
		w = w.next()
		w.begin(n)
		for _, op := range ops {
			if w.dead {
				break
			}
			switch op.Op {
			case "acquire":
				w.acquire(op.I)
			case "release":
				w.release(op.I)
			case "setExpire":
				w.setExpire(op.I, op.val())
			case "advance":
				w.advance(op.val())
			case "fault":
				if op.val() == 0 {
					w.fault("up")
				} else {
					w.fault("err")
				}
			default:
				t.Fatalf("unknown op %q", op.Op)
			}
			w.obs()
		}
		// black-box probe of the lease the history ended with: just before the key goes another
		// instance asks, just after it asks again
		if probe && !w.dead && w.mode == "up" {
			if ttl := w.ttlMs(); ttl > 0 {
				other := (hi + 1) % n
				if ttl > 1 {
					w.advance(ttl - 1)
				}
				w.acquire(other)
				w.advance(1)
				w.acquire(other)
				w.obs()
			}
		}
	}
}
