//go:build verif && verifnowb

package redis

// C19 drivers, black-box stand-ins for zz_verif_c19_wb_test.go (tag verifnowb): the
// identities of the instances cannot be read.

func lockIdentOf(l *RedisLock) (string, bool) { return "", false }
