//go:build verif

package redis

// C19 driver, population of instances: "for every number of lock instances on a key".
//
// A process creates RedisLock instances all the time (one per request / per job). This driver
// creates a LARGE population in one process (2^18 instances in the quick tier, 2^24 in the
// thorough tier - creation does not talk to the store) and keeps the instances created at a
// sample of creation ordinals: consecutive ones, powers of two and their neighbours, multiples
// of the usual counter widths (2^8, 2^16, 2^24), a few seeded random ones. Then
//
//   - census (white-box, zz_verif_c19_wb_test.go): for every batch of creations, how many
//     instances were made and how many identities nobody had before they brought
//     (event census{n, ids, known}; LockPop.tla: each instance has its own identity);
//     the last batch of the population is created by several goroutines at the same time;
//   - contention (black-box): every pair of kept instances - i.e. two instances whose
//     creations lie 1, 2, 255, 256, ... 2^16-1, 2^16, 2^16+1, ... 2^24+1 creations apart -
//     compete for the one key on miniredis: one holds, the other asks / releases; one lets its
//     lease run out, the other takes the key, the first releases late.
//
// The driver has no expectations: the events are validated by TLC against
// RedisLock(Wide)Trace.tla (the abstract lock + LockPop.tla).

import (
	"fmt"
	"sort"
	"sync"
	"sync/atomic"
	"testing"
)

// the last batch of a sweep is created by popG goroutines at the same time, popPer instances each
const popG, popPer = 4, 1 << 15

// lockPopMarks: creation ordinals (relative to the first kept instance) at which an instance
// is kept, up to `top`.
func lockPopMarks(top int, extra []int) []int {
	set := map[int]bool{0: true}
	add := func(v int) {
		if v >= 0 && v <= top+1 {
			set[v] = true
		}
	}
	for _, v := range []int{1, 2, 3, 255, 256, 257, 512, 4095, 4096, 32768, 65535, 65536, 65537,
		65536 + 256, 2 * 65536, 2*65536 - 1, 2*65536 + 1, 3 * 65536, 4 * 65536, 4*65536 - 1, 4*65536 + 1,
		1 << 20, 1<<20 + 1, 1<<20 + 65536, 1 << 22, 1<<24 - 65536, 1<<24 - 1, 1 << 24, 1<<24 + 1} {
		add(v)
	}
	for _, v := range extra {
		add(v)
	}
	out := make([]int, 0, len(set))
	for v := range set {
		out = append(out, v)
	}
	sort.Ints(out)
	return out
}

func TestVerifLockPop(t *testing.T) {
	em := verifOpen(t)
	defer em.Close()
	rnd := verifRand(1965536)
	lockWide = lockWideEnv()
	// (top, census up to) per sweep
	sweeps := [][2]int{{verifEnvInt("VERIF_LOCK_POP_TOP", 1<<18), verifEnvInt("VERIF_LOCK_POP_CENSUS", 1<<18+2)}}
	if verifThorough() {
		sweeps = [][2]int{{verifEnvInt("VERIF_LOCK_POP_TOP", 1<<24), verifEnvInt("VERIF_LOCK_POP_CENSUS", 1<<20+2)},
			{1 << 18, 1<<18 + 2}, {1<<16 + 300, 1<<16 + 302}}
	}
	const chunk = 1 << 16 // a census event at least every so many creations
	w := newLockWorld(t, em)
	defer func() { w.shutdown() }()
	for sw, cfg := range sweeps {
		top, censusCap := cfg[0], cfg[1]
		w = w.next()
		var extra []int
		for k := 0; k < 4; k++ {
			extra = append(extra, rnd.Intn(top+1))
		}
		// a seeded multiple of 2^8 and one of 2^16
		extra = append(extra, 256*(1+rnd.Intn(top/256)), 65536*(1+rnd.Intn(top/65536+1)))
		marks := lockPopMarks(top, extra)
		n := len(marks) + popG
		base := 1 + rnd.Intn(1000) // ordinal of the first kept instance
		censusCap += base
		w.key = fmt.Sprintf("verif-lock-%d", atomic.AddInt64(&lockKeySeq, 1))
		// the instances in between are made for the same key (then "the k-th instance" means the
		// same for a per-process, a per-store and a per-key notion of creation order) or, one
		// sweep in three, for other keys
		fillKey := w.key
		if (sw+int(verifSeed()))%3 == 2 {
			fillKey = w.key + "-other"
		}
		w.clock = 0
		w.locks = w.locks[:0]
		w.secsv = make([]int64, n)
		em.Emit(verifEv{"e": "reset", "n": n})
		// ---- creation sweep: a tight loop (nothing but NewRedisLock and two appends between two
		// creations - instances made back to back are part of the population); the events are
		// written afterwards
		// can the identities be read at all? (a probe instance made before the population)
		_, readable := lockIdentOf(NewRedisLock(w.r, fillKey))
		type bound struct{ made, keep int } // a census point; keep: the trace instance made last (-1: none)
		var bounds []bound
		all := make([]string, 0, 1<<16) // identities in creation order, as far as they are read
		made := 0
		mk := func(key string) *RedisLock {
			l := NewRedisLock(w.r, key)
			made++
			if readable && made <= censusCap {
				if id, ok := lockIdentOf(l); ok {
					all = append(all, id)
				} else {
					readable = false
				}
			}
			return l
		}
		for i, m := range marks {
			for made < base+m-1 {
				mk(fillKey)
				if made%chunk == 0 {
					bounds = append(bounds, bound{made, -1})
				}
			}
			w.locks = append(w.locks, mk(w.key))
			bounds = append(bounds, bound{made, i})
		}
		// a last batch is created by popG goroutines at the same time (popPer instances each);
		// every goroutine keeps the last instance it made. Which of them is the k-th is not
		// known: `ord` is the end of the goroutine's share of the batch.
		{
			kept := make([]*RedisLock, popG)
			got := make([][]string, popG)
			read := readable && len(all) == made
			start := make(chan struct{})
			var wg sync.WaitGroup
			for g := 0; g < popG; g++ {
				wg.Add(1)
				go func(g int) {
					defer wg.Done()
					if read {
						got[g] = make([]string, 0, popPer)
					}
					<-start
					var l *RedisLock
					for k := 0; k < popPer; k++ {
						l = NewRedisLock(w.r, w.key)
						if read {
							if id, ok := lockIdentOf(l); ok {
								got[g] = append(got[g], id)
							}
						}
					}
					kept[g] = l
				}(g)
			}
			close(start)
			wg.Wait()
			for g := 0; g < popG; g++ {
				if len(got[g]) != popPer { // not every identity of the batch could be read
					read = false
				}
			}
			for g := 0; g < popG; g++ {
				if read {
					all = append(all, got[g]...)
				}
				w.locks = append(w.locks, kept[g])
			}
			made += popG * popPer
			bounds = append(bounds, bound{made, -1})
		}
		// ---- the events of the sweep: per batch, how many instances and how many identities
		// nobody had before (as far as the identities were read)
		{
			ids := make(map[string]struct{}, len(all))
			last := 0
			census := func(upto int, known bool) {
				if upto <= last {
					return
				}
				before := len(ids)
				if known {
					for _, id := range all[last:upto] {
						ids[id] = struct{}{}
					}
				}
				em.Emit(verifEv{"e": "census", "n": upto - last, "ids": len(ids) - before, "known": known})
				last = upto
			}
			for _, b := range bounds {
				if b.made <= len(all) {
					census(b.made, true)
				} else {
					census(len(all), true)
					census(b.made, false)
				}
				if b.keep >= 0 {
					em.Emit(verifEv{"e": "create", "i": b.keep, "ord": b.made})
				}
			}
			for g := 0; g < popG; g++ {
				em.Emit(verifEv{"e": "create", "i": len(marks) + g, "ord": made - (popG-1-g)*popPer})
			}
		}
		all = nil
		// ---- contention: every pair of kept instances, both ways round
		pairs := make([][2]int, 0, n*n)
		for x := 0; x < n; x++ {
			for y := x + 1; y < n; y++ {
				if rnd.Intn(2) == 0 {
					pairs = append(pairs, [2]int{x, y})
				} else {
					pairs = append(pairs, [2]int{y, x})
				}
			}
		}
		rnd.Shuffle(len(pairs), func(a, b int) { pairs[a], pairs[b] = pairs[b], pairs[a] })
		for _, p := range pairs {
			if w.dead {
				break
			}
			x, y := p[0], p[1]
			if idx, ok := lockIdentOf(w.locks[x]); ok {
				if idy, ok := lockIdentOf(w.locks[y]); ok {
					em.Emit(verifEv{"e": "same", "i": x, "j": y, "same": idx == idy})
				}
			}
			if rnd.Intn(5) == 0 {
				w.setExpire(x, int64(rnd.Intn(3)))
			}
			switch rnd.Intn(4) {
			case 0, 1: // x holds; y asks and releases; x is still there
				w.acquire(x)
				w.acquire(y)
				w.release(y)
				w.obs()
				w.release(x)
			case 2: // x holds until just before the end of its lease; y keeps asking
				w.acquire(x)
				w.acquire(y)
				if ttl := w.ttlMs(); ttl > 1 {
					w.advance(ttl - 1)
				}
				w.acquire(y)
				w.release(y)
				w.acquire(x)
				w.obs()
				w.release(x)
			default: // x's lease runs out, y takes the key, x releases late
				w.acquire(x)
				if ttl := w.ttlMs(); ttl > 0 {
					w.advance(ttl)
				}
				w.acquire(y)
				w.release(x)
				w.obs()
				w.release(y)
			}
			w.obs()
		}
	}
}
