//go:build verif

package cache

// C06 driver for cache.NewNode (cacheNode) on a miniredis store with a harness-owned
// "database" (a map read by the query closures). It performs histories - TLC-generated,
// seeded random, and phases of concurrent readers behind a gated query function - and
// records what the real code answered and what the store contains afterwards. It holds no
// expectations; the verdict comes from TLC validating the trace against
// specs/cache/CacheAside.tla.

import (
	"context"
	"encoding/json"
	"errors"
	"math/rand"
	"runtime"
	"sync/atomic"
	"testing"
	"time"

	"github.com/zeromicro/go-zero/core/syncx"
)

var (
	verifCacheErrNF = errors.New("verif: no such row")
	verifCacheErrDb = errors.New("verif: database error")
)

type verifCacheOp struct {
	Op   string  `json:"op"`
	K    int     `json:"k"`
	V    int     `json:"v"`
	Dbf  bool    `json:"dbf"`
	Dbf2 bool    `json:"dbf2"`
	Flip bool    `json:"flip"`
	Cut  int     `json:"cut"`
	D    int     `json:"d"`
	E    int     `json:"e"`
	Ks   []int   `json:"ks"`
	Upd  [][]int `json:"upd"`
}

// verifCacheNodeH is one history: a world, a cacheNode, the harness database.
type verifCacheNodeH struct {
	w      *VerifCacheWorld
	c      Cache
	st     *Stat
	db     map[int]*VerifCacheRow
	expDs  int
	nfDs   int
	ver    int
	calls  int64
	qs     int64
	rnd    *rand.Rand
	traces int
	kfOK   bool         // this history may read what a failed invalidation left behind (the known finding)
	dirty  map[int]bool // keys invalidated while the store was down
	clus   bool         // the next history runs on a cluster-type redis client (per-key DEL, per-key retry tasks)
	cut    int          // > 0: during the next take / write the store goes down at its cut-th command
}

// verifCacheMsg: the error text, for the reader of a rejected trace only (the specification ignores it)
func verifCacheMsg(err error) string {
	if err == nil {
		return ""
	}
	if s := err.Error(); len(s) > 80 {
		return s[:80]
	} else {
		return s
	}
}

func verifCacheClass(err error) string {
	switch {
	case err == nil:
		return "ok"
	case errors.Is(err, verifCacheErrNF):
		return "nf"
	case errors.Is(err, verifCacheErrDb):
		return "dberr"
	default:
		return "cerr"
	}
}

// expiries (deciseconds) the histories are run with; 0,0 = the package defaults (7 days / 1 minute)
var verifCacheConfigs = [][2]int{{20, 10}, {5, 5}, {100, 30}, {600, 100}, {13, 7}, {36000, 600}, {0, 0}}

func (h *verifCacheNodeH) begin(np, expDs, nfDs int) {
	if h.w == nil || h.w.Dead {
		if h.w != nil {
			h.w.Close()
		}
		em := h.emit
		h.w = VerifCacheNewWorld(em)
	}
	var opts []Option
	e, nf := expDs, nfDs
	if expDs > 0 {
		opts = append(opts, WithExpiry(time.Duration(expDs)*100*time.Millisecond),
			WithNotFoundExpiry(time.Duration(nfDs)*100*time.Millisecond))
	} else {
		e, nf = int(defaultExpiry/(100*time.Millisecond)), int(defaultNotFoundExpiry/(100*time.Millisecond))
	}
	h.expDs, h.nfDs = e, nf
	h.db = make(map[int]*VerifCacheRow)
	h.dirty = make(map[int]bool)
	h.ver, h.cut = 0, 0
	h.w.UseCluster(h.clus)
	h.w.Begin(np, 0, e, nf, h.kfOK)
	h.c = NewNode(h.w.R, syncx.NewSingleFlight(), h.st, verifCacheErrNF, opts...)
	h.traces++
}

var verifCacheEmitter *verifEmitter

func (h *verifCacheNodeH) emit(ev map[string]any) { verifCacheEmitter.Emit(verifEv(ev)) }

// settle: unless the history is one that may show the known finding, let the cleaner make good a failed
// invalidation of k before k is read again (the driver knows which keys it invalidated during an outage)
func (h *verifCacheNodeH) settle(k int) {
	if h.kfOK || !h.dirty[k] || h.w.Down {
		return
	}
	if h.w.M.Exists(h.w.Key(k)) {
		h.w.AdvanceUntilCleaner(4000)
	}
	if h.w.M.Exists(h.w.Key(k)) {
		h.write(nil, []int{k}, false)
	}
	delete(h.dirty, k)
}

func (h *verifCacheNodeH) take(k int, dbf, flip bool, api int) {
	arm := h.cut
	h.cut = 0
	h.settle(k)
	nq, flipped := 0, false
	if arm > 0 && !flip {
		h.w.ArmCut(arm)
	}
	var row VerifCacheRow
	q := func(v any) error {
		nq++
		h.w.NoteQuery()
		if flip {
			h.w.Flip(!h.w.Down)
			flipped = true
		}
		if dbf {
			return verifCacheErrDb
		}
		r, ok := h.db[k]
		if !ok {
			return verifCacheErrNF
		}
		*v.(*VerifCacheRow) = *r
		return nil
	}
	qe := func(v any, _ time.Duration) error { return q(v) }
	var err error
	switch api % 4 {
	case 0:
		err = h.c.Take(&row, h.w.Key(k), q)
	case 1:
		err = h.c.TakeCtx(context.Background(), &row, h.w.Key(k), q)
	case 2:
		err = h.c.TakeWithExpire(&row, h.w.Key(k), qe)
	default:
		err = h.c.TakeWithExpireCtx(context.Background(), &row, h.w.Key(k), qe)
	}
	cut, qa := h.w.EndCut()
	r, v := verifCacheClass(err), 0
	if err == nil {
		v = row.Ver
	}
	h.w.Ev(map[string]any{"e": "take", "k": k, "r": r, "v": v, "nq": nq, "dbf": dbf, "flip": flipped, "api": api % 4,
		"cut": cut, "qa": qa, "msg": verifCacheMsg(err)})
}

func (h *verifCacheNodeH) get(k int) {
	var row VerifCacheRow
	err := h.c.Get(h.w.Key(k), &row)
	r, v := verifCacheClass(err), 0
	if err == nil {
		v = row.Ver
	}
	h.w.Ev(map[string]any{"e": "get", "k": k, "r": r, "v": v})
}

// nonPos: only the histories validated one by one ask for expiries that are not positive
func (h *verifCacheNodeH) nonPos() int {
	if h.kfOK {
		return 3
	}
	return 0
}

// verifCacheNonPositive: requested expiries that are not positive (set's eDs -1, -2, -3)
var verifCacheNonPositive = []time.Duration{0, -time.Second, -300 * time.Millisecond}

func (h *verifCacheNodeH) set(k, v, eDs int) {
	row := VerifCacheRow{Id: k, Name: -1, Ver: v}
	var err error
	used := h.expDs
	if arm := h.cut; arm > 0 {
		h.cut = 0
		h.w.ArmCut(arm)
	}
	switch {
	case eDs > 0:
		used = eDs
		err = h.c.SetWithExpire(h.w.Key(k), row, time.Duration(eDs)*100*time.Millisecond)
	case eDs < 0:
		d := verifCacheNonPositive[(-eDs-1)%3]
		used = int(d / (100 * time.Millisecond))
		err = h.c.SetWithExpireCtx(context.Background(), h.w.Key(k), row, d)
	default:
		err = h.c.Set(h.w.Key(k), row)
	}
	cut, _ := h.w.EndCut()
	if err == nil {
		delete(h.dirty, k)
	}
	h.w.Ev(map[string]any{"e": "set", "k": k, "v": v, "x": used, "r": verifCacheClass(err), "cut": cut})
}

// write changes the harness database and invalidates ks the way sqlc.Exec does (Del after the write).
func (h *verifCacheNodeH) write(upd [][]int, ks []int, dbf bool) {
	r, cut := "dberr", 0
	arm := h.cut
	h.cut = 0
	if !dbf {
		for _, u := range upd {
			if u[1] < 0 {
				delete(h.db, u[0])
			} else {
				h.db[u[0]] = &VerifCacheRow{Id: u[0], Name: -1, Ver: u[1]}
			}
		}
		if arm > 0 {
			h.w.ArmCut(arm)
		}
		var err error
		if len(ks)%2 == 1 {
			err = h.c.Del(h.w.Keys(ks)...)
		} else {
			err = h.c.DelCtx(context.Background(), h.w.Keys(ks)...)
		}
		cut, _ = h.w.EndCut()
		for _, k := range ks {
			if h.w.Down {
				h.w.Owed = true
				h.dirty[k] = true
			} else {
				delete(h.dirty, k)
			}
		}
		r = verifCacheClass(err)
	}
	if upd == nil {
		upd = [][]int{}
	}
	h.w.Ev(map[string]any{"e": "write", "upd": upd, "ks": ks, "dbf": dbf, "r": r, "cut": cut})
}

func (h *verifCacheNodeH) do(op verifCacheOp, api int) {
	h.cut = 0
	if op.Op == "take" || op.Op == "write" || op.Op == "set" {
		h.cut = op.Cut
	}
	switch op.Op {
	case "take":
		h.take(op.K, op.Dbf, op.Flip, api)
	case "get":
		h.get(op.K)
	case "set":
		h.set(op.K, op.V, op.E)
	case "write":
		h.write(op.Upd, op.Ks, op.Dbf)
	case "del":
		h.write(nil, op.Ks, false)
	case "cleaner":
		if h.w.Owed {
			h.w.AdvanceUntilCleaner(70)
		}
	case "advance":
		h.w.Advance(op.D)
	case "fault":
		h.w.Fault(op.V == 1)
	}
}

func verifCacheNodeSetup(t *testing.T) *verifCacheNodeH {
	verifCacheEmitter = verifOpen(t)
	if !VerifCacheWB {
		// the cleaner of core/stores/cache cannot be driven on this tree (its internals do not match the white-box
		// part of the world helper): without it no sound history can be recorded, the driver does not run
		verifCacheEmitter.Emit(verifEv{"e": "info", "skipped": "C06 drivers need to drive the cleaner wheel of core/stores/cache"})
		verifCacheEmitter.Close()
		t.Skip("white-box part of the C06 world helper unavailable")
	}
	h := &verifCacheNodeH{st: NewStat("verif"), rnd: verifRand(606)}
	t.Cleanup(func() {
		if h.w != nil {
			h.w.Close()
		}
		verifCacheEmitter.Close()
	})
	return h
}

// TestVerifCacheNodeReplay performs TLC-generated histories (CacheAsideMC, NI = 0).
func TestVerifCacheNodeReplay(t *testing.T) {
	h := verifCacheNodeSetup(t)
	np := verifEnvInt("VERIF_CACHE_NP", 2)
	for i, raw := range verifInput(t) {
		var ops []verifCacheOp
		if err := json.Unmarshal(raw, &ops); err != nil {
			t.Fatal(err)
		}
		h.begin(np, verifEnvInt("VERIF_CACHE_EXP", 20), verifEnvInt("VERIF_CACHE_NF", 10))
		for j, op := range ops {
			h.do(op, i+j)
		}
	}
}

// a clock step chosen around what the store holds
func (h *verifCacheNodeH) pickAdvance() int {
	snap := h.w.Snapshot()
	switch x := h.rnd.Intn(10); {
	case x < 3 || len(snap) == 0:
		return 1 + h.rnd.Intn(3)
	case x < 8:
		ttl := snap[h.rnd.Intn(len(snap))][2] + h.rnd.Intn(3) - 1
		if ttl < 1 {
			ttl = 1
		}
		return ttl
	default:
		d := h.expDs/10 + 2 + h.rnd.Intn(5)
		if d > 4000 && h.w.Owed {
			d = 4000
		}
		return d
	}
}

func (h *verifCacheNodeH) randomOp(np int) {
	k := h.rnd.Intn(np)
	if !h.w.Down && h.rnd.Intn(12) == 0 { // an outage that begins at a command boundary inside the next read / write
		h.cut = 1 + h.rnd.Intn(4)
	}
	switch x := h.rnd.Intn(100); {
	case x < 36:
		h.take(k, h.rnd.Intn(9) == 0, h.rnd.Intn(14) == 0, h.rnd.Intn(4))
	case x < 56:
		// insert / update / delete rows, invalidating the keys concerned (sometimes more)
		upd := [][]int{}
		ks := []int{}
		for _, p := range h.rnd.Perm(np)[:1+h.rnd.Intn(np)] {
			if _, ok := h.db[p]; ok && h.rnd.Intn(3) == 0 {
				upd = append(upd, []int{p, -1})
			} else {
				h.ver++
				upd = append(upd, []int{p, h.ver})
			}
			ks = append(ks, p)
		}
		if h.rnd.Intn(4) == 0 {
			for p := 0; p < np; p++ {
				seen := false
				for _, x := range ks {
					seen = seen || x == p
				}
				if !seen {
					ks = append(ks, p)
				}
			}
		}
		h.write(upd, ks, h.rnd.Intn(10) == 0)
	case x < 61:
		h.get(k)
	case x < 69:
		v, e := 0, 0
		if r, ok := h.db[k]; ok && h.rnd.Intn(3) > 0 {
			v = r.Ver // what the database holds
		} else {
			h.ver++
			v = h.ver // behind the store's back
		}
		if h.rnd.Intn(2) == 0 {
			e = []int{1, 5, 10, 13, 25, 99, 100, 601, -1, -2, -3}[h.rnd.Intn(8+h.nonPos())]
		}
		h.set(k, v, e)
	case x < 73:
		h.write(nil, []int{k}, false)
	case x < 86:
		h.w.Advance(h.pickAdvance())
	case x < 94:
		if h.w.Down {
			h.w.Fault(false)
		} else if h.rnd.Intn(2) == 0 {
			h.w.Fault(true)
		}
	default:
		if h.w.Owed {
			h.w.AdvanceUntilCleaner(1 + h.rnd.Intn(70))
		}
	}
	h.cut = 0
}

// retryScenarios: failed invalidations (several keys at once; an outage that outlasts the first retries)
// followed by a store that stays up for the cleaner's whole schedule. No stale entry is read.
// On a node-type and on a cluster-type client (one DEL and one retry task per key).
func (h *verifCacheNodeH) retryScenarios() {
	h.kfOK = false
	defer func() { h.clus = false }()
	for sc := 0; sc < 6; sc++ {
		h.clus = sc >= 3
		sc := sc % 3
		cfg := verifCacheConfigs[[]int{6, 6, 3}[sc]]
		h.begin(3, cfg[0], cfg[1])
		h.write([][]int{{0, 1}, {1, 2}, {2, 3}}, []int{0, 1, 2}, false)
		for k := 0; k < 3; k++ {
			h.take(k, false, false, k+sc)
		}
		h.w.Fault(true)
		switch sc {
		case 0: // one Del of three keys fails; the store is back before the first retry
			h.write([][]int{{0, 4}, {1, 5}, {2, 6}}, []int{0, 1, 2}, false)
			h.w.Fault(false)
		case 1: // the outage outlasts the first two retries (1 s, 5 s), the third (1 min) finds the store up
			h.write([][]int{{1, 4}}, []int{1}, false)
			h.write([][]int{{0, 5}, {2, 6}}, []int{0, 2}, false)
			h.w.Advance(9)
			h.w.Fault(false)
		default: // the outage outlasts every retry: the cleaner gives up, the entries live until their TTL
			h.write([][]int{{0, 4}, {2, -1}}, []int{0, 2}, false)
			total, _ := VerifCacheRetrySchedule()
			h.w.Advance(total + 3)
			h.w.Fault(false)
		}
		h.w.Drain()
		h.get(0)
		h.get(2)
	}
}

// TestVerifCacheNodeRandom: seeded random histories.
func TestVerifCacheNodeRandom(t *testing.T) {
	h := verifCacheNodeSetup(t)
	h.retryScenarios()
	n, length := verifEnvInt("VERIF_CACHE_HIST", 40), verifEnvInt("VERIF_CACHE_LEN", 60)
	for i := 0; i < n; i++ {
		cfg := verifCacheConfigs[h.rnd.Intn(len(verifCacheConfigs))]
		np := 1 + h.rnd.Intn(3)
		h.kfOK = i < verifEnvInt("VERIF_CACHE_KFHIST", 0)
		h.clus = h.rnd.Intn(3) == 0
		h.begin(np, cfg[0], cfg[1])
		h.clus = false
		for j := 0; j < length; j++ {
			h.randomOp(np)
			if h.w.Down && h.rnd.Intn(4) == 0 {
				h.w.Fault(false)
			}
		}
		switch h.rnd.Intn(10) {
		case 0, 1, 2: // let every owed retry happen (1 s, 5 s, 1 min, 5 min, 1 h), then read everything
			if h.w.Owed {
				h.w.Drain()
				for k := 0; k < np; k++ {
					h.take(k, false, false, k)
				}
			}
		case 3: // the store goes away for good
			if h.w.Cluster { // (a cluster-type client spends seconds of real time re-discovering a dead topology)
				break
			}
			h.w.Kill()
			for j := 0; j < 4; j++ {
				k := h.rnd.Intn(np)
				switch h.rnd.Intn(4) {
				case 0:
					h.take(k, false, false, j)
				case 1:
					h.ver++
					h.write([][]int{{k, h.ver}}, []int{k}, false)
				case 2:
					h.set(k, 1, 0)
				default:
					h.get(k)
				}
			}
		}
	}
}

// TestVerifCacheNodeKF: the probed histories of the known finding (an outage exactly while a write
// invalidates), each followed by the cleaner's retry and a fresh read.
func TestVerifCacheNodeKF(t *testing.T) {
	h := verifCacheNodeSetup(t)
	h.kfOK = true
	for sc := 0; sc < verifEnvInt("VERIF_CACHE_KFSCEN", 4); sc++ {
		h.begin(1, 600, 100)
		switch sc {
		case 0: // cached row, update during the outage
			h.write([][]int{{0, 1}}, []int{0}, false)
			h.take(0, false, false, 0)
			h.w.Fault(true)
			h.write([][]int{{0, 2}}, []int{0}, false)
			h.w.Fault(false)
			h.take(0, false, false, 1)
			h.w.AdvanceUntilCleaner(3)
			h.take(0, false, false, 2)
			h.w.Drain()
		case 1: // cached absence, insert during the outage; the retry fails once more, then succeeds
			h.take(0, false, false, 0)
			h.w.Fault(true)
			h.write([][]int{{0, 1}}, []int{0}, false)
			h.w.AdvanceUntilCleaner(3)
			h.w.Fault(false)
			h.take(0, false, false, 3)
			h.w.AdvanceUntilCleaner(9)
			h.take(0, false, false, 1)
			h.w.Drain()
		case 2: // cached row, delete during the outage, entry lives until its TTL (no retry in time)
			h.write([][]int{{0, 1}}, []int{0}, false)
			h.take(0, false, false, 2)
			h.w.Fault(true)
			h.write([][]int{{0, -1}}, []int{0}, false)
			h.w.Advance(4000) // the cleaner gives up after its last delay (1 h)
			h.w.Fault(false)
			h.take(0, false, false, 0)
			h.w.Drain() // nothing will remove the entry before its TTL: the attempts are used up
		default: // requested expiries that are not positive
			h.write([][]int{{0, 1}}, []int{0}, false)
			for e := -1; e >= -3; e-- {
				h.set(0, 1, e)
				h.w.Advance(700)
				h.take(0, false, false, -e)
				h.write(nil, []int{0}, false)
			}
		}
	}
}

// phase runs n concurrent readers of key k; the query function waits for the driver.
// plan[i]: the i-th query of the phase fails.
func (h *verifCacheNodeH) phase(k, n int, plan []bool) {
	entered := make(chan int64, n)
	gate := make(chan struct{})
	done := make(chan struct{}, n)
	var nth int64
	for i := 0; i < n; i++ {
		id := int(atomic.AddInt64(&h.calls, 1))
		api := i
		go func() {
			var row VerifCacheRow
			q := func(v any) error {
				qid := atomic.AddInt64(&h.qs, 1)
				h.w.Raw(map[string]any{"e": "qstart", "q": int(qid), "k": k, "id": id})
				entered <- qid
				<-gate
				i := int(atomic.AddInt64(&nth, 1)) - 1
				dbf := i < len(plan) && plan[i]
				var err error
				if dbf {
					err = verifCacheErrDb
				} else if r, ok := h.db[k]; ok {
					*v.(*VerifCacheRow) = *r
				} else {
					err = verifCacheErrNF
				}
				h.w.Raw(map[string]any{"e": "qend", "q": int(qid), "k": k, "dbf": dbf})
				return err
			}
			h.w.Raw(map[string]any{"e": "rstart", "id": id, "k": k})
			var err error
			if api%2 == 0 {
				err = h.c.Take(&row, h.w.Key(k), q)
			} else {
				err = h.c.TakeWithExpire(&row, h.w.Key(k), func(v any, _ time.Duration) error { return q(v) })
			}
			r, v := verifCacheClass(err), 0
			if err == nil {
				v = row.Ver
			}
			h.w.Raw(map[string]any{"e": "rend", "id": id, "r": r, "v": v})
			done <- struct{}{}
		}()
		if h.rnd.Intn(3) == 0 {
			runtime.Gosched()
		}
	}
	for left := n; left > 0; {
		select {
		case <-entered:
			// give the other readers the chance to join the load - or to start their own query
			for i := 0; i < 30; i++ {
				runtime.Gosched()
			}
			time.Sleep(time.Duration(100+h.rnd.Intn(900)) * time.Microsecond)
			gate <- struct{}{}
		case <-done:
			left--
		}
	}
	h.w.Ev(map[string]any{"e": "obs"})
}

// TestVerifCacheNodeConc: concurrent readers of uncached / cached / absent keys.
func TestVerifCacheNodeConc(t *testing.T) {
	h := verifCacheNodeSetup(t)
	rounds := verifEnvInt("VERIF_CACHE_ROUNDS", 40)
	for i := 0; i < rounds; i++ {
		cfg := verifCacheConfigs[h.rnd.Intn(4)]
		h.begin(2, cfg[0], cfg[1])
		for ph := 0; ph < 3+h.rnd.Intn(3); ph++ {
			k := h.rnd.Intn(2)
			switch h.rnd.Intn(5) {
			case 0: // row changes (or disappears), key invalidated
				if _, ok := h.db[k]; ok && h.rnd.Intn(2) == 0 {
					h.write([][]int{{k, -1}}, []int{k}, false)
				} else {
					h.ver++
					h.write([][]int{{k, h.ver}}, []int{k}, false)
				}
			case 1:
				h.w.Advance(h.pickAdvance())
			case 2:
				h.take(k, false, false, ph)
			}
			down := h.rnd.Intn(8) == 0
			if down {
				h.w.Fault(true)
			}
			plan := []bool{h.rnd.Intn(3) == 0, h.rnd.Intn(3) == 0, false}
			h.phase(k, 2+h.rnd.Intn(verifEnvInt("VERIF_CACHE_G", 5)), plan)
			if down {
				h.w.Fault(false)
			}
			h.take(k, false, false, ph)
		}
	}
}

// TestVerifCacheNodeCuts: the fault placed at every command boundary of every kind of operation - a read of a
// cached / uncached / absent row, an invalidation of one and of several keys - on a node-type and on a
// cluster-type client, followed by the store coming back, the cleaner's whole schedule and fresh reads.
func TestVerifCacheNodeCuts(t *testing.T) {
	h := verifCacheNodeSetup(t)
	defer func() { h.clus = false }()
	for typ := 0; typ < 2; typ++ {
		for cut := 1; cut <= 4; cut++ {
			for sc := 0; sc < 4; sc++ {
				h.clus = typ == 1
				cfg := verifCacheConfigs[[]int{6, 3, 0}[(cut+sc)%3]]
				h.begin(3, cfg[0], cfg[1])
				h.write([][]int{{0, 1}, {1, 2}}, []int{0, 1, 2}, false) // rows 0 and 1 exist, row 2 does not
				switch sc {
				case 0: // reads of uncached keys: a row, an absent row
					h.cut = cut
					h.take(0, false, false, cut)
					h.w.Fault(false)
					h.cut = cut
					h.take(2, false, false, cut+1)
					h.w.Fault(false)
					h.cut = cut
					h.set(1, 2, []int{0, 25}[cut%2]) // an explicit write of what the database holds
				case 1: // reads of cached keys
					h.take(0, false, false, cut)
					h.take(2, false, false, cut)
					h.cut = cut
					h.take(0, false, false, cut+1)
					h.w.Fault(false)
					h.cut = cut
					h.take(2, false, false, cut+2)
				case 2: // an invalidation naming three cached keys
					for k := 0; k < 3; k++ {
						h.take(k, false, false, k)
					}
					h.cut = cut
					h.write([][]int{{0, 3}, {1, 4}, {2, 5}}, []int{0, 1, 2}, false)
				default: // ... two, of which one has no entry; and a single one
					h.take(1, false, false, cut)
					h.cut = cut
					h.write([][]int{{0, -1}, {1, 3}}, []int{0, 1}, false)
					h.w.Fault(false)
					h.take(2, false, false, cut)
					h.cut = cut
					h.write([][]int{{2, 4}}, []int{2}, false)
				}
				h.w.Fault(false)
				h.w.Drain()
				for k := 0; k < 3; k++ {
					h.take(k, false, false, k+sc)
				}
			}
		}
	}
}

// flow runs n concurrent callers; each makes m calls, one after the other, on keys drawn from 0..np-1.
// Every query function waits for the driver. plan[i]: the i-th query of the flow fails.
func (h *verifCacheNodeH) flow(np, n, m int, plan []bool) {
	entered := make(chan struct{}, n*m)
	gate := make(chan struct{})
	done := make(chan struct{}, n)
	var nth int64
	for g := 0; g < n; g++ {
		keys := make([]int, m)
		for j := range keys {
			keys[j] = h.rnd.Intn(np)
		}
		g := g
		go func() {
			for j, k := range keys {
				id := int(atomic.AddInt64(&h.calls, 1))
				k := k
				var row VerifCacheRow
				q := func(v any) error {
					qid := int(atomic.AddInt64(&h.qs, 1))
					h.w.Raw(map[string]any{"e": "qstart", "q": qid, "k": k, "id": id})
					entered <- struct{}{}
					<-gate
					i := int(atomic.AddInt64(&nth, 1)) - 1
					dbf := i < len(plan) && plan[i]
					var err error
					if dbf {
						err = verifCacheErrDb
					} else if r, ok := h.db[k]; ok {
						*v.(*VerifCacheRow) = *r
					} else {
						err = verifCacheErrNF
					}
					h.w.Raw(map[string]any{"e": "qend", "q": qid, "k": k, "dbf": dbf})
					return err
				}
				h.w.Raw(map[string]any{"e": "rstart", "id": id, "k": k})
				var err error
				if (g+j)%2 == 0 {
					err = h.c.Take(&row, h.w.Key(k), q)
				} else {
					err = h.c.TakeWithExpire(&row, h.w.Key(k), func(v any, _ time.Duration) error { return q(v) })
				}
				r, v := verifCacheClass(err), 0
				if err == nil {
					v = row.Ver
				}
				h.w.Raw(map[string]any{"e": "rend", "id": id, "r": r, "v": v})
			}
			done <- struct{}{}
		}()
	}
	for left := n; left > 0; {
		select {
		case <-entered:
			// give the other callers the chance to join the load - or to start their own
			for i := 0; i < 30; i++ {
				runtime.Gosched()
			}
			time.Sleep(time.Duration(50+h.rnd.Intn(400)) * time.Microsecond)
			gate <- struct{}{}
		case <-done:
			left--
		}
	}
	h.w.Ev(map[string]any{"e": "obs"})
}

// TestVerifCacheNodeFlow: concurrent callers that read several keys one after the other through one barrier
// (successive loads of one key, loads of different keys side by side, a caller that starts its next read while
// the callers that shared its previous load are still waking up), on 1, 2 and all processors.
func TestVerifCacheNodeFlow(t *testing.T) {
	h := verifCacheNodeSetup(t)
	rounds := verifEnvInt("VERIF_CACHE_FLOWS", 12)
	procs := runtime.GOMAXPROCS(0)
	defer runtime.GOMAXPROCS(procs)
	for i := 0; i < rounds; i++ {
		cfg := verifCacheConfigs[h.rnd.Intn(4)]
		np := 2 + h.rnd.Intn(2)
		h.begin(np, cfg[0], cfg[1])
		runtime.GOMAXPROCS([]int{1, 2, procs}[i%3])
		for ph := 0; ph < 2+h.rnd.Intn(2); ph++ {
			// some rows exist, some do not; everything uncached again
			for k := 0; k < np; k++ {
				if _, ok := h.db[k]; ok && h.rnd.Intn(3) == 0 {
					h.write([][]int{{k, -1}}, []int{k}, false)
				} else if h.rnd.Intn(4) > 0 {
					h.ver++
					h.write([][]int{{k, h.ver}}, []int{k}, false)
				} else {
					h.write(nil, []int{k}, false)
				}
			}
			plan := []bool{h.rnd.Intn(4) == 0, h.rnd.Intn(4) == 0, h.rnd.Intn(4) == 0, false}
			h.flow(np, 3+h.rnd.Intn(verifEnvInt("VERIF_CACHE_G", 5)), 2+h.rnd.Intn(3), plan)
			for k := 0; k < np; k++ {
				h.take(k, false, false, ph+k)
			}
		}
	}
}
