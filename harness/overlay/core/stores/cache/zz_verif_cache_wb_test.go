//go:build verif && !verifnowb

package cache

// C06 white-box part of the world helper: the only place that names unexported parts of core/stores/cache
// (the package-level cleaner wheel `timingWheel` with `timingWheelSlots`, `clean`, `delayTask`, `taskRunner`,
// `nextDelay`).  The drivers replace the cleaner's wheel by one on a harness-owned ticker so that retries of failed
// deletions happen when the model says.  When this file stops compiling because those internals were
// restructured, the runner retries with tag verifnowb and zz_verif_cache_nowb_test.go takes its place: without
// control over the cleaner the C06 drivers cannot record sound histories, so they skip themselves (one "info"
// event each) and the check decides the design-level models only.  Compiled as a test file for the cache
// package and overlaid as a non-test file for the drivers of sqlc and monc, like the world helper.

import (
	"fmt"
	"sync"
	"sync/atomic"
	"time"

	"github.com/zeromicro/go-zero/core/collection"
	"github.com/zeromicro/go-zero/core/timex"
	"github.com/zeromicro/go-zero/internal/verifhook"
)

// VerifCacheWB: the cleaner can be driven by the harness.
const VerifCacheWB = true

var (
	verifCacheOnce sync.Once
	verifCacheCur  atomic.Pointer[verifCacheCleaner]
)

func verifCacheDetachCleaner() {
	if old := verifCacheCur.Load(); old != nil {
		old.onRun, old.before = nil, nil
	}
}

// verifCacheCleaner is the package's cleaner wheel on a fake ticker.
type verifCacheCleaner struct {
	tw     *collection.TimingWheel
	ticker timex.FakeTicker
	fire   chan int
	done   chan struct{}
	mu     sync.Mutex
	orig   map[string]func() error
	onRun  func(keys []string, err error) // under mu, right after a retry task ran
	before func()                         // on the wheel goroutine, before due tasks are started
}

func verifCacheInstallCleaner(onRun func(keys []string, err error), before func()) *verifCacheCleaner {
	verifCacheOnce.Do(func() {
		// the wheel created by init() runs on the wall clock: retire it
		timingWheel.Load().(*collection.TimingWheel).Stop()
		verifhook.Set(func(point string, args ...any) {
			if point != "wheel.fire" {
				return
			}
			v := verifCacheCur.Load()
			if v == nil {
				return
			}
			n := args[0].(int)
			if n > 0 && v.before != nil {
				v.before()
			}
			v.fire <- n
		})
	})
	if old := verifCacheCur.Load(); old != nil {
		old.tw.Stop()
	}
	v := &verifCacheCleaner{
		ticker: timex.NewFakeTicker(),
		fire:   make(chan int, 4),
		done:   make(chan struct{}, 4096),
		orig:   make(map[string]func() error),
		onRun:  onRun,
		before: before,
	}
	tw, err := collection.NewTimingWheelWithTicker(time.Second, timingWheelSlots, v.exec, v.ticker)
	if err != nil {
		panic(err)
	}
	v.tw = tw
	verifCacheCur.Store(v)
	timingWheel.Store(tw)
	return v
}

// exec is the wheel's execute function: the real clean() with the task wrapped so that the
// harness sees that (and how) it ran.
func (v *verifCacheCleaner) exec(key, value any) {
	dt := value.(delayTask)
	id := fmt.Sprint(key)
	v.mu.Lock()
	orig, ok := v.orig[id]
	if !ok {
		orig = dt.task
		v.orig[id] = orig
	}
	v.mu.Unlock()
	keys := dt.keys
	dt.task = func() error {
		v.mu.Lock()
		defer v.mu.Unlock()
		err := orig()
		if v.onRun != nil {
			v.onRun(keys, err)
		}
		return err
	}
	clean(key, dt)
	v.done <- struct{}{}
}

// tick moves the cleaner wheel by one second and returns when everything it fired has run.
func (v *verifCacheCleaner) tick() int {
	v.ticker.Tick()
	n := <-v.fire
	for i := 0; i < n; i++ {
		<-v.done
	}
	taskRunner.Wait()
	return n
}

// VerifCacheRetrySchedule reads the cleaner's retry schedule off nextDelay: the seconds from a failed
// deletion to the last attempt, and the number of attempts.
func VerifCacheRetrySchedule() (total, attempts int) {
	d, ok := time.Second, true // AddCleanTask: first retry after one second
	for ok && attempts < 64 {
		total += int(d / time.Second)
		attempts++
		d, ok = nextDelay(d)
	}
	return
}
