//go:build verif && verifnowb

package cache

// Black-box stand-in for zz_verif_cache_wb_test.go (see there): the cleaner cannot be driven, the C06 drivers
// skip themselves.

// VerifCacheWB: the cleaner can be driven by the harness.
const VerifCacheWB = false

type verifCacheCleaner struct{}

func verifCacheInstallCleaner(onRun func(keys []string, err error), before func()) *verifCacheCleaner {
	return &verifCacheCleaner{}
}

func (v *verifCacheCleaner) tick() int { return 0 }

func verifCacheDetachCleaner() {}

// VerifCacheRetrySchedule: unknown without the package's nextDelay; the documented schedule.
func VerifCacheRetrySchedule() (total, attempts int) { return 1 + 5 + 60 + 300 + 3600, 5 }
