//go:build verif

package cache

// C06 harness plumbing shared by the drivers of core/stores/cache, core/stores/sqlc and
// core/stores/monc. For the cache package it is compiled as a test file; for the other
// two it is overlaid as core/stores/cache/zz_verif_cache_world.go (a non-test file), which
// is why it does not import "testing". Not part of go-zero.
//
// It owns the "world" a history runs in: a miniredis store whose clock only moves by
// FastForward, the go-zero redis client on it, the cleaner's timing wheel rebuilt on a
// harness-owned ticker (so that retries of failed deletions happen when the driver says),
// and the recording of events. It holds no expectations: every event carries what the
// store contains ("c"), the verdict comes from TLC (specs/cache/CacheAsideTrace.tla).

import (
	"encoding/json"
	"sort"
	"strconv"
	"strings"
	"sync"
	"sync/atomic"
	"time"

	"github.com/alicebob/miniredis/v2"
	"github.com/alicebob/miniredis/v2/server"
	"github.com/zeromicro/go-zero/core/logx"
	"github.com/zeromicro/go-zero/core/stores/redis"
	"github.com/zeromicro/go-zero/core/timex"
)

// VerifCacheRow is the row type of the harness database. Ver is unique per write.
type VerifCacheRow struct {
	Id   int `json:"id" bson:"id" db:"id"`
	Name int `json:"name" bson:"name" db:"name"`
	Ver  int `json:"ver" bson:"ver" db:"ver"`
}

var (
	verifCacheClock    atomic.Int64 // virtual relative clock (breaker windows), ns
	verifCachePrefixes atomic.Int64
)

// verifCacheInjector is the harness's fault injector: a miniredis pre-hook (the mechanism behind
// miniredis.SetError, which therefore is not used). While down it answers every data command with an error
// and leaves the data alone. Armed with n it lets n-1 data commands through and goes down at the n-th:
// an outage that begins at a command boundary INSIDE an operation. Connection-level commands (HELLO, PING,
// CLUSTER ...) are always served, so that a cluster-type client keeps its view of the topology.
type verifCacheInjector struct {
	mu    sync.Mutex
	down  bool
	arm   int   // > 0: go down at the arm-th data command from now
	seen  int   // data commands seen since armed
	trig  int   // > 0: the outage began at this command of the armed operation
	after int32 // queries the harness entered after the outage had begun (reported by the drivers)
}

var verifCacheConnCmds = map[string]bool{"HELLO": true, "PING": true, "CLUSTER": true, "CLIENT": true, "COMMAND": true,
	"READONLY": true, "READWRITE": true, "AUTH": true, "SELECT": true, "INFO": true, "QUIT": true, "ECHO": true}

func (j *verifCacheInjector) hook(c *server.Peer, cmd string, args ...string) bool {
	if verifCacheConnCmds[strings.ToUpper(cmd)] {
		return false
	}
	j.mu.Lock()
	if !j.down && j.arm > 0 {
		j.seen++
		if j.seen >= j.arm {
			j.down, j.trig, j.arm = true, j.seen, 0
		}
	}
	down := j.down
	j.mu.Unlock()
	if down {
		c.WriteError("verif: store down")
	}
	return down
}

func (j *verifCacheInjector) set(down bool) {
	j.mu.Lock()
	j.down, j.arm, j.seen, j.trig = down, 0, 0, 0
	j.mu.Unlock()
}

// VerifCacheWorld is one store + client + cleaner.
type VerifCacheWorld struct {
	M       *miniredis.Miniredis
	R       *redis.Redis // the client the histories use (node type, or cluster type on the same single-node store)
	RNode   *redis.Redis
	RClus   *redis.Redis
	Cluster bool
	IdBase  int64 // the row of primary key number p has id IdBase + p (ids beyond 2^53 exist: snowflake ids)
	inj     *verifCacheInjector
	noClus  bool
	Emit    func(map[string]any)
	Np, Ni  int
	Down    bool
	Dead    bool // the store was closed: the world cannot be reused
	Owed    bool // a deletion was attempted while the store was down (cleaner tasks may exist)
	prefix  string
	pending int // seconds advanced and not yet recorded
	ran     int // cleaner tasks that ran in the current tick
	cl      *verifCacheCleaner
	ids     map[string]int
}

func VerifCacheNewWorld(emit func(map[string]any)) *VerifCacheWorld {
	logx.Disable()
	if timex.VerifNow == nil {
		verifCacheClock.Store(int64(time.Hour))
		timex.VerifNow = func() time.Duration { return time.Duration(verifCacheClock.Load()) }
	}
	for attempt := 0; attempt < 50; attempt++ {
		m, err := miniredis.Run()
		if err != nil {
			time.Sleep(10 * time.Millisecond)
			continue
		}
		r := redis.New(m.Addr())
		if !r.Ping() { // a recycled port may map to a client of a closed store
			m.Close()
			continue
		}
		inj := &verifCacheInjector{}
		m.Server().SetPreHook(inj.hook)
		return &VerifCacheWorld{M: m, R: r, RNode: r, Emit: emit, inj: inj}
	}
	panic("verif: cannot start a miniredis store")
}

func (w *VerifCacheWorld) Close() {
	verifCacheDetachCleaner()
	if !w.Dead {
		w.inj.set(false)
		w.M.Close()
	}
}

// UseCluster makes the histories that follow use a go-redis cluster client (redis.Type = cluster: cacheNode
// deletes key by key and hands every failed key to the cleaner on its own) on the same single-node store.
// To be called before Begin.
func (w *VerifCacheWorld) UseCluster(on bool) {
	if on && w.RClus == nil && !w.noClus {
		w.inj.set(false)
		r := redis.New(w.M.Addr(), redis.Cluster())
		ok := false
		for i := 0; i < 5 && !ok; i++ { // a recycled port may map to a cached client of a closed store
			ok = r.Ping()
		}
		if ok {
			w.RClus = r
		} else {
			w.noClus = true // the histories of this world stay on the node-type client
		}
	}
	w.Cluster = on && w.RClus != nil
	if w.Cluster {
		w.R = w.RClus
	} else {
		w.R = w.RNode
	}
}

// ArmCut makes the store refuse the n-th and every later data command it receives from now on (n >= 1).
func (w *VerifCacheWorld) ArmCut(n int) {
	if w.Down || w.Dead || n < 1 {
		return
	}
	w.inj.mu.Lock()
	w.inj.arm, w.inj.seen, w.inj.trig = n, 0, 0
	w.inj.mu.Unlock()
	atomic.StoreInt32(&w.inj.after, 0)
}

// CutBegun: the armed outage has begun (for query functions: was I entered after it began?)
func (w *VerifCacheWorld) CutBegun() bool {
	w.inj.mu.Lock()
	defer w.inj.mu.Unlock()
	return w.inj.trig > 0
}

// NoteQuery is called by the harness's query functions on entry.
func (w *VerifCacheWorld) NoteQuery() {
	if w.CutBegun() {
		atomic.AddInt32(&w.inj.after, 1)
	}
}

// EndCut disarms the injector after the operation: the command at which the outage began (0: it did not;
// the store is then up as before) and the queries entered after that moment.
func (w *VerifCacheWorld) EndCut() (cut, after int) {
	w.inj.mu.Lock()
	cut = w.inj.trig
	w.inj.arm, w.inj.seen, w.inj.trig = 0, 0, 0
	w.inj.mu.Unlock()
	if cut > 0 {
		w.Down = true
	}
	return cut, int(atomic.LoadInt32(&w.inj.after))
}

// Begin starts a new trace: empty store, fresh key names, fresh cleaner wheel.
func (w *VerifCacheWorld) Begin(np, ni, expDs, nfDs int, kf bool) {
	w.inj.set(false)
	if w.Down {
		w.Down = false
		verifCacheClock.Add(int64(30 * time.Second))
	}
	w.M.FlushAll()
	w.Np, w.Ni, w.Owed, w.pending = np, ni, false, 0
	w.prefix = "vc" + strconv.FormatInt(verifCachePrefixes.Add(1), 10) + ":"
	w.ids = make(map[string]int)
	for k := 0; k < np+ni; k++ {
		w.ids[w.Key(k)] = k
	}
	w.cl = verifCacheInstallCleaner(w.cleanerRan, w.flush)
	ev := map[string]any{"e": "reset", "np": np, "ni": ni, "exp": expDs, "nf": nfDs, "cluster": w.Cluster}
	if kf { // the runner validates these histories one by one
		ev["kf"] = 1
	}
	w.Emit(ev)
}

// Key is the store key of key number k (primary keys 0..np-1, index keys np..np+ni-1).
func (w *VerifCacheWorld) Key(k int) string {
	if k < w.Np {
		return w.prefix + "p:" + strconv.Itoa(k)
	}
	return w.prefix + "i:" + strconv.Itoa(k-w.Np)
}

func (w *VerifCacheWorld) Keys(ks []int) []string {
	out := make([]string, len(ks))
	for i, k := range ks {
		out[i] = w.Key(k)
	}
	return out
}

// Snapshot reads the store directly: <<key number, value, ttl seconds>> per key.
// value: row version / primary key number, -1 placeholder, -2 anything else;
// key number -1: a key the history does not know; ttl 0: persistent, -3: not whole seconds.
func (w *VerifCacheWorld) Snapshot() [][]int {
	out := [][]int{}
	names := w.M.Keys()
	sort.Strings(names)
	for _, name := range names {
		k, ok := w.ids[name]
		if !ok {
			k = -1
		}
		val, err := w.M.Get(name)
		v := -2
		if err == nil {
			switch {
			case val == "*":
				v = -1
			case ok && k < w.Np:
				var row VerifCacheRow
				if json.Unmarshal([]byte(val), &row) == nil && row.Ver > 0 && int64(row.Id) == w.IdBase+int64(k) {
					v = row.Ver
				}
			case ok:
				var pid int64
				if json.Unmarshal([]byte(val), &pid) == nil && pid >= w.IdBase && pid-w.IdBase < int64(w.Np) {
					v = int(pid - w.IdBase)
				}
			}
		}
		d := w.M.TTL(name)
		ttl := int(d / time.Second)
		if d%time.Second != 0 {
			ttl = -3
		}
		out = append(out, []int{k, v, ttl})
	}
	sort.Slice(out, func(i, j int) bool { return out[i][0] < out[j][0] })
	return out
}

// Ev records an event together with the content of the store.
func (w *VerifCacheWorld) Ev(ev map[string]any) {
	w.flush()
	ev["c"] = w.Snapshot()
	w.Emit(ev)
}

// Raw records an event of a concurrent phase (no store content).
func (w *VerifCacheWorld) Raw(ev map[string]any) { w.Emit(ev) }

func (w *VerifCacheWorld) flush() {
	if w.pending > 0 {
		d := w.pending
		w.pending = 0
		w.Emit(map[string]any{"e": "advance", "d": d, "c": w.Snapshot()})
	}
}

func (w *VerifCacheWorld) cleanerRan(keys []string, err error) {
	ks := make([]int, 0, len(keys))
	for _, name := range keys {
		if k, ok := w.ids[name]; ok {
			ks = append(ks, k)
		} else {
			ks = append(ks, -1)
		}
	}
	sort.Ints(ks)
	w.ran++
	w.Emit(map[string]any{"e": "cleaner", "ks": ks, "ok": err == nil, "c": w.Snapshot()})
}

// Fault switches the store between up and answering every command with an error.
func (w *VerifCacheWorld) Fault(down bool) {
	if w.Dead {
		return
	}
	w.Flip(down)
	w.Ev(map[string]any{"e": "fault", "down": down})
}

// Flip is Fault without an event (used inside query functions; the read's own event says so).
func (w *VerifCacheWorld) Flip(down bool) {
	if down == w.Down || w.Dead {
		return
	}
	w.inj.set(down)
	if !down {
		// forget what the redis breaker counted during the outage
		verifCacheClock.Add(int64(30 * time.Second))
	}
	w.Down = down
}

// Kill closes the store for good (connection errors instead of error replies).
func (w *VerifCacheWorld) Kill() {
	if w.Dead {
		return
	}
	w.inj.set(false)
	w.M.Close()
	w.Dead, w.Down = true, true
	w.Ev(map[string]any{"e": "fault", "down": true})
}

// Advance moves the store clock (and, while retries may be owed, the cleaner wheel) by d seconds.
func (w *VerifCacheWorld) Advance(d int) int {
	ran := 0
	if !w.Owed {
		w.M.FastForward(time.Duration(d) * time.Second)
		w.pending += d
		w.flush()
		return 0
	}
	for i := 0; i < d; i++ {
		w.M.FastForward(time.Second)
		w.pending++
		w.ran = 0
		w.cl.tick()
		ran += w.ran
	}
	w.flush()
	return ran
}

// Drain keeps the store up for longer than the cleaner's whole retry schedule and says so.
func (w *VerifCacheWorld) Drain() {
	if !w.Owed || w.Dead {
		return
	}
	if w.Down {
		w.Fault(false)
	}
	total, attempts := VerifCacheRetrySchedule()
	w.Advance(total + 4)
	w.Ev(map[string]any{"e": "drain", "total": total, "max": attempts})
}

// AdvanceUntilCleaner advances second by second until a retry task has run (at most max seconds).
func (w *VerifCacheWorld) AdvanceUntilCleaner(max int) {
	for i := 0; i < max; i++ {
		w.M.FastForward(time.Second)
		w.pending++
		w.ran = 0
		w.cl.tick()
		if w.ran > 0 {
			break
		}
	}
	w.flush()
}
