//go:build verif

package cache

// C07 through a consumer: cacheNode.Take (doTake) shares one query per key through
// barrier.DoEx and hands the marshalled result to the joiners.  Real cacheNode on miniredis;
// the query is the driver's gate (machinery: zz_verif_flight_sched_test.go, shared with
// core/syncx).  Events are validated by TLC against specs/flight/Flight.tla, mode "take".

import (
	"encoding/json"
	"errors"
	"testing"

	"github.com/alicebob/miniredis/v2"
	"github.com/zeromicro/go-zero/core/stores/redis"
	"github.com/zeromicro/go-zero/core/syncx"
)

func TestVerifFlightNodeReplay(t *testing.T) {
	em := verifOpen(t)
	defer em.Close()
	mr := miniredis.RunT(t)
	node := NewNode(redis.New(mr.Addr()), syncx.NewSingleFlight(), NewStat("verif-flight"),
		errors.New("verif not found"))
	for h, raw := range verifInput(t) {
		var ops []verifFlightOp
		if err := json.Unmarshal(raw, &ops); err != nil {
			t.Fatal(err)
		}
		s := &verifFlightSched{t: t, em: em}
		s.invoke = func(c *verifFlightCall, fn func() (any, error)) (int, int, int) {
			var out int
			err := node.Take(&out, verifFlightKey(h, c.key), func(v any) error {
				r, e := fn()
				if e != nil {
					return e
				}
				*v.(*int) = r.(int)
				return nil
			})
			return out, verifFlightErrCode(err), 2
		}
		em.Emit(verifEv{"e": "reset", "mode": "take"})
		for _, op := range ops {
			switch op.Op {
			case "call":
				s.start(op.K)
			case "rel":
				s.release(op.K, op.O, "")
			case "del":
				s.rest()
				if err := node.Del(verifFlightKey(h, op.K)); err != nil {
					t.Fatal(err)
				}
				em.Emit(verifEv{"e": "del", "k": op.K})
			}
			s.rest()
		}
		s.drain()
	}
}
