//go:build verif

package cache

// C15 driver: the consistent-hash dispatch of cache.New clusters on miniredis
// servers.  Every cluster is one ring instance of the trace (event "build": the node/weight
// list of its ClusterConf); the owner of a probe key is the server on which Set stored it.
// Plain hash.ConsistentHash rings over the same addresses (as strings) are operated step by
// step in the same trace, so the spec compares clusters with each other and with bare rings.
// No expectations here: TLC validates the trace against specs/hash/Ring.tla.

import (
	"errors"
	"fmt"
	"math/rand"
	"sort"
	"strconv"
	"testing"

	"github.com/alicebob/miniredis/v2"
	"github.com/zeromicro/go-zero/core/hash"
	"github.com/zeromicro/go-zero/core/stores/redis"
	"github.com/zeromicro/go-zero/core/syncx"
)

type ringSrv struct {
	mr   *miniredis.Miniredis
	addr string
}

// ringServers starts n miniredis servers; where the ports are free, addresses are chosen so
// that addr+itoa(i) is ambiguous between servers ("127.0.0.1:6379"+"10" = "127.0.0.1:63791"+"0").
func ringServers(t *testing.T, n int, rnd *rand.Rand) []ringSrv {
	var out []ringSrv
	try := func(port int) bool {
		mr := miniredis.NewMiniRedis()
		if err := mr.StartAddr("127.0.0.1:" + strconv.Itoa(port)); err != nil {
			return false
		}
		t.Cleanup(mr.Close)
		out = append(out, ringSrv{mr, mr.Addr()})
		return true
	}
	for attempt := 0; attempt < 20 && len(out) == 0; attempt++ {
		base := 2000 + rnd.Intn(4400) // base*10+9 <= 65535
		if !try(base) {
			continue
		}
		try(base*10 + 1)
		try(base*10 + 1 + rnd.Intn(8) + 1)
	}
	for len(out) < n {
		mr := miniredis.NewMiniRedis()
		if err := mr.Start(); err != nil {
			t.Fatal(err)
		}
		t.Cleanup(mr.Close)
		out = append(out, ringSrv{mr, mr.Addr()})
	}
	return out[:n]
}

func ringProbeKeys(srvs []ringSrv, nk int, rnd *rand.Rand) []string {
	type pt struct {
		h uint64
		n int
	}
	var pts []pt
	for n, s := range srvs {
		for i := 0; i < 100; i++ {
			pts = append(pts, pt{hash.Hash([]byte(s.addr + strconv.Itoa(i))), n})
		}
	}
	sort.Slice(pts, func(i, j int) bool { return pts[i].h < pts[j].h })
	shared := map[uint64]bool{}
	for i := 1; i < len(pts); i++ {
		if pts[i].h == pts[i-1].h && pts[i].n != pts[i-1].n {
			shared[pts[i].h] = true
		}
	}
	var keys []string
	per := map[uint64]int{}
	for j := 0; j < 300000 && len(shared) > 0 && len(keys) < nk/2; j++ {
		k := "user:" + strconv.Itoa(rnd.Intn(1<<30))
		h := hash.Hash([]byte(k))
		p := pts[sort.Search(len(pts), func(i int) bool { return pts[i].h >= h })%len(pts)].h
		if shared[p] && per[p] < 3 {
			per[p]++
			keys = append(keys, k)
		}
	}
	for len(keys) < nk {
		keys = append(keys, "user:"+strconv.Itoa(rnd.Intn(1<<30)))
	}
	return keys
}

type ringConfOp struct {
	N    int    `json:"n"`
	Kind string `json:"kind"`
	Arg  int    `json:"arg"`
	F    int    `json:"f"`
}

var errRingNotFound = errors.New("verif: not found")

func TestVerifRingCache(t *testing.T) {
	em := verifOpen(t)
	defer em.Close()
	rnd := verifRand(19)
	stat := NewStat("verif-c15")
	barrier := syncx.NewSingleFlight()
	weights := []int{100, 100, 50, 5, 1, 0, 120, 33}
	for session := 0; session < verifEnvInt("VERIF_RING_SESSIONS", 6); session++ {
		srvs := ringServers(t, 3+rnd.Intn(3), rnd)
		keys := ringProbeKeys(srvs, 48, rnd)
		em.Emit(verifEv{"e": "reset", "nn": len(srvs), "nk": len(keys), "hash": "murmur3",
			"family": fmt.Sprint("cache.New ", func() (a []string) {
				for _, s := range srvs {
					a = append(a, s.addr)
				}
				return
			}())})
		inst := 0
		ownerOf := func(key string) int {
			owner := 0
			for n, s := range srvs {
				if s.mr.Exists(key) {
					if owner != 0 {
						t.Fatalf("key %q stored on two servers", key)
					}
					owner = n + 1
				}
			}
			return owner
		}
		flush := func() {
			for _, s := range srvs {
				s.mr.FlushAll()
			}
		}
		for round := 0; round < 14; round++ {
			// a cluster configuration: a random sub-list of the servers in random order with
			// random weights, now and then naming a server twice (the later weight counts)
			perm := rnd.Perm(len(srvs))
			cnt := 1 + rnd.Intn(len(srvs))
			var conf ClusterConf
			var ops []ringConfOp
			add := func(n, w int) {
				conf = append(conf, NodeConf{RedisConf: redis.RedisConf{Host: srvs[n].addr, Type: redis.NodeType, NonBlock: true}, Weight: w})
				ops = append(ops, ringConfOp{N: n + 1, Kind: "wt", Arg: w, F: 1})
			}
			for _, n := range perm[:cnt] {
				add(n, weights[rnd.Intn(len(weights))])
				if rnd.Intn(5) == 0 {
					add(perm[rnd.Intn(cnt)], weights[rnd.Intn(len(weights))])
				}
			}
			if TotalWeights(conf) <= 0 || len(conf) == 1 && conf[0].Weight <= 0 {
				continue
			}
			single := len(conf) == 1 // cache.New then returns the node itself, no ring
			c := New(conf, barrier, stat, errRingNotFound)
			got := make([]int, len(keys))
			for i, k := range keys {
				func() {
					defer func() {
						if r := recover(); r != nil {
							got[i] = -1
						}
					}()
					err := c.Set(k, "v")
					switch {
					case err == nil:
						got[i] = ownerOf(k)
						if got[i] == 0 {
							t.Fatalf("Set(%q) succeeded but no server has the key", k)
						}
					case errors.Is(err, errRingNotFound):
						got[i] = 0
					default:
						t.Fatalf("Set(%q): %v", k, err)
					}
				}()
			}
			flush()
			inst++
			em.Emit(verifEv{"e": "build", "i": inst, "cap": 100, "ops": ops, "got": got, "forms": [][2]int{}})
			em.Emit(verifEv{"e": "drop", "i": inst})

			// the same configuration, step by step, on a bare ring over the address strings
			if !single {
				inst++
				h := hash.NewConsistentHash()
				probe := func() ([]int, [][2]int) {
					g := make([]int, len(keys))
					seen := map[int]bool{}
					forms := [][2]int{}
					for i, k := range keys {
						func() {
							defer func() {
								if r := recover(); r != nil {
									g[i] = -1
								}
							}()
							v, ok := h.Get(k)
							if !ok {
								return
							}
							g[i] = -2
							for n, s := range srvs {
								if v == any(s.addr) {
									g[i] = n + 1
									if !seen[n+1] {
										seen[n+1] = true
										forms = append(forms, [2]int{n + 1, 1})
									}
								}
							}
						}()
					}
					return g, forms
				}
				g, _ := probe()
				em.Emit(verifEv{"e": "new", "i": inst, "cap": 100, "got": g})
				steps := append([]ringConfOp(nil), ops...)
				if rnd.Intn(2) == 0 { // then take one server out again
					steps = append(steps, ringConfOp{N: ops[rnd.Intn(len(ops))].N, Kind: "remove", F: 1})
				}
				for _, op := range steps {
					if op.Kind == "remove" {
						h.Remove(srvs[op.N-1].addr)
					} else {
						h.AddWithWeight(srvs[op.N-1].addr, op.Arg)
					}
					g, forms := probe()
					em.Emit(verifEv{"e": "op", "i": inst, "n": op.N, "kind": op.Kind, "arg": op.Arg, "f": 1,
						"got": g, "forms": forms})
				}
				em.Emit(verifEv{"e": "drop", "i": inst})
			}
		}
		for _, s := range srvs {
			s.mr.Close()
		}
	}
}
