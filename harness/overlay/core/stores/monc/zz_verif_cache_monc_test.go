//go:build verif

package monc

// C06 driver for monc.Model (FindOne / InsertOne / ReplaceOne / UpdateOne / UpdateByID /
// UpdateMany / DeleteOne / FindOneAnd* / DelCache / GetCache / SetCache) over a miniredis store
// and a harness-owned mon.Collection (closures over a map of documents, counting FindOne calls
// and failing on demand) - no MongoDB server, no mtest deployment. The world (store, clock,
// cleaner wheel, event recording) is the helper overlaid into core/stores/cache. The driver
// holds no expectations; the verdict comes from TLC (specs/cache/CacheAside.tla).

import (
	"context"
	"encoding/json"
	"errors"
	"math/rand"
	"testing"
	"time"

	"github.com/zeromicro/go-zero/core/stores/cache"
	"github.com/zeromicro/go-zero/core/stores/mon"
	"go.mongodb.org/mongo-driver/bson"
	"go.mongodb.org/mongo-driver/mongo"
	mopt "go.mongodb.org/mongo-driver/mongo/options"
)

var verifCacheErrDb = errors.New("verif: database error")

type verifCacheOp struct {
	Op   string  `json:"op"`
	K    int     `json:"k"`
	V    int     `json:"v"`
	Dbf  bool    `json:"dbf"`
	Flip bool    `json:"flip"`
	D    int     `json:"d"`
	E    int     `json:"e"`
	Ks   []int   `json:"ks"`
	Upd  [][]int `json:"upd"`
}

// verifCacheColl is the fake collection: documents by id. A write method applies the mutation the
// driver armed; FindOne looks the id up.
type verifCacheColl struct {
	mon.Collection // nil: anything else panics
	docs           map[int]cache.VerifCacheRow
	fail           bool
	onFind         func()
	nFind          int
	pending        func()
}

func (c *verifCacheColl) apply() error {
	if c.fail {
		return verifCacheErrDb
	}
	if c.pending != nil {
		c.pending()
	}
	return nil
}

func (c *verifCacheColl) single(id int) *mongo.SingleResult {
	if d, ok := c.docs[id]; ok {
		return mongo.NewSingleResultFromDocument(d, nil, nil)
	}
	return mongo.NewSingleResultFromDocument(bson.D{}, mongo.ErrNoDocuments, nil)
}

func (c *verifCacheColl) FindOne(_ context.Context, filter any, _ ...*mopt.FindOneOptions) (*mongo.SingleResult, error) {
	c.nFind++
	if c.onFind != nil {
		c.onFind()
	}
	if c.fail {
		return nil, verifCacheErrDb
	}
	return c.single(filter.(int)), nil
}

func (c *verifCacheColl) InsertOne(context.Context, any, ...*mopt.InsertOneOptions) (*mongo.InsertOneResult, error) {
	if err := c.apply(); err != nil {
		return nil, err
	}
	return &mongo.InsertOneResult{}, nil
}

func (c *verifCacheColl) upd() (*mongo.UpdateResult, error) {
	if err := c.apply(); err != nil {
		return nil, err
	}
	return &mongo.UpdateResult{MatchedCount: 1, ModifiedCount: 1}, nil
}

func (c *verifCacheColl) ReplaceOne(context.Context, any, any, ...*mopt.ReplaceOptions) (*mongo.UpdateResult, error) {
	return c.upd()
}
func (c *verifCacheColl) UpdateOne(context.Context, any, any, ...*mopt.UpdateOptions) (*mongo.UpdateResult, error) {
	return c.upd()
}
func (c *verifCacheColl) UpdateByID(context.Context, any, any, ...*mopt.UpdateOptions) (*mongo.UpdateResult, error) {
	return c.upd()
}
func (c *verifCacheColl) UpdateMany(context.Context, any, any, ...*mopt.UpdateOptions) (*mongo.UpdateResult, error) {
	return c.upd()
}
func (c *verifCacheColl) DeleteOne(context.Context, any, ...*mopt.DeleteOptions) (*mongo.DeleteResult, error) {
	if err := c.apply(); err != nil {
		return nil, err
	}
	return &mongo.DeleteResult{DeletedCount: 1}, nil
}
func (c *verifCacheColl) findAnd(filter any) (*mongo.SingleResult, error) {
	if c.fail {
		return nil, verifCacheErrDb
	}
	res := c.single(filter.(int))
	if c.pending != nil {
		c.pending()
	}
	return res, nil
}
func (c *verifCacheColl) FindOneAndDelete(_ context.Context, f any, _ ...*mopt.FindOneAndDeleteOptions) (*mongo.SingleResult, error) {
	return c.findAnd(f)
}
func (c *verifCacheColl) FindOneAndReplace(_ context.Context, f, _ any, _ ...*mopt.FindOneAndReplaceOptions) (*mongo.SingleResult, error) {
	return c.findAnd(f)
}
func (c *verifCacheColl) FindOneAndUpdate(_ context.Context, f, _ any, _ ...*mopt.FindOneAndUpdateOptions) (*mongo.SingleResult, error) {
	return c.findAnd(f)
}

type verifCacheMonH struct {
	w     *cache.VerifCacheWorld
	m     *Model
	coll  *verifCacheColl
	np    int
	expDs int
	ver   int
	rnd   *rand.Rand
	kfOK  bool
	dirty map[int]bool
}

var verifCacheEmitter *verifEmitter

func verifCacheMsg(err error) string {
	if err == nil {
		return ""
	}
	if s := err.Error(); len(s) > 80 {
		return s[:80]
	} else {
		return s
	}
}

func verifCacheClass(err error) string {
	switch {
	case err == nil:
		return "ok"
	case errors.Is(err, mongo.ErrNoDocuments):
		return "nf"
	case errors.Is(err, verifCacheErrDb):
		return "dberr"
	default:
		return "cerr"
	}
}

var verifCacheConfigs = [][2]int{{20, 10}, {5, 5}, {100, 30}, {600, 100}, {13, 7}, {0, 0}}

func (h *verifCacheMonH) begin(np, expDs, nfDs int) {
	if h.w == nil || h.w.Dead {
		if h.w != nil {
			h.w.Close()
		}
		h.w = cache.VerifCacheNewWorld(func(ev map[string]any) { verifCacheEmitter.Emit(verifEv(ev)) })
	}
	var opts []cache.Option
	e, nf := expDs, nfDs
	if expDs > 0 {
		opts = append(opts, cache.WithExpiry(time.Duration(expDs)*100*time.Millisecond),
			cache.WithNotFoundExpiry(time.Duration(nfDs)*100*time.Millisecond))
	} else {
		e, nf = 7*24*3600*10, 600
	}
	h.np, h.expDs = np, e
	h.coll = &verifCacheColl{docs: make(map[int]cache.VerifCacheRow)}
	h.dirty = make(map[int]bool)
	h.ver = 0
	h.w.Begin(np, 0, e, nf, h.kfOK)
	h.m = &Model{
		Model: &mon.Model{Collection: h.coll},
		cache: cache.NewNode(h.w.R, singleFlight, stats, mongo.ErrNoDocuments, opts...),
	}
}

func (h *verifCacheMonH) settle(k int) {
	if h.kfOK || !h.dirty[k] || h.w.Down {
		return
	}
	if h.w.M.Exists(h.w.Key(k)) {
		h.w.AdvanceUntilCleaner(4000)
	}
	if h.w.M.Exists(h.w.Key(k)) {
		h.write(nil, []int{k}, false, 0)
	}
	delete(h.dirty, k)
}

func (h *verifCacheMonH) take(k int, dbf, flip bool) {
	h.settle(k)
	flipped := false
	h.coll.nFind, h.coll.fail, h.coll.onFind = 0, dbf, nil
	if flip {
		h.coll.onFind = func() {
			if !flipped {
				h.w.Flip(!h.w.Down)
				flipped = true
			}
		}
	}
	var row cache.VerifCacheRow
	err := h.m.FindOne(context.Background(), h.w.Key(k), &row, k)
	nq := h.coll.nFind
	h.coll.fail, h.coll.onFind = false, nil
	r, v := verifCacheClass(err), 0
	if err == nil {
		v = row.Ver
	}
	h.w.Ev(map[string]any{"e": "take", "k": k, "r": r, "v": v, "nq": nq, "dbf": dbf, "flip": flipped, "api": "FindOne",
		"msg": verifCacheMsg(err)})
}

func (h *verifCacheMonH) get(k int) {
	var row cache.VerifCacheRow
	err := h.m.GetCache(h.w.Key(k), &row)
	r, v := verifCacheClass(err), 0
	if err == nil {
		v = row.Ver
	}
	h.w.Ev(map[string]any{"e": "get", "k": k, "r": r, "v": v})
}

func (h *verifCacheMonH) set(k, v int) {
	err := h.m.SetCache(h.w.Key(k), cache.VerifCacheRow{Id: k, Name: -1, Ver: v})
	if err == nil {
		delete(h.dirty, k)
	}
	h.w.Ev(map[string]any{"e": "set", "k": k, "v": v, "x": h.expDs, "r": verifCacheClass(err)})
}

// write: one document changes (or, with upd == nil, only the cache is invalidated) through one of the
// model's writing methods with the keys ks.
func (h *verifCacheMonH) write(upd [][]int, ks []int, dbf bool, via int) {
	ctx := context.Background()
	h.coll.fail = dbf
	h.coll.pending = func() {
		for _, u := range upd {
			if u[1] < 0 {
				delete(h.coll.docs, u[0])
			} else {
				h.coll.docs[u[0]] = cache.VerifCacheRow{Id: u[0], Name: -1, Ver: u[1]}
			}
		}
	}
	var err error
	name := "DelCache"
	keys := h.w.Keys(ks)
	switch {
	case upd == nil:
		err = h.m.DelCache(ctx, keys...)
	case len(ks) > 1:
		name = "UpdateMany"
		_, err = h.m.UpdateMany(ctx, keys, bson.D{}, bson.D{})
	default:
		id, key := upd[0][0], keys[0]
		_, existed := h.coll.docs[id]
		var out cache.VerifCacheRow
		switch {
		case upd[0][1] < 0 && via%2 == 0:
			name = "DeleteOne"
			_, err = h.m.DeleteOne(ctx, key, id)
		case upd[0][1] < 0:
			name = "FindOneAndDelete"
			err = h.m.FindOneAndDelete(ctx, key, &out, id)
		case !existed:
			name = "InsertOne"
			_, err = h.m.InsertOne(ctx, key, bson.D{})
		default:
			switch via % 5 {
			case 0:
				name = "ReplaceOne"
				_, err = h.m.ReplaceOne(ctx, key, id, bson.D{})
			case 1:
				name = "UpdateOne"
				_, err = h.m.UpdateOne(ctx, key, id, bson.D{})
			case 2:
				name = "UpdateByID"
				_, err = h.m.UpdateByID(ctx, key, id, bson.D{})
			case 3:
				name = "FindOneAndReplace"
				err = h.m.FindOneAndReplace(ctx, key, &out, id, bson.D{})
			default:
				name = "FindOneAndUpdate"
				err = h.m.FindOneAndUpdate(ctx, key, &out, id, bson.D{})
			}
		}
	}
	h.coll.fail, h.coll.pending = false, nil
	if upd == nil || dbf {
		upd = [][]int{}
	}
	if !dbf {
		for _, k := range ks {
			if h.w.Down {
				h.w.Owed = true
				h.dirty[k] = true
			} else {
				delete(h.dirty, k)
			}
		}
	}
	h.w.Ev(map[string]any{"e": "write", "upd": upd, "ks": ks, "dbf": dbf, "r": verifCacheClass(err), "via": name})
}

func (h *verifCacheMonH) do(op verifCacheOp, api int) {
	switch op.Op {
	case "take":
		h.take(op.K, op.Dbf, op.Flip)
	case "get":
		h.get(op.K)
	case "set":
		if op.E == 0 {
			h.set(op.K, op.V)
		}
	case "write":
		h.write(op.Upd, op.Ks, op.Dbf, api)
	case "del":
		h.write(nil, op.Ks, false, 0)
	case "cleaner":
		if h.w.Owed {
			h.w.AdvanceUntilCleaner(70)
		}
	case "advance":
		h.w.Advance(op.D)
	case "fault":
		h.w.Fault(op.V == 1)
	}
}

func verifCacheMonSetup(t *testing.T) *verifCacheMonH {
	verifCacheEmitter = verifOpen(t)
	if !cache.VerifCacheWB {
		// the cleaner of core/stores/cache cannot be driven on this tree (its internals do not match the white-box
		// part of the world helper): without it no sound history can be recorded, the driver does not run
		verifCacheEmitter.Emit(verifEv{"e": "info", "skipped": "C06 drivers need to drive the cleaner wheel of core/stores/cache"})
		verifCacheEmitter.Close()
		t.Skip("white-box part of the C06 world helper unavailable")
	}
	h := &verifCacheMonH{rnd: verifRand(608)}
	t.Cleanup(func() {
		if h.w != nil {
			h.w.Close()
		}
		verifCacheEmitter.Close()
	})
	return h
}

// TestVerifCacheMoncReplay performs TLC-generated histories (CacheAsideMC, NI = 0).
func TestVerifCacheMoncReplay(t *testing.T) {
	h := verifCacheMonSetup(t)
	for i, raw := range verifInput(t) {
		var ops []verifCacheOp
		if err := json.Unmarshal(raw, &ops); err != nil {
			t.Fatal(err)
		}
		h.begin(verifEnvInt("VERIF_CACHE_NP", 2), verifEnvInt("VERIF_CACHE_EXP", 20), verifEnvInt("VERIF_CACHE_NF", 10))
		for j, op := range ops {
			h.do(op, i+j)
		}
	}
}

func (h *verifCacheMonH) randomOp() {
	k := h.rnd.Intn(h.np)
	switch x := h.rnd.Intn(100); {
	case x < 38:
		h.take(k, h.rnd.Intn(9) == 0, h.rnd.Intn(14) == 0)
	case x < 60:
		if _, ok := h.coll.docs[k]; ok && h.rnd.Intn(3) == 0 {
			h.write([][]int{{k, -1}}, []int{k}, h.rnd.Intn(10) == 0, h.rnd.Intn(10))
		} else if h.np > 1 && h.rnd.Intn(5) == 0 {
			upd, ks := [][]int{}, []int{}
			for p := 0; p < h.np; p++ {
				h.ver++
				upd = append(upd, []int{p, h.ver})
				ks = append(ks, p)
			}
			h.write(upd, ks, h.rnd.Intn(10) == 0, 0)
		} else {
			h.ver++
			h.write([][]int{{k, h.ver}}, []int{k}, h.rnd.Intn(10) == 0, h.rnd.Intn(10))
		}
	case x < 64:
		h.get(k)
	case x < 70:
		if r, ok := h.coll.docs[k]; ok && h.rnd.Intn(3) > 0 {
			h.set(k, r.Ver)
		} else {
			h.ver++
			h.set(k, h.ver)
		}
	case x < 74:
		h.write(nil, []int{k}, false, 0)
	case x < 87:
		snap := h.w.Snapshot()
		d := 1 + h.rnd.Intn(3)
		if len(snap) > 0 && h.rnd.Intn(3) > 0 {
			if d = snap[h.rnd.Intn(len(snap))][2] + h.rnd.Intn(3) - 1; d < 1 {
				d = 1
			}
		}
		h.w.Advance(d)
	case x < 95:
		if h.w.Down {
			h.w.Fault(false)
		} else if h.rnd.Intn(2) == 0 {
			h.w.Fault(true)
		}
	default:
		if h.w.Owed {
			h.w.AdvanceUntilCleaner(1 + h.rnd.Intn(70))
		}
	}
}

// TestVerifCacheMoncRandom: seeded random histories, then the probed history of the known finding.
func TestVerifCacheMoncRandom(t *testing.T) {
	h := verifCacheMonSetup(t)
	n, length := verifEnvInt("VERIF_CACHE_HIST", 30), verifEnvInt("VERIF_CACHE_LEN", 60)
	for x := 0; x < n; x++ {
		cfg := verifCacheConfigs[h.rnd.Intn(len(verifCacheConfigs))]
		h.begin(1+h.rnd.Intn(3), cfg[0], cfg[1])
		for j := 0; j < length; j++ {
			h.randomOp()
			if h.w.Down && h.rnd.Intn(4) == 0 {
				h.w.Fault(false)
			}
		}
	}
	h.kfOK = true
	h.begin(1, 600, 100)
	h.write([][]int{{0, 1}}, []int{0}, false, 0)
	h.take(0, false, false)
	h.w.Fault(true)
	h.write([][]int{{0, 2}}, []int{0}, false, 1) // UpdateOne succeeds, invalidation fails, nil is returned
	h.w.Fault(false)
	h.take(0, false, false)
	h.w.AdvanceUntilCleaner(3)
	h.take(0, false, false)
	h.w.Drain()
}
