//go:build verif && !verifnowb

package executors

// C11 white-box accessors: the only place in the core/executors driver that reaches unexported
// parts of go-zero:
//   - the *PeriodicalExecutor inside a BulkExecutor / ChunkExecutor   (field `executor`)
//   - the ticker factory of a PeriodicalExecutor                       (field `newTicker`)
//   - the TaskContainer of a PeriodicalExecutor                        (field `container`)
// They are reached by reflection (by name, else the only field of the expected type), so that a
// renaming or restructuring degrades the single accessor at run time (ok = false) instead of
// breaking the build; nothing here names an unexported identifier at compile time.  The driver
// works without any of them (see zz_verif_c11_nowb_test.go, forced with VERIF_NOWB=1):
//   no ticker factory -> no harness ticker: a real ticker with an interval the driver chooses,
//                        schedules are driven without tick steps;
//   no container      -> no auxiliary `take` events for Bulk/Chunk (they feed only the guard of a
//                        known finding, never a requirement of the property).

import (
	"reflect"
	"time"
	"unsafe"

	"github.com/zeromicro/go-zero/core/timex"
)

const peWB = true

// peField returns the (settable) field of *obj called name with type typ, else the only field of
// type typ; ok = false when there is no such field.
func peField(obj any, name string, typ reflect.Type) (fv reflect.Value, ok bool) {
	defer func() {
		if recover() != nil {
			fv, ok = reflect.Value{}, false
		}
	}()
	v := reflect.ValueOf(obj)
	if v.Kind() != reflect.Ptr || v.IsNil() || v.Elem().Kind() != reflect.Struct {
		return reflect.Value{}, false
	}
	s := v.Elem()
	f := s.FieldByName(name)
	if !f.IsValid() || f.Type() != typ {
		n := 0
		for i := 0; i < s.NumField(); i++ {
			if s.Field(i).Type() == typ {
				f = s.Field(i)
				n++
			}
		}
		if n != 1 {
			return reflect.Value{}, false
		}
	}
	if !f.CanAddr() {
		return reflect.Value{}, false
	}
	return reflect.NewAt(typ, unsafe.Pointer(f.UnsafeAddr())).Elem(), true
}

// peInner: the PeriodicalExecutor that does the work of x (a *PeriodicalExecutor, *BulkExecutor or *ChunkExecutor).
func peInner(x any) (*PeriodicalExecutor, bool) {
	if pe, ok := x.(*PeriodicalExecutor); ok {
		return pe, pe != nil
	}
	f, ok := peField(x, "executor", reflect.TypeOf((*PeriodicalExecutor)(nil)))
	if !ok {
		return nil, false
	}
	pe, _ := f.Interface().(*PeriodicalExecutor)
	return pe, pe != nil
}

// peSetTicker replaces the ticker factory of pe (before pe is used).
func peSetTicker(pe *PeriodicalExecutor, mk func(time.Duration) timex.Ticker) (ok bool) {
	defer func() {
		if recover() != nil {
			ok = false
		}
	}()
	f, ok := peField(pe, "newTicker", reflect.TypeOf(mk))
	if !ok || f.IsNil() {
		return false
	}
	f.Set(reflect.ValueOf(mk))
	return true
}

// peWrapContainer puts wrap(container) in the place of pe's container (before pe is used).
func peWrapContainer(pe *PeriodicalExecutor, wrap func(TaskContainer) TaskContainer) (ok bool) {
	defer func() {
		if recover() != nil {
			ok = false
		}
	}()
	f, ok := peField(pe, "container", reflect.TypeOf((*TaskContainer)(nil)).Elem())
	if !ok || f.IsNil() {
		return false
	}
	cur, _ := f.Interface().(TaskContainer)
	if cur == nil {
		return false
	}
	f.Set(reflect.ValueOf(wrap(cur)))
	return true
}
