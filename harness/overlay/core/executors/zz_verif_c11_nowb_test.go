//go:build verif && verifnowb

package executors

// Black-box stand-ins for zz_verif_c11_wb_test.go (see there): no harness ticker, no container
// wrapper for Bulk/Chunk. The driver then uses only NewPeriodicalExecutor / NewBulkExecutor /
// NewChunkExecutor, Add, Flush, Wait, the execute callback, a user-written TaskContainer, the
// virtual clock (timex.VerifNow) and the gate point pe.add.sent.

import (
	"time"

	"github.com/zeromicro/go-zero/core/timex"
)

const peWB = false

func peInner(x any) (*PeriodicalExecutor, bool) { return nil, false }

func peSetTicker(pe *PeriodicalExecutor, mk func(time.Duration) timex.Ticker) bool { return false }

func peWrapContainer(pe *PeriodicalExecutor, wrap func(TaskContainer) TaskContainer) bool {
	return false
}
