//go:build verif

package executors

// C11 driver: drives real PeriodicalExecutor / BulkExecutor / ChunkExecutor objects with
// TLC-generated environment schedules (calls, callback-gate releases, ticks, clock advances,
// hook-gate releases) and with free-running stress, and records the observable events.
// No expectations here: the verdict comes from TLC validating the recorded trace against
// specs/executors/PE.tla (via PETrace.tla).
//
// Steering (never part of a verdict): after every environment step the driver waits until the
// library is quiescent, i.e. every goroutine that is inside this package is blocked on a channel,
// lock, wait group or one of the driver's gates (runtime.Stack snapshot - a logical condition, not
// a delay). That realises the "run to quiescence" discipline of PEImpl.tla's steering mode.
//
// This file uses the public API of the package only (constructors, Add/Flush/Wait, the execute
// callback, a user-written TaskContainer) plus the harness hooks (virtual clock, gate point).
// The three white-box handles (harness ticker, container wrapper of Bulk/Chunk, the executor inside
// Bulk/Chunk) live in zz_verif_c11_wb_test.go and degrade one by one; zz_verif_c11_nowb_test.go
// (tag verifnowb, VERIF_NOWB=1) has none of them:
//   harness ticker missing  -> a real ticker: replay uses an interval far longer than a schedule
//                              (tick steps do nothing), stress a short one (real ticks, real idle quits);
//   container wrapper missing -> no `take` events for that kind (auxiliary events only).

import (
	"bytes"
	"encoding/json"
	"fmt"
	"math/rand"
	"runtime"
	"sort"
	"strings"
	"sync"
	"sync/atomic"
	"testing"
	"time"

	"github.com/zeromicro/go-zero/core/logx"
	"github.com/zeromicro/go-zero/core/timex"
	"github.com/zeromicro/go-zero/internal/verifhook"
)

const (
	peInterval = time.Second // with the harness ticker: only the unit of the idle threshold
	peHookName = "pe.add.sent"
	// without the harness ticker (real timex.NewTicker):
	peRealReplay = 3 * time.Second        // far longer than a schedule takes: normally no tick interferes
	peRealStress = 500 * time.Microsecond // free-running: real ticks all the time
	// clock advance in intervals: "longer than any idle threshold" (the statement leaves the number of
	// idle rounds free; 10 in this tree)
	peIdleJump = 256
)

// virtual clock (ns), shared by all driver objects and only ever advanced: a flusher goroutine that
// outlives its run (real ticker) sees time pass and quits
var peNow int64

// does the white-box ticker injection work for this kind? 0 unknown, 1 yes, 2 no
var peTickerCap = map[string]int{}

// what the driver objects of a kind had: {harness ticker, take events}
var peCaps = map[string][2]bool{}

// ---------------------------------------------------------------- ticker / clock

type peTicker struct {
	c       chan time.Time
	stopped int32
}

func (t *peTicker) Chan() <-chan time.Time { return t.c }
func (t *peTicker) Stop()                  { atomic.StoreInt32(&t.stopped, 1) }

// ---------------------------------------------------------------- containers

// peCont is a user-supplied TaskContainer with a weight threshold (PeriodicalExecutor is a public
// extension point: this is what a user of the package writes). Every task weighs 10 unless the
// schedule says otherwise, so the threshold is a count threshold by default.
type peCont struct {
	tasks  []int
	thr    int
	sum    int
	weight func(int) int
	exec   func([]int)
}

func (c *peCont) AddTask(task any) bool {
	c.tasks = append(c.tasks, task.(int))
	c.sum += c.weight(task.(int))
	return c.sum >= c.thr*10
}
func (c *peCont) Execute(tasks any) { c.exec(tasks.([]int)) }
func (c *peCont) RemoveAll() any {
	t := c.tasks
	c.tasks = nil
	c.sum = 0
	return t
}

// peWrap observes the container protocol (called under pe.lock): which tasks left the container
// together and whether that was the threshold hand-over inside Add. Auxiliary events only.
type peWrap struct {
	inner TaskContainer
	d     *peDriver
	full  bool
}

func (w *peWrap) AddTask(task any) bool {
	w.full = w.inner.AddTask(task)
	return w.full
}
func (w *peWrap) Execute(tasks any) { w.inner.Execute(tasks) }
func (w *peWrap) RemoveAll() any {
	v := w.inner.RemoveAll()
	ts := peInts(v)
	thr := w.full
	w.full = false
	if len(ts) > 0 {
		w.d.em.Emit(verifEv{"e": "take", "ts": ts, "thr": thr})
	}
	return v
}

func peInts(v any) []int {
	out := []int{}
	switch x := v.(type) {
	case []int:
		out = append(out, x...)
	case []any:
		for _, e := range x {
			out = append(out, e.(int))
		}
	}
	return out
}

// ---------------------------------------------------------------- driver object

type peGate struct {
	b   int
	ts  []int
	rel chan bool // value: panic?
}

type peOp struct {
	op string
	t  int
}

type peDriver struct {
	t    *testing.T
	em   *verifEmitter
	kind string
	thr  int

	add   func(t int)
	flush func()
	wait  func()

	interval time.Duration // what the executor was constructed with
	fake     bool          // harness ticker injected (white box)
	takes    bool          // container wrapped: `take` events are recorded

	mu         sync.Mutex
	adding     map[int64]int // goroutine id -> task of the Add it is performing (hook gate only)
	tickers    []*peTicker
	gates      map[int]*peGate
	hooks      map[int]chan struct{} // task -> hook gate of the Add of that task
	nb         int
	auto       bool // gates open by themselves
	hookOn     bool // hold producers at the hook point
	perturb    func()
	ops        sync.WaitGroup
	pendMu     sync.Mutex
	pending    map[string]int
	workers    map[int]chan peOp
	sizeOf     func(t int) int
	panicEvery int // stress: every n-th callback panics
	hookSeen   int32
}

func newPEDriver(t *testing.T, em *verifEmitter, kind string, thr int, stress bool) *peDriver {
	d := &peDriver{t: t, em: em, kind: kind, thr: thr, gates: map[int]*peGate{}, hooks: map[int]chan struct{}{},
		pending: map[string]int{}, workers: map[int]chan peOp{}, adding: map[int64]int{}}
	d.sizeOf = func(int) int { return 10 }
	newTicker := func(time.Duration) timex.Ticker {
		tk := &peTicker{c: make(chan time.Time, 1)}
		d.mu.Lock()
		d.tickers = append(d.tickers, tk)
		d.mu.Unlock()
		return tk
	}
	execAny := func(tasks []any) { d.exec(peInts(tasks)) }
	// public API only: construct the executor with the given flush interval
	build := func(iv time.Duration) any {
		d.interval = iv
		switch kind {
		case "pe":
			c := &peCont{thr: thr, exec: d.exec, weight: func(t int) int { return d.sizeOf(t) }}
			pe := NewPeriodicalExecutor(iv, &peWrap{inner: c, d: d})
			d.add = func(t int) { pe.Add(t) }
			d.flush = func() { pe.Flush() }
			d.wait = pe.Wait
			return pe
		case "bulk":
			be := NewBulkExecutor(execAny, WithBulkTasks(thr), WithBulkInterval(iv))
			d.add = func(t int) { be.Add(t) }
			d.flush = be.Flush
			d.wait = be.Wait
			return be
		case "chunk":
			ce := NewChunkExecutor(execAny, WithChunkBytes(thr*10), WithFlushInterval(iv))
			d.add = func(t int) { ce.Add(t, d.sizeOf(t)) }
			d.flush = ce.Flush
			d.wait = ce.Wait
			return ce
		}
		t.Fatalf("unknown kind %q", kind)
		return nil
	}
	real := peRealReplay
	if stress {
		real = peRealStress
	}
	// white box, optional: harness ticker (else a real one), container wrapper of Bulk/Chunk
	var pe *PeriodicalExecutor
	ok := false
	if peTickerCap[kind] != 2 {
		pe, ok = peInner(build(peInterval))
		d.fake = ok && peSetTicker(pe, newTicker)
		if d.fake {
			peTickerCap[kind] = 1
		} else {
			peTickerCap[kind] = 2
		}
	}
	if !d.fake {
		pe, ok = peInner(build(real))
	}
	d.takes = kind == "pe"
	if ok && kind != "pe" {
		d.takes = peWrapContainer(pe, func(c TaskContainer) TaskContainer { return &peWrap{inner: c, d: d} })
	}
	peCaps[kind] = [2]bool{d.fake, d.takes}
	return d
}

// peGoid: id of the calling goroutine (first line of its stack: "goroutine N [running]:")
func peGoid() int64 {
	var buf [64]byte
	n := runtime.Stack(buf[:], false)
	var id int64
	fmt.Sscanf(string(buf[:n]), "goroutine %d ", &id)
	return id
}

// exec is the execute callback: logs the batch, blocks at the driver's gate, logs the end.
func (d *peDriver) exec(ts []int) {
	ts = append([]int{}, ts...)
	sort.Ints(ts)
	d.mu.Lock()
	d.nb++
	g := &peGate{b: d.nb, ts: ts, rel: make(chan bool, 1)}
	auto := d.auto
	if !auto {
		d.gates[g.b] = g
	}
	pt := d.perturb
	d.mu.Unlock()
	d.em.Emit(verifEv{"e": "execStart", "b": g.b, "ts": ts})
	pn := false
	if auto {
		if pt != nil {
			pt()
		}
		pn = d.panicEvery > 0 && g.b%d.panicEvery == 0
	} else {
		pn = <-g.rel
	}
	d.em.Emit(verifEv{"e": "execEnd", "b": g.b, "panic": pn})
	if pn {
		panic("verif: callback panics")
	}
}

func (d *peDriver) release(ts []int, pn bool) bool {
	sort.Ints(ts)
	d.mu.Lock()
	defer d.mu.Unlock()
	for b, g := range d.gates {
		if fmt.Sprint(g.ts) == fmt.Sprint(ts) {
			delete(d.gates, b)
			g.rel <- pn
			return true
		}
	}
	return false
}

func (d *peDriver) openAll() {
	d.mu.Lock()
	d.auto = true
	d.hookOn = false
	for b, g := range d.gates {
		delete(d.gates, b)
		g.rel <- false
	}
	for t, h := range d.hooks {
		delete(d.hooks, t)
		close(h)
	}
	d.mu.Unlock()
}

// hook handler: the producer that has just sent its batch to the commander parks here
func (d *peDriver) atHook(point string, args ...any) {
	if point != peHookName {
		return
	}
	atomic.StoreInt32(&d.hookSeen, 1)
	id := peGoid()
	d.mu.Lock()
	// the gate point is reached on the goroutine that called Add: which Add it is follows from the
	// goroutine, not from the argument (whose type is the library's business)
	t, mine := d.adding[id]
	if !d.hookOn || !mine {
		d.mu.Unlock()
		return
	}
	h := make(chan struct{})
	d.hooks[t] = h
	d.mu.Unlock()
	<-h
}

func (d *peDriver) releaseHook(t int) bool {
	d.mu.Lock()
	defer d.mu.Unlock()
	if h, ok := d.hooks[t]; ok {
		delete(d.hooks, t)
		close(h)
		return true
	}
	return false
}

func (d *peDriver) tick() bool {
	d.mu.Lock()
	defer d.mu.Unlock()
	if len(d.tickers) == 0 {
		return false
	}
	tk := d.tickers[len(d.tickers)-1]
	if atomic.LoadInt32(&tk.stopped) == 1 {
		return false
	}
	select {
	case tk.c <- time.Time{}:
		return true
	default:
		return false
	}
}

func (d *peDriver) advance() { atomic.AddInt64(&peNow, peIdleJump*int64(d.interval)) }

// lastTickerStopped: the flusher goroutine that took the latest harness ticker has quit (or none ever started)
func (d *peDriver) lastTickerStopped() bool {
	d.mu.Lock()
	defer d.mu.Unlock()
	return len(d.tickers) == 0 || atomic.LoadInt32(&d.tickers[len(d.tickers)-1].stopped) == 1
}

// call performs one API call on behalf of producer p and logs its interval.
func (d *peDriver) call(p int, o peOp) {
	key := fmt.Sprintf("%s:%d:%d", o.op, p, o.t)
	d.pendMu.Lock()
	d.pending[key]++
	d.pendMu.Unlock()
	ev := verifEv{"p": p}
	if o.op == "add" {
		ev["t"] = o.t
		ev["z"] = d.sizeOf(o.t) // informative: the property does not depend on the size a task is added with
	}
	st := verifEv{"e": o.op + "Start"}
	en := verifEv{"e": o.op + "End"}
	for k, v := range ev {
		st[k], en[k] = v, v
	}
	d.em.Emit(st)
	panicked := true
	func() {
		defer func() {
			if r := recover(); r != nil {
				d.em.Emit(verifEv{"e": "callPanic", "p": p, "op": o.op})
			}
		}()
		switch o.op {
		case "add":
			d.mu.Lock()
			hk := d.hookOn
			d.mu.Unlock()
			if hk {
				id := peGoid()
				d.mu.Lock()
				d.adding[id] = o.t
				d.mu.Unlock()
				defer func() {
					d.mu.Lock()
					delete(d.adding, id)
					d.mu.Unlock()
				}()
			}
			d.add(o.t)
		case "flush":
			d.flush()
		case "wait":
			d.wait()
		}
		panicked = false
	}()
	if !panicked {
		d.em.Emit(en)
	}
	d.pendMu.Lock()
	d.pending[key]--
	if d.pending[key] == 0 {
		delete(d.pending, key)
	}
	d.pendMu.Unlock()
}

// submit hands op to producer p's goroutine (one goroutine per producer: calls of one producer
// are sequential, as in the model).
func (d *peDriver) submit(p int, o peOp) {
	ch, ok := d.workers[p]
	if !ok {
		ch = make(chan peOp, 1024)
		d.workers[p] = ch
		go d.peWorker(p, ch)
	}
	d.ops.Add(1)
	ch <- o
}

func (d *peDriver) peWorker(p int, ch chan peOp) {
	for o := range ch {
		d.call(p, o)
		d.ops.Done()
	}
}

func (d *peDriver) pendingList() []string {
	d.pendMu.Lock()
	defer d.pendMu.Unlock()
	out := []string{}
	for k := range d.pending {
		out = append(out, k)
	}
	sort.Strings(out)
	return out
}

// finish: open every gate, let every outstanding call return (watchdog), perform the final Wait
// (no Add is running or will run), log quiescence, then let the flusher go idle and quit.
func (d *peDriver) finish(watchdog time.Duration) {
	d.openAll()
	done := make(chan struct{})
	go func() { d.ops.Wait(); close(done) }()
	ok := true
	select {
	case <-done:
	case <-time.After(watchdog):
		ok = false
	}
	if ok {
		d.ops.Add(1)
		fin := make(chan struct{})
		go func() { d.call(0, peOp{op: "wait"}); d.ops.Done(); close(fin) }()
		select {
		case <-fin:
		case <-time.After(watchdog):
			ok = false
		}
	}
	d.em.Emit(verifEv{"e": "end", "pending": d.pendingList()})
	for _, ch := range d.workers {
		close(ch)
	}
	if !ok {
		atomic.AddInt32(&peHangs, 1)
		return // goroutines of this object are stuck; leave them
	}
	// idle the flusher out so that goroutines do not pile up (not observed, not judged)
	if !d.fake {
		d.advance() // real ticker: its next tick finds the executor idle for long
		return
	}
	for i := 0; i < 6 && !d.lastTickerStopped(); i++ {
		d.advance()
		d.tick()
		peSettle(2 * time.Second)
	}
}

// ---------------------------------------------------------------- quiescence detection

// calls that never returned so far (each costs a watchdog period: after a few, stop producing more)
var peHangs int32

const peMaxHangs = 2

var peStackBuf = make([]byte, 4<<20)

var peBlocked = map[string]bool{
	"chan receive": true, "chan send": true, "select": true, "semacquire": true,
	"sync.Mutex.Lock": true, "sync.RWMutex.Lock": true, "sync.RWMutex.RLock": true,
	"sync.WaitGroup.Wait": true, "sync.Cond.Wait": true, "chan receive (nil chan)": true,
	"select (no cases)": true,
}

// peQuiescent: every goroutine with a frame in this package (other than the caller) is blocked.
func peQuiescent() bool {
	n := runtime.Stack(peStackBuf, true)
	for _, g := range bytes.Split(peStackBuf[:n], []byte("\n\n")) {
		s := string(g)
		if !strings.Contains(s, "core/executors.") || strings.Contains(s, "executors.peQuiescent") {
			continue
		}
		i, j := strings.IndexByte(s, '['), strings.IndexByte(s, ']')
		if i < 0 || j < i {
			continue
		}
		state := s[i+1 : j]
		if k := strings.IndexByte(state, ','); k >= 0 {
			state = state[:k]
		}
		if peBlocked[state] {
			continue
		}
		// the library may poll (Wait sleeps between looks at the batches in flight): a goroutine that sleeps
		// in library code (innermost frame of this package is not the driver's), or whose innermost frame of
		// this package is Wait itself, is treated as blocked (it waits for others)
		inner, file := "", ""
		lines := strings.Split(s, "\n")
		for i, ln := range lines[1:] {
			if strings.Contains(ln, "core/executors.") && !strings.HasPrefix(ln, "\t") {
				inner = ln
				if i+2 < len(lines) {
					file = lines[i+2]
				}
				break
			}
		}
		if strings.Contains(inner, "(*PeriodicalExecutor).Wait(") {
			continue
		}
		if state == "sleep" && inner != "" && !strings.Contains(file, "zz_verif_") {
			continue
		}
		return false
	}
	return true
}

// peSettle waits (as long as it takes, bounded only by an infrastructure watchdog) until the
// library cannot move without the driver.
func peSettle(limit time.Duration) bool {
	deadline := time.Now().Add(limit)
	for i := 0; ; i++ {
		if i < 3 {
			runtime.Gosched()
		} else {
			time.Sleep(20 * time.Microsecond)
		}
		if peQuiescent() {
			return true
		}
		if time.Now().After(deadline) {
			return false
		}
	}
}

// ---------------------------------------------------------------- replay of TLC schedules

type peStep struct {
	Op    string `json:"op"`
	P     int    `json:"p"`
	T     int    `json:"t"`
	Z     *int   `json:"z"` // size the task is added with, in units of a tenth of the threshold unit (absent: 1)
	Ts    []int  `json:"ts"`
	Panic bool   `json:"panic"`
}

func peSetup(t *testing.T) func() {
	logx.Disable()
	return func() {
		timex.VerifNow = nil
		verifhook.Set(nil)
	}
}

func (d *peDriver) install() {
	timex.VerifNow = func() time.Duration { return time.Duration(atomic.LoadInt64(&peNow)) }
	verifhook.Set(d.atHook)
}

func peRunSchedule(t *testing.T, em *verifEmitter, kind string, thr int, steps []peStep, hook bool) {
	d := newPEDriver(t, em, kind, thr, false)
	d.hookOn = hook
	d.install()
	em.Emit(verifEv{"e": "reset", "kind": kind, "thr": thr, "mode": "replay"})
	lastAdd := map[int]int{}
	// sizes the schedule gives to its tasks (ChunkExecutor.Add(task, size), weight in the user container);
	// fixed before any call is made, read-only afterwards
	sizes := map[int]int{}
	for _, s := range steps {
		if s.Op == "add" && s.Z != nil {
			sizes[s.T] = *s.Z * 10
		}
	}
	d.sizeOf = func(t int) int {
		if z, ok := sizes[t]; ok {
			return z
		}
		return 10
	}
	for _, s := range steps {
		switch s.Op {
		case "add":
			lastAdd[s.P] = s.T
			d.submit(s.P, peOp{op: "add", t: s.T})
		case "flush", "wait":
			d.submit(s.P, peOp{op: s.Op})
		case "rel":
			d.release(s.Ts, s.Panic)
		case "tick":
			d.tick()
		case "adv":
			d.advance()
		case "hook":
			d.releaseHook(lastAdd[s.P])
		default:
			t.Fatalf("unknown step %q", s.Op)
		}
		peSettle(10 * time.Second)
	}
	d.finish(peWatchdog())
}

func peWatchdog() time.Duration {
	return time.Duration(verifEnvInt("VERIF_PE_WATCHDOG_S", 20)) * time.Second
}

// peHookPresent: does this tree have the gate point between the send and the confirmation?
func peHookPresent(t *testing.T) bool {
	seen := int32(0)
	verifhook.Set(func(point string, args ...any) {
		if point == peHookName {
			atomic.StoreInt32(&seen, 1)
		}
	})
	defer verifhook.Set(nil)
	be := NewBulkExecutor(func([]any) {}, WithBulkTasks(1), WithBulkInterval(time.Hour))
	be.Add(1)
	be.Wait()
	return atomic.LoadInt32(&seen) == 1
}

// TestVerifPEReplay replays TLC-generated environment schedules (PEImpl.tla, steering mode).
// Input lines: {"kind":..,"thr":..,"hook":bool,"steps":[...]}.
func TestVerifPEReplay(t *testing.T) {
	em := verifOpen(t)
	defer em.Close()
	defer peSetup(t)()
	hookOK := peHookPresent(t)
	skipped := 0
	for _, raw := range verifInput(t) {
		var in struct {
			Kind  string   `json:"kind"`
			Thr   int      `json:"thr"`
			Hook  bool     `json:"hook"`
			Steps []peStep `json:"steps"`
		}
		if err := json.Unmarshal(raw, &in); err != nil {
			t.Fatal(err)
		}
		if in.Hook && !hookOK {
			skipped++
			continue
		}
		if atomic.LoadInt32(&peHangs) >= peMaxHangs {
			break
		}
		peRunSchedule(t, em, in.Kind, in.Thr, in.Steps, in.Hook)
	}
	peInfo(em, hookOK, skipped)
}

// peInfo: a trace of its own that tells the runner what this tree / build offered (no verdict depends on it)
func peInfo(em *verifEmitter, hookOK bool, skipped int) {
	noTicker, noTakes := []string{}, []string{}
	for _, k := range []string{"pe", "bulk", "chunk"} {
		if c, ok := peCaps[k]; ok {
			if !c[0] {
				noTicker = append(noTicker, k)
			}
			if !c[1] {
				noTakes = append(noTakes, k)
			}
		}
	}
	em.Emit(verifEv{"e": "reset", "kind": "none", "thr": 0, "mode": "info"})
	em.Emit(verifEv{"e": "info", "hook": hookOK, "skipped": skipped, "wb": peWB, "noticker": noTicker, "notakes": noTakes})
	em.Emit(verifEv{"e": "end", "pending": []string{}})
}

// ---------------------------------------------------------------- stress

func peRand(seed int64) *rand.Rand { return rand.New(rand.NewSource(seed)) }

// TestVerifPEStress: producers, a ticker/clock goroutine and perturbed callbacks run freely; nothing
// is steered. Every run is a trace to validate.
func TestVerifPEStress(t *testing.T) {
	em := verifOpen(t)
	defer em.Close()
	defer peSetup(t)()
	rnd := verifRand(11)
	runs := verifEnvInt("VERIF_PE_RUNS", 60)
	kinds := []string{"pe", "bulk", "chunk"}
	for r := 0; r < runs && atomic.LoadInt32(&peHangs) < peMaxHangs; r++ {
		kind := kinds[r%3]
		thr := 1 + rnd.Intn(4)
		np := 2 + rnd.Intn(5)
		per := 4 + rnd.Intn(10)
		addW, flushW := 7, 8 // of 10: add, flush, rest wait
		storm := r%4 == 3    // many producers, flush/wait heavy, nothing slowed down: tiny windows
		if storm {
			np, per, addW, flushW = 8, 30+rnd.Intn(20), 5, 8
		}
		d := newPEDriver(t, em, kind, thr, true)
		d.auto = true
		if r%5 < 2 {
			d.panicEvery = 3 + rnd.Intn(5)
		}
		// sizes: ChunkExecutor.Add takes any int. Per round of three runs: positive sizes; sizes with many
		// zeros (tasks that never move the accumulated size); sizes that cancel each other out
		switch szMode := (r / 3) % 3; {
		case kind == "chunk" && szMode == 0:
			d.sizeOf = func(t int) int { return 3 + (t*7)%13 }
		case kind != "bulk" && szMode == 1:
			d.sizeOf = func(t int) int { return []int{0, 0, 7, 0, 13, 0, 0, 3}[t%8] }
		case kind != "bulk" && szMode == 2:
			d.sizeOf = func(t int) int { return []int{0, -4, 4, 9, -9, 0, 6, -6, 0}[t%9] }
		}
		seeds := make([]int64, np+2)
		for i := range seeds {
			seeds[i] = rnd.Int63()
		}
		pmode := rnd.Intn(3)
		if storm {
			pmode = 0
		}
		var pcnt int64
		d.perturb = func() {
			n := atomic.AddInt64(&pcnt, 1)
			switch pmode {
			case 0:
			case 1:
				for i := int64(0); i < n%4; i++ {
					runtime.Gosched()
				}
			default:
				time.Sleep(time.Duration(n%5) * 50 * time.Microsecond)
			}
		}
		d.install()
		em.Emit(verifEv{"e": "reset", "kind": kind, "thr": thr, "mode": "stress"})
		var next int32
		stop := make(chan struct{})
		var env sync.WaitGroup
		env.Add(1)
		go func() { // the environment: ticks and idle periods
			defer env.Done()
			er := peRand(seeds[np])
			for {
				select {
				case <-stop:
					return
				default:
				}
				if er.Intn(3) == 0 {
					d.advance()
				}
				d.tick()
				if er.Intn(2) == 0 {
					runtime.Gosched()
				} else {
					time.Sleep(time.Duration(er.Intn(200)) * time.Microsecond)
				}
			}
		}()
		var prods sync.WaitGroup
		for p := 1; p <= np; p++ {
			prods.Add(1)
			d.ops.Add(1)
			go func(p int) {
				defer prods.Done()
				defer d.ops.Done()
				pr := peRand(seeds[p])
				for i := 0; i < per; i++ {
					switch x := pr.Intn(10); {
					case x < addW:
						d.call(p, peOp{op: "add", t: int(atomic.AddInt32(&next, 1))})
					case x < flushW:
						d.call(p, peOp{op: "flush"})
					default:
						d.call(p, peOp{op: "wait"})
					}
					if !storm && pr.Intn(3) == 0 {
						runtime.Gosched()
					}
				}
			}(p)
		}
		fin := make(chan struct{})
		go func() { prods.Wait(); close(fin) }()
		select {
		case <-fin:
		case <-time.After(peWatchdog()):
		}
		close(stop)
		env.Wait()
		d.finish(peWatchdog())
	}
	peInfo(em, false, 0)
}
