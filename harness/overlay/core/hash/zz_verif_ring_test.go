//go:build verif

package hash

// C15 driver: performs operation histories on real ConsistentHash rings and records, after
// every operation, which node every probe key is assigned to.  No expectations here: the
// verdict comes from TLC validating the recorded trace against specs/hash/Ring.tla.
//
// One trace = one hash function + one node family + one probe-key set + many ring
// instances.  Node ids are indexes into the family: one id per node NAME (specs/hash/RingRepr.tla:
// the decimal spelling of a number's mathematical value, the text of a string / Stringer); a
// "form" identifies the concrete typed Go value used for that node.  Names are derived from the
// typed values by the driver itself (ringDescribe), never through lang.Repr -- which is part of
// the code under verification -- and values returned by Get are mapped back to (node, form) by
// Go equality.  The reset event describes every form (type, sign, magnitude/text) so that the
// spec checks the numbering (Ring.tla ValsOK).

import (
	"encoding/json"
	"fmt"
	"math/big"
	"math/rand"
	"sort"
	"strconv"
	"strings"
	"testing"
)

// ---------------------------------------------------------------- node values

type ringStr struct{ s string } // fmt.Stringer by value

func (r ringStr) String() string { return r.s }

type ringPStr struct{ s string } // fmt.Stringer by pointer

func (r *ringPStr) String() string { return r.s }

type ringNode struct {
	repr  string // the node's name (= what lang.Repr has to return for every form)
	forms []any  // forms[f-1]
	pref  int    // numeric families: forms[:pref] are the boundary forms (narrowest types holding the number)
}

// pickForm chooses the Go value an operation uses for node n: uniformly, except that in numeric
// families every other choice is a boundary form (input selection only).
func (f ringFamily) pickForm(rnd *rand.Rand, n int) int {
	nd := f.nodes[n-1]
	if nd.pref > 0 && rnd.Intn(2) == 0 {
		return 1 + rnd.Intn(nd.pref)
	}
	return 1 + rnd.Intn(len(nd.forms))
}

// ringBoundaryForms: the integer in the NARROWEST signed and the narrowest unsigned type that
// hold it -- the types at whose range ends it sits or in which a conversion would wrap.
func ringBoundaryForms(neg bool, mag uint64) []any {
	var out []any
	if (!neg && mag <= 1<<63-1) || (neg && mag <= 1<<63) {
		x := int64(mag)
		if neg {
			x = -int64(mag-1) - 1
		}
		switch {
		case x >= -1<<7 && x <= 1<<7-1:
			out = append(out, int8(x))
		case x >= -1<<15 && x <= 1<<15-1:
			out = append(out, int16(x))
		case x >= -1<<31 && x <= 1<<31-1:
			out = append(out, int32(x))
		default:
			out = append(out, x)
		}
	}
	if !neg {
		switch {
		case mag <= 1<<8-1:
			out = append(out, uint8(mag))
		case mag <= 1<<16-1:
			out = append(out, uint16(mag))
		case mag <= 1<<32-1:
			out = append(out, uint32(mag))
		default:
			out = append(out, mag)
		}
	}
	return out
}

type ringFamily struct {
	name  string
	nodes []ringNode // nodes[n-1]
}

// ringDesc describes a typed Go value to the spec: Go type, sign, magnitude digits (numbers) or
// the text (strings, Stringers).  Ring.tla: Canon = sign + magnitude = the node's name.
type ringDesc struct {
	T   string `json:"t"`
	Neg bool   `json:"neg"`
	Mag string `json:"mag"`
}

func (d ringDesc) name() string {
	if d.Neg {
		return "-" + d.Mag
	}
	return d.Mag
}

func ringSigned(t string, x int64) ringDesc {
	if x < 0 {
		return ringDesc{t, true, strconv.FormatUint(uint64(-(x+1))+1, 10)}
	}
	return ringDesc{t, false, strconv.FormatUint(uint64(x), 10)}
}

func ringUnsigned(t string, x uint64) ringDesc {
	return ringDesc{t, false, strconv.FormatUint(x, 10)}
}

// the exact decimal expansion of x (every float has a finite one; the driver only uses floats
// whose shortest round-trip spelling IS the exact one: integers below 2^24 / 2^53, small dyadic
// fractions, and multiples of large powers of ten listed in ringFloatNames)
func ringFloat(t string, x float64) ringDesc {
	neg := x < 0
	if neg {
		x = -x
	}
	txt := new(big.Float).SetFloat64(x).Text('f', 60)
	if strings.Contains(txt, ".") {
		txt = strings.TrimRight(strings.TrimRight(txt, "0"), ".")
	}
	if txt == "0" {
		neg = false
	}
	return ringDesc{t, neg, txt}
}

func ringDescribe(v any) (ringDesc, bool) {
	switch x := v.(type) {
	case string:
		return ringDesc{"string", false, x}, true
	case ringStr:
		return ringDesc{"stringer", false, x.s}, true
	case *ringPStr:
		return ringDesc{"pstringer", false, x.s}, true
	case int:
		return ringSigned("int", int64(x)), true
	case int8:
		return ringSigned("int8", int64(x)), true
	case int16:
		return ringSigned("int16", int64(x)), true
	case int32:
		return ringSigned("int32", int64(x)), true
	case int64:
		return ringSigned("int64", x), true
	case uint:
		return ringUnsigned("uint", uint64(x)), true
	case uint8:
		return ringUnsigned("uint8", uint64(x)), true
	case uint16:
		return ringUnsigned("uint16", uint64(x)), true
	case uint32:
		return ringUnsigned("uint32", uint64(x)), true
	case uint64:
		return ringUnsigned("uint64", x), true
	case float32:
		return ringFloat("float32", float64(x)), true
	case float64:
		return ringFloat("float64", x), true
	case *int:
		return ringSigned("*int", int64(*x)), true
	case *int64:
		return ringSigned("*int64", *x), true
	case *uint64:
		return ringUnsigned("*uint64", *x), true
	case *float64:
		return ringFloat("*float64", *x), true
	}
	return ringDesc{}, false
}

// ringName is the driver's own name of a value (node or lookup key).
func ringName(t *testing.T, v any) string {
	d, ok := ringDescribe(v)
	if !ok {
		t.Fatalf("driver: value %v (%T) has no description", v, v)
	}
	return d.name()
}

// non-integer (or beyond 64 bits) numbers used as nodes: exactly representable in float32 and
// float64 (the last one in float64 only), shortest spelling = exact spelling
var ringFloatNames = map[string]float64{
	"0.5": 0.5, "-2.25": -2.25, "1.75": 1.75, "0.125": 0.125, "1048576.5": 1048576.5, "-7.5": -7.5,
	"300000000000000000000": 3e20,
}

// ringParseInt: is s the canonical decimal spelling of an integer of magnitude < 2^64?
func ringParseInt(s string) (neg bool, mag uint64, ok bool) {
	digits := s
	if strings.HasPrefix(s, "-") {
		neg, digits = true, s[1:]
	}
	if digits == "" || (len(digits) > 1 && digits[0] == '0') || (neg && digits == "0") {
		return false, 0, false
	}
	for _, c := range digits {
		if c < '0' || c > '9' {
			return false, 0, false
		}
	}
	mag, err := strconv.ParseUint(digits, 10, 64)
	if err != nil {
		return false, 0, false
	}
	return neg, mag, true
}

// ringIntForms: the integer (sign, magnitude) in EVERY Go numeric type that holds it exactly.
func ringIntForms(neg bool, mag uint64) []any {
	var forms []any
	if (!neg && mag <= 1<<63-1) || (neg && mag <= 1<<63) {
		x := int64(mag)
		if neg {
			x = -int64(mag-1) - 1
		}
		xi := int(x)
		forms = append(forms, x, &x, xi, &xi)
		if x >= -1<<31 && x <= 1<<31-1 {
			forms = append(forms, int32(x))
		}
		if x >= -1<<15 && x <= 1<<15-1 {
			forms = append(forms, int16(x))
		}
		if x >= -1<<7 && x <= 1<<7-1 {
			forms = append(forms, int8(x))
		}
	}
	if !neg {
		u := mag
		forms = append(forms, u, &u, uint(u))
		if u <= 1<<32-1 {
			forms = append(forms, uint32(u))
		}
		if u <= 1<<16-1 {
			forms = append(forms, uint16(u))
		}
		if u <= 1<<8-1 {
			forms = append(forms, uint8(u))
		}
	}
	if mag <= 1<<53 && !(neg && mag == 0) {
		f := float64(mag)
		if neg {
			f = -f
		}
		forms = append(forms, f, &f)
		if mag <= 1<<24 {
			forms = append(forms, float32(f))
		}
	}
	return forms
}

// formsOf lists comparable Go values whose name is s: the text forms, and for numerals every
// numeric type that holds the number.
func formsOf(s string, rnd *rand.Rand) []any {
	forms := []any{s, ringStr{s}, &ringPStr{s}}
	if neg, mag, ok := ringParseInt(s); ok {
		forms = append(forms, ringIntForms(neg, mag)...)
	} else if f, ok := ringFloatNames[s]; ok {
		g := f
		forms = append(forms, f, &g)
		if float64(float32(f)) == f {
			forms = append(forms, float32(f))
		}
	}
	rnd.Shuffle(len(forms), func(i, j int) { forms[i], forms[j] = forms[j], forms[i] })
	return forms
}

// ringNumericFamily: nodes that are NUMBERS at and around the boundaries of the integer types.
// An anchor u in the top half of the unsigned w-bit range (w = 8/16/32/64), its two's-complement
// twin u-2^w, that twin's magnitude, the truncation twin u+2^w, the signed boundary values, small
// numbers of both signs, zero, a fraction and a number beyond 64 bits: distinct numbers, distinct
// nodes (RingRepr.tla Faithful), each used in every numeric type that holds it, as a string and
// as Stringers.
func ringNumericFamily(rnd *rand.Rand, w, size int) ringFamily {
	if w == 0 {
		w = []int{8, 16, 32, 64}[rnd.Intn(4)]
	}
	one := big.NewInt(1)
	full := new(big.Int).Lsh(one, uint(w))
	half := new(big.Int).Lsh(one, uint(w-1))
	d := big.NewInt(int64(1 + rnd.Intn(9)))
	var u *big.Int
	switch rnd.Intn(5) {
	case 0:
		u = new(big.Int).Set(half)
	case 1:
		u = new(big.Int).Add(half, d)
	case 2:
		u = new(big.Int).Sub(full, one)
	case 3:
		u = new(big.Int).Sub(full, d)
	default:
		u = new(big.Int).Add(half, new(big.Int).Rand(rnd, half))
	}
	s := new(big.Int).Sub(u, full)
	names := []string{u.String(), s.String()}
	small := int64(rnd.Intn(100))
	pool := []string{
		new(big.Int).Neg(s).String(),                    // magnitude of the twin
		new(big.Int).Sub(half, one).String(),            // largest signed
		new(big.Int).Neg(half).String(),                 // smallest signed
		new(big.Int).Sub(full, one).String(),            // largest unsigned
		strconv.FormatInt(small, 10), strconv.FormatInt(-small-1, 10), "0",
		[]string{"0.5", "-2.25", "1.75", "0.125", "1048576.5", "-7.5", "300000000000000000000"}[rnd.Intn(7)],
		u.String() + "1", // a numeral whose replica names collide with the anchor's ("u"+"1x" = "u1"+"x")
	}
	if w < 64 {
		pool = append(pool, new(big.Int).Add(u, full).String()) // truncates to u in w bits
	}
	rnd.Shuffle(len(pool), func(i, j int) { pool[i], pool[j] = pool[j], pool[i] })
	seen := map[string]bool{names[0]: true, names[1]: true}
	for _, p := range pool {
		if len(names) >= size {
			break
		}
		if !seen[p] {
			seen[p] = true
			names = append(names, p)
		}
	}
	f := ringFamily{name: fmt.Sprintf("numeric w=%d %v", w, names)}
	for _, nm := range names {
		nd := ringNode{repr: nm, forms: formsOf(nm, rnd)}
		if neg, mag, ok := ringParseInt(nm); ok {
			for _, b := range ringBoundaryForms(neg, mag) {
				for i := nd.pref; i < len(nd.forms); i++ {
					if nd.forms[i] == b {
						nd.forms[i], nd.forms[nd.pref] = nd.forms[nd.pref], nd.forms[i]
						nd.pref++
						break
					}
				}
			}
		}
		f.nodes = append(f.nodes, nd)
	}
	rnd.Shuffle(len(f.nodes), func(i, j int) { f.nodes[i], f.nodes[j] = f.nodes[j], f.nodes[i] })
	return f
}

// ringVals describes every form of every node for the reset event; the driver refuses (as
// infrastructure) a family whose numbering is not by name.
func ringVals(t *testing.T, fam ringFamily) [][]ringDesc {
	out := make([][]ringDesc, len(fam.nodes))
	owner := map[string]int{}
	for n, nd := range fam.nodes {
		if prev, dup := owner[nd.repr]; dup {
			t.Fatalf("driver: nodes %d and %d share the name %q", prev+1, n+1, nd.repr)
		}
		owner[nd.repr] = n
		for _, fv := range nd.forms {
			d, ok := ringDescribe(fv)
			if !ok || d.name() != nd.repr {
				t.Fatalf("driver: form %v (%T) of node %q is described as %+v", fv, fv, nd.repr, d)
			}
			out[n] = append(out[n], d)
		}
	}
	return out
}

// Families whose names make repr(node)+itoa(i) ambiguous between nodes ("n"+"10" = "n1"+"0"),
// as well as plain ones.
func ringFamilies(rnd *rand.Rand, want int) []ringFamily {
	bases := []string{"n", "", "localhost:", "10.0.0.", "cache-", "node", "7"}
	suffixSets := [][]string{
		{"", "1", "11"},
		{"1", "11", "111"},
		{"1", "11", "12", "2", "21", "3"},
		{"", "1", "2", "10", "11", "110", "19"},
		{"a", "b", "c", "d"},
		{"1", "2", "3", "4", "5", "6", "7", "8", "9", "10", "11", "12"},
		{"5", "51", "52", "515", "6", "61"},
	}
	var fams []ringFamily
	for len(fams) < want {
		b := bases[rnd.Intn(len(bases))]
		ss := suffixSets[rnd.Intn(len(suffixSets))]
		seen := map[string]bool{}
		var f ringFamily
		for _, s := range ss {
			r := b + s
			if r == "" || seen[r] {
				continue
			}
			seen[r] = true
			f.nodes = append(f.nodes, ringNode{repr: r, forms: formsOf(r, rnd)})
		}
		if len(f.nodes) < 2 {
			continue
		}
		rnd.Shuffle(len(f.nodes), func(i, j int) { f.nodes[i], f.nodes[j] = f.nodes[j], f.nodes[i] })
		f.name = fmt.Sprintf("%q+%v", b, ss)
		fams = append(fams, f)
	}
	return fams
}

// the fixed family of the replay driver: abstract nodes 1,2,3 of RingImplGen
func ringChainFamily(kind int, rnd *rand.Rand) ringFamily {
	var reprs []string
	switch kind % 4 {
	case 0:
		reprs = []string{"n", "n1", "n11"}
	case 1:
		reprs = []string{"7", "71", "711"}
	case 2:
		reprs = []string{"localhost:1", "localhost:11", "localhost:111"}
	default:
		reprs = []string{"alpha", "beta", "gamma"} // no shared virtual nodes
	}
	f := ringFamily{name: fmt.Sprint(reprs)}
	for _, r := range reprs {
		f.nodes = append(f.nodes, ringNode{repr: r, forms: formsOf(r, rnd)})
	}
	return f
}

// ---------------------------------------------------------------- hash functions

func ringHashFunc(name string) Func {
	switch name {
	case "murmur3":
		return nil // the default
	case "mod64":
		return func(b []byte) uint64 { return Hash(b) % 64 }
	case "mod7":
		return func(b []byte) uint64 { return Hash(b) % 7 }
	case "const":
		return func(b []byte) uint64 { return 42 }
	case "top":
		return func(b []byte) uint64 { return ^uint64(0) - Hash(b)%5 } // wrap-around, no headroom
	case "len":
		return func(b []byte) uint64 { return uint64(len(b)) }
	}
	panic("unknown hash " + name)
}

func ringApplyHash(fn Func, b []byte) uint64 {
	if fn == nil {
		return Hash(b)
	}
	return fn(b)
}

// ---------------------------------------------------------------- session (= one trace)

type ringSession struct {
	t     *testing.T
	em    *verifEmitter
	fam   ringFamily
	fn    Func
	keys  []any
	rings map[int]*ConsistentHash
	next  int
	// current value of every node on every instance is not tracked here: the spec does that
}

// lookup maps a value returned by Get back to (node, form) by Go equality with the values the
// driver uses (all of them comparable); -2 = not a value of this family at all.
func (s *ringSession) lookup(v any) (int, int) {
	for n, nd := range s.fam.nodes {
		for f, fv := range nd.forms {
			if fv == v {
				return n + 1, f + 1
			}
		}
	}
	return -2, 0
}

func ringKey(j int, rnd *rand.Rand) any {
	switch rnd.Intn(8) {
	case 0:
		return j
	case 1:
		return "key:" + strconv.Itoa(j)
	case 2:
		return ringStr{"user/" + strconv.Itoa(j)}
	case 3:
		return int64(j) * 1000003
	case 4: // "every lookup key": numbers of every type and sign, up to the ends of the ranges
		switch rnd.Intn(6) {
		case 0:
			return ^uint64(0) - uint64(j) // top half of uint64
		case 1:
			return uint64(1)<<63 + uint64(j)
		case 2:
			return -int64(j) - 1
		case 3:
			return uint8(128 + j%128)
		case 4:
			return int8(-1 - j%128)
		default:
			return float64(j%4096) + 0.5
		}
	default:
		return fmt.Sprintf("%x", j*7919)
	}
}

// pickKeys chooses nk probe keys: random ones, plus (input selection only) keys that hash
// just before a position shared by virtual nodes of two distinct nodes of the family.
func (s *ringSession) pickKeys(nk, maxCap int, rnd *rand.Rand) {
	type pt struct {
		h uint64
		n int
	}
	var pts []pt
	for n, nd := range s.fam.nodes {
		for i := 0; i < maxCap; i++ {
			pts = append(pts, pt{ringApplyHash(s.fn, []byte(nd.repr+strconv.Itoa(i))), n})
		}
	}
	sort.Slice(pts, func(i, j int) bool { return pts[i].h < pts[j].h })
	shared := map[uint64]bool{}
	for i := 1; i < len(pts); i++ {
		if pts[i].h == pts[i-1].h && pts[i].n != pts[i-1].n {
			shared[pts[i].h] = true
		}
	}
	targeted := 0
	if len(shared) > 0 {
		perPoint := map[uint64]int{}
		for j := 0; j < 400000 && targeted < nk/2; j++ {
			k := ringKey(rnd.Intn(1<<30), rnd)
			h := ringApplyHash(s.fn, []byte(ringName(s.t, k)))
			idx := sort.Search(len(pts), func(i int) bool { return pts[i].h >= h }) % len(pts)
			p := pts[idx].h
			if shared[p] && perPoint[p] < 3 {
				perPoint[p]++
				s.keys = append(s.keys, k)
				targeted++
			}
		}
	}
	for len(s.keys) < nk {
		s.keys = append(s.keys, ringKey(rnd.Intn(1<<30), rnd))
	}
	rnd.Shuffle(len(s.keys), func(i, j int) { s.keys[i], s.keys[j] = s.keys[j], s.keys[i] })
}

// probe looks every key up; a panic inside Get is an answer like any other (-1).
func (s *ringSession) probe(h *ConsistentHash) ([]int, [][2]int) {
	got := make([]int, len(s.keys))
	seen := map[[2]int]bool{}
	forms := [][2]int{}
	for i, k := range s.keys {
		func() {
			defer func() {
				if r := recover(); r != nil {
					got[i] = -1
				}
			}()
			v, ok := h.Get(k)
			if !ok {
				if v != nil {
					got[i] = -3 // (non-nil, false): not an answer the property knows
				}
				return
			}
			n, f := s.lookup(v)
			got[i] = n
			if n > 0 && !seen[[2]int{n, f}] {
				seen[[2]int{n, f}] = true
				forms = append(forms, [2]int{n, f})
			}
		}()
	}
	return got, forms
}

type ringOp struct {
	N    int    `json:"n"`
	Kind string `json:"kind"` // add | rep | wt | remove
	Arg  int    `json:"arg"`
	F    int    `json:"f"`
}

func (s *ringSession) apply(h *ConsistentHash, op ringOp) {
	nd := s.fam.nodes[op.N-1]
	v := nd.forms[op.F-1]
	switch op.Kind {
	case "add":
		h.Add(v)
	case "rep":
		h.AddWithReplicas(v, op.Arg)
	case "wt":
		h.AddWithWeight(v, op.Arg)
	case "remove":
		h.Remove(v)
	default:
		s.t.Fatalf("unknown op %q", op.Kind)
	}
}

func (s *ringSession) newRing(replicas int) (int, *ConsistentHash) {
	var h *ConsistentHash
	if replicas < 0 {
		if s.fn != nil {
			s.t.Fatal("default constructor with a custom hash")
		}
		h = NewConsistentHash()
	} else {
		h = NewCustomConsistentHash(replicas, s.fn)
	}
	s.next++
	s.rings[s.next] = h
	return s.next, h
}

func (s *ringSession) evNew(replicas int) int {
	i, h := s.newRing(replicas)
	got, _ := s.probe(h)
	s.em.Emit(verifEv{"e": "new", "i": i, "cap": h.replicas, "got": got})
	return i
}

func (s *ringSession) evOp(i int, op ringOp) {
	h := s.rings[i]
	s.apply(h, op)
	got, forms := s.probe(h)
	s.em.Emit(verifEv{"e": "op", "i": i, "n": op.N, "kind": op.Kind, "arg": op.Arg, "f": op.F,
		"got": got, "forms": forms})
}

func (s *ringSession) evProbe(i int) {
	got, forms := s.probe(s.rings[i])
	s.em.Emit(verifEv{"e": "probe", "i": i, "got": got, "forms": forms})
}

func (s *ringSession) evBuild(replicas int, ops []ringOp) int {
	i, h := s.newRing(replicas)
	for _, op := range ops {
		s.apply(h, op)
	}
	got, forms := s.probe(h)
	if ops == nil {
		ops = []ringOp{}
	}
	s.em.Emit(verifEv{"e": "build", "i": i, "cap": h.replicas, "ops": ops, "got": got, "forms": forms})
	return i
}

func (s *ringSession) evDrop(i int) {
	delete(s.rings, i)
	s.em.Emit(verifEv{"e": "drop", "i": i})
}

// rank-compress the 64-bit positions of all virtual nodes (up to maxCap per node) and of the
// probe keys: order and equality are all the placement model uses (TLC integers are 32-bit).
func (s *ringSession) ranks(maxCap int) ([][]int, []int) {
	var all []uint64
	vhs := make([][]uint64, len(s.fam.nodes))
	for n, nd := range s.fam.nodes {
		for i := 0; i < maxCap; i++ {
			h := ringApplyHash(s.fn, []byte(nd.repr+strconv.Itoa(i)))
			vhs[n] = append(vhs[n], h)
			all = append(all, h)
		}
	}
	khs := make([]uint64, len(s.keys))
	for k, key := range s.keys {
		khs[k] = ringApplyHash(s.fn, []byte(ringName(s.t, key)))
		all = append(all, khs[k])
	}
	sort.Slice(all, func(i, j int) bool { return all[i] < all[j] })
	rank := map[uint64]int{}
	for _, h := range all {
		if _, ok := rank[h]; !ok {
			rank[h] = len(rank)
		}
	}
	vr := make([][]int, len(vhs))
	for n := range vhs {
		for _, h := range vhs[n] {
			vr[n] = append(vr[n], rank[h])
		}
	}
	kr := make([]int, len(khs))
	for k, h := range khs {
		kr[k] = rank[h]
	}
	return vr, kr
}

func ringOpen(t *testing.T, em *verifEmitter, fam ringFamily, hf string, nk, maxCap int, place bool, rnd *rand.Rand) *ringSession {
	s := &ringSession{t: t, em: em, fam: fam, fn: ringHashFunc(hf), rings: map[int]*ConsistentHash{}}
	s.pickKeys(nk, maxCap, rnd)
	ev := verifEv{"e": "reset", "nn": len(fam.nodes), "nk": len(s.keys), "hash": hf, "family": fam.name,
		"vals": ringVals(t, fam)}
	if place {
		vr, kr := s.ranks(maxCap)
		ev["vh"], ev["kh"] = vr, kr
	}
	em.Emit(ev)
	return s
}

// ---------------------------------------------------------------- random histories

var ringCaps = []int{-1, -1, 0, 100, 130, 250}

func (s *ringSession) randomOp(rnd *rand.Rand, capHint int) ringOp {
	n := 1 + rnd.Intn(len(s.fam.nodes))
	f := s.fam.pickForm(rnd, n)
	op := ringOp{N: n, F: f}
	smallOrBig := func() int {
		switch rnd.Intn(8) {
		case 0:
			return 0
		case 1:
			return 1
		case 2:
			return 1 + rnd.Intn(12)
		case 3:
			return capHint
		case 4:
			return capHint + 1 + rnd.Intn(100)
		case 5:
			return -1 - rnd.Intn(3)
		default:
			return 1 + rnd.Intn(capHint)
		}
	}
	switch x := rnd.Intn(100); {
	case x < 30:
		op.Kind = "add"
	case x < 52:
		op.Kind, op.Arg = "rep", smallOrBig()
	case x < 74:
		op.Kind = "wt"
		switch rnd.Intn(6) {
		case 0:
			op.Arg = 1 + rnd.Intn(12)
		case 1:
			op.Arg = 100
		case 2:
			op.Arg = 101 + rnd.Intn(60)
		case 3:
			op.Arg = rnd.Intn(2) - 1
		default:
			op.Arg = 1 + rnd.Intn(100)
		}
	default:
		op.Kind = "remove"
	}
	return op
}

// ringCount is the driver's own idea of how many virtual nodes an operation asks for.  It is
// used ONLY to choose inputs (to rebuild "the same members" by other calls on another ring);
// the spec computes the count itself from the logged operation, so a wrong idea here merely
// makes the rebuild a different ring.
func ringCount(capv int, op ringOp) int {
	c := 0
	switch op.Kind {
	case "add":
		c = capv
	case "rep":
		c = op.Arg
	case "wt":
		c = capv * op.Arg / 100
	}
	if c > capv {
		c = capv
	}
	if c < 0 {
		c = 0
	}
	return c
}

// ringSameCount returns some other call that asks for c virtual nodes on a ring with cap capv
// (falls back to the given op when c cannot be expressed there).
func ringSameCount(rnd *rand.Rand, capv, c int, fallback ringOp) ringOp {
	var opts []ringOp
	if c <= capv {
		opts = append(opts, ringOp{Kind: "rep", Arg: c})
	}
	if c == capv {
		opts = append(opts, ringOp{Kind: "add"}, ringOp{Kind: "rep", Arg: capv + 1 + rnd.Intn(40)},
			ringOp{Kind: "wt", Arg: 100}, ringOp{Kind: "wt", Arg: 101 + rnd.Intn(40)})
	}
	if c == 0 {
		opts = append(opts, ringOp{Kind: "wt", Arg: 0}, ringOp{Kind: "rep", Arg: -1 - rnd.Intn(3)})
	}
	for w := 1; w <= 100; w++ {
		if capv*w/100 == c {
			opts = append(opts, ringOp{Kind: "wt", Arg: w})
		}
	}
	if len(opts) == 0 {
		return fallback
	}
	o := opts[rnd.Intn(len(opts))]
	o.N = fallback.N
	return o
}

func ringRandomSession(t *testing.T, em *verifEmitter, fam ringFamily, hf string, nk, length int, place bool, rnd *rand.Rand) {
	caps := ringCaps
	if hf != "murmur3" {
		caps = []int{0, 100, 130, 250}
	}
	maxCap := 250
	s := ringOpen(t, em, fam, hf, nk, maxCap, place, rnd)
	type inst struct {
		id   int
		cap  int
		last map[int]ringOp // node -> last add-type op
	}
	var live []*inst
	capOf := func(r int) int {
		if r < minReplicas {
			return minReplicas
		}
		return r
	}
	mk := func() *inst {
		r := caps[rnd.Intn(len(caps))]
		id := s.evNew(r)
		in := &inst{id: id, cap: capOf(r), last: map[int]ringOp{}}
		live = append(live, in)
		return in
	}
	mk()
	for step := 0; step < length; step++ {
		x := rnd.Intn(100)
		switch {
		case x < 6 && len(live) < 3:
			mk()
		case x < 9 && len(live) > 1:
			j := rnd.Intn(len(live))
			s.evDrop(live[j].id)
			live = append(live[:j], live[j+1:]...)
		case x < 14:
			s.evProbe(live[rnd.Intn(len(live))].id)
		case x < 30:
			// rebuild the members of a live instance on a fresh one: other order, other
			// constructor cap, other Go values, through detours
			src := live[rnd.Intn(len(live))]
			var nodes []int
			for n := range src.last {
				nodes = append(nodes, n)
			}
			sort.Ints(nodes)
			rnd.Shuffle(len(nodes), func(i, j int) { nodes[i], nodes[j] = nodes[j], nodes[i] })
			r := caps[rnd.Intn(len(caps))]
			var ops []ringOp
			for _, n := range nodes {
				if rnd.Intn(3) == 0 { // detour: first with another count
					ops = append(ops, s.randomOpOn(rnd, n, capOf(r)))
				}
				op := ringSameCount(rnd, capOf(r), ringCount(src.cap, src.last[n]), src.last[n])
				op.F = s.fam.pickForm(rnd, n)
				ops = append(ops, op)
				if rnd.Intn(4) == 0 { // detour: a visitor comes and goes
					v := 1 + rnd.Intn(len(s.fam.nodes))
					if _, member := src.last[v]; !member {
						o := s.randomOpOn(rnd, v, capOf(r))
						ops = append(ops, o, ringOp{N: v, Kind: "remove", F: o.F})
					}
				}
			}
			id := s.evBuild(r, ops)
			if len(live) < 3 {
				in := &inst{id: id, cap: capOf(r), last: map[int]ringOp{}}
				for _, op := range ops { // what the new ring was really told, in order
					if op.Kind == "remove" {
						delete(in.last, op.N)
					} else {
						in.last[op.N] = op
					}
				}
				live = append(live, in)
			} else {
				s.evDrop(id)
			}
		default:
			in := live[rnd.Intn(len(live))]
			op := s.randomOp(rnd, in.cap)
			s.evOp(in.id, op)
			if op.Kind == "remove" {
				delete(in.last, op.N)
			} else {
				in.last[op.N] = op
			}
		}
	}
}

func (s *ringSession) randomOpOn(rnd *rand.Rand, n, capHint int) ringOp {
	op := s.randomOp(rnd, capHint)
	for op.Kind == "remove" {
		op = s.randomOp(rnd, capHint)
	}
	op.N = n
	op.F = s.fam.pickForm(rnd, n)
	return op
}

// TestVerifRingRandom: default hash (murmur3), the verdict-bearing random histories.
func TestVerifRingRandom(t *testing.T) {
	em := verifOpen(t)
	defer em.Close()
	rnd := verifRand(15)
	sessions := verifEnvInt("VERIF_RING_SESSIONS", 12)
	length := verifEnvInt("VERIF_RING_LENGTH", 60)
	nk := verifEnvInt("VERIF_RING_KEYS", 96)
	for _, fam := range ringFamilies(rnd, sessions) {
		ringRandomSession(t, em, fam, "murmur3", nk, length, false, rnd)
	}
	// nodes that are numbers: boundary values of every integer type and their twins
	numeric := verifEnvInt("VERIF_RING_NUMERIC", 4)
	for j := 0; j < numeric; j++ {
		w := []int{64, 8, 32, 16}[j%4]
		if j >= 4 {
			w = 0
		}
		ringRandomSession(t, em, ringNumericFamily(rnd, w, 3+rnd.Intn(4)), "murmur3", nk, length, false, rnd)
	}
}

// TestVerifRingCustom: the same histories with custom (colliding, tiny-range, wrapping) hash
// functions given to NewCustomConsistentHash.  Reported separately by props/c15.py.
func TestVerifRingCustom(t *testing.T) {
	em := verifOpen(t)
	defer em.Close()
	rnd := verifRand(16)
	sessions := verifEnvInt("VERIF_RING_SESSIONS", 6)
	length := verifEnvInt("VERIF_RING_LENGTH", 40)
	nk := verifEnvInt("VERIF_RING_KEYS", 48)
	hfs := []string{"mod64", "mod7", "const", "top", "len"}
	for j, fam := range ringFamilies(rnd, sessions) {
		ringRandomSession(t, em, fam, hfs[j%len(hfs)], nk, length, false, rnd)
	}
}

// TestVerifRingPlace: short histories with few probe keys, with the ranks of all hash values
// logged, for the placement-model conformance check (RingPlaceTrace.cfg).
func TestVerifRingPlace(t *testing.T) {
	em := verifOpen(t)
	defer em.Close()
	rnd := verifRand(17)
	sessions := verifEnvInt("VERIF_RING_SESSIONS", 4)
	length := verifEnvInt("VERIF_RING_LENGTH", 30)
	nk := verifEnvInt("VERIF_RING_KEYS", 16)
	for j, fam := range ringFamilies(rnd, sessions) {
		if len(fam.nodes) > 4 {
			fam.nodes = fam.nodes[:4]
		}
		hf := "murmur3"
		if j%4 == 3 {
			hf = "mod64"
		}
		ringRandomSession(t, em, fam, hf, nk, length, true, rnd)
	}
	ringRandomSession(t, em, ringNumericFamily(rnd, 0, 4), "murmur3", nk, length, true, rnd)
}

// ---------------------------------------------------------------- replay of TLC-generated histories

type ringAbsOp struct {
	Op  string `json:"op"`
	N   int    `json:"n"`
	Arg int    `json:"arg"`
}

// TestVerifRingReplay: every behaviour TLC printed (one shortest history per distinct
// reachable state of RingImplGen: member map x bucket insertion orders, 3 nodes whose virtual
// nodes chain-collide, replica classes none/few/all/over) is performed on its own fresh ring;
// all rings of a family share one trace, so every pair of histories that ends in the same
// member map is compared by the spec.  Replica classes: 0 -> 0 or negative, 1 -> "few" (below
// the first ambiguous replica index), 2 -> the ring's cap, 3 -> above the cap.
func TestVerifRingReplay(t *testing.T) {
	em := verifOpen(t)
	defer em.Close()
	rnd := verifRand(18)
	var hists [][]ringAbsOp
	for _, raw := range verifInput(t) {
		var ops []ringAbsOp
		if err := json.Unmarshal(raw, &ops); err != nil {
			t.Fatal(err)
		}
		hists = append(hists, ops)
	}
	if len(hists) == 0 {
		t.Fatal("no generated histories")
	}
	nk := verifEnvInt("VERIF_RING_KEYS", 64)
	fams := verifEnvInt("VERIF_RING_FAMILIES", 2)
	numFams := verifEnvInt("VERIF_RING_NUMFAMS", 1)
	numKeys := verifEnvInt("VERIF_RING_NUMKEYS", 32)
	numMaxLen := verifEnvInt("VERIF_RING_NUMMAXLEN", 0) // numeric families: only histories up to this length (0 = all)
	for fi := 0; fi < fams+numFams; fi++ {
		kind := (fi + int(verifSeed())) % 4
		var fam ringFamily
		if fi < fams {
			fam = ringChainFamily(kind, rnd)
		} else {
			// abstract nodes 1,2,3 = three numbers: an anchor in the top half of an unsigned range,
			// its two's-complement twin and one more (64-bit first, then the narrower types)
			fam = ringNumericFamily(rnd, []int{64, 8, 32, 16}[(fi-fams)%4], 3)
			nk = numKeys
		}
		replicas := []int{-1, 250, 130, 0}[fi%4]
		capv := replicas
		if capv < minReplicas {
			capv = minReplicas
		}
		s := ringOpen(t, em, fam, "murmur3", nk, capv, false, rnd)
		few := 1 + rnd.Intn(9) // "n1"+itoa(0..9) are the replica names shared with "n"+itoa(10..19)
		for _, hist := range hists {
			if fi >= fams && numMaxLen > 0 && len(hist) > numMaxLen {
				continue
			}
			id := s.evNew(replicas)
			for _, a := range hist {
				op := ringOp{N: a.N, F: fam.pickForm(rnd, a.N)}
				class := -1
				switch a.Op {
				case "add":
					op.Kind = "add"
				case "remove":
					op.Kind = "remove"
				case "rep":
					class = a.Arg
				case "wt": // RingImplGen: Cap = 2, weights 50 / 100
					class = 2 * a.Arg / 100
				default:
					t.Fatalf("unknown abstract op %q", a.Op)
				}
				if class >= 0 {
					useWeight := a.Op == "wt" || rnd.Intn(3) == 0
					switch class {
					case 0:
						op.Kind, op.Arg = "rep", -rnd.Intn(2)
						if useWeight {
							op.Kind, op.Arg = "wt", 0
						}
					case 1:
						op.Kind, op.Arg = "rep", few
						if useWeight { // weight w gives cap*w/100 replicas
							op.Kind, op.Arg = "wt", (few*100+capv-1)/capv
						}
					case 2:
						op.Kind, op.Arg = "rep", capv
						if useWeight {
							op.Kind, op.Arg = "wt", 100
						}
					default:
						op.Kind, op.Arg = "rep", capv+1+rnd.Intn(50)
						if useWeight {
							op.Kind, op.Arg = "wt", 101+rnd.Intn(50)
						}
					}
				}
				s.evOp(id, op)
			}
			s.evDrop(id)
		}
	}
}
