//go:build verif

package errorx

// Extension fxretry (advisory, host C04) -- driver for BatchError. Drives and records only;
// the verdict comes from TLC (specs/retry/BatchErrTrace.tla).

import (
	"encoding/json"
	"errors"
	"fmt"
	"runtime"
	"strings"
	"sync"
	"testing"
)

var verifExtfxretryUniverse = func() map[string]error {
	m := map[string]error{}
	for i := 1; i <= 8; i++ {
		n := fmt.Sprintf("e%d", i)
		m[n] = errors.New(n)
	}
	return m
}()

func verifExtfxretryList(names []string) []error {
	out := make([]error, 0, len(names))
	for _, n := range names {
		if n == "" {
			out = append(out, nil)
		} else {
			out = append(out, verifExtfxretryUniverse[n])
		}
	}
	return out
}

// verifExtfxretryDescribe: what a caller can see of an error value
func verifExtfxretryDescribe(err error) (parts, lines, is []string) {
	parts, lines, is = []string{}, []string{}, []string{}
	if err == nil {
		return
	}
	if u, ok := err.(interface{ Unwrap() []error }); ok {
		for _, e := range u.Unwrap() {
			parts = append(parts, e.Error())
		}
	} else {
		parts = append(parts, err.Error())
	}
	lines = strings.Split(err.Error(), "\n")
	for i := 1; i <= 8; i++ {
		n := fmt.Sprintf("e%d", i)
		if errors.Is(err, verifExtfxretryUniverse[n]) {
			is = append(is, n)
		}
	}
	return
}

type verifExtfxretryBatch struct {
	em    *verifEmitter
	be    *BatchError
	kept  map[int]error
	order []int
	nexth int
}

func verifExtfxretryNewBatch(em *verifEmitter) *verifExtfxretryBatch {
	em.Emit(verifEv{"e": "reset"})
	return &verifExtfxretryBatch{em: em, be: new(BatchError), kept: map[int]error{}}
}

func (b *verifExtfxretryBatch) add(names []string) {
	b.be.Add(verifExtfxretryList(names)...)
	if names == nil {
		names = []string{}
	}
	b.em.Emit(verifEv{"e": "add", "errs": names})
}

func (b *verifExtfxretryBatch) err() {
	b.nexth++
	h := b.nexth
	e := b.be.Err()
	parts, lines, is := verifExtfxretryDescribe(e)
	b.em.Emit(verifEv{"e": "err", "h": h, "isnil": e == nil, "parts": parts, "lines": lines, "is": is})
	b.kept[h] = e
	b.order = append(b.order, h)
}

func (b *verifExtfxretryBatch) notnil() {
	b.em.Emit(verifEv{"e": "notnil", "v": b.be.NotNil()})
}

func (b *verifExtfxretryBatch) reread(h int) {
	parts, lines, _ := verifExtfxretryDescribe(b.kept[h])
	b.em.Emit(verifEv{"e": "reread", "h": h, "parts": parts, "lines": lines})
}

// spec -> code: every operation sequence TLC enumerated (BatchErrGen.tla)
func TestVerifExtfxretryBatchReplay(t *testing.T) {
	em := verifOpen(t)
	defer em.Close()
	type op struct {
		Op   string   `json:"op"`
		Errs []string `json:"errs"`
	}
	for _, raw := range verifInput(t) {
		var ops []op
		if err := json.Unmarshal(raw, &ops); err != nil {
			t.Fatal(err)
		}
		b := verifExtfxretryNewBatch(em)
		for _, o := range ops {
			switch o.Op {
			case "add":
				b.add(o.Errs)
			case "err":
				b.err()
			case "notnil":
				b.notnil()
			}
		}
		for _, h := range b.order {
			b.reread(h)
		}
	}
}

func verifExtfxretryRandList(pick func(int) int) []string {
	n := pick(4)
	l := []string{}
	for i := 0; i < n; i++ {
		if pick(4) == 0 {
			l = append(l, "")
		} else {
			l = append(l, fmt.Sprintf("e%d", 1+pick(8)))
		}
	}
	return l
}

// code -> spec: long seeded sequential histories
func TestVerifExtfxretryBatchRandom(t *testing.T) {
	em := verifOpen(t)
	defer em.Close()
	rnd := verifRand(515)
	for tr := 0; tr < verifEnvInt("VERIF_EXT_TRACES", 150); tr++ {
		b := verifExtfxretryNewBatch(em)
		steps := 5 + rnd.Intn(40)
		for s := 0; s < steps; s++ {
			switch r := rnd.Intn(10); {
			case r < 4:
				b.add(verifExtfxretryRandList(rnd.Intn))
			case r < 7:
				b.err()
			case r < 8:
				b.notnil()
			default:
				if len(b.order) > 0 {
					b.reread(b.order[rnd.Intn(len(b.order))])
				}
			}
		}
		for _, h := range b.order {
			b.reread(h)
		}
	}
}

// code -> spec: goroutines use one BatchError at the same time (rounds of a few overlapping
// calls; after each round the order is read back)
func TestVerifExtfxretryBatchConcurrent(t *testing.T) {
	em := verifOpen(t)
	defer em.Close()
	rnd := verifRand(616)
	id := 0
	for tr := 0; tr < verifEnvInt("VERIF_EXT_TRACES", 120); tr++ {
		b := verifExtfxretryNewBatch(em)
		rounds := 2 + rnd.Intn(5)
		for r := 0; r < rounds; r++ {
			g := 2 + rnd.Intn(3)
			type job struct {
				id    int
				op    string
				names []string
				spin  int
			}
			jobs := make([]job, g)
			for i := range jobs {
				id++
				jobs[i] = job{id: id, op: "add", names: verifExtfxretryRandList(rnd.Intn), spin: rnd.Intn(3)}
				switch rnd.Intn(6) {
				case 0:
					jobs[i].op, jobs[i].names = "err", []string{}
				case 1:
					jobs[i].op, jobs[i].names = "notnil", []string{}
				}
			}
			var wg sync.WaitGroup
			gate := make(chan struct{})
			for _, j := range jobs {
				wg.Add(1)
				go func(j job) {
					defer wg.Done()
					<-gate
					for k := 0; k < j.spin; k++ {
						runtime.Gosched()
					}
					em.Emit(verifEv{"e": "cstart", "id": j.id, "op": j.op, "errs": j.names})
					ev := verifEv{"e": "cend", "id": j.id, "op": j.op, "isnil": false, "parts": []string{},
						"lines": []string{}, "is": []string{}, "v": false}
					switch j.op {
					case "add":
						b.be.Add(verifExtfxretryList(j.names)...)
					case "err":
						e := b.be.Err()
						ev["parts"], ev["lines"], ev["is"] = verifExtfxretryDescribe(e)
						ev["isnil"] = e == nil
					case "notnil":
						ev["v"] = b.be.NotNil()
					}
					em.Emit(ev)
				}(j)
			}
			close(gate)
			wg.Wait()
			b.err()
			if rnd.Intn(3) == 0 {
				b.notnil()
			}
		}
		for _, h := range b.order {
			b.reread(h)
		}
	}
}
