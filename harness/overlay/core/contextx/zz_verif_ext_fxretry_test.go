//go:build verif

package contextx

// Extension fxretry (advisory, host C04) -- driver for ValueOnlyFrom: builds trees of real
// contexts (context.WithCancel / WithDeadline / WithValue and contextx.ValueOnlyFrom under any
// earlier node), calls cancel functions, and after every step reads every node (Err, Deadline,
// Done, Value). Deadlines are either passed already or 1000 h away. Drives and records only; the
// verdict comes from TLC (specs/retry/ValueCtxTrace.tla).

import (
	"context"
	"encoding/json"
	"testing"
	"time"
)

type verifExtfxretryKey int

type verifExtfxretryTree struct {
	em      *verifEmitter
	base    time.Time
	ctxs    []context.Context // ctxs[0] = Background
	cancels []context.CancelFunc
	keys    int
}

func verifExtfxretryNewTree(em *verifEmitter, keys int) *verifExtfxretryTree {
	em.Emit(verifEv{"e": "reset"})
	return &verifExtfxretryTree{em: em, base: time.Now(), ctxs: []context.Context{context.Background()},
		cancels: []context.CancelFunc{nil}, keys: keys}
}

func (tr *verifExtfxretryTree) rankTime(r int) time.Time {
	if r == 0 {
		return tr.base.Add(-time.Hour)
	}
	return tr.base.Add(time.Duration(r) * 1000 * time.Hour)
}

func (tr *verifExtfxretryTree) rankOf(d time.Time) int {
	for r := 0; r <= 8; r++ {
		if tr.rankTime(r).Equal(d) {
			return r
		}
	}
	return -2
}

func (tr *verifExtfxretryTree) mk(kind string, par, key, val, dl int) {
	p := tr.ctxs[par]
	var c context.Context
	var cancel context.CancelFunc
	switch kind {
	case "cancel":
		c, cancel = context.WithCancel(p)
	case "deadline":
		c, cancel = context.WithDeadline(p, tr.rankTime(dl))
	case "value":
		c = context.WithValue(p, verifExtfxretryKey(key), val)
	case "vonly":
		c = ValueOnlyFrom(p)
	}
	tr.ctxs = append(tr.ctxs, c)
	tr.cancels = append(tr.cancels, cancel)
	tr.em.Emit(verifEv{"e": "mk", "kind": kind, "par": par, "key": key, "val": val, "dl": dl})
	tr.obs()
}

func (tr *verifExtfxretryTree) cancel(n int) {
	tr.cancels[n]()
	tr.em.Emit(verifEv{"e": "cancel", "n": n})
	tr.obs()
}

func verifExtfxretryErrName(err error) string {
	switch err {
	case nil:
		return "none"
	case context.Canceled:
		return "canceled"
	case context.DeadlineExceeded:
		return "deadline"
	}
	return "other:" + err.Error()
}

func (tr *verifExtfxretryTree) obs() {
	n := len(tr.ctxs) - 1
	errs, dls, donenil, closed, vals := make([]string, n), make([]int, n), make([]bool, n), make([]bool, n), make([][]int, n)
	for i := 1; i <= n; i++ {
		c := tr.ctxs[i]
		errs[i-1] = verifExtfxretryErrName(c.Err())
		dls[i-1] = -1
		if d, ok := c.Deadline(); ok {
			dls[i-1] = tr.rankOf(d)
		}
		done := c.Done()
		donenil[i-1] = done == nil
		if done != nil {
			select {
			case <-done:
				closed[i-1] = true
			default:
			}
		}
		vs := make([]int, tr.keys)
		for k := 1; k <= tr.keys; k++ {
			if v, ok := c.Value(verifExtfxretryKey(k)).(int); ok {
				vs[k-1] = v
			}
		}
		vals[i-1] = vs
	}
	tr.em.Emit(verifEv{"e": "obs", "errs": errs, "dls": dls, "donenil": donenil, "closed": closed, "vals": vals})
}

func (tr *verifExtfxretryTree) causes() {
	for i := 1; i < len(tr.ctxs); i++ {
		tr.em.Emit(verifEv{"e": "cause", "n": i, "c": verifExtfxretryErrName(context.Cause(tr.ctxs[i]))})
	}
}

func (tr *verifExtfxretryTree) close() {
	for _, c := range tr.cancels {
		if c != nil {
			c()
		}
	}
}

type verifExtfxretryOp struct {
	Op   string `json:"op"`
	Kind string `json:"kind"`
	Par  int    `json:"par"`
	Key  int    `json:"key"`
	Val  int    `json:"val"`
	Dl   int    `json:"dl"`
	N    int    `json:"n"`
}

// spec -> code: every tree/cancellation history TLC enumerated (ValueCtxGen.tla)
func TestVerifExtfxretryCtxReplay(t *testing.T) {
	em := verifOpen(t)
	defer em.Close()
	for _, raw := range verifInput(t) {
		var ops []verifExtfxretryOp
		if err := json.Unmarshal(raw, &ops); err != nil {
			t.Fatal(err)
		}
		tr := verifExtfxretryNewTree(em, 2)
		for _, o := range ops {
			if o.Op == "mk" {
				tr.mk(o.Kind, o.Par, o.Key, o.Val, o.Dl)
			} else {
				tr.cancel(o.N)
			}
		}
		tr.close()
	}
}

func verifExtfxretryRandomTree(tr *verifExtfxretryTree, pick func(int) int, steps int, eachStep func()) {
	kinds := []string{"cancel", "cancel", "deadline", "value", "value", "vonly", "vonly"}
	for s := 0; s < steps; s++ {
		n := len(tr.ctxs) - 1
		var cancellable []int
		for i := 1; i <= n; i++ {
			if tr.cancels[i] != nil {
				cancellable = append(cancellable, i)
			}
		}
		if len(cancellable) > 0 && pick(4) == 0 {
			tr.cancel(cancellable[pick(len(cancellable))])
		} else {
			par := pick(n + 1)
			if n > 0 && pick(2) == 0 {
				par = n - pick(min(n, 3)) // deeper chains
			}
			tr.mk(kinds[pick(len(kinds))], par, 1+pick(tr.keys), 1+pick(5), pick(5))
		}
		if eachStep != nil {
			eachStep()
		}
	}
}

// code -> spec: seeded random trees (up to ~14 nodes, three keys, repeated cancels)
func TestVerifExtfxretryCtxRandom(t *testing.T) {
	em := verifOpen(t)
	defer em.Close()
	rnd := verifRand(717)
	for i := 0; i < verifEnvInt("VERIF_EXT_TRACES", 300); i++ {
		tr := verifExtfxretryNewTree(em, 3)
		verifExtfxretryRandomTree(tr, rnd.Intn, 4+rnd.Intn(14), nil)
		tr.close()
	}
}

// context.Cause of every node after every step, on a few random trees (separate so that the
// known finding about Cause does not hide the rest)
func TestVerifExtfxretryCtxCause(t *testing.T) {
	em := verifOpen(t)
	defer em.Close()
	rnd := verifRand(818)
	for i := 0; i < verifEnvInt("VERIF_EXT_TRACES", 3); i++ {
		tr := verifExtfxretryNewTree(em, 2)
		verifExtfxretryRandomTree(tr, rnd.Intn, 10+rnd.Intn(8), tr.causes)
		tr.close()
	}
}
