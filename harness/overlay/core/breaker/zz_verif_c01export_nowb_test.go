//go:build verif && verifnowb

package breaker

// Black-box stand-in for zz_verif_c01export_test.go, overlaid together with it as a non-test
// file of core/breaker for the wrapper drivers: used when the white-box accessors no longer
// compile against the tree (tag verifnowb, see lib/vlib.py go_driver).

import (
	"errors"
	"math/rand"
)

var errVerifC01NoWB = errors.New("c01: white-box accessors unavailable on this tree")

func VerifC01Sums(b Breaker) ([]int64, error)        { return nil, errVerifC01NoWB }
func VerifC01Steer(b Breaker, src rand.Source) error { return errVerifC01NoWB }
