//go:build verif

package breaker

// C01, by-name entry points (breakers.go): rounds of truly parallel calls through
// Do*(name, ...) / GetBreaker(name).Allow on names nobody has used before, so that the very
// first uses of every name race with each other inside the registry. No expectations here:
// the recorded events are validated by TLC against specs/breaker/BreakerNamesTrace.tla
// (registry law of BreakerNames.tla + one Breaker.tla history per name).
//
// Additional events: get{n,i} (GetBreaker(n) returned the breaker with identity i; identities
// are numbered in order of first appearance in the log), obs{n,w}, and "n" on every event of
// a by-name call. One trace per (round, name of the round): reset{...,focus}.

import (
	"fmt"
	"os"
	"runtime"
	"sort"
	"sync"
	"sync/atomic"
	"testing"
)

type c01Stamped struct {
	n   int64
	ev  verifEv
	brk Breaker // get events: the breaker returned (turned into an identity number when merging)
}

// c01Burst runs the prepared calls, work[g] on goroutine g, all goroutines leaving a spin
// barrier together; afterwards every goroutine asks the registry for the breakers of the names
// it used. Returns the events in the order of one atomic sequence.
func c01Burst(h *c01H, work [][]*c01Call) []c01Stamped {
	G := len(work)
	var seq atomic.Int64
	bufs := make([][]c01Stamped, G)
	var arrived atomic.Int32
	var done sync.WaitGroup
	for g := 0; g < G; g++ {
		g := g
		emit := func(ev verifEv) { bufs[g] = append(bufs[g], c01Stamped{n: seq.Add(1), ev: ev}) }
		for _, c := range work[g] {
			c.emit = emit
		}
		done.Add(1)
		go func(cs []*c01Call) {
			defer done.Done()
			arrived.Add(1)
			for arrived.Load() < int32(G) { // leave together: the first calls must overlap
				runtime.Gosched()
			}
			var used []string
			for _, c := range cs {
				h.run(c, false)
				if c.op.Api == "allow" {
					h.resolve(c, false)
				}
				seen := false
				for _, u := range used {
					seen = seen || u == c.name
				}
				if !seen {
					used = append(used, c.name)
				}
			}
			for _, name := range used {
				b := GetBreaker(name)
				bufs[g] = append(bufs[g], c01Stamped{n: seq.Add(1), ev: verifEv{"e": "get", "n": name}, brk: b})
			}
		}(work[g])
	}
	done.Wait()
	var all []c01Stamped
	for _, b := range bufs {
		all = append(all, b...)
	}
	sort.Slice(all, func(i, j int) bool { return all[i].n < all[j].n })
	return all
}

// c01BurstOp: a call that certainly succeeds (good) or certainly fails, as in TestVerifC01Stress.
func c01BurstOp(rnd interface{ Intn(int) int }, good bool) c01Op {
	op := c01Op{Op: "call", Api: c01Apis[rnd.Intn(len(c01Apis))], Ctx: c01BurstCtxs[rnd.Intn(len(c01BurstCtxs))]}
	if good {
		op.Out, op.How = "ok", "accept"
		if (op.Api == "doAcc" || op.Api == "doFbAcc") && rnd.Intn(2) == 0 {
			op.Out = "accErr"
		}
		op.Acc = []string{"ok", "accErr"}
	} else {
		op.Out, op.How = c01BurstFails[rnd.Intn(len(c01BurstFails))], "reject"
		op.Acc = []string{"ok"}
	}
	if op.Api == "do" || op.Api == "doFb" || op.Api == "allow" {
		op.Acc = nil
		if op.Out == "accErr" {
			op.Out = "err"
		}
	}
	if op.Api == "allow" {
		op.Out = ""
	}
	return op
}

// TestVerifC01Names: per round 1..3 fresh names and G goroutines; the first call of goroutine
// g goes to name g mod K (so several goroutines race for the first use of every name), later
// calls to any name of the round; all calls of a round succeed or all fail (the eager
// placement of BreakerTrace.tla is sound for exactly that, at a fixed clock).
func TestVerifC01Names(t *testing.T) {
	em := verifOpen(t)
	defer em.Close()
	defer c01InstallClock()()
	if runtime.GOMAXPROCS(0) < 4 { // the goroutines of a round must be able to run at the same time
		defer runtime.GOMAXPROCS(runtime.GOMAXPROCS(4))
	}
	rnd := verifRand(53)
	rounds := verifEnvInt("VERIF_C01_NROUNDS", 200)
	maxG := verifEnvInt("VERIF_C01_NG", 8)
	for r := 0; r < rounds; r++ {
		good := rnd.Intn(2) == 0
		K := []int{1, 1, 2, 2, 3}[rnd.Intn(5)]
		G := 2*K + rnd.Intn(maxG-2*K+1)
		names := make([]string, K)
		for k := range names {
			names[k] = fmt.Sprintf("c01.names/%d/%d/%d/%d", verifSeed(), os.Getpid(), r, k)
		}
		t0 := 3600000 + int64(rnd.Intn(100000))
		c01Clock.Store(t0 * c01Ms)
		h := &c01H{t: t, em: em, sig: make(chan c01Sig, 16), open: map[int]*c01Call{}, t0: t0}
		work := make([][]*c01Call, G)
		for g := 0; g < G; g++ {
			per := 1 + rnd.Intn(2)
			for k := 0; k < per; k++ {
				c := h.newCall(c01BurstOp(rnd, good))
				c.name = names[g%K]
				if k > 0 {
					c.name = names[rnd.Intn(K)]
				}
				work[g] = append(work[g], c)
			}
		}
		all := c01Burst(h, work)
		// afterwards: what the registry holds for every name, and that breaker's window
		ident := map[Breaker]int{}
		id := func(b Breaker) int {
			if _, ok := ident[b]; !ok {
				ident[b] = len(ident) + 1
			}
			return ident[b]
		}
		evs := make([]verifEv, 0, len(all)+2*K)
		for _, x := range all {
			if x.brk != nil {
				x.ev["i"] = id(x.brk)
			}
			evs = append(evs, x.ev)
		}
		for _, name := range names {
			b := GetBreaker(name)
			evs = append(evs, verifEv{"e": "get", "n": name, "i": id(b)})
			if w, ok := c01Open(b).sums(); ok {
				evs = append(evs, verifEv{"e": "obs", "n": name, "w": w})
			}
		}
		for _, name := range names {
			em.Emit(verifEv{"e": "reset", "t": t0, "fair": false, "eager": true, "focus": name})
			for _, ev := range evs {
				em.Emit(ev)
			}
		}
	}
}
