//go:build verif

package breaker

// C01 drivers: perform call histories on the real breaker under the virtual clock
// (hook H1) and record what happened. No expectations here: the verdict comes from TLC
// validating the recorded trace against specs/breaker/Breaker.tla.
//
// Events: reset{t,fair,eager} adv{d} callStart{c,api,ctx,acc} reqStart{c} reqEnd{c,out} fbRun{c,arg}
// callEnd{c,ret,pan} pStart{c,how} pEnd{c} obs{w:[succ,fail,drop]}   (times in ms)
// out: what the request does -- ok | err | accErr | panic, and the look-alikes of the breaker's own
// results: unavail (returns breaker.ErrServiceUnavailable itself), wrapUnavail (returns an error
// wrapping it, as a request that went through a second, open breaker would), ctxErr (returns
// context.Canceled / DeadlineExceeded although the call's own context is live), panicUnavail
// (panics with ErrServiceUnavailable).  ret "same" / pan "same": what came out of the breaker is
// identical (==) to what the request of THIS call returned / panicked with.
// Events of calls made through the by-name entry points (breakers.go) also carry n = the name;
// see zz_verif_c01_names_test.go for the registry rounds.

import (
	"context"
	"encoding/json"
	"fmt"
	"math/rand"
	"sort"
	"sync"
	"sync/atomic"
	"testing"
	"time"

	"github.com/zeromicro/go-zero/core/timex"
)

// ---------------------------------------------------------------- clock (H1)

var c01Clock atomic.Int64 // virtual now, ns

func c01InstallClock() func() {
	timex.VerifNow = func() time.Duration { return time.Duration(c01Clock.Load()) }
	return func() { timex.VerifNow = nil }
}

// ---------------------------------------------------------------- steering of the random drop
// The breaker drops with a probability; which way the coin falls is not the property's
// business, so the driver may load the coin: mode 0 = drop whenever the breaker could drop,
// 1 = never drop, 2 = fair (seeded). Installed into mathx.Proba's private *rand.Rand.

type c01Src struct {
	mode atomic.Int32
	mu   sync.Mutex
	rnd  *rand.Rand
}

func (s *c01Src) Seed(int64) {}
func (s *c01Src) Int63() int64 {
	switch s.mode.Load() {
	case 0:
		return 0
	case 1:
		return (1<<63 - 1) &^ (1<<10 - 1) // Float64() = 1 - 2^-53
	}
	s.mu.Lock()
	v := s.rnd.Int63()
	s.mu.Unlock()
	return v
}

// c01Steer / c01Open / sums: see zz_verif_c01_wb_test.go (white-box, tag !verifnowb) and
// zz_verif_c01_nowb_test.go (black-box stand-ins used when the white-box file no longer compiles).

// ---------------------------------------------------------------- harness

type c01Err struct{ id int }

func (e *c01Err) Error() string { return fmt.Sprintf("c01 error %d", e.id) }

type c01Pan struct{ id int }

type c01Op struct {
	Op    string   `json:"op"` // adv | call | start | release | batch
	D     int      `json:"d"`
	C     int      `json:"c"`
	Api   string   `json:"api"`
	Ctx   string   `json:"ctx"`
	Out   string   `json:"out"`
	Acc   []string `json:"acc"`
	Pref  int      `json:"pref"` // steering for this call
	How   string   `json:"how"`  // allow: accept | reject | none
	Start []c01Op  `json:"start"`
	Rel   []int    `json:"rel"`
}

type c01Call struct {
	op       c01Op
	id       int
	errv     *c01Err
	fbErr    *c01Err
	panv     *c01Pan
	wrapv    error // wraps ErrServiceUnavailable (out = wrapUnavail)
	gate     chan struct{}
	runs     atomic.Int32
	ran      bool  // the request returned (returned = its result) or panicked (panicked = the value)
	ret      error // what the request returned
	panicked any
	promise  Promise
	emit     func(verifEv) // nil: the shared emitter
	name     string        // non-empty: the call goes through the by-name entry points (breakers.go)
}

type c01Sig struct {
	id   int
	kind string // parked | ended
}

type c01H struct {
	t      *testing.T
	em     *verifEmitter
	b      Breaker
	wb     c01WB
	src    *c01Src
	sig    chan c01Sig
	open   map[int]*c01Call // parked calls / unresolved promises
	nextID int
	t0     int64
	name   string // non-empty: every call of this history is made by name (Do*(name, ...), GetBreaker(name))
}

const c01Ms = int64(time.Millisecond)

func c01New(t *testing.T, em *verifEmitter, startMs int64, steer bool) *c01H {
	return c01NewMode(t, em, startMs, steer, false)
}

func c01NewMode(t *testing.T, em *verifEmitter, startMs int64, steer, eager bool) *c01H {
	return c01NewNamed(t, em, startMs, steer, eager, "")
}

// c01NewNamed: with a name, the breaker is the one the registry hands out for it and every
// call of the history goes through the package-level by-name functions.
func c01NewNamed(t *testing.T, em *verifEmitter, startMs int64, steer, eager bool, name string) *c01H {
	c01Clock.Store(startMs * c01Ms)
	h := &c01H{t: t, em: em, sig: make(chan c01Sig, 4096), open: map[int]*c01Call{}, t0: startMs, name: name}
	if name != "" {
		h.b = GetBreaker(name)
	} else {
		h.b = NewBreaker()
	}
	h.wb = c01Open(h.b)
	if steer {
		h.src = &c01Src{rnd: verifRand(startMs)}
		h.src.mode.Store(2)
		if !h.wb.steer(h.src) {
			// the coin cannot be loaded on this tree: the breaker's own random source decides
			h.src, steer = nil, false
		}
	}
	// fair: the breaker's own random source is untouched (the spec's counting clause applies)
	em.Emit(verifEv{"e": "reset", "t": startMs, "fair": !steer && !eager, "eager": eager})
	return h
}

func (h *c01H) nowMs() int64 { return c01Clock.Load() / c01Ms }

func (h *c01H) adv(d int) {
	if d <= 0 {
		return
	}
	c01Clock.Add(int64(d) * c01Ms)
	h.em.Emit(verifEv{"e": "adv", "d": d})
}

func (h *c01H) obs() {
	if w, ok := h.wb.sums(); ok {
		h.em.Emit(verifEv{"e": "obs", "w": w})
	}
}

func (h *c01H) newCall(op c01Op) *c01Call {
	h.nextID++
	id := h.nextID
	if op.Acc == nil {
		op.Acc = []string{}
	}
	return &c01Call{op: op, id: id, errv: &c01Err{id}, fbErr: &c01Err{-id}, panv: &c01Pan{id}, name: h.name,
		wrapv: fmt.Errorf("c01 downstream call %d: %w", id, ErrServiceUnavailable)}
}

// emitter: where the events of this call go; events of by-name calls carry the name.
func (h *c01H) emitter(c *c01Call) func(verifEv) {
	emit := h.em.Emit
	if c.emit != nil {
		emit = c.emit
	}
	if c.name == "" {
		return emit
	}
	return func(ev verifEv) {
		ev["n"] = c.name
		emit(ev)
	}
}

// success: would the result of this call be recorded as a success?
func (c *c01Call) success() bool {
	switch c.op.Api {
	case "allow":
		return c.op.How == "accept"
	case "doAcc", "doFbAcc":
		return c.accepts(c.op.Out)
	}
	return c.op.Out == "ok"
}

func (c *c01Call) accepts(out string) bool {
	for _, a := range c.op.Acc {
		if a == out {
			return true
		}
	}
	return false
}

// run performs one call on the real breaker in the calling goroutine.
func (h *c01H) run(c *c01Call, async bool) {
	emit := h.emitter(c)
	op := c.op
	emit(verifEv{"e": "callStart", "c": c.id, "api": op.Api, "ctx": op.Ctx, "acc": op.Acc})
	var ctx context.Context
	switch op.Ctx {
	case "live":
		ctx = context.Background()
	case "done":
		cc, cancel := context.WithCancel(context.Background())
		cancel()
		ctx = cc
	}
	req := func() error {
		n := c.runs.Add(1)
		emit(verifEv{"e": "reqStart", "c": c.id})
		if c.gate != nil && n == 1 {
			h.sig <- c01Sig{c.id, "parked"}
			<-c.gate
		}
		emit(verifEv{"e": "reqEnd", "c": c.id, "out": op.Out})
		c.ran = true
		switch op.Out {
		case "ok":
			c.ret = nil
		case "panic":
			c.panicked = c.panv
			panic(c.panv)
		case "panicUnavail":
			c.panicked = ErrServiceUnavailable
			panic(ErrServiceUnavailable)
		case "unavail":
			c.ret = ErrServiceUnavailable
		case "wrapUnavail":
			c.ret = c.wrapv
		case "ctxErr":
			c.ret = []error{context.Canceled, context.DeadlineExceeded}[c.id%2]
		default:
			c.ret = c.errv
		}
		return c.ret
	}
	fallback := func(err error) error {
		arg := "other"
		if err == ErrServiceUnavailable {
			arg = "unavail"
		}
		emit(verifEv{"e": "fbRun", "c": c.id, "arg": arg})
		return c.fbErr
	}
	acceptable := func(err error) bool {
		if err == nil {
			return c.accepts("ok")
		}
		if c.ran && c.ret != nil && err == c.ret {
			return c.accepts(op.Out)
		}
		return false
	}
	classify := func(err error) string {
		switch {
		case err == nil:
			return "nil"
		case c.ran && c.ret != nil && err == c.ret:
			return "same"
		case err == ErrServiceUnavailable:
			return "unavail"
		case ctx != nil && err == ctx.Err():
			return "ctx"
		case err == error(c.fbErr):
			return "fb"
		}
		return "other"
	}
	if op.Api == "allow" {
		var p Promise
		var err error
		brk := h.b
		if c.name != "" {
			brk = GetBreaker(c.name)
		}
		if ctx != nil {
			p, err = brk.AllowCtx(ctx)
		} else {
			p, err = brk.Allow()
		}
		ret := classify(err)
		if err == nil {
			ret = "promise"
			c.promise = p
		}
		emit(verifEv{"e": "callEnd", "c": c.id, "ret": ret, "pan": "no"})
		if async {
			if err == nil {
				h.sig <- c01Sig{c.id, "parked"}
			} else {
				h.sig <- c01Sig{c.id, "ended"}
			}
		}
		return
	}
	pan := "no"
	var err error
	func() {
		defer func() {
			if r := recover(); r != nil {
				if c.ran && c.panicked != nil && r == c.panicked {
					pan = "same"
				} else {
					pan = "other"
				}
			}
		}()
		switch n := c.name; {
		case n != "" && op.Api == "do" && ctx == nil:
			err = Do(n, req)
		case n != "" && op.Api == "do":
			err = DoCtx(ctx, n, req)
		case n != "" && op.Api == "doAcc" && ctx == nil:
			err = DoWithAcceptable(n, req, acceptable)
		case n != "" && op.Api == "doAcc":
			err = DoWithAcceptableCtx(ctx, n, req, acceptable)
		case n != "" && op.Api == "doFb" && ctx == nil:
			err = DoWithFallback(n, req, fallback)
		case n != "" && op.Api == "doFb":
			err = DoWithFallbackCtx(ctx, n, req, fallback)
		case n != "" && op.Api == "doFbAcc" && ctx == nil:
			err = DoWithFallbackAcceptable(n, req, fallback, acceptable)
		case n != "" && op.Api == "doFbAcc":
			err = DoWithFallbackAcceptableCtx(ctx, n, req, fallback, acceptable)
		case op.Api == "do" && ctx == nil:
			err = h.b.Do(req)
		case op.Api == "do":
			err = h.b.DoCtx(ctx, req)
		case op.Api == "doAcc" && ctx == nil:
			err = h.b.DoWithAcceptable(req, acceptable)
		case op.Api == "doAcc":
			err = h.b.DoWithAcceptableCtx(ctx, req, acceptable)
		case op.Api == "doFb" && ctx == nil:
			err = h.b.DoWithFallback(req, fallback)
		case op.Api == "doFb":
			err = h.b.DoWithFallbackCtx(ctx, req, fallback)
		case op.Api == "doFbAcc" && ctx == nil:
			err = h.b.DoWithFallbackAcceptable(req, fallback, acceptable)
		case op.Api == "doFbAcc":
			err = h.b.DoWithFallbackAcceptableCtx(ctx, req, fallback, acceptable)
		default:
			panic("c01: unknown api " + op.Api)
		}
	}()
	ret := classify(err)
	if pan != "no" {
		ret = "none"
	}
	emit(verifEv{"e": "callEnd", "c": c.id, "ret": ret, "pan": pan})
	if async {
		h.sig <- c01Sig{c.id, "ended"}
	}
}

// resolve settles the promise of an admitted Allow call.
func (h *c01H) resolve(c *c01Call, async bool) {
	emit := h.emitter(c)
	if c.promise != nil && (c.op.How == "accept" || c.op.How == "reject") {
		emit(verifEv{"e": "pStart", "c": c.id, "how": c.op.How})
		if c.op.How == "accept" {
			c.promise.Accept()
		} else {
			c.promise.Reject("c01")
		}
		emit(verifEv{"e": "pEnd", "c": c.id})
	}
	if async {
		h.sig <- c01Sig{c.id, "ended"}
	}
}

// wait collects one signal per expected id (bounded; expiry = infrastructure failure).
func (h *c01H) wait(n int) []c01Sig {
	var out []c01Sig
	tm := time.NewTimer(120 * time.Second)
	defer tm.Stop()
	for len(out) < n {
		select {
		case s := <-h.sig:
			out = append(out, s)
		case <-tm.C:
			h.t.Fatalf("c01: %d of %d calls neither parked nor returned within 120s", n-len(out), n)
		}
	}
	return out
}

func (h *c01H) pref(p int) {
	if h.src != nil {
		h.src.mode.Store(int32(p))
	}
}

// exec interprets one operation; calls launched by start/batch stay parked inside their
// request (or hold an unresolved promise) until a release names them.
func (h *c01H) exec(op c01Op, ids map[int][]int) {
	switch op.Op {
	case "adv":
		if op.D <= 0 {
			return
		}
		h.adv(op.D)
	case "call": // one complete call, nothing else in flight in this goroutine
		h.pref(op.Pref)
		c := h.newCall(op)
		h.run(c, false)
		if op.Api == "allow" {
			h.resolve(c, false)
		}
	case "start": // op.D > 1: that many copies, one after the other
		h.pref(op.Pref)
		ids[op.C] = nil
		for k := 0; k < op.D || k == 0; k++ {
			c := h.newCall(op)
			ids[op.C] = append(ids[op.C], c.id)
			h.launch([]*c01Call{c}, nil)
		}
	case "release":
		for _, id := range ids[op.C] {
			if c := h.open[id]; c != nil {
				h.launch(nil, []*c01Call{c})
			}
		}
	case "batch":
		h.pref(op.Pref)
		var st, rel []*c01Call
		for _, s := range op.Start {
			c := h.newCall(s)
			ids[s.C] = []int{c.id}
			st = append(st, c)
		}
		for _, r := range op.Rel {
			for _, id := range ids[r] {
				if c := h.open[id]; c != nil {
					rel = append(rel, c)
				}
			}
		}
		h.launch(st, rel)
	default:
		h.t.Fatalf("c01: unknown op %q", op.Op)
	}
	h.obs()
}

// launch starts the given calls and releases the given parked ones, all at once, and
// returns when every one of them is parked again or has returned.
func (h *c01H) launch(st, rel []*c01Call) {
	var wg sync.WaitGroup
	fire := make(chan struct{})
	for _, c := range st {
		c := c
		if c.op.Api != "allow" {
			c.gate = make(chan struct{})
		}
		h.open[c.id] = c
		wg.Add(1)
		go func() {
			wg.Done()
			<-fire
			h.run(c, true)
		}()
	}
	for _, c := range rel {
		c := c
		delete(h.open, c.id)
		wg.Add(1)
		go func() {
			wg.Done()
			<-fire
			if c.op.Api == "allow" {
				h.resolve(c, true)
			} else {
				close(c.gate)
			}
		}()
	}
	wg.Wait()
	close(fire)
	for _, s := range h.wait(len(st) + len(rel)) {
		if s.kind == "ended" {
			delete(h.open, s.id)
		}
	}
}

// drain lets every parked call finish (end of a history).
func (h *c01H) drain() {
	var rel []*c01Call
	for _, c := range h.open {
		rel = append(rel, c)
	}
	if len(rel) > 0 {
		h.launch(nil, rel)
		h.obs()
	}
}

// ---------------------------------------------------------------- drivers

// TestVerifC01Replay replays TLC-generated behaviours (BreakerImpl): the operations, the
// outcomes of the requests and which way the model took each admission decision (used to
// load the coin). One abstract time unit is VERIF_C01_UNIT ms.
func TestVerifC01Replay(t *testing.T) {
	em := verifOpen(t)
	defer em.Close()
	defer c01InstallClock()()
	unit := verifEnvInt("VERIF_C01_UNIT", 125)
	mult := verifEnvInt("VERIF_C01_MULT", 1)
	rnd := verifRand(101)
	for i, raw := range verifInput(t) {
		var ops []c01Op
		if err := json.Unmarshal(raw, &ops); err != nil {
			t.Fatal(err)
		}
		h := c01New(t, em, 3600000+int64(i%7)*37+int64(rnd.Intn(250)), true)
		h.obs()
		ids := map[int][]int{}
		for _, op := range ops {
			switch op.Op {
			case "adv":
				op.D *= unit
			case "start":
				op.D = mult
			}
			h.exec(op, ids)
		}
		h.drain()
	}
}

var c01Apis = []string{"do", "doAcc", "doFb", "doFbAcc", "allow"}
var c01Ctxs = []string{"none", "none", "none", "live", "live", "done"}
var c01AccSets = [][]string{{"ok"}, {"ok", "accErr"}, {"ok", "accErr"}, {"ok", "err", "accErr"}, {"accErr"}, {},
	{"ok", "unavail", "wrapUnavail"}, {"ok", "accErr", "ctxErr"}}

// look-alikes of the breaker's own results among the failing outcomes (see the header)
var c01LookAlikes = []string{"unavail", "wrapUnavail", "wrapUnavail", "ctxErr"}

// parallel bursts (stress, by-name rounds): contexts (a done context now and then: such a call
// touches nothing, whoever it races with) and the outcomes of an all-failing burst
var c01BurstCtxs = []string{"none", "none", "none", "live", "live", "live", "live", "done"}
var c01BurstFails = []string{"err", "err", "err", "accErr", "accErr", "panic", "panic", "wrapUnavail", "unavail", "panicUnavail"}

func c01Gap(rnd *rand.Rand, h *c01H) int {
	switch x := rnd.Intn(100); {
	case x < 50:
		return 0
	case x < 62:
		return 1 + rnd.Intn(60)
	case x < 74: // land on / next to a bucket edge (edges are at t0 + k*250ms)
		to := 250 - int((h.nowMs()-h.t0)%250)
		return to - 1 + rnd.Intn(3) + 250*rnd.Intn(2)
	case x < 84: // around the force-pass interval
		return []int{999, 1000, 1001, 1002, 1250, 1300}[rnd.Intn(6)]
	case x < 93: // around the window length
		return []int{9500, 9749, 9750, 9751, 9999, 10000, 10001, 10249, 10250, 10251}[rnd.Intn(10)]
	case x < 97:
		return 2000 + rnd.Intn(7000)
	}
	return 10000 + rnd.Intn(30000)
}

func c01RandCall(rnd *rand.Rand, pOK, pAcc int) c01Op {
	op := c01Op{Op: "call", Api: c01Apis[rnd.Intn(len(c01Apis))], Ctx: c01Ctxs[rnd.Intn(len(c01Ctxs))]}
	switch x := rnd.Intn(100); {
	case x < pOK:
		op.Out = "ok"
	case x < pOK+pAcc:
		op.Out = "accErr"
	case x < pOK+pAcc+(100-pOK-pAcc)/8:
		op.Out = "panic"
	default:
		op.Out = "err"
	}
	switch {
	case op.Out == "err" && rnd.Intn(6) == 0:
		op.Out = c01LookAlikes[rnd.Intn(len(c01LookAlikes))]
	case op.Out == "panic" && rnd.Intn(4) == 0:
		op.Out = "panicUnavail"
	}
	if op.Api == "doAcc" || op.Api == "doFbAcc" {
		op.Acc = c01AccSets[rnd.Intn(len(c01AccSets))]
	}
	if op.Api == "allow" {
		op.How = "reject"
		if op.Out == "ok" {
			op.How = "accept"
		}
		if rnd.Intn(25) == 0 {
			op.How = "none" // promise never resolved: nothing is recorded
		}
		op.Out = ""
	}
	return op
}

// TestVerifC01Random: seeded long sequential histories in phases (healthy / failing /
// mixed), gaps clustered on bucket edges, the force-pass interval and the window length,
// the coin loaded per phase (drop whenever possible / never / fair).
func TestVerifC01Random(t *testing.T) {
	em := verifOpen(t)
	defer em.Close()
	defer c01InstallClock()()
	rnd := verifRand(7)
	histories, length := verifEnvInt("VERIF_C01_HIST", 30), verifEnvInt("VERIF_C01_LEN", 300)
	for hi := 0; hi < histories; hi++ {
		name := ""
		if hi%3 == 1 { // through the by-name entry points, on the breaker the registry keeps for the name
			name = fmt.Sprintf("c01.random/%d/%d", verifSeed(), hi)
		}
		h := c01NewNamed(t, em, 3600000+int64(rnd.Intn(100000)), true, false, name)
		h.obs()
		ids := map[int][]int{}
		n := 0
		for n < length {
			// one phase
			pOK := []int{0, 0, 10, 50, 90, 100}[rnd.Intn(6)]
			pAcc := 0
			if pOK < 90 && rnd.Intn(3) == 0 {
				pAcc = 10
			}
			pref := []int{0, 0, 0, 1, 2, 2}[rnd.Intn(6)]
			calm := rnd.Intn(3) == 0 // mostly zero gaps: many calls per bucket
			plen := 5 + rnd.Intn(80)
			for k := 0; k < plen && n < length; k++ {
				if !calm || rnd.Intn(6) == 0 {
					h.exec(c01Op{Op: "adv", D: c01Gap(rnd, h)}, ids)
				}
				op := c01RandCall(rnd, pOK, pAcc)
				op.Pref = pref
				if rnd.Intn(10) == 0 {
					op.Pref = rnd.Intn(3)
				}
				h.exec(op, ids)
				n++
			}
		}
	}
}

// TestVerifC01Majority: sustained total failure with the breaker's own, untouched random
// source; the spec counts decisions taken in hard states.
func TestVerifC01Majority(t *testing.T) {
	em := verifOpen(t)
	defer em.Close()
	defer c01InstallClock()()
	rnd := verifRand(11)
	runs := verifEnvInt("VERIF_C01_MAJ", 2)
	for r := 0; r < runs; r++ {
		// VERIF_C01_MAJ_PREF (testing the check only): load the coin instead of leaving it alone
		pref := verifEnvInt("VERIF_C01_MAJ_PREF", -1)
		h := c01New(t, em, 3600000+int64(rnd.Intn(1000)), pref >= 0)
		h.obs()
		ids := map[int][]int{}
		for i := 0; i < 900; i++ {
			if rnd.Intn(2) == 0 {
				h.exec(c01Op{Op: "adv", D: 1 + rnd.Intn(40)}, ids)
			}
			op := c01Op{Op: "call", Api: c01Apis[rnd.Intn(4)], Ctx: "none", Out: "err", Pref: pref}
			if rnd.Intn(10) == 0 {
				op.Out = "panic"
			}
			h.exec(op, ids)
		}
	}
}

// TestVerifC01Conc: rounds of calls launched at once on G goroutines; requests park on a
// gate the driver owns; releases happen at once; the clock moves only while every call in
// flight is parked. Successful requests are released only in rounds that launch nothing,
// failing ones also together with launches (see the report: a reject decided on a window
// read before a concurrent success is recorded has no single linearisation point).
func TestVerifC01Conc(t *testing.T) {
	em := verifOpen(t)
	defer em.Close()
	defer c01InstallClock()()
	rnd := verifRand(23)
	histories, rounds := verifEnvInt("VERIF_C01_CHIST", 12), verifEnvInt("VERIF_C01_ROUNDS", 40)
	G := verifEnvInt("VERIF_C01_G", 4)
	for hi := 0; hi < histories; hi++ {
		name := ""
		if hi%3 == 1 {
			name = fmt.Sprintf("c01.conc/%d/%d", verifSeed(), hi)
		}
		h := c01NewNamed(t, em, 3600000+int64(rnd.Intn(100000)), true, false, name)
		h.obs()
		ids := map[int][]int{}
		key := 0
		// warm-up: a burst of failures so that the breaker is near / in the throttling region
		warm := rnd.Intn(14)
		for i := 0; i < warm; i++ {
			h.exec(c01Op{Op: "call", Api: "do", Ctx: "none", Out: "err", Pref: 1}, ids)
		}
		pOK := []int{0, 10, 50, 80}[rnd.Intn(4)]
		for r := 0; r < rounds; r++ {
			if rnd.Intn(3) == 0 {
				h.exec(c01Op{Op: "adv", D: c01Gap(rnd, h)}, ids)
			}
			b := c01Op{Op: "batch", Pref: []int{0, 0, 1, 2}[rnd.Intn(4)]}
			if rnd.Intn(10) == 0 {
				pOK = []int{0, 10, 50, 80}[rnd.Intn(4)]
			}
			launching := rnd.Intn(4) != 0 && len(h.open) < 2*G
			if launching {
				k := 1 + rnd.Intn(G)
				for i := 0; i < k; i++ {
					key++
					s := c01RandCall(rnd, pOK, 10)
					s.Op, s.C = "start", key
					b.Start = append(b.Start, s)
				}
			}
			keys := make([]int, 0, len(ids))
			for k2, v := range ids {
				if len(v) == 1 && h.open[v[0]] != nil {
					keys = append(keys, k2)
				}
			}
			sort.Ints(keys)
			for _, k2 := range keys {
				c := h.open[ids[k2][0]]
				if launching && c.success() {
					continue
				}
				if rnd.Intn(2) == 0 {
					b.Rel = append(b.Rel, k2)
				}
			}
			if len(b.Start)+len(b.Rel) == 0 {
				continue
			}
			h.exec(b, ids)
		}
		h.drain()
	}
}

// TestVerifC01Stress: one burst of truly parallel, ungated calls on a fresh breaker at a
// fixed clock -- all succeeding (nothing can throttle) or all failing (rejects only after
// more than `protection` failures) -- then the window sums. Lost or doubled records under
// contention show up in the final obs. The trace is marked eager (see BreakerTrace.tla).
func TestVerifC01Stress(t *testing.T) {
	em := verifOpen(t)
	defer em.Close()
	defer c01InstallClock()()
	rnd := verifRand(31)
	runs := verifEnvInt("VERIF_C01_SRUNS", 6)
	G, per := verifEnvInt("VERIF_C01_SG", 32), verifEnvInt("VERIF_C01_SPER", 12)
	for r := 0; r < runs; r++ {
		good := r%2 == 0
		h := c01NewMode(t, em, 3600000+int64(rnd.Intn(100000)), r%4 == 3, true)
		h.pref(2)
		h.obs()
		work := make([][]*c01Call, G)
		for g := 0; g < G; g++ {
			for k := 0; k < per; k++ {
				op := c01Op{Op: "call", Api: c01Apis[rnd.Intn(len(c01Apis))], Ctx: c01BurstCtxs[rnd.Intn(len(c01BurstCtxs))]}
				if good {
					op.Out, op.How = "ok", "accept"
					if (op.Api == "doAcc" || op.Api == "doFbAcc") && rnd.Intn(2) == 0 {
						op.Out = "accErr"
					}
					op.Acc = []string{"ok", "accErr"}
				} else {
					op.Out, op.How = c01BurstFails[rnd.Intn(len(c01BurstFails))], "reject"
					op.Acc = []string{"ok"}
				}
				if op.Api == "do" || op.Api == "doFb" || op.Api == "allow" {
					op.Acc = nil
					if op.Out == "accErr" {
						op.Out = "err"
					}
				}
				if op.Api == "allow" {
					op.Out = ""
				}
				work[g] = append(work[g], h.newCall(op))
			}
		}
		// events go to per-goroutine buffers stamped from one atomic sequence (the shared
		// emitter's mutex would serialise the burst); merged in sequence order afterwards
		var seq atomic.Int64
		type stamped struct {
			n  int64
			ev verifEv
		}
		bufs := make([][]stamped, G)
		var ready, done sync.WaitGroup
		fire := make(chan struct{})
		for g := 0; g < G; g++ {
			g := g
			emit := func(ev verifEv) { bufs[g] = append(bufs[g], stamped{seq.Add(1), ev}) }
			for _, c := range work[g] {
				c.emit = emit
			}
			ready.Add(1)
			done.Add(1)
			go func(cs []*c01Call) {
				defer done.Done()
				ready.Done()
				<-fire
				for _, c := range cs {
					h.run(c, false)
					if c.op.Api == "allow" {
						h.resolve(c, false)
					}
				}
			}(work[g])
		}
		ready.Wait()
		close(fire)
		done.Wait()
		var all []stamped
		for _, b := range bufs {
			all = append(all, b...)
		}
		sort.Slice(all, func(i, j int) bool { return all[i].n < all[j].n })
		for _, x := range all {
			em.Emit(x.ev)
		}
		h.obs()
	}
}
