//go:build verif && !verifnowb

package breaker

// C01 white-box accessors: the only place in the core/breaker drivers that names unexported
// parts of go-zero (circuitBreaker, loggedThrottle, googleBreaker, its window and coin).  When
// this file stops compiling because those internals were renamed or restructured, the runner
// retries with tag verifnowb and zz_verif_c01_nowb_test.go takes its place: the histories are
// still driven and validated through the public API, only the window read-back ("obs" events)
// and the loaded coin are lost.  Every accessor also degrades at run time (ok = false) instead
// of failing the test.

import (
	"math/rand"
	"reflect"
	"unsafe"
)

type c01WB struct{ gb *googleBreaker }

func c01Open(b Breaker) c01WB {
	cb, ok := b.(*circuitBreaker)
	if !ok {
		return c01WB{}
	}
	lt, ok := cb.throttle.(loggedThrottle)
	if !ok {
		return c01WB{}
	}
	gb, _ := lt.internalThrottle.(*googleBreaker)
	return c01WB{gb}
}

// sums: the window's success / failure / drop sums the way accept() reads them.
func (w c01WB) sums() ([]int64, bool) {
	if w.gb == nil {
		return nil, false
	}
	var s, f, d int64
	w.gb.stat.Reduce(func(b *bucket) {
		s += b.Success
		f += b.Failure
		d += b.Drop
	})
	return []int64{s, f, d}, true
}

// steer replaces the random source behind the drop decision (mathx.Proba's private *rand.Rand).
func (w c01WB) steer(src rand.Source) bool {
	if w.gb == nil || w.gb.proba == nil {
		return false
	}
	pv := reflect.ValueOf(w.gb.proba)
	if pv.Kind() != reflect.Ptr || pv.Elem().Kind() != reflect.Struct {
		return false
	}
	v := pv.Elem().FieldByName("r")
	if !v.IsValid() || v.Type() != reflect.TypeOf((*rand.Rand)(nil)) || !v.CanAddr() {
		return false
	}
	reflect.NewAt(v.Type(), unsafe.Pointer(v.UnsafeAddr())).Elem().Set(reflect.ValueOf(rand.New(src)))
	return true
}
