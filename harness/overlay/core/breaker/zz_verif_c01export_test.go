//go:build verif && !verifnowb

package breaker

// C01, thorough tier: overlaid as core/breaker/zz_verif_c01_export.go (a non-test file) when
// the drivers of the wrapper packages (rest/handler, zrpc interceptors) are built, so that
// they can read the window sums of a breaker and load its coin. Not part of go-zero.

import (
	"errors"
	"math/rand"
	"reflect"
	"unsafe"
)

func verifC01Google(b Breaker) (*googleBreaker, error) {
	cb, ok := b.(*circuitBreaker)
	if !ok {
		return nil, errors.New("c01: unexpected breaker type")
	}
	lt, ok := cb.throttle.(loggedThrottle)
	if !ok {
		return nil, errors.New("c01: unexpected throttle type")
	}
	gb, ok := lt.internalThrottle.(*googleBreaker)
	if !ok {
		return nil, errors.New("c01: unexpected internal throttle type")
	}
	return gb, nil
}

// VerifC01Sums returns the window's success / failure / drop sums the way accept() reads them.
func VerifC01Sums(b Breaker) ([]int64, error) {
	gb, err := verifC01Google(b)
	if err != nil {
		return nil, err
	}
	var s, f, d int64
	gb.stat.Reduce(func(b *bucket) {
		s += b.Success
		f += b.Failure
		d += b.Drop
	})
	return []int64{s, f, d}, nil
}

// VerifC01Steer replaces the random source behind the breaker's drop decision.
func VerifC01Steer(b Breaker, src rand.Source) error {
	gb, err := verifC01Google(b)
	if err != nil {
		return err
	}
	v := reflect.ValueOf(gb.proba).Elem().FieldByName("r")
	if !v.IsValid() || v.Type() != reflect.TypeOf((*rand.Rand)(nil)) {
		return errors.New("c01: mathx.Proba has no field r *rand.Rand")
	}
	reflect.NewAt(v.Type(), unsafe.Pointer(v.UnsafeAddr())).Elem().Set(reflect.ValueOf(rand.New(src)))
	return nil
}
