//go:build verif && verifnowb

package breaker

// Black-box stand-ins for zz_verif_c01_wb_test.go (see there): no window read-back, no loaded coin.

import "math/rand"

type c01WB struct{}

func c01Open(b Breaker) c01WB              { return c01WB{} }
func (w c01WB) sums() ([]int64, bool)      { return nil, false }
func (w c01WB) steer(src rand.Source) bool { return false }
