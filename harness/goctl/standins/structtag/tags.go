// Package structtag is a minimal offline stand-in for github.com/fatih/structtag used only
// to build the goctl api parser/formatter packages inside /verif. It follows the
// conventional `key:"name,opt1,opt2"` struct tag syntax of reflect.StructTag.
package structtag

import (
	"errors"
	"strconv"
	"strings"
)

var (
	errTagSyntax      = errors.New("bad syntax for struct tag pair")
	errTagKeySyntax   = errors.New("bad syntax for struct tag key")
	errTagValueSyntax = errors.New("bad syntax for struct tag value")
	errTagNotExist    = errors.New("tag does not exist")
)

// Tags represent a set of tags from a single struct field.
type Tags struct{ tags []*Tag }

// Tag defines a single struct's string literal tag.
type Tag struct {
	Key     string
	Name    string
	Options []string
}

// Parse parses a single struct field tag and returns the set of tags.
func Parse(tag string) (*Tags, error) {
	var tags []*Tag
	hasTag := tag != ""
	for tag != "" {
		i := 0
		for i < len(tag) && tag[i] == ' ' {
			i++
		}
		tag = tag[i:]
		if tag == "" {
			break
		}
		i = 0
		for i < len(tag) && tag[i] > ' ' && tag[i] != ':' && tag[i] != '"' && tag[i] != 0x7f {
			i++
		}
		if i == 0 {
			return nil, errTagKeySyntax
		}
		if i+1 >= len(tag) || tag[i] != ':' {
			return nil, errTagSyntax
		}
		if tag[i+1] != '"' {
			return nil, errTagValueSyntax
		}
		key := tag[:i]
		tag = tag[i+1:]
		i = 1
		for i < len(tag) && tag[i] != '"' {
			if tag[i] == '\\' {
				i++
			}
			i++
		}
		if i >= len(tag) {
			return nil, errTagValueSyntax
		}
		qvalue := tag[:i+1]
		tag = tag[i+1:]
		value, err := strconv.Unquote(qvalue)
		if err != nil {
			return nil, errTagValueSyntax
		}
		res := strings.Split(value, ",")
		name := res[0]
		options := res[1:]
		if len(options) == 0 {
			options = nil
		}
		tags = append(tags, &Tag{Key: key, Name: name, Options: options})
	}
	if hasTag && len(tags) == 0 {
		return nil, nil
	}
	return &Tags{tags: tags}, nil
}

// Get returns the tag associated with the given key.
func (t *Tags) Get(key string) (*Tag, error) {
	for _, tag := range t.tags {
		if tag.Key == key {
			return tag, nil
		}
	}
	return nil, errTagNotExist
}

// Tags returns a slice of tags.
func (t *Tags) Tags() []*Tag { return t.tags }

// Keys returns a slice of the tags' keys.
func (t *Tags) Keys() []string {
	var keys []string
	for _, tag := range t.tags {
		keys = append(keys, tag.Key)
	}
	return keys
}

// Len returns the number of tags.
func (t *Tags) Len() int { return len(t.tags) }

// Value returns the raw value of the tag, i.e. name plus options.
func (t *Tag) Value() string {
	if len(t.Options) == 0 {
		return t.Name
	}
	return t.Name + "," + strings.Join(t.Options, ",")
}

// String reassembles the tag into a valid literal tag field representation.
func (t *Tag) String() string { return t.Key + ":" + strconv.Quote(t.Value()) }

// HasOption returns true if the given option is available in options.
func (t *Tag) HasOption(opt string) bool {
	for _, o := range t.Options {
		if o == opt {
			return true
		}
	}
	return false
}
