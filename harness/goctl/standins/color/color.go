// Package color is a minimal offline stand-in for github.com/gookit/color used only to
// build the goctl api parser/formatter packages inside /verif (no colours are produced).
package color

import "fmt"

// Color is a terminal attribute (ignored).
type Color uint8

// Style is a list of attributes (ignored).
type Style []Color

const (
	Bold Color = iota + 1
	BgRed
	FgRed
	FgGreen
	FgYellow
	FgCyan
	FgLightRed
	Red
	Green
	Yellow
	Cyan
	LightRed
	LightGreen
	LightYellow
	LightCyan
	LightBlue
	LightMagenta
)

// New returns a Style.
func New(colors ...Color) Style { return Style(colors) }

func (s Style) Render(a ...any) string            { return fmt.Sprint(a...) }
func (s Style) Sprint(a ...any) string            { return fmt.Sprint(a...) }
func (s Style) Sprintf(f string, a ...any) string { return fmt.Sprintf(f, a...) }
func (s Style) Print(a ...any)                    { fmt.Print(a...) }
func (s Style) Println(a ...any)                  { fmt.Println(a...) }
func (s Style) Printf(f string, a ...any)         { fmt.Printf(f, a...) }

func (c Color) Render(a ...any) string            { return fmt.Sprint(a...) }
func (c Color) Sprint(a ...any) string            { return fmt.Sprint(a...) }
func (c Color) Sprintf(f string, a ...any) string { return fmt.Sprintf(f, a...) }
func (c Color) Print(a ...any)                    { fmt.Print(a...) }
func (c Color) Println(a ...any)                  { fmt.Println(a...) }
func (c Color) Printf(f string, a ...any)         { fmt.Printf(f, a...) }
