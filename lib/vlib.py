"""Shared plumbing for the /verif checks.

Every check is:  TLC model-checks the specification (design level), TLC (optionally)
generates behaviours, a Go driver overlaid into the package under test performs
operations on the real code and records an ndjson trace, and TLC validates the recorded
trace against the *Trace.tla module of the specification.  Only a trace recorded from the
real code and rejected by TLC (re-validated in isolation) yields a VIOLATION line.

Exit codes: 0 ok (KNOWN-FINDING lines allowed), 1 violation, 2 infrastructure.
"""
import json
import os
import re
import shutil
import subprocess
import sys
import tempfile
import time

VERIF = os.path.dirname(os.path.dirname(os.path.abspath(__file__)))
REPO = os.environ.get("VERIF_REPO", "/repo")
SPECS = os.path.join(VERIF, "specs")
OVERLAY = os.path.join(VERIF, "harness", "overlay")
COMMON = os.path.join(VERIF, "harness", "common")
REPLAYS = os.environ.get("VERIF_REPLAYS_DIR") or os.path.join(VERIF, "replays")
EVIDENCE = os.environ.get("VERIF_EVIDENCE_DIR") or os.path.join(VERIF, "evidence")
MODULE = "github.com/zeromicro/go-zero"

GOENV = {
    "GOFLAGS": "-mod=mod",
    "GOPROXY": "off",
    "GOSUMDB": "off",
    "GOTOOLCHAIN": "local",
}


class Infra(Exception):
    """Infrastructure failure: never a violation (exit 2)."""


def log(*a):
    print(*a, flush=True)


class Run:
    def __init__(self, pid, tier, seed, level="model_checking"):
        self.pid = pid
        self.tier = tier
        self.seed = seed
        self.level = level
        self.t0 = time.time()
        self.scratch = tempfile.mkdtemp(prefix="verif-%s-" % pid.lower())
        self.violations = []          # (replay path, text)
        self.known = []               # finding texts printed
        self.mc = []                  # per MC config stats
        self.traces = 0               # traces validated against the implementation
        self.events = 0
        self.event_kinds = {}
        self.samples = []
        self.evaluations = 0
        self.distinct = set()
        self.assumptions = []
        self.notes = []
        self.extra = {}
        self.findings = load_findings(pid)
        self._n = 0
        self.advisory_default = False   # set by the runner while an extension spec is being checked

    # ------------------------------------------------------------------ util
    def tmp(self, name):
        self._n += 1
        p = os.path.join(self.scratch, "%03d-%s" % (self._n, name))
        return p

    def cleanup(self):
        shutil.rmtree(self.scratch, ignore_errors=True)

    # ------------------------------------------------------------------ TLC
    def _spec_copy(self, family):
        """TLC litters the directory it runs in; work on a scratch copy."""
        dst = os.path.join(self.scratch, "spec-" + family)
        if not os.path.isdir(dst):
            shutil.copytree(os.path.join(SPECS, family), dst)
            common = os.path.join(SPECS, "common")
            if os.path.isdir(common):
                for f in os.listdir(common):
                    if not os.path.exists(os.path.join(dst, f)):
                        shutil.copy(os.path.join(common, f), dst)
        return dst

    def tlc(self, family, module, cfg, workers=8, timeout=600, env=None, args=(),
            dfs=False, heap=None):
        d = self._spec_copy(family)
        meta = self.tmp("meta")
        cmd = ["timeout", "-k", "5", str(timeout), "tlc", "-workers", str(workers),
               "-metadir", meta, "-config", cfg] + list(args) + [module + ".tla"]
        e = dict(os.environ)
        jopts = []
        if dfs:
            jopts.append("-Dtlc2.tool.queue.IStateQueue=StateDeque")
        jopts.append("-Xss64m")
        if heap:
            jopts.append("-Xmx" + heap)
        e["JAVA_TOOL_OPTIONS"] = " ".join(jopts)
        if env:
            e.update(env)
        t = time.time()
        p = subprocess.run(cmd, cwd=d, env=e, stdout=subprocess.PIPE,
                           stderr=subprocess.STDOUT, text=True, errors="replace")
        shutil.rmtree(meta, ignore_errors=True)
        out = p.stdout
        res = {"rc": p.returncode, "out": out, "wall": time.time() - t,
               "generated": 0, "distinct": 0, "cmd": " ".join(cmd[4:])}
        m = re.findall(r"(\d+) states generated, (\d+) distinct states found", out)
        if m:
            res["generated"], res["distinct"] = int(m[-1][0]), int(m[-1][1])
        if p.returncode in (124, 137):
            raise Infra("TLC timeout after %ss: %s %s" % (timeout, module, cfg))
        if "java.lang.OutOfMemoryError" in out or "StackOverflowError" in out:
            raise Infra("TLC resource error in %s %s:\n%s" % (module, cfg, out[-2000:]))
        return res

    def model_check(self, family, module, cfg, workers=8, timeout=900, args=(),
                    expect="ok", note="", heap=None):
        """Exhaustive (or simulation) model checking of a design-level config.
        expect: "ok" or "violation" (documented counterexample configs)."""
        r = self.tlc(family, module, cfg, workers=workers, timeout=timeout, args=args, heap=heap)
        ok = r["rc"] == 0 and "No error has been found" in r["out"]
        if "-simulate" in args:
            ok = r["rc"] == 0
        st = {"spec": "%s/%s.tla" % (family, module), "cfg": cfg, "states_generated": r["generated"],
              "distinct_states": r["distinct"], "wall_s": round(r["wall"], 1),
              "result": "ok" if ok else "error(rc=%d)" % r["rc"], "note": note}
        cov = self._coverage(r["out"])
        if cov:
            st["actions_never_taken"] = cov
        self.mc.append(st)
        if expect == "ok" and not ok:
            raise Infra("model checking failed for %s %s (rc=%d):\n%s" %
                        (module, cfg, r["rc"], tail(r["out"], 60)))
        if expect == "violation" and ok:
            raise Infra("config %s %s was expected to produce a counterexample" % (module, cfg))
        log("  MC %-28s %-22s %9d generated %8d distinct  %5.1fs  %s" %
            (module, cfg, r["generated"], r["distinct"], r["wall"], st["result"]))
        return r

    @staticmethod
    def _coverage(out):
        never = []
        for m in re.finditer(r"<(\w+) line \d+, col \d+ to line \d+, col \d+ of module (\w+)>: (\d+):(\d+)", out):
            if m.group(3) == "0" and m.group(4) == "0":
                never.append(m.group(1))
        return sorted(set(never))

    def generate(self, family, module, cfg, workers=1, timeout=600, args=(), limit=None):
        """Run a spec whose invariant prints 'TRACE <json>' once per behaviour."""
        r = self.tlc(family, module, cfg, workers=workers, timeout=timeout, args=args)
        if r["rc"] != 0:
            raise Infra("generation failed for %s %s (rc=%d):\n%s" % (module, cfg, r["rc"], tail(r["out"], 40)))
        beh = []
        for line in r["out"].splitlines():
            if line.startswith('"TRACE '):
                try:
                    s = json.loads(line)
                    beh.append(json.loads(s[len("TRACE "):]))
                except Exception as ex:  # noqa
                    raise Infra("cannot parse generated behaviour: %r (%s)" % (line[:200], ex))
                if limit and len(beh) >= limit:
                    break
        st = {"spec": "%s/%s.tla" % (family, module), "cfg": cfg, "states_generated": r["generated"],
              "distinct_states": r["distinct"], "wall_s": round(r["wall"], 1),
              "result": "ok", "note": "generation: %d behaviours" % len(beh)}
        self.mc.append(st)
        log("  GEN %-27s %-22s %9d generated %8d distinct  %5.1fs  %d behaviours" %
            (module, cfg, r["generated"], r["distinct"], r["wall"], len(beh)))
        return beh

    # ------------------------------------------------------------------ Go drivers
    def go_driver(self, pkg, files, run, inp=None, env=None, timeout=600, tags="verif",
                  race=False, cpu=None, extra_overlay=None, modfile=None, cwd=None, count=1):
        """Compile the overlay driver files into package `pkg` of /repo (working tree as
        it is now) and run test function(s) matching `run`.  Returns the path of the ndjson
        trace the driver wrote."""
        out = self.tmp("trace.ndjson")
        open(out, "w").close()
        pkgdir = os.path.join(cwd or REPO, pkg)
        if not os.path.isdir(pkgdir):
            raise Infra("package directory %s missing" % pkgdir)
        pkgname = go_package_name(pkgdir)
        ov = {}
        for f in files:
            src = f if os.path.isabs(f) else os.path.join(OVERLAY, pkg, f)
            ov[os.path.join(pkgdir, os.path.basename(src))] = src
        # shared emitter, package clause rewritten
        em = self.tmp("emit_test.go")
        with open(os.path.join(COMMON, "emit.go.txt")) as fh:
            txt = fh.read().replace("package PKG", "package " + pkgname)
        with open(em, "w") as fh:
            fh.write(txt)
        ov[os.path.join(pkgdir, "zz_verif_emit_test.go")] = em
        if extra_overlay:
            ov.update(extra_overlay)
        ovf = self.tmp("overlay.json")
        with open(ovf, "w") as fh:
            json.dump({"Replace": ov}, fh)
        e = dict(os.environ)
        e.update(GOENV)
        e["VERIF_OUT"] = out
        e["VERIF_SEED"] = str(self.seed)
        e["VERIF_TIER"] = self.tier
        if inp is not None:
            ip = self.tmp("input.json")
            with open(ip, "w") as fh:
                if isinstance(inp, (list, tuple)):
                    for b in inp:
                        fh.write(json.dumps(b) + "\n")
                else:
                    fh.write(json.dumps(inp) + "\n")
            e["VERIF_IN"] = ip
        if env:
            e.update({k: str(v) for k, v in env.items()})
        cmd = ["timeout", "-k", "10", str(timeout + 60), "go", "test", "-overlay", ovf, "-vet=off",
               "-count=%d" % count, "-run", run, "-timeout", "%ds" % timeout]
        if tags:
            cmd += ["-tags", tags]
        if race:
            cmd += ["-race"]
        if cpu:
            cmd += ["-cpu", str(cpu)]
        if modfile:
            cmd += ["-modfile", modfile]
        cmd += ["./" + pkg if not cwd else "."]
        nowb = os.environ.get("VERIF_NOWB") == "1"
        if nowb and tags:
            cmd[cmd.index("-tags") + 1] = tags + ",verifnowb"
        t = time.time()
        p = subprocess.run(cmd, cwd=(cwd and pkgdir) or REPO, env=e, stdout=subprocess.PIPE,
                           stderr=subprocess.STDOUT, text=True, errors="replace")
        if p.returncode != 0 and tags and not nowb and ("[build failed]" in p.stdout or "[setup failed]" in p.stdout):
            # The driver no longer compiles against this tree.  Drivers keep their white-box accessors (unexported
            # names of go-zero) in files tagged `verif && !verifnowb` with black-box stand-ins under
            # `verif && verifnowb`: retry once without the white-box part, so that a harmless renaming inside
            # go-zero degrades the observation instead of breaking the check.
            first = p.stdout
            cmd[cmd.index("-tags") + 1] = tags + ",verifnowb"
            open(out, "w").close()
            p2 = subprocess.run(cmd, cwd=(cwd and pkgdir) or REPO, env=e, stdout=subprocess.PIPE,
                                stderr=subprocess.STDOUT, text=True, errors="replace")
            if "[build failed]" in p2.stdout or "[setup failed]" in p2.stdout:
                p.stdout = first          # no black-box variant (or it does not build either): report the first failure
            else:
                log("  NOTE driver %s -run %s: white-box accessors do not compile against this tree; ran black-box "
                    "(tag verifnowb)" % (pkg, run))
                self.extra.setdefault("whitebox_unavailable", []).append(
                    {"driver": "%s -run %s" % (pkg, run), "build_error": tail(first, 12)})
                p = p2
        w = time.time() - t
        if p.returncode != 0:
            lp = lib_panic(p.stdout, cwd or REPO)
            if lp:
                self._lib_panic(pkg, run, lp, p.stdout)
            raise Infra("driver %s -run %s failed (rc=%d, %.0fs):\n%s" % (pkg, run, p.returncode, w, tail(p.stdout, 60)))
        if "no tests to run" in p.stdout:
            raise Infra("driver %s -run %s: no tests to run" % (pkg, run))
        n = sum(1 for _ in open(out))
        log("  GO  %-40s -run %-28s %6.1fs  %d events" % (pkg, run, w, n))
        if n == 0:
            raise Infra("driver %s -run %s wrote no events" % (pkg, run))
        return out

    def _lib_panic(self, pkg, run, lp, out):
        """The test binary died from a panic raised INSIDE go-zero (first frame of the panicking goroutine that
        lies in the tree under verification is a library file, not a driver) while a driver was executing a
        history the specification allows.  No specification in /verif has an action for a library panic, so the
        real code did something the spec forbids: a violation (never reported for panics that start in driver
        code, for test time-outs or for runtime deadlock reports - those stay infrastructure, exit 2).  For
        extension specifications: EXT-MISMATCH, not a verdict."""
        os.makedirs(REPLAYS, exist_ok=True)
        path = os.path.join(REPLAYS, "%s-libpanic-%d-%d.txt" % (self.pid, self.seed, len(self.violations)))
        with open(path, "w") as fh:
            fh.write(json.dumps({"e": "header", "kind": "library panic", "driver": "%s -run %s" % (pkg, run),
                                 "seed": self.seed, "tier": self.tier, "panic": lp["msg"], "frame": lp["frame"]}) + "\n")
            fh.write(lp["excerpt"] + "\n")
        if self.advisory_default:
            log("EXT-MISMATCH (extension beyond property %s; not a verdict) library panic: %s at %s" %
                (self.pid, lp["msg"][:200], lp["frame"]))
            self.extra.setdefault("extension_mismatches", []).append(
                {"label": "%s -run %s" % (pkg, run), "trace": path, "at": "library panic: " + lp["msg"][:200]})
            return
        log("VIOLATION property=%s replay=%s" % (self.pid, path))
        log("  the real code panicked inside go-zero (not in the driver) on a history the specification allows;")
        log("  no spec action admits it: %s" % lp["msg"][:300])
        log("  at %s  (driver %s -run %s)" % (lp["frame"], pkg, run))
        self.violations.append((path, "library panic: %s at %s" % (lp["msg"][:300], lp["frame"])))

    # ------------------------------------------------------------------ trace validation
    def validate(self, family, module, cfg, trace_file, label="", timeout=900, dfs=False,
                 max_violations=3, split=None, heap=None, advisory=False):
        """Validate every trace in trace_file (traces start at {"e":"reset",...} lines).
        Rejected traces are re-validated in isolation, matched against open known
        findings, and otherwise reported as violations.
        advisory=True is for *extension* specifications (behaviour of the subsystem beyond
        the listed property): a rejected trace is recorded in the evidence and printed as
        EXT-MISMATCH, never as a VIOLATION of the property, and does not affect the exit code."""
        advisory = advisory or self.advisory_default
        lines = [ln for ln in open(trace_file).read().splitlines() if ln.strip()]
        starts = []
        for i, ln in enumerate(lines):
            try:
                k = json.loads(ln).get("e", "?")
            except Exception:
                raise Infra("bad json line in trace: %r" % ln[:200])
            if k == "reset":
                starts.append(i)
            self.event_kinds[k] = self.event_kinds.get(k, 0) + 1
        if not starts or starts[0] != 0:
            raise Infra("trace %s does not start with a reset event" % trace_file)
        bounds = starts + [len(lines)]
        traces = [lines[bounds[i]:bounds[i + 1]] for i in range(len(starts))]
        self.events += len(lines)
        if traces and len(self.samples) < 4:
            self.samples.append({"driver": label, "trace": [json.loads(x) for x in traces[len(traces) // 2][:12]]})
        pending = list(range(len(traces)))
        chunk = split or len(pending) or 1
        rejected = 0
        validated = 0
        states = 0
        t_all = time.time()
        # TLC aborts on behaviours of >= 65536 states once its state queue spills to disk, and a
        # batch is one behaviour: bound every batch by lines as well (silent steps add depth, so
        # stay well below the limit).  A single longer trace still goes alone.
        maxlines = int(os.environ.get("VERIF_BATCH_LINES", "25000"))
        queue = []
        cur, curlines = [], 0
        for ti in pending:
            n = len(traces[ti])
            if cur and (len(cur) >= chunk or curlines + n > maxlines):
                queue.append(cur)
                cur, curlines = [], 0
            cur.append(ti)
            curlines += n
        if cur:
            queue.append(cur)
        while queue:
            batch = queue.pop(0)
            if not batch:
                continue
            flat = []
            owner = []
            for ti in batch:
                flat.extend(traces[ti])
                owner.extend([ti] * len(traces[ti]))
            ok, hw, r = self._validate_lines(family, module, cfg, flat, timeout, dfs, heap=heap)
            states += r["distinct"]
            if ok:
                validated += len(batch)
                continue
            if hw is None or hw < 1 or hw > len(flat):
                raise Infra("trace validation of %s failed without a usable position:\n%s" % (label, tail(r["out"], 40)))
            bad = owner[hw - 1]
            # everything before the offending trace in this batch was accepted
            idx = batch.index(bad)
            validated += idx
            sub = traces[bad]
            ok2, hw2, r2 = self._validate_lines(family, module, cfg, sub, timeout, dfs, heap=heap)
            if ok2:
                raise Infra("trace %d of %s rejected in a batch but accepted alone (spec depends on batch position)" % (bad, label))
            verdict = self._classify(family, module, cfg, sub, timeout, dfs)
            if verdict is None:
                rejected += 1
                os.makedirs(REPLAYS, exist_ok=True)
                path = os.path.join(REPLAYS, "%s-%s-%d-%d.ndjson" % (self.pid, label or module, self.seed, bad))
                with open(path, "w") as fh:
                    fh.write(json.dumps({"e": "header", "driver": label, "seed": self.seed, "tier": self.tier,
                                         "spec": "%s/%s.tla" % (family, module), "cfg": cfg,
                                         "rejected_at_line": hw2,
                                         "tlc": tail(r2["out"], 12)}) + "\n")
                    fh.write("\n".join(sub) + "\n")
                where = sub[hw2 - 1] if hw2 and 1 <= hw2 <= len(sub) else "?"
                if advisory:
                    log("EXT-MISMATCH spec=%s/%s (extension beyond property %s; not a verdict) trace=%s" %
                        (family, module, self.pid, path))
                    log("  rejected at line %s of the trace: %s" % (hw2, where[:300]))
                    self.extra.setdefault("extension_mismatches", []).append(
                        {"spec": "%s/%s.tla" % (family, module), "label": label, "trace": path, "at": where[:300]})
                    if rejected >= max_violations:
                        break
                    rest = batch[idx + 1:]
                    if rest:
                        queue.insert(0, rest)
                    continue
                log("VIOLATION property=%s replay=%s" % (self.pid, path))
                log("  rejected at line %s of the trace: %s" % (hw2, where[:300]))
                if hw2 and hw2 >= 2:
                    log("  previous event: %s" % sub[hw2 - 2][:300])
                self.violations.append((path, where))
                if rejected >= max_violations:
                    log("  (stopping after %d violations in %s)" % (rejected, label))
                    break
            else:
                validated += 1
            rest = batch[idx + 1:]
            if rest:
                queue.insert(0, rest)
        self.traces += validated
        log("  VAL %-28s %-26s %6d traces %8d events %5.1fs  rejected=%d" %
            (module, label, len(traces), len(lines), time.time() - t_all, rejected))
        self.mc.append({"spec": "%s/%s.tla" % (family, module), "cfg": cfg, "note": "trace validation: " + label,
                        "distinct_states": states, "traces": len(traces), "events": len(lines)})
        return rejected == 0

    def _validate_lines(self, family, module, cfg, lines, timeout, dfs, consts=None, heap=None):
        tf = self.tmp("batch.ndjson")
        with open(tf, "w") as fh:
            fh.write("\n".join(lines) + "\n")
        ff = self.tmp("findings.json")
        with open(ff, "w") as fh:
            json.dump({"open": list(consts or [])}, fh)
        env = {"TRACE": tf, "FINDINGS": ff}
        r = self.tlc(family, module, cfg, workers=1, timeout=timeout, env=env, dfs=dfs, heap=heap)
        out = r["out"]
        try:
            os.unlink(tf)
        except OSError:
            pass
        if r["rc"] == 0 and "No error has been found" in out:
            return True, None, r
        hw = None
        m = re.findall(r'<<\s*"HW",\s*(\d+)', out)
        if m:
            hw = int(m[-1])
        else:
            # an invariant failed: the last state of the counterexample carries l
            m = re.findall(r"^/?\\? ?l = (\d+)", out, re.M)
            if m:
                hw = int(m[-1]) - 1 if "Invariant" in out else int(m[-1])
                hw = max(hw, 1)
        if hw is None and ("Error:" in out):
            raise Infra("TLC error during trace validation (%s %s):\n%s" % (module, cfg, tail(out, 40)))
        return False, hw, r

    def _classify(self, family, module, cfg, sub, timeout, dfs):
        """Is the rejection explained by exactly one open known finding?"""
        openf = [f for f in self.findings if f.get("status") == "open" and f.get("deviation")]
        for f in openf:
            ok, _, _ = self._validate_lines(family, module, cfg, sub, timeout, dfs, consts=[f["deviation"]])
            if ok:
                txt = "KNOWN-FINDING: property=%s %s" % (self.pid, f["what"])
                if txt not in self.known:
                    self.known.append(txt)
                    log(txt)
                return f
        if len(openf) > 1:
            ok, _, _ = self._validate_lines(family, module, cfg, sub, timeout, dfs,
                                            consts=[f["deviation"] for f in openf])
            if ok:
                for f in openf:
                    txt = "KNOWN-FINDING: property=%s %s" % (self.pid, f["what"])
                    if txt not in self.known:
                        self.known.append(txt)
                        log(txt)
                return openf[0]
        return None

    def replay(self, family, module, cfg, path, dfs=False, timeout=900):
        """Re-validate a recorded (rejected) trace from /verif/replays."""
        lines = [ln for ln in open(path).read().splitlines() if ln.strip()]
        if lines and json.loads(lines[0]).get("e") == "header":
            h = json.loads(lines[0])
            if h.get("kind") == "library panic":
                # a recorded crash of the real code inside go-zero: nothing to re-validate, the record stands
                log("VIOLATION property=%s replay=%s" % (self.pid, path))
                log("  recorded library panic (%s, seed %s): %s at %s" % (h.get("driver"), h.get("seed"), h.get("panic"), h.get("frame")))
                log("  re-run the driver with: VERIF_SEED=%s ./check %s --tier %s" % (h.get("seed"), self.pid, h.get("tier")))
                self.violations.append((path, "library panic"))
                return False
            lines = lines[1:]
        tf = self.tmp("replay.ndjson")
        with open(tf, "w") as fh:
            fh.write("\n".join(lines) + "\n")
        self.evaluations += 1
        self.distinct.update({"replay", path})
        return self.validate(family, module, cfg, tf, label="replay", dfs=dfs, timeout=timeout)

    # ------------------------------------------------------------------ evidence
    def write_evidence(self, rule, exhaustive=False):
        os.makedirs(EVIDENCE, exist_ok=True)
        states = sum(m.get("distinct_states", 0) for m in self.mc)
        trans = sum(m.get("states_generated", 0) for m in self.mc)
        cov = {
            "states": states,
            "transitions": max(trans, states),
            "traces_validated_against_impl": self.traces,
            "evaluations": max(self.evaluations, self.traces, 1),
            "distinct_nontrivial": max(len(self.distinct), 0),
            "rule": rule,
            "samples": self.samples or [{"note": "no sample recorded"}],
            "events_validated": self.events,
            "events_by_kind": self.event_kinds,
            "tlc_runs": self.mc,
            "known_findings_reported": self.known,
            "exhaustive": exhaustive,
        }
        cov.update(self.extra)
        ev = {
            "property_id": self.pid,
            "tier": self.tier,
            "seed": self.seed,
            "level": self.level,
            "coverage": cov,
            "assumptions": self.assumptions,
            "wall_s": round(time.time() - self.t0, 1),
            "violations": len(self.violations),
        }
        with open(os.path.join(EVIDENCE, self.pid + ".json"), "w") as fh:
            json.dump(ev, fh, indent=1, sort_keys=True)
            fh.write("\n")


def lib_panic(out, root):
    """Parse a crashed `go test` output.  Returns {msg, frame, excerpt} when the goroutine that panicked
    ([running], right after a `panic:` / `fatal error:` line) has as its FIRST frame inside the tree under
    verification a non-test library file; None for driver panics, test time-outs, deadlock reports, build
    failures and anything unclear."""
    lines = out.splitlines()
    root = os.path.realpath(root).rstrip("/") + "/"
    for i, ln in enumerate(lines):
        if not (ln.startswith("panic: ") or ln.startswith("fatal error: ")):
            continue
        if "test timed out" in ln or "all goroutines are asleep" in ln:
            return None
        msg = ln
        j = i + 1
        while j < len(lines) and not re.match(r"goroutine \d+ (gp=\S+ m=\S+ mp=\S+ )?\[running", lines[j]):
            if lines[j].startswith("\tpanic: ") or lines[j].startswith("panic: "):
                msg += " / " + lines[j].strip()
            j += 1
            if j - i > 40:
                break
        if j >= len(lines) or not lines[j].startswith("goroutine "):
            return None
        k = j + 1
        while k + 1 < len(lines) and lines[k].strip():
            m = re.match(r"\t(\S+\.go):(\d+)", lines[k + 1]) if k + 1 < len(lines) else None
            if m:
                f = os.path.realpath(m.group(1)) if os.path.isabs(m.group(1)) else m.group(1)
                if f.startswith(root):
                    base = os.path.basename(f)
                    if base.endswith("_test.go") or base.startswith("zz_verif"):
                        return None
                    return {"msg": msg, "frame": "%s:%s %s" % (f[len(root):], m.group(2), lines[k].strip()[:160]),
                            "excerpt": "\n".join(lines[i:min(len(lines), k + 24)])}
                k += 2
            else:
                k += 1
        return None
    return None


def tail(s, n):
    return "\n".join(s.splitlines()[-n:])


def go_package_name(pkgdir):
    for f in sorted(os.listdir(pkgdir)):
        if f.endswith(".go") and not f.endswith("_test.go"):
            for ln in open(os.path.join(pkgdir, f), errors="replace"):
                m = re.match(r"\s*package\s+(\w+)", ln)
                if m:
                    return m.group(1)
    raise Infra("cannot determine package name in " + pkgdir)


def load_findings(pid):
    p = os.environ.get("VERIF_FINDINGS_FILE") or os.path.join(VERIF, "known_findings.json")
    if not os.path.exists(p):
        return []
    data = json.load(open(p))
    return [f for f in data.get("findings", []) if f.get("property") == pid]


def distinct_key(obj):
    return json.dumps(obj, sort_keys=True)
