SPECIFICATION Spec
CONSTANTS
  Procs = {1, 2, 3}
  Names = {"a", "b"}
  MaxCalls = 3
  NopProcs = {}
  Variant = "code"
  Ctxs = {"live"}
INVARIANTS LawObeyed Accounted NopSticks MutexOK RegAgrees
CHECK_DEADLOCK FALSE
