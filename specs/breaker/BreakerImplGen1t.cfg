SPECIFICATION ISpec
CONSTANTS
  W = 80
  Slack = 2
  Protection = 1
  ForcePass = 8
  HardMin = 50
  HardN = 99
  NB = 40
  BL = 2
  T0 = 1
  MaxOpen = 2
  MaxOps = 5
  Gaps = {1, 2, 8, 9, 79, 80}
  GApis = {"do"}
  GCtxs = {"none"}
  GOuts = {"ok", "err"}
  GAccs = {{"ok", "accErr"}}
  Mode = "steer"
  Variant = "code"
  Emit = TRUE
  ViewKind = "gen"
  PlainFirst = FALSE
INVARIANTS Allowed SumsAgree PrintHist
VIEW TheView
CHECK_DEADLOCK FALSE
