---------------------------- MODULE BreakerRace ----------------------------
(* Layer I, concurrency of accept(): googlebreaker.go reads the window (history(), one
   atomic snapshot under the rolling window's read lock) and *afterwards* lastPass (an
   atomic), then draws; marks are separate critical sections.  Procs calls race at a
   fixed clock.  Question: does every reject have a linearisation point -- an instant
   between its start and its return at which Breaker.tla's RejectAllowed held
   (Throttle on the window as it was then, and no probe due)?

     Outs = {"f"}       : yes (TLC: Linearisable holds).  Failures and drops only make
                          Throttle truer, so the instant of the lastPass read works.
     Outs = {"s", "f"}  : no, if a probe is due (LpInit = "due") and a call admitted earlier
                          is still in flight (Running): A and B read a throttling window;
                          the old call's successes are recorded and end the throttling; B
                          (on its stale snapshot) takes the due probe (lastPass := now); A
                          reads lastPass (fresh, not due) and draws "drop".  At no instant
                          were both conjuncts true (BreakerRaceBug.cfg).  With LpInit =
                          "none", or with nothing in flight, it is linearisable again.

   The concurrent driver therefore never lets a successful request return in the same
   round in which calls are started; the trace specification can then insist on a
   linearisation point for every reject.                                           *)
EXTENDS Integers, FiniteSets, TLC

CONSTANTS Procs, Protection, Outs, LpInit, F0, S0,  \* F0/S0: failures/successes on record at the start
          Running,  \* processes whose call was admitted earlier and is still inside its request
          SW    \* a process with outcome "s" stands for SW callers succeeding (keeps Procs small)

VARIABLES
  win,    \* [s, f, d]
  lp,     \* "none" | "due" | "fresh"   (clock fixed: a lastPass set now is fresh)
  pc,     \* p |-> "idle" | "start" | "gotWin" | "run" | "admitted" | "dropping" | "rejected"
  snap,   \* p |-> the window p read
  out,    \* p |-> what p's request does
  just    \* p |-> RejectAllowed held at some instant since p started
vars == <<win, lp, pc, snap, out, just>>

Total(w) == w.s + w.f + w.d
LawThrottle(w)  == 10 * (Total(w) - Protection) > 11 * w.s     \* the statement: 10 %
CodeThrottle(w) == 10 * (Total(w) - Protection) > 15 * w.s     \* the code with w = k = 1.5
RejectAllowed == LawThrottle(win) /\ lp # "due"

Init ==
  /\ win = [s |-> S0, f |-> F0, d |-> 0] /\ lp = LpInit
  /\ pc = [p \in Procs |-> IF p \in Running THEN "run" ELSE "idle"] /\ snap = [p \in Procs |-> [s |-> 0, f |-> 0, d |-> 0]]
  /\ out \in [Procs -> Outs] /\ just = [p \in Procs |-> FALSE]

\* after every step: processes that are between start and decision remember RejectAllowed
Track(pcn, winn, lpn) ==
  just' = [p \in Procs |->
             IF pcn[p] \in {"start", "gotWin"}
               THEN (IF pc[p] = "idle" THEN FALSE ELSE just[p]) \/ (LawThrottle(winn) /\ lpn # "due")
             ELSE just[p]]

Step(p, pcp, winn, lpn, snapn) ==
  /\ pc' = [pc EXCEPT ![p] = pcp] /\ win' = winn /\ lp' = lpn /\ snap' = snapn
  /\ Track([pc EXCEPT ![p] = pcp], winn, lpn)
  /\ UNCHANGED out

Start(p)   == pc[p] = "idle"  /\ Step(p, "start", win, lp, snap)
ReadWin(p) == pc[p] = "start" /\ Step(p, "gotWin", win, lp, [snap EXCEPT ![p] = win])
\* reads lastPass and decides
Decide(p) ==
  /\ pc[p] = "gotWin"
  /\ IF ~CodeThrottle(snap[p]) THEN Step(p, "run", win, lp, snap)
     ELSE IF lp = "due" THEN Step(p, "run", win, "fresh", snap)            \* forced probe
     ELSE \/ Step(p, "dropping", win, lp, snap)                            \* drawn: drop
          \/ Step(p, "run", win, "fresh", snap)                            \* drawn: pass
MarkDrop(p) == pc[p] = "dropping" /\ Step(p, "rejected", [win EXCEPT !.d = @ + 1], lp, snap)
Mark(p) ==
  /\ pc[p] = "run"
  /\ Step(p, "admitted", IF out[p] = "s" THEN [win EXCEPT !.s = @ + SW] ELSE [win EXCEPT !.f = @ + 1], lp, snap)

Next == \E p \in Procs : Start(p) \/ ReadWin(p) \/ Decide(p) \/ MarkDrop(p) \/ Mark(p)
Spec == Init /\ [][Next]_vars

Linearisable == \A p \in Procs : pc[p] \in {"dropping", "rejected"} => just[p]
=============================================================================
