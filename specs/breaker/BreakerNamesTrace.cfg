SPECIFICATION NSpec
CONSTANTS
  W = 10000
  Slack = 250
  Protection = 5
  ForcePass = 1000
  HardMin = 100
  HardN = 200
CONSTRAINT HW
POSTCONDITION Accepted
CHECK_DEADLOCK FALSE
