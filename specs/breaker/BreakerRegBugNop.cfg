SPECIFICATION Spec
CONSTANTS
  Procs = {1, 2, 3}
  Names = {"a"}
  MaxCalls = 2
  NopProcs = {3}
  Variant = "outside"
  Ctxs = {"live"}
INVARIANTS NopSticks
CHECK_DEADLOCK FALSE
