SPECIFICATION Spec
CONSTANTS
  Procs = {1, 2, 3, 4}
  Names = {"a", "b"}
  MaxCalls = 1
  NopProcs = {4}
  Variant = "code"
INVARIANTS LawObeyed Accounted NopSticks MutexOK RegAgrees
CHECK_DEADLOCK FALSE
