SPECIFICATION Spec
CONSTANTS
  Procs = {1, 2, 3}
  Names = {"a", "b"}
  MaxCalls = 2
  NopProcs = {}
  Variant = "outside"
  Ctxs = {"live"}
INVARIANTS Accounted
CHECK_DEADLOCK FALSE
