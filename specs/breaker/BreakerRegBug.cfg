SPECIFICATION Spec
CONSTANTS
  Procs = {1, 2, 3}
  Names = {"a", "b"}
  MaxCalls = 2
  NopProcs = {}
  Variant = "outside"
INVARIANTS Accounted
CHECK_DEADLOCK FALSE
