SPECIFICATION ISpec
CONSTANTS
  W = 6
  Slack = 2
  Protection = 1
  ForcePass = 3
  HardMin = 50
  HardN = 99
  NB = 3
  BL = 2
  T0 = 1
  MaxOpen = 1
  MaxOps = 3
  Gaps = {1, 6}
  GApis = {"do", "doAcc", "doFb", "doFbAcc", "allow"}
  GCtxs = {"none", "live", "done"}
  GOuts = {"ok", "err", "accErr", "panic", "unavail", "wrapUnavail", "ctxErr", "panicUnavail"}
  GAccs = {{"ok", "accErr"}, {"ok", "unavail", "wrapUnavail"}}
  Mode = "free"
  Variant = "code"
  Emit = FALSE
  ViewKind = "full"
  PlainFirst = FALSE
INVARIANTS Allowed SumsAgree LastPassAgrees RingShape WellFormed NoCallStuck
VIEW TheView
CHECK_DEADLOCK FALSE
