----------------------------- MODULE BreakerReg -----------------------------
(* Layer I for the by-name entry points of C01: the registry of core/breaker/breakers.go
   (a map guarded by a sync.RWMutex) used by concurrent goroutines, checked against the
   registry law of BreakerNames.tla and against its consequence for the accounting clause
   of the property.

     GetBreaker(name):   lock.RLock(); b, ok := breakers[name]; lock.RUnlock()
                         if ok { return b }
                         lock.Lock()
                         b, ok = breakers[name]                     -- the re-check
                         if !ok { b = NewBreaker(); breakers[name] = b }
                         lock.Unlock(); return b
     Do*(name, ...):     b := GetBreaker(name); b.Do*(...)          -- one record in b's window
     Do*Ctx(ctx, name, ...): b := GetBreaker(name); b.Do*Ctx(ctx, ...)  -- the caller's context is handed
                         on: b short-circuits on a done context and then records nothing
     NoBreakerFor(name): lock.Lock(); breakers[name] = NopBreaker(); lock.Unlock()

   A breaker is represented by its identity (1, 2, ... in order of creation) and by the
   number of calls on record in it (`rec`); what a single breaker does with its calls is
   Breaker.tla / BreakerImpl.tla.  Each process performs up to MaxCalls by-name calls on
   names of its choice, each on a context of its choice out of Ctxs ("live" stands for a
   live context and for the entry points without one, "done" for a context that is already
   done); processes in NopProcs may also call NoBreakerFor.  Every step of
   the pseudo-code above is one action, so TLC explores every interleaving, in particular
   several goroutines between the failed read-locked lookup and the store.

   Checked:
     LawObeyed  every GetBreaker return, in the order of the returns, satisfies GetOK of
                BreakerNames.tla (one breaker per name, distinct breakers for distinct
                names) -- the same operator the trace specification applies to the
                identities the real GetBreaker returned;
     Accounted  the by-name calls made so far through name n on a live context -- all of them,
                and nothing else: a call on a done context touches nothing (Breaker.tla,
                DecideSkip) -- are on record in the breaker registered under n (the accounting
                clause for by-name calls: "a by-name call IS that call on the breaker of its
                name", with the context the caller supplied);
     NopSticks  a by-name call that starts after NoBreakerFor(n) returned uses the
                never-rejecting breaker (registry semantics; design level only).

   Variant "code" is go-zero.  Documented counterexamples: "norecheck" (the write-locked
   section stores a new breaker without looking again) and "outside" (the breaker is
   built before taking the write lock and stored unconditionally): goroutines that miss
   together each get their own breaker, the last store wins, the calls recorded in the
   others are orphaned; "dropctx" (a by-name Ctx function that delegates to the breaker's
   method without the context: done-context calls are admitted / rejected and recorded).  *)
EXTENDS Integers, FiniteSets, TLC, BreakerNames

CONSTANTS Procs, Names, MaxCalls, NopProcs, Variant, Ctxs

ASSUME Variant \in {"code", "norecheck", "outside", "dropctx"} /\ NopProcs \subseteq Procs
ASSUME Ctxs # {} /\ Ctxs \subseteq {"live", "done"}

MaxInst == Cardinality(Procs) * MaxCalls

VARIABLES
  map,      \* the Go map `breakers`: name |-> 0 (absent) | breaker identity
  rd, wr,   \* the RWMutex: processes holding the read lock; process holding the write lock (0: none)
  made,     \* breakers created so far (identities 1..made)
  nops,     \* identities that are NopBreakers
  pc, nm, b, left, late,  \* per process: control point, name in hand, local b, operations left,
            \*              "NoBreakerFor(nm) had returned when this call started"
  cx,       \* per process: the context the caller supplied for the call in hand
  rec,      \* identity |-> calls on record in that breaker
  byName,   \* name |-> by-name calls made through it (their record step done)
  touched,  \* names NoBreakerFor was ever called for (outside the law of BreakerNames)
  nopDone,  \* names for which a NoBreakerFor call has returned
  reg,      \* Layer P: the registry as observed through the returns of GetBreaker
  lawOK, nopOK

vars == <<map, rd, wr, made, nops, pc, nm, b, left, late, cx, rec, byName, touched, nopDone, reg, lawOK, nopOK>>

Init ==
  /\ map = [n \in Names |-> 0] /\ rd = {} /\ wr = 0 /\ made = 0 /\ nops = {}
  /\ pc = [p \in Procs |-> "idle"] /\ nm = [p \in Procs |-> CHOOSE n \in Names : TRUE]
  /\ b = [p \in Procs |-> 0] /\ left = [p \in Procs |-> MaxCalls] /\ late = [p \in Procs |-> FALSE]
  /\ cx = [p \in Procs |-> "live"]
  /\ rec = [i \in 1..MaxInst |-> 0] /\ byName = [n \in Names |-> 0]
  /\ touched = {} /\ nopDone = {} /\ reg = EmptyReg /\ lawOK = TRUE /\ nopOK = TRUE

Goto(p, l) == pc' = [pc EXCEPT ![p] = l]
Keep(vs) == UNCHANGED vs

\* ---------------------------------------------------------------- Do*(name, ...) = GetBreaker + one record
Begin(p, n, c) ==
  /\ pc[p] = "idle" /\ left[p] > 0 /\ c \in Ctxs
  /\ cx' = [cx EXCEPT ![p] = c]
  /\ nm' = [nm EXCEPT ![p] = n] /\ left' = [left EXCEPT ![p] = @ - 1]
  /\ late' = [late EXCEPT ![p] = n \in nopDone] /\ b' = [b EXCEPT ![p] = 0]
  /\ Goto(p, "rlock")
  /\ Keep(<<map, rd, wr, made, nops, rec, byName, touched, nopDone, reg, lawOK, nopOK>>)

RLock(p) ==
  /\ pc[p] = "rlock" /\ wr = 0
  /\ rd' = rd \cup {p} /\ Goto(p, "look")
  /\ Keep(<<map, wr, made, nops, nm, b, left, late, cx, rec, byName, touched, nopDone, reg, lawOK, nopOK>>)

Look(p) ==
  /\ pc[p] = "look"
  /\ b' = [b EXCEPT ![p] = map[nm[p]]] /\ Goto(p, "runlock")
  /\ Keep(<<map, rd, wr, made, nops, nm, left, late, cx, rec, byName, touched, nopDone, reg, lawOK, nopOK>>)

RUnlock(p) ==
  /\ pc[p] = "runlock"
  /\ rd' = rd \ {p}
  /\ Goto(p, IF b[p] # 0 THEN "ret" ELSE IF Variant = "outside" THEN "create" ELSE "lock")
  /\ Keep(<<map, wr, made, nops, nm, b, left, late, cx, rec, byName, touched, nopDone, reg, lawOK, nopOK>>)

\* variant "outside" only: NewBreaker() before the write lock
Create(p) ==
  /\ pc[p] = "create"
  /\ made' = made + 1 /\ b' = [b EXCEPT ![p] = made + 1] /\ Goto(p, "lock")
  /\ Keep(<<map, rd, wr, nops, nm, left, late, cx, rec, byName, touched, nopDone, reg, lawOK, nopOK>>)

Lock(p) ==
  /\ pc[p] = "lock" /\ wr = 0 /\ rd = {}
  /\ wr' = p /\ Goto(p, "crit")
  /\ Keep(<<map, rd, made, nops, nm, b, left, late, cx, rec, byName, touched, nopDone, reg, lawOK, nopOK>>)

Crit(p) ==
  /\ pc[p] = "crit"
  /\ CASE Variant = "code" /\ map[nm[p]] # 0 ->
            b' = [b EXCEPT ![p] = map[nm[p]]] /\ Keep(<<map, made>>)
       [] Variant = "outside" ->
            map' = [map EXCEPT ![nm[p]] = b[p]] /\ Keep(<<b, made>>)
       [] OTHER ->
            made' = made + 1 /\ b' = [b EXCEPT ![p] = made + 1] /\ map' = [map EXCEPT ![nm[p]] = made + 1]
  /\ Goto(p, "unlock")
  /\ Keep(<<rd, wr, nops, nm, left, late, cx, rec, byName, touched, nopDone, reg, lawOK, nopOK>>)

Unlock(p) ==
  /\ pc[p] = "unlock"
  /\ wr' = 0 /\ Goto(p, "ret")
  /\ Keep(<<map, rd, made, nops, nm, b, left, late, cx, rec, byName, touched, nopDone, reg, lawOK, nopOK>>)

\* GetBreaker returns b[p]: the law of BreakerNames, applied in the order of the returns
Ret(p) ==
  /\ pc[p] = "ret"
  /\ IF nm[p] \in touched THEN Keep(<<reg, lawOK>>)
     ELSE lawOK' = (lawOK /\ GetOK(reg, nm[p], b[p])) /\ reg' = GetEff(reg, nm[p], b[p])
  /\ Goto(p, "use")
  /\ Keep(<<map, rd, wr, made, nops, nm, b, left, late, cx, rec, byName, touched, nopDone, nopOK>>)

\* the call on the breaker obtained, with the context that reached it: a done context is
\* short-circuited (nothing recorded), otherwise one record in *that* breaker's window.
\* byName counts what the law says the call leaves behind: one record iff the CALLER's context is live.
Use(p) ==
  /\ pc[p] = "use"
  /\ LET seen == IF Variant = "dropctx" THEN "live" ELSE cx[p] IN
       rec' = [rec EXCEPT ![b[p]] = @ + (IF seen = "done" THEN 0 ELSE 1)]
  /\ byName' = [byName EXCEPT ![nm[p]] = @ + (IF cx[p] = "done" THEN 0 ELSE 1)]
  /\ nopOK' = (nopOK /\ (late[p] => b[p] \in nops))
  /\ cx' = [cx EXCEPT ![p] = "live"]
  /\ Goto(p, "idle")
  /\ Keep(<<map, rd, wr, made, nops, nm, b, left, late, touched, nopDone, reg, lawOK>>)

\* ---------------------------------------------------------------- NoBreakerFor(name)
NBegin(p, n) ==
  /\ p \in NopProcs /\ pc[p] = "idle" /\ left[p] > 0
  /\ nm' = [nm EXCEPT ![p] = n] /\ left' = [left EXCEPT ![p] = @ - 1]
  /\ touched' = touched \cup {n} /\ Goto(p, "nlock")
  /\ Keep(<<map, rd, wr, made, nops, b, late, cx, rec, byName, nopDone, reg, lawOK, nopOK>>)

NLock(p) ==
  /\ pc[p] = "nlock" /\ wr = 0 /\ rd = {}
  /\ wr' = p /\ Goto(p, "ncrit")
  /\ Keep(<<map, rd, made, nops, nm, b, left, late, cx, rec, byName, touched, nopDone, reg, lawOK, nopOK>>)

NCrit(p) ==
  /\ pc[p] = "ncrit"
  /\ made' = made + 1 /\ nops' = nops \cup {made + 1} /\ map' = [map EXCEPT ![nm[p]] = made + 1]
  /\ Goto(p, "nunlock")
  /\ Keep(<<rd, wr, nm, b, left, late, cx, rec, byName, touched, nopDone, reg, lawOK, nopOK>>)

NUnlock(p) ==
  /\ pc[p] = "nunlock"
  /\ wr' = 0 /\ nopDone' = nopDone \cup {nm[p]} /\ Goto(p, "idle")
  /\ Keep(<<map, rd, made, nops, nm, b, left, late, cx, rec, byName, touched, reg, lawOK, nopOK>>)

Next ==
  \E p \in Procs :
    \/ \E n \in Names : NBegin(p, n) \/ \E c \in Ctxs : Begin(p, n, c)
    \/ RLock(p) \/ Look(p) \/ RUnlock(p) \/ Create(p) \/ Lock(p) \/ Crit(p) \/ Unlock(p) \/ Ret(p) \/ Use(p)
    \/ NLock(p) \/ NCrit(p) \/ NUnlock(p)

Spec == Init /\ [][Next]_vars

\* ---------------------------------------------------------------- properties
LawObeyed == lawOK
Accounted ==
  \A n \in Names \ touched : byName[n] = (IF map[n] = 0 THEN 0 ELSE rec[map[n]])
NopSticks == nopOK
MutexOK == (wr # 0 => rd = {}) /\ made <= MaxInst
\* the registry as observed agrees with the map, and the map is injective on its breakers
RegAgrees ==
  /\ \A n \in DOMAIN reg : n \notin touched => map[n] = reg[n]
  /\ \A n, m \in Names : (n # m /\ map[n] # 0) => map[n] # map[m]
=============================================================================
