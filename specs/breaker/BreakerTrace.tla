---------------------------- MODULE BreakerTrace ----------------------------
(* Trace validation for C01: the events recorded from the real breaker (core/breaker,
   and in the thorough tier the REST / zRPC / sqlx wrappers around it) must be a
   behaviour of Breaker.tla.

   Logged events (harness order = one total order):
     reset{t,fair,eager}  adv{d}  callStart{c,api,ctx,acc}  reqStart{c}  reqEnd{c,out}  fbRun{c}
     callEnd{c,ret,pan}  pStart{c,how}  pEnd{c}  obs{w:<<succ,fail,drop>>}
   Not logged, inferred by TLC: the admission decision of a call (between its callStart
   and whatever it does next) and the record of an admitted call (between reqEnd/pStart
   and callEnd/pEnd).

   reset{eager: TRUE} (stress driver: one burst of hundreds of truly parallel calls on a
   fresh breaker at a fixed clock, all succeeding or all failing) fixes the placement of
   the unlogged steps instead of searching for it -- the decision directly before the
   call's next logged event, the record directly after reqEnd / pStart.  For those traces
   that placement is as good as any: with successes only nothing ever throttles; with
   failures only every reject has at least Protection+1 failures recorded before it whose
   reqEnd is in the log before the reject's own next event, and lastPass (None on a fresh
   breaker, clock fixed) is never due.  Calls on a done context (mixed into the bursts) have
   one possible decision, the skip, which touches nothing wherever it is placed.     *)
EXTENDS Breaker, TraceKit

VARIABLES l, eager
tvars == <<now, lo, recs, tot, lastPass, calls, hard, fair, l, eager>>

E == Trace[l]
RecordPending == \E c \in DOMAIN calls : St(c) \in {"ran", "resolving"}
IsEvent(e) == l <= Len(Trace) /\ E.e = e /\ l' = l + 1 /\ (eager => ~RecordPending)
IsCallEvent(e) == IsEvent(e) /\ UNCHANGED eager
Silent == l <= Len(Trace) /\ UNCHANGED <<l, eager>>
NextIsFor(c) == "c" \in DOMAIN E /\ E.c = c

\* one representative lower edge per distinguishable cut (the counts only change at record times)
RECURSIVE CandFrom(_, _, _)
CandFrom(rs, i, t) ==
  IF i > Len(rs) \/ rs[i].t >= t - W + Slack THEN {}
  ELSE (IF rs[i].t >= t - W + 1 THEN {rs[i].t + 1} ELSE {}) \cup CandFrom(rs, i + 1, t)
CutCands(t) == {t - W + 1} \cup CandFrom(recs, 1, t)

TReset     == IsEvent("reset") /\ Reset(E.t, E.fair) /\ eager' = E.eager
TAdv       == IsCallEvent("adv") /\ \E x \in CutCands(now + E.d) : Advance(E.d, x)
TCallStart == IsCallEvent("callStart") /\ CallStart(E.c, E.api, E.ctx, SeqToSet(E.acc))
TReqStart  == IsCallEvent("reqStart") /\ ReqStart(E.c)
TReqEnd    == IsCallEvent("reqEnd") /\ ReqEnd(E.c, E.out)
TFbRun     == IsCallEvent("fbRun") /\ FbRun(E.c)
TCallEnd   == IsCallEvent("callEnd") /\ (CallEnd(E.c, E.ret, E.pan) \/ (E.pan = "no" /\ AllowEnd(E.c, E.ret)))
TPStart    == IsCallEvent("pStart") /\ PStart(E.c, E.how)
TPEnd      == IsCallEvent("pEnd") /\ PEnd(E.c)
TObs       == IsCallEvent("obs") /\ Observe([s |-> E.w[1], f |-> E.w[2], d |-> E.w[3]])

TDecide == Silent /\ \E c \in DOMAIN calls :
             /\ eager => NextIsFor(c)
             /\ DecideAdmit(c) \/ DecideReject(c) \/ DecideSkip(c)
TRecord == Silent /\ \E c \in DOMAIN calls : Record(c)

TInit == BInit(1, FALSE) /\ l = 1 /\ eager = FALSE
TNext == TReset \/ TAdv \/ TCallStart \/ TReqStart \/ TReqEnd \/ TFbRun \/ TCallEnd
         \/ TPStart \/ TPEnd \/ TObs \/ TDecide \/ TRecord
TSpec == TInit /\ [][TNext]_tvars

HW == HighWater(l)
=============================================================================
