SPECIFICATION Spec
CONSTANTS
  Procs = {1, 2, 3}
  Names = {"a"}
  MaxCalls = 2
  NopProcs = {}
  Variant = "code"
  Ctxs = {"live", "done"}
INVARIANTS LawObeyed Accounted NopSticks MutexOK RegAgrees
CHECK_DEADLOCK FALSE
