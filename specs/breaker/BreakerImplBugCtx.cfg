SPECIFICATION ISpec
CONSTANTS
  W = 6
  Slack = 2
  Protection = 1
  ForcePass = 3
  HardMin = 50
  HardN = 99
  NB = 3
  BL = 2
  T0 = 1
  MaxOpen = 1
  MaxOps = 3
  Gaps = {1, 2, 6}
  GApis = {"do", "doAcc"}
  GCtxs = {"none", "done"}
  GOuts = {"ok", "err"}
  GAccs = {{"ok", "accErr"}}
  Mode = "free"
  Variant = "ctxdrop"
  Emit = FALSE
  ViewKind = "full"
  PlainFirst = FALSE
INVARIANTS Allowed SumsAgree LastPassAgrees RingShape WellFormed NoCallStuck
VIEW TheView
CHECK_DEADLOCK FALSE
