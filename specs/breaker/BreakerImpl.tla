---------------------------- MODULE BreakerImpl ----------------------------
(* Layer I for C01: the algorithm of core/breaker/googlebreaker.go on top of
   core/collection/rollingwindow.go, running in lock-step with the law of Breaker.tla.

     * the window is a ring of NB buckets of BL time units with lazy expiry: `off` is
       the current bucket, `lastTime` its start; expired buckets are cleared by the next
       Add (updateOffset) and skipped by Reduce (span);
     * history() scans the live buckets oldest -> newest: accepts, total, and the run
       lengths failingBuckets / workingBuckets;
     * accept(): weight w = 1.5 - 0.4 * failingBuckets / NB (never below 1.1);
       dropRatio = (total - Protection - w * accepts) / (total + 1); <= 0: admit;
       else if lastPass is older than ForcePass: admit, lastPass = now;
       else drop with probability dropRatio * (NB - workingBuckets) / NB (a free choice
       here: parameter `dec` of IDecide), and an admission sets lastPass = now;
     * doReq / allow+promise: markDrop on reject, exactly one markSuccess / markFailure
       after the request (deferred: a panic is a failure), a done context short-circuits.

   Every step takes the *effect* of the corresponding Breaker.tla action and records in
   `ok` whether its *guard* held; TLC checks  ok  (every decision of the algorithm is
   allowed by the law) and  SumsAgree  (the ring, read the way Reduce reads it, holds
   exactly the records the law counts).

   Mode "free": any interleaving of the steps of up to MaxOpen calls, the clock may move
   at any point.  Mode "steer": only what a harness can steer deterministically (the
   steps of one call run together; the clock moves only while every open call is parked
   inside its request or holds an unresolved promise) -- used to generate behaviours.

   Variant "code" is go-zero; documented counterexamples: "noskip" (Reduce ignores span),
   "index" (updateOffset clears from the wrong bucket), "ctxdrop" (an entry point that
   does not look at / does not forward the caller's context: a done context goes through
   admission like any other), "outerfb" (the fallback is run by a layer around doReq that
   looks at the returned error instead of at the decision: an admitted call whose request
   itself returned (a wrapper of) ErrServiceUnavailable runs the fallback too and hands
   back its result).                                                                  *)
EXTENDS Breaker, Json

CONSTANTS NB, BL, T0, MaxOpen, MaxOps, Gaps, GApis, GCtxs, GOuts, GAccs, Mode, Variant, Emit, ViewKind, PlainFirst

ASSUME W = NB * BL /\ Slack = BL

VARIABLES
  ring,      \* bucket index 0..NB-1 |-> [s, f, d]
  off,       \* index of the current bucket
  lastTime,  \* start time of the current bucket
  ilp,       \* googleBreaker.lastPass (0 = never)
  plan,      \* call id |-> what its request will do (the coin is a parameter of IDecide)
  ok,        \* every step so far was allowed by Breaker.tla
  nc,        \* operations so far: calls started + clock moves (a bound only; not in the VIEW)
  hist       \* operation history (test generation; hidden by the VIEW)

ivars == <<ring, off, lastTime, ilp, plan, ok, nc>>
vars == <<bvars, ivars, hist>>

\* ---------------------------------------------------------------- rolling window
Span == LET o == (now - lastTime) \div BL IN IF o < NB THEN o ELSE NB

\* the buckets Reduce visits, oldest first
Live ==
  IF Variant = "noskip" THEN [i \in 1..NB |-> ring[(off + i) % NB]]
  ELSE [i \in 1..(NB - Span) |-> ring[(off + Span + i) % NB]]

RECURSIVE SumSeq(_, _)
SumSeq(v, i) == IF i > Len(v) THEN Zero3 ELSE Plus3(v[i], SumSeq(v, i + 1))
ISums == SumSeq(Live, 1)

RECURSIVE Scan(_, _, _)
Scan(v, i, a) ==
  IF i > Len(v) THEN a
  ELSE LET b == v[i] IN
       Scan(v, i + 1,
            [accepts |-> a.accepts + b.s, total |-> a.total + Total(b),
             working |-> IF b.f > 0 THEN 0 ELSE IF b.s > 0 THEN a.working + 1 ELSE a.working,
             failing |-> IF b.s > 0 THEN 0 ELSE IF b.f > 0 THEN a.failing + 1 ELSE a.failing])
IHist == Scan(Live, 1, [accepts |-> 0, total |-> 0, working |-> 0, failing |-> 0])

\* Add(kind): updateOffset, then add into the current bucket
IAdd(k) ==
  LET sp == Span
      first == IF Variant = "index" THEN off ELSE off + 1
      cleared == [j \in 0..(NB - 1) |->
                    IF \E i \in 0..(sp - 1) : j = (first + i) % NB THEN Zero3 ELSE ring[j]]
      off2 == (off + sp) % NB
  IN /\ ring' = [cleared EXCEPT ![off2] = Plus3(@, Unit3(k))]
     /\ off' = off2
     /\ lastTime' = IF sp > 0 THEN now - ((now - lastTime) % BL) ELSE lastTime

\* ---------------------------------------------------------------- accept()
\* dropRatio > 0 with w = (15 NB - 4 failing) / (10 NB)
IThrottle(h) == (h.total - Protection) * 10 * NB > (15 * NB - 4 * h.failing) * h.accepts
IDue == ilp > 0 /\ now - ilp > ForcePass
ICanDrop(h) == IThrottle(h) /\ ~IDue /\ h.working < NB

\* lower edge of the window the ring implements
ILo(t) == T0 + (((t - T0) \div BL) - (NB - 1)) * BL

Transient(c) == St(c) \notin {"running", "promise"}
Quiet == \A c \in DOMAIN calls : ~Transient(c)
\* in mode "steer" a call in a transient state is the only one that may move
MayMove(c) == Mode = "free" \/ \A x \in DOMAIN calls : Transient(x) => x = c

\* ---------------------------------------------------------------- steps
IInit ==
  /\ BInit(T0, FALSE)
  /\ ring = [j \in 0..(NB - 1) |-> Zero3] /\ off = 0 /\ lastTime = T0 /\ ilp = 0
  /\ plan = <<>> /\ ok = TRUE /\ nc = 0 /\ hist = <<>>

IAdvance(d) ==
  /\ Mode = "free" \/ Quiet
  /\ AdvanceEff(d, ILo(now + d))
  /\ ok' = (ok /\ AdvanceOK(d, ILo(now + d)))
  /\ nc' = nc + 1
  /\ UNCHANGED <<ring, off, lastTime, ilp, plan>>
  /\ hist' = Append(hist, [op |-> "adv", d |-> d])

\* callStart and the admission decision (accept()) -- the call is logged in hist here
IDecide(c, api, ctx, acc, out, dec) ==
  /\ c \in 1..MaxOpen /\ c \notin DOMAIN calls /\ \A x \in 1..(c - 1) : x \in DOMAIN calls
  /\ Mode = "free" \/ Quiet
  \* PlainFirst: a call through anything but Do / no context / ok-or-error is the last operation
  \* of a generated history (keeps "every entry point from every situation" affordable)
  /\ nc' = IF PlainFirst /\ ~(api = "do" /\ ctx = "none" /\ out \in {"ok", "err"}) THEN MaxOps ELSE nc + 1
  /\ plan' = [x \in DOMAIN plan \cup {c} |-> IF x = c THEN out ELSE plan[x]]
  /\ hist' = Append(hist, [op |-> "start", c |-> c, api |-> api, ctx |-> ctx, out |-> out,
                           acc |-> acc, pref |-> IF dec = "reject" THEN 0 ELSE 1,
                           how |-> IF out = "ok" THEN "accept" ELSE "reject"])
  /\ LET call == [api |-> api, ctx |-> ctx, acc |-> acc, st |-> "started", out |-> "none"]
         with(st) == [x \in DOMAIN calls \cup {c} |-> IF x = c THEN [call EXCEPT !.st = st] ELSE calls[x]]
         h == IHist
     IN IF ctx = "done" /\ Variant # "ctxdrop"
          THEN /\ calls' = with("skipped")
               /\ UNCHANGED <<now, lo, recs, tot, lastPass, hard, fair, ring, off, lastTime, ilp, ok>>
        ELSE IF ICanDrop(h) /\ dec = "reject"
          THEN /\ calls' = with("rejected")                       \* RejectEff, on the new call
               /\ recs' = AddRec(recs, "d") /\ tot' = Plus3(tot, Unit3("d")) /\ hard' = HardStep(TRUE)
               /\ UNCHANGED <<now, lo, lastPass, fair, ilp>>
               /\ IAdd("d")
               /\ ok' = (ok /\ RejectOK /\ CtxLive(call))
        ELSE LET set == IThrottle(h)
                 lp == IF set THEN now ELSE lastPass
             IN /\ calls' = with("admitted")                      \* AdmitEff, on the new call
                /\ lastPass' = lp /\ hard' = HardStep(FALSE)
                /\ UNCHANGED <<now, lo, recs, tot, fair, ring, off, lastTime>>
                /\ ilp' = IF set THEN now ELSE ilp
                /\ ok' = (ok /\ lp \in LastPassAfterAdmit /\ CtxLive(call))

IReqStart(c) ==
  /\ MayMove(c) /\ ReqStart(c)
  /\ UNCHANGED <<ivars, hist>>

\* the request returns (the harness opened the gate); the deferred mark follows
IReqEnd(c) ==
  /\ MayMove(c) /\ ReqEnd(c, plan[c])
  /\ UNCHANGED ivars
  /\ hist' = Append(hist, [op |-> "release", c |-> c])

IRecord(c) ==
  /\ MayMove(c) /\ Record(c)
  /\ IAdd(IF CountsAsSuccess(calls[c]) THEN "s" ELSE "f")
  /\ UNCHANGED <<ilp, plan, ok, nc, hist>>

\* the request's error looks like the breaker's own rejection
LooksUnavail(out) == out \in {"unavail", "wrapUnavail"}

\* doReq runs the fallback in the reject branch only; in variant "outerfb" an outer layer also
\* runs it when an admitted, recorded call comes back with an error that Is ErrServiceUnavailable
\* (the effect is taken, the law's guard -- FbRun is for rejected calls -- is checked)
IFbRun(c) ==
  /\ MayMove(c)
  /\ \/ FbRun(c) /\ UNCHANGED ok
     \/ /\ Variant = "outerfb"
        /\ c \in DOMAIN calls /\ St(c) = "recorded" /\ HasFallback(calls[c].api) /\ LooksUnavail(calls[c].out)
        /\ calls' = [calls EXCEPT ![c].st = "fbran"]
        /\ ok' = (ok /\ FbOK(c))
        /\ UNCHANGED <<now, lo, recs, tot, lastPass, hard, fair>>
  /\ UNCHANGED <<ring, off, lastTime, ilp, plan, nc, hist>>

\* what the code hands back
IRet(call) ==
  CASE call.st = "recorded" -> IF IsPanic(call.out) THEN <<"none", "same">>
                               ELSE <<IF call.out = "ok" THEN "nil" ELSE "same", "no">>
    [] call.st = "rejected" -> <<"unavail", "no">>
    [] call.st = "fbran"    -> <<"fb", "no">>
    [] call.st = "skipped"  -> <<"ctx", "no">>
    [] OTHER                -> <<"?", "?">>

ICallEnd(c) ==
  /\ c \in DOMAIN calls /\ MayMove(c) /\ calls[c].api # "allow"
  /\ St(c) \in {"recorded", "fbran", "skipped"} \/ (St(c) = "rejected" /\ ~HasFallback(calls[c].api))
  /\ ~(Variant = "outerfb" /\ St(c) = "recorded" /\ HasFallback(calls[c].api) /\ LooksUnavail(calls[c].out))
  /\ ok' = (ok /\ ReturnOK(calls[c], IRet(calls[c])[1], IRet(calls[c])[2]))
  /\ calls' = Drop(calls, c)
  /\ UNCHANGED <<now, lo, recs, tot, lastPass, hard, fair, ring, off, lastTime, ilp, plan, nc, hist>>

IAllowEnd(c) ==
  /\ c \in DOMAIN calls /\ MayMove(c) /\ calls[c].api = "allow"
  /\ St(c) \in {"admitted", "rejected", "skipped"}
  /\ AllowEnd(c, IF St(c) = "admitted" THEN "promise" ELSE IRet(calls[c])[1])
  /\ UNCHANGED <<ivars, hist>>

IPStart(c) ==
  /\ MayMove(c) /\ PStart(c, IF plan[c] = "ok" THEN "accept" ELSE "reject")
  /\ UNCHANGED ivars
  /\ hist' = Append(hist, [op |-> "release", c |-> c])

IPEnd(c) ==
  /\ MayMove(c) /\ PEnd(c)
  /\ UNCHANGED <<ivars, hist>>

INext ==
  \/ nc < MaxOps /\ \E d \in Gaps : IAdvance(d)      \* MaxOps bounds clock moves + calls started
  \/ nc < MaxOps /\ \E api \in GApis, ctx \in GCtxs, out \in GOuts, dec \in {"admit", "reject"} :
          \E acc \in (IF HasAcceptable(api) THEN GAccs ELSE {{}}) :
            /\ api = "allow" => out \in {"ok", "err"}
            /\ \E c \in 1..MaxOpen : IDecide(c, api, ctx, acc, out, dec)
  \/ \E c \in DOMAIN calls :
          IReqStart(c) \/ IReqEnd(c) \/ IRecord(c) \/ IFbRun(c) \/ ICallEnd(c)
          \/ IAllowEnd(c) \/ IPStart(c) \/ IPEnd(c)

ISpec == IInit /\ [][INext]_vars

\* ---------------------------------------------------------------- what TLC checks
Allowed == ok
SumsAgree == ISums = InWin
LastPassAgrees ==
  /\ (ilp = 0) <=> (lastPass = None)
  /\ lastPass = Stale => now - ilp > ForcePass
  /\ lastPass > 0 => ilp = lastPass
RingShape ==
  /\ off \in 0..(NB - 1) /\ lastTime <= now /\ (lastTime - T0) % BL = 0
  /\ \A j \in 0..(NB - 1) : ring[j].s >= 0 /\ ring[j].f >= 0 /\ ring[j].d >= 0
\* a probe that is due is never refused: a consequence of Allowed, stated on its own
NoCallStuck == \A c \in DOMAIN calls : St(c) # "started"

\* ---------------------------------------------------------------- test generation
\* states that differ only by a shift in time (and the matching rotation of the ring) or
\* by the plans of finished calls behave alike: the VIEW identifies them
Rel(t) == IF t > 0 THEN t - now ELSE t + 1000
View == <<[i \in 1..Len(recs) |-> [t |-> recs[i].t - now, c |-> recs[i].c]], lo - now, Rel(lastPass),
          calls, hard, [i \in 0..(NB - 1) |-> ring[(off + i) % NB]], lastTime - now,
          IF ilp > 0 /\ now - ilp <= ForcePass THEN now - ilp ELSE IF ilp > 0 THEN ForcePass + 1 ELSE -1,
          [c \in DOMAIN calls |-> plan[c]], ok>>
\* ViewKind "counts": one history per (window counts, lastPass situation, last call variant)
Starts == SelectSeq(hist, LAMBDA e : e.op = "start")
LastStart == IF Len(Starts) = 0 THEN <<>> ELSE Starts[Len(Starts)]
View2 == <<InWin, IF lastPass > 0 THEN 1 ELSE lastPass, calls, [c \in DOMAIN calls |-> plan[c]], LastStart, ok>>
\* "full" keeps the operation count (the bound) in the view: exhaustive up to MaxOps whatever the
\* order in which the workers find the states; "gen" / "counts" drop it (single worker, BFS)
TheView == IF ViewKind = "counts" THEN View2 ELSE IF ViewKind = "gen" THEN View ELSE <<View, nc>>
PrintHist == (Emit /\ Len(hist) > 0 /\ Quiet) => PrintT("TRACE " \o ToJson(hist))
=============================================================================
