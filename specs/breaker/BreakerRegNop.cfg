SPECIFICATION Spec
CONSTANTS
  Procs = {1, 2, 3}
  Names = {"a", "b"}
  MaxCalls = 2
  NopProcs = {3}
  Variant = "code"
  Ctxs = {"live"}
INVARIANTS LawObeyed Accounted NopSticks MutexOK RegAgrees
CHECK_DEADLOCK FALSE
