SPECIFICATION Spec
CONSTANTS
  Procs = {1, 2, 3, 4}
  Protection = 1
  Outs = {"f"}
  LpInit = "due"
  F0 = 2
  S0 = 0
  SW = 10
  Running = {4}
INVARIANT Linearisable
CHECK_DEADLOCK FALSE
