------------------------- MODULE BreakerNamesTrace -------------------------
(* Trace validation for the by-name entry points of C01: events recorded from goroutines
   that use breakers only through breaker.Do*(name, ...) / GetBreaker(name) (or through the
   zRPC interceptors built on them), several names per trace, the first uses of every name
   racing with each other.

   On top of the events of BreakerTrace.tla:
     reset{..., focus}    which name's breaker this validation run follows
     <any call event>{..., n}   the event belongs to a call made through name n
     get{n, i}            GetBreaker(n) returned the breaker with identity i (identities are
                          numbered by the harness in order of first appearance)
     obs{n, w}            window sums of the breaker GetBreaker(n) returns now

   Law (BreakerNames.tla): the get events, in log order, satisfy GetOK (one breaker per
   name, distinct breakers for distinct names); the events of the calls made through the
   focus name, together with the obs events of that name, are a behaviour of ONE breaker
   (Breaker.tla, through the actions of BreakerTrace.tla); events of calls made through
   other names do not touch it.  The runner validates every trace once per name in it.  *)
EXTENDS BreakerTrace, BreakerNames

VARIABLES reg, focus
nvars == <<tvars, reg, focus>>

HasName == "n" \in DOMAIN E
Mine == HasName => E.n = focus
KeepN == UNCHANGED <<reg, focus>>

NReset == TReset /\ focus' = E.focus /\ reg' = EmptyReg

NGet ==
  /\ IsCallEvent("get")
  /\ GetOK(reg, E.n, E.i) /\ reg' = GetEff(reg, E.n, E.i)
  /\ UNCHANGED <<bvars, focus>>

\* an event of a call made through another name: not this breaker's business
NSkip ==
  /\ l <= Len(Trace) /\ E.e \notin {"reset", "get"} /\ HasName /\ E.n # focus
  /\ (eager => ~RecordPending)
  /\ l' = l + 1 /\ UNCHANGED <<bvars, eager>> /\ KeepN

NMine ==
  /\ l <= Len(Trace) /\ Mine
  /\ \/ TAdv \/ TCallStart \/ TReqStart \/ TReqEnd \/ TFbRun \/ TCallEnd \/ TPStart \/ TPEnd \/ TObs
  /\ KeepN

NSilent == (TDecide \/ TRecord) /\ KeepN

NInit == TInit /\ reg = EmptyReg /\ focus = ""
NNext == NReset \/ NGet \/ NSkip \/ NMine \/ NSilent
NSpec == NInit /\ [][NNext]_nvars
=============================================================================
