SPECIFICATION Spec
CONSTANTS
  Procs = {1, 2}
  Names = {"a"}
  MaxCalls = 1
  NopProcs = {}
  Variant = "dropctx"
  Ctxs = {"live", "done"}
INVARIANTS Accounted
CHECK_DEADLOCK FALSE
