------------------------------ MODULE Breaker ------------------------------
(* Layer P for property C01: what a circuit breaker may do, phrased over observable
   events only (API calls, the harness-supplied request / fallback / acceptability
   callbacks, the harness-controlled clock) plus the number of calls the breaker has
   on record for the preceding window.

   The law (property statement):
     * a call is REJECTED only when, among the calls recorded in the preceding window
       of W time units, the non-accepted ones (failures + rejections) exceed
       Protection plus 10 % of the accepted ones  -- "Throttle";
     * while throttling, a call that arrives more than ForcePass after the previous
       throttled admission is always ADMITTED                       -- "Due";
     * a rejected call never runs the request, runs the fallback (if any) exactly once
       and is recorded as one rejection; an admitted call runs the request exactly
       once, returns its result unchanged (a panic is re-raised) and is recorded
       exactly once, as a success iff the acceptability predicate accepts the result;
     * a call whose context is already done when it is made returns the context error
       and touches nothing (no request, no fallback, nothing recorded) -- whichever way
       the breaker was reached: its own methods, the by-name functions, a wrapper;
     * "returns its error unchanged" and "the fallback runs for rejected calls only" hold
       for EVERY error value of the request, in particular for one that is or wraps the
       breaker's own ErrServiceUnavailable (a second, open breaker further down) or a
       context error: what the request returned never turns an admitted call into a
       rejected one;
     * under sustained total failure the overwhelming majority of calls is rejected
       (counting clause, see "hard" below).

   Freedom the statement leaves open is a nondeterministic choice here:
     * admitting is always allowed (the implementation drops at random);
     * the lower edge `lo` of "the preceding window" may be anywhere in
       (now-W, now-W+Slack]  (an implementation that keeps its records in buckets of
       Slack time units cannot do better); it is chosen whenever the clock moves;
     * an admission in a state that throttles for the 10 % weight but would not for a
       heavier weight may or may not count as "throttled admission" (lastPass).     *)
EXTENDS Integers, Sequences, FiniteSets, TLC

CONSTANTS
  W,           \* window length                                  (10 s)
  Slack,       \* granularity of the window's lower edge          (250 ms)
  Protection,  \* non-accepted calls that never justify a reject  (5)
  ForcePass,   \* probing interval while throttling               (1 s)
  HardMin,     \* a state is "hard" when accepts = 0 and total >= HardMin ...
  HardN        \* ... of >= HardN decisions taken in hard states at least half are rejects

VARIABLES
  now,       \* the clock
  lo,        \* lower edge of the window for the current clock value: records with t >= lo count
  recs,      \* <<[t, c]>> strictly increasing in t: what was recorded at time t, c = [s, f, d]
  tot,       \* sum of all c in recs (kept incrementally)
  lastPass,  \* None: no throttled admission yet; Stale: one, more than ForcePass ago; else its time
  calls,     \* calls in progress: id |-> [api, ctx, acc, st, out]
  hard,      \* <<decisions taken in hard states, rejects among them>>
  fair       \* the implementation's own coin is in use (the counting clause presumes it)

bvars == <<now, lo, recs, tot, lastPass, calls, hard, fair>>

None  == 0
Stale == -1

Apis     == {"do", "doAcc", "doFb", "doFbAcc", "allow"}
Ctxs     == {"none", "live", "done"}
\* what a request may do: succeed, fail with an ordinary error ("err", "accErr": two classes
\* the acceptability predicate may tell apart), panic -- and the look-alikes of the breaker's
\* own results: "unavail" (returns ErrServiceUnavailable itself), "wrapUnavail" (returns an
\* error wrapping it), "ctxErr" (returns context.Canceled / DeadlineExceeded although the
\* call's own context is live), "panicUnavail" (panics with ErrServiceUnavailable).
Outcomes == {"ok", "err", "accErr", "panic", "unavail", "wrapUnavail", "ctxErr", "panicUnavail"}
IsPanic(out) == out \in {"panic", "panicUnavail"}
HasFallback(api)   == api \in {"doFb", "doFbAcc"}
HasAcceptable(api) == api \in {"doAcc", "doFbAcc"}

\* ------------------------------------------------------------------ counting
Zero3 == [s |-> 0, f |-> 0, d |-> 0]
Unit3(k) == [s |-> IF k = "s" THEN 1 ELSE 0, f |-> IF k = "f" THEN 1 ELSE 0, d |-> IF k = "d" THEN 1 ELSE 0]
Plus3(a, b)  == [s |-> a.s + b.s, f |-> a.f + b.f, d |-> a.d + b.d]
Minus3(a, b) == [s |-> a.s - b.s, f |-> a.f - b.f, d |-> a.d - b.d]
Total(c) == c.s + c.f + c.d

\* sum of the entries of rs, from index i on, that are older than x
RECURSIVE OlderFrom(_, _, _)
OlderFrom(rs, i, x) ==
  IF i > Len(rs) \/ rs[i].t >= x THEN Zero3 ELSE Plus3(rs[i].c, OlderFrom(rs, i + 1, x))

\* index of the first entry of rs, from i on, with t >= x (Len+1 if none)
RECURSIVE FirstFrom(_, _, _)
FirstFrom(rs, i, x) == IF i > Len(rs) \/ rs[i].t >= x THEN i ELSE FirstFrom(rs, i + 1, x)

CountFrom(x) == Minus3(tot, OlderFrom(recs, 1, x))   \* what is on record with t >= x
InWin == CountFrom(lo)                              \* "the calls recorded in the preceding window"

LoRange(t) == (t - W + 1)..(t - W + Slack)

\* ------------------------------------------------------------------ the law
\* non-accepted > Protection + 10 % of accepted, in integers
Throttle(c)     == 10 * (Total(c) - Protection) > 11 * c.s
\* throttles for every weight >= 1.1 of the accepted calls
MustThrottle(c) == c.s = 0 /\ Total(c) > Protection
Due == lastPass = Stale \/ (lastPass > 0 /\ now - lastPass > ForcePass)

RejectAllowed == Throttle(InWin) /\ ~Due

\* the values lastPass may have after an admission
LastPassAfterAdmit ==
  IF ~Throttle(InWin) THEN {lastPass}
  ELSE IF MustThrottle(InWin) THEN {now}
  ELSE {lastPass, now}

\* counting clause: decisions taken while nothing was accepted in the window, at least
\* HardMin calls are on record and no probe is due
IsHard == InWin.s = 0 /\ Total(InWin) >= HardMin /\ ~Due
HardStep(rej) == IF fair /\ IsHard THEN <<hard[1] + 1, hard[2] + (IF rej THEN 1 ELSE 0)>> ELSE hard
MajorityOK(h) == h[1] >= HardN => 2 * h[2] >= h[1]

AddRec(rs, k) ==
  IF Len(rs) > 0 /\ rs[Len(rs)].t = now
    THEN [rs EXCEPT ![Len(rs)].c = Plus3(@, Unit3(k))]
    ELSE Append(rs, [t |-> now, c |-> Unit3(k)])

CountsAsSuccess(call) == call.out \in (IF HasAcceptable(call.api) THEN call.acc ELSE {"ok"})

St(c) == calls[c].st
\* a call on a context that is already done is neither admitted nor rejected
CtxLive(call) == call.ctx # "done"
Drop(f, c) == [x \in DOMAIN f \ {c} |-> f[x]]

\* ------------------------------------------------------------------ actions
\* Each action is Guard /\ Effect; the two halves are named so that the implementation
\* model (BreakerImpl) can take the effect and *check* the guard instead of assuming it.

BInit(t, fr) ==
  /\ now = t /\ lo = t - W + 1 /\ recs = <<>> /\ tot = Zero3
  /\ lastPass = None /\ calls = <<>> /\ hard = <<0, 0>> /\ fair = fr

\* a fresh breaker created at time t (trace validation: one file holds many histories)
Reset(t, fr) ==
  /\ now' = t /\ lo' = t - W + 1 /\ recs' = <<>> /\ tot' = Zero3
  /\ lastPass' = None /\ calls' = <<>> /\ hard' = <<0, 0>> /\ fair' = fr

\* the clock moves; records older than the window are forgotten; the lower edge is re-chosen
AdvanceOK(d, newlo) == d > 0 /\ newlo \in LoRange(now + d)
AdvanceEff(d, newlo) ==
  LET t == now + d
      bound == t - W + 1
      k == FirstFrom(recs, 1, bound)
  IN /\ now' = t
     /\ lo' = newlo
     /\ recs' = SubSeq(recs, k, Len(recs))
     /\ tot' = Minus3(tot, OlderFrom(recs, 1, bound))
     /\ lastPass' = IF lastPass > 0 /\ t - lastPass > ForcePass THEN Stale ELSE lastPass
     /\ UNCHANGED <<calls, hard, fair>>
Advance(d, newlo) == AdvanceOK(d, newlo) /\ AdvanceEff(d, newlo)

CallStart(c, api, ctx, acc) ==
  /\ c \notin DOMAIN calls
  /\ api \in Apis /\ ctx \in Ctxs /\ acc \subseteq Outcomes
  /\ calls' = [x \in DOMAIN calls \cup {c} |->
                 IF x = c THEN [api |-> api, ctx |-> ctx, acc |-> acc, st |-> "started", out |-> "none"]
                 ELSE calls[x]]
  /\ UNCHANGED <<now, lo, recs, tot, lastPass, hard, fair>>

\* the admission decision (not logged by the harness: it lies between callStart and the
\* first thing the call does next)
AdmitOK(lp) == lp \in LastPassAfterAdmit /\ MajorityOK(HardStep(FALSE))
AdmitEff(c, lp) ==
  /\ lastPass' = lp
  /\ hard' = HardStep(FALSE)
  /\ calls' = [calls EXCEPT ![c].st = "admitted"]
  /\ UNCHANGED <<now, lo, recs, tot, fair>>
DecideAdmit(c) ==
  /\ c \in DOMAIN calls /\ St(c) = "started" /\ CtxLive(calls[c])
  /\ \E lp \in LastPassAfterAdmit : AdmitOK(lp) /\ AdmitEff(c, lp)

RejectOK == RejectAllowed
RejectEff(c) ==
  /\ recs' = AddRec(recs, "d")
  /\ tot' = Plus3(tot, Unit3("d"))
  /\ hard' = HardStep(TRUE)
  /\ calls' = [calls EXCEPT ![c].st = "rejected"]
  /\ UNCHANGED <<now, lo, lastPass, fair>>
DecideReject(c) ==
  /\ c \in DOMAIN calls /\ St(c) = "started" /\ CtxLive(calls[c])
  /\ RejectOK /\ RejectEff(c)

\* a done context short-circuits the call (it is the only thing such a call may do):
\* nothing is touched
DecideSkip(c) ==
  /\ c \in DOMAIN calls /\ St(c) = "started" /\ calls[c].ctx = "done"
  /\ calls' = [calls EXCEPT ![c].st = "skipped"]
  /\ UNCHANGED <<now, lo, recs, tot, lastPass, hard, fair>>

ReqStart(c) ==
  /\ c \in DOMAIN calls /\ St(c) = "admitted" /\ calls[c].api # "allow"
  /\ calls' = [calls EXCEPT ![c].st = "running"]
  /\ UNCHANGED <<now, lo, recs, tot, lastPass, hard, fair>>

ReqEnd(c, out) ==
  /\ c \in DOMAIN calls /\ St(c) = "running" /\ out \in Outcomes
  /\ calls' = [calls EXCEPT ![c].st = "ran", ![c].out = out]
  /\ UNCHANGED <<now, lo, recs, tot, lastPass, hard, fair>>

\* the one record of an admitted call (not logged: between reqEnd / pStart and the return)
RecordEff(c) ==
  LET k == IF CountsAsSuccess(calls[c]) THEN "s" ELSE "f" IN
  /\ recs' = AddRec(recs, k)
  /\ tot' = Plus3(tot, Unit3(k))
  /\ calls' = [calls EXCEPT ![c].st = "recorded"]
  /\ UNCHANGED <<now, lo, lastPass, hard, fair>>
Record(c) ==
  /\ c \in DOMAIN calls /\ St(c) \in {"ran", "resolving"}
  /\ RecordEff(c)

\* the fallback runs for a rejected call only -- whatever the request of an admitted call returned
FbOK(c) == c \in DOMAIN calls /\ St(c) = "rejected" /\ HasFallback(calls[c].api)
FbRun(c) ==
  /\ FbOK(c)
  /\ calls' = [calls EXCEPT ![c].st = "fbran"]
  /\ UNCHANGED <<now, lo, recs, tot, lastPass, hard, fair>>

\* what the caller sees: ret in {"nil","same","unavail","ctx","fb","promise","other"},
\* pan in {"no","same","other"} ("same": the request's own panic value came out again)
ReturnOK(call, ret, pan) ==
  \/ /\ call.st = "recorded" /\ call.api # "allow"
     /\ IF IsPanic(call.out) THEN pan = "same"
        ELSE pan = "no" /\ ret = (IF call.out = "ok" THEN "nil" ELSE "same")
  \/ call.st = "rejected" /\ ~HasFallback(call.api) /\ ret = "unavail" /\ pan = "no"
  \/ call.st = "fbran" /\ pan = "no"           \* the statement does not say what comes back
  \/ call.st = "skipped" /\ ret = "ctx" /\ pan = "no"

CallEnd(c, ret, pan) ==
  /\ c \in DOMAIN calls /\ calls[c].api # "allow"
  /\ ReturnOK(calls[c], ret, pan)
  /\ calls' = Drop(calls, c)
  /\ UNCHANGED <<now, lo, recs, tot, lastPass, hard, fair>>

\* Allow(): an admitted call hands out a promise and stays open until it is resolved
AllowEnd(c, ret) ==
  /\ c \in DOMAIN calls /\ calls[c].api = "allow"
  /\ \/ St(c) = "admitted" /\ ret = "promise" /\ calls' = [calls EXCEPT ![c].st = "promise"]
     \/ St(c) = "rejected" /\ ret = "unavail" /\ calls' = Drop(calls, c)
     \/ St(c) = "skipped" /\ ret = "ctx" /\ calls' = Drop(calls, c)
  /\ UNCHANGED <<now, lo, recs, tot, lastPass, hard, fair>>

PStart(c, how) ==
  /\ c \in DOMAIN calls /\ St(c) = "promise" /\ how \in {"accept", "reject"}
  /\ calls' = [calls EXCEPT ![c].st = "resolving", ![c].out = IF how = "accept" THEN "ok" ELSE "err"]
  /\ UNCHANGED <<now, lo, recs, tot, lastPass, hard, fair>>

PEnd(c) ==
  /\ c \in DOMAIN calls /\ calls[c].api = "allow" /\ St(c) = "recorded"
  /\ calls' = Drop(calls, c)
  /\ UNCHANGED <<now, lo, recs, tot, lastPass, hard, fair>>

\* white-box observation of the breaker's own window sums (no state change)
Observe(w) == w = InWin /\ UNCHANGED bvars

\* ------------------------------------------------------------------ sanity (hold by construction)
RECURSIVE SumFrom(_, _)
SumFrom(rs, i) == IF i > Len(rs) THEN Zero3 ELSE Plus3(rs[i].c, SumFrom(rs, i + 1))

WellFormed ==
  /\ \A i \in 1..Len(recs) : recs[i].t \in (now - W + 1)..now /\ Total(recs[i].c) > 0
  /\ \A i \in 1..(Len(recs) - 1) : recs[i].t < recs[i + 1].t
  /\ tot = SumFrom(recs, 1)
  /\ lo \in LoRange(now)
  /\ lastPass \in {None, Stale} \/ (lastPass \in 1..now /\ now - lastPass <= ForcePass)
  /\ hard[2] <= hard[1]
=============================================================================
