SPECIFICATION ISpec
CONSTANTS
  W = 80
  Slack = 2
  Protection = 1
  ForcePass = 8
  HardMin = 50
  HardN = 99
  NB = 40
  BL = 2
  T0 = 1
  MaxOpen = 1
  MaxOps = 4
  Gaps = {1, 9}
  GApis = {"do", "doAcc", "doFb", "doFbAcc", "allow"}
  GCtxs = {"none", "live", "done"}
  GOuts = {"ok", "err", "unavail", "wrapUnavail", "ctxErr", "panicUnavail"}
  GAccs = {{"ok", "wrapUnavail", "ctxErr"}}
  Mode = "steer"
  Variant = "code"
  Emit = TRUE
  ViewKind = "counts"
  PlainFirst = TRUE
INVARIANTS Allowed SumsAgree PrintHist
VIEW TheView
CHECK_DEADLOCK FALSE
