---------------------------- MODULE BreakerNames ----------------------------
(* Layer P for the by-name entry points of C01 (core/breaker/breakers.go:
   Do / DoCtx / DoWithAcceptable[Ctx] / DoWithFallback[Ctx] / DoWithFallbackAcceptable[Ctx]
   (name, ...) and GetBreaker(name); the zRPC client and server interceptors reach their
   breakers only this way).

   The property statement quantifies over "every breaker" and demands that an admitted
   call "is recorded exactly once" and that rejects are justified by "the calls recorded
   in the preceding window".  For calls made *by name* this only means something if the
   name denotes a breaker:

     * one breaker per name -- whatever GetBreaker(n) returns, to whichever goroutine and
       however early (also to the goroutines racing for the very first use of n), is one
       and the same breaker for the life of the process;
     * different names denote different breakers;
     * a by-name call of name n is a call on that breaker: the calls made through name n
       -- all of them -- are one history of one breaker in the sense of Breaker.tla, and
       calls made through other names are not part of it.

   (NoBreakerFor(n) deliberately replaces the breaker of n by one that never rejects;
   names treated that way are outside this law, see BreakerReg.tla.)

   The registry is a function  reg : registered names -> breaker identities.  This
   module has no variables: the operators are used by the implementation-shaped model
   BreakerReg.tla (which checks them on every interleaving of GetBreaker) and by the
   trace specification BreakerNamesTrace.tla (which checks them on what the real code
   returned).                                                                       *)
EXTENDS Integers, FiniteSets

EmptyReg == [x \in {} |-> 0]

\* GetBreaker(n) returned the breaker with identity i: allowed?
GetOK(reg, n, i) ==
  IF n \in DOMAIN reg THEN reg[n] = i                       \* one breaker per name
  ELSE \A m \in DOMAIN reg : reg[m] # i                     \* different names, different breakers

\* ... and the registry afterwards (the first return registers the name)
GetEff(reg, n, i) ==
  IF n \in DOMAIN reg THEN reg
  ELSE [m \in DOMAIN reg \cup {n} |-> IF m = n THEN i ELSE reg[m]]
=============================================================================
