SPECIFICATION Spec
CONSTANTS
  Procs = {1, 2, 3}
  Names = {"a", "b"}
  MaxCalls = 2
  NopProcs = {}
  Variant = "norecheck"
  Ctxs = {"live"}
INVARIANTS LawObeyed
CHECK_DEADLOCK FALSE
