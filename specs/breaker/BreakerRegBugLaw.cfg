SPECIFICATION Spec
CONSTANTS
  Procs = {1, 2, 3}
  Names = {"a", "b"}
  MaxCalls = 2
  NopProcs = {}
  Variant = "norecheck"
INVARIANTS LawObeyed
CHECK_DEADLOCK FALSE
