SPECIFICATION Spec
CONSTANTS
  Procs = {1, 2, 3}
  Protection = 1
  Outs = {"s", "f"}
  LpInit = "due"
  F0 = 2
  S0 = 0
  SW = 10
  Running = {3}
INVARIANT Linearisable
CHECK_DEADLOCK FALSE
