SPECIFICATION TSpec
CONSTANTS
  StrictWait = FALSE
CONSTRAINT HW
INVARIANTS STypeOK StartedOnlyByStart Returned OwnerStays ListenerOwned
POSTCONDITION Accepted
CHECK_DEADLOCK FALSE
