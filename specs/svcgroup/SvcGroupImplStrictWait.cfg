SPECIFICATION ISpec
CONSTANTS
  StrictWait = TRUE
  S = 0
  Fulls = {TRUE}
  MaxL = 2
  LK = {"wu"}
  NK = {"wu"}
  MaxStop = 0
  MaxNotify = 1
  MaxWait = 1
  WithStart = FALSE
  Variant = "ok"
  Mode = "free"
  Emit = FALSE
  MinCmd = 0
INVARIANTS Refines QuietStable
VIEW View
CHECK_DEADLOCK FALSE
