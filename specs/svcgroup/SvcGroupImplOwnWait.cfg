SPECIFICATION ISpec
CONSTANTS
  StrictWait = TRUE
  S = 0
  Fulls = {TRUE}
  MaxL = 2
  LK = {"sd"}
  NK = {"sd"}
  MaxStop = 0
  MaxNotify = 1
  MaxWait = 1
  WithStart = TRUE
  Variant = "ownwait"
  Mode = "free"
  Emit = FALSE
  MinCmd = 0
INVARIANTS Refines QuietStable DeadEndsAreComplete
VIEW View
CHECK_DEADLOCK FALSE
