SPECIFICATION ISpec
CONSTANTS
  StrictWait = FALSE
  S = 2
  Fulls = {TRUE}
  MaxL = 0
  LK = {}
  NK = {"sd"}
  MaxStop = 2
  MaxNotify = 2
  MaxWait = 0
  WithStart = TRUE
  Variant = "ok"
  Mode = "free"
  Emit = FALSE
  MinCmd = 0
INVARIANTS Refines QuietStable DeadEndsAreComplete STypeOK StartedOnlyByStart Returned OwnerStays ListenerOwned WgCounts ListReversed
VIEW View
CHECK_DEADLOCK FALSE
