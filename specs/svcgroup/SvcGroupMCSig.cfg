SPECIFICATION MSpec
CONSTANTS
  StrictWait = FALSE
  NS = 1
  NL = 1
  NC = 3
  WithSignal = TRUE
INVARIANTS STypeOK StartedOnlyByStart Returned OwnerStays ListenerOwned NeverOwedAgain
PROPERTIES OnceEach QuietAfterReturn StopCovers NotifyCoversP WaitCoversP HookForward
CHECK_DEADLOCK FALSE
