SPECIFICATION ISpec
CONSTANTS
  StrictWait = FALSE
  S = 1
  Fulls = {TRUE}
  MaxL = 1
  LK = {"sd"}
  NK = {"sd"}
  MaxStop = 2
  MaxNotify = 2
  MaxWait = 1
  WithStart = TRUE
  Variant = "ok"
  Mode = "rtc"
  Emit = TRUE
  MinCmd = 3
INVARIANTS Refines QuietStable PrintHist
VIEW View
CHECK_DEADLOCK FALSE
