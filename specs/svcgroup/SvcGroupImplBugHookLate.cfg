SPECIFICATION ISpec
CONSTANTS
  StrictWait = FALSE
  S = 1
  Fulls = {TRUE}
  MaxL = 0
  LK = {}
  NK = {"sd"}
  MaxStop = 0
  MaxNotify = 1
  MaxWait = 0
  WithStart = TRUE
  Variant = "hooklate"
  Mode = "free"
  Emit = FALSE
  MinCmd = 0
INVARIANTS Refines QuietStable
VIEW View
CHECK_DEADLOCK FALSE
