SPECIFICATION ISpec
CONSTANTS
  StrictWait = FALSE
  S = 1
  Fulls = {TRUE}
  MaxL = 0
  LK = {}
  NK = {"sd"}
  MaxStop = 1
  MaxNotify = 0
  MaxWait = 0
  WithStart = TRUE
  Variant = "nowaitstop"
  Mode = "free"
  Emit = FALSE
  MinCmd = 0
INVARIANTS Refines QuietStable
VIEW View
CHECK_DEADLOCK FALSE
