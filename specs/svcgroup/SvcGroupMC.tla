------------------------------ MODULE SvcGroupMC ------------------------------
(* Layer P on its own: the most liberal library -- every event whose guard in SvcGroup.tla holds may happen --
   composed with the most liberal harness, identifiers below the bounds.  Checks that the state invariants and the
   action properties follow from the guards alone (not from the way servicegroup.go / shutdown.go are written: that
   is SvcGroupImpl.tla's job) and, with -coverage, that no guard is unsatisfiable (no dead action).              *)
EXTENDS SvcGroup

CONSTANTS NS, NL, NC, WithSignal      \* services 1..NS, listeners 1..NL, call ids 1..NC (handed out in order)

VARIABLE ncall
mvars == <<svars, ncall>>

MAdd(s)        == AddOK(s) /\ (\E full \in BOOLEAN : AddEff(s, full)) /\ UNCHANGED ncall
MSBegin(s)     == SBeginOK(s) /\ SBeginEff(s) /\ UNCHANGED ncall
MSEnd(s)       == SEndOK(s) /\ SEndEff(s) /\ UNCHANGED ncall
MTBegin(s)     == TBeginOK(s) /\ TBeginEff(s) /\ UNCHANGED ncall
MTEnd(s)       == TEndOK(s) /\ TEndEff(s) /\ UNCHANGED ncall
MLBegin(l, dn) == LBeginOK(l, dn) /\ LBeginEff(l) /\ UNCHANGED ncall
MLEnd(l)       == LEndOK(l) /\ LEndEff(l) /\ UNCHANGED ncall
MStartRet(c)   == StartRetOK(c) /\ StartRetEff(c) /\ UNCHANGED ncall
MStopRet(c)    == StopRetOK(c) /\ StopRetEff(c) /\ UNCHANGED ncall
MAddlRet(c)    == AddlRetOK(c) /\ AddlRetEff(c) /\ UNCHANGED ncall
MNotifyRet(c)  == NotifyRetOK(c) /\ NotifyRetEff(c) /\ UNCHANGED ncall
MWaitRet(c)    == WaitRetOK(c) /\ WaitRetEff(c) /\ UNCHANGED ncall
MSignal        == WithSignal /\ SignalOK /\ SignalEff /\ UNCHANGED ncall

New(c) == c = ncall + 1 /\ c <= NC /\ ncall' = c
MStartCall(c)  == New(c) /\ StartCallOK(c) /\ StartCallEff(c)
MStopCall(c)   == New(c) /\ StopCallOK(c) /\ StopCallEff(c)
MAddlCall(c, l, k) == New(c) /\ AddlCallOK(c, l, k) /\ AddlCallEff(c, l, k)
MNotifyCall(c, k) == New(c) /\ NotifyCallOK(c, k) /\ NotifyCallEff(c, k)
MWaitCall(c, l) == New(c) /\ WaitCallOK(c, l) /\ WaitCallEff(c, l)

MInit == SStart /\ ncall = 0
MNext ==
  \/ \E s \in 1..NS : MAdd(s) \/ MSBegin(s) \/ MSEnd(s) \/ MTEnd(s) \/ MTBegin(s)
  \/ \E c \in 1..NC :
       \/ MStartRet(c) \/ MStopRet(c) \/ MAddlRet(c) \/ MNotifyRet(c) \/ MWaitRet(c)
       \/ MStartCall(c) \/ MStopCall(c)
       \/ \E k \in Kinds : MNotifyCall(c, k) \/ \E l \in 1..NL : MAddlCall(c, l, k)
       \/ \E l \in 1..NL : MWaitCall(c, l)
  \/ \E l \in 1..NL : MLEnd(l) \/ \E dn \in BOOLEAN : MLBegin(l, dn)
  \/ MSignal
MSpec == MInit /\ [][MNext]_mvars

\* ---- action properties --------------------------------------------------------------------------------------
\* exactly once: a callback only moves forward, one step at a time; nothing is forgotten
Forward(f, g) == /\ DOMAIN f \subseteq DOMAIN g
                 /\ \A x \in DOMAIN f : g[x] \in {f[x], f[x] + 1}
OnceEach == [][Forward(sS, sS') /\ Forward(sT, sT') /\ Forward(lcb, lcb')]_mvars
\* StartsAll / quiet: once Start has returned no service Start begins or ends any more
QuietAfterReturn == [][gst = "returned" => (gst' = "returned" /\ sS' = sS)]_mvars
\* StopsAll: a Stop call disappears only when every service is stopped
StopCovers == [][\A c \in DOMAIN calls : (calls[c].op = "stop" /\ c \notin DOMAIN calls') => AllStopped]_mvars
\* NotifyCovers: a notification disappears only when everything it owed and everything it called has returned
NotifyCoversP == [][\A c \in DOMAIN calls : (calls[c].op = "notify" /\ c \notin DOMAIN calls') =>
                      /\ \A l \in calls[c].must : lcb[l] = 2
                      /\ \A l \in Lsn : lcb[l] = 1 => lown[l] # {c}]_mvars
\* WaitCovers
WaitCoversP == [][\A c \in DOMAIN calls : (calls[c].op = "wait" /\ c \notin DOMAIN calls') => lcb[calls[c].l] = 2]_mvars
\* idempotence: a listener that has been called is never owed again
NeverOwedAgain == \A c \in DOMAIN calls : calls[c].op = "notify" =>
                     \A l \in calls[c].must : lcb[l] > 0 \/ lreg[l] = "reg"
\* the hook only becomes more certain; the group's owner never changes
HookForward == [][/\ (hook = "reg" => hook' = "reg") /\ (hook = "maybe" => hook' # "no")
                  /\ (gown # {} => gown' \subseteq gown) /\ (hdone => hdone')]_mvars
=============================================================================
