---------------------------- MODULE SvcGroupTrace ----------------------------
(* Trace validation (extension "svcgroup", host C10): events recorded from a real service.ServiceGroup and the real
   shutdown / wrap-up listener managers of core/proc -- services and listeners are harness callbacks with gates -- must
   be a behaviour of SvcGroup.tla.  One action per event kind = Layer-P guard /\ effect (the event list is in the
   header of SvcGroup.tla).  No silent steps and no choices: what is not observable -- which pending notification called
   a listener, which pending call does the stopping of the group -- is kept as a set of candidates by Layer P.

   "rel" (the harness opens a gate) is recorded for the reader only.  There is deliberately no action for the drivers'
   "stuck" event (a call that the harness has to join is still pending although every goroutine of the experiment is
   parked / a generous watchdog expired): such a trace is rejected.                                              *)
EXTENDS SvcGroup, TraceKit

VARIABLE l
tvars == <<svars, l>>

E == Trace[l]
IsEvent(e) == l <= Len(Trace) /\ E.e = e /\ l' = l + 1

TReset      == IsEvent("reset") /\ SReset
TAdd        == IsEvent("add")        /\ E.kind \in {"full", "start", "starter"} /\ AddOK(E.s) /\ AddEff(E.s, E.kind = "full")
TStartCall  == IsEvent("startCall")  /\ StartCallOK(E.c) /\ StartCallEff(E.c)
TStartRet   == IsEvent("startRet")   /\ StartRetOK(E.c)  /\ StartRetEff(E.c)
TSBegin     == IsEvent("sBegin")     /\ SBeginOK(E.s)    /\ SBeginEff(E.s)
TSEnd       == IsEvent("sEnd")       /\ SEndOK(E.s)      /\ SEndEff(E.s)
TStopCall   == IsEvent("stopCall")   /\ StopCallOK(E.c)  /\ StopCallEff(E.c)
TStopRet    == IsEvent("stopRet")    /\ StopRetOK(E.c)   /\ StopRetEff(E.c)
TTBegin     == IsEvent("tBegin")     /\ TBeginOK(E.s)    /\ TBeginEff(E.s)
TTEnd       == IsEvent("tEnd")       /\ TEndOK(E.s)      /\ TEndEff(E.s)
TAddlCall   == IsEvent("addlCall")   /\ AddlCallOK(E.c, E.l, E.k) /\ AddlCallEff(E.c, E.l, E.k)
TAddlRet    == IsEvent("addlRet")    /\ AddlRetOK(E.c)   /\ AddlRetEff(E.c)
TNotifyCall == IsEvent("notifyCall") /\ NotifyCallOK(E.c, E.k) /\ NotifyCallEff(E.c, E.k)
TNotifyRet  == IsEvent("notifyRet")  /\ NotifyRetOK(E.c) /\ NotifyRetEff(E.c)
TLBegin     == IsEvent("lBegin")     /\ LBeginOK(E.l, E.dn) /\ LBeginEff(E.l)
TLEnd       == IsEvent("lEnd")       /\ E.out \in {"ret", "panic"} /\ LEndOK(E.l) /\ LEndEff(E.l)
TWaitCall   == IsEvent("waitCall")   /\ WaitCallOK(E.c, E.l) /\ WaitCallEff(E.c, E.l)
TWaitRet    == IsEvent("waitRet")    /\ WaitRetOK(E.c)   /\ WaitRetEff(E.c)
TSignal     == IsEvent("signal")     /\ SignalOK /\ SignalEff
TRel        == IsEvent("rel")        /\ UNCHANGED svars
\* (compared with TRUE so that TLC evaluates the guard as a value instead of enumerating its disjunctions)
TQuiet      == IsEvent("quiet")      /\ (QuietOK = TRUE) /\ UNCHANGED svars
TEnd        == IsEvent("end")        /\ (EndOK = TRUE) /\ UNCHANGED svars

TInit == SStart /\ l = 1
TNext == \/ TReset \/ TAdd \/ TStartCall \/ TStartRet \/ TSBegin \/ TSEnd \/ TStopCall \/ TStopRet \/ TTBegin \/ TTEnd
         \/ TAddlCall \/ TAddlRet \/ TNotifyCall \/ TNotifyRet \/ TLBegin \/ TLEnd \/ TWaitCall \/ TWaitRet
         \/ TSignal \/ TRel \/ TQuiet \/ TEnd
TSpec == TInit /\ [][TNext]_tvars

HW == HighWater(l)
=============================================================================
