SPECIFICATION ISpec
CONSTANTS
  StrictWait = FALSE
  S = 0
  Fulls = {TRUE}
  MaxL = 2
  LK = {"sd"}
  NK = {"sd"}
  MaxStop = 0
  MaxNotify = 2
  MaxWait = 1
  WithStart = FALSE
  Variant = "ok"
  Mode = "free"
  Emit = FALSE
  MinCmd = 0
INVARIANTS Refines QuietStable DeadEndsAreComplete STypeOK StartedOnlyByStart Returned OwnerStays ListenerOwned WgCounts ListReversed
VIEW View
CHECK_DEADLOCK FALSE
