SPECIFICATION ISpec
CONSTANTS
  StrictWait = FALSE
  S = 0
  Fulls = {FALSE}
  MaxL = 2
  LK = {"sd", "wu"}
  NK = {"sd", "wu"}
  MaxStop = 0
  MaxNotify = 2
  MaxWait = 1
  WithStart = TRUE
  Variant = "ok"
  Mode = "rtc"
  Emit = TRUE
  MinCmd = 3
INVARIANTS Refines QuietStable PrintHist
VIEW View
CHECK_DEADLOCK FALSE
