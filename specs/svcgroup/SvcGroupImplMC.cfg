SPECIFICATION ISpec
CONSTANTS
  StrictWait = FALSE
  S = 1
  Fulls = {TRUE, FALSE}
  MaxL = 1
  LK = {"sd"}
  NK = {"sd"}
  MaxStop = 1
  MaxNotify = 1
  MaxWait = 1
  WithStart = TRUE
  Variant = "ok"
  Mode = "free"
  Emit = FALSE
  MinCmd = 0
INVARIANTS Refines QuietStable DeadEndsAreComplete STypeOK StartedOnlyByStart Returned OwnerStays ListenerOwned WgCounts ListReversed
VIEW View
CHECK_DEADLOCK FALSE
