SPECIFICATION ISpec
CONSTANTS
  StrictWait = FALSE
  S = 2
  Fulls = {TRUE, FALSE}
  MaxL = 1
  LK = {"sd"}
  NK = {"sd"}
  MaxStop = 1
  MaxNotify = 1
  MaxWait = 1
  WithStart = TRUE
  Variant = "ok"
  Mode = "rtc"
  Emit = TRUE
  MinCmd = 3
INVARIANTS Refines QuietStable PrintHist
VIEW View
CHECK_DEADLOCK FALSE
