------------------------------- MODULE SvcGroup -------------------------------
(* Layer P (extension "svcgroup", host C10): core/service.ServiceGroup together with the shutdown / wrap-up
   listeners of core/proc that it uses (and, underneath both, threading.RoutineGroup).

     service:  "A ServiceGroup is a group of services.  Attention: the starting order of the added services is not
               guaranteed."  Add(service) "adds service into sg" ("push front, stop with reverse order");
               Start() "starts the ServiceGroup ... this method is a blocking one"; Stop() "stops the ServiceGroup";
               Start registers the group with proc.AddShutdownListener, so a shutdown stops the group as well;
               WithStart / WithStarter wrap a start func / a Starter as a Service whose Stop does nothing.
     proc:     AddShutdownListener(fn) / AddWrapUpListener(fn) "adds fn as a shutdown / wrap up listener.  The returned
               func can be used to wait for fn getting called."  Shutdown() "calls the registered shutdown listeners",
               WrapUp() "wraps up the process" (both "only for test purpose"; the real trigger is SIGTERM / SIGINT:
               signals.go closes Done() and gracefulStop notifies the wrap-up and then the shutdown listeners).
               shutdown_test.go: TestShutdown, TestShutdownWithMultipleServices, TestWrapUpWithMultipleServices,
               TestNotifyMoreThanOnce (a second Shutdown / WrapUp calls nobody); servicegroup_test.go: TestServiceGroup*.

   Events (services and listeners are harness callbacks with a gate; call ids c, service ids s and listener ids l are
   handed out by the harness; k = "sd" (shutdown) | "wu" (wrap-up)):
     add(s, kind)                  after ServiceGroup.Add(service s) returned; kind = "full" (a Service) | "start"
                                   (WithStart(func)) | "starter" (WithStarter(Starter)): the wrappers have no Stop to
                                   observe
     startCall(c)  / startRet(c)   around ServiceGroup.Start        stopCall(c)  / stopRet(c)   around ServiceGroup.Stop
     notifyCall(c,k)/ notifyRet(c) around proc.Shutdown / proc.WrapUp
     addlCall(c,l,k)/ addlRet(c)   around proc.AddShutdownListener / proc.AddWrapUpListener for listener l
     waitCall(c,l) / waitRet(c)    around the func that registering l returned
     sBegin(s) / sEnd(s)           first / last statement of service s's Start;   tBegin(s) / tEnd(s)   of its Stop
     lBegin(l, dn) / lEnd(l, out)  first / last statement of listener l; dn = proc.Done() is closed; out = "ret" | "panic"
     signal                        BEFORE the harness sends SIGTERM to the process (the library then notifies on its own)
     quiet                         the harness found every goroutine of the experiment parked (a goroutine snapshot,
                                   not a delay): whatever the library still owes has to be excusable, see Stable
     end                           the harness has released every gate, called Stop, Shutdown and WrapUp once more and
                                   every call has returned

   What is demanded (each clause is a guard below; nothing mentions mutexes, wait groups or goroutines):
     StartsAll     Start calls the Start of every added service, each exactly once, only while Start is in progress;
                   Start returns only when every one of them has returned
     Hooked        from the first service Start on (and from the return of Start), the group is registered for
                   shutdown: a Shutdown called after that returns only when the group has been stopped
     StopsAll      the Stop of every service is called exactly once over the life of the group, only while a Stop call or
                   a shutdown notification that may know the group is in progress; every Stop call (the first as well
                   as later ones) and the notification that did the stopping return only when every service Stop has
                   returned
                   (Add's comment says "push front, stop with reverse order", but doStop hands every Stop to its own
                   goroutine of a RoutineGroup: the calls run concurrently, no order is observable and none is demanded;
                   SvcGroupImpl.tla keeps the list order as an invariant of the model only)
     ListenOnce    a listener is called at most once, only while a notification of its kind is in progress; it may
                   be called by a notification that overlaps its registration
     NotifyCovers  a notification returns only when every listener registered before it was called has been called and
                   has returned (by return or by panic: a panicking listener ends nothing), and every listener it
                   called itself has returned; a later notification calls nobody again (idempotence)
     WaitCovers    the func returned by the registration of l returns only after l returned
     DoneFirst     Done() is closed only after a signal, and it is closed before the signal's notifications call anyone
     Progress      at a 'quiet' event every pending call needs an excuse (Stable): Start - a service Start is still
                   running (all of them have begun), or it waits for a running shutdown notification; Stop - a service
                   Stop is still running (all have begun); a notification / a registration - a listener of that kind
                   (or the stopping of the group) is running, and every listener the notification owes has begun;
                   a wait - see WaitExcuse.  At 'end' nothing is pending, everything registered was called, every
                   service was stopped.  (The drivers record an event "stuck", for which there is no action, when a
                   call they must join does not return under a generous watchdog.)
   WaitExcuse: the documentation promises "wait for fn getting called".  StrictWait = TRUE reads that per listener (a
   pending wait is excused only while its own listener has not returned).  shutdown.go uses ONE wait group per kind, so
   the returned func waits for every listener of that kind registered so far, including the service group's own hook:
   StrictWait = FALSE (what the trace specification uses) excuses a pending wait while any listener of the kind is
   registered and has not returned.  SvcGroupImplStrictWait.cfg documents the difference as a counterexample.
   Premises of the harness (guards too, so a driver that breaks them is rejected, not the library): Add only before
   the first Start / Stop call; Start at most once; a wait only with a func that a registration has returned; no
   registration from inside a listener (the manager's lock is held while listeners run).                          *)
EXTENDS Integers, Sequences, FiniteSets, TLC

CONSTANT StrictWait

VARIABLES
  added,   \* service ids in Add order
  gst,     \* "new" | "running" (Start called) | "returned"
  hook,    \* the group's shutdown hook: "no" | "maybe" (Start called, registration not yet certain) | "reg"
  hdone,   \* a shutdown notification that certainly covered the hook has returned
  frozen,  \* a Start / Stop call was made: no more Add (premise)
  sS, sT,  \* service |-> 0 not begun | 1 running | 2 returned   (its Start / its Stop)
  gown,    \* the pending calls one of which does the stopping of the group (candidates; {} before the first service Stop)
  lkind,   \* listener |-> "sd" | "wu"
  lreg,    \* listener |-> "adding" (registration call pending) | "reg"
  lcb,     \* listener |-> 0 | 1 | 2
  lown,    \* listener |-> the pending notifications one of which called it (candidates; a notification may own many)
  calls,   \* pending calls: id |-> [op, k, l, must, mh]; ids < 0 are the notifications a signal started
  sig      \* a signal was sent

svars == <<added, gst, hook, hdone, frozen, sS, sT, gown, lkind, lreg, lcb, lown, calls, sig>>
gvars == <<added, gst, hook, hdone, frozen, sS, sT, gown>>
lvars == <<lkind, lreg, lcb, lown>>

EmptyFn == [x \in {} |-> 0]
Put(f, x, y) == [z \in DOMAIN f \cup {x} |-> IF z = x THEN y ELSE f[z]]
Drop(f, x) == [z \in DOMAIN f \ {x} |-> f[z]]
Reverse(s) == [i \in 1..Len(s) |-> s[Len(s) + 1 - i]]
Kinds == {"sd", "wu"}

Svcs == {added[i] : i \in DOMAIN added}
Lsn == DOMAIN lkind
AllStarted == \A s \in Svcs : sS[s] = 2
AllStopped == \A s \in Svcs : sT[s] = 2
Call(op, k, l, must, mh) == [op |-> op, k |-> k, l |-> l, must |-> must, mh |-> mh]
Is(c, op) == c \in DOMAIN calls /\ calls[c].op = op

SStart ==
  /\ added = <<>> /\ gst = "new" /\ hook = "no" /\ hdone = FALSE /\ frozen = FALSE
  /\ sS = EmptyFn /\ sT = EmptyFn /\ gown = {}
  /\ lkind = EmptyFn /\ lreg = EmptyFn /\ lcb = EmptyFn /\ lown = EmptyFn
  /\ calls = EmptyFn /\ sig = FALSE
SReset ==
  /\ added' = <<>> /\ gst' = "new" /\ hook' = "no" /\ hdone' = FALSE /\ frozen' = FALSE
  /\ sS' = EmptyFn /\ sT' = EmptyFn /\ gown' = {}
  /\ lkind' = EmptyFn /\ lreg' = EmptyFn /\ lcb' = EmptyFn /\ lown' = EmptyFn
  /\ calls' = EmptyFn /\ sig' = FALSE

\* ------------------------------------------------------------------ the group
AddOK(s) == ~frozen /\ s \notin Svcs                                           \* premise
\* full: the service has a Stop of its own; a WithStart / WithStarter wrapper's Stop does nothing (stopped from the outset)
AddEff(s, full) ==
  /\ added' = Append(added, s) /\ sS' = Put(sS, s, 0) /\ sT' = Put(sT, s, IF full THEN 0 ELSE 2)
  /\ UNCHANGED <<gst, hook, hdone, frozen, gown, lvars, calls, sig>>

StartCallOK(c) == gst = "new" /\ c \notin DOMAIN calls                        \* premise
StartCallEff(c) ==
  /\ gst' = "running" /\ hook' = "maybe" /\ frozen' = TRUE
  /\ calls' = Put(calls, c, Call("start", "", 0, {}, FALSE))
  /\ UNCHANGED <<added, hdone, sS, sT, gown, lvars, sig>>

SBeginOK(s) == gst = "running" /\ s \in Svcs /\ sS[s] = 0                      \* StartsAll
SBeginEff(s) ==
  /\ sS' = [sS EXCEPT ![s] = 1] /\ hook' = "reg"                               \* Hooked
  /\ UNCHANGED <<added, gst, hdone, frozen, sT, gown, lvars, calls, sig>>
SEndOK(s) == s \in Svcs /\ sS[s] = 1
SEndEff(s) ==
  /\ sS' = [sS EXCEPT ![s] = 2]
  /\ UNCHANGED <<added, gst, hook, hdone, frozen, sT, gown, lvars, calls, sig>>

StartRetOK(c) == Is(c, "start") /\ AllStarted                                  \* StartsAll
StartRetEff(c) ==
  /\ gst' = "returned" /\ hook' = "reg" /\ calls' = Drop(calls, c)             \* Hooked
  /\ UNCHANGED <<added, hdone, frozen, sS, sT, gown, lvars, sig>>

StopCallOK(c) == c \notin DOMAIN calls
StopCallEff(c) ==
  /\ frozen' = TRUE /\ calls' = Put(calls, c, Call("stop", "", 0, {}, FALSE))
  /\ UNCHANGED <<added, gst, hook, hdone, sS, sT, gown, lvars, sig>>

\* calls that may be stopping the group
Stoppers == {c \in DOMAIN calls : \/ calls[c].op = "stop"
                                  \/ calls[c].op = "notify" /\ calls[c].k = "sd" /\ hook # "no"}
\* one call does all the stopping: which one is not observable; the candidates are the calls pending at the first service
\* Stop, a candidate that returns (a notification: only while another candidate is left) is struck off
TBeginOK(s) ==
  /\ s \in Svcs /\ sT[s] = 0                                                   \* StopsAll: exactly once
  /\ IF gown = {} THEN Stoppers # {} ELSE gown \cap Stoppers # {}
TBeginEff(s) ==
  /\ sT' = [sT EXCEPT ![s] = 1] /\ gown' = IF gown = {} THEN Stoppers ELSE gown \cap Stoppers
  /\ UNCHANGED <<added, gst, hook, hdone, frozen, sS, lvars, calls, sig>>
TEndOK(s) == s \in Svcs /\ sT[s] = 1
TEndEff(s) ==
  /\ sT' = [sT EXCEPT ![s] = 2]
  /\ UNCHANGED <<added, gst, hook, hdone, frozen, sS, gown, lvars, calls, sig>>

StopRetOK(c) == Is(c, "stop") /\ AllStopped                                    \* StopsAll
StopRetEff(c) ==
  /\ calls' = Drop(calls, c)
  /\ UNCHANGED <<gvars, lvars, sig>>

\* ------------------------------------------------------------------ listeners
AddlCallOK(c, l, k) == c \notin DOMAIN calls /\ l \notin Lsn /\ k \in Kinds    \* premise
AddlCallEff(c, l, k) ==
  /\ lkind' = Put(lkind, l, k) /\ lreg' = Put(lreg, l, "adding") /\ lcb' = Put(lcb, l, 0) /\ lown' = Put(lown, l, {})
  /\ calls' = Put(calls, c, Call("addl", k, l, {}, FALSE))
  /\ UNCHANGED <<gvars, sig>>
AddlRetOK(c) == Is(c, "addl")
AddlRetEff(c) ==
  /\ lreg' = [lreg EXCEPT ![calls[c].l] = "reg"] /\ calls' = Drop(calls, c)
  /\ UNCHANGED <<gvars, lkind, lcb, lown, sig>>

\* NotifyCovers: the listeners this notification owes = registered (registration returned) and not yet called
Owed(k) == {l \in Lsn : lkind[l] = k /\ lreg[l] = "reg" /\ lcb[l] = 0}
NotifyCallOK(c, k) == c \notin DOMAIN calls /\ k \in Kinds
NotifyCallEff(c, k) ==
  /\ calls' = Put(calls, c, Call("notify", k, 0, Owed(k), k = "sd" /\ hook = "reg"))
  /\ UNCHANGED <<gvars, lvars, sig>>

\* which pending notification calls a listener is not observable: every pending one of its kind is a candidate
Notifiers(k) == {c \in DOMAIN calls : calls[c].op = "notify" /\ calls[c].k = k}
LBeginOK(l, dn) ==
  /\ l \in Lsn /\ lcb[l] = 0                                                   \* ListenOnce
  /\ Notifiers(lkind[l]) # {}
  /\ dn => sig                                                                 \* DoneFirst
  /\ (\A c \in Notifiers(lkind[l]) : c < 0) => dn
LBeginEff(l) ==
  /\ lcb' = [lcb EXCEPT ![l] = 1] /\ lown' = [lown EXCEPT ![l] = Notifiers(lkind[l])]
  /\ UNCHANGED <<gvars, lkind, lreg, calls, sig>>
LEndOK(l) == l \in Lsn /\ lcb[l] = 1
LEndEff(l) ==
  /\ lcb' = [lcb EXCEPT ![l] = 2]
  /\ UNCHANGED <<gvars, lkind, lreg, lown, calls, sig>>

NotifyRetOK(c) ==
  /\ Is(c, "notify") /\ c > 0
  /\ \A l \in calls[c].must : lcb[l] = 2                                       \* NotifyCovers
  /\ \A l \in Lsn : lcb[l] = 1 => lown[l] # {c}                                 \* not the only one that can have called l
  /\ calls[c].mh => AllStopped                                                 \* Hooked
  /\ gown = {c} => AllStopped                                                  \* StopsAll
NotifyRetEff(c) ==
  /\ hdone' = (hdone \/ calls[c].mh) /\ calls' = Drop(calls, c)
  /\ lown' = [l \in Lsn |-> IF lcb[l] = 1 THEN lown[l] \ {c} ELSE lown[l]]
  /\ gown' = IF AllStopped THEN gown ELSE gown \ {c}
  /\ UNCHANGED <<added, gst, hook, frozen, sS, sT, lkind, lreg, lcb, sig>>

WaitCallOK(c, l) == c \notin DOMAIN calls /\ l \in Lsn /\ lreg[l] = "reg"      \* premise
WaitCallEff(c, l) ==
  /\ calls' = Put(calls, c, Call("wait", lkind[l], l, {}, FALSE))
  /\ UNCHANGED <<gvars, lvars, sig>>
WaitRetOK(c) == Is(c, "wait") /\ lcb[calls[c].l] = 2                           \* WaitCovers
WaitRetEff(c) ==
  /\ calls' = Drop(calls, c)
  /\ UNCHANGED <<gvars, lvars, sig>>

\* a signal: the library itself starts one wrap-up (-1) and one shutdown (-2) notification; they never "return"
SignalOK == ~sig /\ -1 \notin DOMAIN calls /\ -2 \notin DOMAIN calls
SignalEff ==
  /\ sig' = TRUE
  /\ calls' = Put(Put(calls, -1, Call("notify", "wu", 0, Owed("wu"), FALSE)),
                  -2, Call("notify", "sd", 0, Owed("sd"), hook = "reg"))
  /\ UNCHANGED <<gvars, lvars>>

\* ------------------------------------------------------------------ Progress
\* a listener of kind k is running, or (shutdown) the stopping of the group is
Busy(k) == \/ \E l \in Lsn : lkind[l] = k /\ lcb[l] = 1
           \/ k = "sd" /\ hook # "no" /\ \E s \in Svcs : sT[s] = 1
WaitExcuse(l) ==
  IF StrictWait THEN lcb[l] < 2
  ELSE \/ \E m \in Lsn : lkind[m] = lkind[l] /\ lcb[m] < 2
       \/ lkind[l] = "sd" /\ hook # "no" /\ ~hdone
CallStable(c) ==
  LET r == calls[c] IN
  CASE r.op = "start"  -> \/ hook = "maybe" /\ Busy("sd")
                          \/ (\A s \in Svcs : sS[s] >= 1) /\ (\E s \in Svcs : sS[s] = 1)
    [] r.op = "stop"   -> (\A s \in Svcs : sT[s] >= 1) /\ (\E s \in Svcs : sT[s] = 1)
    [] r.op = "notify" -> /\ c < 0 \/ Busy(r.k)
                          /\ \A l \in r.must : lcb[l] >= 1
                          /\ r.mh => \A s \in Svcs : sT[s] >= 1
    [] r.op = "addl"   -> Busy(r.k)
    [] r.op = "wait"   -> WaitExcuse(r.l)
    [] OTHER -> FALSE
Stable == \A c \in DOMAIN calls : CallStable(c)
QuietOK == Stable

\* the harness's last phase is over: nothing is pending, nothing is owed
EndOK ==
  /\ \A c \in DOMAIN calls : c < 0 /\ CallStable(c)
  /\ \A l \in Lsn : lreg[l] = "reg" /\ lcb[l] = 2
  /\ AllStopped
  /\ gst # "running" /\ (gst = "returned" => AllStarted)

\* ------------------------------------------------------------------ state invariants (follow from the guards)
STypeOK ==
  /\ gst \in {"new", "running", "returned"} /\ hook \in {"no", "maybe", "reg"}
  /\ hdone \in BOOLEAN /\ frozen \in BOOLEAN /\ sig \in BOOLEAN
  /\ DOMAIN sS = Svcs /\ DOMAIN sT = Svcs /\ Len(added) = Cardinality(Svcs)
  /\ \A s \in Svcs : sS[s] \in 0..2 /\ sT[s] \in 0..2
  /\ DOMAIN lreg = Lsn /\ DOMAIN lcb = Lsn /\ DOMAIN lown = Lsn
  /\ \A l \in Lsn : lkind[l] \in Kinds /\ lreg[l] \in {"adding", "reg"} /\ lcb[l] \in 0..2
  /\ \A c \in DOMAIN calls : calls[c].op \in {"start", "stop", "notify", "addl", "wait"}
\* a service runs only while / after the group was started; the group is hooked as soon as one runs
StartedOnlyByStart == \A s \in Svcs : sS[s] > 0 => (gst # "new" /\ hook = "reg")
Returned == gst = "returned" => (AllStarted /\ \A c \in DOMAIN calls : calls[c].op # "start")
\* whoever owns the stopping is still there while a service Stop has not returned
OwnerStays == (\E s \in Svcs : sT[s] = 1) => gown \cap DOMAIN calls # {}
\* a called listener has an owner of its kind; a running one's owner is still pending
ListenerOwned == \A l \in Lsn : lcb[l] = 1 => (lown[l] # {} /\ \A c \in lown[l] : Is(c, "notify"))
=============================================================================
