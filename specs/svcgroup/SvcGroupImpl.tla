----------------------------- MODULE SvcGroupImpl -----------------------------
(* Layer I: core/service/servicegroup.go, core/proc/shutdown.go (listenerManager) and threading.RoutineGroup as
   written, against the guards of SvcGroup.tla.

     sg.Add(svc):   sg.services = append([]Service{svc}, sg.services...)            (push front)
     sg.Start():    proc.AddShutdownListener(func() { sg.stopOnce() });  doStart()
     doStart():     group := NewRoutineGroup(); for each service: group.Run(service.Start); group.Wait()
     sg.Stop():     sg.stopOnce()      (syncx.Once = sync.Once: the first caller runs doStop, callers that arrive
                                        meanwhile block until it is done, later callers return at once)
     doStop():      group := NewRoutineGroup(); for each service: group.Run(service.Stop); group.Wait()
     addListener(fn):   lm.waitGroup.Add(1); lock; listeners = append(listeners, {defer waitGroup.Done(); fn()}); unlock;
                        return func() { lm.waitGroup.Wait() }
     notifyListeners(): lock; group := NewRoutineGroup(); for each listener: group.RunSafe(listener); group.Wait();
                        listeners = nil; unlock
     RoutineGroup.Run(fn): wg.Add(1); go { defer wg.Done(); fn() }      Wait(): wg.Wait()

   There is one listenerManager per kind ("sd" shutdown, "wu" wrap-up); entry 0 of the shutdown manager's list stands for
   the hook that Start registers.  Every callback (service Start / Stop, listener) is a harness function that reports
   its begin, blocks at a gate until the environment releases it, and reports its end.

   Environment: Add, Start, Stop, Shutdown / WrapUp, the registrations, the wait funcs, the gate releases.
   Mode = "free": everything interleaves (model checking).
   Mode = "rtc":  the environment moves only when the library cannot (generation of environment schedules; hist).
   Variant = "ok"
           | "nowaitstop"   doStop does not wait for the service Stop calls                   (StopsAll)
           | "noonce"       Stop runs doStop every time                                       (StopsAll: exactly once)
           | "hooklate"     Start registers the shutdown hook after it started the services  (Hooked)
           | "noclear"      notifyListeners does not forget the listeners it called           (ListenOnce)
           | "nowaitnotify" notifyListeners does not wait for the listeners                   (NotifyCovers)
           | "ownwait"      every registration has its own wait group (the per-listener reading of the documentation;
                            satisfies StrictWait = TRUE, the code as written does not)
   A step whose Layer-P guard fails is recorded in viol (invariant Refines) and the run is not continued.  At every
   quiescent state (no library step enabled) the Progress clause of Layer P must hold (invariant QuietStable).   *)
EXTENDS SvcGroup, Json

CONSTANTS S, Fulls, MaxL, LK, NK, MaxStop, MaxNotify, MaxWait, WithStart, Variant, Mode, Emit, MinCmd

VARIABLES
  isvc,          \* sg.services
  ifull,         \* the services that have a Stop of their own (the others are WithStart / WithStarter wrappers)
  pc,            \* pending call |-> program counter
  spc, tpc,      \* service |-> goroutine running its Start / its Stop: "none" | "ready" | "gate" | "done"
  once, doer,    \* sync.Once of the group: "free" | "busy" | "done"; the call on whose behalf doStop runs
  lock,          \* kind |-> call holding lm.lock (0: free)
  lsts,          \* kind |-> lm.listeners (0 = the group's hook)
  wg,            \* kind |-> lm.waitGroup counter
  batch,         \* notification |-> the entries it is running
  lpc,           \* listener |-> its goroutine: "none" | "ready" | "gate" | "done"
  ldone,         \* listener |-> its wrapper has called waitGroup.Done (only read by Variant "ownwait")
  hpc, hby,      \* the hook's goroutine: "none" | "ready" | "wait" | "fin" | "done"; the notification that started it
  nl, nstop, nnot, nwait,
  viol, hist, ncmd

gside == <<isvc, ifull, spc, tpc, once, doer>>
lside == <<lock, lsts, wg, batch, lpc, ldone, hpc, hby>>
cnt   == <<nl, nstop, nnot, nwait>>
ivars == <<isvc, ifull, pc, spc, tpc, once, doer, lock, lsts, wg, batch, lpc, ldone, hpc, hby, nl, nstop, nnot, nwait>>
vars  == <<svars, ivars, viol, hist, ncmd>>

Ss == 1..S
\* call ids by kind of call (the harness hands them out in call order; Layer P does not care)
Cids == 1..(1 + MaxStop + MaxNotify + MaxL + MaxWait)
IdStart == 1
IdStop(i) == 1 + i
IdNotify(i) == 1 + MaxStop + i
IdAddl(l) == 1 + MaxStop + MaxNotify + l
IdWait(i) == 1 + MaxStop + MaxNotify + MaxL + i
Ls == 1..MaxL
ISvcs == {isvc[i] : i \in DOMAIN isvc}

IInit ==
  /\ SStart
  /\ isvc = <<>> /\ ifull = {} /\ pc = EmptyFn
  /\ spc = [s \in Ss |-> "none"] /\ tpc = [s \in Ss |-> "none"] /\ once = "free" /\ doer = 0
  /\ lock = [k \in Kinds |-> 0] /\ lsts = [k \in Kinds |-> <<>>] /\ wg = [k \in Kinds |-> 0]
  /\ batch = EmptyFn /\ lpc = [l \in Ls |-> "none"] /\ ldone = [l \in Ls |-> FALSE] /\ hpc = "none" /\ hby = 0
  /\ nl = 0 /\ nstop = 0 /\ nnot = 0 /\ nwait = 0
  /\ viol = "" /\ hist = <<>> /\ ncmd = 0

\* (a run is not continued after a failed guard: every action carries viol = "" through Obs / Silent)
Obs(name, ok) == viol = "" /\ viol' = IF ~ok THEN name ELSE viol
\* an observable step: the Layer-P guard is recorded, the Layer-P effect applied (when the guard holds)
Step(name, ok, eff) == Obs(name, ok) /\ IF ok THEN eff ELSE UNCHANGED svars
Silent == viol = "" /\ UNCHANGED <<svars, viol>>
Log(r) == hist' = IF Mode = "rtc" THEN Append(hist, r) ELSE hist
Cmd(r) == Log(r) /\ ncmd' = ncmd + 1          \* (every environment action also carries EnvTurn)
Lib == UNCHANGED <<hist, ncmd>>

\* ------------------------------------------------------------------ ServiceGroup.Start
AfterHook(c) == IF Variant = "hooklate" THEN "wait" ELSE "spawn"
LStartWg(c) ==
  /\ c \in DOMAIN pc /\ pc[c] = "h_wg" /\ pc' = [pc EXCEPT ![c] = "h_reg"]
  /\ wg' = [wg EXCEPT !["sd"] = @ + 1]
  /\ Silent /\ Lib /\ UNCHANGED <<gside, lock, lsts, batch, lpc, ldone, hpc, hby, cnt>>
LStartReg(c) ==
  /\ c \in DOMAIN pc /\ pc[c] = "h_reg" /\ lock["sd"] = 0
  /\ lsts' = [lsts EXCEPT !["sd"] = Append(@, 0)] /\ pc' = [pc EXCEPT ![c] = AfterHook(c)]
  /\ Silent /\ Lib /\ UNCHANGED <<gside, lock, wg, batch, lpc, ldone, hpc, hby, cnt>>
LStartSpawn(c) ==
  /\ c \in DOMAIN pc /\ pc[c] = "spawn"
  /\ spc' = [s \in Ss |-> IF s \in ISvcs THEN "ready" ELSE spc[s]]
  /\ pc' = [pc EXCEPT ![c] = IF Variant = "hooklate" THEN "h_wg" ELSE "wait"]
  /\ Silent /\ Lib /\ UNCHANGED <<isvc, ifull, tpc, once, doer, lside, cnt>>
LStartRet(c) ==
  /\ c \in DOMAIN pc /\ pc[c] = "wait" /\ Is(c, "start")
  /\ \A s \in ISvcs : spc[s] = "done"
  /\ pc' = Drop(pc, c)
  /\ Step("startRet", StartRetOK(c), StartRetEff(c))
  /\ Lib /\ UNCHANGED <<gside, lside, cnt>>

LSBegin(s) ==
  /\ spc[s] = "ready" /\ spc' = [spc EXCEPT ![s] = "gate"]
  /\ Step("sBegin", SBeginOK(s), SBeginEff(s))
  /\ Lib /\ UNCHANGED <<isvc, ifull, pc, tpc, once, doer, lside, cnt>>

\* ------------------------------------------------------------------ stopOnce / doStop
OnceFree == once = "free" \/ Variant = "noonce"
\* (the goroutine that runs a wrapper's empty Stop is not modelled: it reports nothing and returns)
SpawnStops == tpc' = [s \in Ss |-> IF s \in ISvcs \cap ifull THEN "ready" ELSE tpc[s]]
StopsDone == Variant = "nowaitstop" \/ \A s \in ISvcs \cap ifull : tpc[s] = "done"

LStopOnce(c) ==
  /\ c \in DOMAIN pc /\ pc[c] = "once"
  /\ \/ /\ OnceFree /\ once' = "busy" /\ doer' = c /\ SpawnStops
        /\ pc' = [pc EXCEPT ![c] = "dostop"] /\ Silent
     \/ /\ ~OnceFree /\ once = "done" /\ pc' = Drop(pc, c) /\ UNCHANGED <<once, doer, tpc>>
        /\ Step("stopRet", StopRetOK(c), StopRetEff(c))
  /\ Lib /\ UNCHANGED <<isvc, ifull, spc, lside, cnt>>
LStopRet(c) ==
  /\ c \in DOMAIN pc /\ pc[c] = "dostop" /\ StopsDone
  /\ once' = "done" /\ pc' = Drop(pc, c)
  /\ Step("stopRet", StopRetOK(c), StopRetEff(c))
  /\ Lib /\ UNCHANGED <<isvc, ifull, spc, tpc, doer, lside, cnt>>

LTBegin(s) ==
  /\ tpc[s] = "ready" /\ tpc' = [tpc EXCEPT ![s] = "gate"]
  /\ Step("tBegin", TBeginOK(s) /\ doer \in (IF gown = {} THEN Stoppers ELSE gown), TBeginEff(s))
  /\ Lib /\ UNCHANGED <<isvc, ifull, pc, spc, once, doer, lside, cnt>>

\* ------------------------------------------------------------------ listenerManager
Entries(k) == {lsts[k][i] : i \in DOMAIN lsts[k]}
LNotifyLock(c) ==
  /\ c \in DOMAIN pc /\ pc[c] = "lock" /\ Is(c, "notify")
  /\ LET k == calls[c].k  es == Entries(k) IN
       /\ lock[k] = 0 /\ lock' = [lock EXCEPT ![k] = c]
       /\ batch' = Put(batch, c, es)
       /\ lpc' = [l \in Ls |-> IF l \in es THEN "ready" ELSE lpc[l]]
       /\ IF 0 \in es THEN hpc' = "ready" /\ hby' = c ELSE UNCHANGED <<hpc, hby>>
  /\ pc' = [pc EXCEPT ![c] = "run"]
  /\ Silent /\ Lib /\ UNCHANGED <<gside, lsts, wg, ldone, cnt>>
EntryDone(e) == IF e = 0 THEN hpc = "done" ELSE lpc[e] = "done"
LNotifyRet(c) ==
  /\ c \in DOMAIN pc /\ pc[c] = "run"
  /\ Variant = "nowaitnotify" \/ \A e \in batch[c] : EntryDone(e)
  /\ LET k == calls[c].k IN
       /\ lsts' = IF Variant = "noclear" THEN lsts ELSE [lsts EXCEPT ![k] = <<>>]
       /\ lock' = [lock EXCEPT ![k] = 0]
  /\ batch' = Drop(batch, c) /\ pc' = Drop(pc, c)
  /\ Step("notifyRet", NotifyRetOK(c), NotifyRetEff(c))
  /\ Lib /\ UNCHANGED <<gside, wg, lpc, ldone, hpc, hby, cnt>>

Holder(l) == lock[lkind[l]]
LLBegin(l) ==
  /\ lpc[l] = "ready" /\ lpc' = [lpc EXCEPT ![l] = "gate"]
  /\ Step("lBegin", LBeginOK(l, FALSE) /\ Holder(l) \in Notifiers(lkind[l]), LBeginEff(l))
  /\ Lib /\ UNCHANGED <<gside, pc, lock, lsts, wg, batch, ldone, hpc, hby, cnt>>

\* the group's hook: func() { sg.stopOnce() } run as a listener
LHookOnce ==
  /\ hpc = "ready"
  /\ \/ /\ OnceFree /\ once' = "busy" /\ doer' = hby /\ SpawnStops /\ hpc' = "wait"
     \/ /\ ~OnceFree /\ once = "done" /\ hpc' = "fin" /\ UNCHANGED <<once, doer, tpc>>
  /\ Silent /\ Lib /\ UNCHANGED <<isvc, ifull, pc, spc, lock, lsts, wg, batch, lpc, ldone, hby, cnt>>
LHookWait ==
  /\ hpc = "wait" /\ StopsDone /\ once' = "done" /\ hpc' = "fin"
  /\ Silent /\ Lib /\ UNCHANGED <<isvc, ifull, pc, spc, tpc, doer, lock, lsts, wg, batch, lpc, ldone, hby, cnt>>
LHookFin ==
  /\ hpc = "fin" /\ hpc' = "done" /\ wg' = [wg EXCEPT !["sd"] = @ - 1]
  /\ Silent /\ Lib /\ UNCHANGED <<gside, pc, lock, lsts, batch, lpc, ldone, hby, cnt>>

LAddlWg(c) ==
  /\ c \in DOMAIN pc /\ pc[c] = "wg" /\ pc' = [pc EXCEPT ![c] = "reg"]
  /\ wg' = [wg EXCEPT ![calls[c].k] = @ + 1]
  /\ Silent /\ Lib /\ UNCHANGED <<gside, lock, lsts, batch, lpc, ldone, hpc, hby, cnt>>
LAddlRet(c) ==
  /\ c \in DOMAIN pc /\ pc[c] = "reg" /\ lock[calls[c].k] = 0
  /\ lsts' = [lsts EXCEPT ![calls[c].k] = Append(@, calls[c].l)] /\ pc' = Drop(pc, c)
  /\ Step("addlRet", AddlRetOK(c), AddlRetEff(c))
  /\ Lib /\ UNCHANGED <<gside, lock, wg, batch, lpc, ldone, hpc, hby, cnt>>

LWaitRet(c) ==
  /\ c \in DOMAIN pc /\ pc[c] = "wait" /\ Is(c, "wait")
  /\ IF Variant = "ownwait" THEN ldone[calls[c].l] ELSE wg[calls[c].k] = 0
  /\ pc' = Drop(pc, c)
  /\ Step("waitRet", WaitRetOK(c), WaitRetEff(c))
  /\ Lib /\ UNCHANGED <<gside, lside, cnt>>

\* ------------------------------------------------------------------ next-state relation
LibNext ==
  \/ \E c \in Cids : \/ LStartWg(c) \/ LStartReg(c) \/ LStartSpawn(c) \/ LStartRet(c)
                          \/ LStopOnce(c) \/ LStopRet(c) \/ LNotifyLock(c) \/ LNotifyRet(c)
                          \/ LAddlWg(c) \/ LAddlRet(c) \/ LWaitRet(c)
  \/ \E s \in Ss : LSBegin(s) \/ LTBegin(s)
  \/ \E l \in Ls : LLBegin(l)
  \/ LHookOnce \/ LHookWait \/ LHookFin
Quiescent == ~ENABLED LibNext
\* Mode "rtc": the environment moves only when the library cannot
EnvTurn == Mode = "free" \/ Quiescent

\* ------------------------------------------------------------------ environment
EAdd(s) ==
  /\ EnvTurn
  /\ s = Len(isvc) + 1 /\ s <= S /\ ~frozen
  /\ isvc' = <<s>> \o isvc
  /\ \E full \in Fulls :
       /\ ifull' = IF full THEN ifull \cup {s} ELSE ifull
       /\ Step("add", AddOK(s), AddEff(s, full))
       /\ Cmd([cmd |-> "add", s |-> s, full |-> full])
  /\ UNCHANGED <<pc, spc, tpc, once, doer, lside, cnt>>

EStart ==
  /\ EnvTurn
  /\ WithStart /\ gst = "new"
  /\ LET c == IdStart IN
       /\ pc' = Put(pc, c, IF Variant = "hooklate" THEN "spawn" ELSE "h_wg")
       /\ Step("startCall", StartCallOK(c), StartCallEff(c))
  /\ Cmd([cmd |-> "start"])
  /\ UNCHANGED <<gside, lside, cnt>>

EStop ==
  /\ EnvTurn
  /\ nstop < MaxStop /\ nstop' = nstop + 1
  /\ LET c == IdStop(nstop + 1) IN
       /\ pc' = Put(pc, c, "once")
       /\ Step("stopCall", StopCallOK(c), StopCallEff(c))
  /\ Cmd([cmd |-> "stop"])
  /\ UNCHANGED <<gside, lside, nl, nnot, nwait>>

ENotify(k) ==
  /\ EnvTurn
  /\ nnot < MaxNotify /\ nnot' = nnot + 1 /\ k \in NK
  /\ LET c == IdNotify(nnot + 1) IN
       /\ pc' = Put(pc, c, "lock")
       /\ Step("notifyCall", NotifyCallOK(c, k), NotifyCallEff(c, k))
  /\ Cmd([cmd |-> "notify", k |-> k])
  /\ UNCHANGED <<gside, lside, nl, nstop, nwait>>

EAddl(k) ==
  /\ EnvTurn
  /\ nl < MaxL /\ nl' = nl + 1 /\ k \in LK
  /\ LET l == nl + 1  c == IdAddl(l) IN
       /\ pc' = Put(pc, c, "wg")
       /\ Step("addlCall", AddlCallOK(c, l, k), AddlCallEff(c, l, k))
       /\ Cmd([cmd |-> "addl", l |-> l, k |-> k])
  /\ UNCHANGED <<gside, lside, nstop, nnot, nwait>>

EWait(l) ==
  /\ EnvTurn
  /\ nwait < MaxWait /\ nwait' = nwait + 1 /\ l \in Lsn /\ lreg[l] = "reg"
  /\ LET c == IdWait(nwait + 1) IN
       /\ pc' = Put(pc, c, "wait")
       /\ Step("waitCall", WaitCallOK(c, l), WaitCallEff(c, l))
  /\ Cmd([cmd |-> "wait", l |-> l])
  /\ UNCHANGED <<gside, lside, nl, nstop, nnot>>

\* the gates
\* (the released callback reports its end and returns at once: one step)
ERelS(s) ==
  /\ EnvTurn /\ spc[s] = "gate" /\ spc' = [spc EXCEPT ![s] = "done"]
  /\ Step("sEnd", SEndOK(s), SEndEff(s))
  /\ Cmd([cmd |-> "rel", w |-> "s", id |-> s])
  /\ UNCHANGED <<isvc, ifull, pc, tpc, once, doer, lside, cnt>>
ERelT(s) ==
  /\ EnvTurn /\ tpc[s] = "gate" /\ tpc' = [tpc EXCEPT ![s] = "done"]
  /\ Step("tEnd", TEndOK(s), TEndEff(s))
  /\ Cmd([cmd |-> "rel", w |-> "t", id |-> s])
  /\ UNCHANGED <<isvc, ifull, pc, spc, once, doer, lside, cnt>>
ERelL(l) ==
  /\ EnvTurn /\ lpc[l] = "gate" /\ lpc' = [lpc EXCEPT ![l] = "done"] /\ ldone' = [ldone EXCEPT ![l] = TRUE]
  /\ wg' = [wg EXCEPT ![lkind[l]] = @ - 1]
  /\ Step("lEnd", LEndOK(l), LEndEff(l))
  /\ Cmd([cmd |-> "rel", w |-> "l", id |-> l])
  /\ UNCHANGED <<gside, pc, lock, lsts, batch, hpc, hby, cnt>>

EnvNext ==
  \/ \E s \in Ss : EAdd(s) \/ ERelS(s) \/ ERelT(s)
  \/ EStart \/ EStop
  \/ \E k \in Kinds : ENotify(k) \/ EAddl(k)
  \/ \E l \in Ls : EWait(l) \/ ERelL(l)
INext == LibNext \/ EnvNext
ISpec == IInit /\ [][INext]_vars

Refines == viol = ""
\* Progress: whenever the library can do nothing on its own, every pending call has a Layer-P excuse
QuietStable == (viol = "" /\ Quiescent) => Stable

\* no successor at all (every gate was released, the environment's budget is used up): only wait funcs of listeners
\* that nobody notified any more may be pending; no lock is held, no goroutine is left half-way
DeadEndsAreComplete ==
  (viol = "" /\ ~ENABLED INext) =>
    /\ \A c \in DOMAIN pc : calls[c].op = "wait"
    /\ \A k \in Kinds : lock[k] = 0
    /\ \A s \in Ss : spc[s] \in {"none", "done"} /\ tpc[s] \in {"none", "done"}
    /\ \A l \in Ls : lpc[l] \in {"none", "done"}
    /\ hpc \in {"none", "done"} /\ once \in {"free", "done"}
\* the wait group counts exactly the registered entries that have not finished (the hook is entry 0)
WgCounts == Variant \in {"ok", "nowaitstop", "nowaitnotify", "ownwait"} =>
  \A k \in Kinds : wg[k] =
      Cardinality({l \in Lsn : lkind[l] = k /\ ~ldone[l] /\ ~(\E c \in DOMAIN pc : pc[c] = "wg" /\ calls[c].l = l)})
      + (IF k = "sd" /\ hook # "no" /\ hpc # "done" /\ ~(\E c \in DOMAIN pc : pc[c] = "h_wg") THEN 1 ELSE 0)
\* the group's list is the reverse of the Add order ("push front, stop with reverse order": only the goroutines are
\* started in that order, the Stop calls run concurrently)
ListReversed == isvc = Reverse(added)

View == <<svars, ivars, viol, ncmd>>
PrintHist == (Emit /\ Mode = "rtc" /\ Quiescent /\ ncmd >= MinCmd) => PrintT("TRACE " \o ToJson(hist))
=============================================================================
