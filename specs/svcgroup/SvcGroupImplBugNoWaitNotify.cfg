SPECIFICATION ISpec
CONSTANTS
  StrictWait = FALSE
  S = 0
  Fulls = {TRUE}
  MaxL = 1
  LK = {"wu"}
  NK = {"wu"}
  MaxStop = 0
  MaxNotify = 1
  MaxWait = 0
  WithStart = FALSE
  Variant = "nowaitnotify"
  Mode = "free"
  Emit = FALSE
  MinCmd = 0
INVARIANTS Refines QuietStable
VIEW View
CHECK_DEADLOCK FALSE
