SPECIFICATION MSpec
CONSTANTS
  Variant = "both"
  Mode = "csRtOff"
  Size = "quick"
  MaxOps = 0
  Emit = TRUE
INVARIANTS CsCaseSane PrintCase
VIEW View
CHECK_DEADLOCK FALSE
