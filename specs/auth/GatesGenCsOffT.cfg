SPECIFICATION MSpec
CONSTANTS
  Variant = "both"
  Mode = "csOff"
  Size = "thorough"
  MaxOps = 0
  Emit = TRUE
INVARIANTS CsCaseSane PrintCase
VIEW View
CHECK_DEADLOCK FALSE
