SPECIFICATION MSpec
CONSTANTS
  Variant = "firstOnly"
  Mode = "seq"
  Size = "tiny"
  MaxOps = 4
  Emit = FALSE
INVARIANTS TypeOK GateShut Refines HistoryIrrelevant
VIEW View
CHECK_DEADLOCK FALSE
