SPECIFICATION MSpec
CONSTANTS
  Variant = "both"
  Mode = "csMut"
  Size = "quick"
  MaxOps = 0
  Emit = TRUE
INVARIANTS CsCaseSane PrintCase
VIEW View
CHECK_DEADLOCK FALSE
