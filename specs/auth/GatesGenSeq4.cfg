SPECIFICATION MSpec
CONSTANTS
  Variant = "both"
  Mode = "seq"
  Size = "quick"
  MaxOps = 4
  Emit = TRUE
INVARIANTS PrintCase
VIEW View
CHECK_DEADLOCK FALSE
