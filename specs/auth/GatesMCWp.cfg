SPECIFICATION MSpec
CONSTANTS
  Variant = "both"
  Mode = "csWp"
  Size = "quick"
  MaxOps = 6
  Emit = FALSE
INVARIANTS TypeOK WriterContract
VIEW View
CHECK_DEADLOCK FALSE
