SPECIFICATION MSpec
CONSTANTS
  Variant = "both"
  Mode = "csMut2"
  Size = "thorough"
  MaxOps = 0
  Emit = TRUE
INVARIANTS CsCaseSane PrintCase
VIEW View
CHECK_DEADLOCK FALSE
