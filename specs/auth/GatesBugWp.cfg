SPECIFICATION MSpec
CONSTANTS
  Variant = "adoptFirst"
  Mode = "csWp"
  Size = "quick"
  MaxOps = 3
  Emit = FALSE
INVARIANTS WriterContract
VIEW View
CHECK_DEADLOCK FALSE
