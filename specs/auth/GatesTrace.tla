----------------------------- MODULE GatesTrace -----------------------------
(* Trace validation for C18: what the real Authorize / ContentSecurityHandler middleware
   did with each concretised credential must be a behaviour of Gates.tla.

   reset {gate, prev, wire}           a fresh middleware instance / server (prev: previous secret configured;
                                      wire: how it was put together, Gates Part 4 -- [level, chain, use, ropts, decl])
   tick  {d}                          the virtual relative clock advanced by d hours
   jwt   {tok, calls, status, hstatus, sent, seen}
         tok: the symbolic token the driver concretised; calls: how often the protected handler
         ran; status: response code; hstatus: the code the handler writes when it runs;
         sent: every claim of the payload that was transmitted as <<name, JSON text>> pairs sorted by
         name (registered ones included: Gates!Visible decides which names are non-standard);
         seen: the claims found in the handler's context under any of the names sent, the
         registered names and the driver's fixed vocabulary, same form
   cs    {req, calls, status, hstatus, o}
         req: the symbolic signed request; o: body/response identities "<len>:<digest>"
   both  {tok, req, calls, status, hstatus, sent, seen, o}
         one request carrying both credentials to a route that declares both gates                *)
EXTENDS Gates, TraceKit

VARIABLE l
tvars == <<prevCfg, cnt, now, resetAt, resp, wire, l>>

E == Trace[l]
IsEvent(e) == l <= Len(Trace) /\ E.e = e /\ l' = l + 1

TReset == IsEvent("reset") /\ prevCfg' = E.prev /\ cnt' = [cur |-> 0, prev |-> 0] /\ now' = 0 /\ resetAt' = 0
                           /\ resp' = NoResp /\ wire' = E.wire
TTick  == IsEvent("tick") /\ E.d > 0 /\ Tick(E.d)
TJwt   == /\ IsEvent("jwt") /\ wire.decl = "jwt"
          /\ E.calls \in {0, 1}
          /\ JwtReq(E.tok, E.calls = 1, E.hstatus)
          /\ E.status = resp'.status
          /\ E.calls = 1 => ClaimsSeen(E.sent, E.seen)   \* the handler sees the token's non-standard claims
TCs    == /\ IsEvent("cs") /\ wire.decl = "cs"
          /\ E.calls \in {0, 1}
          /\ \/ CsReqAct(E.req, E.calls = 1, E.hstatus, E.status, E.o)
             \/ /\ "KF_CsUnverifiedMethod" \in OpenFindings
                /\ KF_CsUnverifiedMethod(E.req, E.calls = 1, E.status, E.o)
             \/ /\ "KF_CsChunkedCipher" \in OpenFindings
                /\ KF_CsChunkedCipher(E.req, E.calls = 1, E.hstatus, E.status, E.o)

TBoth  == /\ IsEvent("both") /\ wire.decl = "both"
          /\ E.calls \in {0, 1}
          /\ E.req.method \in VerifiedMethods
          /\ BothReq(E.tok, E.req, E.calls = 1, E.hstatus, E.status, E.o)
          /\ E.calls = 1 => ClaimsSeen(E.sent, E.seen)

\* engine-level runs only: the router answered (not found / method not allowed) and the gate was
\* never reached -- routing is C09's business; the protected handler did not run, nothing to demand
TNotRouted == /\ l <= Len(Trace) /\ E.e \in {"jwt", "cs", "both"} /\ l' = l + 1
              /\ wire.level = "engine"
              /\ E.calls = 0 /\ E.status \in {404, 405}
              /\ resp' = [gate |-> "router", calls |-> 0, status |-> E.status]
              /\ UNCHANGED <<prevCfg, cnt, now, resetAt, wire>>

TInit == GInit(FALSE) /\ l = 1
TNext == TReset \/ TTick \/ TJwt \/ TCs \/ TBoth \/ TNotRouted
TSpec == TInit /\ [][TNext]_tvars

HW == HighWater(l)
\* TraceKit's Accepted prints the whole event; these events are long enough for TLC to wrap the
\* value over several lines, so the position is printed on its own (same format, one line)
AcceptedAt ==
  IF TLCGet(1) > Len(Trace) THEN TRUE
  ELSE /\ PrintT(<<"AT", Trace[TLCGet(1)]>>)
       /\ Print(<<"HW", TLCGet(1)>>, FALSE)
=============================================================================
