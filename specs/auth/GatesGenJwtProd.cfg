SPECIFICATION MSpec
CONSTANTS
  Variant = "both"
  Mode = "jwtProd"
  Size = "thorough"
  MaxOps = 0
  Emit = TRUE
INVARIANTS JwtCaseSane PrintCase
VIEW View
CHECK_DEADLOCK FALSE
