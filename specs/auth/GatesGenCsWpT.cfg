SPECIFICATION MSpec
CONSTANTS
  Variant = "both"
  Mode = "csWp"
  Size = "thorough"
  MaxOps = 4
  Emit = TRUE
INVARIANTS CsCaseSane WriterContract PrintCase
VIEW View
CHECK_DEADLOCK FALSE
