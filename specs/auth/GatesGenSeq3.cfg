SPECIFICATION MSpec
CONSTANTS
  Variant = "both"
  Mode = "seq"
  Size = "quick"
  MaxOps = 3
  Emit = TRUE
INVARIANTS PrintCase
VIEW View
CHECK_DEADLOCK FALSE
