SPECIFICATION MSpec
CONSTANTS
  Variant = "both"
  Mode = "csWp"
  Size = "quick"
  MaxOps = 3
  Emit = TRUE
INVARIANTS CsCaseSane WriterContract PrintCase
VIEW View
CHECK_DEADLOCK FALSE
