SPECIFICATION MSpec
CONSTANTS
  Variant = "both"
  Mode = "jwtMut"
  Size = "thorough"
  MaxOps = 0
  Emit = TRUE
INVARIANTS JwtCaseSane PrintCase
VIEW View
CHECK_DEADLOCK FALSE
