------------------------------- MODULE Gates -------------------------------
(* C18 -- authentication gates of go-zero's rest server.

   Part 1  symbolic (Dolev-Yao style) JWTs and what "authorized" means
           (rest/handler/authhandler.go, rest/token/tokenparser.go)
   Part 2  the token parser's history state (per-secret success counters that
           decide which secret is tried first, wiped after a reset period) as an
           implementation-shaped machine; invariant: the verdict never depends on it
   Part 3  symbolic signed requests of the content-security gate and what "pass"
           means (rest/internal/security/contentsecurity.go, strict mode of
           rest/handler/contentsecurityhandler.go), and the encryption round trip
           (rest/handler/cryptionhandler.go); timestamps anywhere on the integer line
           (offsets s*m*2^k + j from the server clock, every k up to 63); the handler's
           response write program and the buffering writer as an implementation-shaped
           machine (invariant: the writer holds exactly what was passed to Write)
   Part 4  the server wiring: how rest/engine.go composes the chain of a route declared
           WithJwt / WithJwtTransition / WithSignature under every chain configuration
           (native middlewares, a user supplied chain, Use middlewares, route options);
           invariant: every declared gate is in the chain; a route that declares both
           gates runs its handler only if both pass

   Cryptography is symbolic: a MAC is a term that names the key and the exact
   text it covers; it verifies under a key iff it is that term.  Strength of the
   primitives is assumed.  Where the property statement leaves the implementation
   free the verdict is "either" and both outcomes are behaviours of the spec.    *)
EXTENDS Integers, Sequences, FiniteSets, TLC

CONSTANT Variant   \* "both": the code as written (ParseToken tries the more successful secret first,
                   \* then the other one; the response writer copies what it is given; bindRoute
                   \* appends the gates to whatever chain the route gets).  Wrong optimisations kept
                   \* as documented counterexamples:
                   \*   "firstOnly"       try only the more successful secret        (GatesBug.cfg)
                   \*   "adoptFirst"      the writer adopts the caller's first slice (GatesBugWp.cfg)
                   \*   "authNativeOnly"  gates appended to the native chain only    (GatesBugWire.cfg)

(***************************************************************************)
(* Part 1.  JWT                                                            *)
(***************************************************************************)
HmacAlgs  == {"HS256", "HS384", "HS512"}
PkAlgs    == {"RS256", "ES256"}                 \* asymmetric: signed with a key made at run time
NoneAlgs  == {"none", "None"}
Algs      == HmacAlgs \cup PkAlgs \cup NoneAlgs \cup {"bogus"}
JKeys     == {"cur", "prev", "other", "empty"}  \* which secret the MAC was made with
TimeCls   == {"absent", "past", "now", "future", "str"}   \* value of exp / nbf / iat relative to the clock
Shapes    == {"ok",
              \* no token in the request
              "missing", "emptyHdr", "bearerOnly",
              \* a token, carried in a non-canonical way
              "noPrefix", "lowerPrefix", "basicPrefix",
              \* malformed
              "twoParts", "fourParts", "badB64", "badJson",
              \* tampered after signing
              "sigFlipBit", "sigFlipLast", "sigTrunc", "sigExtend", "sigEmpty",
              "payloadSwapped", "expSwapped", "hdrSwapped"}

\* -- claims --------------------------------------------------------------
\* The registered claim names (RFC 7519, 4.1) are exactly these seven strings.  JSON member names
\* are case-sensitive and compared as they are, so every other name -- "Sub", "EXP", "iss ",
\* "issuer", "su", "" -- names a private (non-standard) claim, and the handler must see it.
RegisteredNames == {"aud", "exp", "jti", "iat", "iss", "nbf", "sub"}
\* A claim set is characterised by how the names of its private claims relate to the registered
\* names (the driver concretises each class with seeded random members and values):
\*   none      no private claim (registered ones only)
\*   A, B      ordinary names (uid, role, groups, ...), values of every JSON type
\*   caseVar   names that differ from a registered name only in letter case (Sub, ISS, eXp, Jti)
\*   affix     a registered name with something before / after it, or a proper prefix of one
\*             (sub_, _exp, "iss ", subject, issuer, expires, su, jt)
\*   odd       the empty name, names with blanks, punctuation, digits only, JSON keywords, a long name
\*   hdrField  names from the token header and the request's own vocabulary (alg, typ, kid, Authorization)
\*   mixed     members of all the classes at once, next to all seven registered claims
NameClasses == {"plain", "caseVar", "affix", "odd", "hdrField"}
ClaimSets == {"none", "A", "B", "caseVar", "affix", "odd", "hdrField", "mixed"}
ClassesOf(c) == CASE c = "none" -> {}
                  [] c \in {"A", "B"} -> {"plain"}
                  [] c = "mixed" -> NameClasses
                  [] OTHER -> {c, "plain"}
\* claims as sequences of <<name, JSON text of the value>>, sorted by name
Visible(claims) == SelectSeq(claims, LAMBDA p : p[1] \notin RegisteredNames)
\* "on success the non-standard claims are what the handler sees": `sent` is every claim of the
\* payload that arrived, `seen` every claim the handler finds in its context (under any of the
\* names sent, the registered names and a fixed vocabulary)
ClaimsSeen(sent, seen) == Visible(seen) = Visible(sent)

JwtTok == [alg : Algs, key : JKeys, exp : TimeCls, nbf : TimeCls, iat : TimeCls,
           shape : Shapes, claims : ClaimSets]

\* -- the term that goes over the wire ------------------------------------
Payload(t)     == [claims |-> t.claims, exp |-> t.exp, nbf |-> t.nbf, iat |-> t.iat]
NoPayload      == [claims |-> "-", exp |-> "-", nbf |-> "-", iat |-> "-"]
Mac(a, k, h, p) == [t |-> "mac", alg |-> a, key |-> k, hdr |-> h, body |-> p]
NoSig          == [t |-> "nosig",   alg |-> "-", key |-> "-", hdr |-> "-", body |-> NoPayload]
Garbage        == [t |-> "garbage", alg |-> "-", key |-> "-", hdr |-> "-", body |-> NoPayload]
PkSig(a, h, p) == [t |-> "pksig",   alg |-> a,   key |-> "rt", hdr |-> h,  body |-> p]

\* signature the (honest or dishonest) issuer attached: HMAC algorithms MAC the text with
\* the named secret; "none" carries no signature (key = "empty") or an HS256 MAC kept from
\* a valid token; an unknown algorithm name carries an HS256 MAC
IssuedSig(t) ==
  CASE t.alg \in HmacAlgs -> Mac(t.alg, t.key, t.alg, Payload(t))
    [] t.alg \in PkAlgs   -> PkSig(t.alg, t.alg, Payload(t))
    [] t.alg \in NoneAlgs -> IF t.key = "empty" THEN NoSig ELSE Mac("HS256", t.key, t.alg, Payload(t))
    [] OTHER              -> Mac("HS256", t.key, t.alg, Payload(t))

SwapAlg(a)     == IF a = "HS256" THEN "HS384" ELSE "HS256"
OtherClaims(c) == IF c = "A" THEN "B" ELSE "A"

Wire(t) ==
  [carried    |-> t.shape \notin {"missing", "emptyHdr", "bearerOnly"},
   canonical  |-> t.shape \notin {"noPrefix", "lowerPrefix", "basicPrefix"},
   wellformed |-> t.shape \notin {"twoParts", "fourParts", "badB64", "badJson"},
   hdr  |-> IF t.shape = "hdrSwapped" THEN SwapAlg(t.alg) ELSE t.alg,
   body |-> CASE t.shape = "payloadSwapped" -> [Payload(t) EXCEPT !.claims = OtherClaims(@)]
              [] t.shape = "expSwapped"     -> [Payload(t) EXCEPT !.exp = "future2"]
              [] OTHER                      -> Payload(t),
   sig  |-> CASE t.shape \in {"sigFlipBit", "sigFlipLast", "sigTrunc", "sigExtend"} -> Garbage
              [] t.shape = "sigEmpty" -> NoSig
              [] OTHER -> IssuedSig(t)]

\* an HMAC signature verifies under secret s iff it is the MAC, with the algorithm the header
\* names, under s, of exactly the header and payload that arrived
SigVerifies(w, s) == w.hdr \in HmacAlgs /\ w.sig = Mac(w.hdr, s, w.hdr, w.body)

AcceptedKeys(prevConfigured) == IF prevConfigured THEN {"cur", "prev"} ELSE {"cur"}

\* time claims that make the token invalid now (RFC 7519: exp = now is expired, nbf = now
\* is usable); a non-numeric time claim is a malformed token
TimeBad(p) == p.exp \in {"past", "now", "str"} \/ p.nbf \in {"future", "str"} \/ p.iat = "str"

\* "yes": handler must run; "no": 401 and the handler must not run; "either": the statement
\* does not decide (token valid but issued in the future, or carried without "Bearer ")
JwtVerdict(t, prevConfigured) ==
  LET w == Wire(t) IN
  IF ~w.carried \/ ~w.wellformed THEN "no"
  ELSE IF ~\E s \in AcceptedKeys(prevConfigured) : SigVerifies(w, s) THEN "no"
  ELSE IF TimeBad(w.body) THEN "no"
  ELSE IF w.body.iat = "future" \/ ~w.canonical THEN "either"
  ELSE "yes"

Allowed(verdict, ran) == (verdict = "yes" => ran) /\ (verdict = "no" => ~ran)

(***************************************************************************)
(* Part 2.  The parser's history state                                     *)
(***************************************************************************)
VARIABLES
  prevCfg,   \* is a previous secret configured on this middleware instance
  cnt,       \* [cur, prev] success counters (TokenParser.history)
  now,       \* relative clock, hours (timex.Now)
  resetAt,   \* TokenParser.resetTime (never moved by the code: after the first period every
             \* increment wipes the counters -- harmless, modelled as it is)
  resp,      \* the last response: [gate, calls, status]
  wire       \* how the gate of this middleware instance / server was wired (Part 4); never read by a
             \* verdict: what a protected handler may do is the same function of the credential under
             \* every wiring

gvars == <<prevCfg, cnt, now, resetAt, resp, wire>>

ResetDur == 24
NoResp   == [gate |-> "none", calls |-> 0, status |-> 0]

\* wiring of a gate used directly as a middleware (package handler), declaring gate d
DirectWire(d) == [level |-> "handler", chain |-> "none", use |-> 0, ropts |-> FALSE, decl |-> d]

GInit(p) == prevCfg = p /\ cnt = [cur |-> 0, prev |-> 0] /\ now = 0 /\ resetAt = 0 /\ resp = NoResp
            /\ wire = DirectWire("jwt")

\* what one doParseToken call answers for secret s (jwt/v4 as configured by go-zero: accepts
\* the token without / with lower-case "Bearer ", rejects iat in the future)
ParsesUnder(t, s) ==
  LET w == Wire(t) IN
  /\ w.carried /\ w.wellformed /\ t.shape # "basicPrefix"
  /\ SigVerifies(w, s)
  /\ ~TimeBad(w.body) /\ w.body.iat # "future"

First(c)  == IF c.cur > c.prev THEN "cur" ELSE "prev"
Second(c) == IF c.cur > c.prev THEN "prev" ELSE "cur"

ImplAccepts(t, p, c) ==
  IF ~p THEN ParsesUnder(t, "cur")
  ELSE IF Variant = "firstOnly" /\ c[First(c)] > 0 THEN ParsesUnder(t, First(c))
  ELSE ParsesUnder(t, First(c)) \/ ParsesUnder(t, Second(c))

\* incrementCount(s)
Bump(c, s) == LET base == IF resetAt + ResetDur < now THEN [cur |-> 0, prev |-> 0] ELSE c
              IN [base EXCEPT ![s] = @ + 1]

\* Layer P + the bookkeeping: `ran` is what happened (chosen by the model checker from the
\* implementation model, read from the log in trace validation)
JwtReq(t, ran, hstatus) ==
  /\ Allowed(JwtVerdict(t, prevCfg), ran)
  /\ resp' = [gate |-> "jwt", calls |-> IF ran THEN 1 ELSE 0, status |-> IF ran THEN hstatus ELSE 401]
  /\ cnt' = IF ran /\ prevCfg
              THEN IF ParsesUnder(t, First(cnt)) THEN Bump(cnt, First(cnt))
                   ELSE IF ParsesUnder(t, Second(cnt)) THEN Bump(cnt, Second(cnt)) ELSE cnt
              ELSE cnt
  /\ UNCHANGED <<prevCfg, now, resetAt, wire>>

Tick(d) == now' = now + d /\ UNCHANGED <<prevCfg, cnt, resetAt, resp, wire>>

(***************************************************************************)
(* Part 3.  Content security (strict mode) and the encryption round trip   *)
(***************************************************************************)
VerifiedMethods == {"GET", "POST", "PUT", "DELETE"}   \* the methods contentsecurityhandler.go verifies
Methods  == VerifiedMethods \cup {"PATCH", "HEAD", "OPTIONS"}
Paths    == {"p0", "p1", "p0slash"}
Queries  == {"none", "q0", "q1", "q0perm"}            \* q0perm: same pairs as q0, other order
Bodies   == {"none", "b0", "b1", "junk"}              \* junk: signed like any body, but not a ciphertext
TsVals   == {"in", "in2", "inLo", "inHi", "old", "ahead", "nan", "empty"}
InWindow == {"in", "in2", "inLo", "inHi"}             \* |ts - now| <= tolerance (Lo/Hi: near the edges)
\* A timestamp is a decimal integer; the statement quantifies over all of them.  Class "off" places it
\* anywhere on the integer line relative to the server clock: r.off = [s, m, k, j] stands for
\*      ts = now + s * m * 2^k + j * Jit      (s = +-1, m >= 0, 0 <= k <= 63, j in -1..1)
\* i.e. every binary order of magnitude, small odd multiples of it, exactly on it and displaced by almost
\* the tolerance to either side -- the values where fixed-width arithmetic (seconds -> milli/nanoseconds,
\* narrowing to 32 bits, sums next to the ends of the 64-bit range) wraps around.  Values that do not
\* fit 64 bits are still decimal integers far outside the window.  (An "off" timestamp is only ever
\* signed as itself: ts = sts = "off" share r.off; the mutation sets use TsVals.)
TsAll    == TsVals \cup {"off"}
TolS     == 3600                                       \* the tolerance the gates are configured with, seconds
Margin   == 120                                        \* clock skew between signing and verifying the drivers stay clear of
Jit      == TolS - Margin
NoOff    == [s |-> 1, m |-> 0, k |-> 0, j |-> 0]
Offs     == [s : {-1, 1}, m : 0..7, k : 0..63, j : -1..1]
RECURSIVE Pow2(_)
Pow2(k)  == IF k = 0 THEN 1 ELSE 2 * Pow2(k - 1)
AbsI(x)  == IF x < 0 THEN -x ELSE x
\* "in": within tolerance whatever the skew; "out": outside whatever the skew; "edge": the skew decides
OffClass(o) ==
  IF o.m = 0 THEN "in"                                                         \* |j * Jit| <= TolS - Margin
  ELSE IF o.k > 20 THEN "out"                                                  \* m * 2^k >= 2^21 > TolS + Margin + Jit
  ELSE LET d == AbsI(o.s * o.m * Pow2(o.k) + o.j * Jit)
       IN IF d <= TolS - Margin THEN "in" ELSE IF d >= TolS + Margin THEN "out" ELSE "edge"
Fps      == {"A", "B", "unknown", "empty"}            \* A, B: the configured key fingerprints
EncTos   == {"A", "B", "other", "junk", "notB64", "empty"}   \* which RSA key the secret is encrypted to
SecretWf == {"ok", "badKey", "noTime", "noType", "badType"}
SigForms == {"ok", "flipBit", "caseSwap", "trunc", "extend", "empty", "otherKey"}
Lens     == {0, 1, 15, 16, 17, 4096}
\* how the length of the request body reaches the server: announced in a Content-Length header
\* (http.Request.ContentLength = the length), or not announced (Transfer-Encoding: chunked,
\* http.Request.ContentLength = -1: the body ends where the stream ends)
Xfers    == {"sized", "chunked"}
\* How the protected handler produces its response: a program over a buffer it owns and reuses.
\*   fill      load the next piece of the response (r.rlen bytes) into the buffer
\*   write     Write(buffer)                  wpriv   Write(a fresh slice nobody touches again)
\*   scribble  overwrite the buffer (it is the handler's: after Write returned it may do so, io.Writer contract)
\*   wempty    Write(buffer[:0])              flush   http.Flusher.Flush, if the writer offers it
\* <<>>: the response r.rlen bytes long is written from a private slice in r.chunks calls.
WOps     == {"fill", "write", "scribble", "wpriv", "wempty", "flush"}
WritesData(op) == op \in {"write", "wpriv"}
\* Once the handler has flushed, the status line that went out is the business of whatever writer stands
\* in front of the gate (rest's TimeoutHandler lets a flushed response leave with 200 whatever code the
\* handler set): not this property's, so the status of such a response is not constrained here.
Flushes(r) == \E i \in 1..Len(r.wp) : r.wp[i] = "flush"

CsReq == [hdr : {"present", "missing"}, fp : Fps, encTo : EncTos, swf : SecretWf, type : {"plain", "enc"},
          ts : TsAll, method : Methods, path : Paths, query : Queries, body : Bodies,            \* the request
          sform : SigForms, sts : TsAll, smethod : Methods, spath : Paths, squery : Queries,
          sbody : Bodies,                                                                        \* what was signed
          off : Offs,                                                                            \* for ts / sts = "off"
          plen : Lens, rlen : Lens, chunks : {1, 2}, wp : Seq(WOps), xfer : Xfers]

Signed(r) == <<r.sts, r.smethod, r.spath, r.squery, r.sbody>>
Actual(r) == <<r.ts,  r.method,  r.path,  r.query,  r.body>>

\* the signature is the HMAC, under the key inside a secret that is encrypted to the configured
\* RSA key the fingerprint names, of exactly the request's timestamp, method, path, query and
\* body digest, and the timestamp is within tolerance.  The body is the bytes the handler can
\* read, however their length was announced: r.xfer does not occur in this definition; nor does
\* r.wp: what the handler will write decides nothing.
TsClass(r) == IF r.ts = "off" THEN OffClass(r.off) ELSE IF r.ts \in InWindow THEN "in" ELSE "out"
CsPass(r) ==
  /\ r.hdr = "present"
  /\ r.fp \in {"A", "B"} /\ r.encTo = r.fp
  /\ r.swf \notin {"badKey", "noTime"}
  /\ TsClass(r) # "out"
  /\ r.sform = "ok"
  /\ Signed(r) = Actual(r)

HasCipherBody(r) == r.type = "enc" /\ r.body # "none"

CsVerdict(r) ==
  IF ~CsPass(r) THEN "no"
  ELSE IF TsClass(r) = "edge" THEN "either"               \* closer to the edge of the window than the clock skew
  ELSE IF r.swf # "ok" THEN "either"                      \* content type unreadable: not the statement's business
  ELSE IF HasCipherBody(r) /\ r.body = "junk" THEN "either" \* properly signed, but not decryptable
  ELSE "yes"

\* Observations about one request that ran (strings "<len>:<digest>" made by the driver):
\*   wire  body sent            payload  plaintext the client meant
\*   hbody what the handler read
\*   rpay  what the handler wrote: the bytes it passed to Write, as they were when each call was made, in order
\*   rraw  response body on the wire    rdec  rraw decrypted by the client ("fail")
EmptyId == "0:e3b0c44298fc1c14"     \* length 0, first 16 hex digits of sha256("")
RoundTrip(r, o) ==
  IF HasCipherBody(r)
    THEN /\ o.hbody = o.payload
         /\ \/ o.rdec = o.rpay
            \/ o.rpay = EmptyId /\ o.rraw = EmptyId            \* nothing written: nothing to encrypt
  ELSE /\ o.hbody = o.wire                                     \* the handler reads the body that was verified
       /\ IF r.type = "plain" THEN o.rraw = o.rpay
          ELSE o.rraw = o.rpay \/ o.rdec = o.rpay              \* type enc without a body: not constrained

CsReqAct(r, ran, hstatus, status, o) ==
  /\ Allowed(CsVerdict(r), ran)
  /\ ran /\ r.swf = "ok" => RoundTrip(r, o)
  /\ ran /\ ~Flushes(r) => status = hstatus
  /\ resp' = [gate |-> "cs", calls |-> IF ran THEN 1 ELSE 0, status |-> status]
  /\ UNCHANGED <<prevCfg, cnt, now, resetAt, wire>>

\* Known finding: requests whose method is not GET/POST/PUT/DELETE are handed to the protected
\* handler untouched -- no signature verification, no decryption, no response encryption
\* (contentsecurityhandler.go `default:` branch), e.g. a signed GET replayed as PATCH, an
\* unsigned HEAD/OPTIONS/PATCH request, or a correctly signed PATCH whose encrypted body
\* reaches the handler still encrypted.  Enabled only for exactly that: such a method, the
\* handler ran, it read the wire body as sent and its output went out as written.
KF_CsUnverifiedMethod(r, ran, status, o) ==
  /\ r.method \notin VerifiedMethods
  /\ ran
  /\ o.hbody = o.wire /\ o.rraw = o.rpay
  /\ resp' = [gate |-> "cs", calls |-> 1, status |-> status]
  /\ UNCHANGED <<prevCfg, cnt, now, resetAt, wire>>

\* Known finding: a correctly signed request of type "encrypted" whose body length is not
\* announced (chunked) is verified (the signature covers the body) but then handed to the
\* protected handler as it is: the handler reads the ciphertext and its output goes out as written
\* (contentsecurityhandler.go decrypts only `if r.ContentLength > 0`; cryptionhandler.go likewise).
\* Enabled only for exactly that.
ChunkedCipher(r) == r.xfer = "chunked" /\ HasCipherBody(r) /\ CsVerdict(r) # "no"
KF_CsChunkedCipher(r, ran, hstatus, status, o) ==
  /\ ChunkedCipher(r)
  /\ ran /\ status = hstatus
  /\ o.hbody = o.wire /\ o.rraw = o.rpay
  /\ resp' = [gate |-> "cs", calls |-> 1, status |-> status]
  /\ UNCHANGED <<prevCfg, cnt, now, resetAt, wire>>

(***************************************************************************)
(* Part 3b.  The buffering response writer (cryptionResponseWriter)         *)
(***************************************************************************)
\* Contents are symbolic: every fill / scribble gives the handler's buffer a fresh content id, every
\* private slice has its own.  A writer state:
\*   hbuf    content now in the handler's buffer (0: as allocated)     nxt  next fresh id
\*   passed  Layer P: the contents passed to Write, as they were at the time of each call
\*   held    Layer I: what the buffering writer holds -- cells [alias, id]: its own copy of content id,
\*           or (alias) the caller's buffer itself, whose content is whatever the buffer holds *now*
WInit == [hbuf |-> 0, nxt |-> 1, passed |-> <<>>, held |-> <<>>]
HeldView(w) == [i \in 1..Len(w.held) |-> IF w.held[i].alias THEN w.hbuf ELSE w.held[i].id]
WStep(w, op) ==
  CASE op \in {"fill", "scribble"} -> [w EXCEPT !.hbuf = w.nxt, !.nxt = w.nxt + 1]
    [] op = "write" ->
         [w EXCEPT !.passed = Append(@, w.hbuf),
                   !.held = Append(@, IF Variant = "adoptFirst" /\ w.held = <<>>
                                        THEN [alias |-> TRUE, id |-> 0]        \* keeps the caller's slice
                                        ELSE [alias |-> FALSE, id |-> w.hbuf])] \* bytes.Buffer.Write copies
    [] op = "wpriv" ->
         [w EXCEPT !.passed = Append(@, w.nxt), !.held = Append(@, [alias |-> FALSE, id |-> w.nxt]), !.nxt = w.nxt + 1]
    [] OTHER -> w                                                              \* wempty, flush: no data
WRun(prog) == LET RECURSIVE R(_)
                  R(n) == IF n = 0 THEN WInit ELSE WStep(R(n - 1), prog[n])
              IN R(Len(prog))
\* io.Writer: "Write must not retain p".  At every moment -- the deferred flush may come after any
\* step -- what will be encrypted is what the handler wrote; decrypting the symbolic ciphertext of a
\* content sequence gives that sequence back, so this is the response half of RoundTrip.
WContract(w) == HeldView(w) = w.passed

(***************************************************************************)
(* Part 4.  Server wiring (rest/engine.go bindRoute)                        *)
(***************************************************************************)
\* Which chain the route's handler is put behind:
\*   nativeFull / nativeBase / nativeBare   the engine builds the chain from RestConf.Middlewares
\*                                          (all of them / recover, maxbytes, gunzip / none)
\*   custom / customEmpty                   the server was created WithChain(a chain of user middlewares /
\*                                          an empty chain)
\* use: number of middlewares added with Server.Use;  ropts: the route group also carries WithPriority,
\* WithTimeout, WithMaxBytes;  decl: the gates the route group declares.
WChains   == {"nativeFull", "nativeBase", "nativeBare", "custom", "customEmpty"}
NativeCh  == {"nativeFull", "nativeBase", "nativeBare"}
Decls     == {"jwt", "cs", "both"}
WireCfgs  == [level : {"engine"}, chain : WChains, use : 0..2, ropts : BOOLEAN]
WithDecl(c, d) == [level |-> c.level, chain |-> c.chain, use |-> c.use, ropts |-> c.ropts, decl |-> d]
Wirings   == {WithDecl(c, d) : c \in WireCfgs, d \in Decls} \cup {DirectWire(d) : d \in Decls}

NativeOf(c) == CASE c = "nativeFull" -> <<"trace", "log", "prometheus", "maxconns", "breaker", "shedding",
                                          "timeout", "recover", "metrics", "maxbytes", "gunzip">>
                 [] c = "nativeBase" -> <<"recover", "maxbytes", "gunzip">>
                 [] OTHER -> <<>>
GatesOf(d)  == (IF d \in {"jwt", "both"} THEN <<"authorize">> ELSE <<>>) \o
               (IF d \in {"cs", "both"} THEN <<"signature">> ELSE <<>>)
\* Layer I: the middleware chain bindRoute composes in front of the route's handler
ChainOf(w) ==
  IF w.level = "handler" THEN GatesOf(w.decl)
  ELSE LET base == IF w.chain \in NativeCh THEN NativeOf(w.chain)
                   ELSE IF w.chain = "custom" THEN <<"user">> ELSE <<>>
           auth == IF Variant = "authNativeOnly" /\ w.chain \notin NativeCh THEN <<>> ELSE GatesOf(w.decl)
       IN base \o auth \o [i \in 1..w.use |-> "use"]
\* every gate the route declares stands between the client and the handler, whatever the wiring
GateWired(w) == \A i \in 1..Len(GatesOf(w.decl)) : \E j \in 1..Len(ChainOf(w)) : ChainOf(w)[j] = GatesOf(w.decl)[i]

\* A handler behind both gates runs only if both let the request through; it must run when both
\* demand it.  401 is what the JWT gate owes a request without a valid token; when the other gate
\* has its own reason to turn the request away, which of the two answers is not constrained (the
\* statement does not order the gates).
Meet(a, b) == IF a = "no" \/ b = "no" THEN "no" ELSE IF a = "yes" /\ b = "yes" THEN "yes" ELSE "either"
BothReq(t, r, ran, hstatus, status, o) ==
  /\ Allowed(Meet(JwtVerdict(t, prevCfg), CsVerdict(r)), ran)
  /\ ran /\ r.swf = "ok" => RoundTrip(r, o)
  /\ ran /\ ~Flushes(r) => status = hstatus
  /\ ~ran /\ JwtVerdict(t, prevCfg) = "no" /\ CsVerdict(r) = "yes" => status = 401
  /\ resp' = [gate |-> "both", calls |-> IF ran THEN 1 ELSE 0, status |-> status]
  /\ cnt' = IF prevCfg
              THEN IF ParsesUnder(t, First(cnt)) THEN Bump(cnt, First(cnt))
                   ELSE IF ParsesUnder(t, Second(cnt)) THEN Bump(cnt, Second(cnt)) ELSE cnt
              ELSE cnt
  /\ UNCHANGED <<prevCfg, now, resetAt, wire>>

(***************************************************************************)
(* Sanity of the definitions                                               *)
(***************************************************************************)
TypeOK ==
  /\ prevCfg \in BOOLEAN /\ cnt.cur \in Nat /\ cnt.prev \in Nat /\ now \in Nat /\ resetAt \in Nat
  /\ resp.calls \in {0, 1}
  /\ wire \in Wirings
\* when the JWT gate keeps the handler from running the answer is 401
GateShut == resp.gate = "jwt" /\ resp.calls = 0 => resp.status = 401
=============================================================================
