SPECIFICATION TSpec
CONSTANTS
  Variant = "both"
CONSTRAINT HW
INVARIANTS TypeOK GateShut
POSTCONDITION AcceptedAt
CHECK_DEADLOCK FALSE
