SPECIFICATION MSpec
CONSTANTS
  Variant = "both"
  Mode = "seq"
  Size = "quick"
  MaxOps = 4
  Emit = FALSE
INVARIANTS TypeOK GateShut Refines HistoryIrrelevant
VIEW View
CHECK_DEADLOCK FALSE
