SPECIFICATION MSpec
CONSTANTS
  Variant = "both"
  Mode = "seq"
  Size = "thorough"
  MaxOps = 5
  Emit = FALSE
INVARIANTS TypeOK GateShut Refines HistoryIrrelevant
VIEW View
CHECK_DEADLOCK FALSE
