------------------------------ MODULE GatesMC ------------------------------
(* Model checking and case generation for Gates.tla (C18).

   Mode = "seq"  : the parser machine.  Request sequences (tokens signed with the current,
                   the previous, a foreign and the empty secret, expired and tampered ones)
                   interleaved with clock steps that cross the history reset period.  The
                   implementation model (try the more successful secret first) decides; the
                   invariants say that it always decides like JwtVerdict and that no reachable
                   history changes the verdict of any token of the case set.  The same run
                   prints every maximal sequence for replay on the real middleware.
   other modes   : enumerate a case set (every valid credential -- for signed requests with the body
                   length announced and not announced --, every single-field mutation of one incl. every
                   class of private claim names, two-field mutations, full products; "csCc": the requests of
                   finding KF_CsChunkedCipher, kept apart from all other sets) and print each case once;
                   the invariant checked is that the verdict function is total and, for
                   single-field mutations of a valid credential, what the statement demands.
   Mode = "csOff": consistently signed requests whose timestamp lies s*m*2^k + j*Jit seconds from the
                   server clock, for every k in 0..63 (Gates!Offs).
   Mode = "csWp" : the response writer machine (Gates Part 3b).  Every program of the handler over its
                   reused buffer up to MaxOps steps; invariant WriterContract: the buffering writer
                   holds exactly what was passed to it after every step.  The same run prints each
                   program that writes data as a case (a valid plain / encrypted request whose handler
                   answers with that program).
   Mode = "wire" : every server wiring (Gates Part 4) x gate declaration x a core set of credentials
                   (valid ones and the principal invalid ones; for a route that declares both gates the
                   product of the two); invariant Wired: the chain bindRoute composes contains every
                   declared gate.  "wireList": the wirings alone (the other case sets are driven
                   through the engine under each of them in turn). *)
EXTENDS Gates, Json
\* (TLC evaluates constant definitions eagerly at start-up: each large case set below is
\*  guarded by the Mode that uses it so that a run only pays for its own set.)

CONSTANTS MaxOps, Emit, Mode, Size     \* Size: "quick" | "thorough" ("tiny": the sequence tokens only)

VARIABLES trail, g, ws     \* ws: the writer machine's state (Mode "csWp")
mvars == <<prevCfg, cnt, now, resetAt, resp, wire, trail, g, ws>>

(* ---------------------------- JWT case sets ---------------------------- *)
JBase == [alg |-> "HS256", key |-> "cur", exp |-> "future", nbf |-> "past", iat |-> "past",
          shape |-> "ok", claims |-> "A"]

WellTyped(t) == t.alg \in PkAlgs => t.key = "other"     \* the key field means nothing for RS256/ES256

\* (bases carry the ordinary claim sets; JMut1 takes each base to every other claim set, i.e. every
\*  name class of Gates!ClaimSets rides on every valid base; JClaimCases: every claim set x algorithm x secret)
JValidBasesAll ==
  [alg : HmacAlgs, key : {"cur", "prev"}, exp : {"absent", "future"}, nbf : {"absent", "past", "now"},
   iat : {"absent", "past", "now"}, shape : {"ok"}, claims : {"none", "A", "B"}]
JValidBasesQuick ==
  [alg : {"HS256", "HS512"}, key : {"cur", "prev"}, exp : {"absent", "future"}, nbf : {"absent", "now"},
   iat : {"past"}, shape : {"ok"}, claims : {"A", "none"}]
JValidBases == IF Size = "quick" THEN JValidBasesQuick ELSE JValidBasesAll

JMut1(b) ==
  {[b EXCEPT !.alg = x] : x \in Algs \ {b.alg}} \cup {[b EXCEPT !.key = x] : x \in JKeys \ {b.key}} \cup
  {[b EXCEPT !.exp = x] : x \in TimeCls \ {b.exp}} \cup {[b EXCEPT !.nbf = x] : x \in TimeCls \ {b.nbf}} \cup
  {[b EXCEPT !.iat = x] : x \in TimeCls \ {b.iat}} \cup {[b EXCEPT !.shape = x] : x \in Shapes \ {b.shape}} \cup
  {[b EXCEPT !.claims = x] : x \in ClaimSets \ {b.claims}}

\* every algorithm x secret, signature as issued or stripped ("alg none" forgeries take two
\* field changes from a valid token: the algorithm and the signature)
JAlgKeyCases == [alg : Algs, key : JKeys, exp : {"future"}, nbf : {"past"}, iat : {"past"},
                 shape : {"ok", "sigEmpty", "noPrefix"}, claims : {"A"}]
JClaimCases == [alg : HmacAlgs, key : {"cur", "prev", "other"}, exp : {"absent", "future"}, nbf : {"past"}, iat : {"past"},
                 shape : {"ok", "noPrefix"}, claims : ClaimSets]
JMutCases == IF Mode = "jwtMut" \/ Mode = "seq"
  THEN {t \in JValidBases \cup UNION {JMut1(b) : b \in JValidBases} \cup JAlgKeyCases \cup JClaimCases : WellTyped(t)}
  ELSE {}
JMut2Bases == {JBase, [JBase EXCEPT !.key = "prev", !.alg = "HS384", !.exp = "absent"]}
JMut2Cases == IF Mode = "jwtMut2"
  THEN {t \in UNION {JMut1(m) : m \in UNION {JMut1(b) : b \in JMut2Bases}} : WellTyped(t)}
  ELSE {}
\* every algorithm x key x shape with valid times; every algorithm x key x time-claim classes
JProdCases ==
  IF Mode = "jwtProd"
  THEN {t \in [alg : Algs, key : JKeys, exp : {"future"}, nbf : {"past"}, iat : {"past"}, shape : Shapes, claims : {"A"}]
           \cup [alg : Algs, key : JKeys, exp : TimeCls, nbf : TimeCls, iat : TimeCls, shape : {"ok"}, claims : {"B"}]
       : WellTyped(t)}
  ELSE {}

JCases == CASE Mode = "jwtMut"  -> JMutCases
            [] Mode = "jwtMut2" -> JMut2Cases
            [] Mode = "jwtProd" -> JProdCases
            [] OTHER -> {}

(* ------------------------ content-security case sets ------------------- *)
CBase == [hdr |-> "present", fp |-> "A", encTo |-> "A", swf |-> "ok", type |-> "plain", ts |-> "in",
          method |-> "POST", path |-> "p0", query |-> "q0", body |-> "b0",
          sform |-> "ok", sts |-> "in", smethod |-> "POST", spath |-> "p0", squery |-> "q0", sbody |-> "b0",
          off |-> NoOff, plen |-> 17, rlen |-> 16, chunks |-> 1, wp |-> <<>>, xfer |-> "sized"]

CMk(fp, ty, ts, m, q, b) ==
  [CBase EXCEPT !.fp = fp, !.encTo = fp, !.type = ty, !.ts = ts, !.sts = ts, !.method = m, !.smethod = m,
                !.query = q, !.squery = q, !.body = b, !.sbody = b]

CChunked(r) == [r EXCEPT !.xfer = "chunked"]

\* valid requests whose body length is announced ...
CSizedBases ==
  IF Size = "quick"
    THEN {CMk(fp, ty, "in", m, q, b) : fp \in {"A"}, ty \in {"plain", "enc"}, m \in VerifiedMethods,
                                         q \in {"q0"}, b \in {"none", "b0"}}
           \cup {CMk("B", "enc", ts, "PUT", "none", "b0") : ts \in InWindow}
    ELSE {CMk(fp, ty, ts, m, q, b) : fp \in {"A", "B"}, ty \in {"plain", "enc"}, ts \in InWindow,
                                       m \in VerifiedMethods, q \in {"none", "q0"}, b \in {"none", "b0"}}
\* ... and valid requests whose body (present or empty) arrives without an announced length
CChunkedBases ==
  IF Size = "quick"
    THEN {CChunked(CMk("A", ty, "in", m, "q0", b)) : ty \in {"plain", "enc"}, m \in {"POST", "GET"}, b \in {"none", "b0"}}
    ELSE {CChunked(CMk(fp, ty, "in", m, q, b)) : fp \in {"A", "B"}, ty \in {"plain", "enc"}, m \in VerifiedMethods,
                                                  q \in {"none", "q0"}, b \in {"none", "b0"}}
CValidBases == CSizedBases \cup CChunkedBases

CMut1(b) ==
  {[b EXCEPT !.hdr = x] : x \in {"present", "missing"} \ {b.hdr}} \cup
  {[b EXCEPT !.fp = x] : x \in Fps \ {b.fp}} \cup {[b EXCEPT !.encTo = x] : x \in EncTos \ {b.encTo}} \cup
  {[b EXCEPT !.swf = x] : x \in SecretWf \ {b.swf}} \cup
  {[b EXCEPT !.ts = x] : x \in TsVals \ {b.ts}} \cup {[b EXCEPT !.method = x] : x \in Methods \ {b.method}} \cup
  {[b EXCEPT !.path = x] : x \in Paths \ {b.path}} \cup {[b EXCEPT !.query = x] : x \in Queries \ {b.query}} \cup
  {[b EXCEPT !.body = x] : x \in Bodies \ {b.body}} \cup {[b EXCEPT !.sform = x] : x \in SigForms \ {b.sform}} \cup
  {[b EXCEPT !.sts = x] : x \in TsVals \ {b.sts}} \cup {[b EXCEPT !.smethod = x] : x \in Methods \ {b.smethod}} \cup
  {[b EXCEPT !.spath = x] : x \in Paths \ {b.spath}} \cup {[b EXCEPT !.squery = x] : x \in Queries \ {b.squery}} \cup
  {[b EXCEPT !.sbody = x] : x \in Bodies \ {b.sbody}} \cup
  {[b EXCEPT !.xfer = x] : x \in Xfers \ {b.xfer}}

\* requests on methods the handler does not verify, correctly signed, no body (they pass)
CUnverifiedValid == {CMk("A", "plain", "in", m, "q0", "none") : m \in Methods \ VerifiedMethods}

\* consistently signed requests: the signature covers exactly what is sent, but the timestamp may be
\* outside the window (a replayed old request, a client with a skewed clock), the secret may be
\* encrypted to any key under any fingerprint, and every path / query / body variant is used
CPairCases ==
  {CMk("A", ty, ts, "POST", "q0", "b0") : ty \in {"plain", "enc"}, ts \in TsVals} \cup
  {CMk("B", "plain", ts, "GET", "none", "none") : ts \in TsVals} \cup
  {[CBase EXCEPT !.fp = fp, !.encTo = en, !.type = ty] : fp \in Fps, en \in EncTos, ty \in {"plain", "enc"}} \cup
  {[CMk("A", ty, "in", "PUT", q, b) EXCEPT !.path = pa, !.spath = pa, !.xfer = x] :
       ty \in {"plain", "enc"}, q \in Queries, b \in Bodies, pa \in Paths, x \in Xfers} \cup
  {CChunked(CMk("A", ty, ts, "POST", "q0", "b0")) : ty \in {"plain", "enc"}, ts \in TsVals}

\* The case sets below leave out the requests the finding KF_CsChunkedCipher is about (Gates!ChunkedCipher:
\* properly signed, encrypted body of unannounced length); Mode "csCc" enumerates exactly those, and the runner
\* uses that set according to the status of the finding.
CMutAll    == IF Mode = "csMut" \/ Mode = "csCc"
  THEN CValidBases \cup UNION {CMut1(b) : b \in CValidBases} \cup CUnverifiedValid \cup CPairCases
  ELSE {}
CMutCases  == {r \in CMutAll : ~ChunkedCipher(r)}
CMut2Bases == {CBase, CMk("B", "enc", "inHi", "PUT", "none", "b0"), CMk("A", "enc", "in", "GET", "q0", "none"),
               CChunked(CMk("A", "plain", "in2", "POST", "q0", "b0"))}
CMut2Cases == IF Mode = "csMut2"
  THEN {r \in UNION {CMut1(m) : m \in UNION {CMut1(b) : b \in CMut2Bases}} : ~ChunkedCipher(r)}
  ELSE {}
\* the encryption round trip: every request payload length x response payload length
CRtCases ==
  IF Mode \in {"csRt", "csRtOff"}
  THEN {[CMk(fp, "enc", "in", m, "q0", "b0") EXCEPT !.plen = pl, !.rlen = rl, !.chunks = ch] :
       fp \in {"A", "B"}, m \in IF Size = "quick" THEN {"POST"} ELSE VerifiedMethods, pl \in Lens, rl \in Lens,
       ch \in {1, 2}}
    \cup {[CMk("A", "plain", "in", "POST", "q0", "b0") EXCEPT !.plen = pl, !.rlen = rl, !.xfer = x] :
             pl \in Lens, rl \in Lens, x \in Xfers}
  ELSE {}
\* the requests of the finding: those among the mutation set, and the round trip over every length pair
CCcCases ==
  IF Mode = "csCc"
  THEN {r \in CMutAll : ChunkedCipher(r)}
    \cup {[CChunked(CMk(fp, "enc", "in", "POST", "q0", "b0")) EXCEPT !.plen = pl, !.rlen = rl] :
             fp \in {"A", "B"}, pl \in Lens, rl \in Lens}
  ELSE {}

\* timestamps anywhere on the integer line, consistently signed
COffs == IF Size = "quick" THEN [s : {-1, 1}, m : {1}, k : 0..63, j : -1..1] \cup [s : {-1, 1}, m : {3}, k : 52..62, j : {0}]
         ELSE [s : {-1, 1}, m : {1, 3, 5}, k : 0..63, j : -1..1] \cup [s : {1}, m : {0}, k : {0}, j : -1..1]
COffBases == IF Size = "quick" THEN {CMk("A", "plain", "off", "POST", "q0", "b0")}
             ELSE {CMk("A", "plain", "off", "POST", "q0", "b0"), CMk("B", "enc", "off", "GET", "none", "none"),
                   CChunked(CMk("A", "plain", "off", "PUT", "q0", "b0"))}
COffCases == IF Mode \in {"csOff", "csRtOff"} THEN {[b EXCEPT !.off = o] : b \in COffBases, o \in COffs} ELSE {}

\* bases of the write programs: the piece the handler's buffer holds is rlen bytes long
CWpBases ==
  IF Mode = "csWp"
  THEN {[CMk(fp, ty, "in", "POST", "q0", "b0") EXCEPT !.rlen = rl] :
           fp \in {"A"}, ty \in {"plain", "enc"}, rl \in IF Size = "quick" THEN {17, 4096} ELSE {1, 16, 4096}}
  ELSE {}

CCases == CASE Mode = "csMut"  -> CMutCases
            [] Mode = "csMut2" -> CMut2Cases
            [] Mode = "csRt"   -> CRtCases
            [] Mode = "csCc"   -> CCcCases
            [] Mode = "csOff"  -> COffCases
            [] Mode = "csRtOff" -> CRtCases \cup COffCases      \* the two sets in one run (quick tier)
            [] Mode = "csWp"   -> CWpBases
            [] OTHER -> {}

(* ------------------------------ wiring case sets ----------------------- *)
WJwtCore == {JBase, [JBase EXCEPT !.key = "prev"], [JBase EXCEPT !.key = "other"], [JBase EXCEPT !.shape = "missing"],
             [JBase EXCEPT !.exp = "past"], [JBase EXCEPT !.alg = "none", !.key = "empty"]}
WCsCore  == {CBase, CMk("B", "enc", "in", "PUT", "none", "b0"), CMk("A", "plain", "in", "GET", "q0", "none"),
             [CBase EXCEPT !.hdr = "missing"], [CBase EXCEPT !.sform = "flipBit"], [CBase EXCEPT !.ts = "old", !.sts = "old"],
             [CBase EXCEPT !.body = "b1"], [CBase EXCEPT !.fp = "unknown"],
             [CMk("A", "enc", "in", "POST", "q0", "b0") EXCEPT !.wp = <<"fill", "write", "fill", "write">>]}
WBothJwt == {JBase, [JBase EXCEPT !.key = "other"], [JBase EXCEPT !.shape = "missing"], [JBase EXCEPT !.exp = "past"]}
WBothCs  == {CBase, CMk("A", "enc", "in", "POST", "q0", "b0"), [CBase EXCEPT !.hdr = "missing"],
             [CBase EXCEPT !.sform = "otherKey"], [CBase EXCEPT !.ts = "ahead", !.sts = "ahead"]}
WCase(c, d, p, t, r) == [wire |-> WithDecl(c, d), prev |-> p, tok |-> t, req |-> r]
WireCases ==
  IF Mode = "wire"
  THEN {WCase(c, "jwt", p, t, CBase) : c \in WireCfgs, p \in BOOLEAN, t \in WJwtCore}
       \cup {WCase(c, "cs", FALSE, JBase, r) : c \in WireCfgs, r \in WCsCore}
       \cup {WCase(c, "both", p, t, r) : c \in WireCfgs, p \in {TRUE}, t \in WBothJwt, r \in WBothCs}
  ELSE IF Mode = "wireList" THEN WireCfgs
  ELSE {}

(* ------------------------------- the machine --------------------------- *)
SeqTokens == {JBase, [JBase EXCEPT !.key = "prev"], [JBase EXCEPT !.key = "other"], [JBase EXCEPT !.key = "empty"],
              [JBase EXCEPT !.exp = "past"], [JBase EXCEPT !.key = "prev", !.shape = "sigFlipBit"]}

NoCase == [none |-> TRUE]

MInit ==
  /\ trail = <<>> /\ ws = WInit
  /\ IF Mode = "seq" THEN g = NoCase /\ \E p \in BOOLEAN : GInit(p)
     ELSE GInit(TRUE) /\ g \in JCases \cup CCases \cup WireCases

SeqNext ==
  /\ Mode = "seq" /\ Len(trail) < MaxOps
  /\ \/ \E t \in SeqTokens :
          /\ JwtReq(t, ImplAccepts(t, prevCfg, cnt), 200)
          /\ trail' = Append(trail, [op |-> "jwt", tok |-> t])
     \/ \E d \in {1, 25} : Tick(d) /\ trail' = Append(trail, [op |-> "tick", d |-> d])
  /\ UNCHANGED <<g, ws>>

\* the handler of case g performs one more step of its write program
WpNext ==
  /\ Mode = "csWp" /\ Len(trail) < MaxOps
  /\ \E op \in WOps : ws' = WStep(ws, op) /\ trail' = Append(trail, op)
  /\ UNCHANGED <<g, prevCfg, cnt, now, resetAt, resp, wire>>

MSpec == MInit /\ [][SeqNext \/ WpNext]_mvars

(* ------------------------------- invariants ---------------------------- *)
CheckToks == IF Size = "tiny" THEN SeqTokens ELSE JMutCases \cup SeqTokens

\* the implementation model, in this history state, decides every token as the statement demands
Refines == Mode = "seq" => \A t \in CheckToks : Allowed(JwtVerdict(t, prevCfg), ImplAccepts(t, prevCfg, cnt))
\* ... and as it would with an empty history
HistoryIrrelevant ==
  Mode = "seq" => \A t \in CheckToks : ImplAccepts(t, prevCfg, cnt) = ImplAccepts(t, prevCfg, [cur |-> 0, prev |-> 0])

\* Sanity of the case sets (vacuity guards): a valid base is a "yes" for its configuration, and every
\* single-field mutation of a valid credential that leaves the credential's class is decided
JwtCaseSane ==
  Mode \in {"jwtMut", "jwtMut2", "jwtProd"} =>
     /\ JwtVerdict(g, TRUE) \in {"yes", "no", "either"} /\ JwtVerdict(g, FALSE) \in {"yes", "no", "either"}
     /\ g \in JValidBases => JwtVerdict(g, TRUE) = "yes" /\ (JwtVerdict(g, FALSE) = "yes") = (g.key = "cur")
     /\ JwtVerdict(g, FALSE) = "yes" => JwtVerdict(g, TRUE) = "yes"
     \* which claims a token carries never decides whether the handler runs, and every claim set but
     \* "none" has a private claim for the handler to see
     /\ \A c \in ClaimSets : /\ JwtVerdict([g EXCEPT !.claims = c], TRUE) = JwtVerdict(g, TRUE)
                             /\ (c # "none" => ClassesOf(c) # {} /\ ClassesOf(c) \subseteq NameClasses)
CsCaseSane ==
  Mode \in {"csMut", "csMut2", "csRt", "csCc", "csOff", "csRtOff", "csWp"} =>
     /\ CsVerdict(g) \in {"yes", "no", "either"}
     /\ g \in CValidBases \cup CRtCases \cup CUnverifiedValid \cup CWpBases => CsVerdict(g) = "yes"
     /\ CsVerdict(g) # "no" => Signed(g) = Actual(g)
     \* timestamps on the integer line: beyond 2^21 s nothing passes, next to the clock everything does
     /\ g.ts = "off" => /\ Mode \in {"csOff", "csRtOff"} /\ g.sts = "off" /\ g.off \in Offs
                         /\ (g.off.k > 20 /\ g.off.m > 0 => CsVerdict(g) = "no")
                         /\ (g.off.m = 0 \/ (g.off.k < 8 /\ g.off.m = 1 /\ g.off.j = 0) => CsVerdict(g) = "yes")
     \* how the body length is announced never decides; the finding's cases are in their own set
     /\ \A x \in Xfers : CsVerdict([g EXCEPT !.xfer = x]) = CsVerdict(g)
     /\ ChunkedCipher(g) = (Mode = "csCc")

\* Part 3b: after every step of every program the buffering writer holds what was passed to it
WriterContract == Mode = "csWp" => WContract(ws) /\ ws = WRun(trail)
\* Part 4: every wiring puts every declared gate in front of the handler; the verdicts of the core
\* credentials are what they are under the direct wiring (no verdict reads the wiring)
Wired == /\ Mode = "wireList" => \A d \in Decls : GateWired(WithDecl(g, d))
         /\ Mode = "wire" => /\ GateWired(g.wire) /\ g.wire \in Wirings
                              /\ JwtVerdict(g.tok, g.prev) \in {"yes", "no", "either"} /\ CsVerdict(g.req) \in {"yes", "no", "either"}
                              /\ g.tok = JBase /\ g.req = CBase => Meet(JwtVerdict(g.tok, g.prev), CsVerdict(g.req)) = "yes"

\* model checking: the operation history is hidden but for its length (one state per parser
\* state and depth, so the bound on the length cuts every path at the same place);
\* generation: the history is the state (every sequence is printed)
View == IF Mode = "seq" THEN (IF Emit THEN <<prevCfg, cnt, now, resetAt, resp, trail>> ELSE <<prevCfg, cnt, now, resetAt, resp, Len(trail)>>)
        ELSE IF Mode = "csWp" THEN (IF Emit THEN <<g, trail>> ELSE <<g, ws, Len(trail)>>)
        ELSE <<g>>
PrintCase ==
  Emit => IF Mode = "seq"
            THEN (Len(trail) = MaxOps => PrintT("TRACE " \o ToJson([prev |-> prevCfg, ops |-> trail])))
          ELSE IF Mode = "csWp"
            THEN ((\E i \in 1..Len(trail) : WritesData(trail[i])) => PrintT("TRACE " \o ToJson([g EXCEPT !.wp = trail])))
            ELSE PrintT("TRACE " \o ToJson(g))
=============================================================================
