SPECIFICATION MSpec
CONSTANTS
  Variant = "authNativeOnly"
  Mode = "wireList"
  Size = "quick"
  MaxOps = 0
  Emit = FALSE
INVARIANTS Wired
VIEW View
CHECK_DEADLOCK FALSE
