SPECIFICATION MSpec
CONSTANTS
  Variant = "both"
  Mode = "wire"
  Size = "quick"
  MaxOps = 0
  Emit = TRUE
INVARIANTS TypeOK Wired PrintCase
VIEW View
CHECK_DEADLOCK FALSE
