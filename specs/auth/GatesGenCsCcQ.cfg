SPECIFICATION MSpec
CONSTANTS
  Variant = "both"
  Mode = "csCc"
  Size = "quick"
  MaxOps = 0
  Emit = TRUE
INVARIANTS CsCaseSane PrintCase
VIEW View
CHECK_DEADLOCK FALSE
