SPECIFICATION Spec
CONSTANTS
  Procs = {1, 2, 3}
  OvProcs = {2}
  Holders = {4, 5}
  Need = 2
  ImplThr = 1
  Drp0 = TRUE
  Ovt0 = "old"
INVARIANTS Allowed CounterBelowLaw Conserved FlagBelowLaw
CHECK_DEADLOCK FALSE
