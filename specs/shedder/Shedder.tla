------------------------------ MODULE Shedder ------------------------------
(* Layer P for property C02: what an adaptive load shedder may and must do, phrased
   over observable events only -- Allow (with the CPU verdict the harness injected and
   the answer), Pass / Fail of the promises handed out, the harness-controlled clock --
   plus, where a driver can see them, the shedder's own in-flight counter and moving
   average (white-box observations, bound to `flying` / `avg`).

   The law (property statement):
     * Allow SHEDS only if
         - the CPU is at or above the threshold at that Allow, or it was at an Allow
           within the preceding CoolOff (1 s) while shedding was in progress  ("hot"), and
         - the number of admitted-but-unresolved requests exceeds 10 % of the capacity
           estimate;
     * Allow DOES shed when the CPU is overloaded and both the in-flight count and its
       moving average exceed the full capacity estimate;
     * an admitted request is in flight from its Allow until its promise is resolved,
       once (Pass or Fail); so with nothing in flight nothing is shed;
     * a disabled (nop) shedder never sheds.

   Definitions the statement leaves to the subsystem, fixed here the way go-zero defines
   them (core/load/adaptiveshedder.go, core/collection/rollingwindow.go):
     * time is in ms since the shedder was created; bucket k covers [k*bd, (k+1)*bd);
       "the sliding window" is the nb-1 complete buckets before the current one;
     * capacity estimate = peak per-bucket pass count (at least 1) x minimum over the
       buckets of the average latency in ms (DefRt = 1000 if the window is empty)
       / bucket length in ms, and never below 1;
     * "shedding is in progress" from a shed until the first Allow that finds the CPU
       below the threshold more than CoolOff after the latest overloaded Allow;
     * moving average: avg' = 0.9 avg + 0.1 flying', updated when a promise is resolved.

   Freedom the statement leaves open is a nondeterministic choice (or a band) here:
     * admitting is always allowed unless MustShed; between 10 % and 100 % of the
       estimate the implementation decides (go-zero scales with the CPU headroom);
     * the average latency of a bucket may be rounded either way (floor for "may shed",
       ceiling for "must shed"); a comparison that is an exact tie may go either way
       (the code compares floating-point products);
     * exactly CoolOff after the latest overloaded Allow the shedder may or may not
       still be hot;
     * the moving average is kept in fixed point (avg = average x S); "must shed" needs
       the average to clear the estimate by Band units.

   Calls that overlap in time (aStart .. aEnd, pStart .. pEnd) take effect at unlogged
   instants inside their intervals: an Allow first senses the CPU (CSense: cool-off
   bookkeeping), later decides on the in-flight count of that instant (CDecide); a
   resolution takes effect at one instant (RApply).  For overlapping calls only the
   "sheds only if" half and the conservation of the in-flight count are demanded (the
   code reads the average, the windows and the counter at different instants).       *)
EXTENDS Integers, Sequences, FiniteSets, TLC

CONSTANTS
  CoolOff,   \* 1000 ms
  DefRt,     \* 1000 ms: latency assumed while the window holds no pass
  S,         \* fixed-point scale of the moving average (100000)
  Band,      \* units of 1/S the average must clear the estimate by before "must shed" applies
  ObsBand    \* units of 1/S a white-box reading of avgFlying may differ from `avg`

VARIABLES
  kind,    \* "adaptive" | "nop" (created while shedding is disabled)
  nb, bd,  \* number of buckets, bucket length in ms
  now,     \* ms since creation
  open,    \* promise id |-> time of its Allow: admitted and not yet resolved
  flying,  \* the in-flight count (bound to the code's counter where it is logged)
  avg,     \* moving average of flying, x S
  avgOK,   \* FALSE after overlapping resolutions (their order is not observable) until re-read
  win,     \* <<[i, n, s]>>: bucket number (increasing), passes, latency sum; only buckets > WN - nb
  ovt,     \* time of the latest Allow that found the CPU overloaded (None: never)
  drp,     \* shedding is in progress
  calls,   \* overlapping Allow calls in progress: c |-> [ov, st, j]
  res,     \* overlapping resolutions in progress: id |-> [how, st]
  last     \* the latest decision: [shed, j, fly, must] (what the invariants talk about)

svars == <<kind, nb, bd, now, open, flying, avg, avgOK, win, ovt, drp, calls, res, last>>

None == -1
Max2(a, b) == IF a >= b THEN a ELSE b
Min2(a, b) == IF a <= b THEN a ELSE b
Drop(f, x) == [y \in DOMAIN f \ {x} |-> f[y]]
With(f, x, v) == [y \in DOMAIN f \cup {x} |-> IF y = x THEN v ELSE f[y]]
NoDecision == [shed |-> FALSE, j |-> FALSE, fly |-> 0, must |-> FALSE]
Quiet == calls = <<>> /\ res = <<>>

\* ------------------------------------------------------------------ capacity estimate
WN == now \div bd
\* the complete buckets of the sliding window
Vis == SelectSeq(win, LAMBDA r : r.i > WN - nb /\ r.i < WN)

RECURSIVE PeakFrom(_, _)
PeakFrom(v, k) == IF k > Len(v) THEN 1 ELSE Max2(v[k].n, PeakFrom(v, k + 1))
RECURSIVE MinLoFrom(_, _)
MinLoFrom(v, k) == IF k > Len(v) THEN DefRt ELSE Min2(v[k].s \div v[k].n, MinLoFrom(v, k + 1))
RECURSIVE MinHiFrom(_, _)
MinHiFrom(v, k) == IF k > Len(v) THEN DefRt ELSE Min2((v[k].s + v[k].n - 1) \div v[k].n, MinHiFrom(v, k + 1))

Peak == PeakFrom(Vis, 1)
\* estimate = CapNum / bd (and at least 1); Lo / Hi: bucket averages rounded down / up
CapNumLo == Peak * MinLoFrom(Vis, 1)
CapNumHi == Peak * MinHiFrom(Vis, 1)

\* in flight > 10 % of the estimate (a tie may go either way); the floor of 1 makes
\* "at least one in flight" the binding part when the estimate is below 10
FlyEnough == flying >= 1 /\ flying * bd * 10 >= CapNumLo

\* in flight > the full estimate, strictly, for every rounding
FlyAbove == flying >= 2 /\ flying * bd > CapNumHi
\* moving average > the full estimate by more than Band (evaluated only under FlyAbove:
\* then CapNumHi \div bd < flying, so nothing overflows)
CapSHi == (CapNumHi \div bd) * S + ((CapNumHi % bd) * S + bd - 1) \div bd
AvgAbove == avg > Max2(CapSHi, S) + Band

MustShed(ov) == kind = "adaptive" /\ ov /\ avgOK /\ FlyAbove /\ AvgAbove

NextAvg(a, f) == (9 * a + S * f + 5) \div 10

\* ------------------------------------------------------------------ cool-off bookkeeping
\* What an Allow that finds the CPU overloaded (ov) or not does, and whether it leaves a
\* justification j for shedding ("overloaded now, or still hot").
SenseSet(ov) ==
  IF ov THEN {[j |-> TRUE, ovt |-> now, drp |-> drp]}
  ELSE IF ~drp \/ ovt = None THEN {[j |-> FALSE, ovt |-> ovt, drp |-> drp]}
  ELSE IF now - ovt < CoolOff THEN {[j |-> TRUE, ovt |-> ovt, drp |-> TRUE]}
  ELSE IF now - ovt = CoolOff THEN {[j |-> TRUE, ovt |-> ovt, drp |-> TRUE], [j |-> FALSE, ovt |-> ovt, drp |-> FALSE]}
  ELSE {[j |-> FALSE, ovt |-> ovt, drp |-> FALSE]}

AddWin(w, i, lat) ==
  IF Len(w) > 0 /\ w[Len(w)].i = i
    THEN [w EXCEPT ![Len(w)] = [i |-> i, n |-> @.n + 1, s |-> @.s + lat]]
    ELSE Append(w, [i |-> i, n |-> 1, s |-> lat])

\* ------------------------------------------------------------------ actions
\* Guard / effect are separate so that the implementation model (ShedderImpl) can take
\* the effect and *check* the guard.

Fresh(k, b, d) ==
  /\ kind' = k /\ nb' = b /\ bd' = d /\ now' = 0 /\ open' = <<>> /\ flying' = 0
  /\ avg' = 0 /\ avgOK' = TRUE /\ win' = <<>> /\ ovt' = None /\ drp' = FALSE
  /\ calls' = <<>> /\ res' = <<>> /\ last' = NoDecision

SInit(k, b, d) ==
  /\ kind = k /\ nb = b /\ bd = d /\ now = 0 /\ open = <<>> /\ flying = 0
  /\ avg = 0 /\ avgOK = TRUE /\ win = <<>> /\ ovt = None /\ drp = FALSE
  /\ calls = <<>> /\ res = <<>> /\ last = NoDecision

\* the clock moves; buckets that left the window are forgotten
Advance(d) ==
  /\ d >= 0
  /\ now' = now + d
  /\ win' = SelectSeq(win, LAMBDA r : r.i > ((now + d) \div bd) - nb)
  /\ UNCHANGED <<kind, nb, bd, open, flying, avg, avgOK, ovt, drp, calls, res, last>>

\* ---- Allow, not overlapping with any other call
AllowOK(ov, shed, s) ==
  IF kind = "nop" THEN ~shed
  ELSE IF shed THEN s.j /\ FlyEnough ELSE ~MustShed(ov)

AllowEff(id, ov, shed, s) ==
  /\ id \notin DOMAIN open
  /\ IF kind = "nop"
       THEN /\ open' = IF shed THEN open ELSE With(open, id, now)
            /\ UNCHANGED <<flying, ovt, drp>>
       ELSE /\ ovt' = s.ovt
            /\ drp' = IF shed THEN TRUE ELSE s.drp
            /\ open' = IF shed THEN open ELSE With(open, id, now)
            /\ flying' = IF shed THEN flying ELSE flying + 1
  /\ last' = [shed |-> shed, j |-> s.j, fly |-> flying, must |-> MustShed(ov)]
  /\ UNCHANGED <<kind, nb, bd, now, avg, avgOK, win, calls, res>>

Allow(id, ov, shed) ==
  /\ Quiet
  /\ \E s \in SenseSet(ov) : AllowOK(ov, shed, s) /\ AllowEff(id, ov, shed, s)

\* ---- Pass / Fail of an outstanding promise: exactly one decrement; Pass records the latency
ResolveEff(id, how) ==
  /\ id \in DOMAIN open
  /\ open' = Drop(open, id)
  /\ IF kind = "nop" THEN UNCHANGED <<flying, win>>
     ELSE /\ flying' = flying - 1
          /\ win' = IF how = "pass" THEN AddWin(win, WN, now - open[id]) ELSE win
  /\ UNCHANGED <<kind, nb, bd, now, ovt, drp, calls, last>>

Resolve(id, how) ==
  /\ Quiet /\ how \in {"pass", "fail"}
  /\ ResolveEff(id, how)
  /\ avg' = IF kind = "nop" THEN avg ELSE NextAvg(avg, flying - 1)
  /\ UNCHANGED <<avgOK, res>>

\* ---- overlapping calls
CStart(c, ov) ==
  /\ c \notin DOMAIN calls /\ c \notin DOMAIN open
  /\ calls' = With(calls, c, [ov |-> ov, st |-> "started", j |-> FALSE])
  /\ UNCHANGED <<kind, nb, bd, now, open, flying, avg, avgOK, win, ovt, drp, res, last>>

\* the call reads the CPU verdict (and, if not overloaded, whether shedding is still hot)
CSense(c) ==
  /\ c \in DOMAIN calls /\ calls[c].st = "started"
  /\ \E s \in SenseSet(calls[c].ov) :
       /\ calls' = [calls EXCEPT ![c].st = "sensed", ![c].j = s.j]
       /\ IF kind = "nop" THEN UNCHANGED <<ovt, drp>> ELSE ovt' = s.ovt /\ drp' = s.drp
  /\ UNCHANGED <<kind, nb, bd, now, open, flying, avg, avgOK, win, res, last>>

\* the call reads the in-flight count and decides
CDecide(c, shed) ==
  /\ c \in DOMAIN calls /\ calls[c].st = "sensed"
  /\ IF kind = "nop" THEN ~shed ELSE (shed => calls[c].j /\ FlyEnough)
  /\ calls' = [calls EXCEPT ![c].st = IF shed THEN "shed" ELSE "admitted"]
  /\ open' = IF shed THEN open ELSE With(open, c, now)
  /\ IF kind = "nop" THEN UNCHANGED <<flying, drp>>
     ELSE /\ flying' = IF shed THEN flying ELSE flying + 1
          /\ drp' = IF shed THEN TRUE ELSE drp
  /\ last' = [shed |-> shed, j |-> calls[c].j, fly |-> flying, must |-> FALSE]
  /\ UNCHANGED <<kind, nb, bd, now, avg, avgOK, win, ovt, res>>

CEnd(c, shed) ==
  /\ c \in DOMAIN calls /\ calls[c].st = (IF shed THEN "shed" ELSE "admitted")
  /\ calls' = Drop(calls, c)
  /\ UNCHANGED <<kind, nb, bd, now, open, flying, avg, avgOK, win, ovt, drp, res, last>>

RStart(id, how) ==
  /\ how \in {"pass", "fail"}
  /\ id \in DOMAIN open /\ id \notin DOMAIN res /\ id \notin DOMAIN calls
  /\ res' = With(res, id, [how |-> how, st |-> "pending"])
  /\ UNCHANGED <<kind, nb, bd, now, open, flying, avg, avgOK, win, ovt, drp, calls, last>>

RApply(id) ==
  /\ id \in DOMAIN res /\ res[id].st = "pending"
  /\ ResolveEff(id, res[id].how)
  /\ res' = [res EXCEPT ![id].st = "done"]
  /\ avg' = avg /\ avgOK' = (kind = "nop")
REnd(id) ==
  /\ id \in DOMAIN res /\ res[id].st = "done"
  /\ res' = Drop(res, id)
  /\ UNCHANGED <<kind, nb, bd, now, open, flying, avg, avgOK, win, ovt, drp, calls, last>>

\* ---- observations (no call in progress)
\* white-box reading of the code's counter and average
Observe(fly, av) ==
  /\ Quiet
  /\ kind = "adaptive" => fly = flying
  /\ IF kind = "adaptive" /\ ~avgOK THEN avg' = av /\ avgOK' = TRUE
     ELSE /\ (kind = "adaptive" => (av - avg <= ObsBand /\ avg - av <= ObsBand))
          /\ UNCHANGED <<avg, avgOK>>
  /\ UNCHANGED <<kind, nb, bd, now, open, flying, win, ovt, drp, calls, res, last>>

\* a request that went through a middleware has returned: its promise is resolved
Settled(id) ==
  /\ id \notin DOMAIN open /\ id \notin DOMAIN res /\ id \notin DOMAIN calls
  /\ UNCHANGED svars

\* ------------------------------------------------------------------ properties
\* every admitted request is in flight exactly until its promise is resolved
Conservation ==
  /\ flying >= 0
  /\ kind = "adaptive" => flying = Cardinality(DOMAIN open)
  /\ kind = "nop" => flying = 0
\* the latest shed was justified: overloaded or hot, and something in flight
ShedJustified == last.shed => (kind = "adaptive" /\ last.j /\ last.fly >= 1)
\* overloaded with count and average above the full estimate: it was shed
ShedWhenMust == last.must => last.shed
\* the two halves of the law never contradict each other
EnvelopeConsistent ==
  \A ov \in BOOLEAN : MustShed(ov) => \E s \in SenseSet(ov) : s.j /\ FlyEnough
WellFormed ==
  /\ \A k \in 1..Len(win) : win[k].i > WN - nb /\ win[k].i <= WN /\ win[k].n >= 1 /\ win[k].s >= 0
  /\ \A k \in 1..(Len(win) - 1) : win[k].i < win[k + 1].i
  /\ \A id \in DOMAIN open : open[id] <= now
  /\ avg >= 0 /\ (ovt = None \/ ovt <= now) /\ (drp => ovt # None)
  /\ CapNumLo <= CapNumHi
=============================================================================
