SPECIFICATION Spec
CONSTANTS
  Procs = {1, 2, 3}
  OvProcs = {1, 2, 3}
  Holders = {4, 5}
  Need = 2
  ImplThr = 1
  Drp0 = FALSE
  Ovt0 = "none"
INVARIANTS Allowed CounterBelowLaw Conserved FlagBelowLaw
CHECK_DEADLOCK FALSE
