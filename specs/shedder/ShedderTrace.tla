---------------------------- MODULE ShedderTrace ----------------------------
(* Trace validation for C02: the events recorded from the real adaptive shedder
   (core/load) must be a behaviour of Shedder.tla.  (Traces recorded while requests travel
   through rest/handler SheddingHandler and the zRPC UnarySheddingInterceptor are validated
   by ShedderWrapTrace.tla against the request-level law ShedderWrap.tla; the hend event
   below is the older, promise-level form of its hend and is kept for recorded replays.)

   Logged events (harness order = one total order; times in ms; fly / avg are white-box
   readings of adaptiveShedder.flying and avgFlying x S taken after the call, -1 if the
   driver cannot see them):
     reset{kind,nb,bd}   adv{d}
     allow{id,ov,shed,fly,avg}   pass{id,fly,avg}   fail{id,fly,avg}      calls that overlap nothing
     aStart{c,ov}  aEnd{c,shed}  pStart{id,how}  pEnd{id}                  overlapping calls
     obs{fly,avg}                                                          at rest
     hend{id}            a request that went through a middleware returned (id 0: it was shed)
   Not logged, inferred by TLC for overlapping calls: the instant a call senses the CPU
   (CSense), the instant it decides (CDecide), the instant a resolution takes effect
   (RApply).                                                                         *)
EXTENDS Shedder, TraceKit

VARIABLE l
tvars == <<svars, l>>

E == Trace[l]

\* ---- placement of the unlogged instants of overlapping calls.  Searching every placement
\* is correct but needlessly expensive; three restrictions lose no accepting placement:
\*  (1) whether call c sheds is read ahead from its aEnd event;
\*  (2) a call that found the CPU overloaded senses at once (CSense only stamps ovt = now) and,
\*      if it is admitted, decides at once (flying + 1): both effects only ever *enable*
\*      guards of other steps (a shed needs j and FlyEnough, both monotone in ovt freshness and
\*      flying; admissions of overlapping calls need nothing), so taking them as early as
\*      possible never turns an accepting placement into a rejecting one;
\*  (3) a resolution is applied at the last instant (directly before its pEnd): flying - 1
\*      only ever disables guards, so as late as possible is best.
\* Calls that found the CPU not overloaded, and shed decisions, are placed freely.
RECURSIVE EndShed(_, _)
EndShed(k, c) ==
  IF k > Len(Trace) \/ Trace[k].e = "reset" THEN FALSE
  ELSE IF Trace[k].e = "aEnd" /\ Trace[k].c = c THEN Trace[k].shed
  ELSE EndShed(k + 1, c)
UrgentSense(c) == calls[c].ov /\ calls[c].st = "started"
UrgentAdmit(c) == calls[c].ov /\ calls[c].st = "sensed" /\ ~EndShed(l, c)
Urgent == \E c \in DOMAIN calls : UrgentSense(c) \/ UrgentAdmit(c)

IsEvent(e) == l <= Len(Trace) /\ E.e = e /\ l' = l + 1 /\ ~Urgent
Silent == l <= Len(Trace) /\ UNCHANGED l

\* white-box readings taken after the step
Seen == /\ (kind' = "adaptive" /\ E.fly >= 0) => E.fly = flying'
        /\ (kind' = "adaptive" /\ E.avg >= 0 /\ avgOK') => (E.avg - avg' <= ObsBand /\ avg' - E.avg <= ObsBand)

TReset  == IsEvent("reset") /\ Fresh(E.kind, E.nb, E.bd)
TAdv    == IsEvent("adv") /\ Quiet /\ Advance(E.d)
TAllow  == IsEvent("allow") /\ Allow(E.id, E.ov, E.shed) /\ Seen
TPass   == IsEvent("pass") /\ Resolve(E.id, "pass") /\ Seen
TFail   == IsEvent("fail") /\ Resolve(E.id, "fail") /\ Seen
TAStart == IsEvent("aStart") /\ CStart(E.c, E.ov)
TAEnd   == IsEvent("aEnd") /\ CEnd(E.c, E.shed)
TPStart == IsEvent("pStart") /\ RStart(E.id, E.how)
TPEnd   == IsEvent("pEnd") /\ REnd(E.id)
TObs    == IsEvent("obs") /\ Observe(E.fly, E.avg)
THEnd   == IsEvent("hend") /\ (IF E.id = 0 THEN UNCHANGED svars ELSE Settled(E.id))

TUrgent == Silent /\ \E c \in DOMAIN calls :
             \/ UrgentSense(c) /\ CSense(c)
             \/ UrgentAdmit(c) /\ CDecide(c, FALSE)
TSense  == Silent /\ ~Urgent /\ \E c \in DOMAIN calls : CSense(c)
TDecide == Silent /\ ~Urgent /\ \E c \in DOMAIN calls : CDecide(c, EndShed(l, c))
TApply  == Silent /\ ~Urgent /\ E.e = "pEnd" /\ E.id \in DOMAIN res /\ RApply(E.id)

TInit == SInit("adaptive", 1, 1) /\ l = 1
TNext == TReset \/ TAdv \/ TAllow \/ TPass \/ TFail \/ TAStart \/ TAEnd \/ TPStart \/ TPEnd
         \/ TObs \/ THEnd \/ TUrgent \/ TSense \/ TDecide \/ TApply
TSpec == TInit /\ [][TNext]_tvars

HW == HighWater(l)
=============================================================================
