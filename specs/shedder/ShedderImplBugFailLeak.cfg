SPECIFICATION ISpec
CONSTANTS
  CoolOff = 4
  DefRt = 4
  S = 100
  Band = 2
  ObsBand = 1
  NB = 3
  BD = 2
  Gaps = {1, 2, 5}
  MaxFly = 4
  MaxOps = 7
  Factors = {1, 10}
  AvgInits = {0, 320}
  Variant = "failleak"
  Emit = FALSE
  ViewKind = "full"
INVARIANTS Allowed Agree
VIEW TheView
CHECK_DEADLOCK FALSE
