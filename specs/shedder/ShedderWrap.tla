---------------------------- MODULE ShedderWrap ----------------------------
(* Layer P for property C02, request level: the promise-resolution protocol of anything
   that puts a shedder in front of a handler (rest/handler SheddingHandler, the zRPC
   UnarySheddingInterceptor).

   The property statement counts "admitted-but-unfinished requests": "each admitted
   request counts as in flight from Allow until its promise is resolved once".  For a
   request that travels through a wrapper this means:

     * the wrapper asks the shedder once (Allow);  a shed request holds no promise;
     * an admitted request holds exactly one promise while its handler runs;
     * when the handler has ENDED -- whatever way: it returned an answer of any status,
       returned an error of any kind, or panicked -- the wrapper resolves the promise,
       exactly once, Pass or Fail (which of the two is the wrapper's business: the
       statement does not say), and only then gives control back to its caller (by
       returning or by letting the panic travel on);
     * so at every instant   in flight  =  promises handed out - promises resolved
                                        =  admitted requests still inside a wrapper,
       and once every request has left the wrappers nothing is in flight (hence
       nothing is shed, by the law of Shedder.tla).

   The shedder itself is the law of Shedder.tla (Allow / Resolve with all its
   invariants); this module adds the request life cycle on top of it.

   Observable events (a driver logs them at the boundary of the wrapper):
     WEnter(r)              request r is handed to the wrapper
     WAllow(r, id, ov, shed) the wrapper's Allow (promise id if admitted)
     WDone(r, out)          the handler the wrapper called for r has ended; out is how:
                            "ok" | "failcls" (503 / context.DeadlineExceeded: what go-zero's
                            wrappers report as Fail) | "err" (any other error / status) | "panic"
     WResolve(r, id, how)   Pass / Fail of promise id
     WEnd(r)                the wrapper gave control back for r                       *)
EXTENDS Shedder

VARIABLES
  reqs,   \* request |-> [st, pid, out]: requests inside a wrapper
          \*   st: "entered" (no Allow yet) | "shed" | "admitted" (handler running, holds promise pid)
          \*       | "ended" (handler has ended, promise pid unresolved) | "resolved"
  nadm,   \* promises handed out to requests so far
  nres    \* promises resolved so far

wvars == <<reqs, nadm, nres>>
wsvars == <<svars, wvars>>

Outs == {"ok", "failcls", "err", "panic"}

Holding == {r \in DOMAIN reqs : reqs[r].st \in {"admitted", "ended"}}

WFresh == reqs' = <<>> /\ nadm' = 0 /\ nres' = 0
WInit == reqs = <<>> /\ nadm = 0 /\ nres = 0

\* ---- guards (separate, so that the middleware model can take a step and *check* it)
WEnterG(r) == r \notin DOMAIN reqs
WAllowG(r) == r \in DOMAIN reqs /\ reqs[r].st = "entered"
\* (a handler run for a request that was shed is none of this property's business)
WDoneG(r) == r \in DOMAIN reqs /\ reqs[r].st \in {"admitted", "shed"}
WResolveG(r, id) == r \in DOMAIN reqs /\ reqs[r].st = "ended" /\ reqs[r].pid = id /\ id \in DOMAIN open
WEndG(r) == r \in DOMAIN reqs /\ reqs[r].st \in {"shed", "resolved"}

\* ---- actions
WEnter(r) ==
  /\ WEnterG(r)
  /\ reqs' = With(reqs, r, [st |-> "entered", pid |-> 0, out |-> "none"])
  /\ UNCHANGED <<svars, nadm, nres>>

WAllow(r, id, ov, shed) ==
  /\ WAllowG(r)
  /\ Allow(id, ov, shed)
  /\ reqs' = [reqs EXCEPT ![r].st = IF shed THEN "shed" ELSE "admitted", ![r].pid = IF shed THEN 0 ELSE id]
  /\ nadm' = IF shed THEN nadm ELSE nadm + 1
  /\ UNCHANGED nres

WDone(r, out) ==
  /\ WDoneG(r) /\ out \in Outs
  /\ reqs' = IF reqs[r].st = "admitted" THEN [reqs EXCEPT ![r].st = "ended", ![r].out = out] ELSE reqs
  /\ UNCHANGED <<svars, nadm, nres>>

WResolve(r, id, how) ==
  /\ WResolveG(r, id)
  /\ Resolve(id, how)
  /\ reqs' = [reqs EXCEPT ![r].st = "resolved"]
  /\ nres' = nres + 1
  /\ UNCHANGED nadm

WEnd(r) ==
  /\ WEndG(r)
  /\ reqs' = Drop(reqs, r)
  /\ UNCHANGED <<svars, nadm, nres>>

WAdvance(d) == Advance(d) /\ UNCHANGED wvars

\* ------------------------------------------------------------------ properties
\* in flight = handed out - resolved = admitted requests that are still inside a wrapper
WrapConservation ==
  /\ nres <= nadm
  /\ Cardinality(Holding) = nadm - nres
  /\ kind = "adaptive" => flying = nadm - nres
  /\ kind = "nop" => flying = 0
  /\ \A r \in Holding : reqs[r].pid \in DOMAIN open
  /\ \A r1, r2 \in Holding : r1 # r2 => reqs[r1].pid # reqs[r2].pid
  /\ Cardinality(DOMAIN open) = Cardinality(Holding)
\* every request has left the wrappers: nothing is in flight, so nothing can be shed
QuiescentZero == Holding = {} => (flying = 0 /\ open = <<>> /\ ~(\E s \in SenseSet(TRUE) : AllowOK(TRUE, TRUE, s)))
WrapWellFormed ==
  \A r \in DOMAIN reqs :
    /\ reqs[r].st \in {"entered", "shed", "admitted", "ended", "resolved"}
    /\ (reqs[r].st \in {"entered", "shed"}) => reqs[r].pid = 0
    /\ (reqs[r].st = "resolved") => reqs[r].pid \notin DOMAIN open
=============================================================================
