SPECIFICATION ISpec
CONSTANTS
  CoolOff = 4
  DefRt = 4
  S = 100
  Band = 2
  ObsBand = 1
  NB = 3
  BD = 2
  Gaps = {1}
  MaxIn = 2
  MaxOps = 4
  Kinds = {"adaptive"}
  AvgInits = {0}
  Variant = "inline"
  Atomic = FALSE
  Emit = FALSE
INVARIANTS WrapAllowed

CHECK_DEADLOCK FALSE
