---------------------------- MODULE ShedderImpl ----------------------------
(* Layer I for C02: the algorithm of core/load/adaptiveshedder.go on top of
   core/collection/rollingwindow.go (IgnoreCurrentBucket), one call at a time, running in
   lock-step with the law Shedder.tla.

     * passCounter / rtCounter: rings of nb buckets of bd ms with lazy expiry -- `off`
       is the newest bucket, `lastT` its start; expired buckets are cleared by the next
       Add (updateOffset) and skipped by Reduce (span); Reduce leaves out the current
       bucket.  Both rings are created and written together, so one ring of [n, s]
       (passes, latency sum) stands for the pair;
     * maxPass = max(1, peak n); minRt = min(DefRt, min Round(s / n));
       maxFlight = max(maxPass * minRt / bd, 1);
     * overloadFactor f in [0.1, 1] from the CPU headroom: a free choice per Allow here;
     * highThru = avgFlying > maxFlight * f  /\  flying > maxFlight * f;
     * shouldDrop = (systemOverloaded \/ stillHot) /\ highThru; systemOverloaded stamps
       overloadTime; stillHot (only evaluated when not overloaded) clears
       droppedRecently once the cool-off has expired; a drop sets droppedRecently;
     * Allow: flying++ on admission; Pass / Fail: flying--, avgFlying = 0.9 avgFlying +
       0.1 flying; Pass adds the latency (ms) and 1 to the current buckets.

   Every step takes the *effect* of the corresponding Shedder.tla action and records in
   `ok` whether its *guard* held.  TLC checks  ok  (every decision of the algorithm is
   inside the law's envelope, for every factor) and  Agree  (counter, average, cool-off
   bookkeeping and the ring -- read the way Reduce reads it -- are what the law says).
   The same model prints one operation history per distinct reachable state for replay
   on the real shedder.

   Variant "code" is go-zero.  Documented counterexamples: "current" (Reduce does not
   leave out the current bucket), "or" (shouldDrop with \/ instead of /\), "failleak"
   (Fail does not decrement), and Factors (in tenths) containing 0 (lower bound of the
   overload factor removed).                                                        *)
EXTENDS Shedder, Json

CONSTANTS NB, BD, Gaps, MaxFly, MaxOps, Factors, AvgInits, Variant, Emit, ViewKind

VARIABLES
  ring,    \* bucket index 0..NB-1 |-> [n, s]
  off,     \* index of the newest bucket
  lastT,   \* start time of the newest bucket
  ifly,    \* adaptiveShedder.flying
  iavg,    \* adaptiveShedder.avgFlying (x S)
  iovt,    \* overloadTime (None: zero value)
  idrp,    \* droppedRecently
  ok,      \* every step so far was allowed by Shedder.tla
  nc,      \* operations so far; id of the latest Allow = number of Allows so far
  na,
  hist     \* operation history (test generation; hidden by the VIEW)

ivars == <<ring, off, lastT, ifly, iavg, iovt, idrp, ok, nc, na>>
vars == <<svars, ivars, hist>>

Zero2 == [n |-> 0, s |-> 0]

\* ---------------------------------------------------------------- rolling window
Span == LET o == (now - lastT) \div BD IN IF o < NB THEN o ELSE NB

\* the buckets Reduce visits, oldest first
Live ==
  LET sp == Span
      diff == IF sp = 0 /\ Variant # "current" THEN NB - 1 ELSE NB - sp
  IN [i \in 1..diff |-> ring[(off + sp + i) % NB]]

RECURSIVE IPeak(_, _)
IPeak(v, k) == IF k > Len(v) THEN 1 ELSE Max2(v[k].n, IPeak(v, k + 1))
\* math.Round(sum / count), half away from zero
Round(s, n) == (2 * s + n) \div (2 * n)
RECURSIVE IMinRt(_, _)
IMinRt(v, k) ==
  IF k > Len(v) THEN DefRt
  ELSE IF v[k].n <= 0 THEN IMinRt(v, k + 1)
  ELSE Min2(Round(v[k].s, v[k].n), IMinRt(v, k + 1))

MaxPass == IPeak(Live, 1)
MinRt == IMinRt(Live, 1)

\* Add(v): updateOffset, then add into the current bucket
IAdd(lat) ==
  LET sp == Span
      cleared == [j \in 0..(NB - 1) |->
                    IF \E i \in 0..(sp - 1) : j = (off + 1 + i) % NB THEN Zero2 ELSE ring[j]]
      off2 == (off + sp) % NB
  IN /\ ring' = [cleared EXCEPT ![off2] = [n |-> @.n + 1, s |-> @.s + lat]]
     /\ off' = off2
     /\ lastT' = IF sp > 0 THEN now - ((now - lastT) % BD) ELSE lastT

\* ---------------------------------------------------------------- shouldDrop
\* avgFlying > maxFlight * f /\ flying > maxFlight * f, f = fr[1] / fr[2], in integers
HighThru(fr) ==
  LET num == MaxPass * MinRt
  IN IF num >= BD      \* maxFlight = num / BD >= 1
       THEN iavg * BD * fr[2] > S * num * fr[1] /\ ifly * BD * fr[2] > num * fr[1]
       ELSE iavg * fr[2] > S * fr[1] /\ ifly * fr[2] > fr[1]

\* systemOverloaded() / stillHot(): [j, ovt, drp] after the evaluation
ISense(ov) ==
  IF ov THEN [j |-> TRUE, ovt |-> now, drp |-> idrp]
  ELSE IF ~idrp \/ iovt = None THEN [j |-> FALSE, ovt |-> iovt, drp |-> idrp]
  ELSE IF now - iovt < CoolOff THEN [j |-> TRUE, ovt |-> iovt, drp |-> TRUE]
  ELSE [j |-> FALSE, ovt |-> iovt, drp |-> FALSE]

\* ---------------------------------------------------------------- steps
IInit ==
  /\ \E a \in AvgInits :
       /\ kind = "adaptive" /\ nb = NB /\ bd = BD /\ now = 0 /\ open = <<>> /\ flying = 0
       /\ avg = a /\ avgOK = TRUE /\ win = <<>> /\ ovt = None /\ drp = FALSE
       /\ calls = <<>> /\ res = <<>> /\ last = NoDecision
       /\ iavg = a
  /\ ring = [j \in 0..(NB - 1) |-> Zero2] /\ off = 0 /\ lastT = 0
  /\ ifly = 0 /\ iovt = None /\ idrp = FALSE
  /\ ok = TRUE /\ nc = 0 /\ na = 0 /\ hist = <<>>

IAdvance(d) ==
  /\ Advance(d)
  /\ nc' = nc + 1
  /\ UNCHANGED <<ring, off, lastT, ifly, iavg, iovt, idrp, ok, na>>
  /\ hist' = Append(hist, [op |-> "adv", d |-> d, id |-> 0, ov |-> FALSE])

IAllow(ov, fr) ==
  LET s == ISense(ov)
      shed == IF Variant = "or" THEN s.j \/ HighThru(fr) ELSE s.j /\ HighThru(fr)
      id == na + 1
  IN /\ Cardinality(DOMAIN open) < MaxFly
     /\ AllowEff(id, ov, shed, s)
     /\ ok' = (ok /\ s \in SenseSet(ov) /\ AllowOK(ov, shed, s))
     /\ iovt' = s.ovt
     /\ idrp' = IF shed THEN TRUE ELSE s.drp
     /\ ifly' = IF shed THEN ifly ELSE ifly + 1
     /\ nc' = nc + 1 /\ na' = id
     /\ UNCHANGED <<ring, off, lastT, iavg>>
     /\ hist' = Append(hist, [op |-> "allow", d |-> 0, id |-> id, ov |-> ov])

IResolve(id, how) ==
  /\ Resolve(id, how)
  /\ LET f2 == IF how = "fail" /\ Variant = "failleak" THEN ifly ELSE ifly - 1 IN
       /\ ifly' = f2
       /\ iavg' = NextAvg(iavg, f2)
  /\ IF how = "pass" THEN IAdd(now - open[id]) ELSE UNCHANGED <<ring, off, lastT>>
  /\ nc' = nc + 1
  /\ UNCHANGED <<iovt, idrp, ok, na>>
  /\ hist' = Append(hist, [op |-> how, d |-> 0, id |-> id, ov |-> FALSE])

INext ==
  /\ nc < MaxOps
  /\ \/ \E d \in Gaps : IAdvance(d)
     \/ \E ov \in BOOLEAN, k \in Factors : IAllow(ov, <<k, 10>>)   \* Factors: tenths
     \/ \E id \in DOMAIN open, how \in {"pass", "fail"} : IResolve(id, how)

ISpec == IInit /\ [][INext]_vars

\* ---------------------------------------------------------------- what TLC checks
Allowed == ok
Agree ==
  /\ ifly = flying /\ iavg = avg /\ iovt = ovt /\ idrp = drp
  /\ MaxPass = Peak
  /\ MinLoFrom(Vis, 1) <= MinRt /\ MinRt <= MinHiFrom(Vis, 1)
RingShape ==
  /\ off \in 0..(NB - 1) /\ lastT <= now /\ lastT % BD = 0
  /\ \A j \in 0..(NB - 1) : ring[j].n >= 0 /\ ring[j].s >= 0

\* ---------------------------------------------------------------- test generation
\* states that differ only by a shift in time (and the matching rotation of the ring)
\* or by the names of the outstanding promises behave alike
Rel(t) == IF t = None THEN None ELSE Min2(now - t, CoolOff + 1)
Ages == {now - open[id] : id \in DOMAIN open}
View == <<now % BD, [a \in Ages |-> Cardinality({id \in DOMAIN open : now - open[id] = a})],
          flying, avg, [k \in 1..Len(win) |-> [a |-> WN - win[k].i, n |-> win[k].n, s |-> win[k].s]],
          Rel(ovt), drp, last,
          [i \in 0..(NB - 1) |-> ring[(off + i) % NB]], Min2(now - lastT, NB * BD), ifly, iavg, Rel(iovt), idrp, ok>>
\* "full" keeps the operation count (the bound) in the view: exhaustive up to MaxOps
\* whatever the order in which the workers find the states; "gen" drops it (single worker, BFS)
TheView == IF ViewKind = "gen" THEN View ELSE <<View, nc>>
PrintHist == (Emit /\ Len(hist) > 0) => PrintT("TRACE " \o ToJson(hist))
=============================================================================
