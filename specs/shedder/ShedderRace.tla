---------------------------- MODULE ShedderRace ----------------------------
(* Layer I, concurrency of adaptiveShedder.Allow / promise.Pass|Fail at a fixed clock.
   shouldDrop is not one critical section: systemOverloaded() stamps overloadTime (a1);
   stillHot() reads droppedRecently (a2a), then overloadTime (a2b), and clears the flag
   in a third step if the cool-off has expired (a2c); highThru() reads the counter (a4);
   a drop sets droppedRecently (a6), an admission increments the counter (a5) -- each a
   separate atomic operation.  Pass / Fail decrement the counter atomically (p1).
   (The capacity estimate is constant while the clock stands still: completed buckets
   are immutable and the current one is ignored.  The average is taken as "high", the
   worst case for the safety half.)

   Next to the implementation state the model keeps the state of the law (Shedder.tla,
   overlapping calls): CSense at the instant the code finishes its CPU / cool-off
   evaluation, CDecide at the instant the code reads the counter, RApply at p1.
   Question: with these linearisation points, is every shed allowed by the law
   (justified by "overloaded or hot" and by the law's in-flight count >= Need), and is
   the counter conserved?

     OvProcs = {} or = Procs (every call of the burst sees the same CPU verdict -- what
                 the concurrent driver does): yes (ShedderRace.cfg, ShedderRaceHot.cfg).
     mixed:      no (ShedderRaceMixed.cfg): cool-off expired and flag still set; A (not
                 overloaded) reads the flag and the stale overloadTime and is about to
                 clear the flag (the law: shedding is over from here on); B (overloaded)
                 stamps overloadTime; C (not overloaded) still reads the flag = TRUE and
                 now a fresh overloadTime, considers itself hot and sheds -- the law saw
                 shedding end before C sensed.  Design-level corner (three calls, mixed
                 CPU verdicts exactly across an expiring cool-off); not reproduced on the
                 code: the concurrent driver keeps the CPU verdict constant per burst.   *)
EXTENDS Integers, FiniteSets, TLC

CONSTANTS
  Procs,     \* calls racing in the burst
  OvProcs,   \* those that find the CPU overloaded
  Holders,   \* promises admitted earlier, resolved during the burst
  Need,      \* law: a shed needs flying >= Need (10 % of the estimate, ties included)
  ImplThr,   \* code: highThru iff flying > ImplThr (ImplThr >= Need - 1: factor >= 0.1)
  Drp0, Ovt0 \* initial droppedRecently, overloadTime in {"none", "old", "fresh"}

ASSUME ImplThr >= Need - 1

VARIABLES
  pc,     \* p |-> program counter
  rd,     \* p |-> value of droppedRecently p read at a2a
  ifly, idrp, iovt,    \* implementation: flying, droppedRecently, overloadTime
  lfly, ldrp, lovt,    \* the law's state
  lj,     \* p |-> justification the law's CSense gave p
  ok      \* every shed so far was allowed by the law
vars == <<pc, rd, ifly, idrp, iovt, lfly, ldrp, lovt, lj, ok>>

All == Procs \cup Holders

Init ==
  /\ pc = [p \in All |-> IF p \in Holders THEN "holding" ELSE "idle"]
  /\ rd = [p \in All |-> FALSE]
  /\ ifly = Cardinality(Holders) /\ lfly = Cardinality(Holders)
  /\ idrp = Drp0 /\ ldrp = Drp0 /\ iovt = Ovt0 /\ lovt = Ovt0
  /\ lj = [p \in All |-> FALSE] /\ ok = TRUE

Go(p, l) == pc' = [pc EXCEPT ![p] = l]

\* the law's CSense for a call that is not overloaded, on the law's state
LawSenseCold(p) ==
  /\ lj' = [lj EXCEPT ![p] = ldrp /\ lovt = "fresh"]
  /\ ldrp' = IF ldrp /\ lovt = "old" THEN FALSE ELSE ldrp
  /\ UNCHANGED lovt

\* the law's CDecide(admit)
LawAdmit == lfly' = lfly + 1 /\ UNCHANGED ldrp

Start(p) == pc[p] = "idle" /\ Go(p, "a1") /\ UNCHANGED <<rd, ifly, idrp, iovt, lfly, ldrp, lovt, lj, ok>>

\* systemOverloaded()
A1(p) ==
  /\ pc[p] = "a1"
  /\ IF p \in OvProcs
       THEN /\ iovt' = "fresh" /\ lovt' = "fresh" /\ lj' = [lj EXCEPT ![p] = TRUE]   \* CSense(ov)
            /\ Go(p, "a4")
       ELSE /\ UNCHANGED <<iovt, lovt, lj>> /\ Go(p, "a2a")
  /\ UNCHANGED <<rd, ifly, idrp, lfly, ldrp, ok>>

\* stillHot(): droppedRecently.True()
A2a(p) ==
  /\ pc[p] = "a2a"
  /\ rd' = [rd EXCEPT ![p] = idrp]
  /\ IF idrp THEN Go(p, "a2b") /\ UNCHANGED <<lj, ldrp, lovt>>
     ELSE Go(p, "a5") /\ LawSenseCold(p)          \* not hot: CSense here
  /\ UNCHANGED <<ifly, idrp, iovt, lfly, ok>>

\* stillHot(): overloadTime.Load() and the comparison
A2b(p) ==
  /\ pc[p] = "a2b"
  /\ LawSenseCold(p)                               \* CSense here
  /\ Go(p, CASE iovt = "none" -> "a5" [] iovt = "fresh" -> "a4" [] OTHER -> "a2c")
  /\ UNCHANGED <<rd, ifly, idrp, iovt, lfly, ok>>

\* stillHot(): droppedRecently.Set(false)
A2c(p) ==
  /\ pc[p] = "a2c" /\ idrp' = FALSE /\ Go(p, "a5")
  /\ UNCHANGED <<rd, ifly, iovt, lfly, ldrp, lovt, lj, ok>>

\* highThru(): atomic.LoadInt64(&flying) -- the decision; CDecide of a justified call here
A4(p) ==
  /\ pc[p] = "a4"
  /\ IF ifly > ImplThr
       THEN /\ Go(p, "a6") /\ ok' = (ok /\ lj[p] /\ lfly >= Need)
            /\ ldrp' = TRUE /\ UNCHANGED lfly
       ELSE /\ Go(p, "a5j") /\ LawAdmit /\ UNCHANGED ok
  /\ UNCHANGED <<rd, ifly, idrp, iovt, lovt, lj>>

A6(p) == pc[p] = "a6" /\ idrp' = TRUE /\ Go(p, "shed")
         /\ UNCHANGED <<rd, ifly, iovt, lfly, ldrp, lovt, lj, ok>>

\* addFlying(1); a call that was not justified decides (admits) here
A5(p) ==
  /\ pc[p] \in {"a5", "a5j"}
  /\ ifly' = ifly + 1 /\ Go(p, "holding")
  /\ IF pc[p] = "a5" THEN LawAdmit ELSE UNCHANGED <<lfly, ldrp>>
  /\ UNCHANGED <<rd, idrp, iovt, lovt, lj, ok>>

\* promise.Pass / Fail: addFlying(-1)
P1(p) ==
  /\ pc[p] = "holding" /\ ifly' = ifly - 1 /\ lfly' = lfly - 1 /\ Go(p, "done")
  /\ UNCHANGED <<rd, idrp, iovt, ldrp, lovt, lj, ok>>

Next == \E p \in All : Start(p) \/ A1(p) \/ A2a(p) \/ A2b(p) \/ A2c(p) \/ A4(p) \/ A6(p) \/ A5(p) \/ P1(p)
Spec == Init /\ [][Next]_vars

Allowed == ok
\* the code's counter never exceeds the law's (the law counts an admission from the decision on)
CounterBelowLaw == ifly <= lfly /\ ifly >= 0
Conserved ==
  (\A p \in All : pc[p] \in {"idle", "holding", "shed", "done"})
     => ifly = Cardinality({p \in All : pc[p] = "holding"}) /\ lfly = ifly
\* the code is hot only when the law is (flag of the code implies flag of the law), at rest
FlagBelowLaw ==
  (\A p \in All : pc[p] \in {"idle", "holding", "shed", "done"}) => (idrp => ldrp)
=============================================================================
