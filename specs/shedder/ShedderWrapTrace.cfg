SPECIFICATION TSpec
CONSTANTS
  CoolOff = 1000
  DefRt = 1000
  S = 100000
  Band = 20
  ObsBand = 10
CONSTRAINT HW
INVARIANTS Conservation ShedJustified ShedWhenMust EnvelopeConsistent WrapConservation QuiescentZero WrapWellFormed
POSTCONDITION Accepted
CHECK_DEADLOCK FALSE
