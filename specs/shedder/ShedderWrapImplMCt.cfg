SPECIFICATION ISpec
CONSTANTS
  CoolOff = 4
  DefRt = 4
  S = 100
  Band = 2
  ObsBand = 1
  NB = 3
  BD = 2
  Gaps = {1, 5}
  MaxIn = 3
  MaxOps = 6
  Kinds = {"adaptive", "nop"}
  AvgInits = {0}
  Variant = "code"
  Atomic = FALSE
  Emit = FALSE
INVARIANTS WrapAllowed WrapAgree Drained WrapConservation QuiescentZero WrapWellFormed Conservation ShedJustified ShedWhenMust EnvelopeConsistent WellFormed
VIEW MCView
CHECK_DEADLOCK FALSE
