-------------------------- MODULE ShedderWrapImpl --------------------------
(* Layer I for C02, request level: the control flow shared by
     rest/handler/sheddinghandler.go            SheddingHandler
     zrpc/internal/serverinterceptors/sheddinginterceptor.go   UnarySheddingInterceptor
   in front of a shedder that obeys Shedder.tla (any lawful answer), running in lock-step
   with the request-level law ShedderWrap.tla.

     wrapper(r):
       allow:    promise, err := shedder.Allow();  err # nil -> answer 503 / ResourceExhausted, exit
       handler:  next.ServeHTTP(cw, r)  /  handler(ctx, req)       -- ends with outcome `out`:
                   "ok" | "failcls" (503 written / errors.Is(err, context.DeadlineExceeded))
                   | "err" (other status / other error) | "panic" (the stack unwinds)
       unwind:   the deferred func: out = "failcls" -> promise.Fail() else promise.Pass()
                 (a defer: it runs for "panic" as well)
       exit:     return to the caller / the panic travels on

   Several requests are inside the wrapper at a time; their steps interleave freely
   (Atomic = FALSE) or -- for test generation, the way the drivers run them: one thing at a
   time, other requests parked in their handlers -- a request that is not parked in its
   handler moves on before anything else happens (Atomic = TRUE).

   Every step takes the matching ShedderWrap.tla action if its guard holds, otherwise it
   records ok = FALSE.  TLC checks  ok  and the invariants of ShedderWrap / Shedder.

   Variant "code" is go-zero.  Documented counterexamples:
     "inline"   the resolution follows handler() in line instead of sitting in a defer: a
                panicking handler skips it (in-flight count leaks upward)
     "double"   Fail() on a failure answer *and* the deferred Pass()
     "early"    the promise is passed right after Allow, before the handler has run
     "errleak"  an early `return` on a handler error skips the resolution              *)
EXTENDS ShedderWrap, Json

CONSTANTS NB, BD, Gaps, MaxIn, MaxOps, Kinds, AvgInits, Variant, Atomic, Emit

VARIABLES
  req,    \* r |-> [pc, ov, out, pid, left]: the wrapper invocations in progress
  ok,     \* every step so far was allowed by the law
  nops,   \* driver-level operations so far (start / finish / adv)
  nreq,   \* requests started so far (request names are 1, 2, ...)
  na,     \* Allow calls so far (promise names)
  hist    \* driver-level operation history (test generation)

ivars == <<req, ok, nops, nreq, na>>
vars == <<wsvars, ivars, hist>>

Parked == {r \in DOMAIN req : req[r].pc = "handler"}
Active == DOMAIN req \ Parked
\* position of r among the parked requests, oldest first (what the driver is told)
PosOf(r) == Cardinality({x \in Parked : x <= r})

Free == (~Atomic) \/ Active = {}
Only(r) == (~Atomic) \/ Active \subseteq {r}

Log(e) == hist' = IF Emit THEN Append(hist, e) ELSE hist
NoLog == hist' = hist

\* take the law's step if it is allowed, else remember that it was not
Lawful(G, A) == IF G THEN A /\ ok' = ok ELSE ok' = FALSE /\ UNCHANGED wsvars

IInit ==
  /\ \E k \in Kinds, a \in AvgInits :
       /\ kind = k /\ nb = NB /\ bd = BD /\ now = 0 /\ open = <<>> /\ flying = 0
       /\ avg = (IF k = "nop" THEN 0 ELSE a) /\ avgOK = TRUE /\ win = <<>> /\ ovt = None /\ drp = FALSE
       /\ calls = <<>> /\ res = <<>> /\ last = NoDecision
  /\ WInit
  /\ req = <<>> /\ ok = TRUE /\ nops = 0 /\ nreq = 0 /\ na = 0 /\ hist = <<>>

IAdvance(d) ==
  /\ Free /\ nops < MaxOps
  /\ WAdvance(d)
  /\ nops' = nops + 1
  /\ UNCHANGED <<req, ok, nreq, na>>
  /\ Log([op |-> "adv", d |-> d, ov |-> FALSE, k |-> 0, out |-> "none"])

\* a request is handed to the wrapper
IEnter(ov) ==
  LET r == nreq + 1 IN
  /\ Free /\ nops < MaxOps /\ Cardinality(DOMAIN req) < MaxIn
  /\ Lawful(WEnterG(r), WEnter(r))
  /\ req' = With(req, r, [pc |-> "allow", ov |-> ov, out |-> "none", pid |-> 0, left |-> 0])
  /\ nreq' = r /\ nops' = nops + 1
  /\ UNCHANGED na
  /\ Log([op |-> "start", d |-> 0, ov |-> ov, k |-> 0, out |-> "none"])

\* promise, err := shedder.Allow()
IAllow(r) ==
  LET id == na + 1 IN
  /\ r \in DOMAIN req /\ req[r].pc = "allow" /\ Only(r)
  /\ \E shed \in BOOLEAN :
       /\ WAllow(r, id, req[r].ov, shed)     \* the shedder may give any lawful answer
       /\ req' = [req EXCEPT ![r].pc = IF shed THEN "exit" ELSE IF Variant = "early" THEN "early" ELSE "handler",
                             ![r].pid = IF shed THEN 0 ELSE id]
  /\ na' = id
  /\ UNCHANGED <<ok, nops, nreq>> /\ NoLog

IResolveCall(r, how, nextpc) ==
  /\ Lawful(WResolveG(r, req[r].pid), WResolve(r, req[r].pid, how))
  /\ req' = [req EXCEPT ![r].pc = nextpc, ![r].left = @ - 1]

\* variant "early": promise.Pass() before the handler runs
IEarly(r) ==
  /\ r \in DOMAIN req /\ req[r].pc = "early" /\ Only(r)
  /\ Lawful(WResolveG(r, req[r].pid), WResolve(r, req[r].pid, "pass"))
  /\ req' = [req EXCEPT ![r].pc = "handler"]
  /\ UNCHANGED <<nops, nreq, na>> /\ NoLog

\* the handler ends; the number of resolutions the wrapper's code is going to perform
Resolutions(out) ==
  CASE Variant = "inline" /\ out = "panic" -> 0
    [] Variant = "errleak" /\ out = "err" -> 0
    [] Variant = "double" /\ out = "failcls" -> 2
    [] Variant = "early" -> 0
    [] OTHER -> 1

IHandlerEnd(r, out) ==
  /\ r \in Parked /\ Free /\ nops < MaxOps
  /\ Lawful(WDoneG(r), WDone(r, out))
  /\ req' = [req EXCEPT ![r].pc = IF Resolutions(out) = 0 THEN "exit" ELSE "unwind",
                        ![r].out = out, ![r].left = Resolutions(out)]
  /\ nops' = nops + 1
  /\ UNCHANGED <<nreq, na>>
  /\ Log([op |-> "finish", d |-> 0, ov |-> FALSE, k |-> PosOf(r), out |-> out])

\* the deferred func (and, variant "double", the explicit Fail before it)
IUnwind(r) ==
  /\ r \in DOMAIN req /\ req[r].pc = "unwind" /\ Only(r)
  /\ LET how == IF req[r].out = "failcls" /\ (Variant # "double" \/ req[r].left = 2) THEN "fail" ELSE "pass"
     IN IResolveCall(r, how, IF req[r].left > 1 THEN "unwind" ELSE "exit")
  /\ UNCHANGED <<nops, nreq, na>> /\ NoLog

\* control goes back to the caller
IExit(r) ==
  /\ r \in DOMAIN req /\ req[r].pc = "exit" /\ Only(r)
  /\ Lawful(WEndG(r), WEnd(r))
  /\ req' = Drop(req, r)
  /\ UNCHANGED <<nops, nreq, na>> /\ NoLog

INext ==
  \/ \E d \in Gaps : IAdvance(d)
  \/ \E ov \in BOOLEAN : IEnter(ov)
  \/ \E r \in DOMAIN req : IAllow(r) \/ IEarly(r) \/ IUnwind(r) \/ IExit(r)
  \/ \E r \in Parked, out \in Outs : IHandlerEnd(r, out)

ISpec == IInit /\ [][INext]_vars

\* ---------------------------------------------------------------- what TLC checks
WrapAllowed == ok
\* the model's own bookkeeping agrees with the law's
WrapAgree ==
  ok => /\ DOMAIN req = DOMAIN reqs
        /\ \A r \in DOMAIN req :
             /\ (req[r].pc = "allow") = (reqs[r].st = "entered")
             /\ (req[r].pc = "handler") => reqs[r].st = "admitted"
             /\ (req[r].pc = "unwind") => reqs[r].st = "ended"
\* nothing left inside the wrappers: nothing in flight
Drained == (ok /\ req = <<>>) => (flying = 0 /\ nadm = nres)

\* ---------------------------------------------------------------- test generation
Rel(t) == IF t = None THEN None ELSE Min2(now - t, CoolOff + 1)
ReqKey(r) == <<req[r].pc, req[r].ov, req[r].out,
               IF req[r].pid \in DOMAIN open THEN now - open[req[r].pid] ELSE -1>>
GenView == <<kind, now % BD, flying, avg,
             [k \in 1..Len(win) |-> [a |-> WN - win[k].i, n |-> win[k].n, s |-> win[k].s]],
             Rel(ovt), drp, ok,
             [x \in {ReqKey(r) : r \in DOMAIN req} |-> Cardinality({r \in DOMAIN req : ReqKey(r) = x})],
             \* the latest outcome is part of the state a history is generated for:
             \* every (state, way the latest handler ended) gets its own history
             IF Len(hist) > 0 THEN hist[Len(hist)].out ELSE "none",
             \* the operation count: only complete histories (nops = MaxOps) are printed, every shorter
             \* one is a prefix of a printed one
             nops>>
\* model checking: states that differ only by a shift in time behave alike
MCView == <<kind, now % BD, [id \in DOMAIN open |-> now - open[id]], flying, avg, avgOK,
            [k \in 1..Len(win) |-> [a |-> WN - win[k].i, n |-> win[k].n, s |-> win[k].s]],
            Rel(ovt), drp, last, reqs, nadm, nres, req, ok, nops, nreq, na>>
PrintHist == (Emit /\ Active = {} /\ nops = MaxOps) => PrintT("TRACE " \o ToJson(hist))
=============================================================================
