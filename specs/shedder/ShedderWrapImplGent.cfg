SPECIFICATION ISpec
CONSTANTS
  CoolOff = 4
  DefRt = 4
  S = 100
  Band = 2
  ObsBand = 1
  NB = 3
  BD = 2
  Gaps = {1, 5}
  MaxIn = 3
  MaxOps = 5
  Kinds = {"adaptive"}
  AvgInits = {0}
  Variant = "code"
  Atomic = TRUE
  Emit = TRUE
INVARIANTS WrapAllowed PrintHist
VIEW GenView
CHECK_DEADLOCK FALSE
