SPECIFICATION ISpec
CONSTANTS
  CoolOff = 40
  DefRt = 40
  S = 100
  Band = 2
  ObsBand = 1
  NB = 3
  BD = 2
  Gaps = {1, 2, 40}
  MaxFly = 4
  MaxOps = 6
  Factors = {1}
  AvgInits = {0}
  Variant = "code"
  Emit = TRUE
  ViewKind = "gen"
INVARIANTS Allowed Agree PrintHist
VIEW TheView
CHECK_DEADLOCK FALSE
