----------------------------- MODULE ShedderMC -----------------------------
(* Exhaustive exploration of the law Shedder.tla itself: an arbitrary environment
   (any CPU trace, any admissible shed / admit answer, any gaps, any order of Pass /
   Fail, up to MaxCalls overlapping calls) against the invariants that make up C02.
   Checks that the two halves of the law never contradict each other
   (EnvelopeConsistent), that the in-flight count is conserved on every path incl.
   overlapping calls, that no shed is unjustified and none happens with nothing in
   flight, and that a nop shedder never sheds.                                      *)
EXTENDS Shedder

CONSTANTS Kinds, NB, BD, Gaps, MaxFly, MaxOps, MaxCalls,
          AvgInits   \* moving averages a shedder with a longer past may start from (x S)

VARIABLE nops      \* operations so far (a bound)

mvars == <<svars, nops>>

Ids == 1..(MaxFly + MaxCalls)
FreeId == CHOOSE x \in Ids : x \notin DOMAIN open /\ x \notin DOMAIN calls
                             /\ \A y \in Ids : (y \notin DOMAIN open /\ y \notin DOMAIN calls) => x <= y

MCInit ==
  /\ nops = 0
  /\ \E k \in Kinds, a \in AvgInits :
       /\ kind = k /\ nb = NB /\ bd = BD /\ now = 0 /\ open = <<>> /\ flying = 0
       /\ avg = (IF k = "nop" THEN 0 ELSE a) /\ avgOK = TRUE /\ win = <<>> /\ ovt = None /\ drp = FALSE
       /\ calls = <<>> /\ res = <<>> /\ last = NoDecision

Op(A) == nops < MaxOps /\ nops' = nops + 1 /\ A
In(A) == A /\ UNCHANGED nops

MCNext ==
  \/ Op(Quiet /\ \E d \in Gaps : Advance(d))
  \/ Op(Cardinality(DOMAIN open) < MaxFly /\ \E ov \in BOOLEAN, shed \in BOOLEAN : Allow(FreeId, ov, shed))
  \/ Op(\E id \in DOMAIN open, how \in {"pass", "fail"} : Resolve(id, how))
  \/ Op(/\ Cardinality(DOMAIN calls) + Cardinality(DOMAIN res) < MaxCalls
        /\ Cardinality(DOMAIN open) + Cardinality(DOMAIN calls) < MaxFly
        /\ \E ov \in BOOLEAN : CStart(FreeId, ov))
  \/ Op(/\ Cardinality(DOMAIN calls) + Cardinality(DOMAIN res) < MaxCalls
        /\ \E id \in DOMAIN open, how \in {"pass", "fail"} : RStart(id, how))
  \/ In(\E c \in DOMAIN calls : CSense(c) \/ (\E shed \in BOOLEAN : CDecide(c, shed) \/ CEnd(c, shed)))
  \/ In(\E id \in DOMAIN res : RApply(id) \/ REnd(id))

MCSpec == MCInit /\ [][MCNext]_mvars

\* states that differ only by a shift in time behave alike
Rel(t) == IF t = None THEN None ELSE Min2(now - t, CoolOff + 1)
View == <<kind, now % bd, [id \in DOMAIN open |-> now - open[id]], flying, avg, avgOK,
          [k \in 1..Len(win) |-> [a |-> WN - win[k].i, n |-> win[k].n, s |-> win[k].s]],
          Rel(ovt), drp, calls, res, last, nops>>

\* a nop shedder never sheds (Allow / CDecide with shed = TRUE are disabled for it)
NopNeverSheds == kind = "nop" => ~last.shed
NothingInFlightNoShed == last.shed => last.fly >= 1
=============================================================================
