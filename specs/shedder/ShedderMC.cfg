SPECIFICATION MCSpec
CONSTANTS
  CoolOff = 4
  DefRt = 4
  S = 100
  Band = 2
  ObsBand = 1
  Kinds = {"adaptive", "nop"}
  NB = 3
  BD = 2
  Gaps = {1, 2, 5}
  MaxFly = 4
  MaxOps = 5
  MaxCalls = 2
  AvgInits = {0, 130, 320}
INVARIANTS Conservation ShedJustified ShedWhenMust EnvelopeConsistent WellFormed NopNeverSheds NothingInFlightNoShed
VIEW View
CHECK_DEADLOCK FALSE
