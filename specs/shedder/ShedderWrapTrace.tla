-------------------------- MODULE ShedderWrapTrace --------------------------
(* Trace validation for C02 at request level: the events recorded while requests travel
   through the real rest/handler SheddingHandler and the real zRPC
   UnarySheddingInterceptor (alone, or inside the chain go-zero builds around them: REST
   TimeoutHandler / RecoverHandler behind the shedding handler, zRPC UnaryRecoverInterceptor
   in front of and UnaryTimeoutInterceptor behind the shedding interceptor) in front of a
   real adaptive (or disabled) shedder must be a behaviour of ShedderWrap.tla -- the law of
   Shedder.tla plus the promise-resolution protocol.

   Logged events (the drivers do one thing at a time: other requests stay parked inside
   their handlers; harness order = one total order; times in ms):
     reset{kind,nb,bd}   adv{d}
     hin{r}                         request r is handed to the wrapper
     allow{r,id,ov,shed,fly,avg}    the Allow the wrapper performed (recording shedder; r = the
                                    request being handed in at that moment)
     hdone{r,out}                   what the wrapper called as its handler has ended (logged in a
                                    defer around it): out = ok | failcls | err | panic, as observed
     pass{r,id,fly,avg}  fail{r,id,fly,avg}   the resolution the wrapper performed (r = the request
                                    promise id was handed to)
     hend{r,how}                    the wrapper gave control back (how = ret | panic, informative)
   fly / avg: white-box readings of adaptiveShedder.flying and avgFlying x S after the call.  *)
EXTENDS ShedderWrap, TraceKit

VARIABLE l
tvars == <<wsvars, l>>

E == Trace[l]

IsEvent(e) == l <= Len(Trace) /\ E.e = e /\ l' = l + 1

\* white-box readings taken after the step
Seen == /\ (kind' = "adaptive" /\ E.fly >= 0) => E.fly = flying'
        /\ (kind' = "adaptive" /\ E.avg >= 0 /\ avgOK') => (E.avg - avg' <= ObsBand /\ avg' - E.avg <= ObsBand)

TReset == IsEvent("reset") /\ Fresh(E.kind, E.nb, E.bd) /\ WFresh
TAdv   == IsEvent("adv") /\ WAdvance(E.d)
TIn    == IsEvent("hin") /\ WEnter(E.r)
TAllow == IsEvent("allow") /\ WAllow(E.r, E.id, E.ov, E.shed) /\ Seen
TDone  == IsEvent("hdone") /\ WDone(E.r, E.out)
TPass  == IsEvent("pass") /\ WResolve(E.r, E.id, "pass") /\ Seen
TFail  == IsEvent("fail") /\ WResolve(E.r, E.id, "fail") /\ Seen
TEnd   == IsEvent("hend") /\ WEnd(E.r)

TInit == SInit("adaptive", 1, 1) /\ WInit /\ l = 1
TNext == TReset \/ TAdv \/ TIn \/ TAllow \/ TDone \/ TPass \/ TFail \/ TEnd
TSpec == TInit /\ [][TNext]_tvars

HW == HighWater(l)
=============================================================================
