------------------------------- MODULE SafeMap -------------------------------
(* Layer P reference model of collection.SafeMap (property C16): a plain map.
   The map is a total function over the key universe 1..mK with 0 for "absent"
   (values are >= 1), so that histories of tens of thousands of operations over
   a thousand keys validate in one linear TLC pass.                              *)
EXTENDS Integers, Sequences, FiniteSets, CollUtil

VARIABLES
  mK,     \* key universe is 1..mK
  mm,     \* key |-> value, 0 = absent
  mout    \* observable result of the last operation

mvars == <<mK, mm, mout>>

MNone == [op |-> "none"]
MStart(K) == mK' = K /\ mm' = [k \in 1..K |-> 0] /\ mout' = MNone
MIdle == mK = 0 /\ mm = <<>> /\ mout = MNone

MPresent == {k \in 1..mK : mm[k] # 0}

MSet(k, v) ==
  /\ k \in 1..mK /\ v >= 1
  /\ mm' = [mm EXCEPT ![k] = v]
  /\ mout' = [op |-> "set"]
  /\ UNCHANGED mK

MDel(k) ==
  /\ k \in 1..mK
  /\ mm' = [mm EXCEPT ![k] = 0]
  /\ mout' = [op |-> "del"]
  /\ UNCHANGED mK

MGet(k) ==
  /\ k \in 1..mK
  /\ mout' = [op |-> "get", ok |-> mm[k] # 0, v |-> mm[k]]
  /\ UNCHANGED <<mK, mm>>

MSize ==
  /\ mout' = [op |-> "size", n |-> Cardinality(MPresent)]
  /\ UNCHANGED <<mK, mm>>

\* Range(f) where f returns false at its stop-th call (stop = 0: never): f is called
\* once for each of min(stop, size) distinct present keys, with the key's value
\* (which keys, and in which order, is not specified)
MRange(stop, kvs) ==
  /\ LET n == Cardinality(MPresent)
     IN Len(kvs) = IF stop = 0 \/ stop > n THEN n ELSE stop
  /\ \A i \in DOMAIN kvs : kvs[i][1] \in 1..mK /\ mm[kvs[i][1]] # 0 /\ mm[kvs[i][1]] = kvs[i][2]
  /\ Cardinality({kvs[i][1] : i \in DOMAIN kvs}) = Len(kvs)
  /\ mout' = [op |-> "range"]
  /\ UNCHANGED <<mK, mm>>
=============================================================================
