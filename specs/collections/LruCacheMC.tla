----------------------------- MODULE LruCacheMC -----------------------------
(* Exhaustive exploration of the cache reference model for small constants, and
   generation of one operation history per distinct reachable state.            *)
EXTENDS LruCache, Json, TLC

CONSTANTS Limits, CKeySet, Bands, MaxOps, Emit

VARIABLES
  hist,     \* operation history (test generation)
  gdef,     \* the cache's default expiry (ms): used by Set and by the Set inside Take
  glast,    \* ghost: key |-> the latest value stored for it (by Set or a Take load), ever
  gprev     \* ghost: recency order before the last operation

mvars == <<climit, cdata, corder, cdl, ctick, cout, hist, gdef, glast, gprev>>

MInit == /\ climit \in Limits /\ cdata = <<>> /\ corder = <<>> /\ cdl = <<>> /\ ctick = 0
         /\ cout = CNone /\ hist = <<>> /\ gdef \in Bands /\ glast = <<>> /\ gprev = <<>>

V == Len(hist) + 1      \* fresh value per operation

MNext ==
  /\ Len(hist) < MaxOps
  /\ gprev' = corder
  /\ UNCHANGED gdef
  /\ \/ \E k \in CKeySet :                                     \* Set
          /\ CSet(k, V, CLo(gdef), CHi(gdef))
          /\ hist' = Append(hist, [op |-> "set", k |-> k, v |-> V])
          /\ glast' = FUpd(glast, k, V)
     \/ \E k \in CKeySet, b \in Bands \ {gdef} :                  \* SetWithExpire
          /\ CSet(k, V, CLo(b), CHi(b))
          /\ hist' = Append(hist, [op |-> "setx", k |-> k, v |-> V, ms |-> b])
          /\ glast' = FUpd(glast, k, V)
     \/ \E k \in CKeySet : CGet(k) /\ hist' = Append(hist, [op |-> "get", k |-> k]) /\ UNCHANGED glast
     \/ \E k \in CKeySet : CDel(k) /\ hist' = Append(hist, [op |-> "del", k |-> k]) /\ UNCHANGED glast
     \/ \E k \in CKeySet, f \in BOOLEAN :
          /\ CTake(k, V, f, CLo(gdef), CHi(gdef))
          /\ hist' = Append(hist, [op |-> "take", k |-> k, v |-> V, fail |-> f])
          /\ glast' = IF k \notin CKeys /\ ~f THEN FUpd(glast, k, V) ELSE glast
     \/ \E X \in SUBSET CKeys : CTick(X) /\ hist' = Append(hist, [op |-> "tick", k |-> 0]) /\ UNCHANGED glast

MSpec == MInit /\ [][MNext]_mvars

LastK == hist[Len(hist)].k
WasPresent == LastK \in SeqRange(gprev)

\* "returns the latest value set for a key": whatever is present is the latest value stored
LatestOK == /\ \A k \in CKeys : cdata[k] = glast[k]
            /\ cout.op = "get" /\ cout.hit => cout.v = glast[LastK]
            /\ cout.op = "get" => (cout.hit <=> WasPresent)
\* "Take calls the loader only on a miss" (and then returns what the loader returned)
LoaderOK == cout.op = "take" =>
              /\ cout.called <=> ~WasPresent
              /\ ~cout.err => cout.v = glast[LastK]
\* "evicts in least-recently-used order": an operation other than Del/Tick removes at most
\* one key, only when the limit would be exceeded, and that key is the least recently used one
EvictLRU ==
  cout.op \in {"set", "take", "get"} =>
     LET gone == SeqRange(gprev) \ CKeys
     IN /\ Cardinality(gone) <= 1
        /\ gone # {} => /\ climit > 0 /\ Len(gprev) = climit /\ ~WasPresent
                         /\ gone = {gprev[Len(gprev)]}
        /\ corder = IF cout.op = "get" /\ ~cout.hit THEN gprev
                    ELSE IF cout.op = "take" /\ cout.err THEN gprev
                    ELSE <<LastK>> \o SeqWithoutSet(gprev, gone \cup {LastK})

\* values are data; ticks only matter relative to now.  The view keeps everything the
\* invariants read.
View == <<climit, gdef, corder, gprev, [k \in CKeys |-> <<cdl[k].lo - ctick, cdl[k].hi - ctick>>],
          [k \in CKeys |-> cdata[k] = glast[k]],
          IF Len(hist) = 0 THEN <<>> ELSE
            <<cout.op, LastK,
              IF cout.op = "get" THEN <<cout.hit, cout.hit => cout.v = glast[LastK]>>
              ELSE IF cout.op = "take" THEN <<cout.called, cout.err, cout.err \/ cout.v = glast[LastK]>>
              ELSE <<>> >> >>
\* coarser views for test generation: one history per distinct cache state /
\* per distinct (state, operation kind, successor state)
GenView == <<climit, gdef, corder, [k \in CKeys |-> <<cdl[k].lo - ctick, cdl[k].hi - ctick>>]>>
GenView2 == <<gprev, IF Len(hist) = 0 THEN "" ELSE hist[Len(hist)].op, GenView>>
PrintHist == (Emit /\ Len(hist) > 0) => PrintT("TRACE " \o ToJson([limit |-> climit, def |-> gdef, ops |-> hist]))
=============================================================================
