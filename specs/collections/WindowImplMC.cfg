SPECIFICATION ISpec
CONSTANTS
  Sizes = {1, 2, 3, 4}
  Interval = 2
  MaxAdv = 11
  MaxOps = 7
  Variant = "align"
  Emit = FALSE
INVARIANTS Refines WellFormed WRecentOnly WOrdered
VIEW View
CHECK_DEADLOCK FALSE
