----------------------------- MODULE SafeMapImpl -----------------------------
(* Layer I: the two-generation algorithm of core/collection/safemap.go (dirtyOld,
   dirtyNew, deletionOld, deletionNew; migrations in Del, generation switch in Set)
   with the thresholds as constants, in lock-step with the plain map of SafeMap.tla.
   TLC checks that Get/Size/Range of the implementation state always agree with the
   plain map (Refines) and that no key lives in both generations.

   Variant = "code"      : as in go-zero
   Variant = "noUnlink"  : Set into the new generation does not remove the key from
                           the old one (documented counterexample: stale Get, double
                           count in Size)                                            *)
EXTENDS SafeMap, TLC

CONSTANTS MaxDel, CopyTh, NKeys, Vals, MaxOps, Variant

VARIABLES
  iold, inew,     \* dirtyOld, dirtyNew: functions on subsets of 1..NKeys
  idelO, idelN,   \* deletionOld, deletionNew
  gm,             \* ghost: <<first migration happened, second migration happened>> (0/1)
  steps           \* number of operations so far (bounds the exploration)

ivars == <<mK, mm, mout, iold, inew, idelO, idelN, gm, steps>>

IInit == /\ mK = NKeys /\ mm = [k \in 1..NKeys |-> 0] /\ mout = MNone
         /\ iold = <<>> /\ inew = <<>> /\ idelO = 0 /\ idelN = 0 /\ gm = <<0, 0>> /\ steps = 0

Merge(f, g) == [x \in (DOMAIN f) \cup (DOMAIN g) |-> IF x \in DOMAIN g THEN g[x] ELSE f[x]]

ISet(k, v) ==
  /\ MSet(k, v)
  /\ IF idelO <= MaxDel
       THEN /\ inew' = FDrop(inew, k)
            /\ idelN' = IF k \in DOMAIN inew THEN idelN + 1 ELSE idelN
            /\ iold' = FUpd(iold, k, v)
            /\ UNCHANGED <<idelO, gm>>
       ELSE /\ iold' = IF Variant = "noUnlink" THEN iold ELSE FDrop(iold, k)
            /\ idelO' = IF k \in DOMAIN iold THEN idelO + 1 ELSE idelO
            /\ inew' = FUpd(inew, k, v)
            /\ UNCHANGED <<idelN, gm>>

\* Del: remove from whichever generation holds the key, then the two migration checks
IDel(k) ==
  LET o1 == FDrop(iold, k)
      dO1 == IF k \in DOMAIN iold THEN idelO + 1 ELSE idelO
      n1 == IF k \in DOMAIN iold THEN inew ELSE FDrop(inew, k)
      dN1 == IF k \notin DOMAIN iold /\ k \in DOMAIN inew THEN idelN + 1 ELSE idelN
      mig1 == dO1 >= MaxDel /\ Cardinality(DOMAIN o1) < CopyTh
      \* first migration: old is folded into new, which becomes old
      o2 == IF mig1 THEN Merge(n1, o1) ELSE o1
      dO2 == IF mig1 THEN dN1 ELSE dO1
      n2 == IF mig1 THEN <<>> ELSE n1
      dN2 == IF mig1 THEN 0 ELSE dN1
      mig2 == dN2 >= MaxDel /\ Cardinality(DOMAIN n2) < CopyTh
      \* second migration: new is folded into old
      o3 == IF mig2 THEN Merge(o2, n2) ELSE o2
      n3 == IF mig2 THEN <<>> ELSE n2
      dN3 == IF mig2 THEN 0 ELSE dN2
  IN /\ MDel(k)
     /\ iold' = o3 /\ inew' = n3 /\ idelO' = dO2 /\ idelN' = dN3
     /\ gm' = <<IF mig1 THEN 1 ELSE gm[1], IF mig2 THEN 1 ELSE gm[2]>>

INext ==
  /\ steps < MaxOps
  /\ steps' = steps + 1
  /\ \/ \E k \in 1..NKeys, v \in Vals : ISet(k, v)
     \/ \E k \in 1..NKeys : IDel(k)

ISpec == IInit /\ [][INext]_ivars

\* ---- what the implementation would answer in this state ----
IGet(k) == IF k \in DOMAIN iold THEN iold[k] ELSE IF k \in DOMAIN inew THEN inew[k] ELSE 0
ISize == Cardinality(DOMAIN iold) + Cardinality(DOMAIN inew)

Refines ==
  /\ \A k \in 1..NKeys : IGet(k) = mm[k]
  /\ ISize = Cardinality(MPresent)
  /\ \A k \in DOMAIN inew : inew[k] = mm[k]        \* Range also visits the new generation
Disjoint == (DOMAIN iold) \cap (DOMAIN inew) = {}

\* steps is hidden
View == <<mm, iold, inew, idelO, idelN, gm>>
\* vacuity guard (expected to be VIOLATED): both migrations occur within the bounds
NeverBothMigrations == gm # <<1, 1>>
=============================================================================
