------------------------------ MODULE CollTrace ------------------------------
(* Trace validation for C16: events recorded from the real core/collection objects
   must be a behaviour of the six reference models.  One module serves all six so
   that one TLC start validates every trace of a run.  Each trace starts with
   {"e":"reset","obj":<which object>, ...parameters}; only the variables of that
   object move until the next reset.  Every event logs what the real call returned;
   it must equal the reference model's result (the *out variable after the step).  *)
EXTENDS Window, LruCache, SafeMap, Queue, Ring, Set, TraceKit

VARIABLE l
tvars == <<wsize, wint, wign, wnow, wadds, wout,
           climit, cdata, corder, cdl, ctick, cout,
           mK, mm, mout, qseq, qout, rn, rseq, rout, sset, sout, l>>

E == Trace[l]
IsEvent(e) == l <= Len(Trace) /\ E.e = e /\ l' = l + 1

KeepW == UNCHANGED wvars
KeepC == UNCHANGED cvars
KeepM == UNCHANGED mvars
KeepQ == UNCHANGED qvars
KeepR == UNCHANGED rvars
KeepS == UNCHANGED svars

\* ---------------------------------------------------------------- reset
\* (re)creates the named object with its parameters, everything else goes idle
IdleW == WStart(1, 1, FALSE)
IdleC == CStart(0)
IdleM == MStart(0)
IdleR == RStart(1)
TReset ==
  /\ IsEvent("reset")
  /\ IF E.obj = "window" THEN WStart(E.size, E.int, E.ign) ELSE IdleW
  /\ IF E.obj = "cache"  THEN CStart(E.limit) ELSE IdleC
  /\ IF E.obj = "map"    THEN MStart(E.K) ELSE IdleM
  /\ IF E.obj = "ring"   THEN RStart(E.n) ELSE IdleR
  /\ QStart /\ SStart
  /\ E.obj \in {"window", "cache", "map", "queue", "ring", "set"}

\* ---------------------------------------------------------------- RollingWindow
\* vals: the values the recording bucket type saw during Reduce (visit order);
\* sum/count: what a second window with the stock Bucket type accumulated.
\* Values are pairwise distinct within a trace, so set + length = bag equality.
TWAdd == IsEvent("w.add") /\ WAdd(E.v) /\ KeepC /\ KeepM /\ KeepQ /\ KeepR /\ KeepS
TWAdv == IsEvent("w.adv") /\ WAdvance(E.d) /\ KeepC /\ KeepM /\ KeepQ /\ KeepR /\ KeepS
TWReduce ==
  /\ IsEvent("w.reduce") /\ WReduce
  /\ Len(E.vals) = Len(wout') /\ SeqRange(E.vals) = SeqRange(wout')
  /\ E.count = Len(wout') /\ E.sum = SeqSum(wout')
  /\ KeepC /\ KeepM /\ KeepQ /\ KeepR /\ KeepS

\* ---------------------------------------------------------------- Cache
\* size: len(cache.data) (white-box drivers; -1 when not observed)
CSizeOK == E.size >= 0 => E.size = Cardinality(DOMAIN cdata')
CRest == KeepW /\ KeepM /\ KeepQ /\ KeepR /\ KeepS
TCSet == IsEvent("c.set") /\ CSet(E.k, E.v, CLo(E.ms), CHi(E.ms)) /\ CSizeOK /\ CRest
TCGet == /\ IsEvent("c.get") /\ CGet(E.k)
         /\ E.hit = cout'.hit /\ (E.hit => E.v = cout'.v)
         /\ CSizeOK /\ CRest
TCDel == IsEvent("c.del") /\ CDel(E.k) /\ CSizeOK /\ CRest
TCTake == /\ IsEvent("c.take") /\ CTake(E.k, E.lv, E.fail, CLo(E.ms), CHi(E.ms))
          /\ E.called = cout'.called /\ E.err = cout'.err /\ (~E.err => E.v = cout'.v)
          /\ CSizeOK /\ CRest
\* expired: keys the expiry callback was run for on this tick (sorted, by the driver).
\* A callback for a key that is not in the cache has no effect a caller could see and is
\* not constrained; the present keys among them are the ones that expire on this tick.
TCTick == /\ IsEvent("c.tick") /\ CTick(SeqRange(E.expired) \cap CKeys)
          /\ CSizeOK /\ CRest

\* ---------------------------------------------------------------- SafeMap
MRest == KeepW /\ KeepC /\ KeepQ /\ KeepR /\ KeepS
TMSet == IsEvent("m.set") /\ MSet(E.k, E.v) /\ MRest
TMDel == IsEvent("m.del") /\ MDel(E.k) /\ MRest
TMGet == IsEvent("m.get") /\ MGet(E.k) /\ E.ok = mout'.ok /\ (E.ok => E.v = mout'.v) /\ MRest
TMSize == IsEvent("m.size") /\ MSize /\ E.n = mout'.n /\ MRest
TMRange == IsEvent("m.range") /\ MRange(E.stop, E.kvs) /\ MRest
\* informational line of the long-history driver (length, migrations seen): no step
TMInfo == IsEvent("m.info") /\ KeepM /\ MRest

\* ---------------------------------------------------------------- Queue
QRest == KeepW /\ KeepC /\ KeepM /\ KeepR /\ KeepS
TQPut == IsEvent("q.put") /\ QPut(E.v) /\ QRest
TQTake == IsEvent("q.take") /\ QTake /\ E.ok = qout'.ok /\ (E.ok => E.v = qout'.v) /\ QRest
TQEmpty == IsEvent("q.empty") /\ QEmpty /\ E.empty = qout'.empty /\ QRest

\* ---------------------------------------------------------------- Ring
RRest == KeepW /\ KeepC /\ KeepM /\ KeepQ /\ KeepS
TRAdd == IsEvent("r.add") /\ RAdd(E.v) /\ RRest
TRTake == IsEvent("r.take") /\ RTake /\ E.vals = rout' /\ RRest

\* ---------------------------------------------------------------- Set
\* elements are typed values {t, v} (Set.tla); the Set may be managed or unmanaged and may
\* hold any mixture of types -- the reference model is the same mathematical set.
\* s.keys: Keys(); s.keysof: KeysInt/KeysInt64/KeysUint/KeysUint64/KeysStr (t says which)
SRest == KeepW /\ KeepC /\ KeepM /\ KeepQ /\ KeepR
TSAdd == IsEvent("s.add") /\ SAdd(E.xs) /\ SRest
TSRemove == IsEvent("s.remove") /\ SRemove(E.x) /\ SRest
TSContains == IsEvent("s.contains") /\ SContains(E.x) /\ E.yes = sout'.yes /\ SRest
TSCount == IsEvent("s.count") /\ SCount /\ E.n = sout'.n /\ SRest
TSKeys == IsEvent("s.keys") /\ SKeys(E.keys) /\ SRest
TSKeysOf == IsEvent("s.keysof") /\ SKeysOf(E.t, E.keys) /\ SRest

TInit == WIdle /\ CIdle /\ MIdle /\ QIdle /\ RIdle /\ SIdle /\ l = 1
TNext == \/ TReset
         \/ TWAdd \/ TWAdv \/ TWReduce
         \/ TCSet \/ TCGet \/ TCDel \/ TCTake \/ TCTick
         \/ TMSet \/ TMDel \/ TMGet \/ TMSize \/ TMRange \/ TMInfo
         \/ TQPut \/ TQTake \/ TQEmpty
         \/ TRAdd \/ TRTake
         \/ TSAdd \/ TSRemove \/ TSContains \/ TSCount \/ TSKeys \/ TSKeysOf
TSpec == TInit /\ [][TNext]_tvars

HW == HighWater(l)
=============================================================================
