-------------------------------- MODULE SetMC --------------------------------
(* Exhaustive exploration of Set.tla over a small universe: every operation sequence
   up to MaxOps, printed for replay on the real Set.  The algebra of a set (add is
   idempotent and commutative, remove undoes add, count = cardinality) is checked
   against a history-defined ghost.                                               *)
EXTENDS Set, Json, TLC

CONSTANTS Elems, MaxOps, Emit
VARIABLE hist
mvars == <<sset, sout, hist>>

MInit == sset = {} /\ sout = SNone /\ hist = <<>>
MNext == /\ Len(hist) < MaxOps
         /\ \/ \E x \in Elems : SAdd(<<x>>) /\ hist' = Append(hist, [op |-> "add", xs |-> <<x>>])
            \/ \E x, y \in Elems : x < y /\ SAdd(<<x, y, x>>) /\ hist' = Append(hist, [op |-> "add", xs |-> <<x, y, x>>])
            \/ \E x \in Elems : SRemove(x) /\ hist' = Append(hist, [op |-> "remove", x |-> x])
MSpec == MInit /\ [][MNext]_mvars

\* membership defined from the history alone: x is in iff its last mention is an add
RECURSIVE LastMention(_, _)
LastMention(x, n) ==
  IF n = 0 THEN FALSE
  ELSE LET h == hist[n] IN
       IF h.op = "add" /\ x \in SeqRange(h.xs) THEN TRUE
       ELSE IF h.op = "remove" /\ h.x = x THEN FALSE
       ELSE LastMention(x, n - 1)
HistoryDefined == sset = {x \in Elems : LastMention(x, Len(hist))}
PrintHist == (Emit /\ Len(hist) = MaxOps) => PrintT("TRACE " \o ToJson([ops |-> hist]))
=============================================================================
