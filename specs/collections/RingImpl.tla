------------------------------ MODULE RingImpl ------------------------------
(* Layer I: core/collection/ring.go -- elements[index % n] = v; index++ and folded
   back by n once it reaches 2n; Take reads size/start from index -- in lock-step
   with Ring.tla.  Refines: what Take would return now is the reference content.

   Variant = "code"  : as in go-zero
   Variant = "fold0" : the overflow guard folds index back to index - 2n+... i.e. to 0
                       (documented counterexample: Take forgets the content)        *)
EXTENDS Ring, Json, TLC

CONSTANTS Ns, MaxOps, Variant, Emit

VARIABLES iel, iidx, hist
ivars == <<rn, rseq, rout, iel, iidx, hist>>

IInit == /\ rn \in Ns /\ rseq = <<>> /\ rout = <<>>
         /\ iel = [i \in 0..(rn - 1) |-> 0] /\ iidx = 0 /\ hist = <<>>

IAdd(v) ==
  /\ RAdd(v)
  /\ iel' = [iel EXCEPT ![iidx % rn] = v]
  /\ iidx' = IF iidx + 1 >= 2 * rn
               THEN (IF Variant = "fold0" THEN iidx + 1 - 2 * rn ELSE iidx + 1 - rn)
               ELSE iidx + 1
  /\ hist' = Append(hist, [op |-> "add", v |-> v])

ITakeVals ==
  LET size == IF iidx > rn THEN rn ELSE iidx
      start == IF iidx > rn THEN iidx % rn ELSE 0
  IN [j \in 1..size |-> iel[(start + j - 1) % rn]]

INext == Len(hist) < MaxOps /\ IAdd(Len(hist) + 1)
ISpec == IInit /\ [][INext]_ivars

Refines == ITakeVals = rseq
MCView  == <<rn, rseq, iel, iidx>>
GenView == <<rn, iidx>>
PrintHist == (Emit /\ Len(hist) > 0) => PrintT("TRACE " \o ToJson([n |-> rn, ops |-> hist]))
=============================================================================
