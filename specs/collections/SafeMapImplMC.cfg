SPECIFICATION ISpec
CONSTANTS
  MaxDel = 3
  CopyTh = 2
  NKeys = 3
  Vals = {1, 2}
  MaxOps = 24
  Variant = "code"
INVARIANTS Refines Disjoint
VIEW View
CHECK_DEADLOCK FALSE
