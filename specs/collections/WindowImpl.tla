----------------------------- MODULE WindowImpl -----------------------------
(* Layer I: the algorithm of core/collection/rollingwindow.go -- a ring of wsize
   buckets, `offset` (index of the newest bucket), `lastTime` (start of the newest
   bucket), span()/updateOffset()/Reduce() written as in the code -- running in
   lock-step with the reference model Window.tla.  TLC checks in every reachable
   state that what Reduce would visit now is exactly what the reference model says
   (Refines), for both settings of IgnoreCurrentBucket and every size in Sizes.
   The same run prints one operation history per distinct implementation state
   (BFS-shortest) for replay on the real RollingWindow.

   Variant = "align"   : lastTime is aligned to the interval boundary (the code)
   Variant = "noalign" : lastTime' = now  (the pre-v1.4 behaviour; documented
                         counterexample: buckets then drift and values stay visible
                         for too long / vanish too early)                          *)
EXTENDS Window, Json, TLC

CONSTANTS Sizes, Interval, MaxAdv, MaxOps, Variant, Emit

VARIABLES
  ioff,    \* rw.offset
  ilast,   \* rw.lastTime (units since creation)
  ibk,     \* bucket index 0..wsize-1 |-> sequence of [i, v] added to it (i: ghost, the
           \* interval number at the time of the Add; only the VIEW reads it)
  hist,    \* operation history (test generation; hidden by the VIEW)
  pv       \* the View of the previous state (for transition-cover generation)

ivars == <<wsize, wint, wign, wnow, wadds, wout, ioff, ilast, ibk, hist, pv>>

IInit ==
  /\ wsize \in Sizes /\ wint = Interval /\ wign \in BOOLEAN
  /\ wnow = 0 /\ wadds = <<>> /\ wout = <<>>
  /\ ioff = 0 /\ ilast = 0
  /\ ibk = [b \in 0..(wsize - 1) |-> <<>>]
  /\ hist = <<>> /\ pv = <<>>

ISpan ==
  LET o == (wnow - ilast) \div wint
  IN IF 0 <= o /\ o < wsize THEN o ELSE wsize

\* Add: updateOffset(), then win.add(offset, v)
IAdd(v) ==
  LET span == ISpan
      cleared == {(ioff + i + 1) % wsize : i \in 0..(span - 1)}
      off2 == IF span <= 0 THEN ioff ELSE (ioff + span) % wsize
      bk2  == [b \in 0..(wsize - 1) |-> IF span > 0 /\ b \in cleared THEN <<>> ELSE ibk[b]]
  IN /\ WAdd(v)
     /\ ioff' = off2
     /\ ilast' = IF span <= 0 THEN ilast
                 ELSE IF Variant = "align" THEN wnow - ((wnow - ilast) % wint)
                 ELSE wnow
     /\ ibk' = [bk2 EXCEPT ![off2] = Append(@, [i |-> WN, v |-> v])]
     /\ hist' = Append(hist, [op |-> "add", v |-> v])

IAdvance(d) ==
  /\ WAdvance(d)
  /\ UNCHANGED <<ioff, ilast, ibk>>
  /\ hist' = Append(hist, [op |-> "adv", d |-> d])

\* what Reduce would visit in this state (buckets in ring order, oldest first)
RECURSIVE IConcat(_, _, _)
IConcat(start, i, n) ==
  IF i >= n THEN <<>>
  ELSE LET b == ibk[(start + i) % wsize]
       IN [j \in 1..Len(b) |-> b[j].v] \o IConcat(start, i + 1, n)
IReduceVals ==
  LET span == ISpan
      diff == IF span = 0 /\ wign THEN wsize - 1 ELSE wsize - span
  IN IF diff > 0 THEN IConcat((ioff + span + 1) % wsize, 0, diff) ELSE <<>>

\* ---- view: values are data (never inspected), absolute times only matter relative
\* to now: each remembered value is represented by its age in intervals ----
View == <<wsize, wign, ioff, wnow - ilast, wnow % wint,
          [b \in 0..(wsize - 1) |-> [j \in 1..Len(ibk[b]) |-> WN - ibk[b][j].i]],
          [j \in DOMAIN wadds |-> WN - wadds[j].i]>>

INext ==
  /\ Len(hist) < MaxOps
  /\ pv' = View
  /\ \/ IAdd(Len(hist) + 1)
     \/ \E d \in 1..MaxAdv : IAdvance(d)

ISpec == IInit /\ [][INext]_ivars

\* ---- refinement ----
Refines == IReduceVals = WVisibleVals
WellFormed == ioff \in 0..(wsize - 1) /\ ilast <= wnow /\ (Variant = "align" => ilast % wint = 0)

\* transition cover: one history per distinct (state, successor state) pair
View2 == <<pv, View>>
PrintHist == (Emit /\ Len(hist) > 0) => PrintT("TRACE " \o ToJson([size |-> wsize, int |-> wint, ign |-> wign, ops |-> hist]))
=============================================================================
