SPECIFICATION ISpec
CONSTANTS
  Sizes = {2, 3}
  Interval = 2
  MaxAdv = 5
  MaxOps = 5
  Variant = "noalign"
  Emit = FALSE
INVARIANTS Refines
VIEW View
CHECK_DEADLOCK FALSE
