SPECIFICATION ISpec
CONSTANTS
  InitSizes = {1, 2, 3}
  MaxCap = 9
  MaxOps = 14
  Variant = "code"
  Emit = FALSE
INVARIANTS Refines WellFormed
VIEW MCView
CHECK_DEADLOCK FALSE
