-------------------------------- MODULE Queue --------------------------------
(* Layer P reference model of collection.Queue (property C16): a FIFO.  The initial
   capacity given to NewQueue is not observable and not part of the model.        *)
EXTENDS Integers, Sequences, FiniteSets, CollUtil

VARIABLES
  qseq,   \* queued elements, oldest first
  qout    \* observable result of the last operation

qvars == <<qseq, qout>>
QNone == [op |-> "none"]

QStart == qseq' = <<>> /\ qout' = QNone
QIdle  == qseq = <<>> /\ qout = QNone

QPut(v) == qseq' = Append(qseq, v) /\ qout' = [op |-> "put"]

QTake ==
  IF qseq = <<>>
    THEN qout' = [op |-> "take", ok |-> FALSE, v |-> 0] /\ UNCHANGED qseq
    ELSE qout' = [op |-> "take", ok |-> TRUE, v |-> Head(qseq)] /\ qseq' = Tail(qseq)

QEmpty == qout' = [op |-> "empty", empty |-> (qseq = <<>>)] /\ UNCHANGED qseq
=============================================================================
