SPECIFICATION ISpec
CONSTANTS
  Ns = {1, 2, 3, 4, 5}
  MaxOps = 24
  Variant = "fold0"
  Emit = FALSE
INVARIANTS Refines
VIEW MCView
CHECK_DEADLOCK FALSE
