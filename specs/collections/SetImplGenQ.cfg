SPECIFICATION ISpec
CONSTANTS
  Types = {"int", "i64", "uint", "u64", "str", "oth"}
  Managed = {"int", "i64", "uint", "u64", "str"}
  Vals = {1}
  Kinds = {"untyped", "unmanaged"}
  Multi = FALSE
  Observe = FALSE
  MaxOps = 9
  Variant = "code"
  Emit = TRUE
INVARIANTS Refines Coherent PrintHist
VIEW GenView2
CHECK_DEADLOCK FALSE
