------------------------------ MODULE LruCache ------------------------------
(* Layer P reference model of collection.Cache (property C16): a map with a recency
   list, a size limit with least-recently-used eviction, per-key expiry, and Take
   with a loader.

   Expiry.  The cache arms one timer per key on a timing wheel with one-second ticks
   (property C12 covers the wheel).  The delay is the configured expiry spread by
   +-5%, so the tick on which a key expires is any tick in [set + lo, set + hi] with
   lo = floor(0.95 e), hi = floor(1.05 e) (e in seconds).  The model therefore keeps an
   interval of admissible expiry ticks per key; a Tick chooses which of the keys whose
   interval has been reached expire now, and a key must be gone once `hi` is reached.
   Every Set (also on an existing key, and the Set inside Take) re-arms the timer.

   climit <= 0 means "no limit" (no eviction).                                        *)
EXTENDS Integers, Sequences, FiniteSets, CollUtil

VARIABLES
  climit,   \* capacity; <= 0: unlimited
  cdata,    \* present key |-> value
  corder,   \* present keys, most recently used first
  cdl,      \* present key |-> [lo |-> first admissible expiry tick, hi |-> last]
  ctick,    \* ticks of the expiry wheel so far
  cout      \* observable result of the last operation (record)

cvars == <<climit, cdata, corder, cdl, ctick, cout>>

CKeys == DOMAIN cdata
CNone == [op |-> "none"]

CStart(limit) ==
  /\ climit' = limit /\ cdata' = <<>> /\ corder' = <<>> /\ cdl' = <<>> /\ ctick' = 0 /\ cout' = CNone
CIdle == climit = 0 /\ cdata = <<>> /\ corder = <<>> /\ cdl = <<>> /\ ctick = 0 /\ cout = CNone

\* expiry band in ticks for a configured expiry of ms milliseconds (wheel interval 1 s)
CLo(ms) == (95 * ms) \div 100000
CHi(ms) == (105 * ms) \div 100000

\* state after storing k -> v with an expiry band of [lo, hi] ticks from now
CStore(k, v, lo, hi) ==
  LET ord1 == <<k>> \o SeqWithout(corder, k)
      over == climit > 0 /\ Len(ord1) > climit
      vict == ord1[Len(ord1)]                       \* least recently used
      dat1 == FUpd(cdata, k, v)
      dl1  == FUpd(cdl, k, [lo |-> ctick + lo, hi |-> ctick + hi])
  IN /\ hi >= lo /\ lo >= 1
     /\ corder' = IF over THEN SubSeq(ord1, 1, Len(ord1) - 1) ELSE ord1
     /\ cdata'  = IF over THEN FDrop(dat1, vict) ELSE dat1
     /\ cdl'    = IF over THEN FDrop(dl1, vict) ELSE dl1

CSet(k, v, lo, hi) ==
  /\ CStore(k, v, lo, hi)
  /\ cout' = [op |-> "set"]
  /\ UNCHANGED <<climit, ctick>>

\* Get: a hit returns the latest value and makes k the most recently used key
CGet(k) ==
  /\ IF k \in CKeys
       THEN /\ cout' = [op |-> "get", hit |-> TRUE, v |-> cdata[k]]
            /\ corder' = <<k>> \o SeqWithout(corder, k)
       ELSE /\ cout' = [op |-> "get", hit |-> FALSE, v |-> 0]
            /\ UNCHANGED corder
  /\ UNCHANGED <<climit, cdata, cdl, ctick>>

CDel(k) ==
  /\ cdata' = FDrop(cdata, k)
  /\ cdl' = FDrop(cdl, k)
  /\ corder' = SeqWithout(corder, k)
  /\ cout' = [op |-> "del"]
  /\ UNCHANGED <<climit, ctick>>

\* Take(k, loader): the loader (which would return lv, or fail) runs only on a miss;
\* a successful load is stored like a Set; a failed load stores nothing.
CTake(k, lv, fail, lo, hi) ==
  /\ IF k \in CKeys
       THEN /\ cout' = [op |-> "take", called |-> FALSE, err |-> FALSE, v |-> cdata[k]]
            /\ corder' = <<k>> \o SeqWithout(corder, k)
            /\ UNCHANGED <<cdata, cdl>>
       ELSE IF fail
         THEN /\ cout' = [op |-> "take", called |-> TRUE, err |-> TRUE, v |-> 0]
              /\ UNCHANGED <<cdata, cdl, corder>>
         ELSE /\ cout' = [op |-> "take", called |-> TRUE, err |-> FALSE, v |-> lv]
              /\ CStore(k, lv, lo, hi)
  /\ UNCHANGED <<climit, ctick>>

\* one tick of the expiry wheel on which exactly the keys in X expire
CTick(X) ==
  /\ X \subseteq CKeys
  /\ \A k \in X : cdl[k].lo <= ctick + 1              \* not before its time
  /\ \A k \in CKeys \ X : ctick + 1 < cdl[k].hi       \* not later than its time
  /\ ctick' = ctick + 1
  /\ cdata' = FDropSet(cdata, X)
  /\ cdl' = FDropSet(cdl, X)
  /\ corder' = SeqWithoutSet(corder, X)
  /\ cout' = [op |-> "tick", expired |-> X]
  /\ UNCHANGED climit

\* ---- properties of the reference model ----
CBounded   == climit > 0 => Cardinality(CKeys) <= climit
COrderOK   == ListsSet(corder, CKeys)
CDeadlines == DOMAIN cdl = CKeys /\ \A k \in CKeys : ctick < cdl[k].hi /\ cdl[k].lo <= cdl[k].hi
=============================================================================
