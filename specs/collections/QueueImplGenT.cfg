SPECIFICATION ISpec
CONSTANTS
  InitSizes = {1, 2, 3}
  MaxCap = 9
  MaxOps = 18
  Variant = "code"
  Emit = TRUE
INVARIANTS PrintHist
VIEW GenView2
CHECK_DEADLOCK FALSE
