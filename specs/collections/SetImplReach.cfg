SPECIFICATION ISpec
CONSTANTS
  Types = {"int", "i64", "uint", "u64", "str", "oth"}
  Managed = {"int", "i64", "uint", "u64", "str"}
  Vals = {1}
  Kinds = {"untyped", "unmanaged"}
  Multi = TRUE
  Observe = TRUE
  MaxOps = 9
  Variant = "code"
  Emit = FALSE
INVARIANTS NoMixture
VIEW MCView
CHECK_DEADLOCK FALSE
