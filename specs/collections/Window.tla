------------------------------- MODULE Window -------------------------------
(* Layer P reference model of collection.RollingWindow (property C16).

   Time is counted in whole units since the window was created (the driver's virtual
   clock, hook H1, advances in the same units; the creation instant itself is arbitrary
   and not part of the model).  An interval is `wint` units long; interval number
   WN = floor(now / wint).  The model is the textbook one: remember every added value
   together with the number of the interval in which it was added;  Reduce visits
   exactly the values whose interval lies in (WN - wsize, WN], without interval WN
   itself when the current bucket is ignored.                                        *)
EXTENDS Integers, Sequences, FiniteSets, CollUtil

VARIABLES
  wsize,   \* number of buckets (>= 1)
  wint,    \* units per interval (>= 1)
  wign,    \* BOOLEAN: IgnoreCurrentBucket
  wnow,    \* units elapsed since creation
  wadds,   \* sequence of [i |-> interval number, v |-> value], in order of addition
  wout     \* values visited by the last Reduce, in order of addition

wvars == <<wsize, wint, wign, wnow, wadds, wout>>

WN == wnow \div wint

WStart(size, int, ign) ==          \* (re)creation; written on primed variables
  /\ size >= 1 /\ int >= 1
  /\ wsize' = size /\ wint' = int /\ wign' = ign
  /\ wnow' = 0 /\ wadds' = <<>> /\ wout' = <<>>

WIdle == wsize = 1 /\ wint = 1 /\ wign = FALSE /\ wnow = 0 /\ wadds = <<>> /\ wout = <<>>

\* the clock moves on by d units.  Values that left the window can never be seen
\* again (time is monotone), so the model forgets them here.
WAdvance(d) ==
  /\ d >= 0
  /\ wnow' = wnow + d
  /\ wadds' = SelectSeq(wadds, LAMBDA r : r.i > ((wnow + d) \div wint) - wsize)
  /\ UNCHANGED <<wsize, wint, wign, wout>>

WAdd(v) ==
  /\ wadds' = Append(wadds, [i |-> WN, v |-> v])
  /\ UNCHANGED <<wsize, wint, wign, wnow, wout>>

WVisible == SelectSeq(wadds, LAMBDA r : r.i > WN - wsize /\ ~(wign /\ r.i = WN))
WVisibleVals == [j \in 1..Len(WVisible) |-> WVisible[j].v]

WReduce ==
  /\ wout' = WVisibleVals
  /\ UNCHANGED <<wsize, wint, wign, wnow, wadds>>

\* ---- sanity properties of the reference model ----
WRecentOnly == \A j \in DOMAIN wadds : wadds[j].i > WN - wsize /\ wadds[j].i <= WN
WOrdered    == \A j \in 1..(Len(wadds) - 1) : wadds[j].i <= wadds[j + 1].i
=============================================================================
