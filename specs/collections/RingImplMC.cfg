SPECIFICATION ISpec
CONSTANTS
  Ns = {1, 2, 3, 4, 5}
  MaxOps = 24
  Variant = "code"
  Emit = TRUE
INVARIANTS Refines RBounded PrintHist
VIEW MCView
CHECK_DEADLOCK FALSE
