------------------------------ MODULE CollUtil ------------------------------
(* Small helpers shared by the collection reference models (property C16).  *)
EXTENDS Integers, Sequences, FiniteSets

\* function f with key k (re)bound to v / with key k removed
FUpd(f, k, v) == [x \in (DOMAIN f) \cup {k} |-> IF x = k THEN v ELSE f[x]]
FDrop(f, k)   == [x \in (DOMAIN f) \ {k} |-> f[x]]
FDropSet(f, S) == [x \in (DOMAIN f) \ S |-> f[x]]

SeqRange(s) == {s[i] : i \in DOMAIN s}
SeqWithout(s, x) == SelectSeq(s, LAMBDA y : y # x)
SeqWithoutSet(s, S) == SelectSeq(s, LAMBDA y : y \notin S)
SeqInjective(s) == Cardinality(SeqRange(s)) = Len(s)

\* the last n elements of s, in order
LastN(s, n) == IF Len(s) <= n THEN s ELSE SubSeq(s, Len(s) - n + 1, Len(s))

RECURSIVE SeqSumTo(_, _)
SeqSumTo(s, n) == IF n = 0 THEN 0 ELSE s[n] + SeqSumTo(s, n - 1)
SeqSum(s) == SeqSumTo(s, Len(s))

\* s is a listing of the set S without repetition
ListsSet(s, S) == SeqRange(s) = S /\ Len(s) = Cardinality(S)
=============================================================================
