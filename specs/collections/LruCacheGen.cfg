SPECIFICATION MSpec
CONSTANTS
  Limits = {0, 1, 2}
  CKeySet = {1, 2, 3}
  Bands = {1500, 2000}
  MaxOps = 6
  Emit = TRUE
INVARIANTS PrintHist
VIEW GenView
CHECK_DEADLOCK FALSE
