SPECIFICATION ISpec
CONSTANTS
  MaxDel = 4
  CopyTh = 3
  NKeys = 4
  Vals = {1, 2}
  MaxOps = 34
  Variant = "code"
INVARIANTS Refines Disjoint
VIEW View
CHECK_DEADLOCK FALSE
