SPECIFICATION ISpec
CONSTANTS
  InitSizes = {1, 2, 3}
  MaxCap = 9
  MaxOps = 14
  Variant = "nowrap"
  Emit = FALSE
INVARIANTS Refines
VIEW MCView
CHECK_DEADLOCK FALSE
