SPECIFICATION TSpec
CONSTRAINT HW
INVARIANTS CBounded COrderOK CDeadlines WRecentOnly RBounded
POSTCONDITION Accepted
CHECK_DEADLOCK FALSE
