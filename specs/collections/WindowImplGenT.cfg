SPECIFICATION ISpec
CONSTANTS
  Sizes = {1, 2, 3}
  Interval = 2
  MaxAdv = 9
  MaxOps = 5
  Variant = "align"
  Emit = TRUE
INVARIANTS Refines PrintHist
VIEW View2
CHECK_DEADLOCK FALSE
