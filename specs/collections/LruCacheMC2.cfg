SPECIFICATION MSpec
CONSTANTS
  Limits = {0, 1, 2, 3}
  CKeySet = {1, 2, 3}
  Bands = {1500, 2000}
  MaxOps = 7
  Emit = FALSE
INVARIANTS CBounded COrderOK CDeadlines LatestOK LoaderOK EvictLRU
VIEW View
CHECK_DEADLOCK FALSE
