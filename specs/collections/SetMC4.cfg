SPECIFICATION MSpec
CONSTANTS
  Elems = {1, 2, 3}
  MaxOps = 4
  Emit = TRUE
INVARIANTS HistoryDefined PrintHist
CHECK_DEADLOCK FALSE
