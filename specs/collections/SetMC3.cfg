SPECIFICATION MSpec
CONSTANTS
  Elems = {1, 2, 3}
  MaxOps = 3
  Emit = TRUE
INVARIANTS HistoryDefined PrintHist
CHECK_DEADLOCK FALSE
