------------------------------ MODULE QueueImpl ------------------------------
(* Layer I: core/collection/fifo.go -- a circular buffer (elements, head, tail, count)
   that grows by its initial size when full -- in lock-step with the FIFO of
   Queue.tla.  TLC checks that the buffer always holds exactly the FIFO's content in
   order (Refines) and prints one operation history per distinct control state
   (capacity, head, tail, count) for replay on the real Queue.

   Variant = "code"   : as in go-zero
   Variant = "nowrap" : growth copies elements[head:] only (forgets the wrapped part);
                        documented counterexample                                     *)
EXTENDS Queue, Json, TLC

CONSTANTS InitSizes, MaxCap, MaxOps, Variant, Emit

VARIABLES
  isz,     \* q.size (initial size = growth step)
  iel,     \* q.elements: 0..cap-1 |-> value (0 = never written)
  ihead, itail, icount,
  hist,
  pv       \* GenView of the previous state (transition-cover generation)

ivars == <<qseq, qout, isz, iel, ihead, itail, icount, hist, pv>>

ICap == Cardinality(DOMAIN iel)
GenView == <<isz, ICap, ihead, itail, icount>>      \* the control state

IInit == /\ qseq = <<>> /\ qout = QNone
         /\ isz \in InitSizes /\ iel = [i \in 0..(isz - 1) |-> 0]
         /\ ihead = 0 /\ itail = 0 /\ icount = 0 /\ hist = <<>> /\ pv = <<>>

IPut(v) ==
  LET full == ihead = itail /\ icount > 0
      cap == ICap
      \* nodes := make(len+size); copy(nodes, elements[head:]); copy(nodes[len-head:], elements[:head])
      grown == [i \in 0..(cap + isz - 1) |->
                  IF i < cap - ihead THEN iel[ihead + i]
                  ELSE IF i < cap THEN (IF Variant = "nowrap" THEN 0 ELSE iel[i - (cap - ihead)])
                  ELSE 0]
      el1 == IF full THEN grown ELSE iel
      hd1 == IF full THEN 0 ELSE ihead
      tl1 == IF full THEN cap ELSE itail
      cap1 == IF full THEN cap + isz ELSE cap
  IN /\ cap1 <= MaxCap
     /\ QPut(v)
     /\ iel' = [el1 EXCEPT ![tl1] = v]
     /\ ihead' = hd1
     /\ itail' = (tl1 + 1) % cap1
     /\ icount' = icount + 1
     /\ UNCHANGED isz
     /\ hist' = Append(hist, [op |-> "put", v |-> v])

ITake ==
  /\ QTake
  /\ IF icount = 0 THEN UNCHANGED <<ihead, icount>>
     ELSE ihead' = (ihead + 1) % ICap /\ icount' = icount - 1
  /\ UNCHANGED <<isz, iel, itail>>
  /\ hist' = Append(hist, [op |-> "take"])

INext == /\ Len(hist) < MaxOps
         /\ pv' = GenView
         /\ \/ IPut(Len(hist) + 1)
            \/ ITake

ISpec == IInit /\ [][INext]_ivars

\* content of the buffer, oldest first
IContent == [j \in 1..icount |-> iel[(ihead + j - 1) % ICap]]
Refines == IContent = qseq /\ icount = Len(qseq)
\* what the implementation's Take returned is what the FIFO returned
WellFormed == /\ ihead \in 0..(ICap - 1) /\ itail \in 0..(ICap - 1)
              /\ icount \in 0..ICap /\ itail = (ihead + icount) % ICap

\* model checking: everything but the history
MCView  == <<qseq, qout, isz, iel, ihead, itail, icount>>

\* transition cover: one history per distinct (control state, successor) pair
GenView2 == <<pv, GenView>>
PrintHist == (Emit /\ Len(hist) > 0) => PrintT("TRACE " \o ToJson([size |-> isz, ops |-> hist]))
=============================================================================
