SPECIFICATION ISpec
CONSTANTS
  Types = {"int", "u64", "str", "oth"}
  Managed = {"int", "i64", "uint", "u64", "str"}
  Vals = {1, 2}
  Kinds = {"untyped", "unmanaged"}
  Multi = TRUE
  Observe = TRUE
  MaxOps = 10
  Variant = "code"
  Emit = FALSE
INVARIANTS Refines Coherent TypeOK HistoryDefined
VIEW MCView
CHECK_DEADLOCK FALSE
