-------------------------------- MODULE Ring --------------------------------
(* Layer P reference model of collection.Ring (property C16): the last rn elements
   added, in order of addition.                                                   *)
EXTENDS Integers, Sequences, FiniteSets, CollUtil

VARIABLES
  rn,     \* capacity (>= 1)
  rseq,   \* the last (at most rn) elements added, oldest first
  rout    \* result of the last Take

rvars == <<rn, rseq, rout>>

RStart(n) == n >= 1 /\ rn' = n /\ rseq' = <<>> /\ rout' = <<>>
RIdle == rn = 1 /\ rseq = <<>> /\ rout = <<>>

RAdd(v) == rseq' = LastN(Append(rseq, v), rn) /\ UNCHANGED <<rn, rout>>
RTake   == rout' = rseq /\ UNCHANGED <<rn, rseq>>

RBounded == Len(rseq) <= rn
=============================================================================
