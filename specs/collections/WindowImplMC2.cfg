SPECIFICATION ISpec
CONSTANTS
  Sizes = {1, 2, 3, 4}
  Interval = 3
  MaxAdv = 16
  MaxOps = 9
  Variant = "align"
  Emit = FALSE
INVARIANTS Refines WellFormed WRecentOnly WOrdered
VIEW View
CHECK_DEADLOCK FALSE
