------------------------------- MODULE SetImpl -------------------------------
(* Layer I: core/collection/set.go -- a map[any]placeholder plus the type tag `tp` --
   in lock-step with the mathematical set of Set.tla.

     tp = "unmanaged"            NewUnmanagedSet: no type bookkeeping at all
     tp = "untyped"              NewSet before the first value of a managed kind arrived
     tp \in Managed              the managed kind (int, int64, uint, uint64, string) of
                                 the first such value; never changes again, not even
                                 when that value is removed

   add(x): untyped -> setType(x) (a value of no managed kind leaves it untyped);
   typed -> validate(x), which only LOGS when x is of another managed kind; in every
   case x is stored.  Remove and Contains call validate too (log only) and then use
   the map.  Contains answers false without looking when the map is empty.  So a
   managed set can hold any mixture of types, and TLC checks that with every mixture,
   every recorded type and every argument type the implementation is still the
   mathematical set (Refines) and that its observers agree with each other (Coherent).

   The universe is Types x Vals; elements of different types with the same value are
   different elements.  TLC prints one operation history per distinct implementation
   state (tp, data) -- GenView -- or per distinct transition -- GenView2 -- for replay
   on the real Set.

   Variant = "code"    : as in go-zero
   Variant = "denyctn" : Contains answers false for a value validate complains about
                         ("a value of another type is never a member of a typed set")
                         although add stored it; documented counterexample
   Variant = "dropadd" : add does not store a value validate complains about;
                         documented counterexample                                   *)
EXTENDS Set, Json, TLC

CONSTANTS
  Types,     \* type tags of the universe
  Managed,   \* the tags among them that are managed kinds
  Vals,      \* values
  Kinds,     \* initial tp: subset of {"untyped", "unmanaged"}
  Multi,     \* TRUE: variadic adds of two different elements (x, y, x) are explored too
  Observe,   \* TRUE: Contains / Count are steps too (model checking of their results)
  MaxOps, Variant, Emit

VARIABLES
  itp,     \* s.tp
  idata,   \* the keys of s.data
  iout,    \* what the implementation's last call returned (same shape as sout)
  ilogs,   \* number of logx.Errorf lines the last call wrote (not observable through the API)
  hist,
  pv       \* GenView of the previous state (transition-cover generation)

ivars == <<sset, sout, itp, idata, iout, ilogs, hist, pv>>

Elems == [t : Types, v : Vals]
GenView == <<itp, idata>>

IInit == /\ sset = {} /\ sout = SNone
         /\ itp \in Kinds /\ idata = {} /\ iout = SNone /\ ilogs = 0
         /\ hist = <<>> /\ pv = <<>>

\* validate(x) writes a log line: the set is managed, x is of a managed kind and it is not the recorded one
Complains(tp, x) == tp # "unmanaged" /\ x.t \in Managed /\ x.t # tp

\* s.add(x) on the state st = [tp, data, logs]
AddOne(st, x) ==
  IF st.tp = "unmanaged" THEN [st EXCEPT !.data = @ \cup {x}]
  ELSE IF st.tp = "untyped"
    THEN [st EXCEPT !.tp = IF x.t \in Managed THEN x.t ELSE @, !.data = @ \cup {x}]
  ELSE IF Complains(st.tp, x)
    THEN [st EXCEPT !.logs = @ + 1,
                    !.data = IF Variant = "dropadd" THEN @ ELSE @ \cup {x}]
  ELSE [st EXCEPT !.data = @ \cup {x}]

RECURSIVE AddFrom(_, _, _)
AddFrom(st, xs, i) == IF i > Len(xs) THEN st ELSE AddFrom(AddOne(st, xs[i]), xs, i + 1)

IAdd(xs) ==
  LET st == AddFrom([tp |-> itp, data |-> idata, logs |-> 0], xs, 1)
  IN /\ SAdd(xs)
     /\ itp' = st.tp /\ idata' = st.data /\ ilogs' = st.logs
     /\ iout' = [op |-> "add"]
     /\ hist' = Append(hist, [op |-> "add", xs |-> xs])

IRemove(x) ==
  /\ SRemove(x)
  /\ idata' = idata \ {x}
  /\ ilogs' = IF Complains(itp, x) THEN 1 ELSE 0
  /\ iout' = [op |-> "remove"]
  /\ UNCHANGED itp
  /\ hist' = Append(hist, [op |-> "remove", x |-> x])

\* what s.Contains(x) returns in the current state
ContainsVal(x) ==
  IF idata = {} THEN FALSE
  ELSE IF Variant = "denyctn" /\ Complains(itp, x) THEN FALSE
  ELSE x \in idata

IContains(x) ==
  /\ SContains(x)
  /\ iout' = [op |-> "contains", yes |-> ContainsVal(x)]
  /\ ilogs' = IF idata # {} /\ Complains(itp, x) THEN 1 ELSE 0
  /\ UNCHANGED <<itp, idata>>
  /\ hist' = Append(hist, [op |-> "contains", x |-> x])

ICount ==
  /\ SCount
  /\ iout' = [op |-> "count", n |-> Cardinality(idata)]
  /\ ilogs' = 0
  /\ UNCHANGED <<itp, idata>>
  /\ hist' = Append(hist, [op |-> "count"])

INext == /\ Len(hist) < MaxOps
         /\ pv' = GenView
         /\ \/ \E x \in Elems : IAdd(<<x>>)
            \/ Multi /\ \E x, y \in Elems : x # y /\ IAdd(<<x, y, x>>)
            \/ \E x \in Elems : IRemove(x)
            \/ Observe /\ \E x \in Elems : IContains(x)
            \/ Observe /\ ICount

ISpec == IInit /\ [][INext]_ivars

\* ---------------------------------------------------------------- what TLC checks
\* the map holds exactly the mathematical set, and every call returned what the set returns
Refines == idata = sset /\ iout = sout

\* Keys() / KeysXxx() range over the map: what they list is the set / its typed projection
KeysVal      == idata
KeysOfVal(T) == {x.v : x \in {y \in idata : y.t = T}}
\* the observers agree with each other: an element is listed iff Contains finds it, and
\* Count counts exactly the listed elements, type by type
Coherent ==
  /\ {x \in Elems : ContainsVal(x)} = KeysVal
  /\ Cardinality(idata) = Cardinality(KeysVal)
  /\ \A T \in Types : KeysOfVal(T) = {x.v : x \in {y \in Elems : y.t = T /\ ContainsVal(y)}}

TypeOK == /\ itp \in {"unmanaged", "untyped"} \cup Managed
          /\ idata \subseteq Elems
          /\ (itp = "untyped" => \A x \in idata : x.t \notin Managed)

\* membership defined from the history alone: x is in iff its last mention by a
\* mutator is an add
RECURSIVE LastMention(_, _)
LastMention(x, n) ==
  IF n = 0 THEN FALSE
  ELSE LET h == hist[n] IN
       IF h.op = "add" /\ x \in SeqRange(h.xs) THEN TRUE
       ELSE IF h.op = "remove" /\ h.x = x THEN FALSE
       ELSE LastMention(x, n - 1)
HistoryDefined == sset = {x \in Elems : LastMention(x, Len(hist))}

\* vacuity guard (expected to be violated): a managed set that recorded one managed kind
\* and holds values of two other managed kinds is reachable
NoMixture == ~(itp \in Managed /\ Cardinality({x.t : x \in idata} \cap (Managed \ {itp})) >= 2)

\* model checking: everything but the history
MCView == <<sset, sout, itp, idata, iout, ilogs>>
\* transition cover: one history per distinct (state, successor) pair
GenView2 == <<pv, GenView>>
PrintHist == (Emit /\ Len(hist) > 0) =>
  PrintT("TRACE " \o ToJson([kind |-> IF itp = "unmanaged" THEN "unmanaged" ELSE "managed", ops |-> hist]))
=============================================================================
