SPECIFICATION ISpec
CONSTANTS
  InitSizes = {1, 2, 3, 4}
  MaxCap = 12
  MaxOps = 18
  Variant = "code"
  Emit = FALSE
INVARIANTS Refines WellFormed
VIEW MCView
CHECK_DEADLOCK FALSE
