--------------------------------- MODULE Set ---------------------------------
(* Layer P reference model of collection.Set (property C16): a mathematical set.

   Elements are *typed values*: records [t |-> type tag, v |-> number].  Two Go values
   are the same element iff they have the same dynamic type and the same value (they
   are keys of a map[any]), so int 1, int64 1, uint 1 and "1" are four different
   elements.  The reference model does not know whether the Set was created managed
   (NewSet) or unmanaged (NewUnmanagedSet) nor which type a managed set saw first: a
   managed set only *logs* when a value of another type arrives, it still stores,
   finds, counts, lists and removes it -- whatever mixture of types it holds, it is a
   mathematical set of typed values.                                                *)
EXTENDS Integers, Sequences, FiniteSets, CollUtil

VARIABLES
  sset,   \* the elements
  sout    \* observable result of the last operation

svars == <<sset, sout>>
SNone == [op |-> "none"]

SStart == sset' = {} /\ sout' = SNone
SIdle  == sset = {} /\ sout = SNone

\* Add is variadic: xs is the sequence of arguments (of one type or of several)
SAdd(xs)     == sset' = sset \cup SeqRange(xs) /\ sout' = [op |-> "add"]
SRemove(x)   == sset' = sset \ {x} /\ sout' = [op |-> "remove"]
SContains(x) == sout' = [op |-> "contains", yes |-> (x \in sset)] /\ UNCHANGED sset
SCount       == sout' = [op |-> "count", n |-> Cardinality(sset)] /\ UNCHANGED sset
\* Keys returns the elements in some order, each once
SKeys(ks)    == ListsSet(ks, sset) /\ sout' = [op |-> "keys"] /\ UNCHANGED sset
\* KeysInt / KeysInt64 / KeysUint / KeysUint64 / KeysStr: the typed projection -- the
\* values of exactly the elements of type T, in some order, each once (whatever else
\* the set holds and whatever type the set saw first)
SOfType(T)     == {x \in sset : x.t = T}
SKeysOf(T, vs) == ListsSet(vs, {x.v : x \in SOfType(T)}) /\ sout' = [op |-> "keysof"] /\ UNCHANGED sset
=============================================================================
