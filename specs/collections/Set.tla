--------------------------------- MODULE Set ---------------------------------
(* Layer P reference model of collection.Set (property C16): a mathematical set. *)
EXTENDS Integers, Sequences, FiniteSets, CollUtil

VARIABLES
  sset,   \* the elements
  sout    \* observable result of the last operation

svars == <<sset, sout>>
SNone == [op |-> "none"]

SStart == sset' = {} /\ sout' = SNone
SIdle  == sset = {} /\ sout = SNone

\* Add is variadic: xs is the sequence of arguments
SAdd(xs)     == sset' = sset \cup SeqRange(xs) /\ sout' = [op |-> "add"]
SRemove(x)   == sset' = sset \ {x} /\ sout' = [op |-> "remove"]
SContains(x) == sout' = [op |-> "contains", yes |-> (x \in sset)] /\ UNCHANGED sset
SCount       == sout' = [op |-> "count", n |-> Cardinality(sset)] /\ UNCHANGED sset
\* Keys returns the elements in some order, each once
SKeys(ks)    == ListsSet(ks, sset) /\ sout' = [op |-> "keys"] /\ UNCHANGED sset
=============================================================================
