SPECIFICATION ISpec
CONSTANTS
  NI = 2
  W = 2
  Fanout = 2
  Api = "mr"
  MaxCancel = 1
  MaxPanic = 0
  CtxMay = FALSE
  RedEarly = FALSE
  PBuf = 1
  Prio = TRUE
  CtxFix = TRUE
  Hook = FALSE
  Steer = FALSE
  Emit = FALSE
  Clamp = "min1"
  ErrSet = {}
  AEIgnore = "nil"
INVARIANTS PTypeOK GuardsHold NoStuck EndHolds Counters CollectorClose NoSendOnClosedCollector
VIEW View
CHECK_DEADLOCK FALSE
