SPECIFICATION ISpec
CONSTANTS
  NI = 2
  W = 2
  Fanout = 1
  Api = "mr"
  MaxCancel = 1
  MaxPanic = 1
  CtxMay = TRUE
  RedEarly = TRUE
  PBuf = 0
  Prio = FALSE
  CtxFix = FALSE
  Hook = FALSE
  Steer = TRUE
  Emit = TRUE
  Clamp = "min1"
  ErrSet = {}
  AEIgnore = "nil"
INVARIANTS PrintStuck
VIEW View
CHECK_DEADLOCK FALSE
