SPECIFICATION ISpec
CONSTANTS
  NI = 2
  W = 1
  Fanout = 1
  Api = "mr"
  MaxCancel = 1
  MaxPanic = 1
  CtxMay = TRUE
  RedEarly = FALSE
  PBuf = 1
  Prio = TRUE
  CtxFix = TRUE
  Hook = FALSE
  Steer = TRUE
  Emit = TRUE
  Clamp = "min1"
  ErrSet = {}
  AEIgnore = "nil"
INVARIANTS PrintFinal
VIEW View
CHECK_DEADLOCK FALSE
