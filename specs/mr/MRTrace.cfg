SPECIFICATION TSpec
CONSTRAINT HW
INVARIANTS PTypeOK
POSTCONDITION Accepted
CHECK_DEADLOCK FALSE
