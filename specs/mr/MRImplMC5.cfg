SPECIFICATION ISpec
CONSTANTS
  NI = 1
  W = 1
  Fanout = 1
  Api = "mr"
  MaxCancel = 2
  MaxPanic = 2
  CtxMay = TRUE
  RedEarly = TRUE
  PBuf = 1
  Prio = TRUE
  CtxFix = TRUE
  Hook = FALSE
  Steer = FALSE
  Emit = FALSE
  Clamp = "min1"
  ErrSet = {}
  AEIgnore = "nil"
INVARIANTS PTypeOK GuardsHoldOrKF NoStuck EndHolds Counters CollectorClose NoSendOnClosedCollector
VIEW View
CHECK_DEADLOCK FALSE
