SPECIFICATION ISpec
CONSTANTS
  NI = 1
  W = 1
  Fanout = 1
  Api = "mr"
  MaxCancel = 2
  MaxPanic = 0
  CtxMay = TRUE
  RedEarly = FALSE
  PBuf = 1
  Prio = TRUE
  CtxFix = TRUE
  Hook = FALSE
  Steer = TRUE
  Emit = TRUE
  Clamp = "min1"
  ErrSet <- ErrSetAll
  AEIgnore = "nil"
INVARIANTS PrintFinal
VIEW View
CHECK_DEADLOCK FALSE
