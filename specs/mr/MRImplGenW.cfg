SPECIFICATION ISpec
CONSTANTS
  NI = 3
  W = 0
  Fanout = 1
  Api = "mr"
  MaxCancel = 0
  MaxPanic = 1
  CtxMay = FALSE
  RedEarly = FALSE
  PBuf = 1
  Prio = TRUE
  CtxFix = TRUE
  Hook = FALSE
  Steer = TRUE
  Emit = TRUE
  Clamp = "min1"
  ErrSet = {}
  AEIgnore = "nil"
INVARIANTS PrintFinal
VIEW View
CHECK_DEADLOCK FALSE
