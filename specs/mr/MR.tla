--------------------------------- MODULE MR ---------------------------------
(* Layer P (property C10): what one call of mr.MapReduce / MapReduceVoid /
   MapReduceChan / ForEach / Finish / FinishVoid owes its caller, phrased over
   observable events only (what the user functions and the caller see):

     callStart                       the caller invokes the library
     genSend(i)                      the generator is about to send item i (items unique)
     genEnd(how, p)                  the generator returns (how="ret") or panics with sentinel p
     mapStart(i) / mapEnd(i,how,p)   the mapper is entered with item i / returns or panics
     mapWrite(i,v) / mapWriteEnd     a mapper calls writer.Write(v) (values unique) / Write returned
     reset(api, wset, wopt, defw)    one call begins; its worker configuration: WithWorkers(wopt) was passed (wset) or not
     cancelStart(e) / cancelEnd      a mapper or the reducer calls cancel(err e; 0 = nil, see "error domain") / cancel returned
     ctxStart / ctxEnd               the context's cancel function is called / has returned
     redStart, redRecv(v), redClosed the reducer is entered / receives v from the pipe / sees the pipe closed
     redWrite(v) / redWriteEnd       the reducer calls writer.Write(v) / Write returned
     redEnd(how, p)                  the reducer returns / panics (how="ipanic": a library panic out of Write)
     ret(kind, v)                    the call returns a value, an error, or re-raises a panic
     end(returned, leaked)           quiescence: every gate of the harness is open and nothing can move

   Each event is Guard (<Ev>OK: what the property demands there) and Effect
   (<Ev>Eff: bookkeeping).  MRImpl (Layer I) performs the effects and TLC checks
   the guards there; MRTrace conjoins both on traces recorded from the real code.

   Nothing here mentions channels, the dispatcher, the worker pool, sync.Once or
   panicChan.  What the property leaves open is open here: the order of mapping,
   who receives what when, whether a fault that is concurrent with the decision
   of the call is reported, and everything about the pipe once a fault exists.  *)
EXTENDS Integers, Sequences, FiniteSets, TLC

VARIABLE ps      \* the observable bookkeeping, one record (see PNew)

\* result codes of `ret`
\*   <<"val", v>>     (v, nil)            <<"noout", 0>>  ErrReduceNoOutput (nil for the Void APIs)
\*   <<"none", 0>>    ForEach/FinishVoid returned          <<"err", e>>    e >= 0: the error passed to cancel
\*   <<"err", CtxErr>> a context error                     (0: ErrCancelWithNil), <<"err", OtherErr>> anything else
\*   <<"panic", p>>   p > 0 sentinel of a user panic, InternalPanic otherwise
CtxErr == -2          \* context.DeadlineExceeded
OtherErr == -3        \* an error nobody passed to cancel and that is no context error
CtxCanceled == -4     \* context.Canceled
InternalPanic == -1
CtxErrs == {CtxErr, CtxCanceled}

\* ---------------------------------------------------------------- worker counts
\* The whole legal domain of the option: any int.  "anything below 1 means the minimum (one worker)";
\* without the option the library's default applies (defw, a constant of the package the harness reads).
\* Finish / FinishVoid run all their functions in parallel: their worker count is the number of functions
\* (0 functions: nothing to run, the same clamping applies).
EffWorkers(wset, wopt, defw) == IF ~wset THEN defw ELSE IF wopt < 1 THEN 1 ELSE wopt

\* ---------------------------------------------------------------- error domain of cancel
\* An error is an identity (an int the harness assigns to one Go error VALUE; the same value passed twice has
\* the same identity).  The property treats every member alike - whatever was passed comes back, nil comes
\* back as ErrCancelWithNil - so Layer P has no case distinction; the classes are named because the
\* implementation may (wrongly) distinguish them, and Layer I / the harness must reach each of them:
\*   0                nil
\*   1 .. 6999        ordinary error values
\*   7001 .. 7099     "typed nil": a non-nil error interface holding a nil pointer / map / func, or an error value
\*                    of a type that cannot be compared with == (all legal: err # nil holds at the call site)
\*   7100 .. 7199     wrappers (fmt.Errorf("%w"), errors.Join): the identity is the wrapper's, not the wrapped error's
\*   7200 .. 7299     pointer errors (one allocation, possibly passed to cancel more than once)
\*   CtxErr, CtxCanceled   context.DeadlineExceeded / context.Canceled passed to cancel by user code (legal
\*                    results then even though the call's own context is alive)
IsNilErr(e)      == e = 0
IsTypedNilErr(e) == e \in 7001..7099
IsWrappedErr(e)  == e \in 7100..7199
ErrDomain(e)     == e >= 0 \/ e \in CtxErrs

PNew(api, workers) ==
  [ api      |-> api,         \* "mr" (MapReduce/MapReduceChan), "void" (MapReduceVoid), "foreach" (ForEach/FinishVoid),
                              \* "finish" (Finish: the functions are the items, returning an error is the cancel,
                              \*           the reducer is the library's own: nil needs every function to have returned nil)
    workers  |-> workers,     \* the configured number of workers: EffWorkers(option passed?, option, default)
    gsent    |-> {},          \* items the generator has tried to send
    gstate   |-> "run",       \* generator: "run" | "ret" | "panic"
    mapped   |-> {},          \* items handed to the mapper
    inside   |-> {},          \* items whose mapper invocation is in progress
    wstart   |-> {},          \* values some mapper has passed to Write
    recvd    |-> {},          \* values the reducer has received
    rstate   |-> "idle",      \* reducer: "idle" | "run" | "ret" | "panic" | "ipanic"
    rwriting |-> FALSE,       \* the reducer is inside writer.Write
    rout     |-> 0,           \* the value the reducer passed to Write (0: none)
    cstarted |-> {},          \* errors passed to cancel so far
    cin      |-> 0,           \* cancel calls in progress
    cended   |-> FALSE,       \* some cancel call has returned
    ctx      |-> 0,           \* 0 alive, 1 being cancelled, 2 cancelled
    praised  |-> {},          \* sentinels of the user panics raised so far
    pnoticed |-> FALSE,       \* the pipe was seen closed after a user panic (the library has dealt with that panic)
    evid     |-> "none",      \* what a clean result would be: "none" | "val" | "noout"
    dirty    |-> FALSE,       \* a fault had definitely taken effect before that evidence existed
    wrace    |-> FALSE,       \* aux, guard of a known finding: a reducer Write overlapped a cancel / context end
    cstate   |-> "idle" ]     \* the call: "idle" | "running" | "returned" | "panicked"

PInit == ps = PNew("mr", 1)

\* some fault exists: the second sentence of the property applies
Faulted == ps.cstarted # {} \/ ps.ctx # 0 \/ ps.praised # {}
\* a fault every later decision has to take into account: cancel() returned, the context's cancel returned,
\* or the pipe was closed after a user panic
Must == ps.cended \/ ps.ctx = 2 \/ ps.pnoticed

Set(r) == ps' = r
PSkip == UNCHANGED ps

\* ---------------------------------------------------------------- caller
CallStartOK == ps.cstate = "idle"
CallStartEff == Set([ps EXCEPT !.cstate = "running"])

\* ---------------------------------------------------------------- generator
GenSendOK(i) == i \notin ps.gsent /\ ps.gstate = "run"
GenSendEff(i) == Set([ps EXCEPT !.gsent = @ \cup {i}])

GenEndOK(how, p) == ps.gstate = "run" /\ how \in {"ret", "panic"}
GenEndEff(how, p) ==
  Set([ps EXCEPT !.gstate = how, !.praised = IF how = "panic" THEN @ \cup {p} ELSE @])

\* ---------------------------------------------------------------- mappers
\* ExactlyOnce (nothing invented; at most once - the property promises that only while nothing is cancelled)
\* and MapperCap (always)
MapStartOK(i) ==
  /\ i \in ps.gsent
  /\ i \notin ps.mapped \/ (Faulted /\ i \notin ps.inside)
  /\ Cardinality(ps.inside) < ps.workers
MapStartEff(i) == Set([ps EXCEPT !.mapped = @ \cup {i}, !.inside = @ \cup {i}])

MapWriteOK(i, v) == i \in ps.inside /\ v \notin ps.wstart
MapWriteEff(i, v) == Set([ps EXCEPT !.wstart = @ \cup {v}])

MapEndOK(i, how, p) == i \in ps.inside /\ how \in {"ret", "panic"}
MapEndEff(i, how, p) ==
  Set([ps EXCEPT !.inside = @ \ {i}, !.praised = IF how = "panic" THEN @ \cup {p} ELSE @])

\* ---------------------------------------------------------------- cancel / context
CancelStartOK(e) == ErrDomain(e)
CancelStartEff(e) ==
  Set([ps EXCEPT !.cstarted = @ \cup {e}, !.cin = @ + 1, !.wrace = @ \/ ps.rwriting])
CancelEndOK == ps.cin > 0
CancelEndEff == Set([ps EXCEPT !.cin = @ - 1, !.cended = TRUE])

CtxStartOK == ps.ctx = 0
CtxStartEff == Set([ps EXCEPT !.ctx = 1, !.wrace = @ \/ ps.rwriting])
CtxEndOK == ps.ctx = 1
CtxEndEff == Set([ps EXCEPT !.ctx = 2])

\* ---------------------------------------------------------------- reducer
RedStartOK == ps.rstate = "idle" /\ ps.api # "foreach"
RedStartEff == Set([ps EXCEPT !.rstate = "run"])

\* every value reaches the reducer at most once (promised while nothing is cancelled), nothing invented
RedRecvOK(v) == ps.rstate = "run" /\ v \in ps.wstart /\ (v \notin ps.recvd \/ Faulted)
RedRecvEff(v) == Set([ps EXCEPT !.recvd = @ \cup {v}])

\* complete reduction: without a fault the pipe ends only after the generator returned, every generated item
\* was mapped, every mapper returned and every written value was received
RedClosedOK ==
  /\ ps.rstate = "run"
  /\ Faulted \/ ( /\ ps.gstate = "ret"
                  /\ ps.mapped = ps.gsent
                  /\ ps.inside = {}
                  /\ ps.recvd = ps.wstart )
RedClosedEff == Set([ps EXCEPT !.pnoticed = @ \/ ps.praised # {}])

RedWriteOK(v) == ps.rstate = "run" /\ ps.rout = 0 /\ v > 0      \* a single output (more is outside the property)
RedWriteEff(v) ==
  Set([ps EXCEPT !.rwriting = TRUE, !.rout = v, !.evid = "val", !.dirty = Must,
                 !.wrace = @ \/ ps.cin > 0 \/ ps.ctx = 1])
RedWriteEndOK == ps.rwriting
RedWriteEndEff == Set([ps EXCEPT !.rwriting = FALSE])

RedEndOK(how, p) == ps.rstate = "run" /\ how \in {"ret", "panic", "ipanic"}
RedEndEff(how, p) ==
  Set([ps EXCEPT !.rstate = how, !.rwriting = FALSE,
                 !.praised = IF how = "panic" THEN @ \cup {p} ELSE @,
                 !.evid = IF how = "ret" /\ ps.evid = "none" THEN "noout" ELSE @,
                 !.dirty = IF how = "ret" /\ ps.evid = "none" THEN Must ELSE @])

\* ---------------------------------------------------------------- the call returns
\* ReturnsLegally.
\*  - a clean result (value / no output / plain return) needs its evidence (the reducer passed exactly this value
\*    to Write, resp. returned without writing) and no fault that had definitely taken effect before the evidence;
\*  - an error must be one that was passed to cancel (its identity; 0 = nil reported as ErrCancelWithNil; a
\*    context error value passed to cancel by user code included) or a context error while the call's context
\*    is ending/ended;
\*  - a re-raised panic must be a panic some user function raised.
\* ForEach/FinishVoid return nothing: a plain return is legal unless a user function panicked and the context is
\* alive (with an ended context the call may give up at any time).
RetOK(kind, v) ==
  /\ ps.cstate = "running"
  /\ \/ kind = "val"   /\ ps.api = "mr" /\ ps.evid = "val" /\ ps.rout = v /\ ~ps.dirty
     \/ kind = "noout" /\ ps.api \in {"mr", "void"} /\ ps.evid = "noout" /\ ~ps.dirty
     \/ kind = "noout" /\ ps.api = "finish" /\ ~Faulted /\ ps.mapped = ps.gsent /\ ps.inside = {}
     \/ kind = "none"  /\ ps.api = "foreach" /\ (ps.praised = {} \/ ps.ctx # 0)
     \/ kind = "err"   /\ ps.api # "foreach" /\ ErrDomain(v) /\ v \in ps.cstarted
     \/ kind = "err"   /\ ps.api # "foreach" /\ v \in CtxErrs /\ ps.ctx # 0
     \/ kind = "panic" /\ v > 0 /\ v \in ps.praised
\* known finding KF_WriteAfterFinish: the reducer's Write had passed its guard when a cancel / the context's end
\* closed the output channel; the library's own "send on closed channel" panic is re-raised to the caller
RetKF(kind, v) ==
  /\ ps.cstate = "running"
  /\ kind = "panic" /\ v = InternalPanic /\ ps.wrace /\ ps.rstate = "ipanic"
RetEff(kind, v) == Set([ps EXCEPT !.cstate = IF kind = "panic" THEN "panicked" ELSE "returned"])

\* ---------------------------------------------------------------- quiescence
\* Terminates + NoLeak + ExactlyOnce at the end: the harness has opened every gate and nothing moves any more.
\* returned: the call came back; leaked: goroutines started by the call that are still alive.
EndOK(returned, leaked) ==
  /\ returned /\ ps.cstate \in {"returned", "panicked"}
  /\ leaked = 0
  /\ ps.inside = {} /\ ps.gstate # "run" /\ ps.rstate # "run"
  /\ Faulted \/ (ps.mapped = ps.gsent /\ ps.recvd \subseteq ps.wstart)
EndEff == PSkip

\* ---- sanity invariants of the bookkeeping (hold by construction) ----
PTypeOK ==
  /\ ps.inside \subseteq ps.mapped
  /\ ps.mapped \subseteq ps.gsent
  /\ ps.recvd \subseteq ps.wstart
  /\ Cardinality(ps.inside) <= ps.workers
  /\ ps.cin >= 0
=============================================================================
