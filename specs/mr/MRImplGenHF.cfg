SPECIFICATION ISpec
CONSTANTS
  NI = 1
  W = 1
  Fanout = 1
  Api = "mr"
  MaxCancel = 1
  MaxPanic = 1
  CtxMay = TRUE
  RedEarly = TRUE
  PBuf = 1
  Prio = TRUE
  CtxFix = TRUE
  Hook = TRUE
  Steer = TRUE
  Emit = TRUE
  Clamp = "min1"
  ErrSet = {}
  AEIgnore = "nil"
INVARIANTS PrintFinal
VIEW View
CHECK_DEADLOCK FALSE
