SPECIFICATION ISpec
CONSTANTS
  NI = 2
  W = 0
  Fanout = 1
  Api = "mr"
  MaxCancel = 0
  MaxPanic = 0
  CtxMay = FALSE
  RedEarly = FALSE
  PBuf = 1
  Prio = TRUE
  CtxFix = TRUE
  Hook = FALSE
  Steer = FALSE
  Emit = FALSE
  Clamp = "min1"
  ErrSet = {}
  AEIgnore = "nil"
INVARIANTS PTypeOK GuardsHold NoStuck EndHolds Counters CollectorClose NoSendOnClosedCollector
VIEW View
CHECK_DEADLOCK FALSE
