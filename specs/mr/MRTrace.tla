------------------------------ MODULE MRTrace ------------------------------
(* Trace validation for C10: the events recorded from one real call of
   mr.MapReduce / MapReduceVoid / MapReduceChan / ForEach / Finish / FinishVoid
   (user functions supplied by the harness) must be a behaviour of MR.tla.
   One action per event kind = Layer-P guard /\ effect.  Events are logged by
   the user functions and by the caller: "...Start"/send/write events before the
   library is entered, "...End"/recv events after it returned.                  *)
EXTENDS MR, TraceKit

VARIABLE l
tvars == <<ps, l>>

E == Trace[l]
IsEvent(e) == l <= Len(Trace) /\ E.e = e /\ l' = l + 1

\* the worker configuration of the call is logged raw (was WithWorkers passed, with which int; the package's default);
\* what it means is the spec's business (EffWorkers).  Traces recorded before that carry the effective count.
TReset       == IsEvent("reset")       /\ ps' = PNew(E.api, IF "wopt" \in DOMAIN E
                                                               THEN EffWorkers(E.wset, E.wopt, E.defw)
                                                               ELSE E.workers)
TCallStart   == IsEvent("callStart")   /\ CallStartOK            /\ CallStartEff
TGenSend     == IsEvent("genSend")     /\ GenSendOK(E.i)         /\ GenSendEff(E.i)
TGenEnd      == IsEvent("genEnd")      /\ GenEndOK(E.how, E.p)   /\ GenEndEff(E.how, E.p)
TMapStart    == IsEvent("mapStart")    /\ MapStartOK(E.i)        /\ MapStartEff(E.i)
TMapWrite    == IsEvent("mapWrite")    /\ MapWriteOK(E.i, E.v)   /\ MapWriteEff(E.i, E.v)
TMapWriteEnd == IsEvent("mapWriteEnd") /\ PSkip
TMapEnd      == IsEvent("mapEnd")      /\ MapEndOK(E.i, E.how, E.p) /\ MapEndEff(E.i, E.how, E.p)
TCancelStart == IsEvent("cancelStart") /\ CancelStartOK(E.err)   /\ CancelStartEff(E.err)
TCancelEnd   == IsEvent("cancelEnd")   /\ CancelEndOK            /\ CancelEndEff
TCtxStart    == IsEvent("ctxStart")    /\ CtxStartOK             /\ CtxStartEff
TCtxEnd      == IsEvent("ctxEnd")      /\ CtxEndOK               /\ CtxEndEff
TRedStart    == IsEvent("redStart")    /\ RedStartOK             /\ RedStartEff
TRedRecv     == IsEvent("redRecv")     /\ RedRecvOK(E.v)         /\ RedRecvEff(E.v)
TRedClosed   == IsEvent("redClosed")   /\ RedClosedOK            /\ RedClosedEff
TRedWrite    == IsEvent("redWrite")    /\ RedWriteOK(E.v)        /\ RedWriteEff(E.v)
TRedWriteEnd == IsEvent("redWriteEnd") /\ RedWriteEndOK          /\ RedWriteEndEff
TRedEnd      == IsEvent("redEnd")      /\ RedEndOK(E.how, E.p)   /\ RedEndEff(E.how, E.p)
TRet         == IsEvent("ret")         /\ RetOK(E.kind, E.v)     /\ RetEff(E.kind, E.v)
\* quiescence: every gate open, nothing can move; did the call return, how many goroutines of the call are left
TEnd         == IsEvent("end")         /\ EndOK(E.returned, E.leaked) /\ EndEff
TInfo        == IsEvent("info")        /\ PSkip

\* known finding (genuine defect, see MR.tla RetKF): only tried by the runner on a rejected trace
KF_WriteAfterFinish ==
  /\ "KF_WriteAfterFinish" \in OpenFindings
  /\ IsEvent("ret") /\ RetKF(E.kind, E.v) /\ RetEff(E.kind, E.v)

TInit == PInit /\ l = 1
TNext == \/ TReset \/ TCallStart \/ TGenSend \/ TGenEnd \/ TMapStart \/ TMapWrite \/ TMapWriteEnd \/ TMapEnd
         \/ TCancelStart \/ TCancelEnd \/ TCtxStart \/ TCtxEnd
         \/ TRedStart \/ TRedRecv \/ TRedClosed \/ TRedWrite \/ TRedWriteEnd \/ TRedEnd
         \/ TRet \/ TEnd \/ TInfo \/ KF_WriteAfterFinish
TSpec == TInit /\ [][TNext]_tvars

HW == HighWater(l)
=============================================================================
