------------------------------- MODULE MRImpl -------------------------------
(* Layer I: the channel plumbing of core/mr/mapreduce.go (buildSource,
   executeMappers, mapReduceWithPanicChan, ForEach, guardedWriter, onceChan, the two
   sync.Once), one action per channel operation / atomic step, with Go's channel
   semantics (unbuffered = rendezvous, send on a closed channel panics, select chooses
   among the ready cases, sync.Once makes later callers wait for the first), running on
   top of the Layer-P bookkeeping of MR.tla.  TLC checks in every interleaving that each
   observable event satisfies its Layer-P guard (variable `bad`), that the only states
   without a successor are those in which every goroutine has ended (no deadlock, no
   leak), and (fair) that the call returns.

   Goroutines: MAIN (the caller inside MapReduce/ForEach), GEN (buildSource), DISP
   (executeMappers), RED (the reducer goroutine), one mapper goroutine per item 1..NI.
   User functions are nondeterministic scripts: at a `*_u` label the function chooses
   its next operation (send an item / write a value / receive / cancel / panic / return).
   The context is ended by the environment at any time.

   Variants (constants)
     Api     "mr" | "foreach"
     PBuf    0 = the code as it is (panicChan unbuffered), 1 = panicChan with a buffer of one
     Prio    TRUE = repair candidate: after receiving from `output` (resp. seeing the collector
             closed in ForEach) a captured panic takes precedence over a clean result
     CtxFix  TRUE = repair candidate: an ended context takes precedence over ErrReduceNoOutput
     Hook    TRUE = gate points verifhook.At("mr.main.select") (the caller just before its select) and
             verifhook.At("mr.write.guarded") (the reducer's Write between guard and send) are environment steps
     W       the int passed to WithWorkers - the whole domain of the option (0 and negative counts included); what
             the property makes of it is MR!EffWorkers, what the code makes of it is PoolCap:
     Clamp   "min1" = the code as it is (anything below minWorkers = 1 becomes 1); "neg" = variant that clamps
             negative counts only (documented counterexample: WithWorkers(0) = a pool and a collector of capacity 0)
     ErrSet  error identities (MR.tla "error domain") a user function may pass to cancel besides the standard ones
             (mapper of item i: i; reducer: 0 = nil): typed-nil errors, wrappers, context errors
     AEIgnore "nil" = errorx.AtomicError.Set as it is (ignores a nil error only; cancel substitutes ErrCancelWithNil
             for nil before calling it); "typednil" = variant whose Set also ignores typed-nil errors (documented
             counterexample: cancel(typed nil) cancels the work but records no error)
     Steer   FALSE = model checking (all interleavings); TRUE = schedule generation for the Go driver:
             user-function operations and the context's end happen only when the library cannot move,
             `hist` records them                                                                  *)
(* Measured (TLC 1.8.0, distinct states; "cancel+panic" = one cancel and one panic by anybody at any point):
     documented counterexamples
       MRImplBugLeak     code as it is, 2 items 2 workers, cancel+panic: NoStuck violated after ~25 000 states (shortest:
                         the reducer writes its output, then panics -> onceChan.write blocks, the caller hangs in its
                         deferred `for range output`; also: cancel/context end, then a panic anywhere -> goroutines stuck)
       MRImplBugFE       ForEach as it is: context end then panic: NoStuck violated (~1 000 states)
       MRImplBugSwallow  panicChan buffered, nothing else: GuardsHold violated (~17 500): a caller arriving late at its
                         select finds panic and closed output both ready and may return a clean result
       MRImplBugCtx      ended context and closed output both ready: ErrReduceNoOutput (~24 000)
       MRImplBugKF       guard/send race of guardedWriter.Write on `output`: internal panic re-raised (~595 000)
     repaired design (PBuf=1, Prio, CtxFix): every guard, NoStuck, EndHolds, protocol invariants
       MRImplMC2   2 items 1 worker, cancel+panic                                144 959
       MRImplMC7   1 item 2 workers, cancel+panic+context end                    266 997
       MRImplMCfe  ForEach 2 items, 2 panics, context end                         16 104
       MRImplMCfe3 ForEach 3 items, 1 panic, context end                          21 070
       MRImplMC3   3 items 2 workers, no fault (exactly-once, completeness, cap)  87 332
       MRImplMC1   1 item, cancel+panic+context+early reducer (GuardsHoldOrKF)   694 412
       MRImplMC4   2 items, fan-out 2, cancel                                    837 890
       MRImplMC6   2 items 2 workers, cancel+panic                               746 178
       MRImplMC5   1 item, 2 cancels, 2 panics, context, early reducer         2 417 950
       (2 items 2 workers, cancel+panic+context+early reducer: 19 639 957, 10 min - not part of a tier)
       MRImplLive / MRImplLiveFE  FairSpec: CallReturns, Quiesces (1 item, cancel+panic+context)  235 856 / 7 728
     worker option / error domain (repaired design unless stated)
       MRImplBugW0   Clamp="neg", WithWorkers(0), 1 item: NoStuck violated after 62 states (dispatcher parked in its select
                     on a pool of capacity 0, generator parked on source, reducer on the collector, caller in its select)
       MRImplBugTNil AEIgnore="typednil", 1 item, one cancel with a typed-nil error: GuardsHold violated (~1 900): the
                     call returns ErrReduceNoOutput although cancel(typed nil) had returned
       MRImplMCw0    WithWorkers(0), 2 items, no fault                              3 778
       MRImplMCwneg  WithWorkers(-3), 2 items, cancel+panic                       144 959
       MRImplMCfeW0  ForEach WithWorkers(0), 2 items, 2 panics, context end         5 320
       MRImplMCerrQ  1 item, one cancel, ErrSetAll                                 25 238
       MRImplMCerr   1 item, two cancels, ErrSetAll                               175 750
       MRImplMCerrC  1 item, one cancel, ErrSetAll, context end                   201 863
       (1 item, two cancels, ErrSetAll, context end: 1 245 687, 45 s - not part of a tier)
       GenEQ (2 items, one cancel, ErrSetAll) 17 551 / 486, GenE (1 item, two cancels, context) 67 755 / 3 328,
       GenW (3 items, WithWorkers(0)) 10 985 / 313, GenFEw (ForEach, WithWorkers(0)) 585 / 36
     steering mode (one schedule per distinct final state, with the context alive or ended): GenQ 72 923 states /
       2 437 schedules, GenD 178 136, GenA 437 760, GenB (3 items) 248 268, GenC (fan-out 2) 40 590, GenFE 2 454 / 90,
       GenStuck (code as it is, schedules ending stuck) 313 995 / 3 658,
       GenStuckQ 25 556 / 450, GenH (gate points, buffered-only design, schedules ending with a failed guard) 66 456 / 89,
       GenHF (gate points, repaired design) 65 584 / 1 140.                                                          *)
EXTENDS MR, Json

CONSTANTS NI, W, Fanout, Api, MaxCancel, MaxPanic, CtxMay, RedEarly, PBuf, Prio, CtxFix, Hook, Steer, Emit,
          Clamp, ErrSet, AEIgnore

VARIABLES
  pc,     \* goroutine |-> label
  loc,    \* goroutine |-> [cret, fnext, pnext, pval, cerr, cur]: continuations and arguments of the subroutines
  ch,     \* channel state: [srcClosed, coll, collClosed, outClosed, doneClosed, pwrote, pbuf]
  sh,     \* shared variables: [failed, pool, wg, retErr, onceSt, finSt, ctxDone, gn, mw, rclosed, rwrote, rpan, mres]
  cnt,    \* script budgets: [cancel, panic]
  bad,    \* "" or the first observable event whose Layer-P guard failed
  hist    \* environment steps (generation only; hidden by the VIEW)

ivars == <<pc, loc, ch, sh, cnt, bad>>
vars == <<ivars, ps, hist>>

Mappers == 1..NI
GEN  == NI + 1
DISP == NI + 2
RED  == NI + 3
MAIN == NI + 4
Procs == 1..(NI + 4)
NoErr == -9

\* capacity of the mapper pool and of the collector: options.workers after WithWorkers(W)
PoolCap == IF W < (IF Clamp = "neg" THEN 0 ELSE 1) THEN 1 ELSE W
\* errors AtomicError.Set drops
AEIgnored == IF AEIgnore = "typednil" THEN {e \in ErrSet : IsTypedNilErr(e)} ELSE {}

\* values for the cfg files (a cfg cannot write a negative number)
ErrSetAll == {7001, 7100, CtxErr}     \* a typed nil, a wrapper, context.DeadlineExceeded passed by user code
WNeg == -3

Val(i, k) == 10 * i + k          \* the k-th value written by the mapper of item i
RedOut == 900                    \* the reducer's output

Log(r) == hist' = IF Emit THEN Append(hist, r) ELSE hist
NoLog == UNCHANGED hist
\* an observable event: perform the Layer-P effect, remember a failed guard
Obs(ok, name, eff) == eff /\ bad' = IF ok \/ bad # "" THEN bad ELSE name
Quiet == PSkip /\ UNCHANGED bad

Goto(s, l) == pc' = [pc EXCEPT ![s] = l]
Goto2(s, l, t, m) == pc' = [pc EXCEPT ![s] = l, ![t] = m]

IInit ==
  /\ ps = [PNew(IF Api = "foreach" THEN "foreach" ELSE "mr", EffWorkers(TRUE, W, 16)) EXCEPT !.cstate = "running"]
  /\ pc = [s \in Procs |-> CASE s \in Mappers -> "idle"
                             [] s = GEN -> "g_u"
                             [] s = DISP -> "d_loop"
                             [] s = RED -> IF Api = "foreach" THEN "done" ELSE "r_start"
                             [] s = MAIN -> "m_pre"]
  /\ loc = [s \in Procs |-> [cret |-> "", fnext |-> "", pnext |-> "", pval |-> 0, cerr |-> NoErr, cur |-> 0]]
  /\ ch = [srcClosed |-> FALSE, coll |-> <<>>, collClosed |-> FALSE, outClosed |-> FALSE,
           doneClosed |-> FALSE, pwrote |-> 0, pbuf |-> <<>>]
  /\ sh = [failed |-> 0, pool |-> 0, wg |-> 0, retErr |-> NoErr, onceSt |-> 0, finSt |-> 0, ctxDone |-> FALSE,
           gn |-> 0, mw |-> [i \in Mappers |-> 0], rclosed |-> FALSE, rwrote |-> FALSE, rpan |-> 0,
           mres |-> <<"", 0>>]
  /\ cnt = [cancel |-> 0, panic |-> 0]
  /\ bad = ""
  /\ hist = <<>>

-----------------------------------------------------------------------------
(* A goroutine parked in a select is resumed by the FIRST event that makes one of its cases ready, and that event
   fixes the case it takes.  MAIN arriving at its select with several cases ready chooses among them; once MAIN is
   at the select with a ready case, the events that would make a further case ready wait until MAIN has moved
   (this loses no behaviour: MAIN's step is the moment its choice is fixed, not the moment it runs on).        *)
PanicReady == ch.pbuf # <<>> \/ \E s \in Procs : pc[s] = "pw2"
MainCommitted ==
  \/ pc[MAIN] = "m_sel" /\ (sh.ctxDone \/ PanicReady \/ ch.outClosed \/ pc[RED] = "ro_send")
  \/ pc[MAIN] = "fe_sel" /\ (PanicReady \/ ch.collClosed)

-----------------------------------------------------------------------------
(* subroutines *)

\* onceChan.write(pval): CAS, then send (unbuffered: blocks until MAIN receives in its select)
PWrite(s) ==
  /\ pc[s] = "pw"
  /\ ch.pwrote = 0 => ~MainCommitted
  /\ IF ch.pwrote = 0
       THEN IF PBuf = 1
              THEN ch' = [ch EXCEPT !.pwrote = 1, !.pbuf = <<loc[s].pval>>] /\ Goto(s, loc[s].pnext)
              ELSE ch' = [ch EXCEPT !.pwrote = 1] /\ Goto(s, "pw2")
       ELSE UNCHANGED ch /\ Goto(s, loc[s].pnext)
  /\ Quiet /\ NoLog /\ UNCHANGED <<loc, sh, cnt>>

\* finish(): closeOnce.Do(close(done); close(output)); later callers wait for the first
FEnter(s) ==
  /\ pc[s] = "f_enter"
  /\ \/ /\ sh.finSt = 0
        /\ sh' = [sh EXCEPT !.finSt = 1] /\ ch' = [ch EXCEPT !.doneClosed = TRUE]
        /\ Goto(s, "f_close2")
     \/ /\ sh.finSt = 2
        /\ Goto(s, loc[s].fnext) /\ UNCHANGED <<sh, ch>>
  /\ Quiet /\ NoLog /\ UNCHANGED <<loc, cnt>>
FClose2(s) ==
  /\ pc[s] = "f_close2" /\ ~MainCommitted
  /\ sh' = [sh EXCEPT !.finSt = 2] /\ ch' = [ch EXCEPT !.outClosed = TRUE]
  /\ Goto(s, loc[s].fnext)
  /\ Quiet /\ NoLog /\ UNCHANGED <<loc, cnt>>

\* cancel(err) = once(retErr.Set; drain(source); finish())
CEnter(s) ==
  /\ pc[s] = "c_enter"
  /\ \/ /\ sh.onceSt = 0
        /\ sh' = [sh EXCEPT !.onceSt = 1, !.retErr = IF loc[s].cerr \in AEIgnored THEN @ ELSE loc[s].cerr]
        /\ Goto(s, "c_drain")
     \/ /\ sh.onceSt = 2
        /\ Goto(s, loc[s].cret) /\ UNCHANGED sh
  /\ Quiet /\ NoLog /\ UNCHANGED <<loc, ch, cnt>>
CDrainEnd(s) ==
  /\ pc[s] = "c_drain" /\ ch.srcClosed
  /\ loc' = [loc EXCEPT ![s].fnext = "c_done"]
  /\ Goto(s, "f_enter")
  /\ Quiet /\ NoLog /\ UNCHANGED <<ch, sh, cnt>>
CDone(s) ==
  /\ pc[s] = "c_done"
  /\ sh' = [sh EXCEPT !.onceSt = 2]
  /\ Goto(s, loc[s].cret)
  /\ Quiet /\ NoLog /\ UNCHANGED <<loc, ch, cnt>>

-----------------------------------------------------------------------------
(* the generator goroutine (buildSource) *)

GenSendU ==
  /\ pc[GEN] = "g_u" /\ sh.gn < NI
  /\ sh' = [sh EXCEPT !.gn = @ + 1]
  /\ Obs(GenSendOK(sh.gn + 1), "genSend", GenSendEff(sh.gn + 1))
  /\ Goto(GEN, "g_send") /\ Log([op |-> "gen", a |-> "send"])
  /\ UNCHANGED <<loc, ch, cnt>>
GenRetU ==
  /\ pc[GEN] = "g_u"
  /\ Obs(GenEndOK("ret", 0), "genEnd", GenEndEff("ret", 0))
  /\ Goto(GEN, "g_close") /\ Log([op |-> "gen", a |-> "ret"])
  /\ UNCHANGED <<loc, ch, sh, cnt>>
GenPanicU ==
  /\ pc[GEN] = "g_u" /\ cnt.panic < MaxPanic
  /\ cnt' = [cnt EXCEPT !.panic = @ + 1]
  /\ Obs(GenEndOK("panic", GEN), "genEnd", GenEndEff("panic", GEN))
  /\ loc' = [loc EXCEPT ![GEN].pval = GEN, ![GEN].pnext = "g_close"]
  /\ Goto(GEN, "pw") /\ Log([op |-> "gen", a |-> "panic"])
  /\ UNCHANGED <<ch, sh>>
GenClose ==
  /\ pc[GEN] = "g_close"
  /\ ch' = [ch EXCEPT !.srcClosed = TRUE]
  /\ Goto(GEN, "done")
  /\ Quiet /\ NoLog /\ UNCHANGED <<loc, sh, cnt>>

\* source <- item: rendezvous with the dispatcher or with anybody draining the source
SrcToDisp ==
  /\ pc[GEN] = "g_send" /\ pc[DISP] = "d_recv"
  /\ sh' = [sh EXCEPT !.wg = @ + 1]
  /\ pc' = [pc EXCEPT ![GEN] = "g_u", ![DISP] = "d_loop", ![sh.gn] = "m_start"]
  /\ Quiet /\ NoLog /\ UNCHANGED <<loc, ch, cnt>>
SrcToDrain(s) ==
  /\ pc[GEN] = "g_send" /\ pc[s] \in {"d_drain", "c_drain"}
  /\ Goto(GEN, "g_u")
  /\ Quiet /\ NoLog /\ UNCHANGED <<loc, ch, sh, cnt>>

-----------------------------------------------------------------------------
(* executeMappers *)

DLoop ==
  /\ pc[DISP] = "d_loop"
  /\ Goto(DISP, IF sh.failed > 0 THEN "d_wait" ELSE "d_sel")
  /\ Quiet /\ NoLog /\ UNCHANGED <<loc, ch, sh, cnt>>
DSel ==
  /\ pc[DISP] = "d_sel"
  /\ \/ sh.ctxDone /\ Goto(DISP, "d_wait") /\ UNCHANGED sh
     \/ ch.doneClosed /\ Goto(DISP, "d_wait") /\ UNCHANGED sh
     \/ sh.pool < PoolCap /\ sh' = [sh EXCEPT !.pool = @ + 1] /\ Goto(DISP, "d_recv")
  /\ Quiet /\ NoLog /\ UNCHANGED <<loc, ch, cnt>>
DRecvClosed ==
  /\ pc[DISP] = "d_recv" /\ ch.srcClosed
  /\ sh' = [sh EXCEPT !.pool = @ - 1]
  /\ Goto(DISP, "d_wait")
  /\ Quiet /\ NoLog /\ UNCHANGED <<loc, ch, cnt>>
DWait ==
  /\ pc[DISP] = "d_wait" /\ sh.wg = 0
  /\ Api = "foreach" => ~MainCommitted
  /\ ch' = [ch EXCEPT !.collClosed = TRUE]
  /\ Goto(DISP, "d_drain")
  /\ Quiet /\ NoLog /\ UNCHANGED <<loc, sh, cnt>>
DDrainEnd ==
  /\ pc[DISP] = "d_drain" /\ ch.srcClosed
  /\ Goto(DISP, "done")
  /\ Quiet /\ NoLog /\ UNCHANGED <<loc, ch, sh, cnt>>

-----------------------------------------------------------------------------
(* a mapper goroutine *)

MStart(i) ==
  /\ pc[i] = "m_start"
  /\ Obs(MapStartOK(i), "mapStart", MapStartEff(i))
  /\ Goto(i, "m_u")
  /\ NoLog /\ UNCHANGED <<loc, ch, sh, cnt>>
MWriteU(i) ==
  /\ pc[i] = "m_u" /\ Api # "foreach" /\ sh.mw[i] < Fanout
  /\ LET v == Val(i, sh.mw[i] + 1) IN
       /\ Obs(MapWriteOK(i, v), "mapWrite", MapWriteEff(i, v))
       /\ loc' = [loc EXCEPT ![i].cur = v]
  /\ sh' = [sh EXCEPT !.mw[i] = @ + 1]
  /\ Goto(i, "w_guard") /\ Log([op |-> "map", i |-> i, a |-> "write"])
  /\ UNCHANGED <<ch, cnt>>
MCancelU(i) ==
  /\ pc[i] = "m_u" /\ Api # "foreach" /\ cnt.cancel < MaxCancel
  /\ cnt' = [cnt EXCEPT !.cancel = @ + 1]
  /\ \E e \in {i} \cup ErrSet :
       /\ Obs(CancelStartOK(e), "cancelStart", CancelStartEff(e))
       /\ loc' = [loc EXCEPT ![i].cerr = e, ![i].cret = "m_cret"]
       /\ Log([op |-> "map", i |-> i, a |-> "cancel", e |-> e])
  /\ Goto(i, "c_enter")
  /\ UNCHANGED <<ch, sh>>
MCRet(i) ==
  /\ pc[i] = "m_cret"
  /\ Obs(CancelEndOK, "cancelEnd", CancelEndEff)
  /\ Goto(i, "m_u")
  /\ NoLog /\ UNCHANGED <<loc, ch, sh, cnt>>
MPanicU(i) ==
  /\ pc[i] = "m_u" /\ cnt.panic < MaxPanic
  /\ cnt' = [cnt EXCEPT !.panic = @ + 1]
  /\ Obs(MapEndOK(i, "panic", i), "mapEnd", MapEndEff(i, "panic", i))
  /\ Goto(i, "m_failed") /\ Log([op |-> "map", i |-> i, a |-> "panic"])
  /\ UNCHANGED <<loc, ch, sh>>
MFailed(i) ==
  /\ pc[i] = "m_failed"
  /\ sh' = [sh EXCEPT !.failed = @ + 1]
  /\ loc' = [loc EXCEPT ![i].pval = i, ![i].pnext = "m_exit"]
  /\ Goto(i, "pw")
  /\ Quiet /\ NoLog /\ UNCHANGED <<ch, cnt>>
MRetU(i) ==
  /\ pc[i] = "m_u"
  /\ Obs(MapEndOK(i, "ret", 0), "mapEnd", MapEndEff(i, "ret", 0))
  /\ Goto(i, "m_exit") /\ Log([op |-> "map", i |-> i, a |-> "ret"])
  /\ UNCHANGED <<loc, ch, sh, cnt>>
\* wg.Done(); <-pool
MExit(i) ==
  /\ pc[i] = "m_exit"
  /\ sh' = [sh EXCEPT !.wg = @ - 1, !.pool = @ - 1]
  /\ Goto(i, "done")
  /\ Quiet /\ NoLog /\ UNCHANGED <<loc, ch, cnt>>

\* guardedWriter.Write on the collector: select { ctx.Done / done: drop; default: collector <- v }
WGuard(i) ==
  /\ pc[i] = "w_guard"
  /\ Goto(i, IF sh.ctxDone \/ ch.doneClosed THEN "w_ret" ELSE "w_send")
  /\ Quiet /\ NoLog /\ UNCHANGED <<loc, ch, sh, cnt>>
WSend(i) ==
  /\ pc[i] = "w_send" /\ Len(ch.coll) < PoolCap
  /\ ch' = [ch EXCEPT !.coll = Append(@, loc[i].cur)]
  /\ Goto(i, "w_ret")
  /\ Quiet /\ NoLog /\ UNCHANGED <<loc, sh, cnt>>
WRet(i) ==
  /\ pc[i] = "w_ret"
  /\ Goto(i, "m_u")
  /\ Quiet /\ NoLog /\ UNCHANGED <<loc, ch, sh, cnt>>

-----------------------------------------------------------------------------
(* the reducer goroutine *)

RStart ==
  /\ pc[RED] = "r_start"
  /\ Obs(RedStartOK, "redStart", RedStartEff)
  /\ Goto(RED, "r_u")
  /\ NoLog /\ UNCHANGED <<loc, ch, sh, cnt>>
RRecvU ==
  /\ pc[RED] = "r_u" /\ ~sh.rclosed
  /\ Goto(RED, "r_recv") /\ Log([op |-> "red", a |-> "recv"])
  /\ Quiet /\ UNCHANGED <<loc, ch, sh, cnt>>
RRecvVal ==
  /\ pc[RED] = "r_recv" /\ ch.coll # <<>>
  /\ Obs(RedRecvOK(Head(ch.coll)), "redRecv", RedRecvEff(Head(ch.coll)))
  /\ ch' = [ch EXCEPT !.coll = Tail(@)]
  /\ Goto(RED, "r_u")
  /\ NoLog /\ UNCHANGED <<loc, sh, cnt>>
RRecvClosed ==
  /\ pc[RED] = "r_recv" /\ ch.coll = <<>> /\ ch.collClosed
  /\ Obs(RedClosedOK, "redClosed", RedClosedEff)
  /\ sh' = [sh EXCEPT !.rclosed = TRUE]
  /\ Goto(RED, "r_u")
  /\ NoLog /\ UNCHANGED <<loc, ch, cnt>>
\* the reducer writes its output: after the pipe ended, or (RedEarly) at any time
RWriteU ==
  /\ pc[RED] = "r_u" /\ ~sh.rwrote /\ (sh.rclosed \/ RedEarly)
  /\ Obs(RedWriteOK(RedOut), "redWrite", RedWriteEff(RedOut))
  /\ sh' = [sh EXCEPT !.rwrote = TRUE]
  /\ Goto(RED, "ro_guard") /\ Log([op |-> "red", a |-> "write"])
  /\ UNCHANGED <<loc, ch, cnt>>
ROGuard ==
  /\ pc[RED] = "ro_guard"
  /\ (sh.ctxDone \/ ch.doneClosed) \/ Hook \/ ~MainCommitted
  /\ Goto(RED, IF sh.ctxDone \/ ch.doneClosed THEN "ro_ret" ELSE IF Hook THEN "ro_hook" ELSE "ro_send")
  /\ Quiet /\ NoLog /\ UNCHANGED <<loc, ch, sh, cnt>>
\* the gate point between the guard and the send (environment step)
ROHook ==
  /\ pc[RED] = "ro_hook" /\ ~MainCommitted
  /\ Goto(RED, "ro_send") /\ Log([op |-> "hook", pt |-> "write"])
  /\ Quiet /\ UNCHANGED <<loc, ch, sh, cnt>>
\* output <- v on a closed channel: the library panics inside the reducer's call of Write
ROSendClosed ==
  /\ pc[RED] = "ro_send" /\ ch.outClosed
  /\ Obs(RedEndOK("ipanic", 0), "redEnd", RedEndEff("ipanic", 0))
  /\ sh' = [sh EXCEPT !.rpan = InternalPanic]
  /\ Goto(RED, "r_drain")
  /\ NoLog /\ UNCHANGED <<loc, ch, cnt>>
RORet ==
  /\ pc[RED] = "ro_ret"
  /\ Obs(RedWriteEndOK, "redWriteEnd", RedWriteEndEff)
  /\ Goto(RED, "r_u")
  /\ NoLog /\ UNCHANGED <<loc, ch, sh, cnt>>
RCancelU ==
  /\ pc[RED] = "r_u" /\ cnt.cancel < MaxCancel
  /\ cnt' = [cnt EXCEPT !.cancel = @ + 1]
  /\ \E e \in {0} \cup ErrSet :
       /\ Obs(CancelStartOK(e), "cancelStart", CancelStartEff(e))
       /\ loc' = [loc EXCEPT ![RED].cerr = e, ![RED].cret = "r_cret"]
       /\ Log([op |-> "red", a |-> "cancel", e |-> e])
  /\ Goto(RED, "c_enter")
  /\ UNCHANGED <<ch, sh>>
RCRet ==
  /\ pc[RED] = "r_cret"
  /\ Obs(CancelEndOK, "cancelEnd", CancelEndEff)
  /\ Goto(RED, "r_u")
  /\ NoLog /\ UNCHANGED <<loc, ch, sh, cnt>>
RPanicU ==
  /\ pc[RED] = "r_u" /\ cnt.panic < MaxPanic
  /\ cnt' = [cnt EXCEPT !.panic = @ + 1]
  /\ Obs(RedEndOK("panic", RED), "redEnd", RedEndEff("panic", RED))
  /\ sh' = [sh EXCEPT !.rpan = RED]
  /\ Goto(RED, "r_drain") /\ Log([op |-> "red", a |-> "panic"])
  /\ UNCHANGED <<loc, ch>>
RRetU ==
  /\ pc[RED] = "r_u"
  /\ Obs(RedEndOK("ret", 0), "redEnd", RedEndEff("ret", 0))
  /\ Goto(RED, "r_drain") /\ Log([op |-> "red", a |-> "ret"])
  /\ UNCHANGED <<loc, ch, sh, cnt>>
\* deferred: drain(collector); if recovered: panicChan.write; finish()
RDrainVal ==
  /\ pc[RED] = "r_drain" /\ ch.coll # <<>>
  /\ ch' = [ch EXCEPT !.coll = Tail(@)]
  /\ UNCHANGED pc
  /\ Quiet /\ NoLog /\ UNCHANGED <<loc, sh, cnt>>
RDrainEnd ==
  /\ pc[RED] = "r_drain" /\ ch.coll = <<>> /\ ch.collClosed
  /\ IF sh.rpan # 0
       THEN loc' = [loc EXCEPT ![RED].pval = sh.rpan, ![RED].pnext = "f_enter", ![RED].fnext = "done"] /\ Goto(RED, "pw")
       ELSE loc' = [loc EXCEPT ![RED].fnext = "done"] /\ Goto(RED, "f_enter")
  /\ Quiet /\ NoLog /\ UNCHANGED <<ch, sh, cnt>>

-----------------------------------------------------------------------------
(* the caller: mapReduceWithPanicChan / ForEach *)

MPreGo(hk) ==
  /\ pc[MAIN] = "m_pre" /\ Hook = hk
  /\ Goto(MAIN, IF Api = "foreach" THEN "fe_sel" ELSE "m_sel")
  /\ IF hk THEN Log([op |-> "hook", pt |-> "main"]) ELSE NoLog
  /\ Quiet /\ UNCHANGED <<loc, ch, sh, cnt>>
MPre == MPreGo(FALSE)
MPreHook == MPreGo(TRUE)

\* receive from panicChan: from the buffer, or by rendezvous with a blocked writer
TakePanic(next) ==
  \/ /\ ch.pbuf # <<>>
     /\ sh' = [sh EXCEPT !.mres = <<"panic", ch.pbuf[1]>>]
     /\ ch' = [ch EXCEPT !.pbuf = <<>>]
     /\ Goto(MAIN, next)
  \/ \E s \in Procs :
       /\ pc[s] = "pw2"
       /\ sh' = [sh EXCEPT !.mres = <<"panic", loc[s].pval>>]
       /\ Goto2(MAIN, next, s, loc[s].pnext)
       /\ UNCHANGED ch

Clean(ok) ==
  IF sh.retErr # NoErr THEN <<"err", sh.retErr>>
  ELSE IF ok THEN <<"val", RedOut>>
  ELSE IF CtxFix /\ sh.ctxDone THEN <<"err", CtxErr>>
  ELSE <<"noout", 0>>

MSelCtx ==
  /\ pc[MAIN] = "m_sel" /\ sh.ctxDone
  /\ loc' = [loc EXCEPT ![MAIN].cerr = CtxErr, ![MAIN].cret = "m_ctxret"]
  /\ Goto(MAIN, "c_enter")
  /\ Quiet /\ NoLog /\ UNCHANGED <<ch, sh, cnt>>
MCtxRet ==
  /\ pc[MAIN] = "m_ctxret"
  /\ sh' = [sh EXCEPT !.mres = <<"err", CtxErr>>]
  /\ Goto(MAIN, "m_defer")
  /\ Quiet /\ NoLog /\ UNCHANGED <<loc, ch, cnt>>
MSelPanic ==
  /\ pc[MAIN] = "m_sel"
  /\ TakePanic("m_pdrain")
  /\ Quiet /\ NoLog /\ UNCHANGED <<loc, cnt>>
\* case v, ok := <-output
MSelOutVal ==
  /\ pc[MAIN] = "m_sel" /\ pc[RED] = "ro_send" /\ ~ch.outClosed
  /\ IF Prio /\ sh.retErr = NoErr /\ ch.pbuf # <<>>
       THEN /\ sh' = [sh EXCEPT !.mres = <<"panic", ch.pbuf[1]>>]
            /\ ch' = [ch EXCEPT !.pbuf = <<>>]
            /\ Goto2(MAIN, "m_pdrain", RED, "ro_ret")
       ELSE /\ sh' = [sh EXCEPT !.mres = Clean(TRUE)]
            /\ Goto2(MAIN, "m_defer", RED, "ro_ret")
            /\ UNCHANGED ch
  /\ Quiet /\ NoLog /\ UNCHANGED <<loc, cnt>>
MSelOutClosed ==
  /\ pc[MAIN] = "m_sel" /\ ch.outClosed
  /\ IF Prio /\ sh.retErr = NoErr /\ ch.pbuf # <<>>
       THEN /\ sh' = [sh EXCEPT !.mres = <<"panic", ch.pbuf[1]>>]
            /\ ch' = [ch EXCEPT !.pbuf = <<>>]
            /\ Goto(MAIN, "m_pdrain")
       ELSE /\ sh' = [sh EXCEPT !.mres = Clean(FALSE)]
            /\ Goto(MAIN, "m_defer")
            /\ UNCHANGED ch
  /\ Quiet /\ NoLog /\ UNCHANGED <<loc, cnt>>
\* drain(output) before re-raising; the deferred `for range output`
MDrainVal ==
  /\ pc[MAIN] \in {"m_pdrain", "m_defer"} /\ pc[RED] = "ro_send" /\ ~ch.outClosed
  /\ IF pc[MAIN] = "m_defer"
       THEN sh' = [sh EXCEPT !.mres = <<"panic", InternalPanic>>]      \* "more than one element written in reducer"
       ELSE UNCHANGED sh
  /\ Goto2(MAIN, pc[MAIN], RED, "ro_ret")
  /\ Quiet /\ NoLog /\ UNCHANGED <<loc, ch, cnt>>
MDrainEnd ==
  /\ pc[MAIN] \in {"m_pdrain", "m_defer"} /\ ch.outClosed
  /\ Goto(MAIN, "m_ret")
  /\ Quiet /\ NoLog /\ UNCHANGED <<loc, ch, sh, cnt>>
\* ForEach: for { select { case v := <-panicChan: panic(v); case _, ok := <-collector: if !ok return } }
FESelPanic ==
  /\ pc[MAIN] = "fe_sel"
  /\ TakePanic("m_ret")
  /\ Quiet /\ NoLog /\ UNCHANGED <<loc, cnt>>
FESelClosed ==
  /\ pc[MAIN] = "fe_sel" /\ ch.collClosed
  /\ IF Prio /\ ch.pbuf # <<>>
       THEN sh' = [sh EXCEPT !.mres = <<"panic", ch.pbuf[1]>>] /\ ch' = [ch EXCEPT !.pbuf = <<>>]
       ELSE sh' = [sh EXCEPT !.mres = <<"none", 0>>] /\ UNCHANGED ch
  /\ Goto(MAIN, "m_ret")
  /\ Quiet /\ NoLog /\ UNCHANGED <<loc, cnt>>
MRet ==
  /\ pc[MAIN] = "m_ret"
  /\ LET k == sh.mres[1]  v == sh.mres[2] IN
       /\ RetEff(k, v)
       /\ bad' = IF bad # "" \/ RetOK(k, v) THEN bad ELSE IF RetKF(k, v) THEN "kf" ELSE "ret"
  /\ Goto(MAIN, "done")
  /\ NoLog /\ UNCHANGED <<loc, ch, sh, cnt>>

-----------------------------------------------------------------------------
(* the context ends (environment); its cancel function returns (follow-up) *)
CtxFlip ==
  /\ CtxMay /\ ps.ctx = 0 /\ ~MainCommitted
  /\ sh' = [sh EXCEPT !.ctxDone = TRUE]
  /\ Obs(CtxStartOK, "ctxStart", CtxStartEff)
  /\ Log([op |-> "ctx"])
  /\ UNCHANGED <<pc, loc, ch, cnt>>
CtxFin ==
  /\ ps.ctx = 1
  /\ Obs(CtxEndOK, "ctxEnd", CtxEndEff)
  /\ NoLog /\ UNCHANGED <<pc, loc, ch, sh, cnt>>

-----------------------------------------------------------------------------
\* operations the user functions choose (the harness's gates) and the context's end
EnvUser == \/ GenSendU \/ GenRetU \/ GenPanicU
           \/ \E i \in Mappers : MWriteU(i) \/ MCancelU(i) \/ MPanicU(i) \/ MRetU(i)
           \/ RRecvU \/ RWriteU \/ RCancelU \/ RPanicU \/ RRetU
           \/ MPreHook \/ ROHook
Env == EnvUser \/ CtxFlip
\* everything the library does on its own
Proto == \/ \E s \in Procs : PWrite(s) \/ FEnter(s) \/ FClose2(s) \/ CEnter(s) \/ CDrainEnd(s) \/ CDone(s) \/ SrcToDrain(s)
         \/ GenClose \/ SrcToDisp
         \/ DLoop \/ DSel \/ DRecvClosed \/ DWait \/ DDrainEnd
         \/ \E i \in Mappers : MStart(i) \/ MCRet(i) \/ MFailed(i) \/ MExit(i) \/ WGuard(i) \/ WSend(i) \/ WRet(i)
         \/ RStart \/ RRecvVal \/ RRecvClosed \/ ROGuard \/ ROSendClosed \/ RORet \/ RCRet \/ RDrainVal \/ RDrainEnd
         \/ MPre \/ MSelCtx \/ MCtxRet \/ MSelPanic \/ MSelOutVal \/ MSelOutClosed \/ MDrainVal \/ MDrainEnd
         \/ FESelPanic \/ FESelClosed \/ MRet
         \/ CtxFin

MNext == Proto \/ Env
SNext == Proto \/ (~ENABLED Proto /\ Env)
INext == IF Steer THEN SNext ELSE MNext
ISpec == IInit /\ [][INext]_vars
\* every goroutine keeps taking its steps, every user function eventually performs its next operation;
\* the context owes nothing
FairSpec == ISpec /\ WF_vars(Proto) /\ WF_vars(Env)

-----------------------------------------------------------------------------
(* properties *)

\* refinement I => P: every observable event satisfied its Layer-P guard
GuardsHold == bad = ""
\* the same, except for the situation of known finding KF_WriteAfterFinish
GuardsHoldOrKF == bad \in {"", "kf"}

AllDone == \A s \in Procs : pc[s] \in {"done", "idle"}
\* Terminates + NoLeak: a state without a successor is one in which every goroutine has ended
\* (the user scripts can always return, so a stuck state is the library's)
NoStuck == (~ENABLED Proto /\ ~ENABLED Env) => AllDone
\* ExactlyOnce at quiescence
EndHolds == AllDone => EndOK(TRUE, 0)

Counters == sh.wg >= 0 /\ sh.pool >= 0 /\ sh.pool <= PoolCap /\ Len(ch.coll) <= PoolCap /\ Len(ch.pbuf) <= 1
\* the collector is closed only after every spawned mapper has gone
CollectorClose == ch.collClosed => \A i \in Mappers : pc[i] \in {"idle", "done"}
\* the reducer goroutine is the only sender on output, mappers the only senders on the collector
NoSendOnClosedCollector == \A i \in Mappers : pc[i] = "w_send" => ~ch.collClosed

\* liveness (FairSpec)
CallReturns == <>(pc[MAIN] = "done")
Quiesces == <>[]AllDone

-----------------------------------------------------------------------------
(* schedule generation *)
View == <<ivars, ps>>
\* final: nothing moves any more, whether or not the context has (also) ended by then
Final == ~ENABLED Proto /\ ~ENABLED EnvUser
\* one environment schedule per distinct final state (shortest, BFS)
PrintFinal == (Emit /\ Final) => PrintT("TRACE " \o ToJson(hist))
\* schedules that end stuck, resp. with a failed guard (design-level counterexamples to reproduce)
PrintStuck == (Emit /\ Final /\ ~AllDone) => PrintT("TRACE " \o ToJson(hist))
PrintBad == (Emit /\ Final /\ bad # "") => PrintT("TRACE " \o ToJson(hist))
=============================================================================
