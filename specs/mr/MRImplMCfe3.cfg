SPECIFICATION ISpec
CONSTANTS
  NI = 3
  W = 2
  Fanout = 1
  Api = "foreach"
  MaxCancel = 0
  MaxPanic = 1
  CtxMay = TRUE
  RedEarly = FALSE
  PBuf = 1
  Prio = TRUE
  CtxFix = TRUE
  Hook = FALSE
  Steer = FALSE
  Emit = FALSE
  Clamp = "min1"
  ErrSet = {}
  AEIgnore = "nil"
INVARIANTS PTypeOK GuardsHold NoStuck EndHolds Counters CollectorClose NoSendOnClosedCollector
VIEW View
CHECK_DEADLOCK FALSE
