SPECIFICATION FairSpec
CONSTANTS
  NI = 2
  W = 2
  Fanout = 1
  Api = "foreach"
  MaxCancel = 0
  MaxPanic = 1
  CtxMay = TRUE
  RedEarly = FALSE
  PBuf = 1
  Prio = TRUE
  CtxFix = TRUE
  Hook = FALSE
  Steer = FALSE
  Emit = FALSE
  Clamp = "min1"
  ErrSet = {}
  AEIgnore = "nil"
PROPERTIES CallReturns Quiesces
CHECK_DEADLOCK FALSE
