SPECIFICATION ISpec
CONSTANTS
  NI = 1
  W = 1
  Fanout = 1
  Api = "mr"
  MaxCancel = 1
  MaxPanic = 1
  CtxMay = TRUE
  RedEarly = TRUE
  PBuf = 1
  Prio = FALSE
  CtxFix = FALSE
  Hook = TRUE
  Steer = TRUE
  Emit = TRUE
  Clamp = "min1"
  ErrSet = {}
  AEIgnore = "nil"
INVARIANTS PrintBad
VIEW View
CHECK_DEADLOCK FALSE
