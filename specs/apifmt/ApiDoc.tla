------------------------------- MODULE ApiDoc -------------------------------
(* C20 -- goctl .api formatter: meaning preservation, idempotence, errors instead of crashes.

   This module is (1) the grammar of the .api language as an *unparser*: abstract documents
   (trees), their token sequences with the lexical/line constraints of every token boundary,
   layouts (one separator per token boundary: blanks, line breaks, comments of every shape)
   and the rendering of document + layout to source text; (2) a "document builder" state
   machine that TLC explores to enumerate abstract documents and layouts (bounded
   exhaustively, or pseudo-randomly); (3) the meaning of a document (the tree without layout,
   comments, grouping and empty forms) and the property as the guards ParseOK / FormatOK /
   ReparseOK / ReformatOK of the protocol steps parse, format, re-parse, re-format, which
   ApiDocTrace binds to what the real parser and the real format.Source did with the
   rendered text.

   Abstract syntax (all values are records/sequences/strings, mirrored 1:1 by the JSON the
   Go driver logs):
     Doc   == Seq(Stmt)
     Stmt  == [k:"syntax", v]            | [k:"info", kv: Seq(<<key, val>>)]
            | [k:"import", v]            | [k:"importg", vs: Seq(str)]
            | [k:"type", name, alias, dt]| [k:"typeg", ds: Seq([k:"type", name, alias, dt])]
            | [k:"service", server: Seq(<<key, Seq(tokentext)>>), name: Seq(tokentext), items: Seq(Item)]
     DT    == [t:"base", n] | [t:"any"] | [t:"iface"] | [t:"slice", e] | [t:"array", len, e]
            | [t:"map", key, val] | [t:"ptr", e] | [t:"struct", fields: Seq(Field)]
     Field == [names: Seq(str), dt, tag]          (names = <<>>: anonymous; tag = "": none)
     Item  == [doc, handler, method, path: Seq(tokentext), req, resp, semi]
     doc   == [t:"none"] | [t:"lit", v] | [t:"group", kv]
     body  == [t:"none"] | [t:"empty"]  ("()") | [t:"body", arr, star, name]                *)
EXTENDS Integers, Sequences, FiniteSets, TLC

CONSTANTS
  StmtKinds,   \* statement kinds the builder may add
  MaxStmts,    \* statements per document
  MaxFields,   \* fields per struct
  MaxDepth,    \* nesting depth of anonymous struct types (0 = no nested struct)
  MaxGroup,    \* members per import group / type group
  MaxItems,    \* routes per service
  Pool,        \* "tiny" | "cover" | "rich": size of the pools of types / fields / routes;
               \* "routes": every route shape of the rich pool inside one plain service, the rest tiny
  Ordered,     \* BOOLEAN: kitchen-sink documents (see the pools section)
  MaxSteps,    \* builder steps per document
  Modes,       \* subset of {"default","single","uniform","random","mutate","area","areapair"} and of the
               \* character-level mutations {"trunc","tail","delch","dupch"} with their switches "charlay", "eol"
  Kinds,       \* layout kinds used by the modes single / uniform / random
  Salts,       \* salts of the pseudo-random layouts (mode "random")
  Density,     \* mode "random": a boundary is perturbed with probability 1/Density
  MinSteps,    \* the builder may finish only after this many steps (simulation: large docs)
  Seed,        \* seed of the pseudo-random layouts
  Avoid,       \* BOOLEAN: the modes single / uniform / random stay out of the area of the open
               \* known findings (KnownArea); the modes area / areapair enumerate exactly that area
  Showcase     \* BOOLEAN: mode "single" only produces the showcase case of the known findings

VARIABLES
  doc,     \* the abstract document built so far
  lvl,     \* depth of the struct that AddField appends to (-1: no struct open)
  var,     \* ordered mode: which kitchen-sink variant the last statement is built from (else 0)
  steps,   \* builder steps taken
  phase,   \* "build" -> "lay" -> "ready"
  toks,    \* Tokens(doc) once the document is complete (<<>> while building)
  lay,     \* layout: kind of every token boundary 1..n+1 (0 = the canonical separator)
  mut      \* mutation applied to the token sequence, or to the rendered text (CharMuts)
           \* ([kind |-> "none"] for valid cases)

vars == <<doc, lvl, var, steps, phase, toks, lay, mut>>

----------------------------------------------------------------------------
(* Strings *)
RECURSIVE Cat(_)
Cat(s) == IF s = <<>> THEN "" ELSE s[1] \o Cat(Tail(s))

RECURSIVE Tabs(_)
Tabs(n) == IF n <= 0 THEN "" ELSE "\t" \o Tabs(n - 1)
NL(n) == "\n" \o Tabs(n)

----------------------------------------------------------------------------
(* Tokens.  A token record describes the token and the boundary *before* it:
     t   text
     wl  the text starts with an identifier character, wr: ends with one
         (two tokens with wr /\ wl need a separator between them)
     ln  line constraint of the boundary before the token:
         "any"; "same": must stay on the line of the previous token (second token of a
         named struct field -- the parser tells named from anonymous fields by the line);
         "next": must be on a later line (token after a bare anonymous field);
         "path": only blanks (a comment after '/' in a route path is a syntax error)
     d   canonical separator before the token
     r   region (used to describe known findings)                                  *)
Tk(t, wl, wr, d, r) == [t |-> t, wl |-> wl, wr |-> wr, ln |-> "any", d |-> d, r |-> r]
Wd(t, d, r) == Tk(t, TRUE, TRUE, d, r)      \* identifier, keyword, number, duration
Pn(t, d, r) == Tk(t, FALSE, FALSE, d, r)    \* punctuation, string literal
At(t, d, r) == Tk(t, FALSE, TRUE, d, r)     \* @doc @handler @server

WithLn(ts, ln) == IF ts = <<>> THEN ts ELSE <<[ts[1] EXCEPT !.ln = ln]>> \o Tail(ts)
WithD(ts, d)   == IF ts = <<>> THEN ts ELSE <<[ts[1] EXCEPT !.d = d]>> \o Tail(ts)

Punct == {"/", "-", ",", ":", "*", "[", "]", "(", ")", "..."}
SrvStr == "\"sum 5% of %s\""      \* the only quoted literal among the multi-token atoms
IsQuoted(t) == t = SrvStr
Atom(t, d, r) == IF t \in Punct \/ IsQuoted(t) THEN Pn(t, d, r) ELSE Wd(t, d, r)

AnonBare(f) == f.names = <<>> /\ f.dt.t = "base" /\ f.tag = ""

RECURSIVE DTT(_, _), FieldsFrom(_, _, _)
FieldT(f, ind) ==
  LET tag == IF f.tag = "" THEN <<>> ELSE <<Pn(f.tag, " ", "tag")>> IN
  IF f.names = <<>>
  THEN WithD(DTT(f.dt, ind), NL(ind)) \o tag
  ELSE LET rest == [i \in 1..(2 * (Len(f.names) - 1)) |->
                      IF i % 2 = 1 THEN Pn(",", "", "fname") ELSE Wd(f.names[(i \div 2) + 1], " ", "fname")]
           all  == <<Wd(f.names[1], NL(ind), "fname")>> \o rest \o WithD(DTT(f.dt, ind), " ") \o tag
       IN  [i \in 1..Len(all) |-> IF i = 2 THEN [all[i] EXCEPT !.ln = "same"] ELSE all[i]]

FieldsFrom(fs, i, ind) ==
  IF i > Len(fs) THEN <<>>
  ELSE LET ft == FieldT(fs[i], ind) IN
       (IF i > 1 /\ AnonBare(fs[i - 1]) THEN WithLn(ft, "next") ELSE ft) \o FieldsFrom(fs, i + 1, ind)

DTT(dt, ind) ==
  CASE dt.t = "base"  -> <<Wd(dt.n, "", "dt")>>
    [] dt.t = "any"   -> <<Wd("any", "", "dt")>>
    [] dt.t = "iface" -> <<Tk("interface{}", TRUE, FALSE, "", "dt")>>
    [] dt.t = "slice" -> <<Pn("[", "", "dt"), Pn("]", "", "dt")>> \o DTT(dt.e, ind)
    [] dt.t = "array" -> <<Pn("[", "", "dt"), Atom(dt.len, "", "dt"), Pn("]", "", "dt")>> \o DTT(dt.e, ind)
    [] dt.t = "map"   -> <<Wd("map", "", "dt"), Pn("[", "", "dt")>> \o DTT(dt.key, ind)
                           \o <<Pn("]", "", "dt")>> \o DTT(dt.val, ind)
    [] dt.t = "ptr"   -> <<Pn("*", "", "dt")>> \o DTT(dt.e, ind)
    [] dt.t = "struct" ->
         IF dt.fields = <<>> THEN <<Pn("{", "", "dt"), Pn("}", "", "dt")>>
         ELSE <<Pn("{", "", "dt")>> \o FieldsFrom(dt.fields, 1, ind + 1)
              \o <<[Pn("}", NL(ind), "dt") EXCEPT
                      !.ln = IF AnonBare(dt.fields[Len(dt.fields)]) THEN "next" ELSE "any"]>>

KVT(kv, ind, r) == <<Wd(kv[1], NL(ind), r), Pn(":", "", r), Pn(kv[2], " ", r)>>
RECURSIVE KVsT(_, _, _)
KVsT(kvs, ind, r) == IF kvs = <<>> THEN <<>> ELSE KVT(kvs[1], ind, r) \o KVsT(Tail(kvs), ind, r)

AtomsT(ts, r) == [i \in 1..Len(ts) |-> Atom(ts[i], "", r)]
SKVT(kv) == <<Wd(kv[1], NL(1), "server"), Pn(":", "", "server")>> \o WithD(AtomsT(kv[2], "sval"), " ")
RECURSIVE SKVsT(_)
SKVsT(kvs) == IF kvs = <<>> THEN <<>> ELSE SKVT(kvs[1]) \o SKVsT(Tail(kvs))

PathT(p) == [i \in 1..Len(p) |->
               [Atom(p[i], IF i = 1 THEN " " ELSE "", "path") EXCEPT
                  !.ln = IF i > 1 /\ p[i - 1] = "/" THEN "path" ELSE "any"]]

BodyT(b) ==
  IF b.t = "none" THEN <<>>
  ELSE <<Pn("(", " ", "body")>>
       \o (IF b.t = "empty" THEN <<>>
           ELSE (IF b.arr THEN <<Pn("[", "", "body"), Pn("]", "", "body")>> ELSE <<>>)
                \o (IF b.star THEN <<Pn("*", "", "body")>> ELSE <<>>)
                \o <<Wd(b.name, "", "body")>>)
       \o <<Pn(")", "", "body")>>

DocT(d) ==
  CASE d.t = "none"  -> <<>>
    [] d.t = "lit"   -> <<At("@doc", NL(1), "doc"), Pn(d.v, " ", "doc")>>
    [] d.t = "group" -> <<At("@doc", NL(1), "doc"), Pn("(", " ", "doc")>> \o KVsT(d.kv, 2, "doc")
                          \o <<Pn(")", IF d.kv = <<>> THEN "" ELSE NL(1), "doc")>>

ItemT(it) ==
  DocT(it.doc)
  \o <<At("@handler", NL(1), "handler"), Wd(it.handler, " ", "handler"), Wd(it.method, NL(1), "method")>>
  \o PathT(it.path) \o BodyT(it.req)
  \o (IF it.resp.t = "none" THEN <<>> ELSE <<Wd("returns", " ", "route")>> \o BodyT(it.resp))
  \o (IF it.semi THEN <<Pn(";", "", "route")>> ELSE <<>>)

RECURSIVE ItemsFrom(_, _)
ItemsFrom(its, i) ==
  IF i > Len(its) THEN <<>>
  ELSE (IF i = 1 THEN ItemT(its[i]) ELSE WithD(ItemT(its[i]), "\n" \o NL(1))) \o ItemsFrom(its, i + 1)

DeclT(d, ind) ==
  <<Wd(d.name, IF ind = 0 THEN " " ELSE NL(ind), "type")>>
  \o (IF d.alias THEN <<Pn("=", " ", "type")>> ELSE <<>>)
  \o WithD(DTT(d.dt, ind), " ")
RECURSIVE DeclsT(_)
DeclsT(ds) == IF ds = <<>> THEN <<>> ELSE DeclT(ds[1], 1) \o DeclsT(Tail(ds))

StmtT(s) ==
  CASE s.k = "syntax"  -> <<Wd("syntax", "", "syntax"), Pn("=", " ", "syntax"), Pn(s.v, " ", "syntax")>>
    [] s.k = "info"    -> <<Wd("info", "", "info"), Pn("(", " ", "info")>> \o KVsT(s.kv, 1, "info")
                            \o <<Pn(")", IF s.kv = <<>> THEN "" ELSE NL(0), "info")>>
    [] s.k = "import"  -> <<Wd("import", "", "import"), Pn(s.v, " ", "import")>>
    [] s.k = "importg" -> <<Wd("import", "", "import"), Pn("(", " ", "import")>>
                            \o [i \in 1..Len(s.vs) |-> Pn(s.vs[i], NL(1), "import")]
                            \o <<Pn(")", IF s.vs = <<>> THEN "" ELSE NL(0), "import")>>
    [] s.k = "type"    -> <<Wd("type", "", "type")>> \o DeclT(s, 0)
    [] s.k = "typeg"   -> <<Wd("type", "", "type"), Pn("(", " ", "type")>> \o DeclsT(s.ds)
                            \o <<Pn(")", IF s.ds = <<>> THEN "" ELSE NL(0), "type")>>
    [] s.k = "service" ->
         (IF s.server = <<>> THEN <<>>
          ELSE <<At("@server", "", "server"), Pn("(", " ", "server")>> \o SKVsT(s.server)
               \o <<Pn(")", NL(0), "server")>>)
         \o <<Wd("service", IF s.server = <<>> THEN "" ELSE NL(0), "svc")>>
         \o WithD(AtomsT(s.name, "svcname"), " ")
         \o <<Pn("{", " ", "svc")>> \o ItemsFrom(s.items, 1)
         \o <<Pn("}", IF s.items = <<>> THEN "" ELSE NL(0), "svc")>>

RECURSIVE StmtsFrom(_, _)
StmtsFrom(d, i) ==
  IF i > Len(d) THEN <<>>
  ELSE (IF i = 1 THEN StmtT(d[i]) ELSE WithD(StmtT(d[i]), "\n\n")) \o StmtsFrom(d, i + 1)

Tokens(d) == StmtsFrom(d, 1)

----------------------------------------------------------------------------
(* Layout kinds: the separator written at a token boundary b. 0 = canonical. *)
NKinds == 14
SameLineKinds == {1, 2, 3, 6, 10}   \* kind 10: the scanner does not count line breaks inside /* */
CommentKinds  == {6, 7, 8, 9, 10, 11, 12, 14}
SepText(k, b, d) ==
  LET c == ToString(b) IN
  CASE k = 0  -> d
    [] k = 1  -> ""
    [] k = 2  -> " "
    [] k = 3  -> " \t "
    [] k = 4  -> "\n"
    [] k = 5  -> "\n\n\n\n\n"
    [] k = 6  -> " /*c" \o c \o " a*b x/y*/ "
    [] k = 7  -> " // c" \o c \o " 100% \n"
    [] k = 8  -> "\n// c" \o c \o "\n"
    [] k = 9  -> "\n/* c" \o c \o " 5%d */\n"
    [] k = 10 -> " /* c" \o c \o "\n   more */ "
    [] k = 11 -> "\n\n// c" \o c \o "\n\n"
    [] k = 12 -> " // c" \o c \o "\n\t// d" \o c \o "\n"
    [] k = 13 -> "\n\t\t  "
    [] k = 14 -> "\n/**\n * c" \o c \o "\n **/\n"

\* may boundary b (before token b; n+1 = end of file) carry separator kind k?
Legal(ts, b, k) ==
  \/ k = 0
  \/ /\ k \in 1..NKinds
     /\ (b > 1 /\ b <= Len(ts) /\ ts[b - 1].wr /\ ts[b].wl) => k # 1
     /\ b <= Len(ts) =>
          CASE ts[b].ln = "same" -> k \in SameLineKinds
            [] ts[b].ln = "next" -> k \notin SameLineKinds
            [] ts[b].ln = "path" -> k \in {1, 2}
            [] OTHER -> TRUE

LegalLayout(ts, l) ==
  /\ DOMAIN l = 1..(Len(ts) + 1)
  /\ \A b \in DOMAIN l : Legal(ts, b, l[b])

\* Area of known finding KF_RouteCommentLineBreak (see ApiDocTrace): a comment that ends or
\* occupies a line, between the tokens of a route line after the method.  The finding only
\* concerns format(format(src)) = format(src); the meaning of the route must survive there
\* like everywhere else.  The big families stay out of the area (Avoid = TRUE); the area is
\* enumerated by families of its own (modes "area" / "areapair", and uniform / random layouts
\* with Avoid = FALSE over service statements), see LayArea below.
RouteRegions == {"path", "body", "route"}
KnownArea(ts, b, k) == b >= 2 /\ b <= Len(ts) /\ ts[b].r \in RouteRegions /\ k \in CommentKinds \ SameLineKinds
Allowed(ts, b, k) == Legal(ts, b, k) /\ (Avoid => ~KnownArea(ts, b, k))
ShowcaseAt(ts, b, k) == k = 7 /\ b >= 2 /\ b <= Len(ts) /\ ts[b].t = "(" /\ ts[b - 1].r = "path"

DefaultSep(ts, b) == IF b <= Len(ts) THEN ts[b].d ELSE "\n"

RECURSIVE RenderFrom(_, _, _)
RenderFrom(ts, l, b) ==
  IF b > Len(ts) THEN SepText(l[b], b, "\n")
  ELSE SepText(l[b], b, ts[b].d) \o ts[b].t \o RenderFrom(ts, l, b + 1)
Render(ts, l) == RenderFrom(ts, l, 1)

----------------------------------------------------------------------------
(* Meaning: the API description a document denotes. Grouping of imports and type
   declarations, empty groups, `()` bodies, optional semicolons, layout and comments are
   not part of it. *)
None == [t |-> "none"]
MBody(b) == IF b.t = "body" THEN b ELSE None
MDoc(d)  == IF d.t = "group" /\ d.kv = <<>> THEN None ELSE d
MItem(it) == [doc |-> MDoc(it.doc), handler |-> it.handler, method |-> it.method,
              path |-> Cat(it.path), req |-> MBody(it.req), resp |-> MBody(it.resp)]
MDecl(d) == [k |-> "type", name |-> d.name, alias |-> d.alias, dt |-> d.dt]
MStmt(s) ==
  CASE s.k = "syntax"  -> <<s>>
    [] s.k = "info"    -> IF s.kv = <<>> THEN <<>> ELSE <<s>>
    [] s.k = "import"  -> <<s>>
    [] s.k = "importg" -> [i \in 1..Len(s.vs) |-> [k |-> "import", v |-> s.vs[i]]]
    [] s.k = "type"    -> <<MDecl(s)>>
    [] s.k = "typeg"   -> [i \in 1..Len(s.ds) |-> MDecl(s.ds[i])]
    [] s.k = "service" -> <<[k |-> "service",
                             server |-> [i \in 1..Len(s.server) |-> <<s.server[i][1], Cat(s.server[i][2])>>],
                             name |-> Cat(s.name),
                             items |-> [i \in 1..Len(s.items) |-> MItem(s.items[i])]]>>
RECURSIVE MeaningFrom(_, _)
MeaningFrom(d, i) == IF i > Len(d) THEN <<>> ELSE MStmt(d[i]) \o MeaningFrom(d, i + 1)
Meaning(d) == MeaningFrom(d, 1)

Equivalent(a, b) == a = b      \* over meanings

----------------------------------------------------------------------------
(* Pools the builder draws from.  Pool = "rich": cartesian pools (sets); "cover": one of each
   construct; "tiny": a few.  Ordered = TRUE: the i-th member of a struct / group / service is
   the i-th element of the cover sequence, and a container must be filled before the
   builder moves on -- this yields one "kitchen-sink" document per top-level choice, in
   which every construct of the grammar occurs once. *)
B(n) == [t |-> "base", n |-> n]
AnyT == [t |-> "any"]
IfaceT == [t |-> "iface"]
Slice(e) == [t |-> "slice", e |-> e]
Arr(n, e) == [t |-> "array", len |-> n, e |-> e]
Map(k, v) == [t |-> "map", key |-> k, val |-> v]
Ptr(e) == [t |-> "ptr", e |-> e]
Struct(fs) == [t |-> "struct", fields |-> fs]
SeqSet(s) == {s[i] : i \in DOMAIN s}
Pick(s, i) == IF i \in DOMAIN s THEN {s[i]} ELSE {}

PlainSeq == <<B("string"), Slice(Ptr(B("Foo"))), IfaceT, Map(B("string"), Slice(B("int"))), AnyT,
              Arr("3", B("int")), Ptr(B("Foo")), Arr("...", B("Foo")), Map(B("int"), Ptr(AnyT)),
              Ptr(Slice(IfaceT))>>
DT0 == {B("string"), B("Foo"), AnyT, IfaceT}
PlainDT ==
  CASE Pool \in {"tiny", "routes"} -> {B("string"), Slice(Ptr(B("Foo")))}
    [] Pool = "cover" -> SeqSet(PlainSeq)
    [] Pool = "rich"  -> SeqSet(PlainSeq) \cup DT0 \cup {Slice(e) : e \in DT0} \cup {Map(B("string"), e) : e \in DT0}
                           \cup {Ptr(e) : e \in DT0} \cup {Arr("2", Slice(AnyT)), Slice(Map(B("int"), Ptr(B("Foo"))))}

Tag1 == "`json:\"a,omitempty\"`"
Tags == {"", Tag1}
FName(i) == "F" \o ToString(i)
Fld(ns, dt, tg) == [names |-> ns, dt |-> dt, tag |-> tg]
\* cover sequence of the fields of one struct; entries with nest = TRUE open an anonymous struct
FieldSeq ==
  <<Fld(<<"F1">>, B("string"), Tag1), Fld(<<"F2">>, Slice(Ptr(B("Foo"))), ""), Fld(<<>>, B("Base"), ""),
    Fld(<<"F4", "G4">>, B("int"), Tag1), Fld(<<>>, Ptr(B("Base")), ""), Fld(<<"F6">>, Map(B("string"), Slice(B("int"))), Tag1),
    Fld(<<>>, B("Other"), Tag1), Fld(<<"F8">>, IfaceT, ""), Fld(<<"F9", "G9", "H9">>, Arr("3", AnyT), ""),
    Fld(<<>>, Ptr(B("Base")), Tag1), Fld(<<"F11">>, Ptr(B("Foo")), ""), Fld(<<>>, B("Last"), "")>>
NestSeq ==
  <<Fld(<<"N1">>, Struct(<<>>), Tag1), Fld(<<"N2">>, Slice(Struct(<<>>)), ""),
    Fld(<<"N3">>, Map(B("string"), Struct(<<>>)), Tag1), Fld(<<"N4">>, Arr("2", Struct(<<>>)), "")>>
\* ordered mode: the kitchen sink is split into four variants of moderate size (the real
\* formatter's cost grows quickly with the size of a statement)
Variants == 1..4
OuterFields(v) == IF v = 4 THEN <<FieldSeq[3], FieldSeq[9]>> ELSE SubSeq(FieldSeq, 4 * v - 3, 4 * v)
InnerFields(v) == LET w == ((v - 1) % 3) + 1 IN <<FieldSeq[w], FieldSeq[w + 4], FieldSeq[13 - w]>>
\* plain fields that may be appended to a struct that has i-1 fields already
FieldPool(i) ==
  IF Ordered THEN Pick(IF lvl = 0 THEN OuterFields(var) ELSE InnerFields(var), i)
  ELSE {Fld(<<FName(i)>>, dt, tg) : dt \in PlainDT, tg \in Tags}
       \cup {Fld(<<FName(i), "G" \o ToString(i)>>, B("int"), tg) : tg \in Tags}
       \cup {Fld(<<>>, B("Base"), tg) : tg \in Tags}
       \cup {Fld(<<>>, Ptr(B("Base")), tg) : tg \in Tags}
\* fields whose type contains a (still empty) anonymous struct; in ordered mode they follow the plain ones
NestPool(i) ==
  IF Ordered THEN (IF lvl = 0 /\ i = Len(OuterFields(var)) + 1 THEN {NestSeq[var]} ELSE {})
  ELSE IF Pool \in {"tiny", "routes"} THEN {NestSeq[1]}
  ELSE {[NestSeq[j] EXCEPT !.names = <<"N" \o ToString(i)>>, !.tag = tg] : j \in DOMAIN NestSeq, tg \in Tags}

TName(i) == "T" \o ToString(i)
TopV(v) == CASE v = 1 -> <<Struct(<<>>)>> \o SubSeq(PlainSeq, 1, 3) [] v = 2 -> SubSeq(PlainSeq, 4, 7)
             [] v = 3 -> SubSeq(PlainSeq, 8, 10) \o <<Struct(<<>>)>> [] v = 4 -> <<Struct(<<>>)>>
TopDT == PlainDT \cup {Struct(<<>>)}

KV1 == <<"title", "\"t\"">>
KV2 == <<"desc", "\"d %s d\"">>
KV3 == <<"raw", "`raw`">>
KV4 == <<"multi", "`line1 \n  line2 \n`">>
InfoKVs == CASE Pool \in {"tiny", "routes"} -> {<<KV1>>} [] Pool = "cover" -> {<<KV1, KV2, KV3, KV4>>}
             [] Pool = "rich" -> {<<KV1>>, <<KV1, KV2>>, <<KV3, KV1>>, <<KV4>>}
ImportSeq == <<"\"a.api\"", "\"b.api\"", "\"c.api\"">>
ImportVals == IF Pool \in {"tiny", "routes"} THEN {"\"a.api\""} ELSE {"\"a.api\"", "\"b.api\""}

SrvFull == <<<<"group", <<"user">>>>, <<"prefix", <<"/", "api", "/", "v1">>>>, <<"timeout", <<"3s">>>>,
             <<"jwt", <<"Auth">>>>, <<"middleware", <<"M1", ",", "M2">>>>, <<"tags", <<"a", "-", "b">>>>,
             <<"maxBytes", <<"1024">>>>, <<"summary", <<SrvStr>>>>, <<"mixed", <<"a", "/", "b", "-", "c">>>>>>
ServerKVs ==
  CASE Pool = "tiny"  -> {<<>>, <<<<"group", <<"user">>>>>>}
    [] Pool = "routes" -> {<<>>}
    [] Pool = "cover" -> {<<>>, SrvFull}
    [] Pool = "rich"  -> {<<>>, SrvFull, <<<<"group", <<"user">>>>>>, SubSeq(SrvFull, 2, 3), SubSeq(SrvFull, 4, 6)}
SvcNames == IF Pool = "rich" THEN {<<"foo">>, <<"foo", "-", "api">>} ELSE {<<"foo", "-", "api">>}

Body(a, s, n) == [t |-> "body", arr |-> a, star |-> s, name |-> n]
Empty == [t |-> "empty"]
Lit == [t |-> "lit", v |-> "\"hello 100%d w\""]
Grp1 == [t |-> "group", kv |-> <<<<"summary", "\"sum\"">>>>]
Grp2 == [t |-> "group", kv |-> <<<<"summary", "\"sum\"">>, KV2>>]
Item(d, h, m, p, rq, rs, sm) ==
  [doc |-> d, handler |-> h, method |-> m, path |-> p, req |-> rq, resp |-> rs, semi |-> sm]
ItemSeq ==
  <<Item(None, "h1", "get", <<"/">>, None, None, FALSE),
    Item(Lit, "h2", "post", <<"/", "a", "/", ":", "id">>, Body(FALSE, FALSE, "Req"), Body(TRUE, TRUE, "Resp"), FALSE),
    Item(Grp2, "h3", "get", <<"/">>, Body(TRUE, FALSE, "Req"), None, TRUE),
    Item(None, "h4", "delete", <<"/", "a", "-", "b", "/", "1">>, None, Body(FALSE, TRUE, "Resp"), FALSE),
    Item(Grp1, "h5", "put", <<"/", "v1", "/">>, Body(FALSE, TRUE, "Req"), Empty, FALSE),
    Item(Lit, "h6", "get", <<"/", "x">>, Empty, Body(FALSE, FALSE, "Resp"), TRUE),
    Item(None, "h7", "get", <<"/", "last">>, None, None, FALSE)>>
Bodies == IF Pool \in {"rich", "routes"}
          THEN {None, Empty, Body(FALSE, FALSE, "Req"), Body(FALSE, TRUE, "Req"), Body(TRUE, FALSE, "Req"), Body(TRUE, TRUE, "Req")}
          ELSE {None, Body(FALSE, FALSE, "Req"), Body(TRUE, TRUE, "Req")}
Paths == IF Pool \in {"rich", "routes"}
         THEN {<<"/">>, <<"/", "ping">>, <<"/", "a", "/", ":", "id">>, <<"/", "a", "-", "b", "/", "1">>, <<"/", "v1", "/">>}
         ELSE {<<"/">>, <<"/", "a", "/", ":", "id">>}
Docs == CASE Pool = "tiny" -> {None, Lit} [] Pool = "routes" -> {None} [] OTHER -> {None, Lit, Grp1, Grp2}
ItemsV(v) == CASE v = 1 -> SubSeq(ItemSeq, 1, 2) [] v = 2 -> SubSeq(ItemSeq, 3, 5) [] v = 3 -> SubSeq(ItemSeq, 6, 7)
               [] v = 4 -> <<>>
SrvV(v) == CASE v = 1 -> SubSeq(SrvFull, 1, 5) [] v = 3 -> SubSeq(SrvFull, 6, 9) [] OTHER -> <<>>
ItemPool(i) ==
  IF Ordered THEN Pick(ItemsV(var), i)
  ELSE IF Pool = "tiny" THEN {[ItemSeq[j] EXCEPT !.handler = "h" \o ToString(i)] : j \in 1..2}
  ELSE {Item(d, "h" \o ToString(i), IF rq = None THEN "get" ELSE "post", p, rq, rs, sm) :
          d \in Docs, p \in Paths, rq \in Bodies, rs \in Bodies, sm \in (IF Pool \in {"rich", "routes"} THEN BOOLEAN ELSE {FALSE})}

----------------------------------------------------------------------------
(* The document builder. Documents grow strictly left to right, so every document has
   exactly one construction. *)
Last == doc[Len(doc)]

\* the declaration fields are appended to: a single type statement or the last member of a group
HasDecl == /\ doc # <<>>
           /\ \/ Last.k = "type"
              \/ Last.k = "typeg" /\ Last.ds # <<>>
CurDecl == IF Last.k = "type" THEN Last ELSE Last.ds[Len(Last.ds)]

\* the struct at depth l on the rightmost spine of a data type (through slice/array/map wrappers)
RECURSIVE Spine(_)
Spine(dt) == CASE dt.t = "struct" -> dt
               [] dt.t \in {"slice", "array"} -> Spine(dt.e)
               [] dt.t = "map" -> Spine(dt.val)
               [] OTHER -> None
RECURSIVE StructAt(_, _)
StructAt(dt, l) ==
  LET s == Spine(dt) IN
  IF s.t # "struct" THEN None
  ELSE IF l = 0 THEN s
  ELSE IF s.fields = <<>> THEN None
  ELSE StructAt(s.fields[Len(s.fields)].dt, l - 1)

\* dt with field f appended to the struct at depth l of its rightmost spine
RECURSIVE Appended(_, _, _)
Appended(dt, l, f) ==
  CASE dt.t \in {"slice", "array"} -> [dt EXCEPT !.e = Appended(dt.e, l, f)]
    [] dt.t = "map" -> [dt EXCEPT !.val = Appended(dt.val, l, f)]
    [] dt.t = "struct" ->
         IF l = 0 THEN [dt EXCEPT !.fields = Append(@, f)]
         ELSE [dt EXCEPT !.fields[Len(dt.fields)].dt = Appended(@, l - 1, f)]

SetCurDecl(d) ==
  IF Last.k = "type" THEN doc' = [doc EXCEPT ![Len(doc)] = d]
  ELSE doc' = [doc EXCEPT ![Len(doc)].ds[Len(Last.ds)] = d]

Building == phase = "build" /\ steps < MaxSteps
Step == steps' = steps + 1 /\ UNCHANGED <<phase, toks, lay, mut>>
SameVar == UNCHANGED var

\* the struct fields are appended to at the moment, and what may still be appended to it
OpenStruct == IF HasDecl /\ lvl >= 0 THEN StructAt(CurDecl.dt, lvl) ELSE None
PlainNext == IF OpenStruct.t = "struct" /\ Len(OpenStruct.fields) < MaxFields
             THEN FieldPool(Len(OpenStruct.fields) + 1) ELSE {}
NestNext  == IF OpenStruct.t = "struct" /\ Len(OpenStruct.fields) < MaxFields /\ lvl < MaxDepth
             THEN NestPool(Len(OpenStruct.fields) + 1) ELSE {}
\* ordered mode: a container is filled completely before the builder moves on
Filled == Ordered => /\ PlainNext = {} /\ NestNext = {}
GroupNext(n, sq, set) == IF n >= MaxGroup THEN {} ELSE IF Ordered THEN Pick(sq, n + 1) ELSE set
ItemsNext == IF doc # <<>> /\ Last.k = "service" /\ Len(Last.items) < MaxItems
             THEN ItemPool(Len(Last.items) + 1) ELSE {}
ImportsNext == IF doc # <<>> /\ Last.k = "importg" THEN GroupNext(Len(Last.vs), ImportSeq, ImportVals) ELSE {}
DeclsNext == IF doc # <<>> /\ Last.k = "typeg" THEN GroupNext(Len(Last.ds), IF Ordered THEN TopV(var) ELSE <<>>, TopDT) ELSE {}
\* nothing more can be added to the last statement
StmtFilled == Ordered => /\ Filled /\ lvl <= 0 /\ ItemsNext = {} /\ ImportsNext = {} /\ DeclsNext = {}

AddStmt(s, l, v) ==
  /\ Building /\ Len(doc) < MaxStmts /\ s.k \in StmtKinds /\ StmtFilled
  /\ doc' = Append(doc, s) /\ lvl' = l /\ var' = v /\ Step
VarsOf(b) == IF Ordered /\ b THEN Variants ELSE {0}

OpenLvl(dt) == IF dt.t = "struct" THEN 0 ELSE -1
Aliases == IF Pool = "rich" THEN BOOLEAN ELSE {FALSE}

AddSyntax == doc = <<>> /\ AddStmt([k |-> "syntax", v |-> "\"v1\""], -1, 0)
AddInfo == \E kv \in InfoKVs : AddStmt([k |-> "info", kv |-> kv], -1, 0)
AddImport == \E v \in ImportVals : AddStmt([k |-> "import", v |-> v], -1, 0)
AddImportGroup == AddStmt([k |-> "importg", vs |-> <<>>], -1, 0)
AddToImportGroup ==
  /\ Building
  /\ \E v \in ImportsNext : doc' = [doc EXCEPT ![Len(doc)].vs = Append(@, v)]
  /\ UNCHANGED lvl /\ SameVar /\ Step
AddType ==
  \E dt \in TopDT, al \in Aliases : \E v \in VarsOf(dt.t = "struct") :
    AddStmt([k |-> "type", name |-> TName(Len(doc) + 1), alias |-> al, dt |-> dt], OpenLvl(dt), v)
AddTypeGroup == \E v \in VarsOf(TRUE) : AddStmt([k |-> "typeg", ds |-> <<>>], -1, v)
AddToTypeGroup ==
  /\ Building /\ Filled /\ lvl <= 0
  /\ \E dt \in DeclsNext : \E al \in (IF Ordered THEN {Len(Last.ds) % 3 = 0} ELSE Aliases) :
       /\ doc' = [doc EXCEPT ![Len(doc)].ds =
                    Append(@, [k |-> "type", name |-> "G" \o ToString(Len(Last.ds) + 1), alias |-> al, dt |-> dt])]
       /\ lvl' = OpenLvl(dt)
  /\ SameVar /\ Step
AddField ==
  /\ Building
  /\ \E f \in PlainNext : SetCurDecl([CurDecl EXCEPT !.dt = Appended(@, lvl, f)])
  /\ UNCHANGED lvl /\ SameVar /\ Step
OpenNested ==
  /\ Building /\ (Ordered => PlainNext = {})
  /\ \E f \in NestNext : SetCurDecl([CurDecl EXCEPT !.dt = Appended(@, lvl, f)])
  /\ lvl' = lvl + 1 /\ SameVar /\ Step
CloseNested ==
  /\ Building /\ HasDecl /\ lvl >= 1 /\ Filled
  /\ lvl' = lvl - 1 /\ UNCHANGED doc /\ SameVar /\ Step
AddService ==
  \E v \in VarsOf(TRUE) : \E sv \in (IF Ordered THEN {SrvV(v)} ELSE ServerKVs), nm \in SvcNames :
    AddStmt([k |-> "service", server |-> sv, name |-> nm, items |-> <<>>], -1, v)
AddItem ==
  /\ Building
  /\ \E it \in ItemsNext : doc' = [doc EXCEPT ![Len(doc)].items = Append(@, it)]
  /\ UNCHANGED lvl /\ SameVar /\ Step

Build == \/ AddSyntax \/ AddInfo \/ AddImport \/ AddImportGroup \/ AddToImportGroup
         \/ AddType \/ AddTypeGroup \/ AddToTypeGroup \/ AddField \/ OpenNested \/ CloseNested
         \/ AddService \/ AddItem

\* a document is complete when it has no empty group (the formatter removes `import ()` and
\* `type ()` on purpose, like empty-string literals: outside the family); in ordered mode
\* when it is full
NoEmptyGroup == \A i \in 1..Len(doc) : /\ doc[i].k = "importg" => doc[i].vs # <<>>
                                       /\ doc[i].k = "typeg" => doc[i].ds # <<>>
Finish ==
  /\ phase = "build" /\ (steps >= MinSteps \/ ~ENABLED Build) /\ doc # <<>> /\ NoEmptyGroup /\ StmtFilled
  /\ phase' = "lay" /\ lvl' = -1 /\ var' = 0 /\ toks' = Tokens(doc) /\ UNCHANGED <<doc, steps, lay, mut>>

----------------------------------------------------------------------------
(* Layout choice. *)
NoMut == [kind |-> "none", at |-> 0, n |-> 0]
Ready(l, m) == phase' = "ready" /\ lay' = l /\ mut' = m /\ UNCHANGED <<doc, lvl, var, steps, toks>>

DefaultLay(ts) == [b \in 1..(Len(ts) + 1) |-> 0]

LayDefault == "default" \in Modes /\ Ready(DefaultLay(toks), NoMut)

\* one non-canonical separator, at every boundary, of every legal kind
LaySingle ==
  /\ "single" \in Modes
  /\ \E b \in 1..(Len(toks) + 1), k \in Kinds :
       /\ Allowed(toks, b, k)
       /\ Showcase => ShowcaseAt(toks, b, k) /\ doc[1].server = <<>>
       /\ SepText(k, b, DefaultSep(toks, b)) # DefaultSep(toks, b)
       /\ Ready([DefaultLay(toks) EXCEPT ![b] = k], NoMut)

\* the same kind at every boundary where it is legal
LayUniform ==
  /\ "uniform" \in Modes
  /\ \E k \in Kinds :
       Ready([b \in 1..(Len(toks) + 1) |-> IF Allowed(toks, b, k) THEN k ELSE 0], NoMut)

\* pseudo-random layouts (a small linear congruential generator, 16 bit)
Rnd(x) == (x * 75 + 74) % 65537
RECURSIVE RndSeq(_, _)
RndSeq(x, n) == IF n = 0 THEN <<>> ELSE <<Rnd(x)>> \o RndSeq(Rnd(x), n - 1)
KindList == SelectSeq([i \in 1..NKinds |-> i], LAMBDA k : k \in Kinds)
RandomLay(ts, salt) ==
  LET n  == Len(ts) + 1
      rs == RndSeq((Seed * 7919 + salt * 10007 + n * 31 + Len(doc)) % 65537, n)
  IN [b \in 1..n |->
        IF rs[b] % Density # 0 THEN 0
        ELSE LET ok == SelectSeq(KindList, LAMBDA k : Allowed(ts, b, k)) IN
             IF ok = <<>> THEN 0 ELSE ok[((rs[b] \div Density) % Len(ok)) + 1]]
LayRandom ==
  /\ "random" \in Modes
  /\ \E salt \in Salts : Ready(RandomLay(toks, salt), NoMut)

\* invalid variants: 1..4 consecutive tokens deleted / one token duplicated / swapped with its
\* neighbour / everything after a token cut off
LayMutate ==
  /\ "mutate" \in Modes
  /\ \E i \in 1..Len(toks), kd \in {"del", "dup", "swap", "cut"}, w \in 1..4 :
       /\ kd = "del" => i + w - 1 <= Len(toks) /\ w < Len(toks)
       /\ kd # "del" => w = 1
       /\ kd = "swap" => i < Len(toks) /\ toks[i].t # toks[i + 1].t
       /\ kd = "cut" => i < Len(toks)
       /\ Ready(DefaultLay(toks), [kind |-> kd, at |-> i, n |-> w])

\* the area of the known finding, enumerated: one line-ending / own-line comment at every
\* boundary between the tokens of a route (after the method), of every kind
AreaAt(ts, b, k) == Legal(ts, b, k) /\ KnownArea(ts, b, k)
LayArea ==
  /\ "area" \in Modes
  /\ \E b \in 2..Len(toks), k \in Kinds :
       /\ AreaAt(toks, b, k)
       /\ Ready([DefaultLay(toks) EXCEPT ![b] = k], NoMut)

\* two such comments (same route or two routes of the service)
LayAreaPair ==
  /\ "areapair" \in Modes
  /\ \E b1 \in 2..Len(toks), b2 \in 2..Len(toks), k1 \in Kinds, k2 \in Kinds :
       /\ b1 < b2 /\ AreaAt(toks, b1, k1) /\ AreaAt(toks, b2, k2)
       /\ Ready([DefaultLay(toks) EXCEPT ![b1] = k1, ![b2] = k2], NoMut)

\* Invalid variants below the token level: the *text* of a rendered document (canonical layout,
\* and with mode "charlay" every uniform layout of Kinds as well, i.e. with comments of every
\* shape) damaged at a character position.  This is where the scanner's look-aheads live
\* ('.', '..', '...'; '/', '//', '/*' ... '*/'; quoted and raw strings; '@' words; numbers with
\* a unit; `interface{}`): a token-level mutation always hands the scanner whole tokens
\* followed by a line break, whereas a file that was cut off / hand-edited ends or continues in
\* the middle of one.
\*   "trunc"  the first `at` characters only (1 <= at < length): end of input at every offset,
\*   "tail"   the text without its first `at` characters: input starting at every offset,
\*   "delch"  character `at` deleted, "dupch": written twice,
\* each without anything appended (n = 0: the damaged text is the input; all but "trunc" still end
\* with the line break that ends every rendered text) and, with mode "eol", the cut-off text
\* followed by a line break too (n = 1).  Such a text is not known to be valid (a cut
\* behind a complete statement is): nothing but "no crash" is demanded from it.
CharMuts == {"trunc", "tail", "delch", "dupch"}
UniformLay(ts, k) == [b \in 1..(Len(ts) + 1) |-> IF Allowed(ts, b, k) THEN k ELSE 0]
CharLays(ts) == {DefaultLay(ts)} \cup (IF "charlay" \in Modes THEN {UniformLay(ts, k) : k \in Kinds} ELSE {})
LayChar ==
  \E kd \in CharMuts \cap Modes, l \in CharLays(toks) :
    \E i \in 1..Len(Render(toks, l)), e \in (IF "eol" \in Modes /\ kd = "trunc" THEN {0, 1} ELSE {0}) :
      /\ kd \in {"trunc", "tail"} => i < Len(Render(toks, l))
      /\ Ready(l, [kind |-> kd, at |-> i, n |-> e])

Lay == phase = "lay" /\ (LayDefault \/ LaySingle \/ LayUniform \/ LayRandom \/ LayMutate \/ LayArea \/ LayAreaPair \/ LayChar)

\* the token texts and canonical separators after a mutation
Pairs(ts) == [i \in 1..Len(ts) |-> <<ts[i].d, ts[i].t>>]
Mutated(ts, m) ==
  LET ps == Pairs(ts)  i == m.at  n == Len(ts) IN
  CASE m.kind = "del"  -> SubSeq(ps, 1, i - 1) \o SubSeq(ps, i + m.n, n)
    [] m.kind = "dup"  -> SubSeq(ps, 1, i) \o <<<<" ", ps[i][2]>>>> \o SubSeq(ps, i + 1, n)
    [] m.kind = "swap" -> [j \in 1..n |-> IF j = i THEN <<ps[i][1], ps[i + 1][2]>>
                                          ELSE IF j = i + 1 THEN <<ps[i + 1][1], ps[i][2]>> ELSE ps[j]]
    [] m.kind = "cut"  -> SubSeq(ps, 1, i)
RECURSIVE CatPairs(_)
CatPairs(ps) == IF ps = <<>> THEN "" ELSE ps[1][1] \o ps[1][2] \o CatPairs(Tail(ps))

\* the text after a character-level mutation
CharMutated(s, m) ==
  LET i == m.at  n == Len(s) IN
  CASE m.kind = "trunc" -> SubSeq(s, 1, i)
    [] m.kind = "tail"  -> SubSeq(s, i + 1, n)
    [] m.kind = "delch" -> SubSeq(s, 1, i - 1) \o SubSeq(s, i + 1, n)
    [] m.kind = "dupch" -> SubSeq(s, 1, i) \o SubSeq(s, i, n)

\* the source text of a ready case
Source == CASE mut.kind = "none" -> Render(toks, lay)
            [] mut.kind \in CharMuts -> CharMutated(Render(toks, lay), mut) \o (IF mut.n = 1 THEN "\n" ELSE "")
            [] OTHER -> CatPairs(Mutated(toks, mut)) \o "\n"
Valid == mut.kind = "none"

Init == doc = <<>> /\ lvl = -1 /\ var = 0 /\ steps = 0 /\ phase = "build" /\ toks = <<>> /\ lay = <<>> /\ mut = NoMut
Next == Build \/ Finish \/ Lay
Spec == Init /\ [][Next]_vars

\* CloseNested does not change the document: hide the builder cursor once the document is complete
View == <<doc, IF phase = "build" THEN <<lvl, var>> ELSE <<>>, phase, lay, mut>>

----------------------------------------------------------------------------
(* Sanity of the generator (checked exhaustively in every enumeration run). *)
LayoutLegal == phase = "ready" => LegalLayout(toks, lay)
\* the canonical separators are themselves legal: no two words glued, line constraints respected
CanonicalLegal ==
  phase = "lay" =>
    \A b \in 1..Len(toks) :
      /\ (b > 1 /\ toks[b - 1].wr /\ toks[b].wl) => toks[b].d # ""
      /\ toks[b].ln = "same" => toks[b].d \in {"", " "}
      /\ toks[b].ln = "next" => toks[b].d \notin {"", " "}
      /\ toks[b].ln = "path" => toks[b].d \in {"", " "}
\* the configurations with Avoid = TRUE leave the area of the known finding to the modes area /
\* areapair (one or two separators, all of them inside the area); InArea is what the deviation
\* action of ApiDocTrace is guarded by
InArea(ts, l) == \E b \in 2..Len(ts) : KnownArea(ts, b, l[b])
Perturbed(l) == {b \in DOMAIN l : l[b] # 0}
AreaSane ==
  (phase = "ready" /\ Valid /\ Avoid /\ InArea(toks, lay)) =>
     /\ Cardinality(Perturbed(lay)) \in {1, 2}
     /\ \A b \in Perturbed(lay) : KnownArea(toks, b, lay[b])
\* a character-level mutation damages a legally laid-out text at a position inside it; what is left
\* is not empty, has the length the mutation says and agrees with the text outside the damage
CharSane ==
  (phase = "ready" /\ mut.kind \in CharMuts) =>
    LET s == Render(toks, lay)  n == Len(s)  i == mut.at  r == CharMutated(s, mut) IN
    /\ LegalLayout(toks, lay) /\ i \in 1..n /\ mut.n \in {0, 1} /\ r # "" /\ ~Valid
    /\ Len(Source) = Len(r) + mut.n
    /\ CASE mut.kind = "trunc" -> Len(r) = i /\ i < n /\ r \o SubSeq(s, i + 1, n) = s
         [] mut.kind = "tail"  -> Len(r) = n - i /\ SubSeq(s, 1, i) \o r = s
         [] mut.kind = "delch" -> Len(r) = n - 1 /\ SubSeq(r, 1, i - 1) \o SubSeq(s, i, i) \o SubSeq(r, i, n - 1) = s
         [] mut.kind = "dupch" -> Len(r) = n + 1 /\ SubSeq(r, 1, i) \o SubSeq(r, i + 2, n + 1) = s
                                              /\ SubSeq(r, i, i) = SubSeq(r, i + 1, i + 1)
\* the meaning of a document is a flat sequence of the five statement kinds of an API description
MeaningShape ==
  phase = "lay" =>
    \A i \in 1..Len(Meaning(doc)) : Meaning(doc)[i].k \in {"syntax", "info", "import", "type", "service"}

----------------------------------------------------------------------------
(* The property, as the protocol the real code must follow on a rendered case
   (bound to recorded events by ApiDocTrace).  st: "ok" | "err" | "crash" | "empty".

   valid case  : parsing succeeds and yields the meaning of the built document; formatting
                 succeeds; the formatted text parses to an equivalent meaning; formatting the
                 formatted text succeeds and returns it unchanged; (whatever the second run
                 returned) its result parses to an equivalent meaning as well.
   invalid case: (mutated token sequence, or text damaged at a character position) parser and
                 formatter end with "ok" or "err", never with a crash.                                                    *)
NoCrash(st) == st \in {"ok", "err", "empty"}   \* "empty": the text to parse/format was empty (call skipped)

ParseOK(d, valid, st, m) ==
  /\ NoCrash(st)
  /\ valid => st = "ok" /\ Equivalent(m, Meaning(d))

FormatOK(valid, st) ==
  /\ NoCrash(st)
  /\ valid => st = "ok"

ReparseOK(valid, m0, st, m) ==
  /\ NoCrash(st)
  /\ valid => st = "ok" /\ Equivalent(m, m0)

ReformatOK(valid, out1, st, out) ==
  /\ NoCrash(st)
  /\ valid => st = "ok" /\ out = out1

\* parse(format(format(src))): implied by the two clauses above when they hold; stated on its own
\* because it is what remains demanded where an open known finding excuses out # out1
Reparse2OK(valid, m0, st, m) == ReparseOK(valid, m0, st, m)
=============================================================================
