\* the area of the open known finding KF_RouteCommentLineBreak, enumerated (quick tier): the
\* kitchen-sink services (every route shape of the grammar once), one line-ending or own-line
\* comment of every kind at every boundary between the tokens of a route after the method (mode
\* area); the same kind at every boundary of the service where it is legal, the area included
\* (uniform, Avoid = FALSE); a few pseudo-random layouts over all kinds of the cfg
SPECIFICATION Spec
CONSTANTS
  StmtKinds = {"service"}
  MaxStmts = 1
  MaxFields = 99
  MaxDepth = 1
  MaxGroup = 99
  MaxItems = 99
  MaxSteps = 999
  Pool = "cover"
  Ordered = TRUE
  Modes = {"area", "uniform", "random"}
  Kinds = {7, 8, 9, 11, 12, 14}
  Salts = {1, 2, 3, 4, 5, 6}
  Density = 4
  MinSteps = 0
  Seed <- EnvSeed
  Avoid = FALSE
  Showcase = FALSE
INVARIANTS LayoutLegal CanonicalLegal MeaningShape PrintCase
VIEW View
CHECK_DEADLOCK FALSE
