\* invalid variants below the token level, texts with comments: every single-statement document of up to 2
\* builder steps over the tiny pools in every uniform layout of Kinds (comments of every shape: inline and
\* own-line blocks, line comments, runs of line comments, doc blocks; at every boundary where they are legal), cut off at every character
\* offset (end of input inside every comment shape at every place of the grammar)
SPECIFICATION Spec
CONSTANTS
  StmtKinds = {"syntax", "info", "import", "importg", "type", "typeg", "service"}
  MaxStmts = 1
  MaxFields = 2
  MaxDepth = 1
  MaxGroup = 2
  MaxItems = 2
  MaxSteps = 2
  Pool = "tiny"
  Ordered = FALSE
  Modes = {"trunc", "charlay"}
  Kinds = {6, 7, 9, 12, 14}
  Salts = {}
  Density = 1
  MinSteps = 0
  Seed <- EnvSeed
  Avoid = TRUE
  Showcase = FALSE
INVARIANTS LayoutLegal CanonicalLegal MeaningShape PrintCase
VIEW View
CHECK_DEADLOCK FALSE
