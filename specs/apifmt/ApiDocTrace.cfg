SPECIFICATION TSpec
CONSTANTS
  StmtKinds = {}
  MaxStmts = 0
  MaxFields = 0
  MaxDepth = 0
  MaxGroup = 0
  MaxItems = 0
  Pool = "rich"
  Ordered = FALSE
  MaxSteps = 0
  Modes = {}
  Kinds = {}
  Salts = {}
  Density = 1
  MinSteps = 0
  Seed = 0
  Avoid = FALSE
  Showcase = FALSE
CONSTRAINT HW
POSTCONDITION Accepted
CHECK_DEADLOCK FALSE
