\* area of KF_RouteCommentLineBreak (thorough): every route shape of the rich pool (path x request
\* body x response body x semicolon) in a plain service, one comment at every area boundary
SPECIFICATION Spec
CONSTANTS
  StmtKinds = {"service"}
  MaxStmts = 1
  MaxFields = 0
  MaxDepth = 0
  MaxGroup = 0
  MaxItems = 1
  MaxSteps = 2
  Pool = "routes"
  Ordered = FALSE
  Modes = {"area"}
  Kinds = {7, 8, 12}
  Salts = {}
  Density = 4
  MinSteps = 0
  Seed <- EnvSeed
  Avoid = FALSE
  Showcase = FALSE
INVARIANTS LayoutLegal CanonicalLegal MeaningShape PrintCase
VIEW View
CHECK_DEADLOCK FALSE
