\* structural variety: every single-statement document of up to 3 builder steps over the cover
\* pools (all field shapes in first/second position, nested structs, group members, routes),
\* canonical, uniform and pseudo-random layouts
SPECIFICATION Spec
CONSTANTS
  StmtKinds = {"type", "typeg", "service", "importg"}
  MaxStmts = 1
  MaxFields = 2
  MaxDepth = 1
  MaxGroup = 2
  MaxItems = 1
  MaxSteps = 3
  Pool = "cover"
  Ordered = FALSE
  Modes = {"default", "uniform", "random"}
  Kinds = {7, 8, 9, 10, 12, 14}
  Salts = {1, 2}
  Density = 4
  MinSteps = 0
  Seed <- EnvSeed
  Avoid = TRUE
  Showcase = FALSE
INVARIANTS LayoutLegal CanonicalLegal MeaningShape PrintCase
VIEW View
CHECK_DEADLOCK FALSE
