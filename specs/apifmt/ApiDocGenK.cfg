\* showcase of the open known finding KF_RouteCommentLineBreak: one case inside the area the
\* other generation configs avoid (`post /a/:id // c` line break `(Req) returns ([]*Resp)`)
SPECIFICATION Spec
CONSTANTS
  StmtKinds = {"service"}
  MaxStmts = 1
  MaxFields = 0
  MaxDepth = 0
  MaxGroup = 0
  MaxItems = 1
  MaxSteps = 2
  Pool = "tiny"
  Ordered = FALSE
  Modes = {"single"}
  Kinds = {7}
  Salts = {}
  Density = 1
  MinSteps = 0
  Seed <- EnvSeed
  Avoid = FALSE
  Showcase = TRUE
INVARIANTS LayoutLegal PrintCase
VIEW View
CHECK_DEADLOCK FALSE
