\* simulation: large random documents (up to 6 statements, 8..40 builder steps, nesting depth 2)
\* under canonical and pseudo-random layouts; run with -simulate num=N -depth 60 -deadlock
SPECIFICATION Spec
CONSTANTS
  StmtKinds = {"syntax", "info", "import", "importg", "type", "typeg", "service"}
  MaxStmts = 6
  MaxFields = 4
  MaxDepth = 2
  MaxGroup = 3
  MaxItems = 3
  MaxSteps = 40
  Pool = "cover"
  Ordered = FALSE
  Modes = {"default", "random"}
  Kinds = {1, 2, 3, 4, 5, 6, 7, 8, 9, 10, 11, 12, 13, 14}
  Salts = {1, 2, 3}
  Density = 5
  MinSteps = 8
  Seed <- EnvSeed
  Avoid = TRUE
  Showcase = FALSE
INVARIANTS LayoutLegal PrintCase
CHECK_DEADLOCK FALSE
