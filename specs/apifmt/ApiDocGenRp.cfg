\* area of KF_RouteCommentLineBreak (thorough): services with one route of the tiny pool, every
\* pair of area boundaries x every pair of line-ending / own-line comment kinds, and every single one
SPECIFICATION Spec
CONSTANTS
  StmtKinds = {"service"}
  MaxStmts = 1
  MaxFields = 0
  MaxDepth = 0
  MaxGroup = 0
  MaxItems = 1
  MaxSteps = 2
  Pool = "tiny"
  Ordered = FALSE
  Modes = {"area", "areapair"}
  Kinds = {7, 8, 9, 11, 12, 14}
  Salts = {}
  Density = 4
  MinSteps = 0
  Seed <- EnvSeed
  Avoid = FALSE
  Showcase = FALSE
INVARIANTS LayoutLegal CanonicalLegal MeaningShape PrintCase
VIEW View
CHECK_DEADLOCK FALSE
