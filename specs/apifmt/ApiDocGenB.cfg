\* statement adjacency: every document of up to 3 builder steps over the tiny pools (2-3
\* statements, or a statement with members), canonical and uniform layouts
SPECIFICATION Spec
CONSTANTS
  StmtKinds = {"syntax", "info", "import", "importg", "type", "typeg", "service"}
  MaxStmts = 3
  MaxFields = 2
  MaxDepth = 1
  MaxGroup = 2
  MaxItems = 2
  MaxSteps = 3
  Pool = "tiny"
  Ordered = FALSE
  Modes = {"default", "uniform"}
  Kinds = {5, 7, 8, 9, 12}
  Salts = {}
  Density = 6
  MinSteps = 0
  Seed <- EnvSeed
  Avoid = TRUE
  Showcase = FALSE
INVARIANTS LayoutLegal CanonicalLegal MeaningShape PrintCase
VIEW View
CHECK_DEADLOCK FALSE
