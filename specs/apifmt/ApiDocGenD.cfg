\* rich cartesian pools, one statement with at most one member: every data type of the rich
\* pool as a declaration and as a field, every route shape (doc x path x request x response x ;)
SPECIFICATION Spec
CONSTANTS
  StmtKinds = {"type", "typeg", "service", "info", "import"}
  MaxStmts = 1
  MaxFields = 1
  MaxDepth = 1
  MaxGroup = 1
  MaxItems = 1
  MaxSteps = 2
  Pool = "rich"
  Ordered = FALSE
  Modes = {"default", "uniform"}
  Kinds = {7, 8}
  Salts = {}
  Density = 4
  MinSteps = 0
  Seed <- EnvSeed
  Avoid = TRUE
  Showcase = FALSE
INVARIANTS LayoutLegal CanonicalLegal MeaningShape PrintCase
VIEW View
CHECK_DEADLOCK FALSE
