\* quick-tier subset of ApiDocGenA.cfg (7 of the 14 separator kinds, 4 random layouts)
\* kitchen-sink documents (every construct of the grammar once, four variants per container),
\* one statement per document; every token boundary x every legal separator kind (single),
\* uniform and pseudo-random layouts, and the invalid variants (mutate)
SPECIFICATION Spec
CONSTANTS
  StmtKinds = {"syntax", "info", "import", "importg", "type", "typeg", "service"}
  MaxStmts = 1
  MaxFields = 99
  MaxDepth = 1
  MaxGroup = 99
  MaxItems = 99
  MaxSteps = 999
  Pool = "cover"
  Ordered = TRUE
  Modes = {"default", "single", "uniform", "random", "mutate"}
  Kinds = {1, 4, 6, 7, 8, 10, 14}
  Salts = {1, 2, 3, 4}
  Density = 6
  MinSteps = 0
  Seed <- EnvSeed
  Avoid = TRUE
  Showcase = FALSE
INVARIANTS LayoutLegal CanonicalLegal MeaningShape PrintCase
VIEW View
CHECK_DEADLOCK FALSE
