------------------------------ MODULE ApiDocGen ------------------------------
(* Test generation for C20: TLC enumerates the reachable "ready" states of the document
   builder of ApiDoc (exhaustively for small bounds, or by simulation for large documents)
   and prints each as one case: the abstract document, its layout, the mutation (if any)
   and the source text rendered by the specification.                                  *)
EXTENDS ApiDoc, Json, IOUtils

\* seed of the pseudo-random layouts: VERIF_SEED of the run (cfg: Seed <- EnvSeed)
EnvSeed == atoi(IOEnv.VERIF_SEED)

Case == [doc |-> doc, seps |-> lay, mut |-> mut, valid |-> Valid, src |-> Source]

PrintCase == phase = "ready" => PrintT("TRACE " \o ToJson(Case))
=============================================================================
