\* invalid variants below the token level: the kitchen-sink documents (every construct of the
\* grammar once, four variants per container), one statement per document, canonical layout;
\* the text cut off at every character offset, started at every offset, one character deleted /
\* doubled at every offset; the cut-off text as the whole input and followed by a line break
SPECIFICATION Spec
CONSTANTS
  StmtKinds = {"syntax", "info", "import", "importg", "type", "typeg", "service"}
  MaxStmts = 1
  MaxFields = 99
  MaxDepth = 1
  MaxGroup = 99
  MaxItems = 99
  MaxSteps = 999
  Pool = "cover"
  Ordered = TRUE
  Modes = {"trunc", "tail", "delch", "dupch", "eol"}
  Kinds = {}
  Salts = {}
  Density = 1
  MinSteps = 0
  Seed <- EnvSeed
  Avoid = TRUE
  Showcase = FALSE
INVARIANTS LayoutLegal CanonicalLegal MeaningShape PrintCase
VIEW View
CHECK_DEADLOCK FALSE
