\* quick-tier subset of ApiDocMC.cfg (7 of the 14 separator kinds, no pairs inside the area)
\* design-level check of the generator: every reachable case of the tiny pools (2 builder
\* steps, all layout modes incl. mutations) has a legal layout and a legal canonical layout
SPECIFICATION Spec
CONSTANTS
  StmtKinds = {"syntax", "info", "import", "importg", "type", "typeg", "service"}
  MaxStmts = 2
  MaxFields = 2
  MaxDepth = 1
  MaxGroup = 2
  MaxItems = 2
  MaxSteps = 2
  Pool = "tiny"
  Ordered = FALSE
  Modes = {"default", "single", "uniform", "random", "mutate", "area", "trunc"}
  Kinds = {1, 4, 6, 7, 8, 10, 14}
  Salts = {1, 2}
  Density = 3
  MinSteps = 0
  Seed = 1
  Avoid = TRUE
  Showcase = FALSE
INVARIANTS LayoutLegal CanonicalLegal MeaningShape AreaSane CharSane
VIEW View
CHECK_DEADLOCK FALSE
