SPECIFICATION Spec
CONSTANTS
  Readers = {1, 2}
  Vals = {1}
  MaxCalls = 1
  MaxWrites = 0
  MaxFaults = 1
  MaxExpires = 0
  MaxDbErrs = 0
  Barrier = TRUE
  CacheDbErr = FALSE
  QueryOnErr = FALSE
  TwoStepNF = TRUE
INVARIANTS FiniteTTL
CHECK_DEADLOCK FALSE
