SPECIFICATION MSpec
CONSTANTS
  NP = 2
  NI = 0
  Vals = {1, 2}
  ExpDs = 20
  NfDs = 10
  SetExpDs = {35}
  AllowKF = FALSE
  Taint = TRUE
  Flips = TRUE
  Cuts = {2, 3}
  CutTail = 1
  MaxOps = 5
  Emit = TRUE
INVARIANTS PrintHist
VIEW ViewGen
CHECK_DEADLOCK FALSE
