SPECIFICATION MSpec
CONSTANTS
  NP = 2
  NI = 0
  Vals = {1, 2}
  ExpDs = 20
  NfDs = 10
  SetExpDs = {}
  AllowKF = TRUE
  Taint = FALSE
  Flips = TRUE
  Cuts = {1, 2, 3, 4}
  CutTail = 1
  MaxOps = 0
  Emit = FALSE
INVARIANTS TypeOK Coherent Expiring PremiseSetsTight DbIntegrity FiniteTTL
PROPERTIES PropReadsTrue PropStaleOnlyKnown PropServedFromCache PropErrorsNotCached PropFailFast
  PropCleanerRestores PropWriteInvalidates PropWriteOwes PropCutClean
VIEW View
CHECK_DEADLOCK FALSE
