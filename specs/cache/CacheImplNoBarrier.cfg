SPECIFICATION Spec
CONSTANTS
  Readers = {1, 2}
  Vals = {1, 2}
  MaxCalls = 1
  MaxWrites = 2
  MaxFaults = 2
  MaxExpires = 1
  MaxDbErrs = 1
  Barrier = FALSE
  CacheDbErr = FALSE
  QueryOnErr = FALSE
  TwoStepNF = FALSE
INVARIANTS OneQueryAtATime
CHECK_DEADLOCK FALSE
