-------------------------- MODULE CacheAsideTrace --------------------------
(* Trace validation for C06: events recorded from the real cache.Cache (cacheNode on a
   miniredis store), sqlc.CachedConn (harness-owned sqlx.SqlConn) and monc.Model
   (harness-owned mon.Collection) must be a behaviour of CacheAside.tla.

   Every sequential event is one action of the specification and carries "c": the content
   of the store after the call, read directly from miniredis - a list of <<key, value,
   ttl seconds>> (value: row version, primary key id for an index key, -1 for the
   placeholder "*", -2 for anything else; ttl 0 = the key is persistent).  The content the
   specification computes must be exactly that, so a wrong, missing, surplus, persistent
   or mis-timed entry is rejected at the call that produced it.

     reset   {np, ni, exp, nf}                          new trace: fresh store, database, cache object
     take    {k, r, v, nq, dbf, flip, c [, cut, qa]}    Take / TakeWithExpire / QueryRow / FindOne
     index   {k, r, v, qi, qp, dbfi, dbfp, flip, c [, cut, qa]}   QueryRowIndex
                                                        cut: the harness's fault injector (a miniredis pre-hook) refused the
                                                        cut-th and every later command the store received during the call
                                                        (0 / absent: no outage began inside the call); qa: queries entered
                                                        after the outage had begun
     get     {k, r, v, c}                               Get / GetCache
     set     {k, v, x, r, c [, cut]}                    Set / SetWithExpire / SetCache (x: expiry used, deciseconds)
     write   {upd, ks, dbf, r, c [, cut]}               Exec / Transact+DelCache / harness write + Del;
                                                        upd: <<key, new database content>> pairs, ks: keys invalidated
     cleaner {ks, ok, c}                                the cleaner's retry task for ks ran (white-box wrapper)
     advance {d, c}                                     miniredis FastForward (and d ticks of the cleaner wheel)
     fault   {down, c}                                  miniredis SetError on / off
     drain   {total, max, c}                            the store has been up for the cleaner's whole retry schedule
                                                        (total s, max attempts: read off cleaner.go's nextDelay)
   r: "ok" | "nf" (the configured not-found error) | "dberr" (the harness's database error)
      | "cerr" (any other error).
   Concurrent readers (one key, or several keys with callers making one call after the other; k may be an
   index key: QueryRowIndex): rstart {id, k} before the library is called, qstart {q, k, id} /
   qend {q, k, dbf} inside the harness-owned query function (k: the key whose database content is
   queried, id: the call on whose goroutine it runs), rend {id, r, v} after the call returned, obs {c}
   when all have returned.

   Deviation actions (enabled only if the known finding of that name is open):
   KF_StaleAfterFailedInvalidation - a cached read served from an entry that differs from the
   database while the key is in pendingDel; KF_PersistentKey - SetWithExpire with a
   non-positive expiry wrote the entry without a TTL (ttl 0 in "c").                                                      *)
EXTENDS CacheAside, TraceKit

VARIABLE l
tvars == <<now, db, cache, down, pendingDel, tainted, cfg, cl, calls, running, qres, l>>

E == Trace[l]
IsEvent(e) == l <= Len(Trace) /\ E.e = e /\ l' = l + 1

\* ---- the observed store content
SnapKeys == {E.c[j][1] : j \in DOMAIN E.c}
Snap == [k \in SnapKeys |-> LET j == CHOOSE x \in DOMAIN E.c : E.c[x][1] = k IN [v |-> E.c[j][2], ttl |-> E.c[j][3]]]
TTLof(k) == IF k \in SnapKeys THEN Snap[k].ttl ELSE 0
\* the specification's content after the step is what the store holds
Bind ==
  /\ Cardinality(SnapKeys) = Len(E.c)
  /\ SnapKeys \subseteq DOMAIN cache'
  /\ \A k \in DOMAIN cache' :
       cache'[k] = IF k \in SnapKeys
                     THEN [v |-> Snap[k].v, exp |-> IF Snap[k].ttl = 0 THEN Forever ELSE now' + Snap[k].ttl]
                     ELSE NoEntry

UpdFn(u) == [k \in {u[j][1] : j \in DOMAIN u} |-> LET j == CHOOSE x \in DOMAIN u : u[x][1] = k IN u[j][2]]

\* the primary key an index read of i goes through
Via(i) == IF Present(i) /\ cache[i].v # PH THEN cache[i].v
          ELSE IF ~Present(i) /\ db[i] # Absent THEN db[i] ELSE -1

Open(id) == id \in OpenFindings

TReset ==
  /\ IsEvent("reset")
  /\ now' = 0 /\ down' = FALSE /\ pendingDel' = {} /\ tainted' = {}
  /\ cfg' = [np |-> E.np, ni |-> E.ni, exp |-> E.exp, nf |-> E.nf]
  /\ cl' = [up |-> 0, att |-> [k \in 0 .. (E.np + E.ni - 1) |-> 0]]
  /\ db' = [k \in 0 .. (E.np + E.ni - 1) |-> Absent]
  /\ cache' = [k \in 0 .. (E.np + E.ni - 1) |-> NoEntry]
  /\ calls' = <<>> /\ running' = [k \in 0 .. (E.np + E.ni - 1) |-> 0] /\ qres' = <<>>

\* fault injector fields (absent in events of drivers that do not use it)
Cut == IF "cut" \in DOMAIN E THEN E.cut ELSE 0
Qa  == IF "qa" \in DOMAIN E THEN E.qa ELSE 0

TakeEv(kf)  == IsEvent("take")  /\ Take(E.k, E.r, E.v, E.nq, E.dbf, E.flip, Cut, Qa, TTLof(E.k), kf) /\ Bind
IndexEv(kf) == IsEvent("index") /\ Index(E.k, E.r, E.v, E.qi, E.qp, E.dbfi, E.dbfp, E.flip, Cut, Qa,
                                         TTLof(E.k), TTLof(Via(E.k)), kf) /\ Bind

TTake    == TakeEv(FALSE)
TIndex   == IndexEv(FALSE)
TGet     == IsEvent("get")     /\ Get(E.k, E.r, E.v) /\ Bind
TSet     == IsEvent("set")     /\ Set(E.k, E.v, E.x, E.r, TTLof(E.k), FALSE, Cut) /\ Bind
TWrite   == IsEvent("write")   /\ Write(UpdFn(E.upd), SeqToSet(E.ks), E.dbf, E.r,
                                         {k \in SeqToSet(E.ks) : k \in DOMAIN cache /\ Present(k) /\ k \notin SnapKeys}, Cut) /\ Bind
TCleaner == IsEvent("cleaner") /\ Cleaner(SeqToSet(E.ks), E.ok) /\ Bind
TAdvance == IsEvent("advance") /\ Advance(E.d) /\ Bind
TFault   == IsEvent("fault")   /\ Fault(E.down) /\ Bind
TDrain   == IsEvent("drain")   /\ Drain(E.total, E.max) /\ Bind

\* the known finding: a read served from what a failed invalidation left behind
KF_StaleAfterFailedInvalidation ==
  /\ Open("KF_StaleAfterFailedInvalidation")
  /\ TakeEv(TRUE) \/ IndexEv(TRUE)

\* the known finding (unless repaired): a non-positive requested expiry makes the key persistent
KF_PersistentKey ==
  /\ Open("KF_PersistentKey")
  /\ IsEvent("set") /\ Set(E.k, E.v, E.x, E.r, 0, TRUE, 0) /\ Bind

TRStart == IsEvent("rstart") /\ RStart(E.id, E.k)
TQStart == IsEvent("qstart") /\ QStart(E.q, E.k, E.id)
TQEnd   == IsEvent("qend")   /\ QEnd(E.q, E.k, E.dbf)
TREnd   == IsEvent("rend")   /\ REnd(E.id, E.r, E.v)
TObs    == IsEvent("obs")    /\ Cardinality(SnapKeys) = Len(E.c) /\ SnapKeys \subseteq Keys /\ Obs(Snap)

TInit == CInit(0, 0, 0, 0) /\ l = 1
TNext == \/ TReset \/ TTake \/ TIndex \/ TGet \/ TSet \/ TWrite \/ TCleaner \/ TAdvance \/ TFault \/ TDrain
         \/ KF_StaleAfterFailedInvalidation \/ KF_PersistentKey
         \/ TRStart \/ TQStart \/ TQEnd \/ TREnd \/ TObs
TSpec == TInit /\ [][TNext]_tvars

HW == HighWater(l)

\* POSTCONDITION: TraceKit!Accepted with the high-water mark on a line of its own (events are long)
CacheAccepted ==
  IF TLCGet(1) > Len(Trace) THEN TRUE
  ELSE /\ PrintT(<<"REJECTED", Trace[TLCGet(1)]>>)
       /\ Print(<<"HW", TLCGet(1)>>, FALSE)
=============================================================================
