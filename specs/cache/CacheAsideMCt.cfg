SPECIFICATION MSpec
CONSTANTS
  NP = 2
  NI = 1
  Vals = {1}
  ExpDs = 10
  NfDs = 10
  SetExpDs = {}
  AllowKF = TRUE
  Taint = FALSE
  Flips = FALSE
  Cuts = {2, 3}
  CutTail = 1
  MaxOps = 0
  Emit = FALSE
INVARIANTS TypeOK Coherent Expiring PremiseSetsTight DbIntegrity FiniteTTL
PROPERTIES PropReadsTrue PropStaleOnlyKnown PropServedFromCache PropErrorsNotCached PropFailFast
  PropCleanerRestores PropWriteInvalidates PropWriteOwes PropCutClean
VIEW View
CHECK_DEADLOCK FALSE
