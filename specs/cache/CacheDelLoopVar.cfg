SPECIFICATION Spec
CONSTANTS
  Keys = {1, 2, 3}
  Types = {"cluster"}
  MaxCalls = 1
  MaxFaults = 2
  LoopVarShared = TRUE
INVARIANTS Covered
CHECK_DEADLOCK FALSE
