SPECIFICATION MSpec
CONSTANTS
  NP = 1
  NI = 1
  Vals = {1, 2}
  ExpDs = 20
  NfDs = 10
  SetExpDs = {35}
  AllowKF = FALSE
  Taint = TRUE
  Flips = TRUE
  Cuts = {1, 2, 3, 4}
  CutTail = 2
  MaxOps = 5
  Emit = TRUE
INVARIANTS PrintHist
VIEW ViewGen
CHECK_DEADLOCK FALSE
