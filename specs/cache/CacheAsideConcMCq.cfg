SPECIFICATION MSpec
CONSTANTS
  NP = 1
  NI = 1
  MaxCalls = 2
  MaxQueries = 3
  MaxDbErrs = 1
  ExpDs = 20
  NfDs = 10
INVARIANTS TypeOK Coherent PremiseSetsTight DbIntegrity OneAtATime Satisfiable
PROPERTIES PropReadersGetTruth PropErrorsAreInjected PropNoStoreError
CHECK_DEADLOCK FALSE
