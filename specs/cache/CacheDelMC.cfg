SPECIFICATION Spec
CONSTANTS
  Keys = {1, 2, 3}
  Types = {"node", "cluster"}
  MaxCalls = 2
  MaxFaults = 3
  LoopVarShared = FALSE
INVARIANTS Covered Drained Labelled
CHECK_DEADLOCK FALSE
