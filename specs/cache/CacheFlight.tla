---------------------------- MODULE CacheFlight ----------------------------
(* Layer I for property C06, the barrier behind cacheNode.doTake as cache clients use it in production:
   ONE syncx.SingleFlight shared by all keys (sqlc's package-level singleFlights, the barrier handed to
   cache.NewNode), callers that read several keys one after the other, loads of different keys side by
   side and successive loads of one key.  Written like flightGroup: a map from key to a call object
   (cell) with a completion flag (the WaitGroup) and a result slot; the leader creates the cell, runs the
   load, publishes, removes the map entry and returns what the cell holds; a caller that finds a cell
   waits for its completion and then reads the cell.

   The clause of C06 checked here is the last one of its second sentence for this setting: every caller
   receives the result of a load OF ITS KEY that was in progress during its call (SharedResult), and a
   caller blocked on a load is released by that load (NoLostWakeup).

   Where the cells come from is the parameter Recycle:
     "never"   a new cell per load (what flightGroup does: c = new(call)),
     "last"    a cell goes back to a pool when the last caller that holds it has read it,
     "leader"  a cell goes back to the pool as soon as the leader has read its own result, although
               callers that share the load may still hold it.
   "never" and "last" satisfy the clauses; "leader" does not (documented counterexample: a caller that
   wakes up late reads the result of a later load - of another key - or finds the completion flag taken
   back and never wakes up).                                                                        *)
EXTENDS Integers, FiniteSets, TLC

CONSTANTS
  Callers,     \* goroutines
  Keys,
  MaxCalls,    \* calls per caller
  MaxTotal,    \* calls altogether
  Cells,       \* call objects that may ever exist
  Recycle      \* "never" | "last" | "leader"

None == <<0, 0>>

VARIABLES
  map,      \* key |-> cell of the load in progress, 0 if none          (flightGroup.calls)
  cell,     \* cell |-> [done, val, users]: completion flag, result slot, callers holding a pointer to it
  pool,     \* cells that may be handed out again
  fresh,    \* cells never used
  pc,       \* caller |-> "idle" | "enter" | "run" | "publish" | "lret" | "wait" | "woken"
  key,      \* caller |-> key of its current call
  my,       \* caller |-> the cell it holds
  ret,      \* caller |-> what its last call returned (None: nothing yet)
  ncalls,   \* caller |-> calls made
  nloads,   \* loads started so far (a load's result is <<its key, its number>>)
  \* ---- ghost
  ok,       \* caller |-> results of the loads of its key that were in progress during its current call
  waitsOn   \* caller |-> the load (number) it is blocked on, 0 if none

vars == <<map, cell, pool, fresh, pc, key, my, ret, ncalls, nloads, ok, waitsOn>>

Init ==
  /\ map = [k \in Keys |-> 0]
  /\ cell = [c \in Cells |-> [done |-> FALSE, val |-> None, users |-> {}, load |-> 0]]
  /\ pool = {} /\ fresh = Cells
  /\ pc = [r \in Callers |-> "idle"] /\ key = [r \in Callers |-> CHOOSE k \in Keys : TRUE]
  /\ my = [r \in Callers |-> 0] /\ ret = [r \in Callers |-> None]
  /\ ncalls = [r \in Callers |-> 0] /\ nloads = 0
  /\ ok = [r \in Callers |-> {}] /\ waitsOn = [r \in Callers |-> 0]

InCall(r) == pc[r] # "idle"
RECURSIVE SumCalls(_)
SumCalls(S) == IF S = {} THEN 0 ELSE LET r == CHOOSE x \in S : TRUE IN ncalls[r] + SumCalls(S \ {r})
nstarted == SumCalls(Callers)
Sym == Permutations(Callers)

Start(r) ==
  /\ pc[r] = "idle" /\ ncalls[r] < MaxCalls /\ nstarted < MaxTotal
  /\ \E k \in Keys : key' = [key EXCEPT ![r] = k]
  /\ pc' = [pc EXCEPT ![r] = "enter"]
  /\ ncalls' = [ncalls EXCEPT ![r] = @ + 1]
  /\ ret' = [ret EXCEPT ![r] = None]
  /\ ok' = [ok EXCEPT ![r] = {}]
  /\ UNCHANGED <<map, cell, pool, fresh, my, nloads, waitsOn>>

\* createCall: join the load in progress, or become the leader of a new one (cell from the pool if there is one)
Enter(r) ==
  /\ pc[r] = "enter"
  /\ LET k == key[r] IN
     IF map[k] # 0 THEN
       /\ my' = [my EXCEPT ![r] = map[k]]
       /\ cell' = [cell EXCEPT ![map[k]].users = @ \cup {r}]
       /\ waitsOn' = [waitsOn EXCEPT ![r] = cell[map[k]].load]
       /\ pc' = [pc EXCEPT ![r] = "wait"]
       /\ UNCHANGED <<map, pool, fresh, nloads>>
     ELSE
       \E c \in (IF pool # {} THEN pool ELSE {CHOOSE x \in fresh : \A y \in fresh : x <= y}) :
         /\ cell' = [cell EXCEPT ![c] = [done |-> FALSE, val |-> None, users |-> cell[c].users \cup {r}, load |-> nloads + 1]]
         /\ pool' = pool \ {c} /\ fresh' = fresh \ {c}
         /\ map' = [map EXCEPT ![k] = c]
         /\ my' = [my EXCEPT ![r] = c]
         /\ nloads' = nloads + 1
         /\ pc' = [pc EXCEPT ![r] = "run"]
         /\ UNCHANGED waitsOn
  /\ UNCHANGED <<key, ret, ncalls, ok>>

\* the load (doTake's function: GET, query, SET) produces its result
Run(r) ==
  /\ pc[r] = "run"
  /\ cell' = [cell EXCEPT ![my[r]].val = <<key[r], cell[my[r]].load>>]
  /\ pc' = [pc EXCEPT ![r] = "publish"]
  /\ UNCHANGED <<map, pool, fresh, key, my, ret, ncalls, nloads, ok, waitsOn>>

\* makeCall's deferred part: the map entry goes, the waiters are released
Publish(r) ==
  /\ pc[r] = "publish"
  /\ map' = [map EXCEPT ![key[r]] = 0]
  /\ cell' = [cell EXCEPT ![my[r]].done = TRUE]
  \* ghost: the load ends here; it was in progress during every call on its key that is open now
  /\ ok' = [x \in Callers |-> IF InCall(x) /\ key[x] = key[r] THEN ok[x] \cup {<<key[r], cell[my[r]].load>>} ELSE ok[x]]
  /\ pc' = [pc EXCEPT ![r] = "lret"]
  /\ UNCHANGED <<pool, fresh, key, my, ret, ncalls, nloads, waitsOn>>

Release(c, r) ==   \* caller r lets go of cell c
  LET left == cell[c].users \ {r} IN
    /\ cell' = [cell EXCEPT ![c].users = left]
    /\ pool' = IF Recycle = "leader" /\ pc[r] = "lret" THEN pool \cup {c}
               ELSE IF Recycle = "last" /\ left = {} THEN pool \cup {c}
               ELSE pool

\* the leader returns what the cell holds
LeaderRet(r) ==
  /\ pc[r] = "lret"
  /\ ret' = [ret EXCEPT ![r] = cell[my[r]].val]
  /\ Release(my[r], r)
  /\ pc' = [pc EXCEPT ![r] = "idle"]
  /\ my' = [my EXCEPT ![r] = 0]
  /\ UNCHANGED <<map, fresh, key, ncalls, nloads, ok, waitsOn>>

\* wg.Wait() returns ...
Wake(r) ==
  /\ pc[r] = "wait" /\ cell[my[r]].done
  /\ pc' = [pc EXCEPT ![r] = "woken"]
  /\ waitsOn' = [waitsOn EXCEPT ![r] = 0]
  /\ UNCHANGED <<map, cell, pool, fresh, key, my, ret, ncalls, nloads, ok>>

\* ... and the caller reads the cell
WaiterRet(r) ==
  /\ pc[r] = "woken"
  /\ ret' = [ret EXCEPT ![r] = cell[my[r]].val]
  /\ Release(my[r], r)
  /\ pc' = [pc EXCEPT ![r] = "idle"]
  /\ my' = [my EXCEPT ![r] = 0]
  /\ UNCHANGED <<map, fresh, key, ncalls, nloads, ok, waitsOn>>

Next == \E r \in Callers : Start(r) \/ Enter(r) \/ Run(r) \/ Publish(r) \/ LeaderRet(r) \/ Wake(r) \/ WaiterRet(r)

Spec == Init /\ [][Next]_vars

\* ------------------------------------------------------------------ the clauses
Returned(r) == pc[r] = "idle" /\ ncalls[r] > 0
\* every caller receives the result of a load of its key that was in progress during its call
SharedResult == \A r \in Callers : Returned(r) => ret[r] \in ok[r]
\* a blocked caller is blocked on the load it joined: the completion flag it waits for is that load's
NoLostWakeup == \A r \in Callers : pc[r] = "wait" => cell[my[r]].load = waitsOn[r]
\* one load per key at a time (the map is the barrier)
OneLoadPerKey == \A k \in Keys : Cardinality({r \in Callers : pc[r] \in {"run", "publish"} /\ key[r] = k}) <= 1
=============================================================================
