----------------------------- MODULE CacheAside -----------------------------
(* Layer P for property C06: what a cache-aside store is, in terms of what callers of
   cache.Cache (Take / TakeWithExpire / Get / Set / SetWithExpire / Del) and of
   sqlc.CachedConn (QueryRow / QueryRowIndex / Exec / DelCache / SetCache) can observe,
   together with a harness-owned database and a cache store (Redis) whose content, TTLs,
   clock and availability the harness controls and can inspect.

   Keys are integers: 0 .. np-1 are primary keys (the database holds a row, identified by
   its version number >= 1, or nothing), np .. np+ni-1 are unique-index keys (the database
   maps them to a primary key, or to nothing).  Time is in whole seconds, expiries are
   configured in deciseconds (so that 0.5 s and 7 days both fit TLC's integers).

   The state is the truth (db), the cache content with absolute expiry (cache), the
   availability of the cache store (down) and two sets that delimit the premise of the
   property:
     tainted     keys whose cache entry was written "behind the back" of the store
                 (an explicit Set of something the database does not hold)
     pendingDel  keys whose invalidation failed (store down while Exec/Del deleted them)
                 and whose entry has not been removed/overwritten/expired since.
   A cached read that is served from an entry which differs from the database is only
   legal for a tainted key; for a pendingDel key it is the named deviation
   KF_StaleAfterFailedInvalidation (parameter kf of the read actions, enabled by the trace
   specification only if that known finding is open); everything else has no behaviour.

   Concurrent readers (last section): calls are opened and closed by rstart/rend, the
   harness-owned query function reports qstart/qend; at most one query per key runs at a
   time and every reader receives the result of a query that ran during its call (or the
   cached entry).

   This module has no constants: CacheAsideMC (bounded model checking, generation),
   CacheAsideTrace (validation of traces recorded from the real code) build on the same
   named actions.                                                                      *)
EXTENDS Integers, FiniteSets, Sequences

Absent  == -1                        \* db: nothing stored under the key
PH      == -1                        \* cache: the not-found placeholder "*"
NoEntry == [v |-> -9, exp |-> 0]     \* cache: key not present
Forever == -1                        \* cache: exp of a persistent key (only the deviation KF_PersistentKey produces one)
PendG   == -2                        \* cache: exp of an entry written in a concurrent phase through an index read (TTL observed at the end, Gap allowed)
Gap     == 5                         \* s; sqlc: primary entry written through an index read may live this much longer

VARIABLES
  now,         \* clock of the cache store, seconds
  db,          \* key |-> row version / primary key id / Absent     (harness-owned truth)
  cache,       \* key |-> [v, exp] or NoEntry; exp absolute, entry gone when now >= exp; exp = 0: not yet observed
  down,        \* the cache store answers every command with an error
  pendingDel,  \* see above
  tainted,     \* see above
  cfg,         \* [np, ni, exp, nf]: key universe, configured expiry / not-found expiry in deciseconds
  cl,          \* cleaner bookkeeping: [up: since when the store has been up, att: key |-> failed retries since its invalidation last failed]
  calls,       \* concurrent readers: call id |-> [k, elig, abs]  (elig: queries - of any key - that ran during the call
               \* so far; abs: the keys that had no entry when the call began)
  running,     \* key |-> id of the query running for it, 0 if none
  qres         \* query id |-> [k, lead, done, r, v, p]: queries of the current concurrent phase (lead: the call that runs
               \* it; p: the primary key an index query found, -1 otherwise)

cvars == <<now, db, cache, down, pendingDel, tainted, cfg, cl, calls, running, qres>>

Keys       == 0 .. (cfg.np + cfg.ni - 1)
PKeys      == 0 .. (cfg.np - 1)
IsIndex(k) == k >= cfg.np
Present(k) == cache[k] # NoEntry
Want(k)    == IF db[k] = Absent THEN PH ELSE db[k]      \* the cache entry that reflects the database
Entry(v, t) == [v |-> v, exp |-> now + t]

\* TTL t (seconds) is derived from expiry e (deciseconds): e * [0.95, 1.05] rounded up to seconds, plus at most g
Lo(e) == (95 * e + 999) \div 1000
Hi(e) == (105 * e + 999) \div 1000
TTLOk(t, e, g) == t >= 1 /\ Lo(e) <= t /\ t <= Hi(e) + g

\* an entry that does not reflect the database although nobody wrote it behind the store's back
Stale(k) == Present(k) /\ cache[k].v # Want(k) /\ k \notin tainted

Quiescent == DOMAIN calls = {} /\ \A k \in Keys : running[k] = 0 /\ (Present(k) => cache[k].exp \notin {0, PendG})

Restrict(S, c) == {k \in S : c[k] # NoEntry}

CInit(np, ni, e, nf) ==
  /\ now = 0 /\ down = FALSE /\ pendingDel = {} /\ tainted = {}
  /\ cfg = [np |-> np, ni |-> ni, exp |-> e, nf |-> nf]
  /\ cl = [up |-> 0, att |-> [k \in 0 .. (np + ni - 1) |-> 0]]
  /\ db = [k \in 0 .. (np + ni - 1) |-> Absent]
  /\ cache = [k \in 0 .. (np + ni - 1) |-> NoEntry]
  /\ calls = <<>> /\ running = [k \in 0 .. (np + ni - 1) |-> 0] /\ qres = <<>>

NoConc == UNCHANGED <<calls, running, qres>>
\* the store's availability becomes dn: remember since when it has been up
UpNote(dn) == cl' = IF down /\ ~dn THEN [cl EXCEPT !.up = now] ELSE cl

(* ---------------------------------------------------------------- one cached read
   doTake on key k against cache content c0.  dn0: the store is down when the entry is
   fetched, dn1: it is down when the result is written back (the harness may flip the
   store inside its query function).  e: expiry for a found row, dbf: the harness makes
   the query fail, t: TTL observed on k afterwards (only meaningful if an entry is
   written).  The record says what the caller gets (r, v), how many queries ran, the new
   content, whether the TTL is legal and whether the answer was served from the cache.  *)
DoTake(c0, dn0, dn1, k, e, dbf, t) ==
  IF dn0 THEN                                                   \* FailFast: no query
    [r |-> "cerr", v |-> 0, nq |-> 0, c |-> c0, ttlok |-> TRUE, hit |-> FALSE]
  ELSE IF c0[k] # NoEntry THEN                                  \* ServedFromCache: no query
    [r |-> IF c0[k].v = PH THEN "nf" ELSE "ok", v |-> IF c0[k].v = PH THEN 0 ELSE c0[k].v,
     nq |-> 0, c |-> c0, ttlok |-> TRUE, hit |-> TRUE]
  ELSE IF dbf THEN                                              \* ErrorsNotCached
    [r |-> "dberr", v |-> 0, nq |-> 1, c |-> c0, ttlok |-> TRUE, hit |-> FALSE]
  ELSE
    [r |-> IF db[k] = Absent THEN "nf" ELSE "ok", v |-> IF db[k] = Absent THEN 0 ELSE db[k],
     nq |-> 1,
     c |-> IF dn1 THEN c0 ELSE [c0 EXCEPT ![k] = Entry(Want(k), t)],
     ttlok |-> dn1 \/ TTLOk(t, IF db[k] = Absent THEN cfg.nf ELSE e, 0),
     hit |-> FALSE]

\* staleness rule shared by the read actions: S = keys whose cached entry was served
StaleRule(S, kf) ==
  LET bad == {k \in S : Stale(k)} IN
    IF kf THEN bad # {} /\ bad \subseteq pendingDel ELSE bad = {}

(* Take / TakeWithExpire / QueryRow on key k answered (r, v) after nq database queries.
   flip: the harness toggled the store inside the query function.
   cut:  the harness's fault injector made the store refuse the cut-th and every later command it received
         during this operation (0: no outage began inside the operation; an injector that was armed but not
         reached is reported as 0).  cut = 1: not even the fetch of the entry was answered - the operation ran
         against a failing store.  cut >= 2: the fetch was answered and the outage began at a later command,
         before or after the write-back was complete: the property does not say how many commands a write-back
         takes, only that whatever it leaves in the store is the truth with a finite TTL - so both "nothing
         written" and "written" are behaviours, and nothing else is (in particular no entry without a TTL).
   qa:   database queries entered after the outage had begun (a failing store is reported without querying).  *)
Take(k, r, v, nq, dbf, flip, cut, qa, t, kf) ==
  /\ Quiescent /\ k \in Keys
  /\ qa = 0
  /\ cut > 0 => ~down /\ ~flip
  /\ \E dn1 \in (IF cut = 0 THEN {down # flip} ELSE IF cut = 1 THEN {TRUE} ELSE BOOLEAN) :
       LET o == DoTake(cache, down \/ cut = 1, dn1, k, cfg.exp, dbf, t) IN
         /\ r = o.r /\ v = o.v /\ nq = o.nq /\ o.ttlok
         /\ flip => nq = 1
         /\ StaleRule(IF o.hit THEN {k} ELSE {}, kf)
         /\ cache' = o.c
  /\ down' = (IF cut > 0 THEN TRUE ELSE down # flip) /\ UpNote(IF cut > 0 THEN TRUE ELSE down # flip)
  /\ UNCHANGED <<now, db, pendingDel, tainted, cfg>> /\ NoConc

(* QueryRowIndex on index key i: index entry -> primary key -> row.
   dbfi / dbfp: the harness makes the index / primary query fail; ti / tp: TTLs observed
   afterwards on the index key and on the primary key involved.  The operation touches the store at up to
   three stages: (1) fetch of the index entry, (2) the primary entry (fetched if the index entry was
   cached, written inside the index query otherwise), (3) the last write-back (primary entry after a
   primary query, index entry after an index query); d1, d2, d3: the store refuses at that stage.
   The record says what the caller gets, the index (qi) and primary (qp) queries run, the new content,
   whether the inputs/TTLs are legal (ok), the keys whose entries were served (hits) and the keys whose
   entries were overwritten with the truth (wrote).                                     *)
IdxOut(r, v, qi, qp, c, ok, hits, wrote) ==
  [r |-> r, v |-> v, qi |-> qi, qp |-> qp, c |-> c, ok |-> ok, hits |-> hits, wrote |-> wrote]

IdxHitPath(i) == Present(i) /\ cache[i].v # PH

DoIndex(i, dbfi, dbfp, d1, d2, d3, ti, tp) ==
  IF d1 THEN IdxOut("cerr", 0, 0, 0, cache, TRUE, {}, {})
  ELSE IF Present(i) THEN
    IF cache[i].v = PH THEN IdxOut("nf", 0, 0, 0, cache, TRUE, {i}, {})
    ELSE LET p == cache[i].v
             o == DoTake(cache, d2, d3, p, cfg.exp, dbfp, tp) IN
           IdxOut(o.r, o.v, 0, o.nq, o.c, p \in PKeys /\ o.ttlok,
                  {i} \cup (IF o.hit THEN {p} ELSE {}), {})
  ELSE IF dbfi THEN IdxOut("dberr", 0, 1, 0, cache, TRUE, {}, {})
  ELSE IF db[i] = Absent THEN
    IdxOut("nf", 0, 1, 0, IF d2 THEN cache ELSE [cache EXCEPT ![i] = Entry(PH, ti)],
           d2 \/ TTLOk(ti, cfg.nf, 0), {}, {})
  ELSE LET p == db[i] IN
    IF d2 THEN IdxOut("cerr", 0, 1, 0, cache, TRUE, {}, {})   \* the row cannot be cached: the store error is reported
    ELSE IF d3 THEN IdxOut("ok", db[p], 1, 0, [cache EXCEPT ![p] = Entry(db[p], tp)],   \* the index entry could not be written
                           p \in PKeys /\ db[p] # Absent /\ TTLOk(tp, cfg.exp, Gap), {}, {p})
    ELSE IdxOut("ok", db[p], 1, 0, [cache EXCEPT ![p] = Entry(db[p], tp), ![i] = Entry(p, ti)],
                p \in PKeys /\ db[p] # Absent /\ TTLOk(tp, cfg.exp, Gap) /\ TTLOk(ti, cfg.exp, 0), {}, {p})

\* the stage patterns an operation may have run under (flip: inside the first query function; cut: see Take)
IdxPatterns(i, flip, cut) ==
  IF cut = 0 THEN {<<down, ~down /\ flip /\ ~IdxHitPath(i), down # flip>>}
  ELSE IF cut = 1 THEN {<<TRUE, TRUE, TRUE>>}
  ELSE {<<FALSE, TRUE, TRUE>>, <<FALSE, FALSE, TRUE>>, <<FALSE, FALSE, FALSE>>}

Index(i, r, v, qi, qp, dbfi, dbfp, flip, cut, qa, ti, tp, kf) ==
  /\ Quiescent /\ i \in Keys /\ IsIndex(i)
  /\ qa = 0
  /\ cut > 0 => ~down /\ ~flip
  /\ flip => ~down
  /\ \E pt \in IdxPatterns(i, flip, cut) :
       LET o == DoIndex(i, dbfi, dbfp, pt[1], pt[2], pt[3], ti, tp) IN
         /\ r = o.r /\ v = o.v /\ qi = o.qi /\ qp = o.qp /\ o.ok
         /\ flip => qi + qp = 1                         \* the store can only be toggled inside a query
         /\ StaleRule(o.hits, kf)
         /\ cache' = o.c
         /\ pendingDel' = pendingDel \ o.wrote
         /\ tainted' = tainted \ o.wrote
  /\ down' = (IF cut > 0 THEN TRUE ELSE down # flip) /\ UpNote(IF cut > 0 THEN TRUE ELSE down # flip)
  /\ UNCHANGED <<now, db, cfg>> /\ NoConc

\* Get: the cache content, whatever the database holds (not a cached read in the sense of the property)
Get(k, r, v) ==
  /\ Quiescent /\ k \in Keys
  /\ IF down THEN r = "cerr" /\ v = 0
     ELSE IF ~Present(k) \/ cache[k].v = PH THEN r = "nf" /\ v = 0
     ELSE r = "ok" /\ v = cache[k].v
  /\ UNCHANGED cvars

(* Set / SetWithExpire(e) / SetCache: explicit write of the cache.  e: the expiry used, deciseconds.
   A non-positive requested expiry has no TTL "derived" from it; the property only says that no
   persistent key may result: the call is either refused (nothing written) or the entry gets the
   smallest TTL (1 s) or one derived from the configured expiry.  kfp: the named deviation
   KF_PersistentKey - the entry is written without any TTL.
   cut: as for Take - the store refused the cut-th and every later command of the call: the entry is written
   (with a legal TTL) or not at all, and the store is down afterwards.                        *)
Set(k, v, e, r, t, kfp, cut) ==
  /\ Quiescent /\ k \in Keys
  /\ kfp => e <= 0 /\ ~down
  /\ cut > 0 => ~down /\ ~kfp
  /\ IF down \/ cut = 1 THEN r = "cerr" /\ UNCHANGED <<cache, pendingDel, tainted>>
     ELSE IF e <= 0 /\ r # "ok" THEN UNCHANGED <<cache, pendingDel, tainted>>
     ELSE \/ /\ cut >= 2 /\ r \in {"ok", "cerr"}        \* the outage began before the write was complete: nothing is written
             /\ UNCHANGED <<cache, pendingDel, tainted>>
          \/ /\ IF cut >= 2 THEN r \in {"ok", "cerr"} ELSE r = "ok"
             /\ IF kfp THEN cache' = [cache EXCEPT ![k] = [v |-> v, exp |-> Forever]]
                ELSE /\ IF e <= 0 THEN t = 1 \/ TTLOk(t, cfg.exp, 0) ELSE TTLOk(t, e, 0)
                     /\ cache' = [cache EXCEPT ![k] = Entry(v, t)]
             /\ pendingDel' = pendingDel \ {k}
             /\ tainted' = IF v = Want(k) THEN tainted \ {k} ELSE tainted \cup {k}
  /\ down' = (down \/ cut > 0)
  /\ UNCHANGED <<now, db, cfg, cl>> /\ NoConc

(* A database write through Exec (or harness write followed by Del / DelCache) with the
   keys ks: upd is a function from the keys whose database content changes to the new
   content; the premise of the property is that ks covers them.  dbf: the harness makes
   the write fail: the database is unchanged, and whether some of the keys are invalidated
   all the same is left open (gone: the keys whose entries disappeared).  With the store
   down the invalidation fails; the property does not say what the caller is told (r is
   free), the keys whose entry stays behind become pendingDel.
   cut: the store began to refuse at the cut-th command it received during the invalidation (0: no
   outage began inside the operation).  How the keys are spread over commands is the implementation's
   business (one DEL for all of them on a single node, one DEL per key on a Redis cluster): any part of
   ks may be gone - but not all of ks if the very first command was refused - and every key of ks
   that keeps its entry is owed to the cleaner exactly as after a complete failure.                *)
Write(upd, ks, dbf, r, gone, cut) ==
  /\ Quiescent /\ ks \subseteq Keys /\ DOMAIN upd \subseteq ks
  /\ cut > 0 => ~down /\ ~dbf
  /\ IF dbf THEN
       /\ r = "dberr"
       /\ gone \subseteq ks /\ (down => gone = {})
       /\ cache' = [k \in Keys |-> IF k \in gone THEN NoEntry ELSE cache[k]]
       /\ pendingDel' = pendingDel \ gone
       /\ tainted' = tainted \ gone
       /\ UNCHANGED <<db, cl, down>>
     ELSE
       /\ db' = [k \in Keys |-> IF k \in DOMAIN upd THEN upd[k] ELSE db[k]]
       /\ IF cut > 0 THEN
            /\ r \in {"ok", "cerr"}
            /\ gone \subseteq {k \in ks : Present(k)}
            /\ cut = 1 => gone = {}
            /\ cache' = [k \in Keys |-> IF k \in gone THEN NoEntry ELSE cache[k]]
            /\ pendingDel' = (pendingDel \ gone) \cup {k \in ks \ gone : Present(k)}
            /\ tainted' = tainted \ gone
            /\ cl' = [cl EXCEPT !.att = [k \in Keys |-> IF k \in ks \ gone THEN 0 ELSE cl.att[k]]]
            /\ down' = TRUE
          ELSE IF down THEN
            /\ r \in {"ok", "cerr"}
            /\ pendingDel' = pendingDel \cup {k \in ks : Present(k)}
            /\ cl' = [cl EXCEPT !.att = [k \in Keys |-> IF k \in ks THEN 0 ELSE cl.att[k]]]   \* a new retry task
            /\ UNCHANGED <<cache, tainted, down>>
          ELSE
            /\ r = "ok"
            /\ cache' = [k \in Keys |-> IF k \in ks THEN NoEntry ELSE cache[k]]
            /\ pendingDel' = pendingDel \ ks
            /\ tainted' = tainted \ ks
            /\ UNCHANGED <<cl, down>>
  /\ UNCHANGED <<now, cfg>> /\ NoConc

\* the cleaner retried the deletion of ks: it succeeds exactly when the store is up
Cleaner(ks, ok) ==
  /\ Quiescent /\ ks \subseteq Keys
  /\ ok = ~down
  /\ IF ok THEN /\ cache' = [k \in Keys |-> IF k \in ks THEN NoEntry ELSE cache[k]]
                /\ pendingDel' = pendingDel \ ks
                /\ tainted' = tainted \ ks
           ELSE UNCHANGED <<cache, pendingDel, tainted>>
  /\ cl' = IF ok THEN cl ELSE [cl EXCEPT !.att = [k \in Keys |-> IF k \in ks THEN cl.att[k] + 1 ELSE cl.att[k]]]
  /\ UNCHANGED <<now, db, down, cfg>> /\ NoConc

(* The store has been up for at least total seconds - longer than the cleaner's whole retry schedule
   (both numbers are read off cleaner.go's nextDelay by the harness): whatever a failed invalidation
   left behind has been removed by now, unless the cleaner had used up its maxAtt attempts during the
   outage.  This bounds the known finding: stale until the retry, not for ever.                    *)
Drain(total, maxAtt) ==
  /\ Quiescent /\ ~down /\ total >= 1 /\ maxAtt >= 1
  /\ now - cl.up >= total
  /\ \A k \in pendingDel : cl.att[k] >= maxAtt
  /\ UNCHANGED cvars

\* the clock of the store moves by d seconds: entries whose time has come are gone
Advance(d) ==
  /\ Quiescent /\ d >= 0
  /\ now' = now + d
  /\ cache' = [k \in Keys |-> IF Present(k) /\ cache[k].exp # Forever /\ cache[k].exp <= now + d THEN NoEntry ELSE cache[k]]
  /\ pendingDel' = Restrict(pendingDel, cache')
  /\ tainted' = Restrict(tainted, cache')
  /\ UNCHANGED <<db, down, cfg, cl>> /\ NoConc

Fault(dn) ==
  /\ Quiescent
  /\ down' = dn /\ UpNote(dn)
  /\ UNCHANGED <<now, db, cache, pendingDel, tainted, cfg>> /\ NoConc

(* ---------------------------------------------------------------- concurrent readers
   No writes, clock steps or faults while calls are open.  Calls may be on different keys, primary
   (Take / QueryRow) or index (QueryRowIndex), and a caller may make one call after the other.
   A load = the query run by its leading call plus the write-back; it is over when the leading call
   returns.  A reader may receive the result of any load of its key that was in progress at some moment of
   its call; a reader of an index key goes on to the primary key that an index load, or the cached index
   entry, named, and receives the result of a load of that key (or its cached entry).               *)
LiveLoads == {q \in DOMAIN qres : qres[q].lead \in DOMAIN calls}

\* primary keys whose entry was written by an index load of this phase (a write that does not go through the
\* barrier of the primary key: it can overtake a reader of that key between its fetch and its query)
XWritten == {qres[q].p : q \in {x \in DOMAIN qres : qres[x].done /\ qres[x].p >= 0}}

RStart(c, k) ==
  /\ c \notin DOMAIN calls /\ k \in Keys
  /\ calls' = [x \in DOMAIN calls \cup {c} |->
                 IF x = c THEN [k |-> k, elig |-> LiveLoads, abs |-> {x2 \in Keys : ~Present(x2)}] ELSE calls[x]]
  /\ UNCHANGED <<now, db, cache, down, pendingDel, tainted, cfg, cl, running, qres>>

\* the harness-owned query function was entered for key k, on the goroutine of call lead
QStart(q, k, lead) ==
  /\ k \in Keys /\ q > 0 /\ q \notin DOMAIN qres
  /\ lead \in DOMAIN calls                \* a query runs on behalf of a reader: of that key, or of an index key
  /\ \/ calls[lead].k = k                 \* (which goes on to a primary key)
     \/ IsIndex(calls[lead].k) /\ ~IsIndex(k)
  /\ running[k] = 0                 \* OneQueryAtATime
  /\ ~down                          \* FailFast
  /\ \/ ~Present(k)                 \* ServedFromCache
     \/ k \in XWritten /\ k \in calls[lead].abs
  /\ running' = [running EXCEPT ![k] = q]
  /\ calls' = [c \in DOMAIN calls |-> [calls[c] EXCEPT !.elig = @ \cup {q}]]
  /\ qres' = [x \in DOMAIN qres \cup {q} |->
                IF x = q THEN [k |-> k, lead |-> lead, done |-> FALSE, r |-> "", v |-> 0, p |-> -1] ELSE qres[x]]
  /\ UNCHANGED <<now, db, cache, down, pendingDel, tainted, cfg, cl>>

\* ... and returns (dbf: with an error).  The write-back is part of the same load; its TTL is observed later.
\* An index query finds the primary key and the row: both entries are written.
Pend(k, g) == IF g \/ (Present(k) /\ cache[k].exp = PendG) THEN PendG ELSE 0
QEnd(q, k, dbf) ==
  /\ k \in Keys /\ running[k] = q
  /\ running' = [running EXCEPT ![k] = 0]
  /\ LET found == ~dbf /\ db[k] # Absent
         viaIdx == found /\ IsIndex(k) IN
       /\ qres' = [qres EXCEPT ![q].done = TRUE,
                               ![q].r = IF dbf THEN "dberr" ELSE IF db[k] = Absent THEN "nf" ELSE "ok",
                               ![q].v = IF ~found THEN 0 ELSE IF IsIndex(k) THEN db[db[k]] ELSE db[k],
                               ![q].p = IF viaIdx THEN db[k] ELSE -1]
       /\ viaIdx => db[k] \in PKeys /\ db[db[k]] # Absent
       /\ cache' = IF dbf THEN cache
                   ELSE IF viaIdx THEN [cache EXCEPT ![k] = [v |-> db[k], exp |-> Pend(k, FALSE)],
                                                     ![db[k]] = [v |-> db[db[k]], exp |-> PendG]]
                   ELSE [cache EXCEPT ![k] = [v |-> Want(k), exp |-> Pend(k, FALSE)]]
       /\ pendingDel' = IF viaIdx THEN pendingDel \ {db[k]} ELSE pendingDel
       /\ tainted' = IF viaIdx THEN tainted \ {db[k]} ELSE tainted
  /\ UNCHANGED <<now, db, down, cfg, cl, calls>>

\* SharedResult: the reader gets the result of a load that was in progress during its call, or the cached entry
Loads(c, k) == {q \in calls[c].elig : qres[q].k = k /\ qres[q].done}
FromCache(k, r, v) ==
  /\ Present(k) /\ ~Stale(k)
  /\ IF cache[k].v = PH THEN r = "nf" /\ v = 0 ELSE r = "ok" /\ v = cache[k].v
TakeRes(c, k, r, v) == (\E q \in Loads(c, k) : qres[q].r = r /\ qres[q].v = v) \/ FromCache(k, r, v)
\* the primary keys a reader of index key i may have been sent to
ViaKeys(c, i) == {qres[q].p : q \in {x \in Loads(c, i) : qres[x].r = "ok"}}
                 \cup (IF Present(i) /\ ~Stale(i) /\ cache[i].v # PH THEN {cache[i].v} ELSE {})
IndexRes(c, i, r, v) ==
  \/ \E q \in Loads(c, i) : qres[q].r = r /\ qres[q].v = v       \* the index load's own outcome (row, not found, error)
  \/ Present(i) /\ ~Stale(i) /\ cache[i].v = PH /\ r = "nf" /\ v = 0
  \/ \E p \in ViaKeys(c, i) : p \in PKeys /\ TakeRes(c, p, r, v)

REnd(c, r, v) ==
  /\ c \in DOMAIN calls
  /\ LET k == calls[c].k IN
       IF down THEN r = "cerr" /\ v = 0
       ELSE IF IsIndex(k) THEN IndexRes(c, k, r, v)
       ELSE TakeRes(c, k, r, v)
  /\ \A q \in DOMAIN qres : qres[q].lead = c => qres[q].done     \* a call does not return while its query runs
  /\ calls' = [x \in DOMAIN calls \ {c} |-> calls[x]]
  /\ UNCHANGED <<now, db, cache, down, pendingDel, tainted, cfg, cl, running, qres>>

\* end of a concurrent phase: the store is inspected, TTLs of the entries loaded in the phase become known
\* snap: key |-> [v, ttl] for the keys present in the store
Obs(snap) ==
  /\ DOMAIN calls = {} /\ \A k \in Keys : running[k] = 0
  /\ \A k \in Keys :
       IF k \in DOMAIN snap
         THEN /\ Present(k) /\ cache[k].v = snap[k].v
              /\ IF cache[k].exp \in {0, PendG}
                   THEN TTLOk(snap[k].ttl, IF cache[k].v = PH THEN cfg.nf ELSE cfg.exp, IF cache[k].exp = PendG THEN Gap ELSE 0)
                   ELSE IF cache[k].exp = Forever THEN snap[k].ttl = 0
                   ELSE cache[k].exp = now + snap[k].ttl
         ELSE ~Present(k)
  /\ cache' = [k \in Keys |-> IF Present(k) /\ cache[k].exp \in {0, PendG}
                               THEN [cache[k] EXCEPT !.exp = now + snap[k].ttl] ELSE cache[k]]
  /\ qres' = <<>>
  /\ UNCHANGED <<now, db, down, pendingDel, tainted, cfg, cl, calls, running>>

\* ------------------------------------------------------------------ properties
TypeOK ==
  /\ now \in Nat /\ down \in BOOLEAN
  /\ pendingDel \subseteq Keys /\ tainted \subseteq Keys
  /\ \A k \in Keys : db[k] \in Int /\ (cache[k] = NoEntry \/ cache[k].v >= PH)

\* C06, first sentence as a state invariant: an entry nobody wrote behind the store's back and whose
\* invalidation did not fail reflects the database
Coherent == \A k \in Keys : Stale(k) => k \in pendingDel

\* entries never outlive a finite TTL: present => its time has not come (exp = 0: being observed)
Expiring == \A k \in Keys : Present(k) => (cache[k].exp \in {0, PendG} \/ cache[k].exp > now)
\* ... the same for the trace specification, where the deviation KF_PersistentKey may have produced a persistent key
ExpiringOrKnown == \A k \in Keys : Present(k) => (cache[k].exp \in {0, PendG, Forever} \/ cache[k].exp > now)

\* bookkeeping: the two premise sets only name keys that have an entry
PremiseSetsTight == \A k \in pendingDel \cup tainted : Present(k)

\* the harness database keeps its integrity (an index key names an existing row)
DbIntegrity == \A k \in Keys : IsIndex(k) /\ db[k] # Absent => db[k] \in PKeys /\ db[db[k]] # Absent
=============================================================================
