SPECIFICATION TSpec
CONSTRAINT HW
INVARIANTS Coherent ExpiringOrKnown PremiseSetsTight
POSTCONDITION CacheAccepted
CHECK_DEADLOCK FALSE
