------------------------------ MODULE CacheDel ------------------------------
(* Layer I for property C06, the invalidation path: cacheNode.DelCtx for the keys of one Exec / Del, the retry
   tasks it leaves with the cleaner, and the cleaner.  Written like the code:
     node type      one DEL naming all keys; if it fails, one retry task for all keys
     cluster type   (redis.Type = cluster and more than one key) one DEL per key, in order; every DEL that
                    fails leaves a retry task of its own
   with the store going down and coming back between any two commands (MaxFaults toggles), and the cleaner
   running any pending task at any moment (a task that fails stays - the retry schedule is not modelled,
   only that a task is retried while the store is up).

   What C06 needs from this path (CacheAside.tla: Write / Cleaner / Drain): an entry that an invalidation
   left behind is owed to the cleaner - Covered: every key whose DEL failed and whose entry is still there is
   the target of a pending retry task - so that once the store has stayed up and the cleaner has run,
   nothing of it is left (Drained).

   Variant (constant LoopVarShared = TRUE): the retry closure of the per-key loop reads the loop variable
   when it runs (one variable for the whole loop before Go 1.22): every task of one DelCtx call then deletes
   the LAST key of the call.  Covered does not hold (documented counterexample).                      *)
EXTENDS Integers, Sequences, FiniteSets, TLC

CONSTANTS
  Keys,            \* the keys one invalidation names (integers; the loop takes them in increasing order)
  Types,           \* subset of {"node", "cluster"}: the redis types a call may run on
  MaxCalls,        \* DelCtx calls
  MaxFaults,
  LoopVarShared    \* BOOLEAN, see above

VARIABLES
  present,   \* key |-> the store holds an entry for it (before a call: the entry the write made stale)
  owed,      \* keys whose DEL failed and whose entry has not been deleted since
  down,
  tasks,     \* pending retry tasks: records [id, label, target] (label: the keys logged with the task)
  ntasks,
  wpc,       \* "idle" | "loop" | "single"
  todo,      \* per-key loop: keys still to delete, in order
  last,      \* per-key loop: the last key of the call (what a shared loop variable holds when the closures run)
  calls, faults

vars == <<present, owed, down, tasks, ntasks, wpc, todo, last, calls, faults>>

Min(S) == CHOOSE x \in S : \A y \in S : x <= y
Max(S) == CHOOSE x \in S : \A y \in S : x >= y

Init ==
  /\ present = [k \in Keys |-> TRUE] /\ owed = {} /\ down = FALSE
  /\ tasks = {} /\ ntasks = 0 /\ wpc = "idle" /\ todo = {} /\ last = 0
  /\ calls = 0 /\ faults = 0

\* a write went to the database: its keys are cached (stale from now on) and DelCtx(keys) begins
Call ==
  /\ wpc = "idle" /\ calls < MaxCalls
  /\ \E ks \in SUBSET Keys :
       /\ ks # {}
       /\ present' = [k \in Keys |-> present[k] \/ k \in ks]
       /\ todo' = ks /\ last' = Max(ks)
       /\ \E ty \in Types : wpc' = IF ty = "cluster" /\ Cardinality(ks) > 1 THEN "loop" ELSE "single"
  /\ calls' = calls + 1
  /\ UNCHANGED <<owed, down, tasks, ntasks, faults>>

NewTask(label, target) == [id |-> ntasks + 1, label |-> label, target |-> target]

\* node type / one key: a single DEL
Single ==
  /\ wpc = "single"
  /\ IF down THEN /\ tasks' = tasks \cup {NewTask(todo, todo)}
                  /\ ntasks' = ntasks + 1
                  /\ owed' = owed \cup todo
                  /\ UNCHANGED present
             ELSE /\ present' = [k \in Keys |-> present[k] /\ k \notin todo]
                  /\ owed' = owed \ todo
                  /\ UNCHANGED <<tasks, ntasks>>
  /\ wpc' = "idle" /\ todo' = {}
  /\ UNCHANGED <<down, last, calls, faults>>

\* cluster type: the next key of the loop
Loop ==
  /\ wpc = "loop" /\ todo # {}
  /\ LET k == Min(todo) IN
       /\ IF down THEN /\ tasks' = tasks \cup {NewTask({k}, IF LoopVarShared THEN {last} ELSE {k})}
                       /\ ntasks' = ntasks + 1
                       /\ owed' = owed \cup {k}
                       /\ UNCHANGED present
                  ELSE /\ present' = [present EXCEPT ![k] = FALSE]
                       /\ owed' = owed \ {k}
                       /\ UNCHANGED <<tasks, ntasks>>
       /\ todo' = todo \ {k}
       /\ wpc' = IF todo \ {k} = {} THEN "idle" ELSE "loop"
  /\ UNCHANGED <<down, last, calls, faults>>

\* the cleaner runs a pending task: it deletes the task's target; a failed attempt leaves the task pending
Clean ==
  /\ ~down
  /\ \E t \in tasks :
       /\ present' = [k \in Keys |-> present[k] /\ k \notin t.target]
       /\ owed' = owed \ t.target
       /\ tasks' = tasks \ {t}
  /\ UNCHANGED <<down, ntasks, wpc, todo, last, calls, faults>>

Fault ==
  /\ faults < MaxFaults
  /\ down' = ~down /\ faults' = faults + 1
  /\ UNCHANGED <<present, owed, tasks, ntasks, wpc, todo, last, calls>>

Next == Call \/ Single \/ Loop \/ Clean \/ Fault
Spec == Init /\ [][Next]_vars

\* ------------------------------------------------------------------ the clauses
Targets == UNION {t.target : t \in tasks}
\* what a failed invalidation left behind is the target of a pending retry
Covered == \A k \in owed : present[k] => k \in Targets
\* ... so with the store up, no call in progress and the cleaner done, nothing is left of it
Drained == (wpc = "idle" /\ tasks = {}) => \A k \in owed : ~present[k]
\* a task is logged under the keys it deletes
Labelled == \A t \in tasks : t.label = t.target
=============================================================================
