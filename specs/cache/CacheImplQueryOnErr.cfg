SPECIFICATION Spec
CONSTANTS
  Readers = {1, 2}
  Vals = {1, 2}
  MaxCalls = 1
  MaxWrites = 2
  MaxFaults = 2
  MaxExpires = 1
  MaxDbErrs = 1
  Barrier = TRUE
  CacheDbErr = FALSE
  QueryOnErr = TRUE
  TwoStepNF = FALSE
INVARIANTS FailFast
CHECK_DEADLOCK FALSE
