SPECIFICATION Spec
CONSTANTS
  Callers = {c1, c2, c3}
  Keys = {1, 2}
  MaxCalls = 2
  MaxTotal = 5
  Cells = {1, 2, 3, 4, 5, 6}
  Recycle = "last"
SYMMETRY Sym
INVARIANTS SharedResult NoLostWakeup OneLoadPerKey
CHECK_DEADLOCK FALSE
