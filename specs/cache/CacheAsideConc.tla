--------------------------- MODULE CacheAsideConc ---------------------------
(* Bounded model checking of the concurrent-reader section of CacheAside.tla (RStart / QStart / QEnd /
   REnd / Obs) - the clauses "at most one database query at a time per key, every reader receives that
   query's result" for primary keys (Take / QueryRow) AND index keys (QueryRowIndex, which goes on to the
   primary key it finds), several keys side by side, callers making one call after the other.

   The machine below is the most general reader population the section admits: any call may be opened, any
   query the section allows may start and end (also with a database error), and a call may return ANY
   (r, v) the section allows.  Checked:
     Satisfiable       an open call can return, or a query is running, or one may start on its behalf: the
                       clauses never paint a reader into a corner;
     ReadersGetTruth   the clauses imply the first sentence of C06 for a phase without writes: whatever a
                       reader is allowed to receive - through a shared load, through a chain index load ->
                       primary load, or from an entry written during the phase - is what the database holds
                       (or an injected error);
     OneAtATime        at most one query per key is running;
     the state invariants of the store (Coherent, PremiseSetsTight, DbIntegrity).                      *)
EXTENDS CacheAside, TLC

CONSTANTS NP, NI, MaxCalls, MaxQueries, MaxDbErrs, ExpDs, NfDs

VARIABLES
  nc,       \* calls opened so far
  nq,       \* queries started so far
  nerr,     \* injected database errors
  told      \* what the last returning call was told: [k, r, v, n]

mvars == <<now, db, cache, down, pendingDel, tainted, cfg, cl, calls, running, qres, nc, nq, nerr, told>>

AllKeys == 0 .. (NP + NI - 1)
DbChoices == {d \in [AllKeys -> {Absent} \cup 0 .. 1] :
                /\ \A k \in AllKeys : k >= NP /\ d[k] # Absent => d[k] < NP /\ d[d[k]] # Absent
                /\ \A k \in AllKeys : k < NP /\ d[k] # Absent => d[k] = 1}

MInit ==
  /\ CInit(NP, NI, ExpDs, NfDs)
  /\ nc = 0 /\ nq = 0 /\ nerr = 0 /\ told = [k |-> 0, r |-> "", v |-> 0, n |-> 0]

\* the database gets its content before the phase (no writes while calls are open)
Populate ==
  /\ nc = 0 /\ \A k \in Keys : db[k] = Absent
  /\ \E d \in DbChoices : d # db /\ db' = d
  /\ UNCHANGED <<now, cache, down, pendingDel, tainted, cfg, cl, calls, running, qres, nc, nq, nerr, told>>

MRStart ==
  /\ nc < MaxCalls
  /\ \E k \in Keys : RStart(nc + 1, k)
  /\ nc' = nc + 1
  /\ UNCHANGED <<nq, nerr, told>>

MQStart ==
  /\ nq < MaxQueries
  /\ \E k \in Keys : \E lead \in DOMAIN calls : QStart(nq + 1, k, lead)
  /\ nq' = nq + 1
  /\ UNCHANGED <<nc, nerr, told>>

MQEnd ==
  /\ \E k \in Keys : \E dbf \in BOOLEAN :
       /\ running[k] # 0
       /\ dbf => nerr < MaxDbErrs
       /\ QEnd(running[k], k, dbf)
       /\ nerr' = IF dbf THEN nerr + 1 ELSE nerr
  /\ UNCHANGED <<nc, nq, told>>

MREnd ==
  /\ \E c \in DOMAIN calls : \E r \in {"ok", "nf", "dberr", "cerr"} : \E v \in 0 .. 1 :
       /\ REnd(c, r, v)
       /\ told' = [k |-> calls[c].k, r |-> r, v |-> v, n |-> 1 - told.n]
  /\ UNCHANGED <<nc, nq, nerr>>

\* the phase is over: the store is inspected (the TTLs observed are legal ones)
MObs ==
  /\ DOMAIN calls = {} /\ qres # <<>>
  /\ LET snap == [k \in {x \in Keys : Present(x)} |->
                    [v |-> cache[k].v,
                     ttl |-> IF cache[k].exp \in {0, PendG} THEN Lo(IF cache[k].v = PH THEN NfDs ELSE ExpDs)
                             ELSE cache[k].exp - now]] IN
       Obs(snap)
  /\ UNCHANGED <<nc, nq, nerr, told>>

\* everything has been used up and observed
Done ==
  /\ DOMAIN calls = {} /\ qres = <<>> /\ \A k \in Keys : running[k] = 0
  /\ UNCHANGED mvars

MNext == Populate \/ MRStart \/ MQStart \/ MQEnd \/ MREnd \/ MObs \/ Done
MSpec == MInit /\ [][MNext]_mvars

\* ------------------------------------------------------------------ clauses
TruthOf(k) ==
  IF db[k] = Absent THEN [r |-> "nf", v |-> 0]
  ELSE IF IsIndex(k) THEN [r |-> "ok", v |-> db[db[k]]] ELSE [r |-> "ok", v |-> db[k]]

ReadersGetTruth ==
  told'.n # told.n /\ told'.r \in {"ok", "nf"} => [r |-> told'.r, v |-> told'.v] = TruthOf(told'.k)
ErrorsAreInjected ==
  told'.n # told.n /\ told'.r = "dberr" => nerr > 0
NoStoreError == told'.n # told.n => told'.r # "cerr"        \* the store is up throughout
PropReadersGetTruth   == [][ReadersGetTruth]_mvars
PropErrorsAreInjected == [][ErrorsAreInjected]_mvars
PropNoStoreError      == [][NoStoreError]_mvars

OneAtATime == \A k \in Keys : Cardinality({q \in DOMAIN qres : qres[q].k = k /\ ~qres[q].done}) <= 1

\* the clauses never paint a reader into a corner: an open call can return, or a query is running, or a query
\* may start on its behalf (independent of the budgets of this model)
Satisfiable ==
  \A c \in DOMAIN calls :
    \/ \E r \in {"ok", "nf", "dberr", "cerr"} : \E v \in 0 .. 1 : ENABLED REnd(c, r, v)
    \/ \E k \in Keys : running[k] # 0
    \/ \E k \in Keys : ENABLED QStart(nq + 1, k, c)
=============================================================================
