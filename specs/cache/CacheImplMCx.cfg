SPECIFICATION Spec
CONSTANTS
  Readers = {1, 2}
  Vals = {1, 2}
  MaxCalls = 2
  MaxWrites = 2
  MaxFaults = 2
  MaxExpires = 1
  MaxDbErrs = 1
  Barrier = TRUE
  CacheDbErr = FALSE
  QueryOnErr = FALSE
  TwoStepNF = FALSE
INVARIANTS OneQueryAtATime SharedResult LoadFaithful FailFast ErrorsNotCached ServedFromCache NonOverlapTrue NonOverlapCoherent FiniteTTL
CHECK_DEADLOCK FALSE
