SPECIFICATION Spec
CONSTANTS
  Readers = {1, 2}
  Vals = {1, 2}
  MaxCalls = 1
  MaxWrites = 2
  MaxFaults = 2
  MaxExpires = 1
  MaxDbErrs = 1
  Barrier = TRUE
  CacheDbErr = TRUE
  QueryOnErr = FALSE
  TwoStepNF = FALSE
INVARIANTS ErrorsNotCached NonOverlapTrue
CHECK_DEADLOCK FALSE
