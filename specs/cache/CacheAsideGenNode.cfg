SPECIFICATION MSpec
CONSTANTS
  NP = 2
  NI = 0
  Vals = {1, 2}
  ExpDs = 20
  NfDs = 10
  SetExpDs = {}
  AllowKF = FALSE
  Taint = TRUE
  Flips = TRUE
  Cuts = {2, 3}
  CutTail = 1
  MaxOps = 4
  Emit = TRUE
INVARIANTS PrintHist
VIEW ViewGen
CHECK_DEADLOCK FALSE
