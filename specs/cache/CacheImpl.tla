------------------------------ MODULE CacheImpl ------------------------------
(* Layer I for property C06: an implementation-shaped model of one key of the cache-aside
   store, written like the code - cacheNode.doTake (barrier.DoEx; GET; query; SETEX / SET NX
   of the placeholder), the SingleFlight map entry with its waiters, sqlc Exec (database
   write, then DEL; a failed DEL leaves a retry to the cleaner), the cleaner's retry, TTL
   expiry and store outages - with every step of every goroutine interleaved.

   Checked against the clauses of the Layer-P specification (CacheAside.tla):
     OneQueryAtATime   at most one reader is inside the query function
     SharedResult      a returning reader got the result of a load that was in progress
                       during its call (ghost ok[r]), and a load that ran a query returns
                       that query's result
     FailFast / ErrorsNotCached / ServedFromCache
     NonOverlapTrue    as long as no write has overlapped a read, every reader returns what
                       the database holds (or an injected error), unless a failed
                       invalidation is still owed (the known finding), and
     NonOverlapCoherent  at rest the entry reflects the database under the same premise.
   CoherentAlways is the same without the premise: it does NOT hold (read: GET miss, query
   old row; write: update + DEL; read: SETEX old row) - the documented reason for the
   property's "operations on a key do not overlap".

   Variants (constants) switch single statements to show that the clauses bite:
   Barrier = FALSE (no SingleFlight), CacheDbErr (placeholder written on a database error),
   QueryOnErr (query although GET failed).                                             *)
EXTENDS Integers, FiniteSets, TLC

CONSTANTS
  Readers,      \* reader goroutines
  Vals,         \* row versions
  MaxCalls,     \* calls per reader
  MaxWrites, MaxFaults, MaxExpires, MaxDbErrs,
  Barrier, CacheDbErr, QueryOnErr,
  TwoStepNF     \* the not-found placeholder is written in two commands (SETNX, then EXPIRE) instead of SET NX EX

Absent == -1
PH     == -1
PHP    == -2      \* the placeholder without a TTL: what a SETNX leaves until its EXPIRE has been applied
None   == -9

Res(r, v) == [r |-> r, v |-> v]
NoRes == Res("none", 0)
Truth(d) == IF d = Absent THEN Res("nf", 0) ELSE Res("ok", d)

VARIABLES
  db,        \* the row (version) or Absent
  rv,        \* redis: None, PH or a version
  down,      \* store outage
  owed,      \* a DEL failed: the entry left behind is stale until the cleaner's retry
  cur,       \* SingleFlight map: id of the open flight, 0 if none
  flights,   \* id |-> [done, res, owed]  (owed, ghost: a failed invalidation was owed during the load)
  nflights,
  pc,        \* reader |-> "idle" | "enter" | "get" | "query" | "set" | "setnf" | "finish" | "wait"
  myfl,      \* reader |-> flight it leads / waits for
  lres,      \* reader |-> result being built (leader)
  lval,      \* reader |-> value the query produced
  ret,       \* reader |-> what the last call returned
  wpc,       \* writer: "idle" | "db" | "del"
  wnew,      \* value being written
  \* ---- ghost
  ok,        \* reader |-> results of loads in progress during its current call
  queried,   \* reader |-> the query result of the load it leads (NoRes: none)
  gotErr,    \* reader |-> its GET failed
  truthAt,   \* reader |-> what the database held when its last call returned
  owedAt,    \* reader |-> a failed invalidation was owed at some moment of its last call
  ovl,       \* a write has overlapped a read (premise of the first sentence broken)
  cnt        \* budgets: [calls: reader |-> n, writes, faults, expires, dberrs]

vars == <<db, rv, down, owed, cur, flights, nflights, pc, myfl, lres, lval, ret, wpc, wnew,
          ok, queried, gotErr, truthAt, owedAt, ovl, cnt>>

InCall(r) == pc[r] # "idle"
AnyInCall == \E r \in Readers : InCall(r)

Init ==
  /\ db = Absent /\ rv = None /\ down = FALSE /\ owed = FALSE
  /\ cur = 0 /\ flights = <<>> /\ nflights = 0
  /\ pc = [r \in Readers |-> "idle"] /\ myfl = [r \in Readers |-> 0]
  /\ lres = [r \in Readers |-> NoRes] /\ lval = [r \in Readers |-> 0]
  /\ ret = [r \in Readers |-> NoRes]
  /\ wpc = "idle" /\ wnew = Absent
  /\ ok = [r \in Readers |-> {}] /\ queried = [r \in Readers |-> NoRes]
  /\ gotErr = [r \in Readers |-> FALSE]
  /\ truthAt = [r \in Readers |-> NoRes] /\ owedAt = [r \in Readers |-> FALSE]
  /\ ovl = FALSE
  /\ cnt = [calls |-> [r \in Readers |-> 0], writes |-> 0, faults |-> 0, expires |-> 0, dberrs |-> 0]

Same(vs) == UNCHANGED vs

\* ------------------------------------------------------------------ reader: cacheNode.doTake
Start(r) ==
  /\ pc[r] = "idle" /\ cnt.calls[r] < MaxCalls
  /\ pc' = [pc EXCEPT ![r] = "enter"]
  /\ cnt' = [cnt EXCEPT !.calls[r] = @ + 1]
  /\ ok' = [ok EXCEPT ![r] = {}]
  /\ ret' = [ret EXCEPT ![r] = NoRes]
  /\ queried' = [queried EXCEPT ![r] = NoRes]
  /\ gotErr' = [gotErr EXCEPT ![r] = FALSE]
  /\ owedAt' = [owedAt EXCEPT ![r] = owed]
  /\ ovl' = (ovl \/ wpc # "idle")
  /\ Same(<<db, rv, down, owed, cur, flights, nflights, myfl, lres, lval, wpc, wnew, truthAt>>)

\* barrier.DoEx: join the open flight or open one
Enter(r) ==
  /\ pc[r] = "enter"
  /\ IF Barrier /\ cur # 0
       THEN /\ myfl' = [myfl EXCEPT ![r] = cur]
            /\ pc' = [pc EXCEPT ![r] = "wait"]
            /\ Same(<<cur, flights, nflights>>)
       ELSE /\ nflights' = nflights + 1
            /\ flights' = [i \in DOMAIN flights \cup {nflights + 1} |->
                             IF i = nflights + 1 THEN [done |-> FALSE, res |-> NoRes, owed |-> FALSE] ELSE flights[i]]
            /\ cur' = IF Barrier THEN nflights + 1 ELSE cur
            /\ myfl' = [myfl EXCEPT ![r] = nflights + 1]
            /\ pc' = [pc EXCEPT ![r] = "get"]
  /\ Same(<<db, rv, down, owed, lres, lval, ret, wpc, wnew, ok, queried, gotErr, truthAt, owedAt, ovl, cnt>>)

\* doGetCache
GetCache(r) ==
  /\ pc[r] = "get"
  /\ IF down THEN
       /\ gotErr' = [gotErr EXCEPT ![r] = TRUE]
       /\ IF QueryOnErr THEN pc' = [pc EXCEPT ![r] = "query"] /\ Same(lres)
          ELSE pc' = [pc EXCEPT ![r] = "finish"] /\ lres' = [lres EXCEPT ![r] = Res("cerr", 0)]
     ELSE
       /\ Same(gotErr)
       /\ IF rv = None THEN pc' = [pc EXCEPT ![r] = "query"] /\ Same(lres)
          ELSE /\ pc' = [pc EXCEPT ![r] = "finish"]
               /\ lres' = [lres EXCEPT ![r] = IF rv \in {PH, PHP} THEN Res("nf", 0) ELSE Res("ok", rv)]
  /\ Same(<<db, rv, down, owed, cur, flights, nflights, myfl, lval, ret, wpc, wnew, ok, queried, truthAt, owedAt, ovl, cnt>>)

\* the query function returns (the harness may make it fail)
Query(r) ==
  /\ pc[r] = "query"
  /\ \E fail \in BOOLEAN :
       /\ fail => cnt.dberrs < MaxDbErrs
       /\ LET q == IF fail THEN Res("dberr", 0) ELSE Truth(db) IN
            /\ queried' = [queried EXCEPT ![r] = q]
            /\ cnt' = IF fail THEN [cnt EXCEPT !.dberrs = @ + 1] ELSE cnt
            /\ IF fail THEN /\ lres' = [lres EXCEPT ![r] = q]
                            /\ pc' = [pc EXCEPT ![r] = IF CacheDbErr THEN "setnf" ELSE "finish"]
                            /\ Same(lval)
               ELSE IF db = Absent THEN /\ lres' = [lres EXCEPT ![r] = q]
                                        /\ pc' = [pc EXCEPT ![r] = "setnf"]
                                        /\ Same(lval)
               ELSE /\ lres' = [lres EXCEPT ![r] = q]
                    /\ lval' = [lval EXCEPT ![r] = db]
                    /\ pc' = [pc EXCEPT ![r] = "set"]
  /\ Same(<<db, rv, down, owed, cur, flights, nflights, myfl, ret, wpc, wnew, ok, gotErr, truthAt, owedAt, ovl>>)

\* cacheVal: SETEX (overwrites); setCacheWithNotFound: SET NX EX; errors are only logged
\* (TwoStepNF: SETNX leaves the placeholder without a TTL, the EXPIRE that follows gives it one - a store that
\* fails between the two leaves a persistent key)
SetCache(r) ==
  /\ pc[r] \in {"set", "setnf"}
  /\ rv' = IF down THEN rv
           ELSE IF pc[r] = "set" THEN lval[r]
           ELSE IF rv = None THEN (IF TwoStepNF THEN PHP ELSE PH) ELSE rv
  /\ pc' = [pc EXCEPT ![r] = IF TwoStepNF /\ pc[r] = "setnf" /\ ~down /\ rv = None THEN "expire" ELSE "finish"]
  /\ Same(<<db, down, owed, cur, flights, nflights, myfl, lres, lval, ret, wpc, wnew, ok, queried, gotErr, truthAt, owedAt, ovl, cnt>>)

ExpireCmd(r) ==
  /\ pc[r] = "expire"
  /\ rv' = IF ~down /\ rv = PHP THEN PH ELSE rv
  /\ pc' = [pc EXCEPT ![r] = "finish"]
  /\ Same(<<db, down, owed, cur, flights, nflights, myfl, lres, lval, ret, wpc, wnew, ok, queried, gotErr, truthAt, owedAt, ovl, cnt>>)

\* the flight's function returned: result published, map entry removed, the leader returns
Finish(r) ==
  /\ pc[r] = "finish"
  /\ flights' = [flights EXCEPT ![myfl[r]] = [done |-> TRUE, res |-> lres[r], owed |-> owedAt[r] \/ owed]]
  /\ cur' = IF cur = myfl[r] THEN 0 ELSE cur
  /\ ok' = [x \in Readers |-> IF InCall(x) THEN ok[x] \cup {lres[r]} ELSE ok[x]]
  /\ ret' = [ret EXCEPT ![r] = lres[r]]
  /\ truthAt' = [truthAt EXCEPT ![r] = Truth(db)]
  /\ owedAt' = [owedAt EXCEPT ![r] = @ \/ owed]
  /\ pc' = [pc EXCEPT ![r] = "idle"]
  /\ Same(<<db, rv, down, owed, nflights, myfl, lres, lval, wpc, wnew, queried, gotErr, ovl, cnt>>)

\* a waiter wakes up with the flight's result
Wake(r) ==
  /\ pc[r] = "wait" /\ flights[myfl[r]].done
  /\ ret' = [ret EXCEPT ![r] = flights[myfl[r]].res]
  /\ truthAt' = [truthAt EXCEPT ![r] = Truth(db)]
  /\ owedAt' = [owedAt EXCEPT ![r] = @ \/ owed \/ flights[myfl[r]].owed]   \* the load it shares may have been served from a stale entry
  /\ pc' = [pc EXCEPT ![r] = "idle"]
  /\ Same(<<db, rv, down, owed, cur, flights, nflights, myfl, lres, lval, wpc, wnew, ok, queried, gotErr, ovl, cnt>>)

\* ------------------------------------------------------------------ writer: sqlc Exec
WStart ==
  /\ wpc = "idle" /\ cnt.writes < MaxWrites
  /\ \E v \in (Vals \cup {Absent}) \ {db} : wnew' = v
  /\ wpc' = "db"
  /\ cnt' = [cnt EXCEPT !.writes = @ + 1]
  /\ ovl' = (ovl \/ AnyInCall)
  /\ Same(<<db, rv, down, owed, cur, flights, nflights, pc, myfl, lres, lval, ret, ok, queried, gotErr, truthAt, owedAt>>)

WDb ==
  /\ wpc = "db"
  /\ db' = wnew /\ wpc' = "del"
  /\ Same(<<rv, down, owed, cur, flights, nflights, pc, myfl, lres, lval, ret, wnew, ok, queried, gotErr, truthAt, owedAt, ovl, cnt>>)

\* DelCtx: a failed DEL is logged, handed to the cleaner, and nil is returned
WDel ==
  /\ wpc = "del"
  /\ IF down THEN owed' = (owed \/ rv # None) /\ Same(rv)
             ELSE rv' = None /\ owed' = FALSE
  /\ wpc' = "idle"
  /\ owedAt' = [r \in Readers |-> owedAt[r] \/ (InCall(r) /\ owed')]
  /\ Same(<<db, down, cur, flights, nflights, pc, myfl, lres, lval, ret, wnew, ok, queried, gotErr, truthAt, ovl, cnt>>)

\* ------------------------------------------------------------------ environment
Cleaner ==
  /\ owed /\ ~down
  /\ rv' = None /\ owed' = FALSE
  /\ Same(<<db, down, cur, flights, nflights, pc, myfl, lres, lval, ret, wpc, wnew, ok, queried, gotErr, truthAt, owedAt, ovl, cnt>>)

Expire ==
  /\ rv \notin {None, PHP} /\ cnt.expires < MaxExpires
  /\ rv' = None /\ owed' = FALSE
  /\ cnt' = [cnt EXCEPT !.expires = @ + 1]
  /\ Same(<<db, down, cur, flights, nflights, pc, myfl, lres, lval, ret, wpc, wnew, ok, queried, gotErr, truthAt, owedAt, ovl>>)

Fault ==
  /\ cnt.faults < MaxFaults
  /\ down' = ~down
  /\ cnt' = [cnt EXCEPT !.faults = @ + 1]
  /\ Same(<<db, rv, owed, cur, flights, nflights, pc, myfl, lres, lval, ret, wpc, wnew, ok, queried, gotErr, truthAt, owedAt, ovl>>)

Next ==
  \/ \E r \in Readers : Start(r) \/ Enter(r) \/ GetCache(r) \/ Query(r) \/ SetCache(r) \/ ExpireCmd(r) \/ Finish(r) \/ Wake(r)
  \/ WStart \/ WDb \/ WDel \/ Cleaner \/ Expire \/ Fault

Spec == Init /\ [][Next]_vars

\* ------------------------------------------------------------------ the clauses
OneQueryAtATime == Cardinality({r \in Readers : pc[r] = "query"}) <= 1

Returned(r) == pc[r] = "idle" /\ ret[r] # NoRes
SharedResult == \A r \in Readers : Returned(r) => ret[r] \in ok[r]
LoadFaithful == \A r \in Readers :
  pc[r] = "finish" /\ queried[r] # NoRes => lres[r] = queried[r]

FailFast == \A r \in Readers : gotErr[r] => pc[r] # "query" /\ queried[r] = NoRes
\* a database error leaves the entry alone (the reader is about to return it)
ErrorsNotCached == \A r \in Readers : queried[r].r = "dberr" => pc[r] \notin {"set", "setnf"}
\* a query only runs after a miss
ServedFromCache == \A r \in Readers : pc[r] = "query" /\ ~gotErr[r] /\ ~ovl /\ Barrier => rv = None

\* first sentence of C06, with its premise
NonOverlapTrue == \A r \in Readers :
  Returned(r) /\ ~ovl /\ ~owedAt[r] => ret[r] \in {truthAt[r], Res("dberr", 0), Res("cerr", 0)}
AtRest == ~AnyInCall /\ wpc = "idle"
Reflects == rv = None \/ rv = (IF db = Absent THEN PH ELSE db) \/ (rv = PHP /\ db = Absent)
\* every entry carries a finite TTL: once the call that wrote it is over, no entry is without one
FiniteTTL == ~AnyInCall => rv # PHP
NonOverlapCoherent == AtRest /\ ~ovl /\ ~owed => Reflects
\* ... and without it (does not hold: the cache-aside race)
CoherentAlways == AtRest /\ ~owed => Reflects
=============================================================================
